(** C03 — the bookkeeping invariant behind "at most one vote of each type and one proposal per
    (height, round)": signed messages never lie in the future of (height, round), a vote signed
    for the current round is reflected in the step, accepted timeouts are never for a future
    round, and the signed keys are pairwise distinct. *)
From Coq Require Import List ZArith NArith Bool Lia.
From Kardia Require Import C03.Node C03.ProofsMono.
Import ListNotations.
Local Open Scope N_scope.

Definition vkey (v : vote) : vtype * N * N := (v_type v, v_height v, v_round v).
Definition pkey (p : proposal) : N * N := (p_height p, p_round p).
Definition past (s : nstate) (h r : N) : Prop := h < height s \/ (h = height s /\ r <= round s).
Definition tstep (ty : vtype) : N := match ty with Prevote => 4 | Precommit => 6 end.

(** the signed votes (newest first) never go back in (height, round) *)
Definition mono_sv (sv : list vote) : Prop :=
  forall post v pre, sv = post ++ v :: pre ->
    forall w, In w pre -> v_height w = v_height v -> v_round w <= v_round v.

Lemma mono_sv_cons v sv :
  mono_sv sv -> (forall w, In w sv -> v_height w = v_height v -> v_round w <= v_round v) ->
  mono_sv (v :: sv).
Proof.
  intros M H post x pre E. destruct post as [|y post]; cbn in E.
  - injection E as <- <-. exact H.
  - injection E as <- E. eapply M; eauto.
Qed.

Record Inv1 (s : nstate) : Prop := {
  i_round : 1 <= round s;
  i_past : forall v, In v (signed_votes (log s)) -> past s (v_height v) (v_round v);
  i_cur : forall v, In v (signed_votes (log s)) -> v_height v = height s -> v_round v = round s ->
                    tstep (v_type v) <= step_num (rstep s);
  i_nodup : NoDup (map vkey (signed_votes (log s)));
  i_ppast : forall p, In p (signed_proposals (log s)) -> past s (p_height p) (p_round p);
  i_pcur : forall p, In p (signed_proposals (log s)) -> p_height p = height s -> p_round p = round s ->
                     3 <= step_num (rstep s);
  i_pnodup : NoDup (map pkey (signed_proposals (log s)));
  i_tk : forall h r st, In (h, r, st) (timeouts s) -> past s h r;
  i_mono : mono_sv (signed_votes (log s)) }.

(** the three ways (height, round, step) can advance *)
Definition adv (s s' : nstate) : Prop :=
  (height s < height s' /\ 1 <= round s') \/
  (height s = height s' /\ round s < round s') \/
  (height s = height s' /\ round s = round s' /\ step_num (rstep s) <= step_num (rstep s')).

Definition tk_ok (s s' : nstate) : Prop :=
  forall h r st, In (h, r, st) (timeouts s') -> In (h, r, st) (timeouts s) \/ past s' h r.

Lemma past_adv s s' h r : adv s s' -> past s h r -> past s' h r.
Proof. unfold adv, past. intros A P. lia. Qed.

Lemma Inv1_move s s' :
  Inv1 s -> adv s s' ->
  signed_votes (log s') = signed_votes (log s) ->
  signed_proposals (log s') = signed_proposals (log s) ->
  tk_ok s s' -> Inv1 s'.
Proof.
  intros I A EV EP TK. destruct I as [I1 I2 I3 I4 I5 I6 I7 I8 I9].
  split; rewrite ?EV, ?EP; [| | | | | | | |exact I9].
  - unfold adv in A. lia.
  - intros v Hv. eapply past_adv; eauto.
  - intros v Hv Hh Hr. specialize (I2 v Hv). specialize (I3 v Hv). unfold adv, past in *. lia.
  - exact I4.
  - intros p Hp. eapply past_adv; eauto.
  - intros p Hp Hh Hr. specialize (I5 p Hp). specialize (I6 p Hp). unfold adv, past in *. lia.
  - exact I7.
  - intros h r st Hin. destruct (TK h r st Hin) as [H|H]; [|exact H]. eapply past_adv; eauto.
Qed.

Lemma in_map_vkey v l : In (vkey v) (map vkey l) -> exists w, In w l /\ vkey w = vkey v.
Proof. intros H. apply in_map_iff in H. destruct H as (w & E & Hw). eauto. Qed.

Lemma Inv1_sign_vote s s' v :
  Inv1 s ->
  height s' = height s -> round s' = round s ->
  step_num (rstep s) <= step_num (rstep s') ->
  tstep (v_type v) <= step_num (rstep s') ->
  step_num (rstep s) < tstep (v_type v) ->
  v_height v = height s -> v_round v = round s ->
  signed_votes (log s') = v :: signed_votes (log s) ->
  signed_proposals (log s') = signed_proposals (log s) ->
  tk_ok s s' -> Inv1 s'.
Proof.
  intros I Hh Hr Hst Hty Hlt Vh Vr EV EP TK. destruct I as [I1 I2 I3 I4 I5 I6 I7 I8 I9].
  assert (A : adv s s') by (unfold adv; lia).
  split; rewrite ?EV, ?EP;
    [| | | | | | | |apply mono_sv_cons; [exact I9|];
                     intros w Hw Wh; specialize (I2 w Hw); unfold past in I2; lia].
  - lia.
  - intros w [<-|Hw]; [unfold past; lia|]. eapply past_adv; eauto.
  - intros w [<-|Hw] Wh Wr; [exact Hty|]. specialize (I3 w Hw). lia.
  - cbn. constructor; [|exact I4]. intros Hin. apply in_map_vkey in Hin. destruct Hin as (w & Hw & Ek).
    unfold vkey in Ek. injection Ek as E1 E2 E3. specialize (I3 w Hw). rewrite E1 in I3. lia.
  - intros p Hp. eapply past_adv; eauto.
  - intros p Hp Ph Pr. specialize (I6 p Hp). lia.
  - exact I7.
  - intros h r st Hin. destruct (TK h r st Hin) as [H|H]; [|exact H]. eapply past_adv; eauto.
Qed.

Lemma Inv1_sign_prop s s' p :
  Inv1 s ->
  height s' = height s -> round s' = round s ->
  step_num (rstep s) <= step_num (rstep s') ->
  3 <= step_num (rstep s') -> step_num (rstep s) < 3 ->
  p_height p = height s -> p_round p = round s ->
  signed_votes (log s') = signed_votes (log s) ->
  signed_proposals (log s') = p :: signed_proposals (log s) ->
  tk_ok s s' -> Inv1 s'.
Proof.
  intros I Hh Hr Hst Hty Hlt Vh Vr EV EP TK. destruct I as [I1 I2 I3 I4 I5 I6 I7 I8 I9].
  assert (A : adv s s') by (unfold adv; lia).
  split; rewrite ?EV, ?EP; [| | | | | | | |exact I9].
  - lia.
  - intros w Hw. eapply past_adv; eauto.
  - intros w Hw Wh Wr. specialize (I3 w Hw). lia.
  - exact I4.
  - intros q [<-|Hq]; [unfold past; lia|]. eapply past_adv; eauto.
  - intros q [<-|Hq] Qh Qr; [exact Hty|]. specialize (I6 q Hq). lia.
  - cbn. constructor; [|exact I7]. intros Hin. apply in_map_iff in Hin. destruct Hin as (w & Ek & Hw).
    unfold pkey in Ek. injection Ek as E1 E2. specialize (I6 w Hw). lia.
  - intros h r st Hin. destruct (TK h r st Hin) as [H|H]; [|exact H]. eapply past_adv; eauto.
Qed.

Lemma tk_ok_same s s' : timeouts s' = timeouts s -> tk_ok s s'.
Proof. intros E h r st H. rewrite E in H. now left. Qed.

(** frame: a function that keeps height and round *)
Definition keeps (s s' : nstate) : Prop := height s' = height s /\ round s' = round s.

Lemma Inv1_panic s : Inv1 s -> Inv1 (panic s).
Proof.
  intros I. apply (Inv1_move s); auto; try reflexivity.
  - unfold adv. cbn. lia.
  - now apply tk_ok_same.
Qed.

Lemma Inv1_emit_other o s :
  (forall v, o <> SignVote v) -> (forall p, o <> SignProposal p) -> Inv1 s -> Inv1 (emit o s).
Proof.
  intros NV NP I. apply (Inv1_move s); auto.
  - unfold adv. cbn. lia.
  - cbn. destruct o; try reflexivity. exfalso. eapply NV; eauto.
  - cbn. destruct o; try reflexivity. exfalso. eapply NP; eauto.
  - now apply tk_ok_same.
Qed.

Lemma Inv1_sched h r st s : Inv1 s -> past s h r -> Inv1 (sched h r st s).
Proof.
  intros I P. unfold sched. destruct (tk_accepts _ _).
  - apply (Inv1_move s); auto; try reflexivity.
    + unfold adv. cbn. lia.
    + intros h' r' st' [E|H]; [|now left]. injection E as <- <- <-. right. exact P.
  - apply Inv1_emit_other; auto; discriminate.
Qed.

Lemma sched_keeps h r st s : keeps s (sched h r st s).
Proof. unfold sched. destruct (tk_accepts _ _); split; reflexivity. Qed.
Lemma sched_rstep h r st s : rstep (sched h r st s) = rstep s.
Proof. unfold sched. destruct (tk_accepts _ _); reflexivity. Qed.
Lemma sched_votes h r st s : signed_votes (log (sched h r st s)) = signed_votes (log s).
Proof. unfold sched. destruct (tk_accepts _ _); reflexivity. Qed.
Lemma sched_props h r st s : signed_proposals (log (sched h r st s)) = signed_proposals (log s).
Proof. unfold sched. destruct (tk_accepts _ _); reflexivity. Qed.

(** states that agree on everything the invariant looks at *)
Definition core_eq (s s0 : nstate) : Prop :=
  height s0 = height s /\ round s0 = round s /\ rstep s0 = rstep s /\ log s0 = log s /\
  timeouts s0 = timeouts s.

Lemma core_eq_refl s : core_eq s s.
Proof. repeat split. Qed.
Lemma core_eq_trans a b c : core_eq a b -> core_eq b c -> core_eq a c.
Proof. unfold core_eq. intros (A1 & A2 & A3 & A4 & A5) (B1 & B2 & B3 & B4 & B5). repeat split; congruence. Qed.

Lemma Inv1_core s s0 : core_eq s s0 -> Inv1 s -> Inv1 s0.
Proof.
  intros (A1 & A2 & A3 & A4 & A5) I. apply (Inv1_move s); auto.
  - unfold adv. rewrite A1, A2, A3. lia.
  - now rewrite A4.
  - now rewrite A4.
  - now apply tk_ok_same.
Qed.

Lemma core_keeps s s0 : core_eq s s0 -> keeps s s0.
Proof. intros (A1 & A2 & _). split; assumption. Qed.
Lemma keeps_refl s : keeps s s.
Proof. split; reflexivity. Qed.
Lemma keeps_trans a b c : keeps a b -> keeps b c -> keeps a c.
Proof. unfold keeps. intros (A & B) (C & D). split; congruence. Qed.

Definition Pre (h r : N) (s : nstate) : Prop := height s = h -> r <= round s.

Lemma Pre_keeps h r s s' : keeps s s' -> Pre h r s -> Pre h r s'.
Proof. unfold keeps, Pre. intros (A & B) P H. rewrite B. apply P. congruence. Qed.

Lemma andthen_inv (f g : nstate -> nstate) s (Q : nstate -> Prop) :
  Inv1 (f s) -> (halted (f s) = true -> Q (f s)) ->
  (Inv1 (f s) -> Inv1 (g (f s)) /\ Q (g (f s))) -> Inv1 ((f ;; g) s) /\ Q ((f ;; g) s).
Proof. intros I H1 H2. unfold andthen. destruct (halted (f s)); auto. Qed.

Lemma andthen_I (f g : nstate -> nstate) s :
  Inv1 (f s) -> (forall x, Inv1 x -> Inv1 (g x)) -> Inv1 ((f ;; g) s).
Proof. intros I H. unfold andthen. destruct (halted (f s)); auto. Qed.

Section Inv.
Variable valid : N -> block -> bool.
Variable vals : N -> list Z.
Variable proposer : N -> N -> N.
Variable mkblock : N -> N -> option block.
Variable cfg : config.
Variable me : option N.

(** sign a vote for the current round and move the step to (at least) the vote's step *)
Lemma sign_done ty b st' r s s0 :
  Inv1 s -> core_eq s s0 -> r = round s ->
  step_num (rstep s) < tstep ty -> tstep ty <= step_num st' ->
  Inv1 (set_rstep st' (set_round r (sign_vote me ty b s0))) /\
  keeps s (set_rstep st' (set_round r (sign_vote me ty b s0))).
Proof.
  intros I (A1 & A2 & A3 & A4 & A5) -> Hlt Hle. unfold sign_vote. destruct me as [i|].
  - split; [|split; cbn; auto].
    eapply Inv1_sign_vote with (s := s)
      (v := {| v_type := ty; v_height := height s0; v_round := round s0; v_bid := b; v_idx := i; v_ok := true |});
      cbn; auto; try lia.
    + now rewrite A4.
    + now rewrite A4.
    + apply tk_ok_same. cbn. exact A5.
  - split; [|split; cbn; auto].
    apply (Inv1_move s); cbn; auto.
    + unfold adv. cbn. rewrite A1. lia.
    + now rewrite A4.
    + now rewrite A4.
    + apply tk_ok_same. cbn. exact A5.
Qed.

Lemma guard_round (h r : N) s (b : bool) :
  negb (height s =? h) || (r <? round s) || ((round s =? r) && b) = false ->
  Pre h r s -> height s = h /\ r = round s /\ b = false.
Proof.
  intros G P. b2p. specialize (P H). assert (E : round s = r) by lia.
  apply N.eqb_eq in E. rewrite E in H0. cbn in H0. apply N.eqb_eq in E. auto.
Qed.

Lemma enter_prevote_inv h r s :
  Inv1 s -> Pre h r s ->
  Inv1 (enter_prevote valid me h r s) /\ keeps s (enter_prevote valid me h r s).
Proof.
  intros I P. unfold enter_prevote.
  destruct (negb (height s =? h) || (r <? round s) || ((round s =? r) && step_le SPrevote (rstep s))) eqn:G;
    [split; [exact I|apply keeps_refl]|].
  apply guard_round in G; auto. destruct G as (Hh & Hr & Hs). b2p. cbn in Hs.
  unfold do_prevote.
  set (s1 := match locked s with Some _ => if stale_lock s then unlock s else s | None => s end).
  assert (C1 : core_eq s s1).
  { subst s1. destruct (locked s); [|apply core_eq_refl]. destruct (stale_lock s); repeat split. }
  clearbody s1. unfold do_prevote_locked.
  destruct (locked s1); [apply sign_done; auto; cbn; lia|].
  destruct (pblock s1); [|apply sign_done; auto; cbn; lia].
  destruct (negb _); apply sign_done; auto; cbn; lia.
Qed.

Lemma enter_precommit_inv h r s :
  Inv1 s -> Pre h r s ->
  Inv1 (enter_precommit valid me h r s) /\ keeps s (enter_precommit valid me h r s).
Proof.
  intros I P. unfold enter_precommit.
  destruct (negb (height s =? h) || (r <? round s) || ((round s =? r) && step_le SPrecommit (rstep s))) eqn:G;
    [split; [exact I|apply keeps_refl]|].
  apply guard_round in G; auto. destruct G as (Hh & Hr & Hs). b2p. cbn in Hs.
  assert (T : forall b s0, core_eq s s0 ->
     Inv1 (set_rstep SPrecommit (set_round r (sign_vote me Precommit b s0))) /\
     keeps s (set_rstep SPrecommit (set_round r (sign_vote me Precommit b s0)))).
  { intros b s0 C. apply sign_done; auto; cbn; lia. }
  destruct (maj_of _); [|apply T, core_eq_refl].
  destruct (pol_info s <? r); [split; [now apply Inv1_panic|split; reflexivity]|].
  destruct (bid_is_zero _). { destruct (locked s); apply T; repeat split. }
  destruct (hashes_to (locked s) _). { apply T; repeat split. }
  destruct (hashes_to (pblock s) _).
  { destruct (pblock s); [|split; [exact I|apply keeps_refl]].
    destruct (negb _); [split; [now apply Inv1_panic|split; reflexivity]|]. apply T; repeat split. }
  destruct (negb _); apply T; repeat split.
Qed.

Lemma enter_prevote_wait_inv h r s :
  Inv1 s -> Pre h r s ->
  Inv1 (enter_prevote_wait vals h r s) /\ keeps s (enter_prevote_wait vals h r s).
Proof.
  intros I P. unfold enter_prevote_wait.
  destruct (negb (height s =? h) || (r <? round s) || ((round s =? r) && step_le SPrevoteWait (rstep s))) eqn:G;
    [split; [exact I|apply keeps_refl]|].
  apply guard_round in G; auto. destruct G as (Hh & Hr & Hs). b2p. cbn in Hs.
  destruct (negb _); [split; [now apply Inv1_panic|split; reflexivity]|].
  assert (I1 : Inv1 (sched h r SPrevoteWait s)). { apply Inv1_sched; auto. unfold past. lia. }
  destruct (sched_keeps h r SPrevoteWait s) as (K1 & K2).
  split; [|split; cbn; congruence].
  apply (Inv1_move (sched h r SPrevoteWait s)); auto.
  - unfold adv. cbn. rewrite sched_rstep, K2. cbn. lia.
  - now apply tk_ok_same.
Qed.

Lemma enter_precommit_wait_inv h r s :
  Inv1 s -> Inv1 (enter_precommit_wait vals h r s) /\ keeps s (enter_precommit_wait vals h r s).
Proof.
  intros I. unfold enter_precommit_wait.
  destruct (negb (height s =? h) || negb (r =? round s) || _) eqn:G; [split; [exact I|apply keeps_refl]|].
  b2p.
  destruct (negb _); [split; [now apply Inv1_panic|split; reflexivity]|].
  assert (I1 : Inv1 (sched h r SPrecommitWait s)). { apply Inv1_sched; auto. unfold past. lia. }
  split.
  - eapply Inv1_core; [|exact I1]. repeat split.
  - apply (sched_keeps h r SPrecommitWait s).
Qed.

Lemma update_to_state_inv s : Inv1 s -> Inv1 (update_to_state s).
Proof.
  intros I. unfold update_to_state.
  assert (R : forall lc, Inv1 (reset_height lc s)).
  { intros lc. apply (Inv1_move s); auto; try reflexivity.
    - unfold adv. cbn. lia.
    - now apply tk_ok_same. }
  destruct (0 <? commit_round s).
  - destruct (get_vs _ _ _); [|now apply Inv1_panic]. destruct (has_maj _); [apply R|now apply Inv1_panic].
  - destruct (last_commit s); [apply R|now apply Inv1_panic].
Qed.

Lemma finalize_commit_inv h s : Inv1 s -> Inv1 (finalize_commit valid h s).
Proof.
  intros I. unfold finalize_commit.
  destruct (_ || _); [exact I|].
  destruct (maj_of _); [|now apply Inv1_panic].
  destruct (negb _); [now apply Inv1_panic|].
  destruct (negb _); [now apply Inv1_panic|].
  destruct (pblock s); [|now apply Inv1_panic].
  destruct (negb _); [now apply Inv1_panic|].
  destruct (negb _); [now apply Inv1_panic|].
  apply andthen_I; [apply andthen_I|].
  - apply Inv1_emit_other; auto; discriminate.
  - apply update_to_state_inv.
  - intros x Ix. apply Inv1_sched; auto. unfold past. right. split; [reflexivity|]. apply (i_round _ Ix).
Qed.

Lemma try_finalize_commit_inv h s : Inv1 s -> Inv1 (try_finalize_commit valid h s).
Proof.
  intros I. unfold try_finalize_commit.
  destruct (negb _); [now apply Inv1_panic|].
  destruct (maj_of _); [|exact I].
  destruct (bid_is_zero _); [exact I|]. destruct (negb _); [exact I|]. now apply finalize_commit_inv.
Qed.

Lemma enter_commit_inv h cr s : Inv1 s -> Inv1 (enter_commit valid h cr s).
Proof.
  intros I. unfold enter_commit.
  destruct (negb (height s =? h) || step_le SCommit (rstep s)) eqn:G; [exact I|]. b2p.
  destruct (maj_of _); [|now apply Inv1_panic].
  apply try_finalize_commit_inv.
  match goal with |- Inv1 (set_commit_round cr (set_rstep SCommit ?s2)) => assert (C : core_eq s s2) end.
  { destruct (hashes_to (locked s) _); destruct (_ && _); repeat split. }
  destruct C as (A1 & A2 & A3 & A4 & A5).
  apply (Inv1_move s); cbn; auto.
  - unfold adv. cbn in *. rewrite A1, A2, ?A3. lia.
  - now rewrite A4.
  - now rewrite A4.
  - apply tk_ok_same. cbn. exact A5.
Qed.

Lemma decide_proposal_shape m h r s :
  decide_proposal mkblock cfg m h r s = s \/
  exists p, p_height p = h /\ p_round p = r /\ decide_proposal mkblock cfg m h r s = emit (SignProposal p) s.
Proof.
  unfold decide_proposal. destruct m; [|now left].
  destruct (valid_blk s). { right. eexists (Build_proposal h r _ _ _). repeat split. }
  destruct (_ || _); [|now left]. destruct (mkblock _ _); [|now left].
  right. eexists (Build_proposal h r _ _ _). repeat split.
Qed.

Lemma enter_propose_inv h r s :
  Inv1 s -> Pre h r s ->
  Inv1 (enter_propose valid proposer mkblock cfg me h r s) /\
  keeps s (enter_propose valid proposer mkblock cfg me h r s).
Proof.
  intros I P. unfold enter_propose.
  destruct (negb (height s =? h) || (r <? round s) || ((round s =? r) && step_le SPropose (rstep s))) eqn:G;
    [split; [exact I|apply keeps_refl]|].
  apply guard_round in G; auto. destruct G as (Hh & Hr & Hs). b2p. cbn in Hs.
  set (s1 := sched h r SPropose s).
  assert (I1 : Inv1 s1). { apply Inv1_sched; auto. unfold past. lia. }
  destruct (sched_keeps h r SPropose s) as (K1 & K2). fold s1 in K1, K2.
  assert (R1 : rstep s1 = rstep s) by apply sched_rstep.
  set (s2 := match me with Some i => _ | None => s1 end).
  assert (S2 : s2 = s1 \/ exists p, p_height p = h /\ p_round p = r /\ s2 = emit (SignProposal p) s1).
  { subst s2. destruct me; [|now left]. destruct (_ =? _); [apply decide_proposal_shape|now left]. }
  assert (I3 : Inv1 (set_rstep SPropose (set_round r s2)) /\ keeps s (set_rstep SPropose (set_round r s2))).
  { destruct S2 as [->|(p & Ph & Pr & ->)].
    - split; [|split; cbn; congruence]. apply (Inv1_move s1); cbn; auto.
      + unfold adv. cbn. rewrite R1. lia.
      + now apply tk_ok_same.
    - split; [|split; cbn; congruence].
      eapply Inv1_sign_prop with (s := s1) (p := p); cbn; auto; try lia; try congruence;
        try (rewrite R1; lia); try (now apply tk_ok_same). }
  destruct I3 as (I3 & K3).
  destruct (is_proposal_complete _); [|split; assumption].
  destruct (enter_prevote_inv h (round (set_rstep SPropose (set_round r s2))) _ I3) as (I4 & K4).
  { intros _. lia. }
  split; [exact I4|eapply keeps_trans; eauto].
Qed.

Lemma add_round_core r s : core_eq s (add_round r s).
Proof. unfold add_round. destruct (get_rv _ _); repeat split. Qed.
Lemma add_rounds_from_core n : forall lo s, core_eq s (add_rounds_from lo n s).
Proof.
  induction n as [|n IH]; intros lo s; cbn; [apply core_eq_refl|].
  eapply core_eq_trans; [apply (add_round_core lo)|apply IH].
Qed.

Lemma hvs_set_round_inv nr s :
  Inv1 s -> Inv1 (hvs_set_round nr s) /\ keeps s (hvs_set_round nr s) /\ rstep (hvs_set_round nr s) = rstep s.
Proof.
  intros I. unfold hvs_set_round. destruct (_ && _).
  - split; [now apply Inv1_panic|]. repeat split.
  - pose proof (add_rounds_from_core (N.to_nat (nr + 1 - (hvs_round s - 1))) (hvs_round s - 1) s) as C.
    assert (C' : core_eq s (set_hvs_round nr (add_rounds_from (hvs_round s - 1) (N.to_nat (nr + 1 - (hvs_round s - 1))) s))).
    { destruct C as (A1 & A2 & A3 & A4 & A5). repeat split; cbn; assumption. }
    split; [eapply Inv1_core; eauto|]. split; [now apply core_keeps|]. apply C'.
Qed.

Lemma enter_new_round_inv h r s :
  Inv1 s ->
  let s' := enter_new_round valid proposer mkblock cfg me h r s in
  Inv1 s' /\ height s' = height s /\ Pre h r s'.
Proof.
  intros I. cbv zeta. unfold enter_new_round.
  destruct (negb (height s =? h) || (r <? round s) || ((round s =? r) && negb (step_eqb (rstep s) SNewHeight))) eqn:G.
  { split; [exact I|]. split; [reflexivity|]. intros Hh.
    destruct (negb (height s =? h)) eqn:G1. { b2p. congruence. }
    cbn in G. destruct (r <? round s) eqn:G2. { b2p. lia. }
    cbn in G. b2p. lia. }
  assert (G' : height s = h /\ (round s < r \/ (round s = r /\ step_num (rstep s) = 1))).
  { b2p. split; [assumption|]. destruct (N.eq_dec (round s) r) as [E|E].
    - right. split; [exact E|]. apply N.eqb_eq in E. rewrite E in *. cbn in *. b2p. cbn in *. lia.
    - left. lia. }
  clear G. destruct G' as (Hh & G').
  match goal with |- context [(_ ;; ?g) ?s3] => set (Gf := g); set (S3 := s3) end.
  assert (H3 : Inv1 S3 /\ height S3 = height s /\ round S3 = r /\ rstep S3 = SNewRound).
  { assert (C : exists s1, core_eq s s1 /\ S3 = (if r =? 1 then set_rstep SNewRound (set_round r s1)
                    else set_pparts None (set_pblock None (set_prop None (set_rstep SNewRound (set_round r s1)))))).
    { subst S3. destruct (round s <? r); eexists; split; try reflexivity; repeat split. }
    destruct C as (s1 & (A1 & A2 & A3 & A4 & A5) & ->).
    assert (J : Inv1 (set_rstep SNewRound (set_round r s1))).
    { apply (Inv1_move s); cbn; auto.
      - unfold adv. cbn. lia.
      - now rewrite A4.
      - now rewrite A4.
      - apply tk_ok_same. cbn. exact A5. }
    destruct (r =? 1).
    - split; [exact J|]. cbn. auto.
    - split; [eapply Inv1_core; [|exact J]; repeat split|]. cbn. auto. }
  destruct H3 as (I3 & H3h & H3r & H3s).
  unfold andthen.
  destruct (hvs_set_round_inv (r + 1) S3 I3) as (I4 & (K4h & K4r) & K4s).
  destruct (halted (hvs_set_round (r + 1) S3)).
  { split; [exact I4|]. split; [congruence|]. intros _. lia. }
  set (x := hvs_set_round (r + 1) S3) in *.
  subst Gf. cbn beta.
  assert (I5 : Inv1 (set_tt_precommit false x)) by (eapply Inv1_core; [|exact I4]; repeat split).
  destruct (_ && _).
  - destruct (empty_interval_pos cfg).
    + split; [apply Inv1_sched; auto; unfold past; cbn; lia|].
      destruct (sched_keeps h r SNewRound (set_tt_precommit false x)) as (A & B). cbn in A, B.
      split; [congruence|]. intros _. rewrite B. lia.
    + split; [exact I5|]. cbn. split; [congruence|]. intros _. cbn. lia.
  - destruct (enter_propose_inv h r _ I5) as (I6 & K6h & K6r).
    { intros _. cbn. lia. }
    cbn in K6h, K6r. split; [exact I6|]. split; [congruence|]. intros _. lia.
Qed.

Lemma recv_proposal_core p s : core_eq s (recv_proposal proposer p s).
Proof.
  unfold recv_proposal. destruct (prop s); [apply core_eq_refl|].
  destruct (_ || _); [apply core_eq_refl|]. destruct (_ && _); [apply core_eq_refl|].
  destruct (p_signer p); [|apply core_eq_refl]. destruct (negb _); [apply core_eq_refl|].
  cbn. destruct (pparts s); repeat split.
Qed.

Lemma add_block_inv h r b s : Inv1 s -> Inv1 (add_block valid me h r b s).
Proof.
  intros I. unfold add_block.
  destruct (negb (height s =? h)) eqn:G; [exact I|]. b2p.
  destruct (pparts s) as [ps|]; [|exact I].
  destruct (negb (ps_hdr ps =? b_parts b)); [exact I|].
  destruct (ps_complete s ps); [exact I|].
  set (s1 := set_pblock _ _).
  set (s2 := match maj_of (get_vs s1 (round s1) Prevote) with Some x => _ | None => s1 end).
  assert (C2 : core_eq s s2).
  { subst s2. destruct (maj_of _); [|repeat split]. destruct (_ && _); repeat split. }
  assert (I2 : Inv1 s2) by (eapply Inv1_core; eauto).
  destruct (_ && _).
  - unfold andthen.
    destruct (enter_prevote_inv h (round s2) s2 I2) as (I3 & K3). { intros _. lia. }
    destruct (halted _); [exact I3|].
    destruct (match maj_of _ with Some _ => true | None => false end); [|exact I3].
    apply enter_precommit_inv; auto. intros _. lia.
  - destruct (step_eqb _ _); [now apply try_finalize_commit_inv|exact I2].
Qed.

Lemma hvs_add_core peer v s : core_eq s (fst (hvs_add vals peer v s)).
Proof.
  unfold hvs_add.
  assert (Hgo : forall s', core_eq s' (fst (
    match get_rv (rounds s') (v_round v) with
    | None => (s', false)
    | Some rv =>
      if negb (v_ok v) then (s', false)
      else let '(vs', added) := vs_add (pw vals s') (pick (v_type v) rv) (v_idx v) (v_bid v) in
           if added then (set_rounds (put_rv (rounds s') (v_round v) (upd (v_type v) rv vs')) s', true)
           else (s', false)
    end))).
  { intros s'. destruct (get_rv _ _); [|apply core_eq_refl]. destruct (negb _); [apply core_eq_refl|].
    destruct (vs_add _ _ _ _) as [vs' [|]]; repeat split. }
  destruct (get_rv (rounds s) (v_round v)) eqn:E.
  - specialize (Hgo s). rewrite E in Hgo. exact Hgo.
  - destruct (_ <? _)%nat; [|apply core_eq_refl].
    match goal with |- core_eq s (fst (match get_rv (rounds ?x) _ with _ => _ end)) =>
      eapply core_eq_trans; [|apply (Hgo x)] end.
    destruct (add_round_core (v_round v) s) as (A1 & A2 & A3 & A4 & A5). repeat split; cbn; assumption.
Qed.

Lemma nr_pc_inv h r s :
  Inv1 s -> Inv1 ((enter_new_round valid proposer mkblock cfg me h r ;; enter_precommit valid me h r) s).
Proof.
  intros I. unfold andthen.
  destruct (enter_new_round_inv h r s I) as (I2 & H2 & P2).
  destruct (halted _); [exact I2|]. now apply enter_precommit_inv.
Qed.

Lemma add_vote_inv peer v s : Inv1 s -> Inv1 (add_vote valid vals proposer mkblock cfg me peer v s).
Proof.
  intros I. unfold add_vote.
  destruct (_ && vtype_eqb _ _).
  { destruct (negb _); [exact I|]. destruct (last_commit s) as [[[lh lr] vs]|]; [|exact I].
    destruct (_ || _); [exact I|]. destruct (vs_add _ _ _ _) as [vs' added].
    destruct (negb added); [exact I|].
    assert (I1 : Inv1 (set_last_commit (Some (lh, lr, vs')) s)) by (eapply Inv1_core; [|exact I]; repeat split).
    destruct (_ && _); [|exact I1]. apply enter_new_round_inv; auto. }
  destruct (negb (v_height v =? height s)); [exact I|].
  pose proof (hvs_add_core peer v s) as C1.
  destruct (hvs_add vals peer v s) as [s1 added]. cbn in C1.
  assert (I1 : Inv1 s1) by (eapply Inv1_core; eauto).
  destruct (negb added); [exact I1|].
  destruct (step_eqb (rstep s1) SCommit); [exact I1|].
  assert (Hh1 : height s1 = height s) by apply C1.
  destruct (v_type v).
  - (* prevote *)
    set (s2 := match maj_of (get_vs s1 (v_round v) Prevote) with Some b => _ | None => s1 end).
    assert (C2 : core_eq s1 s2).
    { subst s2. destruct (maj_of _); [|apply core_eq_refl].
      set (sa := match locked s1 with Some _ => _ | None => s1 end).
      assert (Ca : core_eq s1 sa). { subst sa. destruct (locked s1); [|apply core_eq_refl]. destruct (_ && _); repeat split. }
      eapply core_eq_trans; [exact Ca|]. clearbody sa.
      repeat match goal with |- context [if ?c then _ else _] => destruct c end; repeat split. }
    assert (I2 : Inv1 s2) by (eapply Inv1_core; eauto).
    assert (Hh2 : height s2 = height s) by (destruct C2 as (A & _); congruence).
    clearbody s2.
    destruct ((round s2 <? v_round v) && _) eqn:B1; [apply enter_new_round_inv; auto|].
    destruct ((round s2 =? v_round v) && _) eqn:B2.
    { b2p. assert (P : Pre (height s) (v_round v) s2) by (intros _; lia).
      destruct (maj_of _).
      - destruct (_ || _); [now apply enter_precommit_inv|].
        destruct (any_of _ _); [now apply enter_prevote_wait_inv|exact I2].
      - destruct (any_of _ _); [now apply enter_prevote_wait_inv|exact I2]. }
    destruct (prop s2) as [p|]; [|exact I2]. destruct ((1 <=? p_pol p) && _); [|exact I2].
    destruct (is_proposal_complete s2); [|exact I2]. apply enter_prevote_inv; auto. intros _. lia.
  - (* precommit *)
    destruct (maj_of _) as [b|].
    + apply andthen_I; [apply nr_pc_inv; auto|]. intros x Ix.
      destruct (negb _).
      * apply andthen_I; [now apply enter_commit_inv|]. intros y Iy.
        destruct (skip_timeout_commit cfg && _); [apply enter_new_round_inv; auto|exact Iy].
      * now apply enter_precommit_wait_inv.
    + destruct (_ && _); [|exact I1].
      apply andthen_I; [apply enter_new_round_inv; auto|]. intros x Ix. now apply enter_precommit_wait_inv.
Qed.

Lemma handle_timeout_inv h r st s :
  Inv1 s -> past s h r -> Inv1 (handle_timeout valid proposer mkblock cfg me h r st s).
Proof.
  intros I Pa. unfold handle_timeout.
  destruct (negb (h =? height s) || (r <? round s) || _) eqn:G; [exact I|].
  apply orb_false_iff in G. destruct G as (G & _). b2p.
  assert (P : Pre h r s). { intros _. unfold past in Pa. lia. }
  destruct st; try (now apply Inv1_panic).
  - apply enter_new_round_inv; auto.
  - apply enter_propose_inv; auto. intros _. apply (i_round _ I).
  - now apply enter_prevote_inv.
  - now apply enter_precommit_inv.
  - apply andthen_I; [now apply enter_precommit_inv|]. intros x Ix. apply enter_new_round_inv; auto.
Qed.

Lemma in_remove_one x y l : In y (remove_one x l) -> In y l.
Proof.
  induction l as [|z l IH]; cbn; [tauto|]. destruct (tinfo_eqb x z); [tauto|].
  intros [H|H]; [now left|right; auto].
Qed.

Lemma tinfo_eqb_eq a b : tinfo_eqb a b = true -> a = b.
Proof.
  destruct a as [[ah ar] ast], b as [[bh' br] bst]. cbn. intros H. b2p.
  assert (ast = bst) by (destruct ast, bst; cbn in *; try lia; reflexivity). congruence.
Qed.

Lemma handle_inv i s : Inv1 s -> Inv1 (handle valid vals proposer mkblock cfg me i s).
Proof.
  intros I. destruct i; cbn [handle].
  - destruct (prop_wf p); [|exact I]. eapply Inv1_core; [apply recv_proposal_core|exact I].
  - now apply add_block_inv.
  - destruct (negb _); [exact I|]. destruct (pparts s); [now apply Inv1_panic|exact I].
  - eapply Inv1_core; [|exact I]. unfold add_bad_block.
    destruct (negb _); [apply core_eq_refl|]. destruct (pparts s) as [ps|]; [|apply core_eq_refl].
    destruct (negb _); [apply core_eq_refl|]. destruct (ps_complete s ps); [apply core_eq_refl|]. repeat split.
  - destruct (bid_wf _); [now apply add_vote_inv|exact I].
  - destruct (existsb _ _) eqn:E; [|exact I].
    apply existsb_exists in E. destruct E as (ti & Hin & Eq). apply tinfo_eqb_eq in Eq. subst ti.
    apply handle_timeout_inv.
    + apply (Inv1_move s); auto; try reflexivity.
      * unfold adv. cbn. lia.
      * intros h' r' st' H. left. cbn in H. eapply in_remove_one; eauto.
    + unfold past. cbn. apply (i_tk _ I _ _ _ Hin).
Qed.

Lemma step_state_inv s i : Inv1 s -> Inv1 (step_state valid vals proposer mkblock cfg me s i).
Proof.
  intros I. unfold step_state. destruct (halted s); [exact I|].
  apply handle_inv. apply (Inv1_move s); auto; try reflexivity.
  - unfold adv. cbn. lia.
  - now apply tk_ok_same.
Qed.

Lemma init_inv : Inv1 (init cfg).
Proof.
  unfold init. apply Inv1_sched.
  - split; cbn; try lia; try tauto; try constructor.
    intros post v pre E. destruct post; discriminate.
  - unfold past. cbn. lia.
Qed.

Lemma run_inv ins : Inv1 (run valid vals proposer mkblock cfg me ins).
Proof.
  unfold run. generalize (init_inv). generalize (init cfg).
  induction ins as [|i ins IH]; intros s I; cbn; [exact I|]. apply IH. now apply step_state_inv.
Qed.

(** * C03_one_vote_per_step *)
Theorem one_vote_per_step ins :
  let l := log (run valid vals proposer mkblock cfg me ins) in
  NoDup (map vkey (signed_votes l)) /\ NoDup (map pkey (signed_proposals l)).
Proof. cbv zeta. pose proof (run_inv ins) as I. split; [apply (i_nodup _ I)|apply (i_pnodup _ I)]. Qed.

End Inv.
