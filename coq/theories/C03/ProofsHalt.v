(** C03 — the known finding "halt-same-hash-other-body" replayed in the model of the node.

    [C03_no_halt_statement] says that a validator that is only fed honest-looking inputs — every
    vote well signed, for nil or for the full id (hash AND parts header) of a block that passes
    validation, no validator voting for two values in one (type, height, round), every block valid,
    no nil part — never reaches a Go panic.  It is REFUTED by a computed run of [Node.v] (which
    transcribes consensus/state.go): four validators of power 10, the node is validator 3, the
    proposer of round 1 is validator 0 and is the only faulty one (it shows the node the body
    (hash 1, parts 1) and the others the body (hash 1, parts 2) — both valid).  The node prevotes
    (1,1); the polka for (1,2) makes it replace its part set by an empty one with header 2, lock its
    block with that empty set and precommit (1,2); +2/3 precommits for (1,2) take it to
    finalizeCommit, where SaveBlock panics on the incomplete part set. *)
From Coq Require Import List ZArith NArith Bool.
From Kardia Require Import C03.Node.
Import ListNotations.
Local Open Scope N_scope.

Definition same_slot (a b : vote) : bool :=
  vtype_eqb (v_type a) (v_type b) && (v_height a =? v_height b) && (v_round a =? v_round b)
  && (v_idx a =? v_idx b).

(** no validator is seen voting for two values in one (type, height, round) *)
Definition no_equivocation_b (ins : list input) : bool :=
  forallb (fun i => match i with
                    | InVote _ a =>
                      forallb (fun j => match j with
                                        | InVote _ b => negb (same_slot a b) || bid_eqb (v_bid a) (v_bid b)
                                        | _ => true end) ins
                    | _ => true end) ins.

Definition honest_inputs_b (valid : N -> block -> bool) (ins : list input) : bool :=
  forallb (fun i => match i with
                    | InVote _ v =>
                      v_ok v && (1 <=? v_round v) &&
                      (bid_is_zero (v_bid v)
                       || valid (v_height v) {| b_hash := bh (v_bid v); b_parts := bp (v_bid v) |})
                    | InBlock h _ b => valid h b
                    | InProposal p => match p_signer p with Some _ => true | None => false end
                    | InNilPart _ _ => false
                    | InBadBlock _ _ _ => true
                    | InTimeout _ _ _ => true
                    end) ins
  && no_equivocation_b ins.

Definition C03_no_halt_statement : Prop :=
  forall valid vals proposer mkblock cfg me (ins : list input),
    (forall h, Forall (fun p => (0 <= p)%Z) (vals h)) ->
    honest_inputs_b valid ins = true ->
    halted (run valid vals proposer mkblock cfg me ins) = false.

(* ------------------------------------------------------------------ *)
(** the witness *)

Definition w_valid : N -> block -> bool := fun _ _ => true.
Definition w_vals : N -> list Z := fun _ => [10; 10; 10; 10]%Z.
Definition w_proposer : N -> N -> N := fun _ _ => 0.
Definition w_mkblock : N -> N -> option block := fun _ _ => None.
Definition w_cfg : config :=
  {| skip_timeout_commit := false; create_empty_blocks := true; empty_interval_pos := false;
     initial_height := 1 |}.
Definition w_me : option N := Some 3.

Definition id11 : bid := {| bh := 1; bp := 1 |}.
Definition id12 : bid := {| bh := 1; bp := 2 |}.
Definition w_vote (ty : vtype) (b : bid) (i : N) : vote :=
  {| v_type := ty; v_height := 1; v_round := 1; v_bid := b; v_idx := i; v_ok := true |}.

Definition w_ins : list input :=
  [ InTimeout 1 1 SNewHeight;
    InProposal {| p_height := 1; p_round := 1; p_pol := 0; p_bid := id11; p_signer := Some 0 |};
    InBlock 1 1 {| b_hash := 1; b_parts := 1 |};          (* the node prevotes (1,1) *)
    InVote 0 (w_vote Prevote id11 3);                      (* its own prevote, from the internal queue *)
    InVote 1 (w_vote Prevote id12 0);
    InVote 1 (w_vote Prevote id12 1);
    InVote 1 (w_vote Prevote id12 2);                      (* polka (1,2): lock with an empty part set, precommit (1,2) *)
    InVote 0 (w_vote Precommit id12 3);                    (* its own precommit *)
    InVote 1 (w_vote Precommit id12 0);
    InVote 1 (w_vote Precommit id12 1) ].                  (* +2/3 precommits (1,2): finalizeCommit panics *)

Lemma w_honest : honest_inputs_b w_valid w_ins = true.
Proof. vm_compute. reflexivity. Qed.

Lemma w_vals_nonneg : forall h, Forall (fun p => (0 <= p)%Z) (w_vals h).
Proof. intros h. unfold w_vals. repeat constructor; discriminate. Qed.

(** what the node signed on the way: prevote (1,1), then precommit (1,2) — and nothing else *)
Lemma w_signed :
  signed_votes (log (run w_valid w_vals w_proposer w_mkblock w_cfg w_me w_ins))
  = [ w_vote Precommit id12 3; w_vote Prevote id11 3 ].
Proof. vm_compute. reflexivity. Qed.

(** before the last precommit arrives the node is locked on its block under a part set that is not
    the block's own and is not complete *)
Lemma w_locked_on_empty_parts :
  let s := run w_valid w_vals w_proposer w_mkblock w_cfg w_me (removelast w_ins) in
  halted s = false /\ locked s = Some {| b_hash := 1; b_parts := 1 |} /\
  hdr_of (locked_parts s) = 2 /\ parts_complete s (locked_parts s) = false.
Proof. vm_compute. repeat split; reflexivity. Qed.

Lemma w_halts : halted (run w_valid w_vals w_proposer w_mkblock w_cfg w_me w_ins) = true.
Proof. vm_compute. reflexivity. Qed.

Lemma no_halt_refuted : ~ C03_no_halt_statement.
Proof.
  intros H.
  pose proof (H w_valid w_vals w_proposer w_mkblock w_cfg w_me w_ins w_vals_nonneg w_honest) as Hh.
  rewrite w_halts in Hh. discriminate.
Qed.
