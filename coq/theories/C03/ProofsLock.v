(** C03 — the vote-set refinement invariant and the lock history: a non-nil precommit needs a
    received polka and a held valid block, a commit needs a received single-round precommit
    quorum, and after precommitting b the node prevotes another value only after receiving a
    +2/3 prevote set for another value in a later round. *)
From Coq Require Import List ZArith NArith Bool Lia.
From Kardia Require Import C03.Node C03.Spec C03.ProofsMono C03.ProofsInv C03.ProofsValid C03.ProofsPower.
Import ListNotations.
Local Open Scope N_scope.

Lemma signed_votes_app a b : signed_votes (a ++ b) = signed_votes a ++ signed_votes b.
Proof. unfold signed_votes. apply flat_map_app. Qed.

Lemma in_signed_votes v l : In v (signed_votes l) <-> In (EvOut (SignVote v)) l.
Proof.
  unfold signed_votes. rewrite in_flat_map. split.
  - intros (e & Hin & Hv). destruct e as [i|o]; [destruct Hv|].
    destruct o; cbn in Hv; try contradiction. destruct Hv as [Hv|[]]. now subst.
  - intros H. exists (EvOut (SignVote v)). split; [exact H|now left].
Qed.

Lemma received_incl evs l x : In x (received l) -> In x (received (evs ++ l)).
Proof. intros H. rewrite received_app. apply in_or_app. now right. Qed.

Lemma get_rv_app l r k rv0 :
  get_rv (l ++ [(k, rv0)]) r = match get_rv l r with Some x => Some x | None => if k =? r then Some rv0 else None end.
Proof.
  induction l as [|[k' x] l IH]; cbn; [reflexivity|]. destruct (k' =? r); [reflexivity|exact IH].
Qed.

Lemma get_put_rv_same l r rv x : get_rv l r = Some x -> get_rv (put_rv l r rv) r = Some rv.
Proof.
  induction l as [|[k y] l IH]; cbn; [discriminate|].
  destruct (k =? r) eqn:E; cbn; rewrite E; auto.
Qed.
Lemma get_put_rv_other l r r' rv : r <> r' -> get_rv (put_rv l r rv) r' = get_rv l r'.
Proof.
  intros Hne. induction l as [|[k y] l IH]; cbn; [reflexivity|].
  destruct (k =? r) eqn:E; cbn.
  - apply N.eqb_eq in E. subst k. apply N.eqb_neq in Hne. now rewrite Hne.
  - destruct (k =? r'); auto.
Qed.

Lemma get_rv_single k rv r x : get_rv [(k, rv)] r = Some x -> x = rv.
Proof. cbn. destruct (k =? r); intros H; [injection H; auto|discriminate]. Qed.
Lemma hashes_to_none h : hashes_to None h = false.
Proof. unfold hashes_to. destruct (h =? 0); reflexivity. Qed.
Lemma hashes_to_some b h : hashes_to (Some b) h = true -> b_hash b = h /\ h <> 0.
Proof.
  unfold hashes_to. destruct (h =? 0) eqn:E; [discriminate|]. intros H.
  apply N.eqb_eq in H. apply N.eqb_neq in E. auto.
Qed.

Section Lock.
Variable valid : N -> block -> bool.
Variable vals : N -> list Z.
Variable proposer : N -> N -> N.
Variable mkblock : N -> N -> option block.
Variable cfg : config.
Variable me : option N.
Hypothesis vals_nonneg : forall h, Forall (fun p => (0 <= p)%Z) (vals h).

Definition rounds_ok (s : nstate) : Prop :=
  forall r rv, get_rv (rounds s) r = Some rv ->
    vs_ok vals (received (log s)) (height s) r Prevote (fst rv) /\
    vs_ok vals (received (log s)) (height s) r Precommit (snd rv).

Definition polka_in (l : list event) (h r : N) (y : bid) : Prop :=
  quorum_received vals (received l) Prevote h r y.

Definition lockedon (s : nstate) (p : vote) : Prop :=
  exists lb, locked s = Some lb /\ b_hash lb = bh (v_bid p) /\ v_round p <= locked_round s.
Definition released (l : list event) (h rmax : N) (p : vote) : Prop :=
  exists r'' y, v_round p < r'' /\ r'' <= rmax /\ bh y <> bh (v_bid p) /\ polka_in l h r'' y.
Definition LH (s : nstate) : Prop :=
  forall p, In p (signed_votes (log s)) -> v_type p = Precommit -> v_height p = height s ->
            bh (v_bid p) <> 0 -> lockedon s p \/ released (log s) (height s) (round s) p.
Definition lockhash (s : nstate) : Prop := forall lb, locked s = Some lb -> b_hash lb <> 0.

(** what must hold of an output with respect to the history before it *)
Definition Pout (o : output) (pre : list event) : Prop :=
  match o with
  | SignVote v =>
    match v_type v with
    | Precommit =>
      (bh (v_bid v) = 0 -> v_bid v = bid_nil) /\
      (bh (v_bid v) <> 0 ->
         polka_in pre (v_height v) (v_round v) (v_bid v) /\
         exists b, held (received pre) b /\ b_hash b = bh (v_bid v) /\ valid (v_height v) b = true)
    | Prevote =>
      forall p, In p (signed_votes pre) -> v_type p = Precommit -> bh (v_bid p) <> 0 ->
                v_height p = v_height v -> v_round p < v_round v -> bh (v_bid v) <> bh (v_bid p) ->
                released pre (v_height p) (v_round v) p
    end
  | Commit h b r =>
    valid h b = true /\ exists id, bh id = b_hash b /\ quorum_received vals (received pre) Precommit h r id
  | _ => True
  end.
Definition histK (l : list event) : Prop :=
  forall post o pre, l = post ++ EvOut o :: pre -> Pout o pre.

Record K (s : nstate) : Prop := {
  k_rounds : rounds_ok s; k_lh : LH s; k_lockhash : lockhash s; k_hist : histK (log s) }.

(* ---------------------------------------------------------------- helpers *)

Lemma polka_mono evs l h r y : polka_in l h r y -> polka_in (evs ++ l) h r y.
Proof. unfold polka_in. apply quorum_received_mono; auto. intros x. apply received_incl. Qed.

Lemma released_mono evs l h m m' p : m <= m' -> released l h m p -> released (evs ++ l) h m' p.
Proof.
  intros Hm (r'' & y & A & B & C & D). exists r'', y. repeat split; auto; try lia. now apply polka_mono.
Qed.

Lemma hist_app evs l :
  histK l -> (forall post o pre', evs = post ++ EvOut o :: pre' -> Pout o (pre' ++ l)) -> histK (evs ++ l).
Proof.
  intros H Hn post o pre E. apply app_split in E. destruct E as [(post' & E1 & E2)|(e2 & E1 & E2)].
  - eapply H; eauto.
  - subst pre. eapply Hn; eauto.
Qed.

Definition quiet_out (o : output) : Prop :=
  match o with SignVote _ => False | Commit _ _ _ => False | _ => True end.
Definition quiet (evs : list event) : Prop := forall o, In (EvOut o) evs -> quiet_out o.

Lemma qnil : quiet []. Proof. intros o []. Qed.
Lemma qin i : quiet [EvIn i]. Proof. intros o [E|[]]. discriminate. Qed.
Lemma qone o : quiet_out o -> quiet [EvOut o].
Proof. intros Q o' [E|[]]. injection E as <-. exact Q. Qed.

Lemma hist_quiet evs l : histK l -> quiet evs -> histK (evs ++ l).
Proof.
  intros H Q. apply hist_app; auto. intros post o pre' E.
  assert (Hin : In (EvOut o) evs) by (rewrite E; apply in_or_app; right; now left).
  specialize (Q o Hin). destruct o; cbn in *; auto; contradiction.
Qed.

Lemma signed_votes_quiet evs l : quiet evs -> signed_votes (evs ++ l) = signed_votes l.
Proof.
  intros Q. rewrite signed_votes_app.
  assert (signed_votes evs = []) as ->; [|reflexivity].
  destruct (signed_votes evs) as [|v t] eqn:E; [reflexivity|].
  assert (Hin : In v (signed_votes evs)) by (rewrite E; now left).
  apply in_signed_votes in Hin. destruct (Q _ Hin).
Qed.

Definition rounds_ext (a b : list (N * roundvotes)) : Prop :=
  forall r rv, get_rv b r = Some rv -> get_rv a r = Some rv \/ rv = (vs_empty, vs_empty).

Lemma rounds_ext_refl a : rounds_ext a a.
Proof. intros r rv H. now left. Qed.

Lemma rounds_ok_ext s s' evs :
  rounds_ok s -> height s' = height s -> log s' = evs ++ log s ->
  rounds_ext (rounds s) (rounds s') -> rounds_ok s'.
Proof.
  intros R Hh Hl Ext r rv G. rewrite Hh, Hl. destruct (Ext r rv G) as [G0|G0]; [|subst rv].
  - destruct (R r rv G0) as (A & B).
    split; (eapply vs_ok_mono; [|eassumption]; intros x; apply received_incl).
  - split; apply vs_ok_empty.
Qed.

(** LH across a transition: old lock-holders stay or are released; new precommits are accounted *)
Lemma LH_step s s' evs :
  LH s -> height s' = height s -> round s <= round s' -> log s' = evs ++ log s ->
  (forall p, In p (signed_votes (log s)) -> v_type p = Precommit -> v_height p = height s ->
             lockedon s p -> lockedon s' p \/ released (log s') (height s) (round s') p) ->
  (forall v, In (EvOut (SignVote v)) evs -> v_type v = Precommit -> v_height v = height s ->
             bh (v_bid v) <> 0 -> lockedon s' v \/ released (log s') (height s) (round s') v) ->
  LH s'.
Proof.
  intros L Hh Hr Hl Hold Hnew p Hin Ty Ph Nz. rewrite Hh in *. rewrite Hl in Hin.
  rewrite signed_votes_app in Hin. apply in_app_or in Hin. destruct Hin as [Hin|Hin].
  - apply Hnew; auto. now apply in_signed_votes.
  - destruct (L p Hin Ty Ph Nz) as [A|B]; [now apply Hold|].
    right. rewrite Hl. eapply released_mono; eauto.
Qed.

Lemma K_quiet s s' evs :
  K s -> height s' = height s -> round s <= round s' -> log s' = evs ++ log s -> quiet evs ->
  rounds_ext (rounds s) (rounds s') ->
  locked s' = locked s -> locked_round s' = locked_round s -> K s'.
Proof.
  intros [K1 K2 K3 K4] Hh Hr Hl Q Ext El Er. split.
  - eapply rounds_ok_ext; eauto.
  - eapply LH_step; eauto.
    + intros p _ _ _ (lb & A & B & C). left. exists lb. rewrite El, Er. auto.
    + intros v Hin. destruct (Q _ Hin).
  - intros lb. rewrite El. apply K3.
  - rewrite Hl. now apply hist_quiet.
Qed.

Lemma K_core s s0 : core_eq s s0 -> rounds s0 = rounds s -> locked s0 = locked s ->
  locked_round s0 = locked_round s -> K s -> K s0.
Proof.
  intros (A1 & A2 & A3 & A4 & A5) Er El Elr Ks.
  apply (K_quiet s s0 []); auto using qnil; try lia.
  rewrite Er. apply rounds_ext_refl.
Qed.

(* ---------------------------------------------------------------- primitives *)

Local Notation I6 := (Inv6 valid).

Lemma K_panic s : K s -> K (panic s).
Proof.
  intros Ks. apply (K_quiet s _ [EvOut Panic]); auto using rounds_ext_refl; cbn; try lia.
  apply qone. exact I.
Qed.

Lemma K_sched h r st s : K s -> K (sched h r st s).
Proof.
  intros Ks. unfold sched.
  destruct (tk_accepts _ _); apply (K_quiet s _ [EvOut (Sched h r st)]); auto using rounds_ext_refl;
    cbn; try lia; apply qone; exact I.
Qed.

Lemma maj_polka s r ty b :
  rounds_ok s -> maj_of (get_vs s r ty) = Some b ->
  quorum_received vals (received (log s)) ty (height s) r b.
Proof.
  intros R M. unfold get_vs in M. destruct (get_rv (rounds s) r) as [rv|] eqn:G; [|discriminate].
  destruct (R r rv G) as (A & B). cbn in M.
  destruct ty; cbn in M; eapply vs_ok_quorum; eauto.
Qed.

Lemma not_hashes_to s lb y :
  lockhash s -> locked s = Some lb -> hashes_to (locked s) (bh y) = false -> bh y <> b_hash lb.
Proof.
  intros LHh El H. rewrite El in H. unfold hashes_to in H. specialize (LHh lb El).
  destruct (bh y =? 0) eqn:E; b2p; [congruence|]. b2p. congruence.
Qed.

(** a precommit signed earlier in this height is for an earlier round as long as the step is
    below Precommit *)
Lemma precommit_before s p :
  Inv1 s -> step_num (rstep s) < 6 -> In p (signed_votes (log s)) -> v_type p = Precommit ->
  v_height p = height s -> v_round p < round s.
Proof.
  intros I Hs Hin Ty Ph. pose proof (i_past _ I p Hin) as Pa. pose proof (i_cur _ I p Hin Ph) as Cu.
  unfold past in Pa. rewrite Ty in Cu. cbn in Cu.
  destruct (N.eq_dec (v_round p) (round s)) as [E|E]; [specialize (Cu E); lia|lia].
Qed.

(** releasing the lock because of a received polka for another value *)
Lemma K_release s s0 r'' y :
  K s -> core_eq s s0 -> rounds s0 = rounds s -> locked s0 = None ->
  r'' <= round s -> polka_in (log s) (height s) r'' y ->
  (forall lb, locked s = Some lb -> bh y <> b_hash lb) ->
  (forall p, In p (signed_votes (log s)) -> v_type p = Precommit -> v_height p = height s ->
             lockedon s p -> v_round p < r'') ->
  K s0.
Proof.
  intros [K1 K2 K3 K4] (A1 & A2 & A3 & A4 & A5) Er El Hr Po Hne Hlt. split.
  - apply (rounds_ok_ext s s0 []); auto. rewrite Er. apply rounds_ext_refl.
  - apply (LH_step s s0 []); auto; try lia.
    + intros p Hin Ty Ph Lo. right. rewrite A4, A2. exists r'', y.
      destruct Lo as (lb & L1 & L2 & L3). repeat split; auto.
      * eapply Hlt; eauto. exists lb. auto.
      * rewrite <- L2. now apply Hne.
    + intros v [].
  - intros lb. rewrite El. discriminate.
  - now rewrite A4.
Qed.

Lemma stale_scan_spec s : forall n r,
  stale_scan s r n = true -> N.of_nat n <= r ->
  exists r'' y, r - N.of_nat n < r'' /\ r'' <= r /\ maj_of (get_vs s r'' Prevote) = Some y /\
                hashes_to (locked s) (bh y) = false.
Proof.
  induction n as [|n IH]; intros r H Hn; [discriminate|]. cbn [stale_scan] in H.
  assert (Rec : stale_scan s (r - 1) n = true ->
                exists r'' y, r - N.of_nat (S n) < r'' /\ r'' <= r /\ maj_of (get_vs s r'' Prevote) = Some y /\
                              hashes_to (locked s) (bh y) = false).
  { intros H'. destruct (IH (r - 1) H') as (r'' & y & A & B & C & D); [lia|].
    exists r'', y. repeat split; auto; lia. }
  destruct (maj_of (get_vs s r Prevote)) as [b|] eqn:M; [|now apply Rec].
  destruct (negb (hashes_to (locked s) (bh b))) eqn:E; [|now apply Rec].
  apply negb_true_iff in E. exists r, b. repeat split; auto; lia.
Qed.

(** sign a prevote (for the locked block if there is one) and move on *)
Lemma K_sign_prevote b st' r s :
  K s -> round s <= r -> (forall lb, locked s = Some lb -> bh b = b_hash lb) ->
  K (set_rstep st' (set_round r (sign_vote me Prevote b s))).
Proof.
  intros Ks Hr Hb. unfold sign_vote. destruct me as [i|].
  2:{ apply (K_quiet s _ []); auto using qnil, rounds_ext_refl. }
  destruct Ks as [K1 K2 K3 K4].
  set (x := {| v_type := Prevote; v_height := height s; v_round := round s; v_bid := b; v_idx := i; v_ok := true |}).
  split.
  - apply (rounds_ok_ext s _ [EvOut (SignVote x)]); auto. apply rounds_ext_refl.
  - apply (LH_step s _ [EvOut (SignVote x)]); auto.
    all: try (intros p _ _ _ (lb & A & B & C); left; exists lb; auto; fail).
    intros v Hin Ty. destruct Hin as [E|[]]. injection E as <-. discriminate.
  - exact K3.
  - apply (hist_app [EvOut (SignVote x)] (log s)); auto.
    intros post o pre' E. destruct post as [|e post]; [|destruct post; discriminate].
    injection E as <- <-. cbn [app]. unfold Pout. cbn [v_type x].
    intros p Hin Ty Nz Ph Pr Hne. cbn [x v_height v_round v_bid] in *.
    destruct (K2 p Hin Ty Ph Nz) as [(lb & L1 & L2 & L3)|Rl].
    + exfalso. apply Hne. rewrite (Hb lb L1). exact L2.
    + rewrite Ph. exact Rl.
Qed.

Lemma enter_prevote_K h r s : K s -> K (enter_prevote valid me h r s).
Proof.
  intros Ks. unfold enter_prevote.
  destruct (negb (height s =? h) || (r <? round s) || _) eqn:G; [exact Ks|].
  apply orb_false_iff in G. destruct G as (G & _). b2p.
  unfold do_prevote.
  set (s1 := match locked s with Some _ => if stale_lock s then unlock s else s | None => s end).
  assert (K1 : K s1 /\ round s1 = round s /\ height s1 = height s).
  { subst s1. destruct (locked s) as [lb|] eqn:El; [|auto]. destruct (stale_lock s) eqn:St; [|auto].
    split; [|auto]. unfold stale_lock in St. apply stale_scan_spec in St; [|lia].
    destruct St as (r'' & y & A & B & C & D).
    apply (K_release s (unlock s) r'' y); auto; try (repeat split; fail).
    - eapply maj_polka; eauto. apply Ks.
    - intros lb' El'. eapply not_hashes_to; eauto. apply Ks.
    - intros p _ _ _ (lb' & L1 & L2 & L3). lia. }
  destruct K1 as (K1 & R1 & H1). clearbody s1. unfold do_prevote_locked.
  destruct (locked s1) as [lb|] eqn:El.
  { apply K_sign_prevote; auto; try lia. intros lb' E. rewrite El in E. injection E as <-. reflexivity. }
  destruct (pblock s1); [|apply K_sign_prevote; auto; try lia; rewrite El; discriminate].
  destruct (negb _); apply K_sign_prevote; auto; try lia; rewrite El; discriminate.
Qed.

(** sign a nil precommit and move on *)
Lemma K_sign_nil_precommit st' r s :
  K s -> round s <= r -> K (set_rstep st' (set_round r (sign_vote me Precommit bid_nil s))).
Proof.
  intros Ks Hr. unfold sign_vote. destruct me as [i|].
  2:{ apply (K_quiet s _ []); auto using qnil, rounds_ext_refl. }
  destruct Ks as [K1 K2 K3 K4].
  set (x := {| v_type := Precommit; v_height := height s; v_round := round s; v_bid := bid_nil; v_idx := i; v_ok := true |}).
  split.
  - apply (rounds_ok_ext s _ [EvOut (SignVote x)]); auto. apply rounds_ext_refl.
  - apply (LH_step s _ [EvOut (SignVote x)]); auto.
    all: try (intros p _ _ _ (lb & A & B & C); left; exists lb; auto; fail).
    intros v Hin Ty Vh Nz. destruct Hin as [E|[]]. injection E as <-. cbn in Nz. congruence.
  - exact K3.
  - apply (hist_app [EvOut (SignVote x)] (log s)); auto.
    intros post o pre' E. destruct post as [|e post]; [|destruct post; discriminate].
    injection E as <- <-. cbn. split; [reflexivity|]. intros Nz. congruence.
Qed.

(** sign a precommit for the polka block [b] of the current round while (re)locking block [lb] *)
Lemma K_sign_lock b lb r s s0 :
  Inv1 s -> I6 s -> K s -> step_num (rstep s) < 6 -> r = round s ->
  core_eq s s0 -> rounds s0 = rounds s ->
  locked s0 = Some lb -> locked_round s0 = r -> b_hash lb = bh b -> bh b <> 0 ->
  maj_of (get_vs s r Prevote) = Some b ->
  (locked s = Some lb \/ (hashes_to (locked s) (bh b) = false /\ pblock s = Some lb /\ valid (height s) lb = true)) ->
  K (set_rstep SPrecommit (set_round r (sign_vote me Precommit b s0))).
Proof.
  intros I J Ks Hst -> (A1 & A2 & A3 & A4 & A5) Er El Elr Hb Nz M Src.
  pose proof Ks as [K1 K2 K3 K4].
  assert (Po : polka_in (log s) (height s) (round s) b) by (eapply maj_polka; eauto).
  assert (Old : forall evs p, In p (signed_votes (log s)) -> v_type p = Precommit -> v_height p = height s ->
            lockedon s p -> (exists lb', locked s0 = Some lb' /\ b_hash lb' = bh (v_bid p) /\ v_round p <= round s)
                            \/ released (evs ++ log s) (height s) (round s) p).
  { intros evs p Hin Ty Ph (lb' & L1 & L2 & L3).
    pose proof (precommit_before s p I Hst Hin Ty Ph) as Lt.
    destruct Src as [Same|(NH & _ & _)].
    - left. exists lb. rewrite Same in L1. injection L1 as <-. repeat split; auto. lia.
    - right. exists (round s), b. repeat split; auto; try lia.
      + rewrite <- L2. intros E. apply (not_hashes_to s lb' b K3 L1 NH). now rewrite E.
      + now apply polka_mono. }
  assert (Held : exists blk, held (received (log s)) blk /\ b_hash blk = bh b /\ valid (height s) blk = true).
  { exists lb. destruct Src as [Same|(_ & Pb & Va)].
    - destruct (j_lk _ _ J lb Same). auto.
    - split; [apply (j_pb _ _ J lb Pb)|auto]. }
  unfold sign_vote. destruct me as [i|].
  - set (x := {| v_type := Precommit; v_height := height s0; v_round := round s0; v_bid := b; v_idx := i; v_ok := true |}).
    split.
    + apply (rounds_ok_ext s _ [EvOut (SignVote x)]); cbn; auto; try congruence. rewrite Er. apply rounds_ext_refl.
    + apply (LH_step s _ [EvOut (SignVote x)]); cbn; auto; try congruence; try lia.
      * intros p Hin Ty Ph Lo. destruct (Old [EvOut (SignVote x)] p Hin Ty Ph Lo) as [(lb' & B1 & B2 & B3)|Rl].
        -- left. exists lb'. cbn. rewrite Elr. auto.
        -- right. rewrite A4. exact Rl.
      * intros v Hin Ty Vh Nzv. destruct Hin as [E|[]]. injection E as <-. left. exists lb. cbn.
        rewrite Elr, A2. repeat split; auto. lia.
    + intros lb' E. cbn in E. rewrite El in E. injection E as <-. rewrite Hb. exact Nz.
    + cbn. rewrite A4. apply (hist_app [EvOut (SignVote x)] (log s)); auto.
      intros post o pre' E. destruct post as [|e post]; [|destruct post; discriminate].
      injection E as <- <-. cbn. split; [congruence|]. intros _. rewrite A1, A2. split; auto.
  - split.
    + apply (rounds_ok_ext s _ []); cbn; auto. rewrite Er. apply rounds_ext_refl.
    + apply (LH_step s _ []); cbn; auto; try lia.
      all: try (intros v []).
      all: try (intros p Hin Ty Ph Lo; destruct (Old [] p Hin Ty Ph Lo) as [(lb' & B1 & B2 & B3)|Rl];
                [left; exists lb'; cbn; rewrite Elr; auto|right; rewrite A4; exact Rl]).
    + intros lb' E. cbn in E. rewrite El in E. injection E as <-. rewrite Hb. exact Nz.
    + cbn. now rewrite A4.
Qed.

Lemma enter_precommit_K h r s :
  Inv1 s -> I6 s -> K s -> Pre h r s -> K (enter_precommit valid me h r s).
Proof.
  intros I J Ks P. unfold enter_precommit.
  destruct (negb (height s =? h) || (r <? round s) || ((round s =? r) && step_le SPrecommit (rstep s))) eqn:G;
    [exact Ks|].
  apply guard_round in G; auto. destruct G as (Hh & Hr & Hs). b2p. cbn in Hs. clear P. subst r.
  pose proof Ks as [K1 K2 K3 K4].
  assert (Nil : forall s0, K s0 -> round s0 <= (round s) ->
                K (set_rstep SPrecommit (set_round (round s) (sign_vote me Precommit bid_nil s0)))).
  { intros s0 K0 R0. now apply K_sign_nil_precommit. }
  assert (Rel : forall b s0, maj_of (get_vs s (round s) Prevote) = Some b ->
                 (forall lb, locked s = Some lb -> bh b <> b_hash lb) ->
                 core_eq s s0 -> rounds s0 = rounds s -> locked s0 = None -> K s0).
  { intros b s0 M Hne C Er El. apply (K_release s s0 (round s) b); auto; try lia.
    - eapply maj_polka; eauto.
    - intros p Hin Ty Ph _. eapply precommit_before; eauto. }
  destruct (maj_of (get_vs s (round s) Prevote)) as [b|] eqn:M; [|apply Nil; auto; lia].
  destruct (pol_info s <? (round s)); [now apply K_panic|].
  destruct (bid_is_zero b) eqn:Z.
  { assert (Hz : bh b = 0). { unfold bid_is_zero in Z. b2p. assumption. }
    destruct (locked s) as [lb|] eqn:El; [|apply Nil; auto; lia].
    apply Nil; [|cbn; lia]. apply (Rel b); auto; try (repeat split; fail).
    intros lb' E. rewrite Hz. intros E'. apply (K3 lb'); congruence. }
  destruct (hashes_to (locked s) (bh b)) eqn:HL.
  { destruct (locked s) as [lb|] eqn:El; [|rewrite hashes_to_none in HL; discriminate].
    apply hashes_to_some in HL. destruct HL as (HL1 & HL2).
    eapply (K_sign_lock b lb (round s) s); eauto; try (repeat split; fail); try lia. }
  destruct (hashes_to (pblock s) (bh b)) eqn:HP.
  { destruct (pblock s) as [pb|] eqn:Ep; [|exact Ks].
    destruct (negb (valid (height s) pb)) eqn:Ev; [now apply K_panic|]. apply negb_false_iff in Ev.
    apply hashes_to_some in HP. destruct HP as (HP1 & HP2).
    eapply (K_sign_lock b pb (round s) s); eauto; try (repeat split; fail); try lia. }
  assert (Hne : forall lb, locked s = Some lb -> bh b <> b_hash lb).
  { intros lb E. eapply not_hashes_to; eauto. }
  destruct (negb _); (apply Nil; [|cbn; lia]); apply (Rel b); auto; repeat split.
Qed.

Lemma enter_prevote_wait_K h r s : K s -> K (enter_prevote_wait vals h r s).
Proof.
  intros Ks. unfold enter_prevote_wait.
  destruct (negb (height s =? h) || (r <? round s) || _) eqn:G; [exact Ks|].
  apply orb_false_iff in G. destruct G as (G & _). b2p.
  destruct (negb _); [now apply K_panic|].
  pose proof (K_sched h r SPrevoteWait s Ks) as K1.
  destruct (sched_keeps h r SPrevoteWait s) as (A & B).
  apply (K_quiet (sched h r SPrevoteWait s) _ []); auto using qnil, rounds_ext_refl. cbn. lia.
Qed.

Lemma enter_precommit_wait_K h r s : K s -> K (enter_precommit_wait vals h r s).
Proof.
  intros Ks. unfold enter_precommit_wait. destruct (_ || _); [exact Ks|].
  destruct (negb _); [now apply K_panic|].
  pose proof (K_sched h r SPrecommitWait s Ks) as K1.
  apply (K_quiet (sched h r SPrecommitWait s) _ []); auto using qnil, rounds_ext_refl. cbn. lia.
Qed.

Lemma reset_height_K lc s : Inv1 s -> K s -> K (reset_height lc s).
Proof.
  intros I [K1 K2 K3 K4]. split.
  - intros r rv G. apply get_rv_single in G. subst rv. split; apply vs_ok_empty.
  - intros p Hin Ty Ph _. cbn in *. pose proof (i_past _ I p Hin) as Pa. unfold past in Pa. lia.
  - intros lb E. discriminate.
  - exact K4.
Qed.

Lemma update_to_state_K s : Inv1 s -> K s -> K (update_to_state s).
Proof.
  intros I Ks. unfold update_to_state. destruct (0 <? commit_round s).
  - destruct (get_vs _ _ _); [|now apply K_panic]. destruct (has_maj _); [now apply reset_height_K|now apply K_panic].
  - destruct (last_commit s); [now apply reset_height_K|now apply K_panic].
Qed.

Lemma andthen_IK (f g : nstate -> nstate) s :
  Inv1 (f s) -> K (f s) -> (forall x, Inv1 x -> K x -> K (g x)) -> K ((f ;; g) s).
Proof. intros I Kf H. unfold andthen. destruct (halted (f s)); auto. Qed.

Lemma finalize_commit_K h s : Inv1 s -> K s -> K (finalize_commit valid h s).
Proof.
  intros I Ks. unfold finalize_commit.
  destruct (_ || _); [exact Ks|].
  destruct (maj_of _) as [b|] eqn:M; [|now apply K_panic].
  destruct (negb _); [now apply K_panic|].
  destruct (negb (hashes_to (pblock s) (bh b))) eqn:HP; [now apply K_panic|]. apply negb_false_iff in HP.
  destruct (pblock s) as [pb|] eqn:Ep; [|now apply K_panic].
  destruct (negb (valid (height s) pb)) eqn:Ev; [now apply K_panic|]. apply negb_false_iff in Ev.
  destruct (negb _); [now apply K_panic|].
  set (o := Commit (height s) pb (commit_round s)).
  assert (I1 : Inv1 (emit o s)) by (apply Inv1_emit_other; auto; discriminate).
  assert (K1 : K (emit o s)).
  { pose proof Ks as [A1 A2 A3 A4]. split.
    - apply (rounds_ok_ext s _ [EvOut o]); auto. apply rounds_ext_refl.
    - apply (LH_step s _ [EvOut o]); cbn; auto; try lia.
      all: try (intros p _ _ _ (lb & A & B & C); left; exists lb; auto; fail).
      intros v [E|[]]. discriminate.
    - exact A3.
    - apply (hist_app [EvOut o] (log s)); auto.
      intros post o' pre' E. destruct post as [|e post]; [|destruct post; discriminate].
      injection E as <- <-. cbn. split; [exact Ev|]. exists b. split.
      + apply hashes_to_some in HP. destruct HP. congruence.
      + eapply maj_polka; eauto. }
  apply andthen_IK.
  - unfold andthen. destruct (halted (emit o s)); [exact I1|]. now apply update_to_state_inv.
  - unfold andthen. destruct (halted (emit o s)); [exact K1|]. now apply update_to_state_K.
  - intros x Ix Kx. now apply K_sched.
Qed.

Lemma try_finalize_commit_K h s : Inv1 s -> K s -> K (try_finalize_commit valid h s).
Proof.
  intros I Ks. unfold try_finalize_commit.
  destruct (negb _); [now apply K_panic|].
  destruct (maj_of _); [|exact Ks].
  destruct (bid_is_zero _); [exact Ks|]. destruct (negb _); [exact Ks|]. now apply finalize_commit_K.
Qed.

End Lock.
