(** C03 — the vote-set refinement invariant and the lock history: a non-nil precommit needs a
    received polka and a held valid block, a commit needs a received single-round precommit
    quorum, and after precommitting b the node prevotes another value only after receiving a
    +2/3 prevote set for another value in a later round. *)
From Coq Require Import List ZArith NArith Bool Lia.
From Kardia Require Import C03.Node C03.Spec C03.ProofsMono C03.ProofsInv C03.ProofsValid C03.ProofsPower.
Import ListNotations.
Local Open Scope N_scope.

Lemma signed_votes_app a b : signed_votes (a ++ b) = signed_votes a ++ signed_votes b.
Proof. unfold signed_votes. apply flat_map_app. Qed.

Lemma in_signed_votes v l : In v (signed_votes l) <-> In (EvOut (SignVote v)) l.
Proof.
  unfold signed_votes. rewrite in_flat_map. split.
  - intros (e & Hin & Hv). destruct e as [i|o]; [destruct Hv|].
    destruct o; cbn in Hv; try contradiction. destruct Hv as [Hv|[]]. now subst.
  - intros H. exists (EvOut (SignVote v)). split; [exact H|now left].
Qed.

Lemma received_incl evs l x : In x (received l) -> In x (received (evs ++ l)).
Proof. intros H. rewrite received_app. apply in_or_app. now right. Qed.

Lemma get_rv_app l r k rv0 :
  get_rv (l ++ [(k, rv0)]) r = match get_rv l r with Some x => Some x | None => if k =? r then Some rv0 else None end.
Proof.
  induction l as [|[k' x] l IH]; cbn; [reflexivity|]. destruct (k' =? r); [reflexivity|exact IH].
Qed.

Lemma get_put_rv_same l r rv x : get_rv l r = Some x -> get_rv (put_rv l r rv) r = Some rv.
Proof.
  induction l as [|[k y] l IH]; cbn; [discriminate|].
  destruct (k =? r) eqn:E; cbn; rewrite E; auto.
Qed.
Lemma get_put_rv_other l r r' rv : r <> r' -> get_rv (put_rv l r rv) r' = get_rv l r'.
Proof.
  intros Hne. induction l as [|[k y] l IH]; cbn; [reflexivity|].
  destruct (k =? r) eqn:E; cbn.
  - apply N.eqb_eq in E. subst k. apply N.eqb_neq in Hne. now rewrite Hne.
  - destruct (k =? r'); auto.
Qed.

Lemma get_rv_single k rv r x : get_rv [(k, rv)] r = Some x -> x = rv.
Proof. cbn. destruct (k =? r); intros H; [injection H; auto|discriminate]. Qed.
Lemma hashes_to_none h : hashes_to None h = false.
Proof. unfold hashes_to. destruct (h =? 0); reflexivity. Qed.
Lemma hashes_to_some b h : hashes_to (Some b) h = true -> b_hash b = h /\ h <> 0.
Proof.
  unfold hashes_to. destruct (h =? 0) eqn:E; [discriminate|]. intros H.
  apply N.eqb_eq in H. apply N.eqb_neq in E. auto.
Qed.

Section Lock.
Variable valid : N -> block -> bool.
Variable vals : N -> list Z.
Variable proposer : N -> N -> N.
Variable mkblock : N -> N -> option block.
Variable cfg : config.
Variable me : option N.
Hypothesis vals_nonneg : forall h, Forall (fun p => (0 <= p)%Z) (vals h).

Definition rounds_ok (s : nstate) : Prop :=
  forall r rv, get_rv (rounds s) r = Some rv ->
    vs_ok vals (received (log s)) (height s) r Prevote (fst rv) /\
    vs_ok vals (received (log s)) (height s) r Precommit (snd rv).

Definition polka_in (l : list event) (h r : N) (y : bid) : Prop :=
  quorum_received vals (received l) Prevote h r y.

Definition lockedon (s : nstate) (p : vote) : Prop :=
  exists lb, locked s = Some lb /\ b_hash lb = bh (v_bid p) /\ v_round p <= locked_round s.
Definition released (l : list event) (h rmax : N) (p : vote) : Prop :=
  exists r'' y, v_round p < r'' /\ r'' <= rmax /\ bh y <> bh (v_bid p) /\ polka_in l h r'' y.
Definition LH (s : nstate) : Prop :=
  forall p, In p (signed_votes (log s)) -> v_type p = Precommit -> v_height p = height s ->
            bh (v_bid p) <> 0 -> lockedon s p \/ released (log s) (height s) (round s) p.
Definition lockhash (s : nstate) : Prop := forall lb, locked s = Some lb -> b_hash lb <> 0.

(** what must hold of an output with respect to the history before it *)
Definition Pout (o : output) (pre : list event) : Prop :=
  match o with
  | SignVote v =>
    match v_type v with
    | Precommit =>
      (bh (v_bid v) = 0 -> v_bid v = bid_nil) /\
      (bh (v_bid v) <> 0 ->
         polka_in pre (v_height v) (v_round v) (v_bid v) /\
         exists b, held (received pre) b /\ b_hash b = bh (v_bid v) /\ valid (v_height v) b = true)
    | Prevote =>
      forall p, In p (signed_votes pre) -> v_type p = Precommit -> bh (v_bid p) <> 0 ->
                v_height p = v_height v -> v_round p < v_round v -> bh (v_bid v) <> bh (v_bid p) ->
                released pre (v_height p) (v_round v) p
    end
  | Commit h b r =>
    valid h b = true /\ exists id, bh id = b_hash b /\ quorum_received vals (received pre) Precommit h r id
  | _ => True
  end.
Definition histK (l : list event) : Prop :=
  forall post o pre, l = post ++ EvOut o :: pre -> Pout o pre.

Record K (s : nstate) : Prop := {
  k_rounds : rounds_ok s; k_lh : LH s; k_lockhash : lockhash s; k_hist : histK (log s) }.

(* ---------------------------------------------------------------- helpers *)

Lemma polka_mono evs l h r y : polka_in l h r y -> polka_in (evs ++ l) h r y.
Proof. unfold polka_in. apply quorum_received_mono; auto. intros x. apply received_incl. Qed.

Lemma released_mono evs l h m m' p : m <= m' -> released l h m p -> released (evs ++ l) h m' p.
Proof.
  intros Hm (r'' & y & A & B & C & D). exists r'', y. repeat split; auto; try lia. now apply polka_mono.
Qed.

Lemma hist_app evs l :
  histK l -> (forall post o pre', evs = post ++ EvOut o :: pre' -> Pout o (pre' ++ l)) -> histK (evs ++ l).
Proof.
  intros H Hn post o pre E. apply app_split in E. destruct E as [(post' & E1 & E2)|(e2 & E1 & E2)].
  - eapply H; eauto.
  - subst pre. eapply Hn; eauto.
Qed.

Definition quiet_out (o : output) : Prop :=
  match o with SignVote _ => False | Commit _ _ _ => False | _ => True end.
Definition quiet (evs : list event) : Prop := forall o, In (EvOut o) evs -> quiet_out o.

Lemma qnil : quiet []. Proof. intros o []. Qed.
Lemma qin i : quiet [EvIn i]. Proof. intros o [E|[]]. discriminate. Qed.
Lemma qone o : quiet_out o -> quiet [EvOut o].
Proof. intros Q o' [E|[]]. injection E as <-. exact Q. Qed.

Lemma hist_quiet evs l : histK l -> quiet evs -> histK (evs ++ l).
Proof.
  intros H Q. apply hist_app; auto. intros post o pre' E.
  assert (Hin : In (EvOut o) evs) by (rewrite E; apply in_or_app; right; now left).
  specialize (Q o Hin). destruct o; cbn in *; auto; contradiction.
Qed.

Lemma signed_votes_quiet evs l : quiet evs -> signed_votes (evs ++ l) = signed_votes l.
Proof.
  intros Q. rewrite signed_votes_app.
  assert (signed_votes evs = []) as ->; [|reflexivity].
  destruct (signed_votes evs) as [|v t] eqn:E; [reflexivity|].
  assert (Hin : In v (signed_votes evs)) by (rewrite E; now left).
  apply in_signed_votes in Hin. destruct (Q _ Hin).
Qed.

Definition rounds_ext (a b : list (N * roundvotes)) : Prop :=
  forall r rv, get_rv b r = Some rv -> get_rv a r = Some rv \/ rv = (vs_empty, vs_empty).

Lemma rounds_ext_refl a : rounds_ext a a.
Proof. intros r rv H. now left. Qed.

Lemma rounds_ok_ext s s' evs :
  rounds_ok s -> height s' = height s -> log s' = evs ++ log s ->
  rounds_ext (rounds s) (rounds s') -> rounds_ok s'.
Proof.
  intros R Hh Hl Ext r rv G. rewrite Hh, Hl. destruct (Ext r rv G) as [G0|G0]; [|subst rv].
  - destruct (R r rv G0) as (A & B).
    split; (eapply vs_ok_mono; [|eassumption]; intros x; apply received_incl).
  - split; apply vs_ok_empty.
Qed.

(** LH across a transition: old lock-holders stay or are released; new precommits are accounted *)
Lemma LH_step s s' evs :
  LH s -> height s' = height s -> round s <= round s' -> log s' = evs ++ log s ->
  (forall p, In p (signed_votes (log s)) -> v_type p = Precommit -> v_height p = height s ->
             lockedon s p -> lockedon s' p \/ released (log s') (height s) (round s') p) ->
  (forall v, In (EvOut (SignVote v)) evs -> v_type v = Precommit -> v_height v = height s ->
             bh (v_bid v) <> 0 -> lockedon s' v \/ released (log s') (height s) (round s') v) ->
  LH s'.
Proof.
  intros L Hh Hr Hl Hold Hnew p Hin Ty Ph Nz. rewrite Hh in *. rewrite Hl in Hin.
  rewrite signed_votes_app in Hin. apply in_app_or in Hin. destruct Hin as [Hin|Hin].
  - apply Hnew; auto. now apply in_signed_votes.
  - destruct (L p Hin Ty Ph Nz) as [A|B]; [now apply Hold|].
    right. rewrite Hl. eapply released_mono; eauto.
Qed.

Lemma K_quiet s s' evs :
  K s -> height s' = height s -> round s <= round s' -> log s' = evs ++ log s -> quiet evs ->
  rounds_ext (rounds s) (rounds s') ->
  locked s' = locked s -> locked_round s' = locked_round s -> K s'.
Proof.
  intros [K1 K2 K3 K4] Hh Hr Hl Q Ext El Er. split.
  - eapply rounds_ok_ext; eauto.
  - eapply LH_step; eauto.
    + intros p _ _ _ (lb & A & B & C). left. exists lb. rewrite El, Er. auto.
    + intros v Hin. destruct (Q _ Hin).
  - intros lb. rewrite El. apply K3.
  - rewrite Hl. now apply hist_quiet.
Qed.

Lemma K_core s s0 : core_eq s s0 -> rounds s0 = rounds s -> locked s0 = locked s ->
  locked_round s0 = locked_round s -> K s -> K s0.
Proof.
  intros (A1 & A2 & A3 & A4 & A5) Er El Elr Ks.
  apply (K_quiet s s0 []); auto using qnil; try lia.
  rewrite Er. apply rounds_ext_refl.
Qed.

(* ---------------------------------------------------------------- primitives *)

Local Notation I6 := (Inv6 valid).

Lemma K_panic s : K s -> K (panic s).
Proof.
  intros Ks. apply (K_quiet s _ [EvOut Panic]); auto using rounds_ext_refl; cbn; try lia.
  apply qone. exact I.
Qed.

Lemma K_sched h r st s : K s -> K (sched h r st s).
Proof.
  intros Ks. unfold sched.
  destruct (tk_accepts _ _); apply (K_quiet s _ [EvOut (Sched h r st)]); auto using rounds_ext_refl;
    cbn; try lia; apply qone; exact I.
Qed.

Lemma maj_polka s r ty b :
  rounds_ok s -> maj_of (get_vs s r ty) = Some b ->
  quorum_received vals (received (log s)) ty (height s) r b.
Proof.
  intros R M. unfold get_vs in M. destruct (get_rv (rounds s) r) as [rv|] eqn:G; [|discriminate].
  destruct (R r rv G) as (A & B). cbn in M.
  destruct ty; cbn in M; eapply vs_ok_quorum; eauto.
Qed.

Lemma not_hashes_to s lb y :
  lockhash s -> locked s = Some lb -> hashes_to (locked s) (bh y) = false -> bh y <> b_hash lb.
Proof.
  intros LHh El H. rewrite El in H. unfold hashes_to in H. specialize (LHh lb El).
  destruct (bh y =? 0) eqn:E; b2p; [congruence|]. b2p. congruence.
Qed.

(** a precommit signed earlier in this height is for an earlier round as long as the step is
    below Precommit *)
Lemma precommit_before s p :
  Inv1 s -> step_num (rstep s) < 6 -> In p (signed_votes (log s)) -> v_type p = Precommit ->
  v_height p = height s -> v_round p < round s.
Proof.
  intros I Hs Hin Ty Ph. pose proof (i_past _ I p Hin) as Pa. pose proof (i_cur _ I p Hin Ph) as Cu.
  unfold past in Pa. rewrite Ty in Cu. cbn in Cu.
  destruct (N.eq_dec (v_round p) (round s)) as [E|E]; [specialize (Cu E); lia|lia].
Qed.

(** releasing the lock because of a received polka for another value *)
Lemma K_release s s0 r'' y :
  K s -> core_eq s s0 -> rounds s0 = rounds s -> locked s0 = None ->
  r'' <= round s -> polka_in (log s) (height s) r'' y ->
  (forall lb, locked s = Some lb -> bh y <> b_hash lb) ->
  (forall p, In p (signed_votes (log s)) -> v_type p = Precommit -> v_height p = height s ->
             lockedon s p -> v_round p < r'') ->
  K s0.
Proof.
  intros [K1 K2 K3 K4] (A1 & A2 & A3 & A4 & A5) Er El Hr Po Hne Hlt. split.
  - apply (rounds_ok_ext s s0 []); auto. rewrite Er. apply rounds_ext_refl.
  - apply (LH_step s s0 []); auto; try lia.
    + intros p Hin Ty Ph Lo. right. rewrite A4, A2. exists r'', y.
      destruct Lo as (lb & L1 & L2 & L3). repeat split; auto.
      * eapply Hlt; eauto. exists lb. auto.
      * rewrite <- L2. now apply Hne.
    + intros v [].
  - intros lb. rewrite El. discriminate.
  - now rewrite A4.
Qed.

Lemma stale_scan_spec s : forall n r,
  stale_scan s r n = true -> N.of_nat n <= r ->
  exists r'' y, r - N.of_nat n < r'' /\ r'' <= r /\ maj_of (get_vs s r'' Prevote) = Some y /\
                hashes_to (locked s) (bh y) = false.
Proof.
  induction n as [|n IH]; intros r H Hn; [discriminate|]. cbn [stale_scan] in H.
  assert (Rec : stale_scan s (r - 1) n = true ->
                exists r'' y, r - N.of_nat (S n) < r'' /\ r'' <= r /\ maj_of (get_vs s r'' Prevote) = Some y /\
                              hashes_to (locked s) (bh y) = false).
  { intros H'. destruct (IH (r - 1) H') as (r'' & y & A & B & C & D); [lia|].
    exists r'', y. repeat split; auto; lia. }
  destruct (maj_of (get_vs s r Prevote)) as [b|] eqn:M; [|now apply Rec].
  destruct (negb (hashes_to (locked s) (bh b))) eqn:E; [|now apply Rec].
  apply negb_true_iff in E. exists r, b. repeat split; auto; lia.
Qed.

(** sign a prevote (for the locked block if there is one) and move on *)
Lemma K_sign_prevote b st' r s :
  K s -> round s <= r -> (forall lb, locked s = Some lb -> bh b = b_hash lb) ->
  K (set_rstep st' (set_round r (sign_vote me Prevote b s))).
Proof.
  intros Ks Hr Hb. unfold sign_vote. destruct me as [i|].
  2:{ apply (K_quiet s _ []); auto using qnil, rounds_ext_refl. }
  destruct Ks as [K1 K2 K3 K4].
  set (x := {| v_type := Prevote; v_height := height s; v_round := round s; v_bid := b; v_idx := i; v_ok := true |}).
  split.
  - apply (rounds_ok_ext s _ [EvOut (SignVote x)]); auto. apply rounds_ext_refl.
  - apply (LH_step s _ [EvOut (SignVote x)]); auto.
    all: try (intros p _ _ _ (lb & A & B & C); left; exists lb; auto; fail).
    intros v Hin Ty. destruct Hin as [E|[]]. injection E as <-. discriminate.
  - exact K3.
  - apply (hist_app [EvOut (SignVote x)] (log s)); auto.
    intros post o pre' E. destruct post as [|e post]; [|destruct post; discriminate].
    injection E as <- <-. cbn [app]. unfold Pout. cbn [v_type x].
    intros p Hin Ty Nz Ph Pr Hne. cbn [x v_height v_round v_bid] in *.
    destruct (K2 p Hin Ty Ph Nz) as [(lb & L1 & L2 & L3)|Rl].
    + exfalso. apply Hne. rewrite (Hb lb L1). exact L2.
    + rewrite Ph. exact Rl.
Qed.

Lemma enter_prevote_K h r s : K s -> K (enter_prevote valid me h r s).
Proof.
  intros Ks. unfold enter_prevote.
  destruct (negb (height s =? h) || (r <? round s) || _) eqn:G; [exact Ks|].
  apply orb_false_iff in G. destruct G as (G & _). b2p.
  unfold do_prevote.
  set (s1 := match locked s with Some _ => if stale_lock s then unlock s else s | None => s end).
  assert (K1 : K s1 /\ round s1 = round s /\ height s1 = height s).
  { subst s1. destruct (locked s) as [lb|] eqn:El; [|auto]. destruct (stale_lock s) eqn:St; [|auto].
    split; [|auto]. unfold stale_lock in St. apply stale_scan_spec in St; [|lia].
    destruct St as (r'' & y & A & B & C & D).
    apply (K_release s (unlock s) r'' y); auto; try (repeat split; fail).
    - eapply maj_polka; eauto. apply Ks.
    - intros lb' El'. eapply not_hashes_to; eauto. apply Ks.
    - intros p _ _ _ (lb' & L1 & L2 & L3). lia. }
  destruct K1 as (K1 & R1 & H1). clearbody s1. unfold do_prevote_locked.
  destruct (locked s1) as [lb|] eqn:El.
  { apply K_sign_prevote; auto; try lia. intros lb' E. rewrite El in E. injection E as <-. reflexivity. }
  destruct (pblock s1); [|apply K_sign_prevote; auto; try lia; rewrite El; discriminate].
  destruct (negb _); apply K_sign_prevote; auto; try lia; rewrite El; discriminate.
Qed.

(** sign a nil precommit and move on *)
Lemma K_sign_nil_precommit st' r s :
  K s -> round s <= r -> K (set_rstep st' (set_round r (sign_vote me Precommit bid_nil s))).
Proof.
  intros Ks Hr. unfold sign_vote. destruct me as [i|].
  2:{ apply (K_quiet s _ []); auto using qnil, rounds_ext_refl. }
  destruct Ks as [K1 K2 K3 K4].
  set (x := {| v_type := Precommit; v_height := height s; v_round := round s; v_bid := bid_nil; v_idx := i; v_ok := true |}).
  split.
  - apply (rounds_ok_ext s _ [EvOut (SignVote x)]); auto. apply rounds_ext_refl.
  - apply (LH_step s _ [EvOut (SignVote x)]); auto.
    all: try (intros p _ _ _ (lb & A & B & C); left; exists lb; auto; fail).
    intros v Hin Ty Vh Nz. destruct Hin as [E|[]]. injection E as <-. cbn in Nz. congruence.
  - exact K3.
  - apply (hist_app [EvOut (SignVote x)] (log s)); auto.
    intros post o pre' E. destruct post as [|e post]; [|destruct post; discriminate].
    injection E as <- <-. cbn. split; [reflexivity|]. intros Nz. congruence.
Qed.

(** sign a precommit for the polka block [b] of the current round while (re)locking block [lb] *)
Lemma K_sign_lock b lb r s s0 :
  Inv1 s -> I6 s -> K s -> step_num (rstep s) < 6 -> r = round s ->
  core_eq s s0 -> rounds s0 = rounds s ->
  locked s0 = Some lb -> locked_round s0 = r -> b_hash lb = bh b -> bh b <> 0 ->
  maj_of (get_vs s r Prevote) = Some b ->
  (locked s = Some lb \/ (hashes_to (locked s) (bh b) = false /\ pblock s = Some lb /\ valid (height s) lb = true)) ->
  K (set_rstep SPrecommit (set_round r (sign_vote me Precommit b s0))).
Proof.
  intros I J Ks Hst -> (A1 & A2 & A3 & A4 & A5) Er El Elr Hb Nz M Src.
  pose proof Ks as [K1 K2 K3 K4].
  assert (Po : polka_in (log s) (height s) (round s) b) by (eapply maj_polka; eauto).
  assert (Old : forall evs p, In p (signed_votes (log s)) -> v_type p = Precommit -> v_height p = height s ->
            lockedon s p -> (exists lb', locked s0 = Some lb' /\ b_hash lb' = bh (v_bid p) /\ v_round p <= round s)
                            \/ released (evs ++ log s) (height s) (round s) p).
  { intros evs p Hin Ty Ph (lb' & L1 & L2 & L3).
    pose proof (precommit_before s p I Hst Hin Ty Ph) as Lt.
    destruct Src as [Same|(NH & _ & _)].
    - left. exists lb. rewrite Same in L1. injection L1 as <-. repeat split; auto. lia.
    - right. exists (round s), b. repeat split; auto; try lia.
      + rewrite <- L2. intros E. apply (not_hashes_to s lb' b K3 L1 NH). now rewrite E.
      + now apply polka_mono. }
  assert (Held : exists blk, held (received (log s)) blk /\ b_hash blk = bh b /\ valid (height s) blk = true).
  { exists lb. destruct Src as [Same|(_ & Pb & Va)].
    - destruct (j_lk _ _ J lb Same). auto.
    - split; [apply (j_pb _ _ J lb Pb)|auto]. }
  unfold sign_vote. destruct me as [i|].
  - set (x := {| v_type := Precommit; v_height := height s0; v_round := round s0; v_bid := b; v_idx := i; v_ok := true |}).
    split.
    + apply (rounds_ok_ext s _ [EvOut (SignVote x)]); cbn; auto; try congruence. rewrite Er. apply rounds_ext_refl.
    + apply (LH_step s _ [EvOut (SignVote x)]); cbn; auto; try congruence; try lia.
      * intros p Hin Ty Ph Lo. destruct (Old [EvOut (SignVote x)] p Hin Ty Ph Lo) as [(lb' & B1 & B2 & B3)|Rl].
        -- left. exists lb'. cbn. rewrite Elr. auto.
        -- right. rewrite A4. exact Rl.
      * intros v Hin Ty Vh Nzv. destruct Hin as [E|[]]. injection E as <-. left. exists lb. cbn.
        rewrite Elr, A2. repeat split; auto. lia.
    + intros lb' E. cbn in E. rewrite El in E. injection E as <-. rewrite Hb. exact Nz.
    + cbn. rewrite A4. apply (hist_app [EvOut (SignVote x)] (log s)); auto.
      intros post o pre' E. destruct post as [|e post]; [|destruct post; discriminate].
      injection E as <- <-. cbn. split; [congruence|]. intros _. rewrite A1, A2. split; auto.
  - split.
    + apply (rounds_ok_ext s _ []); cbn; auto. rewrite Er. apply rounds_ext_refl.
    + apply (LH_step s _ []); cbn; auto; try lia.
      all: try (intros v []).
      all: try (intros p Hin Ty Ph Lo; destruct (Old [] p Hin Ty Ph Lo) as [(lb' & B1 & B2 & B3)|Rl];
                [left; exists lb'; cbn; rewrite Elr; auto|right; rewrite A4; exact Rl]).
    + intros lb' E. cbn in E. rewrite El in E. injection E as <-. rewrite Hb. exact Nz.
    + cbn. now rewrite A4.
Qed.

Lemma enter_precommit_K h r s :
  Inv1 s -> I6 s -> K s -> Pre h r s -> K (enter_precommit valid me h r s).
Proof.
  intros I J Ks P. unfold enter_precommit.
  destruct (negb (height s =? h) || (r <? round s) || ((round s =? r) && step_le SPrecommit (rstep s))) eqn:G;
    [exact Ks|].
  apply guard_round in G; auto. destruct G as (Hh & Hr & Hs). b2p. cbn in Hs. clear P. subst r.
  pose proof Ks as [K1 K2 K3 K4].
  assert (Nil : forall s0, K s0 -> round s0 <= (round s) ->
                K (set_rstep SPrecommit (set_round (round s) (sign_vote me Precommit bid_nil s0)))).
  { intros s0 K0 R0. now apply K_sign_nil_precommit. }
  assert (Rel : forall b s0, maj_of (get_vs s (round s) Prevote) = Some b ->
                 (forall lb, locked s = Some lb -> bh b <> b_hash lb) ->
                 core_eq s s0 -> rounds s0 = rounds s -> locked s0 = None -> K s0).
  { intros b s0 M Hne C Er El. apply (K_release s s0 (round s) b); auto; try lia.
    - eapply maj_polka; eauto.
    - intros p Hin Ty Ph _. eapply precommit_before; eauto. }
  destruct (maj_of (get_vs s (round s) Prevote)) as [b|] eqn:M; [|apply Nil; auto; lia].
  destruct (pol_info s <? (round s)); [now apply K_panic|].
  destruct (bid_is_zero b) eqn:Z.
  { assert (Hz : bh b = 0). { unfold bid_is_zero in Z. b2p. assumption. }
    destruct (locked s) as [lb|] eqn:El; [|apply Nil; auto; lia].
    apply Nil; [|cbn; lia]. apply (Rel b); auto; try (repeat split; fail).
    intros lb' E. rewrite Hz. intros E'. apply (K3 lb'); congruence. }
  destruct (hashes_to (locked s) (bh b)) eqn:HL.
  { destruct (locked s) as [lb|] eqn:El; [|rewrite hashes_to_none in HL; discriminate].
    apply hashes_to_some in HL. destruct HL as (HL1 & HL2).
    eapply (K_sign_lock b lb (round s) s); eauto; try (repeat split; fail); try lia. }
  destruct (hashes_to (pblock s) (bh b)) eqn:HP.
  { destruct (pblock s) as [pb|] eqn:Ep; [|exact Ks].
    destruct (negb (valid (height s) pb)) eqn:Ev; [now apply K_panic|]. apply negb_false_iff in Ev.
    apply hashes_to_some in HP. destruct HP as (HP1 & HP2).
    eapply (K_sign_lock b pb (round s) s); eauto; try (repeat split; fail); try lia. }
  assert (Hne : forall lb, locked s = Some lb -> bh b <> b_hash lb).
  { intros lb E. eapply not_hashes_to; eauto. }
  destruct (negb _); (apply Nil; [|cbn; lia]); apply (Rel b); auto; repeat split.
Qed.

Lemma enter_prevote_wait_K h r s : K s -> K (enter_prevote_wait vals h r s).
Proof.
  intros Ks. unfold enter_prevote_wait.
  destruct (negb (height s =? h) || (r <? round s) || _) eqn:G; [exact Ks|].
  apply orb_false_iff in G. destruct G as (G & _). b2p.
  destruct (negb _); [now apply K_panic|].
  pose proof (K_sched h r SPrevoteWait s Ks) as K1.
  destruct (sched_keeps h r SPrevoteWait s) as (A & B).
  apply (K_quiet (sched h r SPrevoteWait s) _ []); auto using qnil, rounds_ext_refl. cbn. lia.
Qed.

Lemma enter_precommit_wait_K h r s : K s -> K (enter_precommit_wait vals h r s).
Proof.
  intros Ks. unfold enter_precommit_wait. destruct (_ || _); [exact Ks|].
  destruct (negb _); [now apply K_panic|].
  pose proof (K_sched h r SPrecommitWait s Ks) as K1.
  apply (K_quiet (sched h r SPrecommitWait s) _ []); auto using qnil, rounds_ext_refl. cbn. lia.
Qed.

Lemma reset_height_K lc s : Inv1 s -> K s -> K (reset_height lc s).
Proof.
  intros I [K1 K2 K3 K4]. split.
  - intros r rv G. apply get_rv_single in G. subst rv. split; apply vs_ok_empty.
  - intros p Hin Ty Ph _. cbn in *. pose proof (i_past _ I p Hin) as Pa. unfold past in Pa. lia.
  - intros lb E. discriminate.
  - exact K4.
Qed.

Lemma update_to_state_K s : Inv1 s -> K s -> K (update_to_state s).
Proof.
  intros I Ks. unfold update_to_state. destruct (0 <? commit_round s).
  - destruct (get_vs _ _ _); [|now apply K_panic]. destruct (has_maj _); [now apply reset_height_K|now apply K_panic].
  - destruct (last_commit s); [now apply reset_height_K|now apply K_panic].
Qed.

Lemma andthen_IK (f g : nstate -> nstate) s :
  Inv1 (f s) -> K (f s) -> (forall x, Inv1 x -> K x -> K (g x)) -> K ((f ;; g) s).
Proof. intros I Kf H. unfold andthen. destruct (halted (f s)); auto. Qed.

Lemma finalize_commit_K h s : Inv1 s -> K s -> K (finalize_commit valid h s).
Proof.
  intros I Ks. unfold finalize_commit.
  destruct (_ || _); [exact Ks|].
  destruct (maj_of _) as [b|] eqn:M; [|now apply K_panic].
  destruct (negb _); [now apply K_panic|].
  destruct (negb (hashes_to (pblock s) (bh b))) eqn:HP; [now apply K_panic|]. apply negb_false_iff in HP.
  destruct (pblock s) as [pb|] eqn:Ep; [|now apply K_panic].
  destruct (negb (valid (height s) pb)) eqn:Ev; [now apply K_panic|]. apply negb_false_iff in Ev.
  destruct (negb _); [now apply K_panic|].
  set (o := Commit (height s) pb (commit_round s)).
  assert (I1 : Inv1 (emit o s)) by (apply Inv1_emit_other; auto; discriminate).
  assert (K1 : K (emit o s)).
  { pose proof Ks as [A1 A2 A3 A4]. split.
    - apply (rounds_ok_ext s _ [EvOut o]); auto. apply rounds_ext_refl.
    - apply (LH_step s _ [EvOut o]); cbn; auto; try lia.
      all: try (intros p _ _ _ (lb & A & B & C); left; exists lb; auto; fail).
      intros v [E|[]]. discriminate.
    - exact A3.
    - apply (hist_app [EvOut o] (log s)); auto.
      intros post o' pre' E. destruct post as [|e post]; [|destruct post; discriminate].
      injection E as <- <-. cbn. split; [exact Ev|]. exists b. split.
      + apply hashes_to_some in HP. destruct HP. congruence.
      + eapply maj_polka; eauto. }
  apply andthen_IK.
  - unfold andthen. destruct (halted (emit o s)); [exact I1|]. now apply update_to_state_inv.
  - unfold andthen. destruct (halted (emit o s)); [exact K1|]. now apply update_to_state_K.
  - intros x Ix Kx. now apply K_sched.
Qed.

Lemma try_finalize_commit_K h s : Inv1 s -> K s -> K (try_finalize_commit valid h s).
Proof.
  intros I Ks. unfold try_finalize_commit.
  destruct (negb _); [now apply K_panic|].
  destruct (maj_of _); [|exact Ks].
  destruct (bid_is_zero _); [exact Ks|]. destruct (negb _); [exact Ks|]. now apply finalize_commit_K.
Qed.

(* ---------------------------------------------------------------- composite transitions *)

Lemma K_irrel s s0 :
  K s -> height s0 = height s -> round s <= round s0 -> log s0 = log s -> rounds s0 = rounds s ->
  locked s0 = locked s -> locked_round s0 = locked_round s -> K s0.
Proof.
  intros Ks A1 A2 A4 Er El Elr. apply (K_quiet s s0 []); auto using qnil. rewrite Er. apply rounds_ext_refl.
Qed.

Lemma rounds_ext_trans a b c : rounds_ext a b -> rounds_ext b c -> rounds_ext a c.
Proof.
  intros H1 H2 r rv G. destruct (H2 r rv G) as [G'|E]; [|now right]. now apply H1.
Qed.
Lemma add_round_ext r s : rounds_ext (rounds s) (rounds (add_round r s)).
Proof.
  unfold add_round. destruct (get_rv (rounds s) r) eqn:E; [apply rounds_ext_refl|].
  cbn. intros r' rv G. rewrite get_rv_app in G. destruct (get_rv (rounds s) r'); [now left|].
  destruct (r =? r'); [injection G as <-; now right|discriminate].
Qed.
Lemma add_rounds_from_ext n : forall lo s, rounds_ext (rounds s) (rounds (add_rounds_from lo n s)).
Proof.
  induction n as [|n IH]; intros lo s; cbn; [apply rounds_ext_refl|].
  eapply rounds_ext_trans; [apply (add_round_ext lo)|apply IH].
Qed.
(** add_round / add_rounds_from touch nothing but [rounds] *)
Definition same_but_rounds (s s0 : nstate) : Prop :=
  core_eq s s0 /\ locked s0 = locked s /\ locked_round s0 = locked_round s.
Lemma add_round_sbr r s : same_but_rounds s (add_round r s).
Proof. unfold add_round. destruct (get_rv _ _); repeat split. Qed.
Lemma add_rounds_from_sbr n : forall lo s, same_but_rounds s (add_rounds_from lo n s).
Proof.
  induction n as [|n IH]; intros lo s; cbn; [repeat split|].
  destruct (add_round_sbr lo s) as (C1 & L1 & R1). destruct (IH (lo + 1) (add_round lo s)) as (C2 & L2 & R2).
  split; [eapply core_eq_trans; eauto|]. split; congruence.
Qed.

Lemma K_rounds_ext s s0 :
  K s -> same_but_rounds s s0 -> rounds_ext (rounds s) (rounds s0) -> K s0.
Proof.
  intros Ks ((A1 & A2 & A3 & A4 & A5) & L & R) Ext.
  apply (K_quiet s s0 []); auto using qnil. lia.
Qed.

Lemma hvs_set_round_K nr s : K s -> K (hvs_set_round nr s).
Proof.
  intros Ks. unfold hvs_set_round. destruct (_ && _); [now apply K_panic|].
  set (x := add_rounds_from _ _ s).
  assert (Kx : K x).
  { apply (K_rounds_ext s); auto; [apply add_rounds_from_sbr|apply add_rounds_from_ext]. }
  apply (K_irrel x); auto. cbn. lia.
Qed.

Lemma decide_proposal_K m h r s : K s -> K (decide_proposal mkblock cfg m h r s).
Proof.
  intros Ks. destruct (decide_proposal_shape mkblock cfg m h r s) as [->|(p & _ & _ & ->)]; [exact Ks|].
  apply (K_quiet s _ [EvOut (SignProposal p)]); auto using rounds_ext_refl; cbn; try lia. apply qone. exact I.
Qed.

Lemma enter_propose_K h r s : K s -> K (enter_propose valid proposer mkblock cfg me h r s).
Proof.
  intros Ks. unfold enter_propose.
  destruct (negb (height s =? h) || (r <? round s) || _) eqn:G; [exact Ks|].
  apply orb_false_iff in G. destruct G as (G & _). b2p.
  set (s1 := sched h r SPropose s). assert (K1 : K s1) by now apply K_sched.
  destruct (sched_keeps h r SPropose s) as (A & B). fold s1 in A, B.
  set (s2 := match me with Some i => _ | None => s1 end).
  assert (K2 : K s2 /\ round s2 = round s1).
  { subst s2. destruct me; [|auto]. destruct (_ =? _); [|auto]. split; [now apply decide_proposal_K|].
    destruct (decide_proposal_shape mkblock cfg (Some n) h r s1) as [->|(p & _ & _ & ->)]; reflexivity. }
  destruct K2 as (K2 & R2).
  assert (K3 : K (set_rstep SPropose (set_round r s2))).
  { apply (K_irrel s2); auto. cbn. lia. }
  destruct (is_proposal_complete _); [now apply enter_prevote_K|exact K3].
Qed.

Lemma enter_new_round_K h r s : K s -> K (enter_new_round valid proposer mkblock cfg me h r s).
Proof.
  intros Ks. unfold enter_new_round.
  destruct (negb (height s =? h) || (r <? round s) || _) eqn:G; [exact Ks|].
  apply orb_false_iff in G. destruct G as (G & _). b2p.
  match goal with |- K ((_ ;; ?g) ?s3) => set (Gf := g); set (S3 := s3) end.
  assert (K3 : K S3).
  { subst S3. apply (K_irrel s); auto.
    all: destruct (round s <? r); destruct (r =? 1); cbn; auto; lia. }
  unfold andthen. pose proof (hvs_set_round_K (r + 1) S3 K3) as K4.
  destruct (halted _); [exact K4|]. subst Gf. cbn beta.
  set (x := hvs_set_round (r + 1) S3) in *.
  assert (K5 : K (set_tt_precommit false x)) by (apply (K_irrel x); auto; cbn; lia).
  destruct (_ && _).
  - destruct (empty_interval_pos cfg); [now apply K_sched|exact K5].
  - now apply enter_propose_K.
Qed.

Definition NI (s : nstate) : Prop := Inv1 s /\ I6 s /\ K s.

Lemma ni_enter_prevote h r s :
  NI s -> Pre h r s -> NI (enter_prevote valid me h r s) /\ keeps s (enter_prevote valid me h r s).
Proof.
  intros (I & J & Ks) P. destruct (enter_prevote_inv valid me h r s I P) as (I' & Kp).
  split; [|exact Kp]. split; [exact I'|]. split; [now apply enter_prevote_J|now apply enter_prevote_K].
Qed.
Lemma ni_enter_precommit h r s :
  NI s -> Pre h r s -> NI (enter_precommit valid me h r s) /\ keeps s (enter_precommit valid me h r s).
Proof.
  intros (I & J & Ks) P. destruct (enter_precommit_inv valid me h r s I P) as (I' & Kp).
  split; [|exact Kp]. split; [exact I'|]. split; [now apply enter_precommit_J|now apply enter_precommit_K].
Qed.
Lemma ni_enter_prevote_wait h r s :
  NI s -> Pre h r s -> NI (enter_prevote_wait vals h r s).
Proof.
  intros (I & J & Ks) P. destruct (enter_prevote_wait_inv vals h r s I P) as (I' & Kp).
  split; [exact I'|]. split; [now apply enter_prevote_wait_J|now apply enter_prevote_wait_K].
Qed.
Lemma ni_enter_precommit_wait h r s : NI s -> NI (enter_precommit_wait vals h r s).
Proof.
  intros (I & J & Ks). destruct (enter_precommit_wait_inv vals h r s I) as (I' & Kp).
  split; [exact I'|]. split; [now apply enter_precommit_wait_J|now apply enter_precommit_wait_K].
Qed.
Lemma ni_enter_new_round h r s :
  NI s -> let s' := enter_new_round valid proposer mkblock cfg me h r s in
          NI s' /\ height s' = height s /\ Pre h r s'.
Proof.
  intros (I & J & Ks). cbv zeta. destruct (enter_new_round_inv valid proposer mkblock cfg me h r s I) as (I' & Hh & P).
  split; [|auto]. split; [exact I'|]. split; [now apply enter_new_round_J|now apply enter_new_round_K].
Qed.
Lemma ni_try_finalize h s : NI s -> NI (try_finalize_commit valid h s).
Proof.
  intros (I & J & Ks). split; [now apply try_finalize_commit_inv|].
  split; [now apply try_finalize_commit_J|now apply try_finalize_commit_K].
Qed.

Lemma ni_enter_commit h cr s : NI s -> NI (enter_commit valid h cr s).
Proof.
  intros (I & J & Ks). split; [now apply enter_commit_inv|]. split; [now apply enter_commit_J|].
  unfold enter_commit.
  destruct (negb (height s =? h) || step_le SCommit (rstep s)) eqn:G; [exact Ks|]. b2p.
  destruct (maj_of _) as [b|]; [|now apply K_panic].
  match goal with |- K (try_finalize_commit valid h ?X) => set (x := X) end.
  assert (C : height x = height s /\ round x = round s /\ log x = log s /\ timeouts x = timeouts s /\
              rounds x = rounds s /\ locked x = locked s /\ locked_round x = locked_round s).
  { subst x. destruct (hashes_to (locked s) _); destruct (_ && _); repeat split. }
  destruct C as (A1 & A2 & A4 & A5 & Er & El & Elr).
  apply try_finalize_commit_K.
  - apply (Inv1_move s); auto.
    + unfold adv. right. right. rewrite A1, A2. repeat split; auto. subst x. cbn in *. lia.
    + now rewrite A4.
    + now rewrite A4.
    + now apply tk_ok_same.
  - apply (K_irrel s); auto. lia.
Qed.

Lemma ni_nr_pc h r s :
  NI s -> NI ((enter_new_round valid proposer mkblock cfg me h r ;; enter_precommit valid me h r) s).
Proof.
  intros N0. unfold andthen. destruct (ni_enter_new_round h r s N0) as (N1 & H1 & P1). cbv zeta in *.
  destruct (halted _); [exact N1|]. now apply ni_enter_precommit.
Qed.

Lemma andthen_NI (f g : nstate -> nstate) s :
  NI (f s) -> (forall x, NI x -> NI (g x)) -> NI ((f ;; g) s).
Proof. intros N0 H. unfold andthen. destruct (halted (f s)); auto. Qed.

Lemma NI_irrel s s0 :
  NI s -> core_eq s s0 -> rounds s0 = rounds s -> locked s0 = locked s -> locked_round s0 = locked_round s ->
  (pblock s0 = pblock s \/ pblock s0 = None \/ pblock s0 = locked s) -> NI s0.
Proof.
  intros (I & J & Ks) C Er El Elr Pb. split; [eapply Inv1_core; eauto|]. split.
  - destruct C as (A1 & A2 & A3 & A4 & A5). apply (Inv6_quiet valid s s0 []); auto using ProofsValid.quiet_nil.
  - now apply (K_core s).
Qed.

Lemma ni_recv_proposal p s : NI s -> NI (recv_proposal proposer p s).
Proof.
  intros N0. pose proof (recv_proposal_core proposer p s) as C.
  destruct (recv_proposal_v proposer p s) as (V1 & V2 & V3 & V4).
  apply (NI_irrel s); auto.
  - unfold recv_proposal. destruct (prop s); auto. destruct (_ || _); auto. destruct (_ && _); auto.
    destruct (p_signer p); auto. destruct (negb _); auto. cbn. destruct (pparts s); reflexivity.
  - unfold recv_proposal. destruct (prop s); auto. destruct (_ || _); auto. destruct (_ && _); auto.
    destruct (p_signer p); auto. destruct (negb _); auto. cbn. destruct (pparts s); reflexivity.
Qed.

Lemma ni_add_block h r b s :
  NI s -> In (InBlock h r b) (received (log s)) -> NI (add_block valid me h r b s).
Proof.
  intros (I & J & Ks) Hin. split; [now apply add_block_inv|]. split; [now apply add_block_J|].
  unfold add_block.
  destruct (negb (height s =? h)) eqn:G; [exact Ks|]. b2p.
  destruct (pparts s) as [ps|]; [|exact Ks].
  destruct (negb (ps_hdr ps =? b_parts b)); [exact Ks|].
  destruct (ps_complete s ps); [exact Ks|].
  set (s1 := set_pblock _ _).
  set (s2 := match maj_of (get_vs s1 (round s1) Prevote) with Some x => _ | None => s1 end).
  assert (C2 : core_eq s s2 /\ rounds s2 = rounds s /\ locked s2 = locked s /\ locked_round s2 = locked_round s).
  { subst s2. destruct (maj_of _); [|repeat split]. destruct (_ && _); repeat split. }
  destruct C2 as (C2 & Er & El & Elr).
  assert (I2 : Inv1 s2) by (eapply Inv1_core; eauto).
  assert (K2 : K s2) by now apply (K_core s).
  assert (J2 : I6 s2).
  { assert (J1 : I6 s1).
    { subst s1. eapply Inv6_frame with (s := s) (evs := []); cbn; auto.
      - intros v [].
      - intros x Hx. injection Hx as <-. right. right. exists h, r. exact Hin. }
    eapply Inv6_eq; [|exact J1]. subst s2. destruct (maj_of _); [|repeat split]. destruct (_ && _); repeat split. }
  clearbody s2.
  destruct (_ && _).
  - unfold andthen.
    pose proof (ni_enter_prevote h (round s2) s2 (conj I2 (conj J2 K2)) (fun _ => N.le_refl _)) as N3.
    destruct N3 as ((I3 & J3 & K3) & Kp3).
    destruct (halted (enter_prevote valid me h (round s2) s2)); [exact K3|].
    match goal with |- K (if ?c then _ else _) => destruct c end; [|exact K3].
    apply enter_precommit_K; auto. intros _. lia.
  - destruct (step_eqb _ _); [now apply try_finalize_commit_K|exact K2].
Qed.

Lemma voted_for_in ins peer v :
  In (InVote peer v) ins -> v_ok v = true ->
  voted_for ins (v_type v) (v_height v) (v_round v) (v_bid v) (v_idx v) = true.
Proof.
  intros Hin Ok. unfold voted_for. apply existsb_exists. exists (InVote peer v). split; [exact Hin|].
  rewrite Ok, !N.eqb_refl. unfold bid_eqb. rewrite !N.eqb_refl. destruct (v_type v); reflexivity.
Qed.

Lemma hvs_add_K peer v s :
  K s -> In (InVote peer v) (received (log s)) -> v_height v = height s ->
  K (fst (hvs_add vals peer v s)).
Proof.
  intros Ks Hin Vh. unfold hvs_add.
  assert (Hgo : forall s', K s' -> log s' = log s -> height s' = height s -> K (fst (
    match get_rv (rounds s') (v_round v) with
    | None => (s', false)
    | Some rv =>
      if negb (v_ok v) then (s', false)
      else let '(vs', added) := vs_add (pw vals s') (pick (v_type v) rv) (v_idx v) (v_bid v) in
           if added then (set_rounds (put_rv (rounds s') (v_round v) (upd (v_type v) rv vs')) s', true)
           else (s', false)
    end))).
  { intros s' Ks' El Eh. destruct (get_rv (rounds s') (v_round v)) as [rv|] eqn:G; [|exact Ks'].
    destruct (negb (v_ok v)) eqn:Ok; [exact Ks'|]. apply negb_false_iff in Ok.
    destruct (vs_add _ _ _ _) as [vs' added] eqn:Ea. destruct added; [|exact Ks'].
    cbn [fst]. pose proof Ks' as [K1 K2 K3 K4]. split.
    - intros r' rv' G'. cbn [rounds set_rounds log height] in *.
      destruct (N.eq_dec (v_round v) r') as [E|E].
      + subst r'. rewrite (get_put_rv_same _ _ _ _ G) in G'. injection G' as <-.
        destruct (K1 _ _ G) as (A & B).
        assert (V : voted_for (received (log s')) (v_type v) (height s') (v_round v) (v_bid v) (v_idx v) = true).
        { rewrite El, Eh, <- Vh. now apply (voted_for_in _ peer). }
        unfold pw in Ea.
        destruct (v_type v); cbn [pick upd fst snd] in *; split; auto; eapply vs_ok_add; eauto.
      + rewrite get_put_rv_other in G'; auto.
    - apply (LH_step s' _ []); auto; cbn; try lia.
      all: try (intros p _ _ _ (lb & A & B & C); left; exists lb; auto; fail).
      all: try (intros x []).
    - exact K3.
    - exact K4. }
  destruct (get_rv (rounds s) (v_round v)) eqn:E.
  - specialize (Hgo s Ks eq_refl eq_refl). rewrite E in Hgo. exact Hgo.
  - destruct (_ <? _)%nat; [|exact Ks].
    match goal with |- K (fst (match get_rv (rounds ?x) _ with _ => _ end)) => apply (Hgo x) end; try reflexivity.
    + apply (K_rounds_ext s); auto.
      * destruct (add_round_sbr (v_round v) s) as ((A1 & A2 & A3 & A4 & A5) & L & R). repeat split; cbn; auto.
      * cbn. apply add_round_ext.
    + cbn. apply (add_round_sbr (v_round v) s).
    + cbn. apply (add_round_sbr (v_round v) s).
Qed.

Lemma ni_add_vote peer v s :
  NI s -> In (InVote peer v) (received (log s)) ->
  NI (add_vote valid vals proposer mkblock cfg me peer v s).
Proof.
  intros N0 Hin. pose proof N0 as (I & J & Ks). unfold add_vote.
  destruct (_ && vtype_eqb _ _).
  { destruct (negb _); [exact N0|]. destruct (last_commit s) as [[[lh lr] vs]|]; [|exact N0].
    destruct (_ || _); [exact N0|]. destruct (vs_add _ _ _ _) as [vs' added].
    destruct (negb added); [exact N0|].
    assert (N1 : NI (set_last_commit (Some (lh, lr, vs')) s)) by (apply (NI_irrel s); auto; repeat split).
    destruct (_ && _); [|exact N1]. now apply ni_enter_new_round. }
  destruct (negb (v_height v =? height s)) eqn:Vh; [exact N0|]. b2p.
  pose proof (hvs_add_core vals peer v s) as C1. pose proof (hvs_add_v vals peer v s) as V1.
  pose proof (hvs_add_K peer v s Ks Hin Vh) as K1.
  destruct (hvs_add vals peer v s) as [s1 added]. cbn [fst] in *.
  assert (N1 : NI s1).
  { split; [eapply Inv1_core; eauto|]. split; [eapply Inv6_eq; eauto|exact K1]. }
  destruct (negb added); [exact N1|].
  destruct (step_eqb (rstep s1) SCommit); [exact N1|].
  assert (Hh1 : height s1 = height s) by apply C1.
  destruct (v_type v).
  - (* prevote *)
    set (s2 := match maj_of (get_vs s1 (v_round v) Prevote) with Some b => _ | None => s1 end).
    assert (N2 : NI s2 /\ height s2 = height s1).
    { subst s2. destruct (maj_of (get_vs s1 (v_round v) Prevote)) as [b|] eqn:M; [|auto].
      set (sa := match locked s1 with Some _ => _ | None => s1 end).
      assert (Na : NI sa /\ height sa = height s1).
      { subst sa. destruct (locked s1) as [lb|] eqn:El; [|auto].
        destruct ((locked_round s1 <? v_round v) && (v_round v <=? round s1) && negb (hashes_to (Some lb) (bh b))) eqn:U; [|auto].
        split; [|reflexivity]. b2p. destruct N1 as (I1 & J1 & Kk1). split; [|split].
        - eapply Inv1_core; [|exact I1]. repeat split.
        - apply (Inv6_quiet valid s1 _ []); auto using ProofsValid.quiet_nil.
        - apply (K_release s1 (unlock s1) (v_round v) b); auto; try (repeat split; fail).
          + eapply maj_polka; eauto. apply Kk1.
          + intros lb' El'. eapply not_hashes_to; eauto; [apply Kk1|]. rewrite El. assumption.
          + intros p _ _ _ (lb' & L1 & L2 & L3). lia. }
      destruct Na as (Na & Ha). clearbody sa.
      destruct (negb (bh b =? 0) && (valid_round sa <? v_round v) && (v_round v =? round sa)); [|auto].
      split.
      + apply (NI_irrel sa); auto.
        all: destruct (hashes_to (pblock sa) (bh b)); destruct (negb _); cbn; auto; repeat split.
      + destruct (hashes_to (pblock sa) (bh b)); destruct (negb _); cbn; auto. }
    destruct N2 as (N2 & H2). clearbody s2.
    destruct ((round s2 <? v_round v) && _); [now apply ni_enter_new_round|].
    destruct ((round s2 =? v_round v) && _) eqn:B2.
    { b2p. assert (P : Pre (height s) (v_round v) s2) by (intros _; lia).
      destruct (maj_of _).
      - destruct (_ || _); [now apply ni_enter_precommit|].
        destruct (any_of _ _); [now apply ni_enter_prevote_wait|exact N2].
      - destruct (any_of _ _); [now apply ni_enter_prevote_wait|exact N2]. }
    destruct (prop s2) as [p|]; [|exact N2]. destruct ((1 <=? p_pol p) && _); [|exact N2].
    destruct (is_proposal_complete s2); [|exact N2]. apply ni_enter_prevote; auto. intros _. lia.
  - (* precommit *)
    destruct (maj_of _) as [b|].
    + apply andthen_NI; [now apply ni_nr_pc|]. intros x Nx.
      destruct (negb _).
      * apply andthen_NI; [now apply ni_enter_commit|]. intros y Ny.
        destruct (skip_timeout_commit cfg && _); [now apply ni_enter_new_round|exact Ny].
      * now apply ni_enter_precommit_wait.
    + destruct (_ && _); [|exact N1].
      apply andthen_NI; [now apply ni_enter_new_round|]. intros x Nx. now apply ni_enter_precommit_wait.
Qed.

Lemma ni_enter_propose h r s :
  NI s -> Pre h r s -> NI (enter_propose valid proposer mkblock cfg me h r s).
Proof.
  intros (I & J & Ks) P. destruct (enter_propose_inv valid proposer mkblock cfg me h r s I P) as (I' & _).
  split; [exact I'|]. split; [now apply enter_propose_J|now apply enter_propose_K].
Qed.

Lemma ni_handle_timeout h r st s :
  NI s -> past s h r -> NI (handle_timeout valid proposer mkblock cfg me h r st s).
Proof.
  intros N0 Pa. pose proof N0 as (I & J & Ks). unfold handle_timeout.
  destruct (negb (h =? height s) || (r <? round s) || _) eqn:G; [exact N0|].
  apply orb_false_iff in G. destruct G as (G & _). b2p.
  assert (P : Pre h r s). { intros _. unfold past in Pa. lia. }
  destruct st; try (split; [now apply Inv1_panic|split; [now apply ProofsValid.Inv6_panic|now apply K_panic]]).
  - now apply ni_enter_new_round.
  - apply ni_enter_propose; auto. intros _. apply (i_round _ I).
  - now apply ni_enter_prevote.
  - now apply ni_enter_precommit.
  - apply andthen_NI; [now apply ni_enter_precommit|]. intros x Nx. now apply ni_enter_new_round.
Qed.

Lemma ni_step_state s i : NI s -> NI (step_state valid vals proposer mkblock cfg me s i).
Proof.
  intros N0. pose proof N0 as (I & J & Ks). unfold step_state. destruct (halted s); [exact N0|].
  set (s0 := set_log (EvIn i :: log s) s).
  assert (Ns : NI s0).
  { subst s0. split; [|split].
    - apply (Inv1_move s); auto; try reflexivity. + unfold adv. cbn. lia. + now apply tk_ok_same.
    - apply (Inv6_quiet valid s _ [EvIn i]); auto. apply ProofsValid.quiet_in.
    - apply (K_quiet s _ [EvIn i]); auto using qin, rounds_ext_refl. cbn. lia. }
  assert (Hi : In i (received (log s0))) by (cbn; now left).
  pose proof Ns as (I0 & J0 & K0).
  destruct i; cbn [handle].
  - destruct (prop_wf p); [now apply ni_recv_proposal|exact Ns].
  - now apply ni_add_block.
  - destruct (negb _); [exact Ns|]. destruct (pparts s0); [|exact Ns].
    split; [now apply Inv1_panic|split; [now apply ProofsValid.Inv6_panic|now apply K_panic]].
  - assert (Hsame : forall x, x = s0 -> NI x) by (intros x ->; exact Ns).
    unfold add_bad_block.
    destruct (negb _); [exact Ns|]. destruct (pparts s0) as [ps|]; [|exact Ns].
    destruct (negb _); [exact Ns|]. destruct (ps_complete s0 ps); [exact Ns|].
    split; [|split].
    + eapply Inv1_core; [|exact I0]. repeat split.
    + eapply ProofsValid.Inv6_eq; [|exact J0]. repeat split.
    + apply (K_irrel s0); auto. cbn. lia.
  - destruct (bid_wf _); [now apply ni_add_vote|exact Ns].
  - destruct (existsb _ _) eqn:E; [|exact Ns].
    apply existsb_exists in E. destruct E as (ti & Hin & Eq). apply tinfo_eqb_eq in Eq. subst ti.
    apply ni_handle_timeout.
    + split; [|split].
      * apply (Inv1_move s0); auto; try reflexivity.
        -- unfold adv. cbn. lia.
        -- intros h' r' st' H. left. cbn in H. eapply in_remove_one; eauto.
      * eapply Inv6_eq; [|exact J0]. repeat split.
      * apply (K_irrel s0); auto. cbn. lia.
    + unfold past. cbn. apply (i_tk _ I0 _ _ _ Hin).
Qed.

Lemma ni_init : NI (init cfg).
Proof.
  split; [apply init_inv|]. split; [apply init_J|].
  unfold init. apply K_sched. split.
  - intros r rv G. apply get_rv_single in G. subst rv. split; apply vs_ok_empty.
  - intros p [].
  - intros lb E. discriminate.
  - intros post o pre E. destruct post; discriminate.
Qed.

Lemma ni_run ins : NI (run valid vals proposer mkblock cfg me ins).
Proof.
  unfold run. generalize ni_init. generalize (init cfg).
  induction ins as [|i ins IH]; intros s N0; cbn; [exact N0|]. apply IH. now apply ni_step_state.
Qed.

(* ---------------------------------------------------------------- the theorems *)

Local Notation flog := (final_log valid vals proposer mkblock cfg me).

Lemma run_hist ins : histK (flog ins).
Proof. destruct (ni_run ins) as (_ & _ & Kr). apply Kr. Qed.

Lemma signed_precommit_nonzero ins post v pre :
  flog ins = post ++ EvOut (SignVote v) :: pre -> v_type v = Precommit ->
  bid_is_zero (v_bid v) = false -> bh (v_bid v) <> 0.
Proof.
  intros E Ty Nz Hz. pose proof (run_hist ins post _ pre E) as P. cbn in P. rewrite Ty in P.
  destruct P as (P1 & _). rewrite (P1 Hz) in Nz. discriminate.
Qed.

Theorem precommit_needs_polka : C03_precommit_needs_polka_statement valid vals proposer mkblock cfg me.
Proof.
  intros ins post pre v E Ty Nz.
  pose proof (signed_precommit_nonzero ins post v pre E Ty Nz) as Hnz.
  pose proof (run_hist ins post _ pre E) as P. cbn in P. rewrite Ty in P. destruct P as (_ & P2).
  exact (P2 Hnz).
Qed.

Theorem commit_needs_quorum : C03_commit_needs_quorum_statement valid vals proposer mkblock cfg me.
Proof.
  intros ins post pre h b r E. exact (run_hist ins post _ pre E).
Qed.

(** the lock rule, for any later prevote (nil included) whose hash differs from the precommitted one *)
Theorem lock_rule_strong ins l3 l2 l1 p x :
  flog ins = l3 ++ EvOut (SignVote x) :: l2 ++ EvOut (SignVote p) :: l1 ->
  v_type p = Precommit -> bid_is_zero (v_bid p) = false -> v_type x = Prevote ->
  v_height x = v_height p -> v_round p < v_round x -> bh (v_bid x) <> bh (v_bid p) ->
  exists r'' y, v_round p < r'' /\ r'' <= v_round x /\ bh y <> bh (v_bid p) /\
                quorum_received vals (received (l2 ++ EvOut (SignVote p) :: l1)) Prevote (v_height p) r'' y.
Proof.
  intros E Tp Nz Tx Hh Hr Hne.
  assert (Hnz : bh (v_bid p) <> 0).
  { apply (signed_precommit_nonzero ins (l3 ++ EvOut (SignVote x) :: l2) p l1); auto.
    rewrite E, <- app_assoc. reflexivity. }
  pose proof (run_hist ins l3 _ _ E) as P. cbn in P. rewrite Tx in P.
  apply (P p); auto. apply in_signed_votes. apply in_or_app. right. now left.
Qed.

Theorem lock_rule : C03_lock_rule_statement valid vals proposer mkblock cfg me.
Proof.
  intros ins l3 l2 l1 p x E Tp Nz Tx _ Hh Hr Hne. eapply lock_rule_strong; eauto.
Qed.

End Lock.
