(** C03 — a non-nil prevote is only ever signed for a block the node was given and that passes
    validation at the vote's height (C03_votes_only_valid). *)
From Coq Require Import List ZArith NArith Bool Lia.
From Kardia Require Import C03.Node C03.ProofsMono C03.ProofsInv C03.Spec.
Import ListNotations.
Local Open Scope N_scope.

Lemma received_app a b : received (a ++ b) = received a ++ received b.
Proof. unfold received. apply flat_map_app. Qed.

Lemma held_app evs l b : held (received l) b -> held (received (evs ++ l)) b.
Proof. intros (h & r & H). exists h, r. rewrite received_app. apply in_or_app. now right. Qed.

Lemma app_split {A} (evs l post pre : list A) x :
  evs ++ l = post ++ x :: pre ->
  (exists post', l = post' ++ x :: pre /\ post = evs ++ post') \/
  (exists e2, evs = post ++ x :: e2 /\ pre = e2 ++ l).
Proof.
  revert post. induction evs as [|e evs IH]; intros post H; cbn in H.
  - left. exists post. split; auto.
  - destruct post as [|p post]; cbn in H.
    + injection H as -> <-. right. exists evs. split; reflexivity.
    + injection H as <- H. destruct (IH post H) as [(post' & E1 & E2)|(e2 & E1 & E2)].
      * left. exists post'. split; [exact E1|]. cbn. now rewrite E2.
      * right. exists e2. split; [cbn; now rewrite E1|exact E2].
Qed.

Section Valid.
Variable valid : N -> block -> bool.
Variable vals : N -> list Z.
Variable proposer : N -> N -> N.
Variable mkblock : N -> N -> option block.
Variable cfg : config.
Variable me : option N.

Definition good (pre : list event) (v : vote) : Prop :=
  exists b, held (received pre) b /\ b_hash b = bh (v_bid v) /\ valid (v_height v) b = true.

Definition hist (l : list event) : Prop :=
  forall post v pre, l = post ++ EvOut (SignVote v) :: pre ->
    v_type v = Prevote -> bid_is_zero (v_bid v) = false -> good pre v.

Record Inv6 (s : nstate) : Prop := {
  j_pb : forall b, pblock s = Some b -> held (received (log s)) b;
  j_lk : forall b, locked s = Some b -> held (received (log s)) b /\ valid (height s) b = true;
  j_hist : hist (log s) }.

(** the events a transition may add: a non-nil prevote must be for the locked block or for the
    validated proposal block of the state the transition started from *)
Definition ok_evs (s : nstate) (evs : list event) : Prop :=
  forall v, In (EvOut (SignVote v)) evs -> v_type v = Prevote -> bid_is_zero (v_bid v) = false ->
    v_height v = height s /\
    exists b, (locked s = Some b \/ (pblock s = Some b /\ valid (height s) b = true)) /\
              b_hash b = bh (v_bid v).

Lemma Inv6_frame s s' evs :
  Inv6 s -> height s' = height s -> log s' = evs ++ log s -> ok_evs s evs ->
  (forall b, pblock s' = Some b -> pblock s = Some b \/ locked s = Some b \/ held (received (log s)) b) ->
  (forall b, locked s' = Some b -> locked s = Some b \/ (pblock s = Some b /\ valid (height s) b = true)) ->
  Inv6 s'.
Proof.
  intros [J1 J2 J3] Hh Hl Ok Hp Hk. split; rewrite ?Hl, ?Hh.
  - intros b Hb. apply held_app. destruct (Hp b Hb) as [H|[H|H]]; auto. now apply J2.
  - intros b Hb. destruct (Hk b Hb) as [H|(H & V)].
    + destruct (J2 b H) as (A & B). split; [now apply held_app|exact B].
    + split; [apply held_app; auto|exact V].
  - intros post v pre E Ty Nz. apply app_split in E. destruct E as [(post' & E1 & E2)|(e2 & E1 & E2)].
    + eapply J3; eauto.
    + destruct (Ok v) as (Vh & b & Hb & Eh); auto. { rewrite E1. apply in_or_app. right. now left. }
      exists b. rewrite E2, Vh. split; [|split; [exact Eh|]].
      * apply held_app. destruct Hb as [H|(H & _)]; auto. now apply J2.
      * destruct Hb as [H|(_ & V)]; auto. now apply J2.
Qed.

(** the common case: nothing relevant changes and no non-nil prevote is signed *)
Definition quiet_evs (evs : list event) : Prop :=
  forall v, In (EvOut (SignVote v)) evs -> v_type v = Prevote -> bid_is_zero (v_bid v) = true.

Lemma quiet_ok s evs : quiet_evs evs -> ok_evs s evs.
Proof. intros Q v Hin Ty Nz. rewrite (Q v Hin Ty) in Nz. discriminate. Qed.

Lemma Inv6_quiet s s' evs :
  Inv6 s -> height s' = height s -> log s' = evs ++ log s -> quiet_evs evs ->
  (pblock s' = pblock s \/ pblock s' = None \/ pblock s' = locked s) ->
  (locked s' = locked s \/ locked s' = None) -> Inv6 s'.
Proof.
  intros J Hh Hl Q Hp Hk. eapply Inv6_frame; eauto using quiet_ok.
  - intros b Hb. destruct Hp as [E|[E|E]]; rewrite E in Hb; auto. discriminate.
  - intros b Hb. destruct Hk as [E|E]; rewrite E in Hb; auto. discriminate.
Qed.

Lemma quiet_nil : quiet_evs [].
Proof. intros v []. Qed.
Lemma quiet_one o : (forall v, o <> SignVote v) -> quiet_evs [EvOut o].
Proof. intros H v [E|[]]. injection E as ->. exfalso. eapply H; eauto. Qed.
Lemma quiet_in i : quiet_evs [EvIn i].
Proof. intros v [E|[]]. discriminate. Qed.

(** states equal on (height, pblock, locked, log) *)
Definition v_eq (s s0 : nstate) : Prop :=
  height s0 = height s /\ pblock s0 = pblock s /\ locked s0 = locked s /\ log s0 = log s.
Lemma v_eq_refl s : v_eq s s. Proof. repeat split. Qed.
Lemma v_eq_trans a b c : v_eq a b -> v_eq b c -> v_eq a c.
Proof. unfold v_eq. intros (A1 & A2 & A3 & A4) (B1 & B2 & B3 & B4). repeat split; congruence. Qed.
Lemma Inv6_eq s s0 : v_eq s s0 -> Inv6 s -> Inv6 s0.
Proof.
  intros (A1 & A2 & A3 & A4) J. apply (Inv6_quiet s s0 []); auto using quiet_nil.
Qed.

Lemma Inv6_panic s : Inv6 s -> Inv6 (panic s).
Proof. intros J. apply (Inv6_quiet s _ [EvOut Panic]); auto. apply quiet_one. discriminate. Qed.

Lemma Inv6_sched h r st s : Inv6 s -> Inv6 (sched h r st s).
Proof.
  intros J. unfold sched.
  destruct (tk_accepts _ _); apply (Inv6_quiet s _ [EvOut (Sched h r st)]); auto; apply quiet_one; discriminate.
Qed.

Lemma andthen_J (f g : nstate -> nstate) s :
  Inv6 (f s) -> (forall x, Inv6 x -> Inv6 (g x)) -> Inv6 ((f ;; g) s).
Proof. intros I H. unfold andthen. destruct (halted (f s)); auto. Qed.

(** sign_vote on a state that agrees with [s], for a value that is fine in [s], then two setters *)
Lemma sign_frame ty b st' r s s0 :
  Inv6 s -> height s0 = height s -> log s0 = log s ->
  (forall x, pblock s0 = Some x -> pblock s = Some x \/ locked s = Some x) ->
  (forall x, locked s0 = Some x -> locked s = Some x \/ (pblock s = Some x /\ valid (height s) x = true)) ->
  (ty = Prevote -> bid_is_zero b = false ->
     exists x, (locked s = Some x \/ (pblock s = Some x /\ valid (height s) x = true)) /\ b_hash x = bh b) ->
  Inv6 (set_rstep st' (set_round r (sign_vote me ty b s0))).
Proof.
  intros J Hh Hl Hp Hk Hb. unfold sign_vote. destruct me as [i|].
  - eapply Inv6_frame with (s := s)
      (evs := [EvOut (SignVote {| v_type := ty; v_height := height s0; v_round := round s0; v_bid := b; v_idx := i; v_ok := true |})]);
      cbn; auto.
    + now rewrite Hl.
    + intros v [E|[]] Ty Nz. injection E as <-. cbn in *. split; [exact Hh|]. now apply Hb.
    + intros x Hx. destruct (Hp x Hx); auto.
  - eapply Inv6_frame with (s := s) (evs := []); cbn; auto.
    + intros v [].
    + intros x Hx. destruct (Hp x Hx); auto.
Qed.

Lemma sign_same ty b st' r s :
  Inv6 s ->
  (ty = Prevote -> bid_is_zero b = false ->
     exists x, (locked s = Some x \/ (pblock s = Some x /\ valid (height s) x = true)) /\ b_hash x = bh b) ->
  Inv6 (set_rstep st' (set_round r (sign_vote me ty b s))).
Proof. intros J H. apply sign_frame with (s := s); auto. Qed.

Lemma enter_prevote_J h r s : Inv6 s -> Inv6 (enter_prevote valid me h r s).
Proof.
  intros J. unfold enter_prevote. destruct (_ || _); [exact J|]. unfold do_prevote.
  set (s1 := match locked s with Some _ => if stale_lock s then unlock s else s | None => s end).
  assert (C1 : height s1 = height s /\ log s1 = log s /\ pblock s1 = pblock s /\
               (locked s1 = locked s \/ locked s1 = None)).
  { subst s1. destruct (locked s) eqn:El0; [|repeat split; auto].
    destruct (stale_lock s); repeat split; cbn; auto. }
  clearbody s1. destruct C1 as (A1 & A2 & A3 & A4).
  assert (Hp : forall x, pblock s1 = Some x -> pblock s = Some x \/ locked s = Some x).
  { intros x Hx. left. congruence. }
  assert (Hk : forall x, locked s1 = Some x -> locked s = Some x \/ (pblock s = Some x /\ valid (height s) x = true)).
  { intros x Hx. left. destruct A4 as [E|E]; congruence. }
  unfold do_prevote_locked.
  destruct (locked s1) as [lb|] eqn:El.
  { apply (sign_frame _ _ _ _ s s1 J A1 A2 Hp (fun x Hx => Hk x (eq_trans (eq_sym El) Hx))).
    intros _ _. exists lb. split; [|reflexivity]. now apply Hk. }
  pose proof (fun x Hx => Hk x (eq_trans (eq_sym El) Hx)) as Hk'.
  destruct (pblock s1) as [pb|] eqn:Ep.
  2:{ apply (sign_frame _ _ _ _ s s1 J A1 A2 (fun x Hx => Hp x (eq_trans (eq_sym Ep) Hx)) Hk'). intros _ Nz. discriminate. }
  pose proof (fun x Hx => Hp x (eq_trans (eq_sym Ep) Hx)) as Hp'.
  destruct (negb (valid (height s1) pb)) eqn:Ev.
  { apply (sign_frame _ _ _ _ s s1 J A1 A2 Hp' Hk'). intros _ Nz. discriminate. }
  apply negb_false_iff in Ev. rewrite A1 in Ev.
  apply (sign_frame _ _ _ _ s s1 J A1 A2 Hp' Hk'). intros _ _. exists pb.
  split; [right; split; [congruence|exact Ev]|reflexivity].
Qed.

Lemma enter_precommit_J h r s : Inv6 s -> Inv6 (enter_precommit valid me h r s).
Proof.
  intros J. unfold enter_precommit. destruct (_ || _); [exact J|].
  assert (T : forall b s0, height s0 = height s -> log s0 = log s ->
     (forall x, pblock s0 = Some x -> pblock s = Some x \/ locked s = Some x) ->
     (forall x, locked s0 = Some x -> locked s = Some x \/ (pblock s = Some x /\ valid (height s) x = true)) ->
     Inv6 (set_rstep SPrecommit (set_round r (sign_vote me Precommit b s0)))).
  { intros b s0 A B C D. apply sign_frame with (s := s); auto. discriminate. }
  destruct (maj_of _); [|apply T; auto].
  destruct (pol_info s <? r); [now apply Inv6_panic|].
  destruct (bid_is_zero _).
  { destruct (locked s) eqn:El; apply T; auto; cbn; intros; rewrite ?El in *; try discriminate; auto. }
  destruct (hashes_to (locked s) _). { apply T; auto. }
  destruct (hashes_to (pblock s) _).
  { destruct (pblock s) as [pb|] eqn:Ep; [|exact J].
    destruct (negb (valid (height s) pb)) eqn:Ev; [now apply Inv6_panic|]. apply negb_false_iff in Ev.
    apply T; auto; cbn.
    - rewrite Ep. auto.
    - intros x Hx. right. rewrite <- Ep. split; [congruence|]. injection Hx as <-. exact Ev. }
  destruct (negb _); apply T; auto; cbn; intros; try discriminate; auto.
Qed.

Lemma enter_prevote_wait_J h r s : Inv6 s -> Inv6 (enter_prevote_wait vals h r s).
Proof.
  intros J. unfold enter_prevote_wait. destruct (_ || _); [exact J|].
  destruct (negb _); [now apply Inv6_panic|].
  eapply Inv6_eq; [|apply (Inv6_sched h r SPrevoteWait s J)]. repeat split.
Qed.

Lemma enter_precommit_wait_J h r s : Inv6 s -> Inv6 (enter_precommit_wait vals h r s).
Proof.
  intros J. unfold enter_precommit_wait. destruct (_ || _); [exact J|].
  destruct (negb _); [now apply Inv6_panic|].
  eapply Inv6_eq; [|apply (Inv6_sched h r SPrecommitWait s J)]. repeat split.
Qed.

Lemma reset_height_J lc s : Inv6 s -> Inv6 (reset_height lc s).
Proof.
  intros [J1 J2 J3]. split; cbn; auto; discriminate.
Qed.

Lemma update_to_state_J s : Inv6 s -> Inv6 (update_to_state s).
Proof.
  intros J. unfold update_to_state. destruct (0 <? commit_round s).
  - destruct (get_vs _ _ _); [|now apply Inv6_panic]. destruct (has_maj _); [now apply reset_height_J|now apply Inv6_panic].
  - destruct (last_commit s); [now apply reset_height_J|now apply Inv6_panic].
Qed.

Lemma finalize_commit_J h s : Inv6 s -> Inv6 (finalize_commit valid h s).
Proof.
  intros J. unfold finalize_commit.
  destruct (_ || _); [exact J|].
  destruct (maj_of _); [|now apply Inv6_panic].
  destruct (negb _); [now apply Inv6_panic|].
  destruct (negb _); [now apply Inv6_panic|].
  destruct (pblock s) as [pb|]; [|now apply Inv6_panic].
  destruct (negb _); [now apply Inv6_panic|].
  destruct (negb _); [now apply Inv6_panic|].
  apply andthen_J; [apply andthen_J|].
  - apply (Inv6_quiet s _ [EvOut (Commit (height s) pb (commit_round s))]); auto. apply quiet_one. discriminate.
  - apply update_to_state_J.
  - intros x Jx. now apply Inv6_sched.
Qed.

Lemma try_finalize_commit_J h s : Inv6 s -> Inv6 (try_finalize_commit valid h s).
Proof.
  intros J. unfold try_finalize_commit.
  destruct (negb _); [now apply Inv6_panic|].
  destruct (maj_of _); [|exact J].
  destruct (bid_is_zero _); [exact J|]. destruct (negb _); [exact J|]. now apply finalize_commit_J.
Qed.

Lemma enter_commit_J h cr s : Inv6 s -> Inv6 (enter_commit valid h cr s).
Proof.
  intros J. unfold enter_commit. destruct (_ || _); [exact J|].
  destruct (maj_of _) as [b|]; [|now apply Inv6_panic].
  apply try_finalize_commit_J.
  apply (Inv6_quiet s _ []); auto using quiet_nil.
  - destruct (hashes_to (locked s) _); destruct (_ && _); cbn; auto.
  - destruct (hashes_to (locked s) _); destruct (_ && _); cbn; auto.
  - destruct (hashes_to (locked s) _); destruct (_ && _); cbn; auto.
  - destruct (hashes_to (locked s) _); destruct (_ && _); cbn; auto.
Qed.

Lemma decide_proposal_J m h r s : Inv6 s -> Inv6 (decide_proposal mkblock cfg m h r s).
Proof.
  intros J. destruct (decide_proposal_shape mkblock cfg m h r s) as [->|(p & _ & _ & ->)]; [exact J|].
  apply (Inv6_quiet s _ [EvOut (SignProposal p)]); auto. apply quiet_one. discriminate.
Qed.

Lemma enter_propose_J h r s : Inv6 s -> Inv6 (enter_propose valid proposer mkblock cfg me h r s).
Proof.
  intros J. unfold enter_propose. destruct (_ || _); [exact J|].
  set (s1 := sched h r SPropose s). assert (J1 : Inv6 s1) by now apply Inv6_sched.
  set (s2 := match me with Some i => _ | None => s1 end).
  assert (J2 : Inv6 s2).
  { subst s2. destruct me; [|exact J1]. destruct (_ =? _); [now apply decide_proposal_J|exact J1]. }
  assert (J3 : Inv6 (set_rstep SPropose (set_round r s2))) by (eapply Inv6_eq; [|exact J2]; repeat split).
  destruct (is_proposal_complete _); [now apply enter_prevote_J|exact J3].
Qed.

Lemma add_round_v r s : v_eq s (add_round r s).
Proof. unfold add_round. destruct (get_rv _ _); repeat split. Qed.
Lemma add_rounds_from_v n : forall lo s, v_eq s (add_rounds_from lo n s).
Proof.
  induction n as [|n IH]; intros lo s; cbn; [apply v_eq_refl|].
  eapply v_eq_trans; [apply (add_round_v lo)|apply IH].
Qed.

Lemma hvs_set_round_J nr s : Inv6 s -> Inv6 (hvs_set_round nr s).
Proof.
  intros J. unfold hvs_set_round. destruct (_ && _); [now apply Inv6_panic|].
  eapply Inv6_eq; [|exact J].
  destruct (add_rounds_from_v (N.to_nat (nr + 1 - (hvs_round s - 1))) (hvs_round s - 1) s) as (A1 & A2 & A3 & A4).
  repeat split; cbn; assumption.
Qed.

Lemma enter_new_round_J h r s : Inv6 s -> Inv6 (enter_new_round valid proposer mkblock cfg me h r s).
Proof.
  intros J. unfold enter_new_round. destruct (_ || _); [exact J|].
  match goal with |- Inv6 ((_ ;; ?g) ?s3) => set (Gf := g); set (S3 := s3) end.
  assert (J3 : Inv6 S3).
  { subst S3. apply (Inv6_quiet s _ []); auto using quiet_nil.
    - destruct (round s <? r); destruct (r =? 1); reflexivity.
    - destruct (round s <? r); destruct (r =? 1); reflexivity.
    - destruct (round s <? r); destruct (r =? 1); cbn; auto.
    - destruct (round s <? r); destruct (r =? 1); cbn; auto. }
  apply andthen_J; [now apply hvs_set_round_J|]. intros x Jx. subst Gf. cbn beta.
  assert (J5 : Inv6 (set_tt_precommit false x)) by (eapply Inv6_eq; [|exact Jx]; repeat split).
  destruct (_ && _).
  - destruct (empty_interval_pos cfg); [now apply Inv6_sched|exact J5].
  - now apply enter_propose_J.
Qed.

Lemma recv_proposal_v p s : v_eq s (recv_proposal proposer p s).
Proof.
  unfold recv_proposal. destruct (prop s); [apply v_eq_refl|].
  destruct (_ || _); [apply v_eq_refl|]. destruct (_ && _); [apply v_eq_refl|].
  destruct (p_signer p); [|apply v_eq_refl]. destruct (negb _); [apply v_eq_refl|].
  cbn. destruct (pparts s); repeat split.
Qed.

Lemma add_block_J h r b s :
  Inv6 s -> In (InBlock h r b) (received (log s)) -> Inv6 (add_block valid me h r b s).
Proof.
  intros J Hin. unfold add_block.
  destruct (negb (height s =? h)); [exact J|].
  destruct (pparts s) as [ps|]; [|exact J].
  destruct (negb (ps_hdr ps =? b_parts b)); [exact J|].
  destruct (ps_complete s ps); [exact J|].
  set (s1 := set_pblock _ _).
  set (s2 := match maj_of (get_vs s1 (round s1) Prevote) with Some x => _ | None => s1 end).
  assert (V2 : v_eq s1 s2).
  { subst s2. destruct (maj_of _); [|apply v_eq_refl]. destruct (_ && _); repeat split. }
  assert (J1 : Inv6 s1).
  { subst s1. eapply Inv6_frame with (s := s) (evs := []); cbn; auto.
    - intros v [].
    - intros x Hx. injection Hx as <-. right. right. exists h, r. exact Hin. }
  assert (J2 : Inv6 s2) by (eapply Inv6_eq; eauto). clearbody s2.
  destruct (_ && _).
  - apply andthen_J; [now apply enter_prevote_J|]. intros x Jx.
    destruct (match maj_of _ with Some _ => true | None => false end); [now apply enter_precommit_J|exact Jx].
  - destruct (step_eqb _ _); [now apply try_finalize_commit_J|exact J2].
Qed.

Lemma hvs_add_v peer v s : v_eq s (fst (hvs_add vals peer v s)).
Proof.
  unfold hvs_add.
  assert (Hgo : forall s', v_eq s' (fst (
    match get_rv (rounds s') (v_round v) with
    | None => (s', false)
    | Some rv =>
      if negb (v_ok v) then (s', false)
      else let '(vs', added) := vs_add (pw vals s') (pick (v_type v) rv) (v_idx v) (v_bid v) in
           if added then (set_rounds (put_rv (rounds s') (v_round v) (upd (v_type v) rv vs')) s', true)
           else (s', false)
    end))).
  { intros s'. destruct (get_rv _ _); [|apply v_eq_refl]. destruct (negb _); [apply v_eq_refl|].
    destruct (vs_add _ _ _ _) as [vs' [|]]; repeat split. }
  destruct (get_rv (rounds s) (v_round v)) eqn:E.
  - specialize (Hgo s). rewrite E in Hgo. exact Hgo.
  - destruct (_ <? _)%nat; [|apply v_eq_refl].
    match goal with |- v_eq s (fst (match get_rv (rounds ?x) _ with _ => _ end)) =>
      eapply v_eq_trans; [|apply (Hgo x)] end.
    destruct (add_round_v (v_round v) s) as (A1 & A2 & A3 & A4). repeat split; cbn; assumption.
Qed.

Lemma add_vote_J peer v s : Inv6 s -> Inv6 (add_vote valid vals proposer mkblock cfg me peer v s).
Proof.
  intros J. unfold add_vote.
  destruct (_ && vtype_eqb _ _).
  { destruct (negb _); [exact J|]. destruct (last_commit s) as [[[lh lr] vs]|]; [|exact J].
    destruct (_ || _); [exact J|]. destruct (vs_add _ _ _ _) as [vs' added].
    destruct (negb added); [exact J|].
    assert (J1 : Inv6 (set_last_commit (Some (lh, lr, vs')) s)) by (eapply Inv6_eq; [|exact J]; repeat split).
    destruct (_ && _); [|exact J1]. now apply enter_new_round_J. }
  destruct (negb (v_height v =? height s)); [exact J|].
  pose proof (hvs_add_v peer v s) as V1.
  destruct (hvs_add vals peer v s) as [s1 added]. cbn in V1.
  assert (J1 : Inv6 s1) by (eapply Inv6_eq; eauto).
  destruct (negb added); [exact J1|].
  destruct (step_eqb (rstep s1) SCommit); [exact J1|].
  destruct (v_type v).
  - set (s2 := match maj_of (get_vs s1 (v_round v) Prevote) with Some b => _ | None => s1 end).
    assert (J2 : Inv6 s2).
    { subst s2. destruct (maj_of _) as [b|]; [|exact J1].
      set (sa := match locked s1 with Some _ => _ | None => s1 end).
      assert (Ja : Inv6 sa).
      { subst sa. destruct (locked s1) eqn:El; [|exact J1]. destruct (_ && _); [|exact J1].
        apply (Inv6_quiet s1 _ []); auto using quiet_nil. }
      clearbody sa.
      destruct (negb (bh b =? 0) && (valid_round sa <? v_round v) && (v_round v =? round sa)); [|exact Ja].
      apply (Inv6_quiet sa _ []); auto using quiet_nil.
      - destruct (hashes_to (pblock sa) _); destruct (negb _); reflexivity.
      - destruct (hashes_to (pblock sa) _); destruct (negb _); reflexivity.
      - destruct (hashes_to (pblock sa) _); destruct (negb _); cbn; auto.
      - destruct (hashes_to (pblock sa) _); destruct (negb _); cbn; auto. }
    clearbody s2.
    destruct ((round s2 <? v_round v) && _); [now apply enter_new_round_J|].
    destruct ((round s2 =? v_round v) && _).
    { destruct (maj_of _).
      - destruct (_ || _); [now apply enter_precommit_J|].
        destruct (any_of _ _); [now apply enter_prevote_wait_J|exact J2].
      - destruct (any_of _ _); [now apply enter_prevote_wait_J|exact J2]. }
    destruct (prop s2) as [p|]; [|exact J2]. destruct ((1 <=? p_pol p) && _); [|exact J2].
    destruct (is_proposal_complete s2); [now apply enter_prevote_J|exact J2].
  - destruct (maj_of _) as [b|].
    + apply andthen_J; [apply andthen_J; [now apply enter_new_round_J|intros; now apply enter_precommit_J]|].
      intros x Jx. destruct (negb _).
      * apply andthen_J; [now apply enter_commit_J|]. intros y Jy.
        destruct (skip_timeout_commit cfg && _); [now apply enter_new_round_J|exact Jy].
      * now apply enter_precommit_wait_J.
    + destruct (_ && _); [|exact J1].
      apply andthen_J; [now apply enter_new_round_J|]. intros x Jx. now apply enter_precommit_wait_J.
Qed.

Lemma handle_timeout_J h r st s : Inv6 s -> Inv6 (handle_timeout valid proposer mkblock cfg me h r st s).
Proof.
  intros J. unfold handle_timeout. destruct (_ || _); [exact J|].
  destruct st; try (now apply Inv6_panic).
  - now apply enter_new_round_J.
  - now apply enter_propose_J.
  - now apply enter_prevote_J.
  - now apply enter_precommit_J.
  - apply andthen_J; [now apply enter_precommit_J|]. intros x Jx. now apply enter_new_round_J.
Qed.

Lemma step_state_J s i : Inv6 s -> Inv6 (step_state valid vals proposer mkblock cfg me s i).
Proof.
  intros J. unfold step_state. destruct (halted s); [exact J|].
  set (s0 := set_log (EvIn i :: log s) s).
  assert (J0 : Inv6 s0).
  { subst s0. apply (Inv6_quiet s _ [EvIn i]); auto. apply quiet_in. }
  destruct i; cbn [handle].
  - destruct (prop_wf p); [|exact J0]. eapply Inv6_eq; [apply recv_proposal_v|exact J0].
  - apply add_block_J; auto. cbn. now left.
  - destruct (negb _); [exact J0|]. destruct (pparts s0); [now apply Inv6_panic|exact J0].
  - eapply Inv6_eq; [|exact J0]. unfold add_bad_block.
    destruct (negb _); [apply v_eq_refl|]. destruct (pparts s0) as [ps|]; [|apply v_eq_refl].
    destruct (negb _); [apply v_eq_refl|]. destruct (ps_complete s0 ps); [apply v_eq_refl|]. repeat split.
  - destruct (bid_wf _); [now apply add_vote_J|exact J0].
  - destruct (existsb _ _); [|exact J0]. apply handle_timeout_J.
    eapply Inv6_eq; [|exact J0]. repeat split.
Qed.

Lemma init_J : Inv6 (init cfg).
Proof.
  unfold init. apply Inv6_sched. split; cbn; try discriminate.
  intros post v pre E. destruct post; discriminate.
Qed.

Lemma run_J ins : Inv6 (run valid vals proposer mkblock cfg me ins).
Proof.
  unfold run. generalize init_J. generalize (init cfg).
  induction ins as [|i ins IH]; intros s J; cbn; [exact J|]. apply IH. now apply step_state_J.
Qed.

Theorem votes_only_valid : C03_votes_only_valid_statement valid vals proposer mkblock cfg me.
Proof.
  unfold C03_votes_only_valid_statement, final_log. intros ins post pre v E Ty Nz.
  exact (j_hist _ (run_J ins) post v pre E Ty Nz).
Qed.

End Valid.
