(** C03 — the node votes for and commits only valid extensions of its own chain, spelled out.
    [Node.v] is parametric in [valid h b]; here it is instantiated with the transcription of
    validateBlock (Validate.v) applied to the node's chain state at height h ([st h]) and to the
    decoded content of the block ([dec b]).  The per-validator theorems of ProofsValid/ProofsLock
    then say: every non-nil prevote, every non-nil precommit and every commit is for a block the
    node had been given in full and that has the right height and parent id, the application and
    validator-set hashes of the node's own state, a last commit that verifies against the previous
    validator set and the prescribed (weighted-median) time — [valid_extension], which
    ProofsValidate.v shows to be exactly what validateBlock accepts. *)
From Coq Require Import List ZArith NArith Bool Lia.
From Kardia Require Import C03.Node C03.Spec C03.ProofsValid C03.ProofsLock C03.Proofs.
From Kardia Require C02.Model C03.Validate C03.ProofsValidate.
Import ListNotations.
Local Open Scope N_scope.

Section Extension.
Variable st : N -> Validate.chain.           (* the node's LatestBlockState while it is at height h *)
Variable dec : block -> Validate.vblock.     (* the block a complete part set decodes to (C13) *)
Variable vals : N -> list Z.
Variable proposer : N -> N -> N.
Variable mkblock : N -> N -> option block.
Variable cfg : config.
Variable me : option N.

Definition valid_by_code (h : N) (b : block) : bool :=
  Validate.verr_ok (Validate.validate_block (st h) (dec b)).

Lemma verr_ok_true e : Validate.verr_ok e = true -> e = Validate.VOk.
Proof. destruct e; cbn; intros H; try discriminate; reflexivity. Qed.

Lemma valid_by_code_sound h b :
  valid_by_code h b = true -> ProofsValidate.valid_extension (st h) (dec b).
Proof. intros H. apply ProofsValidate.validate_block_sound. apply verr_ok_true. exact H. Qed.

Theorem votes_and_commits_extend_own_chain :
  (forall h, Forall (fun p => (0 <= p)%Z) (vals h)) ->
  forall ins : list input,
    let l := log (run valid_by_code vals proposer mkblock cfg me ins) in
    (forall post pre v,
        l = post ++ EvOut (SignVote v) :: pre -> bid_is_zero (v_bid v) = false ->
        exists b, held (received pre) b /\ b_hash b = bh (v_bid v)
                  /\ ProofsValidate.valid_extension (st (v_height v)) (dec b))
    /\ (forall post pre h b r,
           l = post ++ EvOut (Commit h b r) :: pre ->
           ProofsValidate.valid_extension (st h) (dec b)).
Proof.
  intros Hnn ins l. split.
  - intros post pre v Hl Hnz.
    destruct (v_type v) eqn:Ety.
    + destruct (votes_only_valid valid_by_code vals proposer mkblock cfg me ins post pre v Hl Ety Hnz) as [b [Hh [Hb Hv]]].
      exists b. split; [exact Hh|]. split; [exact Hb|]. apply valid_by_code_sound. exact Hv.
    + destruct (precommit_needs_polka valid_by_code vals proposer mkblock cfg me Hnn ins post pre v Hl Ety Hnz) as [_ [b [Hh [Hb Hv]]]].
      exists b. split; [exact Hh|]. split; [exact Hb|]. apply valid_by_code_sound. exact Hv.
  - intros post pre h b r Hl.
    destruct (commit_needs_quorum valid_by_code vals proposer mkblock cfg me Hnn ins post pre h b r Hl) as [Hv _].
    apply valid_by_code_sound. exact Hv.
Qed.

End Extension.
