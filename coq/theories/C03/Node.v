(** C03 / C01 / C04 / C05 / C19 — [Node.v]: executable model of one validator,
    transcribed branch by branch from consensus/state.go (handleMsg, handleTimeout,
    setProposal, addProposalBlockPart, addVote, enterNewRound, enterPropose, decideProposal,
    enterPrevote/doPrevote, enterPrevoteWait, enterPrecommit, enterPrecommitWait, enterCommit,
    tryFinalizeCommit, finalizeCommit, updateToState, signAddVote), consensus/types/
    height_vote_set.go (round bookkeeping, catch-up rounds, POLInfo) and the monotone filter of
    consensus/ticker.go.  No proofs in this file.

    Conventions (rounds start at 1 in this code base; LockedRound/ValidRound/POLRound 0 = none):
    - a block id is the pair (block hash, part-set header); [0] is the zero value of either
      component.  The code compares only the hash in [Block.HashesTo] and the whole id in
      [BlockID.Equals]/[Key]; both are kept apart here.
    - a [block] is what a complete part set decodes to: its hash and the header of its own
      part set (C13: the header determines the bytes).  Block parts are abstracted to
      "all parts of b's part set were delivered" ([InBlock]).
    - [PartSet] objects are pointers in the code and are aliased between ProposalBlockParts,
      LockedBlockParts and ValidBlockParts; an object is (identity, header) and completeness
      is a property of the identity ([ps_done]).
    - vote sets are spec-level (C02): the first accepted vote of each validator counts, [vs_maj]
      is the sticky first +2/3 value.  No SetPeerMaj23 (the reactor's business).
    - signatures are ideal: [v_ok] says "index and address agree and the signature verifies for
      that validator over exactly this content"; [p_signer] is the validator whose key signed
      exactly this proposal, if any.
    - validity of a block against the node's own chain state at height h ([validateBlock]) is the
      section variable [valid h]; validator powers per height, the proposer per (height, round)
      (C12) and the block [createProposalBlock] would build are section variables too.
    - the ticker is part of the node: a timeout can be delivered only if it was accepted by the
      ticker's monotone filter and has not been delivered yet.
    - a Go panic ("CONSENSUS FAILURE", PanicSanity) halts the node: output [Panic], [halted].
    - [log] is the ghost history: every input and every output, newest first. *)
From Coq Require Import List ZArith NArith Bool Lia.
Import ListNotations.
Local Open Scope N_scope.

(* ------------------------------------------------------------------ *)
(** * Data *)

Inductive step_t := SNewHeight | SNewRound | SPropose | SPrevote | SPrevoteWait
                  | SPrecommit | SPrecommitWait | SCommit.

Definition step_num (s : step_t) : N :=
  match s with
  | SNewHeight => 1 | SNewRound => 2 | SPropose => 3 | SPrevote => 4 | SPrevoteWait => 5
  | SPrecommit => 6 | SPrecommitWait => 7 | SCommit => 8
  end.
Definition step_le (a b : step_t) : bool := step_num a <=? step_num b.
Definition step_lt (a b : step_t) : bool := step_num a <? step_num b.
Definition step_eqb (a b : step_t) : bool := step_num a =? step_num b.

Inductive vtype := Prevote | Precommit.
Definition vtype_eqb (a b : vtype) : bool :=
  match a, b with Prevote, Prevote => true | Precommit, Precommit => true | _, _ => false end.

Record bid := { bh : N; bp : N }.
Definition bid_nil : bid := {| bh := 0; bp := 0 |}.
Definition bid_eqb (a b : bid) : bool := (bh a =? bh b) && (bp a =? bp b).
(** BlockID.IsZero / IsComplete *)
Definition bid_is_zero (b : bid) : bool := (bh b =? 0) && (bp b =? 0).
Definition bid_is_complete (b : bid) : bool := negb (bh b =? 0) && negb (bp b =? 0).
(** Vote.ValidateBasic (applied by the reactor before the message is queued) *)
Definition bid_wf (b : bid) : bool := bid_is_zero b || bid_is_complete b.

Record block := { b_hash : N; b_parts : N }.
Definition bid_of (b : block) : bid := {| bh := b_hash b; bp := b_parts b |}.

Record vote := { v_type : vtype; v_height : N; v_round : N; v_bid : bid; v_idx : N; v_ok : bool }.
Record proposal := { p_height : N; p_round : N; p_pol : N; p_bid : bid; p_signer : option N }.

Definition tinfo := (N * N * step_t)%type.

Inductive input :=
| InProposal (p : proposal)
| InBlock (h r : N) (b : block)     (* every part of b's part set, as BlockPartMessage{h,r,part} *)
| InNilPart (h r : N)               (* BlockPartMessage with a nil part (own incomplete ValidBlockParts) *)
| InBadBlock (h r : N) (hdr : N)    (* every part of a part set whose bytes do not decode to a block that
                                       passes Block.ValidateBasic (BlockFromProto fails) *)
| InVote (peer : N) (v : vote)      (* peer 0 = the internal queue (peerID "") *)
| InTimeout (h r : N) (st : step_t).

Inductive output :=
| SignVote (v : vote)
| SignProposal (p : proposal)
| Commit (h : N) (b : block) (r : N)
| Sched (h r : N) (st : step_t)
| Panic.

Inductive event := EvIn (i : input) | EvOut (o : output).

Record partset := { ps_id : N; ps_hdr : N }.

Record voteset := { vs_votes : list (N * bid); vs_sum : Z; vs_maj : option bid }.
Definition vs_empty : voteset := {| vs_votes := []; vs_sum := 0%Z; vs_maj := None |}.
Definition roundvotes := (voteset * voteset)%type.   (* prevotes, precommits *)

Record config := { skip_timeout_commit : bool; create_empty_blocks : bool;
                   empty_interval_pos : bool; initial_height : N }.
(** ConsensusConfig.WaitForTxs *)
Definition wait_for_txs (c : config) : bool := negb (create_empty_blocks c) || empty_interval_pos c.

(* ------------------------------------------------------------------ *)
(** * Spec-level vote set (types/vote_set.go seen through C02) *)

Definition total (pw : list Z) : Z := fold_right Z.add 0%Z pw.
Definition power (pw : list Z) (i : N) : Z := nth (N.to_nat i) pw 0%Z.
Definition power_for (pw : list Z) (votes : list (N * bid)) (b : bid) : Z :=
  fold_right (fun e acc => if bid_eqb (snd e) b then (power pw (fst e) + acc)%Z else acc) 0%Z votes.
Definition voted (votes : list (N * bid)) (i : N) : bool := existsb (fun e => fst e =? i) votes.
(** quorum := TotalVotingPower*2/3 + 1 <= sum ; any := sum > TotalVotingPower*2/3 *)
Definition is_quorum (pw : list Z) (x : Z) : bool := (total pw * 2 / 3 + 1 <=? x)%Z.
Definition has_any (pw : list Z) (vs : voteset) : bool := (total pw * 2 / 3 <? vs_sum vs)%Z.
Definition has_all (pw : list Z) (vs : voteset) : bool := (vs_sum vs =? total pw)%Z.
Definition has_maj (vs : voteset) : bool := match vs_maj vs with Some _ => true | None => false end.

Definition vs_add (pw : list Z) (vs : voteset) (i : N) (b : bid) : voteset * bool :=
  if voted (vs_votes vs) i || negb (N.to_nat i <? length pw)%nat then (vs, false)
  else
    let votes' := (i, b) :: vs_votes vs in
    let maj' := match vs_maj vs with
                | Some m => Some m
                | None => if is_quorum pw (power_for pw votes' b) then Some b else None
                end in
    ({| vs_votes := votes'; vs_sum := (vs_sum vs + power pw i)%Z; vs_maj := maj' |}, true).

(* ------------------------------------------------------------------ *)
(** * Node state *)

Record nstate := {
  height : N;
  round : N;
  rstep : step_t;
  prop : option proposal;
  pblock : option block;
  pparts : option partset;
  locked_round : N;
  locked : option block;
  locked_parts : option partset;
  valid_round : N;
  valid_blk : option block;
  valid_parts : option partset;
  commit_round : N;
  tt_precommit : bool;
  rounds : list (N * roundvotes);
  hvs_round : N;
  catchup : list (N * list N);
  last_commit : option (N * N * voteset);
  prop_round : N;
  tk_last : tinfo;
  timeouts : list tinfo;
  ps_next : N;
  ps_done : list N;
  halted : bool;
  log : list event }.

Definition set_height (x : N) (s : nstate) : nstate :=
  {| height := x; round := round s; rstep := rstep s; prop := prop s; pblock := pblock s; pparts := pparts s; locked_round := locked_round s; locked := locked s; locked_parts := locked_parts s; valid_round := valid_round s; valid_blk := valid_blk s; valid_parts := valid_parts s; commit_round := commit_round s; tt_precommit := tt_precommit s; rounds := rounds s; hvs_round := hvs_round s; catchup := catchup s; last_commit := last_commit s; prop_round := prop_round s; tk_last := tk_last s; timeouts := timeouts s; ps_next := ps_next s; ps_done := ps_done s; halted := halted s; log := log s |}.
Definition set_round (x : N) (s : nstate) : nstate :=
  {| height := height s; round := x; rstep := rstep s; prop := prop s; pblock := pblock s; pparts := pparts s; locked_round := locked_round s; locked := locked s; locked_parts := locked_parts s; valid_round := valid_round s; valid_blk := valid_blk s; valid_parts := valid_parts s; commit_round := commit_round s; tt_precommit := tt_precommit s; rounds := rounds s; hvs_round := hvs_round s; catchup := catchup s; last_commit := last_commit s; prop_round := prop_round s; tk_last := tk_last s; timeouts := timeouts s; ps_next := ps_next s; ps_done := ps_done s; halted := halted s; log := log s |}.
Definition set_rstep (x : step_t) (s : nstate) : nstate :=
  {| height := height s; round := round s; rstep := x; prop := prop s; pblock := pblock s; pparts := pparts s; locked_round := locked_round s; locked := locked s; locked_parts := locked_parts s; valid_round := valid_round s; valid_blk := valid_blk s; valid_parts := valid_parts s; commit_round := commit_round s; tt_precommit := tt_precommit s; rounds := rounds s; hvs_round := hvs_round s; catchup := catchup s; last_commit := last_commit s; prop_round := prop_round s; tk_last := tk_last s; timeouts := timeouts s; ps_next := ps_next s; ps_done := ps_done s; halted := halted s; log := log s |}.
Definition set_prop (x : option proposal) (s : nstate) : nstate :=
  {| height := height s; round := round s; rstep := rstep s; prop := x; pblock := pblock s; pparts := pparts s; locked_round := locked_round s; locked := locked s; locked_parts := locked_parts s; valid_round := valid_round s; valid_blk := valid_blk s; valid_parts := valid_parts s; commit_round := commit_round s; tt_precommit := tt_precommit s; rounds := rounds s; hvs_round := hvs_round s; catchup := catchup s; last_commit := last_commit s; prop_round := prop_round s; tk_last := tk_last s; timeouts := timeouts s; ps_next := ps_next s; ps_done := ps_done s; halted := halted s; log := log s |}.
Definition set_pblock (x : option block) (s : nstate) : nstate :=
  {| height := height s; round := round s; rstep := rstep s; prop := prop s; pblock := x; pparts := pparts s; locked_round := locked_round s; locked := locked s; locked_parts := locked_parts s; valid_round := valid_round s; valid_blk := valid_blk s; valid_parts := valid_parts s; commit_round := commit_round s; tt_precommit := tt_precommit s; rounds := rounds s; hvs_round := hvs_round s; catchup := catchup s; last_commit := last_commit s; prop_round := prop_round s; tk_last := tk_last s; timeouts := timeouts s; ps_next := ps_next s; ps_done := ps_done s; halted := halted s; log := log s |}.
Definition set_pparts (x : option partset) (s : nstate) : nstate :=
  {| height := height s; round := round s; rstep := rstep s; prop := prop s; pblock := pblock s; pparts := x; locked_round := locked_round s; locked := locked s; locked_parts := locked_parts s; valid_round := valid_round s; valid_blk := valid_blk s; valid_parts := valid_parts s; commit_round := commit_round s; tt_precommit := tt_precommit s; rounds := rounds s; hvs_round := hvs_round s; catchup := catchup s; last_commit := last_commit s; prop_round := prop_round s; tk_last := tk_last s; timeouts := timeouts s; ps_next := ps_next s; ps_done := ps_done s; halted := halted s; log := log s |}.
Definition set_locked_round (x : N) (s : nstate) : nstate :=
  {| height := height s; round := round s; rstep := rstep s; prop := prop s; pblock := pblock s; pparts := pparts s; locked_round := x; locked := locked s; locked_parts := locked_parts s; valid_round := valid_round s; valid_blk := valid_blk s; valid_parts := valid_parts s; commit_round := commit_round s; tt_precommit := tt_precommit s; rounds := rounds s; hvs_round := hvs_round s; catchup := catchup s; last_commit := last_commit s; prop_round := prop_round s; tk_last := tk_last s; timeouts := timeouts s; ps_next := ps_next s; ps_done := ps_done s; halted := halted s; log := log s |}.
Definition set_locked (x : option block) (s : nstate) : nstate :=
  {| height := height s; round := round s; rstep := rstep s; prop := prop s; pblock := pblock s; pparts := pparts s; locked_round := locked_round s; locked := x; locked_parts := locked_parts s; valid_round := valid_round s; valid_blk := valid_blk s; valid_parts := valid_parts s; commit_round := commit_round s; tt_precommit := tt_precommit s; rounds := rounds s; hvs_round := hvs_round s; catchup := catchup s; last_commit := last_commit s; prop_round := prop_round s; tk_last := tk_last s; timeouts := timeouts s; ps_next := ps_next s; ps_done := ps_done s; halted := halted s; log := log s |}.
Definition set_locked_parts (x : option partset) (s : nstate) : nstate :=
  {| height := height s; round := round s; rstep := rstep s; prop := prop s; pblock := pblock s; pparts := pparts s; locked_round := locked_round s; locked := locked s; locked_parts := x; valid_round := valid_round s; valid_blk := valid_blk s; valid_parts := valid_parts s; commit_round := commit_round s; tt_precommit := tt_precommit s; rounds := rounds s; hvs_round := hvs_round s; catchup := catchup s; last_commit := last_commit s; prop_round := prop_round s; tk_last := tk_last s; timeouts := timeouts s; ps_next := ps_next s; ps_done := ps_done s; halted := halted s; log := log s |}.
Definition set_valid_round (x : N) (s : nstate) : nstate :=
  {| height := height s; round := round s; rstep := rstep s; prop := prop s; pblock := pblock s; pparts := pparts s; locked_round := locked_round s; locked := locked s; locked_parts := locked_parts s; valid_round := x; valid_blk := valid_blk s; valid_parts := valid_parts s; commit_round := commit_round s; tt_precommit := tt_precommit s; rounds := rounds s; hvs_round := hvs_round s; catchup := catchup s; last_commit := last_commit s; prop_round := prop_round s; tk_last := tk_last s; timeouts := timeouts s; ps_next := ps_next s; ps_done := ps_done s; halted := halted s; log := log s |}.
Definition set_valid_blk (x : option block) (s : nstate) : nstate :=
  {| height := height s; round := round s; rstep := rstep s; prop := prop s; pblock := pblock s; pparts := pparts s; locked_round := locked_round s; locked := locked s; locked_parts := locked_parts s; valid_round := valid_round s; valid_blk := x; valid_parts := valid_parts s; commit_round := commit_round s; tt_precommit := tt_precommit s; rounds := rounds s; hvs_round := hvs_round s; catchup := catchup s; last_commit := last_commit s; prop_round := prop_round s; tk_last := tk_last s; timeouts := timeouts s; ps_next := ps_next s; ps_done := ps_done s; halted := halted s; log := log s |}.
Definition set_valid_parts (x : option partset) (s : nstate) : nstate :=
  {| height := height s; round := round s; rstep := rstep s; prop := prop s; pblock := pblock s; pparts := pparts s; locked_round := locked_round s; locked := locked s; locked_parts := locked_parts s; valid_round := valid_round s; valid_blk := valid_blk s; valid_parts := x; commit_round := commit_round s; tt_precommit := tt_precommit s; rounds := rounds s; hvs_round := hvs_round s; catchup := catchup s; last_commit := last_commit s; prop_round := prop_round s; tk_last := tk_last s; timeouts := timeouts s; ps_next := ps_next s; ps_done := ps_done s; halted := halted s; log := log s |}.
Definition set_commit_round (x : N) (s : nstate) : nstate :=
  {| height := height s; round := round s; rstep := rstep s; prop := prop s; pblock := pblock s; pparts := pparts s; locked_round := locked_round s; locked := locked s; locked_parts := locked_parts s; valid_round := valid_round s; valid_blk := valid_blk s; valid_parts := valid_parts s; commit_round := x; tt_precommit := tt_precommit s; rounds := rounds s; hvs_round := hvs_round s; catchup := catchup s; last_commit := last_commit s; prop_round := prop_round s; tk_last := tk_last s; timeouts := timeouts s; ps_next := ps_next s; ps_done := ps_done s; halted := halted s; log := log s |}.
Definition set_tt_precommit (x : bool) (s : nstate) : nstate :=
  {| height := height s; round := round s; rstep := rstep s; prop := prop s; pblock := pblock s; pparts := pparts s; locked_round := locked_round s; locked := locked s; locked_parts := locked_parts s; valid_round := valid_round s; valid_blk := valid_blk s; valid_parts := valid_parts s; commit_round := commit_round s; tt_precommit := x; rounds := rounds s; hvs_round := hvs_round s; catchup := catchup s; last_commit := last_commit s; prop_round := prop_round s; tk_last := tk_last s; timeouts := timeouts s; ps_next := ps_next s; ps_done := ps_done s; halted := halted s; log := log s |}.
Definition set_rounds (x : list (N * roundvotes)) (s : nstate) : nstate :=
  {| height := height s; round := round s; rstep := rstep s; prop := prop s; pblock := pblock s; pparts := pparts s; locked_round := locked_round s; locked := locked s; locked_parts := locked_parts s; valid_round := valid_round s; valid_blk := valid_blk s; valid_parts := valid_parts s; commit_round := commit_round s; tt_precommit := tt_precommit s; rounds := x; hvs_round := hvs_round s; catchup := catchup s; last_commit := last_commit s; prop_round := prop_round s; tk_last := tk_last s; timeouts := timeouts s; ps_next := ps_next s; ps_done := ps_done s; halted := halted s; log := log s |}.
Definition set_hvs_round (x : N) (s : nstate) : nstate :=
  {| height := height s; round := round s; rstep := rstep s; prop := prop s; pblock := pblock s; pparts := pparts s; locked_round := locked_round s; locked := locked s; locked_parts := locked_parts s; valid_round := valid_round s; valid_blk := valid_blk s; valid_parts := valid_parts s; commit_round := commit_round s; tt_precommit := tt_precommit s; rounds := rounds s; hvs_round := x; catchup := catchup s; last_commit := last_commit s; prop_round := prop_round s; tk_last := tk_last s; timeouts := timeouts s; ps_next := ps_next s; ps_done := ps_done s; halted := halted s; log := log s |}.
Definition set_catchup (x : list (N * list N)) (s : nstate) : nstate :=
  {| height := height s; round := round s; rstep := rstep s; prop := prop s; pblock := pblock s; pparts := pparts s; locked_round := locked_round s; locked := locked s; locked_parts := locked_parts s; valid_round := valid_round s; valid_blk := valid_blk s; valid_parts := valid_parts s; commit_round := commit_round s; tt_precommit := tt_precommit s; rounds := rounds s; hvs_round := hvs_round s; catchup := x; last_commit := last_commit s; prop_round := prop_round s; tk_last := tk_last s; timeouts := timeouts s; ps_next := ps_next s; ps_done := ps_done s; halted := halted s; log := log s |}.
Definition set_last_commit (x : option (N * N * voteset)) (s : nstate) : nstate :=
  {| height := height s; round := round s; rstep := rstep s; prop := prop s; pblock := pblock s; pparts := pparts s; locked_round := locked_round s; locked := locked s; locked_parts := locked_parts s; valid_round := valid_round s; valid_blk := valid_blk s; valid_parts := valid_parts s; commit_round := commit_round s; tt_precommit := tt_precommit s; rounds := rounds s; hvs_round := hvs_round s; catchup := catchup s; last_commit := x; prop_round := prop_round s; tk_last := tk_last s; timeouts := timeouts s; ps_next := ps_next s; ps_done := ps_done s; halted := halted s; log := log s |}.
Definition set_prop_round (x : N) (s : nstate) : nstate :=
  {| height := height s; round := round s; rstep := rstep s; prop := prop s; pblock := pblock s; pparts := pparts s; locked_round := locked_round s; locked := locked s; locked_parts := locked_parts s; valid_round := valid_round s; valid_blk := valid_blk s; valid_parts := valid_parts s; commit_round := commit_round s; tt_precommit := tt_precommit s; rounds := rounds s; hvs_round := hvs_round s; catchup := catchup s; last_commit := last_commit s; prop_round := x; tk_last := tk_last s; timeouts := timeouts s; ps_next := ps_next s; ps_done := ps_done s; halted := halted s; log := log s |}.
Definition set_tk_last (x : tinfo) (s : nstate) : nstate :=
  {| height := height s; round := round s; rstep := rstep s; prop := prop s; pblock := pblock s; pparts := pparts s; locked_round := locked_round s; locked := locked s; locked_parts := locked_parts s; valid_round := valid_round s; valid_blk := valid_blk s; valid_parts := valid_parts s; commit_round := commit_round s; tt_precommit := tt_precommit s; rounds := rounds s; hvs_round := hvs_round s; catchup := catchup s; last_commit := last_commit s; prop_round := prop_round s; tk_last := x; timeouts := timeouts s; ps_next := ps_next s; ps_done := ps_done s; halted := halted s; log := log s |}.
Definition set_timeouts (x : list tinfo) (s : nstate) : nstate :=
  {| height := height s; round := round s; rstep := rstep s; prop := prop s; pblock := pblock s; pparts := pparts s; locked_round := locked_round s; locked := locked s; locked_parts := locked_parts s; valid_round := valid_round s; valid_blk := valid_blk s; valid_parts := valid_parts s; commit_round := commit_round s; tt_precommit := tt_precommit s; rounds := rounds s; hvs_round := hvs_round s; catchup := catchup s; last_commit := last_commit s; prop_round := prop_round s; tk_last := tk_last s; timeouts := x; ps_next := ps_next s; ps_done := ps_done s; halted := halted s; log := log s |}.
Definition set_ps_next (x : N) (s : nstate) : nstate :=
  {| height := height s; round := round s; rstep := rstep s; prop := prop s; pblock := pblock s; pparts := pparts s; locked_round := locked_round s; locked := locked s; locked_parts := locked_parts s; valid_round := valid_round s; valid_blk := valid_blk s; valid_parts := valid_parts s; commit_round := commit_round s; tt_precommit := tt_precommit s; rounds := rounds s; hvs_round := hvs_round s; catchup := catchup s; last_commit := last_commit s; prop_round := prop_round s; tk_last := tk_last s; timeouts := timeouts s; ps_next := x; ps_done := ps_done s; halted := halted s; log := log s |}.
Definition set_ps_done (x : list N) (s : nstate) : nstate :=
  {| height := height s; round := round s; rstep := rstep s; prop := prop s; pblock := pblock s; pparts := pparts s; locked_round := locked_round s; locked := locked s; locked_parts := locked_parts s; valid_round := valid_round s; valid_blk := valid_blk s; valid_parts := valid_parts s; commit_round := commit_round s; tt_precommit := tt_precommit s; rounds := rounds s; hvs_round := hvs_round s; catchup := catchup s; last_commit := last_commit s; prop_round := prop_round s; tk_last := tk_last s; timeouts := timeouts s; ps_next := ps_next s; ps_done := x; halted := halted s; log := log s |}.
Definition set_halted (x : bool) (s : nstate) : nstate :=
  {| height := height s; round := round s; rstep := rstep s; prop := prop s; pblock := pblock s; pparts := pparts s; locked_round := locked_round s; locked := locked s; locked_parts := locked_parts s; valid_round := valid_round s; valid_blk := valid_blk s; valid_parts := valid_parts s; commit_round := commit_round s; tt_precommit := tt_precommit s; rounds := rounds s; hvs_round := hvs_round s; catchup := catchup s; last_commit := last_commit s; prop_round := prop_round s; tk_last := tk_last s; timeouts := timeouts s; ps_next := ps_next s; ps_done := ps_done s; halted := x; log := log s |}.
Definition set_log (x : list event) (s : nstate) : nstate :=
  {| height := height s; round := round s; rstep := rstep s; prop := prop s; pblock := pblock s; pparts := pparts s; locked_round := locked_round s; locked := locked s; locked_parts := locked_parts s; valid_round := valid_round s; valid_blk := valid_blk s; valid_parts := valid_parts s; commit_round := commit_round s; tt_precommit := tt_precommit s; rounds := rounds s; hvs_round := hvs_round s; catchup := catchup s; last_commit := last_commit s; prop_round := prop_round s; tk_last := tk_last s; timeouts := timeouts s; ps_next := ps_next s; ps_done := ps_done s; halted := halted s; log := x |}.

(* ------------------------------------------------------------------ *)
(** * Small helpers *)

(** Block.HashesTo (nil-safe, false for the zero hash) *)
Definition hashes_to (ob : option block) (h : N) : bool :=
  if h =? 0 then false else match ob with None => false | Some b => b_hash b =? h end.
(** PartSet.HasHeader / Header (nil-safe) *)
Definition has_header (op : option partset) (p : N) : bool :=
  match op with None => false | Some ps => ps_hdr ps =? p end.
Definition hdr_of (op : option partset) : N := match op with None => 0 | Some ps => ps_hdr ps end.
Definition ps_complete (s : nstate) (ps : partset) : bool := existsb (N.eqb (ps_id ps)) (ps_done s).
Definition parts_complete (s : nstate) (op : option partset) : bool :=
  match op with None => false | Some ps => ps_complete s ps end.
(** cs.ProposalBlockParts = types.NewPartSetFromHeader(hdr): a fresh, empty object *)
Definition new_pparts (hdr : N) (s : nstate) : nstate :=
  set_ps_next (ps_next s + 1) (set_pparts (Some {| ps_id := ps_next s; ps_hdr := hdr |}) s).

Fixpoint get_rv (l : list (N * roundvotes)) (r : N) : option roundvotes :=
  match l with [] => None | (k, rv) :: t => if k =? r then Some rv else get_rv t r end.
Fixpoint put_rv (l : list (N * roundvotes)) (r : N) (rv : roundvotes) : list (N * roundvotes) :=
  match l with
  | [] => []
  | (k, x) :: t => if k =? r then (k, rv) :: t else (k, x) :: put_rv t r rv
  end.
Definition pick (ty : vtype) (rv : roundvotes) : voteset :=
  match ty with Prevote => fst rv | Precommit => snd rv end.
Definition upd (ty : vtype) (rv : roundvotes) (vs : voteset) : roundvotes :=
  match ty with Prevote => (vs, snd rv) | Precommit => (fst rv, vs) end.
(** hvs.getVoteSet: None = nil *VoteSet *)
Definition get_vs (s : nstate) (r : N) (ty : vtype) : option voteset :=
  match get_rv (rounds s) r with Some rv => Some (pick ty rv) | None => None end.
(** nil-safe TwoThirdsMajority / HasTwoThirdsMajority / HasTwoThirdsAny *)
Definition maj_of (o : option voteset) : option bid :=
  match o with Some vs => vs_maj vs | None => None end.
Definition any_of (pw : list Z) (o : option voteset) : bool :=
  match o with Some vs => has_any pw vs | None => false end.
(** hvs.addRound (only called for a missing round) *)
Definition add_round (r : N) (s : nstate) : nstate :=
  match get_rv (rounds s) r with
  | Some _ => s
  | None => set_rounds (rounds s ++ [(r, (vs_empty, vs_empty))]) s
  end.
Fixpoint add_rounds_from (lo : N) (n : nat) (s : nstate) : nstate :=
  match n with O => s | S m => add_rounds_from (lo + 1) m (add_round lo s) end.

Fixpoint catchup_of (l : list (N * list N)) (peer : N) : list N :=
  match l with [] => [] | (p, rs) :: t => if p =? peer then rs else catchup_of t peer end.
Fixpoint catchup_put (l : list (N * list N)) (peer : N) (rs : list N) : list (N * list N) :=
  match l with
  | [] => [(peer, rs)]
  | (p, x) :: t => if p =? peer then (p, rs) :: t else (p, x) :: catchup_put t peer rs
  end.

Definition tinfo_eqb (a b : tinfo) : bool :=
  let '(ah, ar, ast) := a in let '(bh', br, bst) := b in
  (ah =? bh') && (ar =? br) && step_eqb ast bst.
Fixpoint remove_one (x : tinfo) (l : list tinfo) : list tinfo :=
  match l with [] => [] | y :: t => if tinfo_eqb x y then t else y :: remove_one x t end.

(** timeoutRoutine's filter: "ignore tickers for old height/round/step" *)
Definition tk_accepts (last new : tinfo) : bool :=
  let '(lh, lr, ls) := last in let '(nh, nr, ns) := new in
  if nh <? lh then false
  else if nh =? lh then
    if nr <? lr then false
    else if nr =? lr then negb ((0 <? step_num ls) && (step_num ns <=? step_num ls))
    else true
  else true.

(** sequencing that stops at a panic *)
Definition andthen (f g : nstate -> nstate) : nstate -> nstate :=
  fun s => let s1 := f s in if halted s1 then s1 else g s1.
Infix ";;" := andthen (at level 61, left associativity).

Definition emit (o : output) (s : nstate) : nstate := set_log (EvOut o :: log s) s.
Definition panic (s : nstate) : nstate := set_halted true (emit Panic s).

(** cs.scheduleTimeout -> ticker.ScheduleTimeout *)
Definition sched (h r : N) (st : step_t) (s : nstate) : nstate :=
  let s1 := emit (Sched h r st) s in
  if tk_accepts (tk_last s1) (h, r, st)
  then set_timeouts ((h, r, st) :: timeouts s1) (set_tk_last (h, r, st) s1)
  else s1.

(* ------------------------------------------------------------------ *)
(** * The state machine *)

Section Node.
Variable valid : N -> block -> bool.        (* validateBlock(cs.state at height h, b) = nil *)
Variable vals : N -> list Z.                (* voting powers by validator index, per height *)
Variable proposer : N -> N -> N.            (* proposer index at (height, round) (C12) *)
Variable mkblock : N -> N -> option block.  (* what createProposalBlock builds at (height, round) *)
Variable cfg : config.
Variable me : option N.                     (* own validator index; None = not a validator *)

Definition pw (s : nstate) : list Z := vals (height s).

(** signAddVote: the vote carries cs.Height and cs.Round *)
Definition sign_vote (ty : vtype) (b : bid) (s : nstate) : nstate :=
  match me with
  | None => s
  | Some i => emit (SignVote {| v_type := ty; v_height := height s; v_round := round s;
                                v_bid := b; v_idx := i; v_ok := true |}) s
  end.

Definition unlock (s : nstate) : nstate :=
  set_locked_parts None (set_locked None (set_locked_round 0 s)).

(** updateToState after ApplyBlock: LastCommit, then every RoundState field is reset *)
Definition reset_height (lc : option (N * N * voteset)) (s : nstate) : nstate :=
  {| height := height s + 1; round := 1; rstep := SNewHeight;
     prop := None; pblock := None; pparts := None;
     locked_round := 0; locked := None; locked_parts := None;
     valid_round := 0; valid_blk := None; valid_parts := None;
     commit_round := 0; tt_precommit := false;
     rounds := [(1, (vs_empty, vs_empty))]; hvs_round := 1; catchup := [];
     last_commit := lc; prop_round := 1;
     tk_last := tk_last s; timeouts := timeouts s; ps_next := ps_next s; ps_done := ps_done s;
     halted := halted s; log := log s |}.

Definition update_to_state (s : nstate) : nstate :=
  if 0 <? commit_round s then
    match get_vs s (commit_round s) Precommit with
    | Some vs => if has_maj vs then reset_height (Some (height s, commit_round s, vs)) s else panic s
    | None => panic s
    end
  else match last_commit s with
       | None => panic s
       | Some lc => reset_height (Some lc) s
       end.

Definition finalize_commit (h : N) (s : nstate) : nstate :=
  if negb (height s =? h) || negb (step_eqb (rstep s) SCommit) then s else
  match maj_of (get_vs s (commit_round s) Precommit) with
  | None => panic s
  | Some b =>
    if negb (has_header (pparts s) (bp b)) then panic s
    else if negb (hashes_to (pblock s) (bh b)) then panic s
    else match pblock s with
         | None => panic s
         | Some blk =>
           if negb (valid (height s) blk) then panic s
           else if negb (parts_complete s (pparts s)) then panic s   (* BlockOperations.SaveBlock *)
           else (emit (Commit (height s) blk (commit_round s)) ;; update_to_state ;;
                 (fun s' => sched (height s') 1 SNewHeight s')) s
         end
  end.

Definition try_finalize_commit (h : N) (s : nstate) : nstate :=
  if negb (height s =? h) then panic s else
  match maj_of (get_vs s (commit_round s) Precommit) with
  | None => s
  | Some b => if bid_is_zero b then s
              else if negb (hashes_to (pblock s) (bh b)) then s
              else finalize_commit h s
  end.

Definition enter_commit (h cr : N) (s : nstate) : nstate :=
  if negb (height s =? h) || step_le SCommit (rstep s) then s else
  match maj_of (get_vs s cr Precommit) with
  | None => panic s
  | Some b =>
    let s1 := if hashes_to (locked s) (bh b)
              then set_pparts (locked_parts s) (set_pblock (locked s) s) else s in
    let s2 := if negb (hashes_to (pblock s1) (bh b)) && negb (has_header (pparts s1) (bp b))
              then new_pparts (bp b) (set_pblock None s1) else s1 in
    try_finalize_commit h (set_commit_round cr (set_rstep SCommit s2))
  end.

Definition enter_precommit_wait (h r : N) (s : nstate) : nstate :=
  if negb (height s =? h) || negb (r =? round s) || ((round s =? r) && tt_precommit s) then s
  else if negb (any_of (pw s) (get_vs s r Precommit)) then panic s
  else set_tt_precommit true (sched h r SPrecommitWait s).

(** hvs.POLInfo: the highest tracked round <= hvs.round with a prevote majority, 0 if none *)
Fixpoint pol_scan (s : nstate) (n : nat) : N :=
  match n with
  | O => 0
  | S m => match maj_of (get_vs s (N.of_nat n) Prevote) with
           | Some _ => N.of_nat n
           | None => pol_scan s m
           end
  end.
Definition pol_info (s : nstate) : N := pol_scan s (N.to_nat (hvs_round s)).

Definition enter_precommit (h r : N) (s : nstate) : nstate :=
  if negb (height s =? h) || (r <? round s) || ((round s =? r) && step_le SPrecommit (rstep s)) then s else
  let done := fun s' => set_rstep SPrecommit (set_round r s') in
  match maj_of (get_vs s r Prevote) with
  | None => done (sign_vote Precommit bid_nil s)
  | Some b =>
    if pol_info s <? r then panic s
    else if bid_is_zero b then
      done (sign_vote Precommit bid_nil (match locked s with None => s | Some _ => unlock s end))
    else if hashes_to (locked s) (bh b) then
      done (sign_vote Precommit b (set_locked_round r s))
    else if hashes_to (pblock s) (bh b) then
      match pblock s with
      | None => s
      | Some blk =>
        if negb (valid (height s) blk) then panic s
        else done (sign_vote Precommit b
                     (set_locked_parts (pparts s) (set_locked (pblock s) (set_locked_round r s))))
      end
    else
      let s1 := unlock s in
      let s2 := if negb (has_header (pparts s1) (bp b))
                then new_pparts (bp b) (set_pblock None s1) else s1 in
      done (sign_vote Precommit bid_nil s2)
  end.

Definition enter_prevote_wait (h r : N) (s : nstate) : nstate :=
  if negb (height s =? h) || (r <? round s) || ((round s =? r) && step_le SPrevoteWait (rstep s)) then s
  else if negb (any_of (pw s) (get_vs s r Prevote)) then panic s
  else set_rstep SPrevoteWait (set_round r (sched h r SPrevoteWait s)).

(** doPrevote's stale-lock scan (fix 7b58637): some round in (LockedRound, Round] has a +2/3
    prevote majority for a value other than the locked block (a nil polka counts) *)
Fixpoint stale_scan (s : nstate) (r : N) (n : nat) : bool :=
  match n with
  | O => false
  | S m => match maj_of (get_vs s r Prevote) with
           | Some b => if negb (hashes_to (locked s) (bh b)) then true else stale_scan s (r - 1) m
           | None => stale_scan s (r - 1) m
           end
  end.
Definition stale_lock (s : nstate) : bool :=
  stale_scan s (round s) (N.to_nat (round s - locked_round s)).

Definition do_prevote_locked (s : nstate) : nstate :=
  match locked s with
  | Some b => sign_vote Prevote {| bh := b_hash b; bp := hdr_of (locked_parts s) |} s
  | None =>
    match pblock s with
    | None => sign_vote Prevote bid_nil s
    | Some b => if negb (valid (height s) b) then sign_vote Prevote bid_nil s
                else sign_vote Prevote {| bh := b_hash b; bp := hdr_of (pparts s) |} s
    end
  end.

Definition do_prevote (s : nstate) : nstate :=
  do_prevote_locked (match locked s with
                     | Some _ => if stale_lock s then unlock s else s
                     | None => s
                     end).

Definition enter_prevote (h r : N) (s : nstate) : nstate :=
  if negb (height s =? h) || (r <? round s) || ((round s =? r) && step_le SPrevote (rstep s)) then s
  else set_rstep SPrevote (set_round r (do_prevote s)).

Definition is_proposal_complete (s : nstate) : bool :=
  match prop s, pblock s with
  | Some p, Some _ =>
    if p_pol p <? 1 then true
    else match maj_of (get_vs s (p_pol p) Prevote) with Some _ => true | None => false end
  | _, _ => false
  end.

Definition lc_has_maj (s : nstate) : bool :=
  match last_commit s with Some (_, _, vs) => has_maj vs | None => false end.

Definition decide_proposal (h r : N) (s : nstate) : nstate :=
  match me with
  | None => s
  | Some i =>
    let chosen :=
      match valid_blk s with
      | Some b => Some (b, hdr_of (valid_parts s))
      | None =>
        if (height s =? initial_height cfg) || lc_has_maj s then
          match mkblock (height s) r with Some b => Some (b, b_parts b) | None => None end
        else None
      end in
    match chosen with
    | None => s
    | Some (b, hdr) =>
      emit (SignProposal {| p_height := h; p_round := r; p_pol := valid_round s;
                            p_bid := {| bh := b_hash b; bp := hdr |}; p_signer := Some i |}) s
    end
  end.

Definition enter_propose (h r : N) (s : nstate) : nstate :=
  if negb (height s =? h) || (r <? round s) || ((round s =? r) && step_le SPropose (rstep s)) then s else
  let s1 := sched h r SPropose s in
  let s2 := match me with
            | None => s1
            | Some i => if proposer (height s1) (prop_round s1) =? i then decide_proposal h r s1 else s1
            end in
  let s3 := set_rstep SPropose (set_round r s2) in
  if is_proposal_complete s3 then enter_prevote h (round s3) s3 else s3.

(** hvs.SetRound *)
Definition hvs_set_round (nr : N) (s : nstate) : nstate :=
  let newRound := hvs_round s - 1 in
  if negb (hvs_round s =? 1) && (nr <? newRound) then panic s
  else set_hvs_round nr (add_rounds_from newRound (N.to_nat (nr + 1 - newRound)) s).

Definition enter_new_round (h r : N) (s : nstate) : nstate :=
  if negb (height s =? h) || (r <? round s) || ((round s =? r) && negb (step_eqb (rstep s) SNewHeight)) then s else
  let s1 := if round s <? r then set_prop_round (prop_round s + (r - round s)) s else s in
  let s2 := set_rstep SNewRound (set_round r s1) in
  let s3 := if r =? 1 then s2 else set_pparts None (set_pblock None (set_prop None s2)) in
  (hvs_set_round (r + 1) ;;
   (fun s4 =>
      let s5 := set_tt_precommit false s4 in
      if wait_for_txs cfg && (r =? 1) then
        (if empty_interval_pos cfg then sched h r SNewRound s5 else s5)
      else enter_propose h r s5)) s3.

(** Proposal.ValidateBasic (reactor) *)
Definition prop_wf (p : proposal) : bool := bid_is_complete (p_bid p).

Definition recv_proposal (p : proposal) (s : nstate) : nstate :=
  match prop s with
  | Some _ => s
  | None =>
    if negb (p_height p =? height s) || negb (p_round p =? round s) then s
    else if (p_pol p <? 1) && ((0 <? p_pol p) || (p_round p <? p_pol p)) then s
    else match p_signer p with
         | None => s
         | Some k =>
           if negb (k =? proposer (height s) (prop_round s)) then s
           else let s1 := set_prop (Some p) s in
                match pparts s1 with
                | None => new_pparts (bp (p_bid p)) s1
                | Some _ => s1
                end
         end
  end.

Definition add_block (h r : N) (b : block) (s : nstate) : nstate :=
  if negb (height s =? h) then s else
  match pparts s with
  | None => s
  | Some ps =>
    if negb (ps_hdr ps =? b_parts b) then s
    else if ps_complete s ps then s
    else
      let s1 := set_pblock (Some b) (set_ps_done (ps_id ps :: ps_done s) s) in
      let m := maj_of (get_vs s1 (round s1) Prevote) in
      let has23 := match m with Some _ => true | None => false end in
      let s2 := match m with
                | Some x =>
                  if negb (bid_is_zero x) && (valid_round s1 <? round s1) && hashes_to (pblock s1) (bh x)
                  then set_valid_parts (pparts s1) (set_valid_blk (pblock s1) (set_valid_round (round s1) s1))
                  else s1
                | None => s1
                end in
      if step_le (rstep s2) SPropose && is_proposal_complete s2 then
        (enter_prevote h (round s2) ;;
         (fun s3 => if has23 then enter_precommit h (round s3) s3 else s3)) s2
      else if step_eqb (rstep s2) SCommit then try_finalize_commit h s2
      else s2
  end.

(** addProposalBlockPart when the completed bytes are not a well-formed block: the part set is
    complete (further parts are duplicates), ProposalBlock is left as it was, the error is returned *)
Definition add_bad_block (h r : N) (hdr : N) (s : nstate) : nstate :=
  if negb (height s =? h) then s else
  match pparts s with
  | None => s
  | Some ps =>
    if negb (ps_hdr ps =? hdr) then s
    else if ps_complete s ps then s
    else set_ps_done (ps_id ps :: ps_done s) s
  end.

(** HeightVoteSet.AddVote followed by VoteSet.AddVote; returns the new state and "added" *)
Definition hvs_add (peer : N) (v : vote) (s : nstate) : nstate * bool :=
  let go := fun s' =>
    match get_rv (rounds s') (v_round v) with
    | None => (s', false)
    | Some rv =>
      if negb (v_ok v) then (s', false)
      else let '(vs', added) := vs_add (pw s') (pick (v_type v) rv) (v_idx v) (v_bid v) in
           if added then (set_rounds (put_rv (rounds s') (v_round v) (upd (v_type v) rv vs')) s', true)
           else (s', false)
    end in
  match get_rv (rounds s) (v_round v) with
  | Some _ => go s
  | None =>
    let rs := catchup_of (catchup s) peer in
    if (length rs <? 2)%nat then
      go (set_catchup (catchup_put (catchup s) peer (rs ++ [v_round v])) (add_round (v_round v) s))
    else (s, false)
  end.

Definition add_vote (peer : N) (v : vote) (s : nstate) : nstate :=
  if (v_height v + 1 =? height s) && vtype_eqb (v_type v) Precommit then
    if negb (step_eqb (rstep s) SNewHeight) then s
    else match last_commit s with
         | None => s                                         (* no previous height: ignored (fix cfd1496) *)
         | Some (lh, lr, vs) =>                              (* LastCommit.AddVote: height, round, type must match *)
           if negb (v_height v =? lh) || negb (v_round v =? lr) || negb (v_ok v) then s
           else let '(vs', added) := vs_add (vals (v_height v)) vs (v_idx v) (v_bid v) in
                if negb added then s
                else let s1 := set_last_commit (Some (lh, lr, vs')) s in
                     if skip_timeout_commit cfg && has_all (vals (v_height v)) vs'
                     then enter_new_round (height s1) 1 s1 else s1
         end
  else if negb (v_height v =? height s) then s
  else
    let h := height s in
    let '(s1, added) := hvs_add peer v s in
    if negb added then s1 else
    if step_eqb (rstep s1) SCommit then s1 else       (* commit step: the vote is only recorded (fix c2849ff) *)
    match v_type v with
    | Prevote =>
      let prevotes := get_vs s1 (v_round v) Prevote in
      let s2 :=
        match maj_of prevotes with
        | None => s1
        | Some b =>
          let sa := match locked s1 with
                    | Some _ => if (locked_round s1 <? v_round v) && (v_round v <=? round s1)
                                   && negb (hashes_to (locked s1) (bh b))
                                then unlock s1 else s1
                    | None => s1
                    end in
          if negb (bh b =? 0) && (valid_round sa <? v_round v) && (v_round v =? round sa) then
            let sb := if hashes_to (pblock sa) (bh b)
                      then set_valid_parts (pparts sa) (set_valid_blk (pblock sa) (set_valid_round (v_round v) sa))
                      else set_pblock None sa in
            if negb (has_header (pparts sb) (bp b)) then new_pparts (bp b) sb else sb
          else sa
        end in
      if (round s2 <? v_round v) && any_of (pw s2) prevotes then enter_new_round h (v_round v) s2
      else if (round s2 =? v_round v) && step_le SPrevote (rstep s2) then
        match maj_of prevotes with
        | Some b =>
          if is_proposal_complete s2 || (bh b =? 0) then enter_precommit h (v_round v) s2
          else if any_of (pw s2) prevotes then enter_prevote_wait h (v_round v) s2 else s2
        | None => if any_of (pw s2) prevotes then enter_prevote_wait h (v_round v) s2 else s2
        end
      else match prop s2 with
           | Some p => if (1 <=? p_pol p) && (p_pol p =? v_round v) then
                         (if is_proposal_complete s2 then enter_prevote h (round s2) s2 else s2)
                       else s2
           | None => s2
           end
    | Precommit =>
      let precommits := get_vs s1 (v_round v) Precommit in
      match maj_of precommits with
      | Some b =>
        (enter_new_round h (v_round v) ;; enter_precommit h (v_round v) ;;
         (fun s2 =>
            if negb (bh b =? 0) then
              (enter_commit h (v_round v) ;;
               (fun s3 => if skip_timeout_commit cfg
                             && match precommits with Some vs => has_all (vals h) vs | None => false end
                          then enter_new_round (height s3) 1 s3 else s3)) s2
            else enter_precommit_wait h (v_round v) s2)) s1
      | None =>
        if (round s1 <=? v_round v) && any_of (pw s1) precommits then
          (enter_new_round h (v_round v) ;; enter_precommit_wait h (v_round v)) s1
        else s1
      end
    end.

Definition handle_timeout (h r : N) (st : step_t) (s : nstate) : nstate :=
  if negb (h =? height s) || (r <? round s) || ((r =? round s) && step_lt st (rstep s)) then s else
  match st with
  | SNewHeight => enter_new_round h 1 s
  | SNewRound => enter_propose h 1 s
  | SPropose => enter_prevote h r s
  | SPrevoteWait => enter_precommit h r s
  | SPrecommitWait => (enter_precommit h r ;; enter_new_round h (r + 1)) s
  | _ => panic s
  end.

Definition handle (i : input) (s : nstate) : nstate :=
  match i with
  | InProposal p => if prop_wf p then recv_proposal p s else s
  | InBlock h r b => add_block h r b s
  | InNilPart h r => if negb (height s =? h) then s
                     else match pparts s with None => s | Some _ => panic s end
  | InBadBlock h r hdr => add_bad_block h r hdr s
  | InVote peer v => if bid_wf (v_bid v) then add_vote peer v s else s
  | InTimeout h r st =>
    if existsb (tinfo_eqb (h, r, st)) (timeouts s)
    then handle_timeout h r st (set_timeouts (remove_one (h, r, st) (timeouts s)) s)
    else s
  end.

Definition step_state (s : nstate) (i : input) : nstate :=
  if halted s then s else handle i (set_log (EvIn i :: log s) s).

(** outputs of the last step: the [EvOut] entries above the newest [EvIn] *)
Fixpoint outs_since (l : list event) (acc : list output) : list output :=
  match l with
  | EvOut o :: t => outs_since t (o :: acc)
  | _ => acc
  end.

Definition step (s : nstate) (i : input) : nstate * list output :=
  let s' := step_state s i in
  (s', if halted s then [] else outs_since (log s') []).

Definition init0 : nstate :=
  {| height := initial_height cfg; round := 1; rstep := SNewHeight;
     prop := None; pblock := None; pparts := None;
     locked_round := 0; locked := None; locked_parts := None;
     valid_round := 0; valid_blk := None; valid_parts := None;
     commit_round := 0; tt_precommit := false;
     rounds := [(1, (vs_empty, vs_empty))]; hvs_round := 1; catchup := [];
     last_commit := None; prop_round := 1;
     tk_last := (0, 1, SNewHeight); timeouts := []; ps_next := 1; ps_done := [];
     halted := false; log := [] |}.

(** NewConsensusState + OnStart's scheduleRound0 *)
Definition init : nstate := sched (initial_height cfg) 1 SNewHeight init0.

Definition run (ins : list input) : nstate := fold_left step_state ins init.

End Node.

(** ghost projections of the log *)
Definition signed_votes (l : list event) : list vote :=
  flat_map (fun e => match e with EvOut (SignVote v) => [v] | _ => [] end) l.
Definition signed_proposals (l : list event) : list proposal :=
  flat_map (fun e => match e with EvOut (SignProposal p) => [p] | _ => [] end) l.
Definition received (l : list event) : list input :=
  flat_map (fun e => match e with EvIn i => [i] | _ => [] end) l.
