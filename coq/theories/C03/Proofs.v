(** C03 — small lemmas and the non-vacuity example (the invariants are in ProofsMono.v and
    ProofsInv.v). *)
From Coq Require Import List ZArith NArith Bool Lia.
From Kardia Require Import C03.Node C03.ProofsMono C03.ProofsInv.
Import ListNotations.
Local Open Scope N_scope.

(** setProposal's POLRound check can never fire: the condition is unsatisfiable. *)
Lemma pol_check_dead (pol r : N) : (pol <? 1) && ((0 <? pol) || (r <? pol)) = false.
Proof.
  destruct (pol <? 1) eqn:E; [|reflexivity]. apply N.ltb_lt in E.
  assert (pol = 0) by lia. subst. cbn. destruct r; reflexivity.
Qed.

(** hence a proposal whose POLRound is not below its round is accepted like any other *)
Lemma proposal_polround_unchecked proposer p s :
  prop s = None -> p_height p = height s -> p_round p = round s ->
  p_signer p = Some (proposer (height s) (prop_round s)) ->
  prop (recv_proposal proposer p s) = Some p.
Proof.
  intros E Hh Hr Hs. unfold recv_proposal. rewrite E, Hh, Hr, !N.eqb_refl. cbn [negb orb].
  rewrite pol_check_dead, Hs, N.eqb_refl. cbn [negb]. destruct (pparts _); reflexivity.
Qed.

(** A concrete run (4 validators of power 10, the node is validator 0 and proposer of round 1):
    NewHeight timeout, own proposal and block, own prevote, two more prevotes: the node signs a
    proposal, a prevote and a precommit for the block — the theorems are not vacuous. *)
Section Example.
Let valid (h : N) (b : block) : bool := (h =? 1) && (b_hash b =? 7).
Let vals (_ : N) : list Z := [10; 10; 10; 10]%Z.
Let proposer (_ r : N) : N := (r - 1) mod 4.
Let mkblock (_ _ : N) : option block := Some {| b_hash := 7; b_parts := 3 |}.
Let cfg : config := {| skip_timeout_commit := false; create_empty_blocks := true;
                       empty_interval_pos := false; initial_height := 1 |}.
Let b7 : bid := {| bh := 7; bp := 3 |}.
Let pv (i : N) : vote := {| v_type := Prevote; v_height := 1; v_round := 1; v_bid := b7; v_idx := i; v_ok := true |}.
Let script : list input :=
  [ InTimeout 1 1 SNewHeight;
    InProposal {| p_height := 1; p_round := 1; p_pol := 0; p_bid := b7; p_signer := Some 0 |};
    InBlock 1 1 {| b_hash := 7; b_parts := 3 |};
    InVote 0 (pv 0); InVote 1 (pv 1); InVote 2 (pv 2) ].

Example run_signs :
  let l := log (run valid vals proposer mkblock cfg (Some 0) script) in
  map (fun v => (v_type v, v_round v, bh (v_bid v))) (signed_votes l) = [(Precommit, 1, 7); (Prevote, 1, 7)] /\
  length (signed_proposals l) = 1%nat.
Proof. vm_compute. split; reflexivity. Qed.
End Example.
