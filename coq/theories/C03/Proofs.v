(** C03 — lemmas.  (work in progress: see ProofsInv.v) *)
From Coq Require Import List ZArith NArith Bool Lia.
From Kardia Require Import C03.Node.
Import ListNotations.
Local Open Scope N_scope.

(** setProposal's POLRound check can never fire: the condition is unsatisfiable. *)
Lemma pol_check_dead (pol r : N) : (pol <? 1) && ((0 <? pol) || (r <? pol)) = false.
Proof.
  destruct (pol <? 1) eqn:E; [|reflexivity]. apply N.ltb_lt in E.
  assert (pol = 0) by lia. subst. cbn. destruct r; reflexivity.
Qed.
