(** C03 — (height, round, step) never decreases: every transition function of Node.v is
    monotone for the lexicographic order, without any assumption on its arguments. *)
From Coq Require Import List ZArith NArith Bool Lia.
From Kardia Require Import C03.Node.
Import ListNotations.
Local Open Scope N_scope.

Definition hrs_le (s s' : nstate) : Prop :=
  height s < height s' \/
  (height s = height s' /\
   (round s < round s' \/ (round s = round s' /\ step_num (rstep s) <= step_num (rstep s')))).

Lemma hrs_refl s : hrs_le s s.
Proof. unfold hrs_le. right. split; [reflexivity|]. right. split; [reflexivity|lia]. Qed.

Lemma hrs_trans a b c : hrs_le a b -> hrs_le b c -> hrs_le a c.
Proof. unfold hrs_le. intros H1 H2. lia. Qed.

(** two states with the same height, round and step *)
Definition hrs_eq (s s' : nstate) : Prop :=
  height s = height s' /\ round s = round s' /\ rstep s = rstep s'.
Lemma hrs_eq_trans a b c : hrs_eq a b -> hrs_eq b c -> hrs_eq a c.
Proof. unfold hrs_eq. intros (A & B & C) (D & E & F). repeat split; congruence. Qed.
Lemma hrs_eq_le s s' : hrs_eq s s' -> hrs_le s s'.
Proof. unfold hrs_eq, hrs_le. intros (H1 & H2 & H3). rewrite H3. lia. Qed.
Lemma hrs_le_eq_l a b c : hrs_eq a b -> hrs_le b c -> hrs_le a c.
Proof. intros H. apply hrs_trans. now apply hrs_eq_le. Qed.

(** boolean tests to arithmetic *)
Ltac b2p :=
  repeat match goal with
  | H : _ || _ = false |- _ => apply orb_false_iff in H; destruct H
  | H : _ && _ = true |- _ => apply andb_true_iff in H; destruct H
  | H : negb _ = true |- _ => apply negb_true_iff in H
  | H : negb _ = false |- _ => apply negb_false_iff in H
  | H : (_ =? _) = true |- _ => apply N.eqb_eq in H
  | H : (_ =? _) = false |- _ => apply N.eqb_neq in H
  | H : (_ <? _) = true |- _ => apply N.ltb_lt in H
  | H : (_ <? _) = false |- _ => apply N.ltb_ge in H
  | H : (_ <=? _) = true |- _ => apply N.leb_le in H
  | H : (_ <=? _) = false |- _ => apply N.leb_gt in H
  | H : step_le _ _ = _ |- _ => unfold step_le in H
  | H : step_lt _ _ = _ |- _ => unfold step_lt in H
  | H : step_eqb _ _ = _ |- _ => unfold step_eqb in H
  end.

(** case split on every test of the goal *)
Ltac brk :=
  repeat match goal with
  | |- context [if ?c then _ else _] => destruct c eqn:?
  | |- context [match ?x with Some _ => _ | None => _ end] => destruct x eqn:?
  end.

Ltac fin := unfold hrs_le; cbn; b2p; cbn in *; try lia.

Lemma step_num_pos st : 1 <= step_num st.
Proof. destruct st; cbn; lia. Qed.

Lemma emit_eq o s : hrs_eq s (emit o s).
Proof. repeat split. Qed.
Lemma panic_eq s : hrs_eq s (panic s).
Proof. repeat split. Qed.
Lemma sched_eq h r st s : hrs_eq s (sched h r st s).
Proof. unfold sched. destruct (tk_accepts _ _); repeat split. Qed.

Lemma andthen_mono f g s :
  hrs_le s (f s) -> (forall x, hrs_le x (g x)) -> hrs_le s ((f ;; g) s).
Proof.
  intros Hf Hg. unfold andthen. destruct (halted (f s)); [exact Hf|].
  eapply hrs_trans; [exact Hf|apply Hg].
Qed.

Section Mono.
Variable valid : N -> block -> bool.
Variable vals : N -> list Z.
Variable proposer : N -> N -> N.
Variable mkblock : N -> N -> option block.
Variable cfg : config.
Variable me : option N.

Lemma sign_vote_eq ty b s : hrs_eq s (sign_vote me ty b s).
Proof. unfold sign_vote. destruct me; repeat split. Qed.

Lemma update_to_state_mono s : hrs_le s (update_to_state s).
Proof.
  unfold update_to_state. brk; try (apply hrs_eq_le, panic_eq); unfold hrs_le; cbn; lia.
Qed.

Lemma finalize_commit_mono h s : hrs_le s (finalize_commit valid h s).
Proof.
  unfold finalize_commit. brk; try apply hrs_refl; try (apply hrs_eq_le, panic_eq).
  apply andthen_mono; [apply andthen_mono|].
  - apply hrs_eq_le, emit_eq.
  - apply update_to_state_mono.
  - intros x. apply hrs_eq_le, sched_eq.
Qed.

Lemma try_finalize_commit_mono h s : hrs_le s (try_finalize_commit valid h s).
Proof.
  unfold try_finalize_commit. brk; try apply hrs_refl; try (apply hrs_eq_le, panic_eq).
  apply finalize_commit_mono.
Qed.

Lemma enter_commit_mono h cr s : hrs_le s (enter_commit valid h cr s).
Proof.
  unfold enter_commit.
  destruct (negb (height s =? h) || step_le SCommit (rstep s)) eqn:G; [apply hrs_refl|].
  destruct (maj_of (get_vs s cr Precommit)); [|apply hrs_eq_le, panic_eq].
  eapply hrs_trans; [|apply try_finalize_commit_mono].
  brk; fin.
Qed.

Lemma enter_precommit_wait_mono h r s : hrs_le s (enter_precommit_wait vals h r s).
Proof.
  unfold enter_precommit_wait. brk; try apply hrs_refl; try (apply hrs_eq_le, panic_eq).
  eapply hrs_le_eq_l; [apply (sched_eq h r SPrecommitWait)|]. fin.
Qed.

Lemma enter_precommit_mono h r s : hrs_le s (enter_precommit valid me h r s).
Proof.
  unfold enter_precommit.
  destruct (negb (height s =? h) || (r <? round s) || ((round s =? r) && step_le SPrecommit (rstep s))) eqn:G;
    [apply hrs_refl|].
  assert (G' : round s < r \/ (round s = r /\ step_num (rstep s) <= 6)).
  { b2p. destruct (N.eq_dec (round s) r) as [E|E].
    - right. split; [exact E|]. apply N.eqb_eq in E. rewrite E in *. cbn in *. b2p. cbn in *. lia.
    - left. lia. }
  clear G.
  brk; try apply hrs_refl; try (apply hrs_eq_le, panic_eq);
    unfold sign_vote; destruct me; unfold hrs_le; cbn; lia.
Qed.

Lemma enter_prevote_wait_mono h r s : hrs_le s (enter_prevote_wait vals h r s).
Proof.
  unfold enter_prevote_wait.
  destruct (negb (height s =? h) || (r <? round s) || ((round s =? r) && step_le SPrevoteWait (rstep s))) eqn:G;
    [apply hrs_refl|].
  assert (G' : round s < r \/ (round s = r /\ step_num (rstep s) <= 5)).
  { b2p. destruct (N.eq_dec (round s) r) as [E|E].
    - right. split; [exact E|]. apply N.eqb_eq in E. rewrite E in *. cbn in *. b2p. cbn in *. lia.
    - left. lia. }
  clear G.
  destruct (negb _); [apply hrs_eq_le, panic_eq|].
  pose proof (sched_eq h r SPrevoteWait s) as (E1 & E2 & E3).
  unfold hrs_le; cbn. lia.
Qed.

Lemma do_prevote_locked_eq s : hrs_eq s (do_prevote_locked valid me s).
Proof. unfold do_prevote_locked. brk; apply sign_vote_eq. Qed.
Lemma do_prevote_eq s : hrs_eq s (do_prevote valid me s).
Proof.
  unfold do_prevote. eapply hrs_eq_trans; [|apply do_prevote_locked_eq].
  destruct (locked s); [|repeat split]. destruct (stale_lock s); repeat split.
Qed.

Lemma enter_prevote_mono h r s : hrs_le s (enter_prevote valid me h r s).
Proof.
  unfold enter_prevote.
  destruct (negb (height s =? h) || (r <? round s) || ((round s =? r) && step_le SPrevote (rstep s))) eqn:G;
    [apply hrs_refl|].
  assert (G' : round s < r \/ (round s = r /\ step_num (rstep s) <= 4)).
  { b2p. destruct (N.eq_dec (round s) r) as [E|E].
    - right. split; [exact E|]. apply N.eqb_eq in E. rewrite E in *. cbn in *. b2p. cbn in *. lia.
    - left. lia. }
  clear G.
  pose proof (do_prevote_eq s) as (E1 & E2 & E3).
  unfold hrs_le; cbn. lia.
Qed.

Lemma decide_proposal_eq m h r s : hrs_eq s (decide_proposal mkblock cfg m h r s).
Proof.
  unfold decide_proposal. destruct m; [|repeat split].
  destruct (valid_blk s); [repeat split|].
  destruct (_ || _); [|repeat split]. destruct (mkblock _ _); repeat split.
Qed.

Lemma enter_propose_mono h r s : hrs_le s (enter_propose valid proposer mkblock cfg me h r s).
Proof.
  unfold enter_propose.
  destruct (negb (height s =? h) || (r <? round s) || ((round s =? r) && step_le SPropose (rstep s))) eqn:G;
    [apply hrs_refl|].
  assert (G' : round s < r \/ (round s = r /\ step_num (rstep s) <= 3)).
  { b2p. destruct (N.eq_dec (round s) r) as [E|E].
    - right. split; [exact E|]. apply N.eqb_eq in E. rewrite E in *. cbn in *. b2p. cbn in *. lia.
    - left. lia. }
  clear G.
  set (s1 := sched h r SPropose s).
  pose proof (sched_eq h r SPropose s) as (E1 & E2 & E3). fold s1 in E1, E2, E3.
  set (s2 := match me with Some i => _ | None => s1 end).
  assert (Hs2 : hrs_eq s1 s2).
  { subst s2. destruct me; [|repeat split]. destruct (_ =? _); [apply decide_proposal_eq|repeat split]. }
  destruct Hs2 as (F1 & F2 & F3).
  assert (Hs3 : hrs_le s (set_rstep SPropose (set_round r s2))).
  { unfold hrs_le; cbn. lia. }
  destruct (is_proposal_complete _); [|exact Hs3].
  eapply hrs_trans; [exact Hs3|apply enter_prevote_mono].
Qed.

Lemma add_round_eq r s : hrs_eq s (add_round r s).
Proof. unfold add_round. destruct (get_rv _ _); repeat split. Qed.
Lemma add_rounds_from_eq n : forall lo s, hrs_eq s (add_rounds_from lo n s).
Proof.
  induction n as [|n IH]; intros lo s; cbn; [repeat split|].
  destruct (add_round_eq lo s) as (A & B & C). destruct (IH (lo + 1) (add_round lo s)) as (D & E & F).
  repeat split; congruence.
Qed.
Lemma hvs_set_round_eq nr s : hrs_eq s (hvs_set_round nr s).
Proof.
  unfold hvs_set_round. destruct (_ && _); [apply panic_eq|].
  destruct (add_rounds_from_eq (N.to_nat (nr + 1 - (hvs_round s - 1))) (hvs_round s - 1) s) as (A & B & C).
  repeat split; cbn; assumption.
Qed.

Lemma enter_new_round_mono h r s : hrs_le s (enter_new_round valid proposer mkblock cfg me h r s).
Proof.
  unfold enter_new_round.
  destruct (negb (height s =? h) || (r <? round s) || ((round s =? r) && negb (step_eqb (rstep s) SNewHeight))) eqn:G;
    [apply hrs_refl|].
  assert (G' : round s < r \/ (round s = r /\ step_num (rstep s) = 1)).
  { b2p. destruct (N.eq_dec (round s) r) as [E|E].
    - right. split; [exact E|]. apply N.eqb_eq in E. rewrite E in *. cbn in *. b2p. cbn in *. lia.
    - left. lia. }
  clear G.
  match goal with |- hrs_le s ((_ ;; ?g) ?s3) => set (G := g); set (S3 := s3) end.
  assert (H3 : hrs_le s S3).
  { subst S3. brk; unfold hrs_le; cbn; lia. }
  eapply hrs_trans; [exact H3|].
  apply andthen_mono; [apply hrs_eq_le, hvs_set_round_eq|].
  intros x. subst G. cbn beta.
  brk.
  - eapply hrs_le_eq_l; [|apply hrs_eq_le, sched_eq]. repeat split.
  - apply hrs_eq_le. repeat split.
  - eapply hrs_le_eq_l; [|apply enter_propose_mono]. repeat split.
Qed.

Lemma new_pparts_eq hdr s : hrs_eq s (new_pparts hdr s).
Proof. repeat split. Qed.

Lemma recv_proposal_eq p s : hrs_eq s (recv_proposal proposer p s).
Proof. unfold recv_proposal. brk; repeat split. Qed.

Lemma add_block_mono h r b s : hrs_le s (add_block valid me h r b s).
Proof.
  unfold add_block.
  destruct (negb (height s =? h)); [apply hrs_refl|].
  destruct (pparts s) as [ps|]; [|apply hrs_refl].
  destruct (negb (ps_hdr ps =? b_parts b)); [apply hrs_refl|].
  destruct (ps_complete s ps); [apply hrs_refl|].
  set (s1 := set_pblock _ _).
  set (s2 := match maj_of (get_vs s1 (round s1) Prevote) with Some x => _ | None => s1 end).
  assert (H2 : hrs_eq s s2).
  { subst s2. destruct (maj_of _); [|repeat split]. destruct (_ && _); repeat split. }
  eapply hrs_le_eq_l; [exact H2|].
  brk; try apply hrs_refl.
  - apply andthen_mono; [apply enter_prevote_mono|]. intros x. apply enter_precommit_mono.
  - apply andthen_mono; [apply enter_prevote_mono|]. intros x. apply hrs_refl.
  - apply try_finalize_commit_mono.
Qed.

Lemma hvs_add_eq peer v s : hrs_eq s (fst (hvs_add vals peer v s)).
Proof.
  unfold hvs_add.
  assert (Hgo : forall s', hrs_eq s' (fst (
    match get_rv (rounds s') (v_round v) with
    | None => (s', false)
    | Some rv =>
      if negb (v_ok v) then (s', false)
      else let '(vs', added) := vs_add (pw vals s') (pick (v_type v) rv) (v_idx v) (v_bid v) in
           if added then (set_rounds (put_rv (rounds s') (v_round v) (upd (v_type v) rv vs')) s', true)
           else (s', false)
    end))).
  { intros s'. destruct (get_rv _ _); [|repeat split]. destruct (negb _); [repeat split|].
    destruct (vs_add _ _ _ _) as [vs' [|]]; repeat split. }
  destruct (get_rv (rounds s) (v_round v)) eqn:E.
  - specialize (Hgo s). rewrite E in Hgo. exact Hgo.
  - destruct (_ <? _)%nat; [|repeat split].
    match goal with |- hrs_eq s (fst (match get_rv (rounds ?x) _ with _ => _ end)) =>
      eapply hrs_eq_trans; [|apply (Hgo x)] end.
    destruct (add_round_eq (v_round v) s) as (A' & B' & C'). repeat split; cbn; assumption.
Qed.

Lemma unlock_eq s : hrs_eq s (unlock s).
Proof. repeat split. Qed.

Lemma add_vote_mono peer v s : hrs_le s (add_vote valid vals proposer mkblock cfg me peer v s).
Proof.
  unfold add_vote.
  destruct (_ && vtype_eqb _ _).
  { destruct (negb _); [apply hrs_refl|]. destruct (last_commit s) as [[[lh lr] vs]|]; [|apply hrs_refl].
    destruct (_ || _); [apply hrs_refl|]. destruct (vs_add _ _ _ _) as [vs' added].
    destruct (negb added); [apply hrs_refl|].
    destruct (_ && _); [|apply hrs_eq_le; repeat split].
    eapply hrs_le_eq_l; [|apply enter_new_round_mono]. repeat split. }
  destruct (negb (v_height v =? height s)); [apply hrs_refl|].
  pose proof (hvs_add_eq peer v s) as H1.
  destruct (hvs_add vals peer v s) as [s1 added]. cbn in H1.
  destruct (negb added); [apply hrs_eq_le, H1|].
  eapply hrs_le_eq_l; [exact H1|].
  destruct (step_eqb (rstep s1) SCommit); [apply hrs_refl|].
  destruct (v_type v).
  - (* prevote *)
    set (s2 := match maj_of (get_vs s1 (v_round v) Prevote) with Some b => _ | None => s1 end).
    assert (H2 : hrs_eq s1 s2).
    { subst s2. destruct (maj_of _); [|repeat split].
      set (sa := match locked s1 with Some _ => _ | None => s1 end).
      assert (Ha : hrs_eq s1 sa). { subst sa. destruct (locked s1); [|repeat split]. destruct (_ && _); repeat split. }
      destruct Ha as (A & B & C).
      brk; repeat split; cbn; assumption. }
    eapply hrs_le_eq_l; [exact H2|].
    brk; try apply hrs_refl;
      first [apply enter_new_round_mono | apply enter_precommit_mono | apply enter_prevote_wait_mono | apply enter_prevote_mono].
  - (* precommit *)
    destruct (maj_of _).
    + apply andthen_mono; [apply andthen_mono; [apply enter_new_round_mono|intros; apply enter_precommit_mono]|].
      intros x. destruct (negb _).
      * apply andthen_mono; [apply enter_commit_mono|]. intros y.
        destruct (_ && _); [apply enter_new_round_mono|apply hrs_refl].
      * apply enter_precommit_wait_mono.
    + destruct (_ && _); [|apply hrs_refl].
      apply andthen_mono; [apply enter_new_round_mono|intros; apply enter_precommit_wait_mono].
Qed.

Lemma handle_timeout_mono h r st s : hrs_le s (handle_timeout valid proposer mkblock cfg me h r st s).
Proof.
  unfold handle_timeout. destruct (_ || _); [apply hrs_refl|].
  destruct st; try (apply hrs_eq_le, panic_eq);
    first [apply enter_new_round_mono | apply enter_propose_mono | apply enter_prevote_mono | apply enter_precommit_mono | idtac].
  apply andthen_mono; [apply enter_precommit_mono|intros; apply enter_new_round_mono].
Qed.

Lemma handle_mono i s : hrs_le s (handle valid vals proposer mkblock cfg me i s).
Proof.
  destruct i; cbn [handle].
  - destruct (prop_wf p); [apply hrs_eq_le, recv_proposal_eq|apply hrs_refl].
  - apply add_block_mono.
  - brk; try apply hrs_refl; apply hrs_eq_le, panic_eq.
  - unfold add_bad_block. brk; try apply hrs_refl; apply hrs_eq_le; repeat split.
  - destruct (bid_wf _); [apply add_vote_mono|apply hrs_refl].
  - destruct (existsb _ _); [|apply hrs_refl].
    eapply hrs_le_eq_l; [|apply handle_timeout_mono]. repeat split.
Qed.

Theorem step_state_mono s i : hrs_le s (step_state valid vals proposer mkblock cfg me s i).
Proof.
  unfold step_state. destruct (halted s); [apply hrs_refl|].
  eapply hrs_le_eq_l; [|apply handle_mono]. repeat split.
Qed.

End Mono.
