(** C03 — tie of the node model (Node.v) and of the block-validation model (Validate.v) to the Go
    SOURCE.  [Generated/C03Source.v] is produced on every check by /verif/go2coq from /repo's working
    tree: every guard, loop bound and integer expression of consensus/state.go (setProposal, addVote,
    addProposalBlockPart, enterNewRound, enterPropose, enterPrevote, doPrevote, enterPrevoteWait,
    enterPrecommit, enterPrecommitWait, enterCommit, tryFinalizeCommit, finalizeCommit,
    isProposalComplete, handleTimeout, updateToState, createProposalBlock, signAddVote),
    consensus/ticker.go (timeoutRoutine), consensus/types/height_vote_set.go (SetRound, AddVote,
    POLInfo), kai/state/cstate (validateBlock, MedianTime), types/time (WeightedMedian) and
    types (Block.ValidateBasic, Commit.ValidateBasic, MaxEvidencePerBlock), as Gallina over [Z] with
    explicit uint64/uint32/int64 wraps.

    Two kinds of statements:
    - for Validate.v (written over [Z] with the same machine operations) the MODEL FUNCTIONS are
      shown equal to the composition of the generated expressions, mostly by [reflexivity];
    - for Node.v (written over [N]) every entry guard is shown to be the generated expression on
      the [Z.of_N] images of exactly the operands the model compares, and the model function is
      rewritten as "if <generated guard> then ... else ..." where the function has that shape;
      guards in the middle of addVote/addProposalBlockPart are tied to the expression the model
      uses at that place.
    The [_atoms] lemmas pin WHAT is compared (the Go operands), not only how.  An edit of the Go
    source that flips a comparison, changes a constant, an operand or a loop bound changes the
    generated file and re-opens these obligations. *)
From Coq Require Import List ZArith NArith Bool Lia String.
From Kardia Require Import Base.Int64 Base.GoSem.
From Kardia Require Import Generated.C03Source.
From Kardia Require C02.Model.
From Kardia Require Import C03.Node C03.Validate.
Import ListNotations.
Local Open Scope N_scope.

Definition zn (n : N) : Z := Z.of_N n.
Definition zstep (s : step_t) : Z := Z.of_N (step_num s).

(** case analysis on every comparison of the goal, then linear arithmetic *)
Ltac nz_cases :=
  unfold zn, zstep, go_neqb in *;
  repeat match goal with
         | |- context [N.eqb ?a ?b] => destruct (N.eqb_spec a b)
         | |- context [N.ltb ?a ?b] => destruct (N.ltb_spec a b)
         | |- context [N.leb ?a ?b] => destruct (N.leb_spec a b)
         end;
  rewrite ?Z.gtb_ltb, ?Z.geb_leb;
  repeat match goal with
         | |- context [Z.eqb ?a ?b] => destruct (Z.eqb_spec a b)
         | |- context [Z.ltb ?a ?b] => destruct (Z.ltb_spec a b)
         | |- context [Z.leb ?a ?b] => destruct (Z.leb_spec a b)
         end;
  cbn [negb andb orb]; try reflexivity; try lia.

Lemma step_le_num a b : step_le a b = (step_num a <=? step_num b).
Proof. reflexivity. Qed.

Lemma to_nat_eqb0 x : Nat.eqb (N.to_nat x) 0 = (x =? 0).
Proof.
  destruct x as [|p]; [reflexivity|]. cbn [N.to_nat N.eqb].
  destruct (Pos2Nat.is_succ p) as [k Hk]. rewrite Hk. reflexivity.
Qed.

(* ================================================================== *)
(** * consensus/state.go: the entry guards of the step functions *)

Section NodeTie.
Variable valid : N -> block -> bool.
Variable vals : N -> list Z.
Variable proposer : N -> N -> N.
Variable mkblock : N -> N -> option block.
Variable cfg : config.
Variable me : option N.

(** enterNewRound: (cs.Height != height) || (round < cs.Round) || (cs.Round == round) && (cs.Step != NewHeight) *)
Lemma src_enter_new_round_guard (s : nstate) h r :
  consensus__ConsensusState_enterNewRound__if_cs_Height_ne_height_or_round_lt_cs_Round_or_cs_Round_eq_roun_2354a6d9
    (zn (height s)) (zn h) (zn r) (zn (round s)) (zstep (rstep s))
  = negb (height s =? h) || (r <? round s) || ((round s =? r) && negb (step_eqb (rstep s) SNewHeight)).
Proof.
  unfold consensus__ConsensusState_enterNewRound__if_cs_Height_ne_height_or_round_lt_cs_Round_or_cs_Round_eq_roun_2354a6d9, step_eqb.
  change (step_num SNewHeight) with 1. nz_cases.
Qed.
Lemma src_enter_new_round_atoms :
  consensus__ConsensusState_enterNewRound__if_cs_Height_ne_height_or_round_lt_cs_Round_or_cs_Round_eq_roun_2354a6d9_atoms
  = ["cs.Height : uint64"; "height : uint64"; "round : uint32"; "cs.Round : uint32";
     "cs.Step : github.com/kardiachain/go-kardia/consensus/types.RoundStepType"]%string.
Proof. reflexivity. Qed.

(** enterPropose / enterPrevote / enterPrevoteWait / enterPrecommit:
    (cs.Height != height) || (round < cs.Round) || (cs.Round == round && <Step> <= cs.Step) *)
Lemma src_enter_propose_guard (s : nstate) h r :
  consensus__ConsensusState_enterPropose__if_cs_Height_ne_height_or_round_lt_cs_Round_or_cs_Round_eq_roun_2d56b608
    (zn (height s)) (zn h) (zn r) (zn (round s)) (zstep (rstep s))
  = negb (height s =? h) || (r <? round s) || ((round s =? r) && step_le SPropose (rstep s)).
Proof.
  unfold consensus__ConsensusState_enterPropose__if_cs_Height_ne_height_or_round_lt_cs_Round_or_cs_Round_eq_roun_2d56b608.
  rewrite step_le_num. change (step_num SPropose) with 3. nz_cases.
Qed.
Lemma src_enter_prevote_guard (s : nstate) h r :
  consensus__ConsensusState_enterPrevote__if_cs_Height_ne_height_or_round_lt_cs_Round_or_cs_Round_eq_roun_89292bfb
    (zn (height s)) (zn h) (zn r) (zn (round s)) (zstep (rstep s))
  = negb (height s =? h) || (r <? round s) || ((round s =? r) && step_le SPrevote (rstep s)).
Proof.
  unfold consensus__ConsensusState_enterPrevote__if_cs_Height_ne_height_or_round_lt_cs_Round_or_cs_Round_eq_roun_89292bfb.
  rewrite step_le_num. change (step_num SPrevote) with 4. nz_cases.
Qed.
Lemma src_enter_prevote_wait_guard (s : nstate) h r :
  consensus__ConsensusState_enterPrevoteWait__if_cs_Height_ne_height_or_round_lt_cs_Round_or_cs_Round_eq_roun_e2ee6aba
    (zn (height s)) (zn h) (zn r) (zn (round s)) (zstep (rstep s))
  = negb (height s =? h) || (r <? round s) || ((round s =? r) && step_le SPrevoteWait (rstep s)).
Proof.
  unfold consensus__ConsensusState_enterPrevoteWait__if_cs_Height_ne_height_or_round_lt_cs_Round_or_cs_Round_eq_roun_e2ee6aba.
  rewrite step_le_num. change (step_num SPrevoteWait) with 5. nz_cases.
Qed.
Lemma src_enter_precommit_guard (s : nstate) h r :
  consensus__ConsensusState_enterPrecommit__if_cs_Height_ne_height_or_round_lt_cs_Round_or_cs_Round_eq_roun_175a6e72
    (zn (height s)) (zn h) (zn r) (zn (round s)) (zstep (rstep s))
  = negb (height s =? h) || (r <? round s) || ((round s =? r) && step_le SPrecommit (rstep s)).
Proof.
  unfold consensus__ConsensusState_enterPrecommit__if_cs_Height_ne_height_or_round_lt_cs_Round_or_cs_Round_eq_roun_175a6e72.
  rewrite step_le_num. change (step_num SPrecommit) with 6. nz_cases.
Qed.
Lemma src_enter_step_atoms :
  consensus__ConsensusState_enterPropose__if_cs_Height_ne_height_or_round_lt_cs_Round_or_cs_Round_eq_roun_2d56b608_atoms
  = ["cs.Height : uint64"; "height : uint64"; "round : uint32"; "cs.Round : uint32";
     "cs.Step : github.com/kardiachain/go-kardia/consensus/types.RoundStepType"]%string
  /\ consensus__ConsensusState_enterPrevote__if_cs_Height_ne_height_or_round_lt_cs_Round_or_cs_Round_eq_roun_89292bfb_atoms
  = ["cs.Height : uint64"; "height : uint64"; "round : uint32"; "cs.Round : uint32";
     "cs.Step : github.com/kardiachain/go-kardia/consensus/types.RoundStepType"]%string
  /\ consensus__ConsensusState_enterPrevoteWait__if_cs_Height_ne_height_or_round_lt_cs_Round_or_cs_Round_eq_roun_e2ee6aba_atoms
  = ["cs.Height : uint64"; "height : uint64"; "round : uint32"; "cs.Round : uint32";
     "cs.Step : github.com/kardiachain/go-kardia/consensus/types.RoundStepType"]%string
  /\ consensus__ConsensusState_enterPrecommit__if_cs_Height_ne_height_or_round_lt_cs_Round_or_cs_Round_eq_roun_175a6e72_atoms
  = ["cs.Height : uint64"; "height : uint64"; "round : uint32"; "cs.Round : uint32";
     "cs.Step : github.com/kardiachain/go-kardia/consensus/types.RoundStepType"]%string.
Proof. repeat split; reflexivity. Qed.

(** the model functions ARE "if <source guard> then unchanged else ..." *)
Lemma src_enter_prevote h r s :
  enter_prevote valid me h r s
  = if consensus__ConsensusState_enterPrevote__if_cs_Height_ne_height_or_round_lt_cs_Round_or_cs_Round_eq_roun_89292bfb
         (zn (height s)) (zn h) (zn r) (zn (round s)) (zstep (rstep s))
    then s else set_rstep SPrevote (set_round r (do_prevote valid me s)).
Proof. rewrite src_enter_prevote_guard. reflexivity. Qed.

Lemma src_enter_prevote_wait h r s :
  enter_prevote_wait vals h r s
  = if consensus__ConsensusState_enterPrevoteWait__if_cs_Height_ne_height_or_round_lt_cs_Round_or_cs_Round_eq_roun_e2ee6aba
         (zn (height s)) (zn h) (zn r) (zn (round s)) (zstep (rstep s))
    then s
    else if consensus__ConsensusState_enterPrevoteWait__if_not_cs_Votes_Prevotes_round__HasTwoThirdsAny
              (any_of (pw vals s) (get_vs s r Prevote))
         then panic s else set_rstep SPrevoteWait (set_round r (sched h r SPrevoteWait s)).
Proof. rewrite src_enter_prevote_wait_guard. reflexivity. Qed.

(** enterPrecommit: the entry guard, then "no polka: precommit nil", then the POLInfo sanity check
    polRound < round *)
Lemma src_polround_guard pol r :
  consensus__ConsensusState_enterPrecommit__if_polRound_lt_round (zn pol) (zn r) = (pol <? r).
Proof. unfold consensus__ConsensusState_enterPrecommit__if_polRound_lt_round. nz_cases. Qed.
Lemma src_polround_atoms :
  consensus__ConsensusState_enterPrecommit__if_polRound_lt_round_atoms = ["polRound : uint32"; "round : uint32"]%string.
Proof. reflexivity. Qed.

Lemma src_enter_precommit h r s :
  enter_precommit valid me h r s
  = if consensus__ConsensusState_enterPrecommit__if_cs_Height_ne_height_or_round_lt_cs_Round_or_cs_Round_eq_roun_175a6e72
         (zn (height s)) (zn h) (zn r) (zn (round s)) (zstep (rstep s))
    then s
    else
      let done := fun s' => set_rstep SPrecommit (set_round r s') in
      match maj_of (get_vs s r Prevote) with
      | None => done (sign_vote me Precommit bid_nil s)
      | Some b =>
        if consensus__ConsensusState_enterPrecommit__if_polRound_lt_round (zn (pol_info s)) (zn r) then panic s
        else if consensus__ConsensusState_enterPrecommit__if_blockID_IsZero (bid_is_zero b) then
          done (sign_vote me Precommit bid_nil (match locked s with None => s | Some _ => unlock s end))
        else if consensus__ConsensusState_enterPrecommit__if_cs_LockedBlock_HashesTo_blockID_Hash (hashes_to (locked s) (bh b)) then
          done (sign_vote me Precommit b (set_locked_round r s))
        else if consensus__ConsensusState_enterPrecommit__if_cs_ProposalBlock_HashesTo_blockID_Hash (hashes_to (pblock s) (bh b)) then
          match pblock s with
          | None => s
          | Some blk =>
            if negb (valid (height s) blk) then panic s
            else done (sign_vote me Precommit b
                         (set_locked_parts (pparts s) (set_locked (pblock s) (set_locked_round r s))))
          end
        else
          let s1 := unlock s in
          let s2 := if consensus__ConsensusState_enterPrecommit__if_not_cs_ProposalBlockParts_HasHeader_blockID_PartsHeader
                         (has_header (pparts s1) (bp b))
                    then new_pparts (bp b) (set_pblock None s1) else s1 in
          done (sign_vote me Precommit bid_nil s2)
      end.
Proof.
  rewrite src_enter_precommit_guard. unfold enter_precommit.
  destruct (negb (height s =? h) || (r <? round s) || ((round s =? r) && step_le SPrecommit (rstep s))); [reflexivity|].
  destruct (maj_of (get_vs s r Prevote)); [|reflexivity].
  rewrite src_polround_guard. reflexivity.
Qed.
(** the lock is taken at the round being entered, and released to 0 *)
Lemma src_lock_round_values r :
  consensus__ConsensusState_enterPrecommit__put_cs_LockedRound = 0%Z
  /\ consensus__ConsensusState_enterPrecommit__put_cs_LockedRound_2 (zn r) = zn r
  /\ consensus__ConsensusState_enterPrecommit__put_cs_LockedRound_3 (zn r) = zn r
  /\ consensus__ConsensusState_enterPrecommit__put_cs_LockedRound_4 = 0%Z
  /\ consensus__ConsensusState_doPrevote__put_cs_LockedRound = 0%Z
  /\ consensus__ConsensusState_addVote__put_cs_LockedRound = 0%Z
  /\ consensus__ConsensusState_enterPrecommit__put_cs_LockedRound_2_atoms = ["round : uint32"]%string
  /\ consensus__ConsensusState_enterPrecommit__put_cs_LockedRound_3_atoms = ["round : uint32"]%string.
Proof. repeat split; reflexivity. Qed.

(** enterPrecommitWait: (cs.Height != height) || (round != cs.Round) || (cs.Round == round && cs.TriggeredTimeoutPrecommit) *)
Lemma src_enter_precommit_wait_guard (s : nstate) h r :
  consensus__ConsensusState_enterPrecommitWait__if_cs_Height_ne_height_or_round_ne_cs_Round_or_cs_Round_eq_roun_5359bacc
    (zn (height s)) (zn h) (zn r) (zn (round s)) (tt_precommit s)
  = negb (height s =? h) || negb (r =? round s) || ((round s =? r) && tt_precommit s).
Proof.
  unfold consensus__ConsensusState_enterPrecommitWait__if_cs_Height_ne_height_or_round_ne_cs_Round_or_cs_Round_eq_roun_5359bacc.
  destruct (tt_precommit s); nz_cases.
Qed.
Lemma src_enter_precommit_wait h r s :
  enter_precommit_wait vals h r s
  = if consensus__ConsensusState_enterPrecommitWait__if_cs_Height_ne_height_or_round_ne_cs_Round_or_cs_Round_eq_roun_5359bacc
         (zn (height s)) (zn h) (zn r) (zn (round s)) (tt_precommit s)
    then s
    else if consensus__ConsensusState_enterPrecommitWait__if_not_cs_Votes_Precommits_round__HasTwoThirdsAny
              (any_of (pw vals s) (get_vs s r Precommit))
         then panic s else set_tt_precommit true (sched h r SPrecommitWait s).
Proof. rewrite src_enter_precommit_wait_guard. reflexivity. Qed.

(** enterCommit: (cs.Height != height) || Commit <= cs.Step *)
Lemma src_enter_commit_guard (s : nstate) h :
  consensus__ConsensusState_enterCommit__if_cs_Height_ne_height_or_cstypes_RoundStepCommit_le_cs_Step
    (zn (height s)) (zn h) (zstep (rstep s))
  = negb (height s =? h) || step_le SCommit (rstep s).
Proof.
  unfold consensus__ConsensusState_enterCommit__if_cs_Height_ne_height_or_cstypes_RoundStepCommit_le_cs_Step.
  rewrite step_le_num. change (step_num SCommit) with 8. nz_cases.
Qed.
Lemma src_enter_commit h cr s :
  enter_commit valid h cr s
  = if consensus__ConsensusState_enterCommit__if_cs_Height_ne_height_or_cstypes_RoundStepCommit_le_cs_Step
         (zn (height s)) (zn h) (zstep (rstep s))
    then s
    else match maj_of (get_vs s cr Precommit) with
         | None => panic s
         | Some b =>
           let s1 := if consensus__ConsensusState_enterCommit__if_cs_LockedBlock_HashesTo_blockID_Hash (hashes_to (locked s) (bh b))
                     then set_pparts (locked_parts s) (set_pblock (locked s) s) else s in
           let s2 := if consensus__ConsensusState_enterCommit__if_not_cs_ProposalBlock_HashesTo_blockID_Hash (hashes_to (pblock s1) (bh b))
                        && consensus__ConsensusState_enterCommit__if_not_cs_ProposalBlockParts_HasHeader_blockID_PartsHeader (has_header (pparts s1) (bp b))
                     then new_pparts (bp b) (set_pblock None s1) else s1 in
           try_finalize_commit valid h (set_commit_round cr (set_rstep SCommit s2))
         end.
Proof. rewrite src_enter_commit_guard. reflexivity. Qed.

(** tryFinalizeCommit / finalizeCommit *)
Lemma src_try_finalize_commit h s :
  try_finalize_commit valid h s
  = if consensus__ConsensusState_tryFinalizeCommit__if_cs_Height_ne_height (zn (height s)) (zn h) then panic s
    else match maj_of (get_vs s (commit_round s) Precommit) with
         | None => s
         | Some b =>
           if consensus__ConsensusState_tryFinalizeCommit__if_not_ok_or_blockID_IsZero true (bid_is_zero b) then s
           else if consensus__ConsensusState_tryFinalizeCommit__if_not_cs_ProposalBlock_HashesTo_blockID_Hash (hashes_to (pblock s) (bh b)) then s
           else finalize_commit valid h s
         end.
Proof.
  unfold try_finalize_commit, consensus__ConsensusState_tryFinalizeCommit__if_cs_Height_ne_height.
  replace (go_neqb (zn (height s)) (zn h)) with (negb (height s =? h)) by nz_cases.
  reflexivity.
Qed.
Lemma src_finalize_commit_guard (s : nstate) h :
  consensus__ConsensusState_finalizeCommit__if_cs_Height_ne_height_or_cs_Step_ne_cstypes_RoundStepCommit
    (zn (height s)) (zn h) (zstep (rstep s))
  = negb (height s =? h) || negb (step_eqb (rstep s) SCommit).
Proof.
  unfold consensus__ConsensusState_finalizeCommit__if_cs_Height_ne_height_or_cs_Step_ne_cstypes_RoundStepCommit, step_eqb.
  change (step_num SCommit) with 8. nz_cases.
Qed.
Lemma src_finalize_commit h s :
  finalize_commit valid h s
  = if consensus__ConsensusState_finalizeCommit__if_cs_Height_ne_height_or_cs_Step_ne_cstypes_RoundStepCommit
         (zn (height s)) (zn h) (zstep (rstep s))
    then s
    else match maj_of (get_vs s (commit_round s) Precommit) with
         | None => panic s
         | Some b =>
           if consensus__ConsensusState_finalizeCommit__if_not_blockParts_HasHeader_blockID_PartsHeader (has_header (pparts s) (bp b)) then panic s
           else if consensus__ConsensusState_finalizeCommit__if_not_block_HashesTo_blockID_Hash (hashes_to (pblock s) (bh b)) then panic s
           else match pblock s with
                | None => panic s
                | Some blk =>
                  if negb (valid (height s) blk) then panic s
                  else if negb (parts_complete s (pparts s)) then panic s
                  else (emit (Commit (height s) blk (commit_round s)) ;; update_to_state ;;
                        (fun s' => sched (height s') 1 SNewHeight s')) s
                end
         end.
Proof. rewrite src_finalize_commit_guard. reflexivity. Qed.

(** isProposalComplete: POLRound < 1 means "no POL round" *)
Lemma src_is_proposal_complete s :
  is_proposal_complete s
  = match prop s, pblock s with
    | Some p, Some _ =>
      if consensus__ConsensusState_isProposalComplete__if_cs_Proposal_POLRound_lt_1 (zn (p_pol p)) then true
      else match maj_of (get_vs s (p_pol p) Prevote) with Some _ => true | None => false end
    | _, _ => false
    end.
Proof.
  unfold is_proposal_complete. destruct (prop s) as [p|]; [|reflexivity]. destruct (pblock s); [|reflexivity].
  replace (consensus__ConsensusState_isProposalComplete__if_cs_Proposal_POLRound_lt_1 (zn (p_pol p))) with (p_pol p <? 1); [reflexivity|].
  unfold consensus__ConsensusState_isProposalComplete__if_cs_Proposal_POLRound_lt_1. nz_cases.
Qed.

(** handleTimeout: (ti.Height != rs.Height) || (ti.Round < rs.Round) || (ti.Round == rs.Round && ti.Step < rs.Step) *)
Lemma src_handle_timeout_guard (s : nstate) h r st :
  consensus__ConsensusState_handleTimeout__if_ti_Height_ne_rs_Height_or_ti_Round_lt_rs_Round_or_ti_Round_e_deeb9baa
    (zn h) (zn (height s)) (zn r) (zn (round s)) (zstep st) (zstep (rstep s))
  = negb (h =? height s) || (r <? round s) || ((r =? round s) && step_lt st (rstep s)).
Proof.
  unfold consensus__ConsensusState_handleTimeout__if_ti_Height_ne_rs_Height_or_ti_Round_lt_rs_Round_or_ti_Round_e_deeb9baa, step_lt.
  nz_cases.
Qed.
Lemma src_handle_timeout_atoms :
  consensus__ConsensusState_handleTimeout__if_ti_Height_ne_rs_Height_or_ti_Round_lt_rs_Round_or_ti_Round_e_deeb9baa_atoms
  = ["ti.Height : uint64"; "rs.Height : uint64"; "ti.Round : uint32"; "rs.Round : uint32";
     "ti.Step : github.com/kardiachain/go-kardia/consensus/types.RoundStepType";
     "rs.Step : github.com/kardiachain/go-kardia/consensus/types.RoundStepType"]%string.
Proof. reflexivity. Qed.

(** setProposal: height/round must be the node's; the POLRound check as written (dead: it can
    never be true, see C03_polround_check_is_dead) *)
Lemma src_proposal_hr_guard (s : nstate) p :
  consensus__ConsensusState_setProposal__if_proposal_Height_ne_cs_Height_or_proposal_Round_ne_cs_Round
    (zn (p_height p)) (zn (height s)) (zn (p_round p)) (zn (round s))
  = negb (p_height p =? height s) || negb (p_round p =? round s).
Proof.
  unfold consensus__ConsensusState_setProposal__if_proposal_Height_ne_cs_Height_or_proposal_Round_ne_cs_Round. nz_cases.
Qed.
Lemma src_proposal_pol_guard p :
  consensus__ConsensusState_setProposal__if_proposal_POLRound_lt_1_and_proposal_POLRound_gt_0_or_proposa_457117ef
    (zn (p_pol p)) (zn (p_round p))
  = (p_pol p <? 1) && ((0 <? p_pol p) || (p_round p <? p_pol p)).
Proof.
  unfold consensus__ConsensusState_setProposal__if_proposal_POLRound_lt_1_and_proposal_POLRound_gt_0_or_proposa_457117ef. nz_cases.
Qed.
Lemma src_proposal_atoms :
  consensus__ConsensusState_setProposal__if_proposal_Height_ne_cs_Height_or_proposal_Round_ne_cs_Round_atoms
  = ["proposal.Height : uint64"; "cs.Height : uint64"; "proposal.Round : uint32"; "cs.Round : uint32"]%string
  /\ consensus__ConsensusState_setProposal__if_proposal_POLRound_lt_1_and_proposal_POLRound_gt_0_or_proposa_457117ef_atoms
  = ["proposal.POLRound : uint32"; "proposal.Round : uint32"]%string.
Proof. split; reflexivity. Qed.
Lemma src_recv_proposal p s :
  recv_proposal proposer p s
  = if consensus__ConsensusState_setProposal__if_cs_Proposal_ne_nil (match prop s with Some _ => true | None => false end) then s
    else if consensus__ConsensusState_setProposal__if_proposal_Height_ne_cs_Height_or_proposal_Round_ne_cs_Round
              (zn (p_height p)) (zn (height s)) (zn (p_round p)) (zn (round s)) then s
    else if consensus__ConsensusState_setProposal__if_proposal_POLRound_lt_1_and_proposal_POLRound_gt_0_or_proposa_457117ef
              (zn (p_pol p)) (zn (p_round p)) then s
    else match p_signer p with
         | None => s
         | Some k =>
           if negb (k =? proposer (height s) (prop_round s)) then s
           else let s1 := set_prop (Some p) s in
                match pparts s1 with
                | None => new_pparts (bp (p_bid p)) s1
                | Some _ => s1
                end
         end.
Proof.
  rewrite src_proposal_hr_guard, src_proposal_pol_guard. unfold recv_proposal.
  destruct (prop s); reflexivity.
Qed.

(** addProposalBlockPart *)
Lemma src_add_block_height_guard (s : nstate) h :
  consensus__ConsensusState_addProposalBlockPart__if_cs_Height_ne_height (zn (height s)) (zn h) = negb (height s =? h).
Proof. unfold consensus__ConsensusState_addProposalBlockPart__if_cs_Height_ne_height. nz_cases. Qed.
(** "Update Valid* if we can": hasTwoThirds && !blockID.IsZero() && (cs.ValidRound < cs.Round), then
    ProposalBlock.HashesTo — the expression add_block uses *)
Lemma src_add_block_valid_guard (s1 : nstate) x :
  consensus__ConsensusState_addProposalBlockPart__if_hasTwoThirds_and_not_blockID_IsZero_and_cs_ValidRound_lt_cs_Round
    true (bid_is_zero x) (zn (valid_round s1)) (zn (round s1))
  && consensus__ConsensusState_addProposalBlockPart__if_cs_ProposalBlock_HashesTo_blockID_Hash (hashes_to (pblock s1) (bh x))
  = negb (bid_is_zero x) && (valid_round s1 <? round s1) && hashes_to (pblock s1) (bh x).
Proof.
  unfold consensus__ConsensusState_addProposalBlockPart__if_hasTwoThirds_and_not_blockID_IsZero_and_cs_ValidRound_lt_cs_Round,
    consensus__ConsensusState_addProposalBlockPart__if_cs_ProposalBlock_HashesTo_blockID_Hash.
  destruct (bid_is_zero x), (hashes_to (pblock s1) (bh x)); nz_cases.
Qed.
Lemma src_add_block_step_guards (s2 : nstate) :
  consensus__ConsensusState_addProposalBlockPart__if_cs_Step_le_cstypes_RoundStepPropose_and_cs_isProposalComplete
    (zstep (rstep s2)) (is_proposal_complete s2)
  = step_le (rstep s2) SPropose && is_proposal_complete s2
  /\ consensus__ConsensusState_addProposalBlockPart__if_cs_Step_eq_cstypes_RoundStepCommit (zstep (rstep s2))
  = step_eqb (rstep s2) SCommit.
Proof.
  unfold consensus__ConsensusState_addProposalBlockPart__if_cs_Step_le_cstypes_RoundStepPropose_and_cs_isProposalComplete,
    consensus__ConsensusState_addProposalBlockPart__if_cs_Step_eq_cstypes_RoundStepCommit, step_eqb.
  rewrite step_le_num. change (step_num SPropose) with 3. change (step_num SCommit) with 8.
  split; [destruct (is_proposal_complete s2)|]; nz_cases.
Qed.
Lemma src_add_block_atoms :
  consensus__ConsensusState_addProposalBlockPart__if_hasTwoThirds_and_not_blockID_IsZero_and_cs_ValidRound_lt_cs_Round_atoms
  = ["hasTwoThirds : bool"; "blockID.IsZero() : bool"; "cs.ValidRound : uint32"; "cs.Round : uint32"]%string
  /\ consensus__ConsensusState_addProposalBlockPart__put_cs_ValidRound_atoms = ["cs.Round : uint32"]%string.
Proof. split; reflexivity. Qed.

(** addVote: guards in the order of the code, each against the expression add_vote uses there *)
Lemma src_add_vote_last_commit_guard (s : nstate) v :
  (zn (v_height v) < 18446744073709551615)%Z ->
  consensus__ConsensusState_addVote__if_vote_Height_plus_1_eq_cs_Height_and_vote_Type_eq_kproto_PrecommitType
    (zn (v_height v)) (zn (height s)) (match v_type v with Prevote => 1 | Precommit => 2 end)%Z
  = (v_height v + 1 =? height s) && vtype_eqb (v_type v) Precommit.
Proof.
  intros Hr.
  unfold consensus__ConsensusState_addVote__if_vote_Height_plus_1_eq_cs_Height_and_vote_Type_eq_kproto_PrecommitType, go_add.
  rewrite wrap_id by (unfold in_range, zn in *; lia).
  destruct (v_type v); cbn [vtype_eqb]; nz_cases.
Qed.
Lemma src_add_vote_step_guards (s : nstate) :
  consensus__ConsensusState_addVote__if_cs_Step_ne_cstypes_RoundStepNewHeight (zstep (rstep s)) = negb (step_eqb (rstep s) SNewHeight)
  /\ consensus__ConsensusState_addVote__if_cs_Step_eq_cstypes_RoundStepCommit (zstep (rstep s)) = step_eqb (rstep s) SCommit.
Proof.
  unfold consensus__ConsensusState_addVote__if_cs_Step_ne_cstypes_RoundStepNewHeight,
    consensus__ConsensusState_addVote__if_cs_Step_eq_cstypes_RoundStepCommit, step_eqb.
  change (step_num SNewHeight) with 1. change (step_num SCommit) with 8. split; nz_cases.
Qed.
Lemma src_add_vote_height_guard (s : nstate) v :
  consensus__ConsensusState_addVote__if_vote_Height_ne_cs_Height (zn (v_height v)) (zn (height s)) = negb (v_height v =? height s).
Proof. unfold consensus__ConsensusState_addVote__if_vote_Height_ne_cs_Height. nz_cases. Qed.
(** "Unlock if cs.LockedRound < vote.Round <= cs.Round" and the polka is not for the locked block *)
Lemma src_add_vote_unlock_guard (s1 : nstate) v b :
  consensus__ConsensusState_addVote__if_cs_LockedBlock_ne_nil_and_cs_LockedRound_lt_vote_Round_and_v_a39f474f
    (match locked s1 with Some _ => true | None => false end)
    (zn (locked_round s1)) (zn (v_round v)) (zn (round s1)) (hashes_to (locked s1) (bh b))
  = match locked s1 with
    | Some _ => (locked_round s1 <? v_round v) && (v_round v <=? round s1) && negb (hashes_to (locked s1) (bh b))
    | None => false
    end.
Proof.
  unfold consensus__ConsensusState_addVote__if_cs_LockedBlock_ne_nil_and_cs_LockedRound_lt_vote_Round_and_v_a39f474f.
  destruct (locked s1); [|reflexivity]. destruct (hashes_to (Some b0) (bh b)); nz_cases.
Qed.
Lemma src_add_vote_unlock_atoms :
  consensus__ConsensusState_addVote__if_cs_LockedBlock_ne_nil_and_cs_LockedRound_lt_vote_Round_and_v_a39f474f_atoms
  = ["cs.LockedBlock != nil : bool"; "cs.LockedRound : uint32"; "vote.Round : uint32"; "cs.Round : uint32";
     "cs.LockedBlock.HashesTo(blockID.Hash) : bool"]%string.
Proof. reflexivity. Qed.
(** "Update Valid* if we can" *)
Lemma src_add_vote_valid_guard (sa : nstate) v b :
  consensus__ConsensusState_addVote__if_not_blockID_Hash_IsZero_and_cs_ValidRound_lt_vote_Round_and__3440e291
    (bh b =? 0) (zn (valid_round sa)) (zn (v_round v)) (zn (round sa))
  = negb (bh b =? 0) && (valid_round sa <? v_round v) && (v_round v =? round sa).
Proof.
  unfold consensus__ConsensusState_addVote__if_not_blockID_Hash_IsZero_and_cs_ValidRound_lt_vote_Round_and__3440e291.
  destruct (bh b =? 0); nz_cases.
Qed.
Lemma src_add_vote_valid_atoms :
  consensus__ConsensusState_addVote__if_not_blockID_Hash_IsZero_and_cs_ValidRound_lt_vote_Round_and__3440e291_atoms
  = ["blockID.Hash.IsZero() : bool"; "cs.ValidRound : uint32"; "vote.Round : uint32"; "cs.Round : uint32"]%string
  /\ consensus__ConsensusState_addVote__put_cs_ValidRound_atoms = ["vote.Round : uint32"]%string.
Proof. split; reflexivity. Qed.
(** the three cases after a prevote was added *)
Lemma src_add_vote_prevote_cases (s2 : nstate) v anyb :
  consensus__ConsensusState_addVote__case_cs_Round_lt_vote_Round_and_prevotes_HasTwoThirdsAny (zn (round s2)) (zn (v_round v)) anyb
  = (round s2 <? v_round v) && anyb
  /\ consensus__ConsensusState_addVote__case_cs_Round_eq_vote_Round_and_cstypes_RoundStepPrevote_le_cs_Step
       (zn (round s2)) (zn (v_round v)) (zstep (rstep s2))
  = (round s2 =? v_round v) && step_le SPrevote (rstep s2).
Proof.
  unfold consensus__ConsensusState_addVote__case_cs_Round_lt_vote_Round_and_prevotes_HasTwoThirdsAny,
    consensus__ConsensusState_addVote__case_cs_Round_eq_vote_Round_and_cstypes_RoundStepPrevote_le_cs_Step.
  rewrite step_le_num. change (step_num SPrevote) with 4. split; [destruct anyb|]; nz_cases.
Qed.
Lemma src_add_vote_pol_case p v :
  consensus__ConsensusState_addVote__case_cs_Proposal_ne_nil_and_1_le_cs_Proposal_POLRound_and_cs_Prop_37fde8e4
    true (zn (p_pol p)) (zn (v_round v))
  = (1 <=? p_pol p) && (p_pol p =? v_round v).
Proof.
  unfold consensus__ConsensusState_addVote__case_cs_Proposal_ne_nil_and_1_le_cs_Proposal_POLRound_and_cs_Prop_37fde8e4. nz_cases.
Qed.
Lemma src_add_vote_precommit_any (s1 : nstate) v anyb :
  consensus__ConsensusState_addVote__if_cs_Round_le_vote_Round_and_precommits_HasTwoThirdsAny (zn (round s1)) (zn (v_round v)) anyb
  = (round s1 <=? v_round v) && anyb.
Proof.
  unfold consensus__ConsensusState_addVote__if_cs_Round_le_vote_Round_and_precommits_HasTwoThirdsAny. destruct anyb; nz_cases.
Qed.
Lemma src_add_vote_case_atoms :
  consensus__ConsensusState_addVote__case_cs_Round_lt_vote_Round_and_prevotes_HasTwoThirdsAny_atoms
  = ["cs.Round : uint32"; "vote.Round : uint32"; "prevotes.HasTwoThirdsAny() : bool"]%string
  /\ consensus__ConsensusState_addVote__if_cs_Round_le_vote_Round_and_precommits_HasTwoThirdsAny_atoms
  = ["cs.Round : uint32"; "vote.Round : uint32"; "precommits.HasTwoThirdsAny() : bool"]%string.
Proof. split; reflexivity. Qed.

(** doPrevote's stale-lock scan: for r := cs.Round; r > cs.LockedRound; r-- — the body runs once
    for every round of (LockedRound, Round], i.e. [round - locked_round] times, downwards from Round *)
Lemma src_stale_scan_bound (s : nstate) r :
  consensus__ConsensusState_doPrevote__for_r_gt_cs_LockedRound (zn r) (zn (locked_round s))
  = negb (Nat.eqb (N.to_nat (r - locked_round s)) 0).
Proof.
  unfold consensus__ConsensusState_doPrevote__for_r_gt_cs_LockedRound. rewrite to_nat_eqb0. nz_cases.
Qed.
Lemma src_stale_scan_iter r :
  (1 <= r) -> (zn r < 4294967296)%Z ->
  consensus__ConsensusState_doPrevote__forinit_r (zn r) = zn r
  /\ consensus__ConsensusState_doPrevote__set_r_op (zn r) = zn (r - 1).
Proof.
  intros Hr Hu. unfold consensus__ConsensusState_doPrevote__forinit_r, consensus__ConsensusState_doPrevote__set_r_op, go_sub, zn in *.
  split; [reflexivity|]. rewrite wrap_id by (unfold in_range; lia). lia.
Qed.
Lemma src_stale_scan_atoms :
  consensus__ConsensusState_doPrevote__for_r_gt_cs_LockedRound_atoms = ["r : uint32"; "cs.LockedRound : uint32"]%string
  /\ consensus__ConsensusState_doPrevote__forinit_r_atoms = ["cs.Round : uint32"]%string
  /\ consensus__ConsensusState_doPrevote__if_ok_and_not_cs_LockedBlock_HashesTo_bid_Hash_atoms
     = ["ok : bool"; "cs.LockedBlock.HashesTo(bid.Hash) : bool"]%string.
Proof. repeat split; reflexivity. Qed.
Lemma src_stale_scan_step (s : nstate) r m :
  stale_scan s r (S m)
  = match maj_of (get_vs s r Prevote) with
    | Some b => if consensus__ConsensusState_doPrevote__if_ok_and_not_cs_LockedBlock_HashesTo_bid_Hash true (hashes_to (locked s) (bh b))
                then true else stale_scan s (r - 1) m
    | None => stale_scan s (r - 1) m
    end.
Proof. reflexivity. Qed.

(** updateToState: height := LastBlockHeight + 1; CommitRound > 0 selects cs.Votes.Precommits(CommitRound) *)
Lemma src_update_to_state_guard (s : nstate) :
  consensus__ConsensusState_updateToState__case_cs_CommitRound_gt_0_and_cs_Votes_ne_nil (zn (commit_round s)) true
  = (0 <? commit_round s).
Proof. unfold consensus__ConsensusState_updateToState__case_cs_CommitRound_gt_0_and_cs_Votes_ne_nil. nz_cases. Qed.
Lemma src_next_height (s : nstate) :
  (zn (height s) < 18446744073709551615)%Z ->
  consensus__ConsensusState_updateToState__set_height (zn (height s)) = zn (height s + 1).
Proof.
  intros H. unfold consensus__ConsensusState_updateToState__set_height, go_add. rewrite wrap_id by (unfold in_range, zn in *; lia).
  unfold zn. lia.
Qed.
Lemma src_reset_values :
  consensus__ConsensusState_updateToState__put_cs_LockedRound = 0%Z
  /\ consensus__ConsensusState_updateToState__put_cs_ValidRound = 0%Z
  /\ consensus__ConsensusState_updateToState__put_cs_CommitRound = 0%Z
  /\ consensus__ConsensusState_updateToState__put_cs_TriggeredTimeoutPrecommit = false.
Proof. repeat split; reflexivity. Qed.

(** enterNewRound: proposer rotation by round - cs.Round when cs.Round < round; round == 1 keeps the proposal *)
Lemma src_enter_new_round_inner (s : nstate) r :
  consensus__ConsensusState_enterNewRound__if_cs_Round_lt_round (zn (round s)) (zn r) = (round s <? r)
  /\ consensus__ConsensusState_enterNewRound__if_round_eq_1 (zn r) = (r =? 1)
  /\ consensus__ConsensusState_enterNewRound__set_waitForTxs (wait_for_txs cfg) (zn r) = wait_for_txs cfg && (r =? 1).
Proof.
  unfold consensus__ConsensusState_enterNewRound__if_cs_Round_lt_round, consensus__ConsensusState_enterNewRound__if_round_eq_1,
    consensus__ConsensusState_enterNewRound__set_waitForTxs.
  repeat split; try destruct (wait_for_txs cfg); nz_cases.
Qed.

(* ------------------------------------------------------------------ *)
(** * consensus/types/height_vote_set.go *)

(** SetRound: newRound := hvs.round - 1; panic iff (hvs.round != 1) && (round < newRound) *)
Lemma src_hvs_set_round_guard (s : nstate) nr :
  (1 <= hvs_round s) -> (zn (hvs_round s) < 4294967296)%Z ->
  consensus_types__HeightVoteSet_SetRound__if_hvs_round_ne_1_and_round_lt_newRound
    (zn (hvs_round s)) (zn nr) (consensus_types__HeightVoteSet_SetRound__set_newRound (zn (hvs_round s)))
  = negb (hvs_round s =? 1) && (nr <? hvs_round s - 1).
Proof.
  intros H1 Hu.
  unfold consensus_types__HeightVoteSet_SetRound__if_hvs_round_ne_1_and_round_lt_newRound,
    consensus_types__HeightVoteSet_SetRound__set_newRound, go_sub.
  unfold zn in *. rewrite wrap_id by (unfold in_range; lia). nz_cases.
Qed.
Lemma src_hvs_set_round_atoms :
  consensus_types__HeightVoteSet_SetRound__if_hvs_round_ne_1_and_round_lt_newRound_atoms
  = ["hvs.round : uint32"; "round : uint32"; "newRound : uint32"]%string
  /\ consensus_types__HeightVoteSet_SetRound__set_newRound_atoms = ["hvs.round : uint32"]%string
  /\ consensus_types__HeightVoteSet_SetRound__forinit_r_atoms = ["newRound : uint32"]%string
  /\ consensus_types__HeightVoteSet_SetRound__for_r_le_round_atoms = ["r : uint32"; "round : uint32"]%string
  /\ consensus_types__HeightVoteSet_SetRound__put_hvs_round_atoms = ["round : uint32"]%string.
Proof. repeat split; reflexivity. Qed.
(** the loop "for r := newRound; r <= round; r++" runs nr + 1 - newRound times *)
Lemma src_hvs_set_round_loop lo nr :
  consensus_types__HeightVoteSet_SetRound__for_r_le_round (zn lo) (zn nr) = negb (Nat.eqb (N.to_nat (nr + 1 - lo)) 0).
Proof.
  unfold consensus_types__HeightVoteSet_SetRound__for_r_le_round. rewrite to_nat_eqb0. nz_cases.
Qed.
(** AddVote: a peer may open at most two rounds the node does not track *)
Lemma src_catchup_limit (rs : list N) :
  consensus_types__HeightVoteSet_AddVote__if_len_rndz_lt_2 (Z.of_nat (List.length rs)) = (List.length rs <? 2)%nat.
Proof.
  unfold consensus_types__HeightVoteSet_AddVote__if_len_rndz_lt_2.
  destruct (Z.ltb_spec (Z.of_nat (List.length rs)) 2); destruct (Nat.ltb_spec (List.length rs) 2); try reflexivity; lia.
Qed.
Lemma src_catchup_atoms : consensus_types__HeightVoteSet_AddVote__if_len_rndz_lt_2_atoms = ["len(rndz) : int"]%string.
Proof. reflexivity. Qed.
(** POLInfo scans from hvs.round down to 1 *)
Lemma src_pol_scan_bounds n :
  consensus_types__HeightVoteSet_POLInfo__for_r_ge_1 (Z.of_nat n) = negb (Nat.eqb n 0)
  /\ consensus_types__HeightVoteSet_POLInfo__forinit_r_atoms = ["hvs.round : uint32"]%string.
Proof.
  split; [|reflexivity]. unfold consensus_types__HeightVoteSet_POLInfo__for_r_ge_1. rewrite Z.geb_leb.
  destruct (Z.leb_spec 1 (Z.of_nat n)); destruct (Nat.eqb_spec n 0); cbn [negb]; try reflexivity; lia.
Qed.

(* ------------------------------------------------------------------ *)
(** * consensus/ticker.go: the monotone filter of timeoutRoutine is [tk_accepts] *)
Lemma src_tk_accepts lh lr ls nh nr ns :
  tk_accepts (lh, lr, ls) (nh, nr, ns)
  = if consensus__timeoutTicker_timeoutRoutine__if_newti_Height_lt_ti_Height (zn nh) (zn lh) then false
    else if consensus__timeoutTicker_timeoutRoutine__if_newti_Height_eq_ti_Height (zn nh) (zn lh) then
      if consensus__timeoutTicker_timeoutRoutine__if_newti_Round_lt_ti_Round (zn nr) (zn lr) then false
      else if consensus__timeoutTicker_timeoutRoutine__if_newti_Round_eq_ti_Round (zn nr) (zn lr) then
        negb (consensus__timeoutTicker_timeoutRoutine__if_ti_Step_gt_0_and_newti_Step_le_ti_Step (zstep ls) (zstep ns))
      else true
    else true.
Proof.
  unfold tk_accepts, consensus__timeoutTicker_timeoutRoutine__if_newti_Height_lt_ti_Height,
    consensus__timeoutTicker_timeoutRoutine__if_newti_Height_eq_ti_Height,
    consensus__timeoutTicker_timeoutRoutine__if_newti_Round_lt_ti_Round,
    consensus__timeoutTicker_timeoutRoutine__if_newti_Round_eq_ti_Round,
    consensus__timeoutTicker_timeoutRoutine__if_ti_Step_gt_0_and_newti_Step_le_ti_Step.
  nz_cases.
Qed.
Lemma src_tk_atoms :
  consensus__timeoutTicker_timeoutRoutine__if_ti_Step_gt_0_and_newti_Step_le_ti_Step_atoms
  = ["ti.Step : github.com/kardiachain/go-kardia/consensus/types.RoundStepType";
     "newti.Step : github.com/kardiachain/go-kardia/consensus/types.RoundStepType"]%string.
Proof. reflexivity. Qed.

End NodeTie.

(* ================================================================== *)
(** * kai/state/cstate: validateBlock, MedianTime; types/time: WeightedMedian; types: ValidateBasic *)

Local Open Scope Z_scope.
Import C02.Model.

(** validateBlock IS the sequence of the source's guards on the source's operands *)
Definition validate_block_src (st : chain) (b : vblock) : Validate.verr :=
  let h := vb_hdr b in
  if kai_state_cstate__validateBlock__if_err_ne_nil (negb (block_validate_basic b)) then VBasic
  else if kai_state_cstate__validateBlock__if_block_Height_ne_state_LastBlockHeight_plus_1 (vh_height h) (ch_last_height st) then VHeight
  else if kai_state_cstate__validateBlock__if_state_LastBlockHeight_eq_0_and_block_Height_ne_state_InitialHeight
            (ch_last_height st) (vh_height h) (ch_initial st) then VHeight
  else if kai_state_cstate__validateBlock__if_state_LastBlockHeight_gt_0_and_block_Height_ne_state_LastBlo_85dde98c
            (ch_last_height st) (vh_height h) then VHeight
  else if kai_state_cstate__validateBlock__if_not_block_Header__LastBlockID_Equal_state_LastBlockID (bid_eqb (vh_last h) (ch_last_bid st)) then VLastID
  else if kai_state_cstate__validateBlock__if_not_block_AppHash__Equal_state_AppHash (N.eqb (vh_app h) (ch_app st)) then VApp
  else if kai_state_cstate__validateBlock__if_not_block_Header__ValidatorsHash_Equal_state_Validators_Hash (N.eqb (vh_vals h) (ch_vals_hash st)) then VVals
  else if kai_state_cstate__validateBlock__if_not_block_Header__NextValidatorsHash_Equal_state_NextValidators_Hash (N.eqb (vh_nextvals h) (ch_nextvals_hash st)) then VNextVals
  else match vb_lc b with
       | None => VNilCommit
       | Some c =>
         match
           (if kai_state_cstate__validateBlock__if_block_Height_eq_state_InitialHeight (vh_height h) (ch_initial st) then
              (if kai_state_cstate__validateBlock__if_len_block_LastCommit__Signatures_ne_0 (Z.of_nat (List.length (c_sigs c))) then VFirstCommit else VOk)
            else match verify_commit (ch_last_vals st) (ch_id st) (ch_last_bid st) (z_to_N (go_sub U64 (vh_height h) 1)) c with
                 | COk => VOk
                 | e => VCommit e
                 end)
         with
         | VOk =>
           match
             (if kai_state_cstate__validateBlock__case_block_Height_gt_state_InitialHeight (vh_height h) (ch_initial st) then
                if kai_state_cstate__validateBlock__if_not_block_Time__After_state_LastBlockTime (vh_time h >? ch_last_time st) then VTimeNotAfter
                else match median_time c (ch_last_vals st) with
                     | Some m => if kai_state_cstate__validateBlock__if_not_block_Time__Equal_medianTime (vh_time h =? m) then VTimeNotMedian else VOk
                     | None => VTimeNotMedian
                     end
              else if kai_state_cstate__validateBlock__case_block_Height_eq_state_InitialHeight (vh_height h) (ch_initial st) then
                if kai_state_cstate__validateBlock__if_not_block_Time__Equal_genesisTime (vh_time h =? ch_last_time st) then VTimeGenesis else VOk
              else VBelowInitial)
           with
           | VOk =>
             if kai_state_cstate__validateBlock__if_numEvidence_gt_maxNumEvidence (vb_nevid b) (ch_max_evid st) then VEvidenceCount
             else if kai_state_cstate__validateBlock__if_not_state_Validators_HasAddress_block_ProposerAddress (has_address (ch_vals st) (vh_proposer h)) then VProposer
             else if negb (vb_evid_ok b) then VEvidence
             else VOk
           | e => e
           end
         | e => e
         end
       end.

Lemma src_validate_block st b : validate_block st b = validate_block_src st b.
Proof. reflexivity. Qed.

Lemma src_validate_block_atoms :
  kai_state_cstate__validateBlock__if_block_Height_ne_state_LastBlockHeight_plus_1_atoms = ["block.Height() : uint64"; "state.LastBlockHeight : uint64"]%string
  /\ kai_state_cstate__validateBlock__if_state_LastBlockHeight_eq_0_and_block_Height_ne_state_InitialHeight_atoms
     = ["state.LastBlockHeight : uint64"; "block.Height() : uint64"; "state.InitialHeight : uint64"]%string
  /\ kai_state_cstate__validateBlock__if_not_block_Header__LastBlockID_Equal_state_LastBlockID_atoms = ["block.Header().LastBlockID.Equal(state.LastBlockID) : bool"]%string
  /\ kai_state_cstate__validateBlock__if_not_block_AppHash__Equal_state_AppHash_atoms = ["block.AppHash().Equal(state.AppHash) : bool"]%string
  /\ kai_state_cstate__validateBlock__if_not_block_Header__ValidatorsHash_Equal_state_Validators_Hash_atoms
     = ["block.Header().ValidatorsHash.Equal(state.Validators.Hash()) : bool"]%string
  /\ kai_state_cstate__validateBlock__if_not_block_Header__NextValidatorsHash_Equal_state_NextValidators_Hash_atoms
     = ["block.Header().NextValidatorsHash.Equal(state.NextValidators.Hash()) : bool"]%string
  /\ kai_state_cstate__validateBlock__if_block_Height_eq_state_InitialHeight_atoms = ["block.Height() : uint64"; "state.InitialHeight : uint64"]%string
  /\ kai_state_cstate__validateBlock__if_len_block_LastCommit__Signatures_ne_0_atoms = ["len(block.LastCommit().Signatures) : int"]%string
  /\ kai_state_cstate__validateBlock__case_block_Height_gt_state_InitialHeight_atoms = ["block.Height() : uint64"; "state.InitialHeight : uint64"]%string
  /\ kai_state_cstate__validateBlock__if_not_block_Time__After_state_LastBlockTime_atoms = ["block.Time().After(state.LastBlockTime) : bool"]%string
  /\ kai_state_cstate__validateBlock__if_not_block_Time__Equal_medianTime_atoms = ["block.Time().Equal(medianTime) : bool"]%string
  /\ kai_state_cstate__validateBlock__if_not_block_Time__Equal_genesisTime_atoms = ["block.Time().Equal(genesisTime) : bool"]%string
  /\ kai_state_cstate__validateBlock__if_numEvidence_gt_maxNumEvidence_atoms = ["numEvidence : int64"; "maxNumEvidence : int64"]%string
  /\ kai_state_cstate__validateBlock__if_not_state_Validators_HasAddress_block_ProposerAddress_atoms
     = ["state.Validators.HasAddress(block.ProposerAddress()) : bool"]%string.
Proof. repeat split; reflexivity. Qed.

(** Block.ValidateBasic: the last commit is required and checked from height 2 on; the header's
    LastCommitHash must be the commit's hash (zero without a commit) *)
Lemma src_block_validate_basic b :
  block_validate_basic b
  = (vb_wf b &&
     (if types__Block_ValidateBasic__if_b_header_Height_gt_1 (vh_height (vb_hdr b))
      then match vb_lc b with None => false | Some c => commit_validate_basic c end
      else true) &&
     vb_lch_ok b)%bool.
Proof. reflexivity. Qed.
Lemma src_lch_guards lc_nil lch_zero lch_eq :
  types__Block_ValidateBasic__if_b_lastCommit_eq_nil_and_not_b_header_LastCommitHash_IsZero lc_nil lch_zero = (lc_nil && negb lch_zero)%bool
  /\ types__Block_ValidateBasic__if_b_lastCommit_ne_nil_and_not_b_header_LastCommitHash_Equal_b__cf547c83 (negb lc_nil) lch_eq = (negb lc_nil && negb lch_eq)%bool
  /\ types__Block_ValidateBasic__if_b_lastCommit_ne_nil_and_not_b_header_LastCommitHash_Equal_b__cf547c83_atoms
     = ["b.lastCommit != nil : bool"; "b.header.LastCommitHash.Equal(b.lastCommit.Hash()) : bool"]%string.
Proof. repeat split; reflexivity. Qed.
(** Commit.ValidateBasic (C02/Model.v [commit_validate_basic]): checked from commit height 1 on *)
Lemma src_commit_validate_basic c :
  commit_validate_basic c
  = if types__Commit_ValidateBasic__if_commit_Height_ge_1 (Z.of_N (c_height c)) then
      (negb (types__Commit_ValidateBasic__if_commit_BlockID_IsZero (bid_is_zero (c_bid c)))
       && negb (types__Commit_ValidateBasic__if_len_commit_Signatures_eq_0 (Z.of_nat (List.length (c_sigs c))))
       && forallb cs_validate_basic (c_sigs c))%bool
    else true.
Proof.
  unfold commit_validate_basic, types__Commit_ValidateBasic__if_commit_Height_ge_1, types__Commit_ValidateBasic__if_commit_BlockID_IsZero,
    types__Commit_ValidateBasic__if_len_commit_Signatures_eq_0.
  destruct (c_height c) as [|p]; [reflexivity|].
  destruct p; destruct (c_sigs c); reflexivity.
Qed.

(** MedianTime / WeightedMedian: the running total, the halving, the comparison of the sort, the
    scan's test and its subtraction are the source's *)
Lemma src_median_entries_step vals cs r tot :
  median_entries vals (cs :: r) tot
  = if kai_state_cstate__MedianTime__if_commitSig_Absent (N.eqb (cs_flag cs) FLAG_ABSENT) then median_entries vals r tot
    else match power_of vals (cs_addr cs) with
         | None => median_entries vals r tot
         | Some p =>
           let '(l, t) := median_entries vals r (kai_state_cstate__MedianTime__set_totalVotingPower_op tot p) in
           ((Z.of_N (cs_time cs), p) :: l, t)
         end.
Proof. reflexivity. Qed.
Lemma src_weighted_median l total :
  weighted_median l total = wm_scan (wt_sort l) (types_time__WeightedMedian__set_median total).
Proof. reflexivity. Qed.
Lemma src_wm_scan_step t w r median :
  wm_scan ((t, w) :: r) median
  = if types_time__WeightedMedian__if_median_le_weightedTime_Weight median w then Some t
    else wm_scan r (types_time__WeightedMedian__set_median_op median w).
Proof. reflexivity. Qed.
Lemma src_wt_insert_step x y t :
  wt_insert x (y :: t)
  = if types_time__WeightedMedian__ret_weightedTimes_at_i__Time_UnixNano_lt_weightedTimes_at_j__Time_UnixNano (fst x) (fst y)
    then x :: y :: t else y :: wt_insert x t.
Proof. reflexivity. Qed.
Lemma src_median_atoms :
  kai_state_cstate__MedianTime__set_totalVotingPower_op_atoms = ["totalVotingPower : int64"; "votingPower : int64"]%string
  /\ types_time__WeightedMedian__set_median_atoms = ["totalVotingPower : int64"]%string
  /\ types_time__WeightedMedian__if_median_le_weightedTime_Weight_atoms = ["median : int64"; "weightedTime.Weight : int64"]%string
  /\ types_time__WeightedMedian__set_median_op_atoms = ["median : int64"; "weightedTime.Weight : int64"]%string
  /\ types_time__WeightedMedian__ret_weightedTimes_at_i__Time_UnixNano_lt_weightedTimes_at_j__Time_UnixNano_atoms
     = ["weightedTimes[i].Time.UnixNano() : int64"; "weightedTimes[j].Time.UnixNano() : int64"]%string.
Proof. repeat split; reflexivity. Qed.

(** MaxEvidencePerBlock(maxBytes) = maxBytes / 10 / 484 (the harness hands this number to the model) *)
Lemma src_max_evidence mb :
  types__MaxEvidencePerBlock__set_maxNum (types__MaxEvidencePerBlock__set_maxBytes mb)
  = go_quot I64 (go_quot I64 mb types__MaxEvidenceBytesDenominator) types__MaxEvidenceBytes.
Proof. reflexivity. Qed.

(* ================================================================== *)
(** * the whole tie as one statement (quoted by Properties.v) *)

Definition C03_source_tie_statement : Prop :=
  (* Validate.v: the model functions are the source expressions *)
  (forall st b, validate_block st b = validate_block_src st b)
  /\ (forall l total, weighted_median l total = wm_scan (wt_sort l) (types_time__WeightedMedian__set_median total))
  /\ (forall t w r median,
        wm_scan ((t, w) :: r) median
        = if types_time__WeightedMedian__if_median_le_weightedTime_Weight median w then Some t
          else wm_scan r (types_time__WeightedMedian__set_median_op median w))
  /\ (forall x y t,
        wt_insert x (y :: t)
        = if types_time__WeightedMedian__ret_weightedTimes_at_i__Time_UnixNano_lt_weightedTimes_at_j__Time_UnixNano (fst x) (fst y)
          then x :: y :: t else y :: wt_insert x t)
  /\ (forall c, commit_validate_basic c
        = if types__Commit_ValidateBasic__if_commit_Height_ge_1 (Z.of_N (c_height c)) then
            (negb (types__Commit_ValidateBasic__if_commit_BlockID_IsZero (bid_is_zero (c_bid c)))
             && negb (types__Commit_ValidateBasic__if_len_commit_Signatures_eq_0 (Z.of_nat (List.length (c_sigs c))))
             && forallb cs_validate_basic (c_sigs c))%bool
          else true)
  (* Node.v: the step functions are "if <source guard> ..." on the Z images of their operands *)
  /\ (forall valid me h r s,
        enter_prevote valid me h r s
        = if consensus__ConsensusState_enterPrevote__if_cs_Height_ne_height_or_round_lt_cs_Round_or_cs_Round_eq_roun_89292bfb
               (zn (height s)) (zn h) (zn r) (zn (round s)) (zstep (rstep s))
          then s else set_rstep SPrevote (set_round r (do_prevote valid me s)))
  /\ (forall (s : nstate) h r,
        consensus__ConsensusState_enterPrecommit__if_cs_Height_ne_height_or_round_lt_cs_Round_or_cs_Round_eq_roun_175a6e72
          (zn (height s)) (zn h) (zn r) (zn (round s)) (zstep (rstep s))
        = (negb (N.eqb (height s) h) || N.ltb r (round s) || (N.eqb (round s) r && step_le SPrecommit (rstep s)))%bool)
  /\ (forall pol r, consensus__ConsensusState_enterPrecommit__if_polRound_lt_round (zn pol) (zn r) = N.ltb pol r)
  /\ (forall (s : nstate) h r,
        consensus__ConsensusState_enterNewRound__if_cs_Height_ne_height_or_round_lt_cs_Round_or_cs_Round_eq_roun_2354a6d9
          (zn (height s)) (zn h) (zn r) (zn (round s)) (zstep (rstep s))
        = (negb (N.eqb (height s) h) || N.ltb r (round s) || (N.eqb (round s) r && negb (step_eqb (rstep s) SNewHeight)))%bool)
  /\ (forall (s : nstate) h r st,
        consensus__ConsensusState_handleTimeout__if_ti_Height_ne_rs_Height_or_ti_Round_lt_rs_Round_or_ti_Round_e_deeb9baa
          (zn h) (zn (height s)) (zn r) (zn (round s)) (zstep st) (zstep (rstep s))
        = (negb (N.eqb h (height s)) || N.ltb r (round s) || (N.eqb r (round s) && step_lt st (rstep s)))%bool)
  /\ (forall (s1 : nstate) (v : Node.vote) (b : Node.bid),
        consensus__ConsensusState_addVote__if_cs_LockedBlock_ne_nil_and_cs_LockedRound_lt_vote_Round_and_v_a39f474f
          (match locked s1 with Some _ => true | None => false end)
          (zn (locked_round s1)) (zn (Node.v_round v)) (zn (round s1)) (hashes_to (locked s1) (Node.bh b))
        = match locked s1 with
          | Some _ => (N.ltb (locked_round s1) (Node.v_round v) && N.leb (Node.v_round v) (round s1) && negb (hashes_to (locked s1) (Node.bh b)))%bool
          | None => false
          end)
  /\ (forall (s : nstate) r,
        consensus__ConsensusState_doPrevote__for_r_gt_cs_LockedRound (zn r) (zn (locked_round s))
        = negb (Nat.eqb (N.to_nat (r - locked_round s)) 0))
  /\ (forall rs : list N, consensus_types__HeightVoteSet_AddVote__if_len_rndz_lt_2 (Z.of_nat (List.length rs)) = Nat.ltb (List.length rs) 2)
  /\ (forall lh lr ls nh nr ns,
        tk_accepts (lh, lr, ls) (nh, nr, ns)
        = if consensus__timeoutTicker_timeoutRoutine__if_newti_Height_lt_ti_Height (zn nh) (zn lh) then false
          else if consensus__timeoutTicker_timeoutRoutine__if_newti_Height_eq_ti_Height (zn nh) (zn lh) then
            if consensus__timeoutTicker_timeoutRoutine__if_newti_Round_lt_ti_Round (zn nr) (zn lr) then false
            else if consensus__timeoutTicker_timeoutRoutine__if_newti_Round_eq_ti_Round (zn nr) (zn lr) then
              negb (consensus__timeoutTicker_timeoutRoutine__if_ti_Step_gt_0_and_newti_Step_le_ti_Step (zstep ls) (zstep ns))
            else true
          else true).

Lemma C03_source_tie_proof : C03_source_tie_statement.
Proof.
  unfold C03_source_tie_statement.
  split; [exact src_validate_block|].
  split; [exact src_weighted_median|].
  split; [exact src_wm_scan_step|].
  split; [exact src_wt_insert_step|].
  split; [exact src_commit_validate_basic|].
  split; [intros; apply src_enter_prevote|].
  split; [intros; apply src_enter_precommit_guard|].
  split; [exact src_polround_guard|].
  split; [intros; apply src_enter_new_round_guard|].
  split; [intros; apply src_handle_timeout_guard|].
  split; [intros; apply src_add_vote_unlock_guard|].
  split; [intros; apply src_stale_scan_bound|].
  split; [exact src_catchup_limit|].
  exact src_tk_accepts.
Qed.
