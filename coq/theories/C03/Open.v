(** C03 — statements written down in full but not proved.
    None at present: the six theorems of DESIGN.md (one_vote_per_step, precommit_needs_polka,
    lock_rule, round_monotone, commit_needs_quorum, votes_only_valid) are all proved; their
    statements are in Spec.v / Properties.v. *)
From Kardia Require Import C03.Node C03.Spec.
