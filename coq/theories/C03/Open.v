(** C03 — statements that are written down in full but NOT proved yet (no proof is claimed for
    them; they are exercised only by the correspondence runs and the harness's direct oracles).
    Vocabulary: Spec.v. *)
From Coq Require Import List ZArith NArith Bool.
From Kardia Require Import C03.Node C03.Spec.
Import ListNotations.
Local Open Scope N_scope.

Section Statements.
Variable valid : N -> block -> bool.
Variable vals : N -> list Z.
Variable proposer : N -> N -> N.
Variable mkblock : N -> N -> option block.
Variable cfg : config.
Variable me : option N.
Local Notation final_log := (final_log valid vals proposer mkblock cfg me).
Local Notation quorum_received := (quorum_received vals).

Definition C03_precommit_needs_polka_statement : Prop :=
  forall ins post pre v,
    final_log ins = post ++ EvOut (SignVote v) :: pre ->
    v_type v = Precommit -> bid_is_zero (v_bid v) = false ->
    quorum_received (received pre) Prevote (v_height v) (v_round v) (v_bid v) /\
    exists b, held (received pre) b /\ b_hash b = bh (v_bid v) /\ valid (v_height v) b = true.

Definition C03_lock_rule_statement : Prop :=
  forall ins l3 l2 l1 p x,
    final_log ins = l3 ++ EvOut (SignVote x) :: l2 ++ EvOut (SignVote p) :: l1 ->
    v_type p = Precommit -> bid_is_zero (v_bid p) = false ->
    v_type x = Prevote -> bid_is_zero (v_bid x) = false ->
    v_height x = v_height p -> v_round p < v_round x -> bh (v_bid x) <> bh (v_bid p) ->
    exists r'' y, v_round p < r'' /\ r'' <= v_round x /\ bh y <> bh (v_bid p) /\
                  quorum_received (received (l2 ++ EvOut (SignVote p) :: l1)) Prevote (v_height p) r'' y.

Definition C03_commit_needs_quorum_statement : Prop :=
  forall ins post pre h b r,
    final_log ins = post ++ EvOut (Commit h b r) :: pre ->
    valid h b = true /\
    exists id, bh id = b_hash b /\ quorum_received (received pre) Precommit h r id.

End Statements.
