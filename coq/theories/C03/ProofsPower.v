(** C03 — arithmetic of "+2/3 of the power among the received votes": the model's vote sets
    (first accepted vote per validator, sticky majority) never claim more than what the received
    inputs justify. *)
From Coq Require Import List ZArith NArith Bool Lia Arith.
From Kardia Require Import C03.Node C03.Spec.
Import ListNotations.
Local Open Scope Z_scope.
Ltac Zify.zify_post_hook ::= Z.div_mod_to_equations.

(** sum of the powers of the indices that satisfy P *)
Definition wsum_on (P : nat -> bool) (pw : list Z) (idx : list nat) : Z :=
  fold_right Z.add 0 (map (fun k => if P k then nth k pw 0 else 0) idx).
Definition wsum (P : nat -> bool) (pw : list Z) : Z := wsum_on P pw (seq 0 (length pw)).

Lemma nth_nonneg pw k : Forall (fun p => 0 <= p) pw -> 0 <= nth k pw 0.
Proof.
  intros F. destruct (Nat.lt_ge_cases k (length pw)) as [H|H].
  - rewrite Forall_forall in F. apply F. now apply nth_In.
  - rewrite nth_overflow; [lia|exact H].
Qed.

Lemma wsum_on_mono P Q pw idx :
  Forall (fun p => 0 <= p) pw -> (forall k, P k = true -> Q k = true) ->
  wsum_on P pw idx <= wsum_on Q pw idx.
Proof.
  intros F H. induction idx as [|k idx IH]; cbn; [lia|].
  pose proof (nth_nonneg pw k F). fold (wsum_on P pw idx). fold (wsum_on Q pw idx).
  destruct (P k) eqn:E; [rewrite (H k E); lia|]. destruct (Q k); lia.
Qed.

Lemma wsum_on_ext P Q pw idx :
  (forall k, In k idx -> P k = Q k) -> wsum_on P pw idx = wsum_on Q pw idx.
Proof.
  intros H. induction idx as [|k idx IH]; cbn; [reflexivity|].
  fold (wsum_on P pw idx). fold (wsum_on Q pw idx).
  rewrite (H k (or_introl eq_refl)), IH; [reflexivity|]. intros j Hj. apply H. now right.
Qed.

Lemma wsum_on_add i Q pw idx :
  NoDup idx -> In i idx -> Q i = false ->
  wsum_on (fun k => Nat.eqb k i || Q k) pw idx = nth i pw 0 + wsum_on Q pw idx.
Proof.
  induction idx as [|k idx IH]; intros ND Hin Hq; [destruct Hin|].
  inversion ND as [|? ? Hk ND']; subst. cbn.
  fold (wsum_on (fun k0 => Nat.eqb k0 i || Q k0) pw idx). fold (wsum_on Q pw idx).
  destruct (Nat.eqb k i) eqn:E.
  - apply Nat.eqb_eq in E. subst k. rewrite Hq. cbn.
    rewrite (wsum_on_ext (fun k0 => Nat.eqb k0 i || Q k0) Q); [lia|].
    intros j Hj. destruct (Nat.eqb j i) eqn:E'; [|reflexivity]. apply Nat.eqb_eq in E'. subst. contradiction.
  - cbn. destruct Hin as [->|Hin]; [rewrite Nat.eqb_refl in E; discriminate|].
    rewrite IH; auto. destruct (Q k); lia.
Qed.

(** membership of validator k (as a nat) among the votes for b *)
Definition mem_for (votes : list (N * bid)) (b : bid) (k : nat) : bool :=
  existsb (fun e => Nat.eqb k (N.to_nat (fst e)) && bid_eqb (snd e) b) votes.

Lemma power_for_le votes b pw :
  NoDup (map fst votes) ->
  (forall i b', In (i, b') votes -> (N.to_nat i < length pw)%nat) ->
  power_for pw votes b <= wsum (mem_for votes b) pw.
Proof.
  unfold wsum. induction votes as [|[i b'] votes IH]; intros ND Hlt.
  - assert (Z0 : forall idx, wsum_on (mem_for [] b) pw idx = 0).
    { induction idx as [|k idx IHi]; [reflexivity|]. unfold wsum_on in *. cbn in *. exact IHi. }
    rewrite Z0. cbn. lia.
  - cbn [map fst] in ND. inversion ND as [|? ? Hni ND']; subst.
    assert (IH' := IH ND' (fun j c H => Hlt j c (or_intror H))). clear IH.
    cbn [power_for fold_right snd fst]. fold (power_for pw votes b).
    destruct (bid_eqb b' b) eqn:E.
    + assert (Hm : mem_for votes b (N.to_nat i) = false).
      { unfold mem_for. apply not_true_iff_false. intros H. apply existsb_exists in H.
        destruct H as ([j c] & Hin & Hj). cbn in Hj. apply andb_true_iff in Hj. destruct Hj as (Hj & _).
        apply Nat.eqb_eq in Hj. apply N2Nat.inj in Hj. subst j.
        apply Hni. change i with (fst (i, c)). now apply in_map. }
      rewrite (wsum_on_ext (mem_for ((i, b') :: votes) b) (fun k => Nat.eqb k (N.to_nat i) || mem_for votes b k)).
      * rewrite wsum_on_add; auto.
        -- unfold power. lia.
        -- apply seq_NoDup.
        -- apply in_seq. specialize (Hlt i b' (or_introl eq_refl)). lia.
      * intros k _. unfold mem_for. cbn. now rewrite E, andb_true_r.
    + rewrite (wsum_on_ext (mem_for ((i, b') :: votes) b) (mem_for votes b)); [exact IH'|].
      intros k _. unfold mem_for. cbn. now rewrite E, andb_false_r.
Qed.

Lemma is_quorum_iff pw x : 0 <= total pw -> (is_quorum pw x = true <-> 2 * total pw < 3 * x).
Proof. intros H. unfold is_quorum. rewrite Z.leb_le. lia. Qed.

Lemma total_nonneg pw : Forall (fun p => 0 <= p) pw -> 0 <= total pw.
Proof. unfold total. induction 1; cbn; lia. Qed.

Section Recv.
Variable vals : N -> list Z.
Hypothesis vals_nonneg : forall h, Forall (fun p => 0 <= p) (vals h).

Lemma recv_power_wsum ins ty h r b :
  recv_power vals ins ty h r b = wsum (fun k => voted_for ins ty h r b (N.of_nat k)) (vals h).
Proof. reflexivity. Qed.

Lemma voted_for_mono ins ins' ty h r b i :
  (forall x, In x ins -> In x ins') -> voted_for ins ty h r b i = true -> voted_for ins' ty h r b i = true.
Proof.
  intros Hsub H. unfold voted_for in *. apply existsb_exists in H. destruct H as (x & Hin & Hx).
  apply existsb_exists. exists x. split; auto.
Qed.

Lemma quorum_received_mono ins ins' ty h r b :
  (forall x, In x ins -> In x ins') ->
  quorum_received vals ins ty h r b -> quorum_received vals ins' ty h r b.
Proof.
  intros Hsub Q. unfold quorum_received in *. rewrite recv_power_wsum in *.
  assert (wsum (fun k => voted_for ins ty h r b (N.of_nat k)) (vals h)
          <= wsum (fun k => voted_for ins' ty h r b (N.of_nat k)) (vals h)).
  { apply wsum_on_mono; auto. intros k. now apply voted_for_mono. }
  lia.
Qed.

(** a vote set all of whose votes were received (well signed, distinct validators) *)
Definition vs_ok (ins : list input) (h r : N) (ty : vtype) (vs : voteset) : Prop :=
  NoDup (map fst (vs_votes vs)) /\
  (forall i b, In (i, b) (vs_votes vs) ->
     voted_for ins ty h r b i = true /\ (N.to_nat i < length (vals h))%nat) /\
  (forall b, vs_maj vs = Some b -> is_quorum (vals h) (power_for (vals h) (vs_votes vs) b) = true).

Lemma vs_ok_empty ins h r ty : vs_ok ins h r ty vs_empty.
Proof. split; [constructor|]. split; [intros i b []|discriminate]. Qed.

Lemma vs_ok_mono ins ins' h r ty vs :
  (forall x, In x ins -> In x ins') -> vs_ok ins h r ty vs -> vs_ok ins' h r ty vs.
Proof.
  intros Hsub (A & B & C). split; [exact A|]. split; [|exact C].
  intros i b Hin. destruct (B i b Hin) as (V & L). split; [|exact L]. eapply voted_for_mono; eauto.
Qed.

Lemma vs_ok_quorum ins h r ty vs b :
  vs_ok ins h r ty vs -> vs_maj vs = Some b -> quorum_received vals ins ty h r b.
Proof.
  intros (A & B & C) M. specialize (C b M).
  apply is_quorum_iff in C; [|apply total_nonneg, vals_nonneg].
  unfold quorum_received. rewrite recv_power_wsum.
  pose proof (power_for_le (vs_votes vs) b (vals h) A (fun i b' H => proj2 (B i b' H))) as L1.
  assert (L2 : wsum (mem_for (vs_votes vs) b) (vals h)
               <= wsum (fun k => voted_for ins ty h r b (N.of_nat k)) (vals h)).
  { apply wsum_on_mono; auto. intros k Hk. unfold mem_for in Hk. apply existsb_exists in Hk.
    destruct Hk as ([i c] & Hin & Hk). cbn in Hk. apply andb_true_iff in Hk. destruct Hk as (Hk & Hc).
    apply Nat.eqb_eq in Hk. subst k. rewrite N2Nat.id.
    assert (c = b). { unfold bid_eqb in Hc. apply andb_true_iff in Hc. destruct Hc as (H1 & H2).
      apply N.eqb_eq in H1. apply N.eqb_eq in H2. destruct c, b. cbn in *. congruence. }
    subst c. apply (B i b Hin). }
  lia.
Qed.

(** adding an accepted vote keeps the vote set justified *)
Lemma vs_ok_add ins h r ty vs i b vs' :
  vs_ok ins h r ty vs -> voted_for ins ty h r b i = true ->
  vs_add (vals h) vs i b = (vs', true) -> vs_ok ins h r ty vs'.
Proof.
  intros (A & B & C) V E. unfold vs_add in E.
  destruct (voted (vs_votes vs) i || negb (N.to_nat i <? length (vals h))%nat) eqn:G; [discriminate|].
  apply orb_false_iff in G. destruct G as (G1 & G2). apply negb_false_iff, Nat.ltb_lt in G2.
  injection E as <-. cbn. split; [|split].
  - constructor; [|exact A]. intros Hin. apply in_map_iff in Hin. destruct Hin as ([j c] & Ej & Hin). cbn in Ej. subst j.
    assert (voted (vs_votes vs) i = true); [|congruence].
    unfold voted. apply existsb_exists. exists (i, c). split; [exact Hin|]. cbn. apply N.eqb_refl.
  - intros j c [Ej|Hin]; [injection Ej as <- <-; auto|auto].
  - intros c. destruct (vs_maj vs) as [m|] eqn:M.
    + intros Ec. injection Ec as <-. specialize (C m eq_refl).
      apply is_quorum_iff in C; [|apply total_nonneg, vals_nonneg].
      apply is_quorum_iff; [apply total_nonneg, vals_nonneg|].
      assert (power_for (vals h) (vs_votes vs) m <= power_for (vals h) ((i, b) :: vs_votes vs) m).
      { pose proof (nth_nonneg (vals h) (N.to_nat i) (vals_nonneg h)).
        unfold power_for at 2. cbn [fold_right snd fst]. fold (power_for (vals h) (vs_votes vs) m).
        unfold power. destruct (bid_eqb b m); lia. }
      cbn [vs_votes]. lia.
    + destruct (is_quorum _ _) eqn:Q; [|discriminate]. intros Ec. injection Ec as <-. exact Q.
Qed.

End Recv.
