(** C03 — vocabulary of the property statements.  Everything is read off the ghost [log] (every
    input and output, newest first): for a split [log = post ++ EvOut o :: pre], [pre] is the
    history before the output [o] was produced. *)
From Coq Require Import List ZArith NArith Bool.
From Kardia Require Import C03.Node.
Import ListNotations.
Local Open Scope N_scope.

Section Statements.
Variable valid : N -> block -> bool.
Variable vals : N -> list Z.
Variable proposer : N -> N -> N.
Variable mkblock : N -> N -> option block.
Variable cfg : config.
Variable me : option N.

Definition final_log (ins : list input) : list event := log (run valid vals proposer mkblock cfg me ins).

(** validator [i] is the author of a well-signed vote of type [ty] for [b] at (h, r) among [ins] *)
Definition voted_for (ins : list input) (ty : vtype) (h r : N) (b : bid) (i : N) : bool :=
  existsb (fun x => match x with
                    | InVote _ v => vtype_eqb (v_type v) ty && (v_height v =? h) && (v_round v =? r)
                                    && bid_eqb (v_bid v) b && (v_idx v =? i) && v_ok v
                    | _ => false end) ins.
(** voting power of the distinct validators that sent such a vote *)
Definition recv_power (ins : list input) (ty : vtype) (h r : N) (b : bid) : Z :=
  fold_right Z.add 0%Z
    (map (fun k => if voted_for ins ty h r b (N.of_nat k) then nth k (vals h) 0%Z else 0%Z)
         (seq 0 (length (vals h)))).
(** +2/3 of the height's total power *)
Definition quorum_received (ins : list input) (ty : vtype) (h r : N) (b : bid) : Prop :=
  (2 * total (vals h) < 3 * recv_power ins ty h r b)%Z.
(** the node was given block [b] (all its parts) *)
Definition held (ins : list input) (b : block) : Prop := exists h r, In (InBlock h r b) ins.

Definition C03_votes_only_valid_statement : Prop :=
  forall ins post pre v,
    final_log ins = post ++ EvOut (SignVote v) :: pre ->
    v_type v = Prevote -> bid_is_zero (v_bid v) = false ->
    exists b, held (received pre) b /\ b_hash b = bh (v_bid v) /\ valid (v_height v) b = true.

Definition C03_precommit_needs_polka_statement : Prop :=
  forall ins post pre v,
    final_log ins = post ++ EvOut (SignVote v) :: pre ->
    v_type v = Precommit -> bid_is_zero (v_bid v) = false ->
    quorum_received (received pre) Prevote (v_height v) (v_round v) (v_bid v) /\
    exists b, held (received pre) b /\ b_hash b = bh (v_bid v) /\ valid (v_height v) b = true.

Definition C03_lock_rule_statement : Prop :=
  forall ins l3 l2 l1 p x,
    final_log ins = l3 ++ EvOut (SignVote x) :: l2 ++ EvOut (SignVote p) :: l1 ->
    v_type p = Precommit -> bid_is_zero (v_bid p) = false ->
    v_type x = Prevote -> bid_is_zero (v_bid x) = false ->
    v_height x = v_height p -> v_round p < v_round x -> bh (v_bid x) <> bh (v_bid p) ->
    exists r'' y, v_round p < r'' /\ r'' <= v_round x /\ bh y <> bh (v_bid p) /\
                  quorum_received (received (l2 ++ EvOut (SignVote p) :: l1)) Prevote (v_height p) r'' y.

Definition C03_commit_needs_quorum_statement : Prop :=
  forall ins post pre h b r,
    final_log ins = post ++ EvOut (Commit h b r) :: pre ->
    valid h b = true /\
    exists id, bh id = b_hash b /\ quorum_received (received pre) Precommit h r id.

End Statements.
