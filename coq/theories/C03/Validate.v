(** C03 — [Validate.v]: executable model of "valid extension of the node's own chain", i.e. of
    kai/state/cstate/validation.go [validateBlock], kai/state/cstate/state.go [MedianTime],
    types/time/time.go [WeightedMedian], types/block.go [Block.ValidateBasic] (the part that binds
    the last commit) and the validation cache of kai/state/cstate/execution.go
    ([BlockExecutor.ValidateBlock], [validationKey], the reset in [ApplyBlock]).
    [Node.v]'s section variable [valid h b] is this function applied to the node's chain state at
    height h.  No proofs in this file.

    Conventions:
    - heights are uint64 and voting powers int64: the arithmetic goes through Base/GoSem.v
      ([go_add U64 ..], [go_quot I64 ..]) exactly as the Go source computes it;
    - a time is its UnixNano (the comparisons of the code, Time.After / Time.Equal / the sort of
      WeightedMedian, only look at the instant); [None] is the zero time.Time a median over no
      signature returns;
    - hashes (application hash, validator-set hashes, block ids) are interned numbers; equality of
      the numbers is equality of the bytes;
    - the last commit, validators, signatures and [verify_commit] are those of C02/Model.v (ideal
      signatures);
    - [vb_wf] stands for the checks of Block.ValidateBasic that only look at the block's own bytes
      and are outside this model (header hash well-formedness, transaction root, evidence items and
      evidence hash); [vb_lch_ok] is "Header.LastCommitHash = LastCommit.Hash()" (zero if nil);
      [vb_evid_ok] is evidencePool.CheckEvidence (C16). *)
From Coq Require Import List ZArith NArith Bool Lia.
From Kardia Require Import Base.Int64 Base.GoSem C02.Model.
Import ListNotations.
Local Open Scope Z_scope.

(* ------------------------------------------------------------------ *)
(** * Data *)

Record vheader := {
  vh_height : Z;            (* uint64 *)
  vh_time : Z;              (* UnixNano *)
  vh_last : blockid;        (* Header.LastBlockID *)
  vh_app : N;               (* Header.AppHash *)
  vh_vals : N;              (* Header.ValidatorsHash *)
  vh_nextvals : N;          (* Header.NextValidatorsHash *)
  vh_proposer : N }.        (* Header.ProposerAddress *)

Record vblock := {
  vb_hdr : vheader;
  vb_wf : bool;
  vb_lc : option commit;    (* Block.LastCommit() *)
  vb_lch_ok : bool;
  vb_nevid : Z;             (* len(Evidence), int64 *)
  vb_evid_ok : bool }.

(** cstate.LatestBlockState (the fields validateBlock reads) *)
Record chain := {
  ch_id : N;                       (* ChainID *)
  ch_initial : Z;                  (* InitialHeight, uint64 *)
  ch_last_height : Z;              (* LastBlockHeight, uint64 *)
  ch_last_bid : blockid;           (* LastBlockID *)
  ch_last_time : Z;                (* LastBlockTime *)
  ch_app : N;                      (* AppHash *)
  ch_vals_hash : N;                (* Validators.Hash() *)
  ch_nextvals_hash : N;            (* NextValidators.Hash() *)
  ch_last_vals : list validator;   (* LastValidators *)
  ch_vals : list validator;        (* Validators *)
  ch_max_evid : Z }.               (* MaxEvidencePerBlock(ConsensusParams.Block.MaxBytes), int64 *)

Inductive verr :=
| VOk | VBasic | VHeight | VLastID | VApp | VVals | VNextVals | VNilCommit | VFirstCommit
| VCommit (e : cerr) | VTimeNotAfter | VTimeNotMedian | VTimeGenesis | VBelowInitial
| VEvidenceCount | VProposer | VEvidence.

Definition verr_ok (e : verr) : bool := match e with VOk => true | _ => false end.

(* ------------------------------------------------------------------ *)
(** * Block.ValidateBasic *)

Definition block_validate_basic (b : vblock) : bool :=
  vb_wf b &&
  (if vh_height (vb_hdr b) >? 1
   then match vb_lc b with None => false | Some c => commit_validate_basic c end
   else true) &&
  vb_lch_ok b.

(* ------------------------------------------------------------------ *)
(** * MedianTime / WeightedMedian *)

(** ValidatorSet.GetByAddress: the power of the validator with that address *)
Fixpoint power_of (vals : list validator) (a : N) : option Z :=
  match vals with
  | [] => None
  | v :: t => if N.eqb (val_addr v) a then Some (val_power v) else power_of t a
  end.

(** the loop of MedianTime: (time, weight) of every non-absent slot whose address is a validator,
    and the running int64 total of those weights *)
Fixpoint median_entries (vals : list validator) (sigs : list commitsig) (tot : Z) : list (Z * Z) * Z :=
  match sigs with
  | [] => ([], tot)
  | cs :: r =>
    if N.eqb (cs_flag cs) FLAG_ABSENT then median_entries vals r tot
    else match power_of vals (cs_addr cs) with
         | None => median_entries vals r tot
         | Some p =>
           let '(l, t) := median_entries vals r (go_add I64 tot p) in
           ((Z.of_N (cs_time cs), p) :: l, t)
         end
  end.

(** sort.Slice by UnixNano (the result does not depend on the order of equal times) *)
Fixpoint wt_insert (x : Z * Z) (l : list (Z * Z)) : list (Z * Z) :=
  match l with
  | [] => [x]
  | y :: t => if fst x <? fst y then x :: y :: t else y :: wt_insert x t
  end.
Fixpoint wt_sort (l : list (Z * Z)) : list (Z * Z) :=
  match l with [] => [] | x :: t => wt_insert x (wt_sort t) end.

(** the scan of WeightedMedian: the first time whose weight reaches what is left of the median *)
Fixpoint wm_scan (l : list (Z * Z)) (median : Z) : option Z :=
  match l with
  | [] => None
  | (t, w) :: r => if median <=? w then Some t else wm_scan r (go_sub I64 median w)
  end.

Definition weighted_median (l : list (Z * Z)) (total : Z) : option Z :=
  wm_scan (wt_sort l) (go_quot I64 total 2).

Definition median_time (c : commit) (vals : list validator) : option Z :=
  let '(l, tot) := median_entries vals (c_sigs c) 0 in weighted_median l tot.

(* ------------------------------------------------------------------ *)
(** * validateBlock, check by check in the order of the code *)

Definition has_address (vals : list validator) (a : N) : bool :=
  existsb (fun v => N.eqb (val_addr v) a) vals.

Definition validate_time (st : chain) (b : vblock) (c : commit) : verr :=
  let h := vb_hdr b in
  if vh_height h >? ch_initial st then
    if negb (vh_time h >? ch_last_time st) then VTimeNotAfter
    else match median_time c (ch_last_vals st) with
         | Some m => if negb (vh_time h =? m) then VTimeNotMedian else VOk
         | None => VTimeNotMedian
         end
  else if vh_height h =? ch_initial st then
    if negb (vh_time h =? ch_last_time st) then VTimeGenesis else VOk
  else VBelowInitial.

Definition validate_tail (st : chain) (b : vblock) : verr :=
  if vb_nevid b >? ch_max_evid st then VEvidenceCount
  else if negb (has_address (ch_vals st) (vh_proposer (vb_hdr b))) then VProposer
  else if negb (vb_evid_ok b) then VEvidence
  else VOk.

Definition z_to_N (z : Z) : N := Z.to_N z.

(** the last commit: none expected in the first block, otherwise LastValidators.VerifyCommit for
    (ChainID, LastBlockID, height - 1) *)
Definition validate_commit (st : chain) (b : vblock) (c : commit) : verr :=
  let h := vb_hdr b in
  if vh_height h =? ch_initial st then
    (if go_neqb (Z.of_nat (length (c_sigs c))) 0 then VFirstCommit else VOk)
  else match verify_commit (ch_last_vals st) (ch_id st) (ch_last_bid st)
                           (z_to_N (go_sub U64 (vh_height h) 1)) c with
       | COk => VOk
       | e => VCommit e
       end.

Definition validate_block (st : chain) (b : vblock) : verr :=
  let h := vb_hdr b in
  if negb (block_validate_basic b) then VBasic
  else if go_neqb (vh_height h) (go_add U64 (ch_last_height st) 1) then VHeight
  else if (ch_last_height st =? 0) && go_neqb (vh_height h) (ch_initial st) then VHeight
  else if (ch_last_height st >? 0) && go_neqb (vh_height h) (go_add U64 (ch_last_height st) 1) then VHeight
  else if negb (bid_eqb (vh_last h) (ch_last_bid st)) then VLastID
  else if negb (N.eqb (vh_app h) (ch_app st)) then VApp
  else if negb (N.eqb (vh_vals h) (ch_vals_hash st)) then VVals
  else if negb (N.eqb (vh_nextvals h) (ch_nextvals_hash st)) then VNextVals
  else match vb_lc b with
       | None => VNilCommit
       | Some c =>
         match validate_commit st b c with
         | VOk => match validate_time st b c with
                  | VOk => validate_tail st b
                  | e => e
                  end
         | e => e
         end
       end.

(* ------------------------------------------------------------------ *)
(** * The validation cache of BlockExecutor *)

(** validationKey: the block hash (a hash of the header) and, when there is a last commit, its
    height, round and block id *)
Definition vkey := (N * option (N * N * blockid))%type.

Definition lc_meta (b : vblock) : option (N * N * blockid) :=
  match vb_lc b with None => None | Some c => Some (c_height c, c_round c, c_bid c) end.

Definition meta_eqb (a b : option (N * N * blockid)) : bool :=
  match a, b with
  | None, None => true
  | Some (h1, r1, b1), Some (h2, r2, b2) => N.eqb h1 h2 && N.eqb r1 r2 && bid_eqb b1 b2
  | _, _ => false
  end.
Definition vkey_eqb (a b : vkey) : bool := N.eqb (fst a) (fst b) && meta_eqb (snd a) (snd b).

Section Cache.
Variable bhash : vblock -> N.     (* Block.Hash(): Keccak of the header *)

Definition validation_key (b : vblock) : vkey := (bhash b, lc_meta b).

Definition cached (cache : list vkey) (k : vkey) : bool := existsb (vkey_eqb k) cache.

(** BlockExecutor.ValidateBlock: result and new cache *)
Definition validate_cached (st : chain) (cache : list vkey) (b : vblock) : verr * list vkey :=
  if cached cache (validation_key b) then
    ((if block_validate_basic b then VOk else VBasic), cache)
  else match validate_block st b with
       | VOk => (VOk, validation_key b :: cache)
       | e => (e, cache)
       end.

(** what the executor is asked to do: validate a block (doPrevote, enterPrecommit,
    finalizeCommit), or apply one (finalizeCommit), which validates it, moves to the next chain
    state and clears the cache *)
Inductive xop := XValidate (b : vblock) | XApply (b : vblock) (next : chain).

Definition xstep (s : chain * list vkey) (o : xop) : (chain * list vkey) * verr :=
  let '(st, cache) := s in
  match o with
  | XValidate b => let '(e, cache') := validate_cached st cache b in ((st, cache'), e)
  | XApply b next =>
    let '(e, cache') := validate_cached st cache b in
    match e with
    | VOk => ((next, []), VOk)
    | _ => ((st, cache'), e)
    end
  end.

Fixpoint xrun (s : chain * list vkey) (ops : list xop) : (chain * list vkey) * list verr :=
  match ops with
  | [] => (s, [])
  | o :: t => let '(s1, e) := xstep s o in
              let '(s2, es) := xrun s1 t in (s2, e :: es)
  end.

End Cache.
