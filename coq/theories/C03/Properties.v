(** C03 — property theorems only (each closed by [exact] of a lemma of Proofs*.v and followed by
    [Print Assumptions]).  Statements still open are in Open.v as [Definition ..._statement : Prop].
    [run] is [fold_left step_state] from [init]; [log] is the ghost history of all inputs and
    outputs; valid, vals, proposer, mkblock, cfg and me are arbitrary. *)
From Coq Require Import List ZArith NArith Bool.
From Kardia Require Import C03.Node C03.Spec C03.ProofsMono C03.ProofsInv C03.ProofsValid C03.Proofs C03.Open.
Import ListNotations.
Local Open Scope N_scope.

(** At most one vote of each type and at most one proposal is ever signed per (height, round),
    whatever inputs (votes, proposals, blocks, accepted timeouts, in any order) are fed. *)
Theorem C03_one_vote_per_step :
  forall valid vals proposer mkblock cfg me (ins : list input),
    let l := log (run valid vals proposer mkblock cfg me ins) in
    NoDup (map (fun v => (v_type v, v_height v, v_round v)) (signed_votes l)) /\
    NoDup (map (fun p => (p_height p, p_round p)) (signed_proposals l)).
Proof. exact one_vote_per_step. Qed.
Print Assumptions C03_one_vote_per_step.

(** (height, round, step) never decreases, from any state and for any input. *)
Theorem C03_round_monotone :
  forall valid vals proposer mkblock cfg me (s : nstate) (i : input),
    let s' := step_state valid vals proposer mkblock cfg me s i in
    height s < height s' \/
    (height s = height s' /\
     (round s < round s' \/ (round s = round s' /\ step_num (rstep s) <= step_num (rstep s')))).
Proof. exact step_state_mono. Qed.
Print Assumptions C03_round_monotone.

(** Everything the node has signed lies at or before its current (height, round); a vote signed
    for the current round is reflected in the step; a pending timeout is never for a future round
    (the bookkeeping clause (1) of NInv, for every reachable state). *)
Theorem C03_bookkeeping_invariant :
  forall valid vals proposer mkblock cfg me (ins : list input),
    Inv1 (run valid vals proposer mkblock cfg me ins).
Proof. exact run_inv. Qed.
Print Assumptions C03_bookkeeping_invariant.

(** A non-nil prevote is signed only for a block that the node had been given in full before that
    moment ([held (received pre) b]) and that passes validation against the node's own chain
    state at the vote's height ([valid h b] = validateBlock: height, parent id, last-commit
    verification, app/validator hashes, median time). *)
Theorem C03_votes_only_valid :
  forall valid vals proposer mkblock cfg me (ins : list input) post pre v,
    log (run valid vals proposer mkblock cfg me ins) = post ++ EvOut (SignVote v) :: pre ->
    v_type v = Prevote -> bid_is_zero (v_bid v) = false ->
    exists b, held (received pre) b /\ b_hash b = bh (v_bid v) /\ valid (v_height v) b = true.
Proof. exact votes_only_valid. Qed.
Print Assumptions C03_votes_only_valid.

(** The POLRound sanity check of setProposal is dead code: a correctly signed proposal for the
    current height and round is accepted whatever its POLRound. *)
Theorem C03_polround_check_is_dead :
  forall proposer p s,
    prop s = None -> p_height p = height s -> p_round p = round s ->
    p_signer p = Some (proposer (height s) (prop_round s)) ->
    prop (recv_proposal proposer p s) = Some p.
Proof. exact proposal_polround_unchecked. Qed.
Print Assumptions C03_polround_check_is_dead.
