(** C03 — property theorems only (each closed by [exact] of a lemma of Proofs*.v and followed by
    [Print Assumptions]).  Statements still open are in Open.v as [Definition ..._statement : Prop].
    [run] is [fold_left step_state] from [init]; [log] is the ghost history of all inputs and
    outputs; valid, vals, proposer, mkblock, cfg and me are arbitrary. *)
From Coq Require Import List ZArith NArith Bool.
From Kardia Require Import C03.Node C03.Spec C03.ProofsMono C03.ProofsInv C03.ProofsValid C03.ProofsLock C03.Proofs C03.Open C03.ToC01 C03.ProofsHalt C03.SourceTie.
From Kardia Require C02.Model C02.Proofs C03.Validate C03.ProofsValidate C03.ProofsExtension.
Import ListNotations.
Local Open Scope N_scope.

(** At most one vote of each type and at most one proposal is ever signed per (height, round),
    whatever inputs (votes, proposals, blocks, accepted timeouts, in any order) are fed. *)
Theorem C03_one_vote_per_step :
  forall valid vals proposer mkblock cfg me (ins : list input),
    let l := log (run valid vals proposer mkblock cfg me ins) in
    NoDup (map (fun v => (v_type v, v_height v, v_round v)) (signed_votes l)) /\
    NoDup (map (fun p => (p_height p, p_round p)) (signed_proposals l)).
Proof. exact one_vote_per_step. Qed.
Print Assumptions C03_one_vote_per_step.

(** (height, round, step) never decreases, from any state and for any input. *)
Theorem C03_round_monotone :
  forall valid vals proposer mkblock cfg me (s : nstate) (i : input),
    let s' := step_state valid vals proposer mkblock cfg me s i in
    height s < height s' \/
    (height s = height s' /\
     (round s < round s' \/ (round s = round s' /\ step_num (rstep s) <= step_num (rstep s')))).
Proof. exact step_state_mono. Qed.
Print Assumptions C03_round_monotone.

(** Everything the node has signed lies at or before its current (height, round); a vote signed
    for the current round is reflected in the step; a pending timeout is never for a future round
    (the bookkeeping clause (1) of NInv, for every reachable state). *)
Theorem C03_bookkeeping_invariant :
  forall valid vals proposer mkblock cfg me (ins : list input),
    Inv1 (run valid vals proposer mkblock cfg me ins).
Proof. exact run_inv. Qed.
Print Assumptions C03_bookkeeping_invariant.

(** A non-nil prevote is signed only for a block that the node had been given in full before that
    moment ([held (received pre) b]) and that passes validation against the node's own chain
    state at the vote's height ([valid h b] = validateBlock: height, parent id, last-commit
    verification, app/validator hashes, median time). *)
Theorem C03_votes_only_valid :
  forall valid vals proposer mkblock cfg me (ins : list input) post pre v,
    log (run valid vals proposer mkblock cfg me ins) = post ++ EvOut (SignVote v) :: pre ->
    v_type v = Prevote -> bid_is_zero (v_bid v) = false ->
    exists b, held (received pre) b /\ b_hash b = bh (v_bid v) /\ valid (v_height v) b = true.
Proof. exact votes_only_valid. Qed.
Print Assumptions C03_votes_only_valid.

(** A non-nil precommit for block id b at (h, r) is signed only if, before that moment, the node had
    received well-signed prevotes for exactly b at (h, r) from distinct validators holding more than
    2/3 of the height's voting power, and had been given a block with b's hash that passes
    validation at h.  (Voting powers are non-negative: C02/C12's wf_vals.) *)
Theorem C03_precommit_needs_polka :
  forall valid vals proposer mkblock cfg me,
    (forall h, Forall (fun p => (0 <= p)%Z) (vals h)) ->
    forall (ins : list input) post pre v,
      log (run valid vals proposer mkblock cfg me ins) = post ++ EvOut (SignVote v) :: pre ->
      v_type v = Precommit -> bid_is_zero (v_bid v) = false ->
      quorum_received vals (received pre) Prevote (v_height v) (v_round v) (v_bid v) /\
      exists b, held (received pre) b /\ b_hash b = bh (v_bid v) /\ valid (v_height v) b = true.
Proof. exact precommit_needs_polka. Qed.
Print Assumptions C03_precommit_needs_polka.

(** Lock rule: after a non-nil precommit p = (b, r), any later prevote x of the same height in a
    round r' > r for a value with another hash (nil included) is signed only after the node received
    a +2/3 prevote set for a value y with another hash than b in some round r'' with r < r'' <= r'. *)
Theorem C03_lock_rule :
  forall valid vals proposer mkblock cfg me,
    (forall h, Forall (fun p => (0 <= p)%Z) (vals h)) ->
    forall (ins : list input) l3 l2 l1 p x,
      log (run valid vals proposer mkblock cfg me ins) =
        l3 ++ EvOut (SignVote x) :: l2 ++ EvOut (SignVote p) :: l1 ->
      v_type p = Precommit -> bid_is_zero (v_bid p) = false -> v_type x = Prevote ->
      v_height x = v_height p -> v_round p < v_round x -> bh (v_bid x) <> bh (v_bid p) ->
      exists r'' y, v_round p < r'' /\ r'' <= v_round x /\ bh y <> bh (v_bid p) /\
                    quorum_received vals (received (l2 ++ EvOut (SignVote p) :: l1)) Prevote (v_height p) r'' y.
Proof. exact lock_rule_strong. Qed.
Print Assumptions C03_lock_rule.

(** A block is committed (finalizeCommit) only if it passes validation at that height and the node
    had received, in the single round r, well-signed precommits for one block id with that block's
    hash from distinct validators holding more than 2/3 of the voting power. *)
Theorem C03_commit_needs_quorum :
  forall valid vals proposer mkblock cfg me,
    (forall h, Forall (fun p => (0 <= p)%Z) (vals h)) ->
    forall (ins : list input) post pre h b r,
      log (run valid vals proposer mkblock cfg me ins) = post ++ EvOut (Commit h b r) :: pre ->
      valid h b = true /\
      exists id, bh id = b_hash b /\ quorum_received vals (received pre) Precommit h r id.
Proof. exact commit_needs_quorum. Qed.
Print Assumptions C03_commit_needs_quorum.

(** Bridge to C01: in any global trace [linked] with a run of the node (every well-signed vote of
    height h the node received had been signed earlier in the trace; the node's own signatures of
    height h enter the trace when they are made; nothing else is attributed to the node), the
    node's events satisfy the four obligations that C01's agreement theorem consumes
    (ob_one_precommit, ob_precommit_polka, ob_lock, ob_monotone), block ids being read by hash. *)
Theorem C03_node_obeys_C01 :
  forall valid vals proposer mkblock cfg (i h : N),
    (forall h0, Forall (fun p => (0 <= p)%Z) (vals h0)) ->
    forall (ins : list input) (tr : Kardia.C01.Agreement.trace N),
      linked i h tr (log (run valid vals proposer mkblock cfg (Some i) ins)) ->
      Kardia.C01.Agreement.obeys (vals h) N N.eq_dec tr (N.to_nat i).
Proof. exact node_obeys. Qed.
Print Assumptions C03_node_obeys_C01.

(** The POLRound sanity check of setProposal is dead code: a correctly signed proposal for the
    current height and round is accepted whatever its POLRound. *)
Theorem C03_polround_check_is_dead :
  forall proposer p s,
    prop s = None -> p_height p = height s -> p_round p = round s ->
    p_signer p = Some (proposer (height s) (prop_round s)) ->
    prop (recv_proposal proposer p s) = Some p.
Proof. exact proposal_polround_unchecked. Qed.
Print Assumptions C03_polround_check_is_dead.

(** REFUTED (known finding "halt-same-hash-other-body"): "a validator fed only honest-looking inputs
    (well-signed votes for nil or for the full id — hash and parts header — of a block that passes
    validation, no validator voting twice in a slot, only valid blocks) never runs into a Go panic".
    Witness (ProofsHalt.v, computed on the model): 4 validators of power 10, only the proposer
    faulty; the node holds the body (hash 1, parts 1), the others prevote and precommit the equally
    valid body (hash 1, parts 2); the node locks its block under an EMPTY part set with header 2,
    precommits (1,2) and halts in finalizeCommit/SaveBlock on the incomplete part set.  The code
    matches the polka/commit block with the block in hand by hash alone. *)
Theorem C03_no_halt_under_one_byzantine_proposer_refuted : ~ C03_no_halt_statement.
Proof. exact no_halt_refuted. Qed.
Print Assumptions C03_no_halt_under_one_byzantine_proposer_refuted.

(** Source tie: the validation model (validateBlock, MedianTime/WeightedMedian, Commit.ValidateBasic)
    and the guards of the node model (step-function entry guards, POL sanity check, unlock rule,
    stale-lock scan bound, catch-up limit, ticker filter, handleTimeout) are the expressions that
    /verif/go2coq regenerates from the Go sources on every check (Generated/C03Source.v), on the
    operands the [_atoms] lemmas of SourceTie.v pin. *)
Theorem C03_source_tie : C03_source_tie_statement.
Proof. exact C03_source_tie_proof. Qed.
Print Assumptions C03_source_tie.

(** "Valid extension of its own chain", spelled out: validateBlock (Validate.v, transcribed from
    kai/state/cstate/validation.go and tied to the source by C03_source_tie) accepts a block exactly
    when it has the right height (last height + 1, the initial height for the first block) and parent
    id, the application hash and both validator-set hashes of the node's own state, a last commit
    that is empty in the first block and otherwise passes VerifyCommit against the previous
    validator set for (chain id, parent id, height - 1), a time equal to the genesis time in the
    first block and otherwise strictly after the last block time and equal to MedianTime of that
    commit, at most the allowed number of evidence items, a proposer of the current set, and passes
    ValidateBasic and the evidence pool. *)
Theorem C03_validate_block_exact :
  forall st b, Validate.validate_block st b = Validate.VOk <-> ProofsValidate.valid_extension st b.
Proof. intros st b. split; [apply ProofsValidate.validate_block_sound | apply ProofsValidate.validate_block_complete]. Qed.
Print Assumptions C03_validate_block_exact.

(** The last commit of an accepted block after the first one names the parent id and height and
    carries valid precommit signatures of validators of the previous set (each in its own slot)
    holding more than two thirds of that set's power (with C02's VerifyCommit theorem). *)
Theorem C03_accepted_commit_has_quorum :
  forall st b c,
    Validate.validate_block st b = Validate.VOk -> Validate.vb_lc b = Some c ->
    C02.Proofs.wf_vals (Validate.ch_last_vals st) ->
    (Validate.ch_initial st < Validate.vh_height (Validate.vb_hdr b))%Z -> (1 <= Validate.ch_initial st)%Z ->
    (Validate.vh_height (Validate.vb_hdr b) < Int64.two64)%Z ->
    let hp := Validate.z_to_N (Validate.vh_height (Validate.vb_hdr b) - 1) in
    C02.Model.c_height c = hp /\ C02.Model.c_bid c = Validate.ch_last_bid st /\
    length (C02.Model.c_sigs c) = length (Validate.ch_last_vals st) /\
    (2 * C02.Proofs.sum_powers (Validate.ch_last_vals st)
     < 3 * C02.Proofs.signed_power (Validate.ch_id st) hp (C02.Model.c_round c) (Validate.ch_last_bid st)
                                    (Validate.ch_last_vals st) (C02.Model.c_sigs c))%Z.
Proof. exact ProofsValidate.accepted_commit_has_quorum. Qed.
Print Assumptions C03_accepted_commit_has_quorum.

(** The prescribed block time is a weighted median: MedianTime returns one of the timestamps of the
    non-absent commit slots that name a validator; the slots strictly before it weigh at most half
    of the counted power and the slots at or before it at least half (powers non-negative, total
    within int64 — C12's cap). *)
Theorem C03_block_time_is_weighted_median :
  forall c vals t,
    Forall (fun e => (0 <= snd e)%Z) (ProofsValidate.entries_of vals (C02.Model.c_sigs c)) ->
    (ProofsValidate.wtotal (ProofsValidate.entries_of vals (C02.Model.c_sigs c)) <= Int64.max_int64)%Z ->
    Validate.median_time c vals = Some t ->
    let l := ProofsValidate.entries_of vals (C02.Model.c_sigs c) in
    In t (map fst l) /\
    (ProofsValidate.wsum (fun x => (x <? t)%Z) l <= ProofsValidate.wtotal l / 2
     <= ProofsValidate.wsum (fun x => (x <=? t)%Z) l)%Z.
Proof. exact ProofsValidate.median_time_spec. Qed.
Print Assumptions C03_block_time_is_weighted_median.

(** The executor's validation cache (BlockExecutor.ValidateBlock / validationKey / the reset in
    ApplyBlock) is transparent: over any sequence of validations and block applications, every
    answer is validateBlock's answer for the chain state current at that moment — unless two
    different blocks that both pass ValidateBasic share a validation key (a hash collision). *)
Theorem C03_validation_cache_transparent :
  forall (bhash : Validate.vblock -> N) st ops,
    snd (Validate.xrun bhash (st, []) ops) = ProofsValidate.xspec st ops \/ ProofsValidate.key_collision bhash.
Proof. exact ProofsValidate.cache_transparent_from_start. Qed.
Print Assumptions C03_validation_cache_transparent.

(** The property's last sentence in full: with [valid h b] instantiated by validateBlock on the
    node's own chain state at height h ([st h]) and the decoded block ([dec b]), every non-nil vote
    (prevote or precommit) the node signs and every block it commits is a block it had been given in
    full that is a valid extension of its own chain in the sense of C03_validate_block_exact. *)
Theorem C03_votes_and_commits_extend_own_chain :
  forall (st : N -> Validate.chain) (dec : block -> Validate.vblock) vals proposer mkblock cfg me,
    (forall h, Forall (fun p => (0 <= p)%Z) (vals h)) ->
    forall ins : list input,
      let l := log (run (ProofsExtension.valid_by_code st dec) vals proposer mkblock cfg me ins) in
      (forall post pre v,
          l = post ++ EvOut (SignVote v) :: pre -> bid_is_zero (v_bid v) = false ->
          exists b, held (received pre) b /\ b_hash b = bh (v_bid v)
                    /\ ProofsValidate.valid_extension (st (v_height v)) (dec b))
      /\ (forall post pre h b r,
             l = post ++ EvOut (Commit h b r) :: pre ->
             ProofsValidate.valid_extension (st h) (dec b)).
Proof. exact ProofsExtension.votes_and_commits_extend_own_chain. Qed.
Print Assumptions C03_votes_and_commits_extend_own_chain.

(** The decision-critical functions of the anchored code have exactly the decisions the source tie knows about
    (go2coq manifests, regenerated from /repo on every check; statement in SourceManifest.v). *)
From Kardia Require Import C03.SourceManifest.
Theorem C03_source_manifest : C03_source_manifest_statement.
Proof. exact C03_source_manifest_proof. Qed.
Print Assumptions C03_source_manifest.
