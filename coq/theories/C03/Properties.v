(** C03 — property theorems only. *)
From Coq Require Import List ZArith NArith Bool.
From Kardia Require Import C03.Node C03.Proofs.
Local Open Scope N_scope.

Theorem C03_polround_check_is_dead :
  forall pol r : N, (pol <? 1) && ((0 <? pol) || (r <? pol)) = false.
Proof. exact pol_check_dead. Qed.
Print Assumptions C03_polround_check_is_dead.
