(** C18 proofs, part 4: the transaction fetcher automaton (ModelFetcher.v).

    1. "alternates are tracked exactly for the hashes being fetched" is an inductive invariant of
       every event, and under it scheduleFetches never reaches its panic.
    2. Drop(peer) leaves no hash marked as being fetched from that peer and no request of it —
       the fact whose loss is seeded breakage a2 — for every state in which the peer's fetches are
       covered by its request.
    3. Under "every fetch is covered by a live request" the delivery loop never dereferences a
       missing request, and keeps that fact. *)
From Coq Require Import List ZArith Bool Lia.
From Kardia Require Import C18.ModelFetcher Generated.C18Facts.
Import ListNotations.
Local Open Scope Z_scope.

(** ** maps *)

Section MapLemmas.
  Context {V : Type}.
  Implicit Types m : zmap V.

  Lemma zm_get_set_eq : forall k v m, zm_get k (zm_set k v m) = Some v.
  Proof.
    intros k v m. induction m as [|[a w] t IH]; cbn [zm_set zm_get].
    - now rewrite Z.eqb_refl.
    - destruct (a =? k) eqn:E; cbn [zm_get].
      + now rewrite E.
      + destruct (k <? a); cbn [zm_get]; [now rewrite Z.eqb_refl|now rewrite E].
  Qed.

  Lemma zm_get_set_ne : forall k k' v m, k <> k' -> zm_get k' (zm_set k v m) = zm_get k' m.
  Proof.
    intros k k' v m Hne. induction m as [|[a w] t IH]; cbn [zm_set zm_get].
    - destruct (k =? k') eqn:E; [apply Z.eqb_eq in E; contradiction|reflexivity].
    - destruct (a =? k) eqn:E; cbn [zm_get].
      + apply Z.eqb_eq in E. subst a. destruct (k =? k') eqn:E2; [apply Z.eqb_eq in E2; contradiction|reflexivity].
      + destruct (k <? a); cbn [zm_get].
        * destruct (k =? k') eqn:E2; [apply Z.eqb_eq in E2; contradiction|reflexivity].
        * destruct (a =? k'); [reflexivity|exact IH].
  Qed.

  Lemma zm_get_del_eq : forall k m, zm_get k (zm_del k m) = None.
  Proof.
    intros k m. unfold zm_del. induction m as [|[a w] t IH]; cbn [filter zm_get fst]; [reflexivity|].
    destruct (a =? k) eqn:E; cbn [negb]; [exact IH|]. cbn [zm_get]. now rewrite E.
  Qed.

  Lemma zm_get_del_ne : forall k k' m, k <> k' -> zm_get k' (zm_del k m) = zm_get k' m.
  Proof.
    intros k k' m Hne. unfold zm_del. induction m as [|[a w] t IH]; cbn [filter zm_get fst]; [reflexivity|].
    destruct (a =? k) eqn:E; cbn [negb].
    - apply Z.eqb_eq in E. subst a. destruct (k =? k') eqn:E2; [apply Z.eqb_eq in E2; contradiction|exact IH].
    - cbn [zm_get]. destruct (a =? k'); [reflexivity|exact IH].
  Qed.

  Lemma zm_has_set_eq : forall k v m, zm_has k (zm_set k v m) = true.
  Proof. intros. unfold zm_has. now rewrite zm_get_set_eq. Qed.
  Lemma zm_has_set_ne : forall k k' v m, k <> k' -> zm_has k' (zm_set k v m) = zm_has k' m.
  Proof. intros. unfold zm_has. now rewrite zm_get_set_ne. Qed.
  Lemma zm_has_del_eq : forall k m, zm_has k (zm_del k m) = false.
  Proof. intros. unfold zm_has. now rewrite zm_get_del_eq. Qed.
  Lemma zm_has_del_ne : forall k k' m, k <> k' -> zm_has k' (zm_del k m) = zm_has k' m.
  Proof. intros. unfold zm_has. now rewrite zm_get_del_ne. Qed.

  Lemma zm_has_get : forall k m, zm_has k m = true <-> exists v, zm_get k m = Some v.
  Proof.
    intros. unfold zm_has. destruct (zm_get k m); split; intros H; try discriminate; eauto.
    destruct H; discriminate.
  Qed.
  Lemma zm_has_false : forall k m, zm_has k m = false <-> zm_get k m = None.
  Proof. intros. unfold zm_has. destruct (zm_get k m); split; intros H; try discriminate; auto. Qed.

  (** the keys of the listing are the keys of the map *)
  Lemma zm_get_in_keys : forall k v m, zm_get k m = Some v -> In k (map fst m).
  Proof.
    intros k v m. induction m as [|[a w] t IH]; cbn [zm_get map fst]; [discriminate|].
    destruct (a =? k) eqn:E; intros H; [apply Z.eqb_eq in E; left; exact E|right; exact (IH H)].
  Qed.
  Lemma zm_in_keys_has : forall k m, In k (map fst m) -> zm_has k m = true.
  Proof.
    intros k m. unfold zm_has. induction m as [|[a w] t IH]; cbn [zm_get map fst]; [intros []|].
    intros [->|H]; [now rewrite Z.eqb_refl|]. destruct (a =? k); [reflexivity|auto].
  Qed.
End MapLemmas.

Lemma zs_mem_add : forall x y s, zs_mem x (zs_add y s) = (x =? y) || zs_mem x s.
Proof.
  intros x y s. unfold zs_mem. induction s as [|z t IH]; cbn [zs_add existsb].
  - now rewrite orb_false_r.
  - destruct (y =? z) eqn:E.
    + apply Z.eqb_eq in E. subst z. cbn [existsb]. destruct (x =? y); reflexivity.
    + destruct (y <? z); cbn [existsb]; [reflexivity|]. rewrite IH.
      destruct (x =? z), (x =? y); reflexivity.
Qed.

Lemma zs_mem_In : forall x s, zs_mem x s = true <-> In x s.
Proof.
  intros x s. unfold zs_mem. rewrite existsb_exists. split.
  - intros [y [Hy E]]. apply Z.eqb_eq in E. now subst.
  - intros H. exists x. split; [exact H|apply Z.eqb_refl].
Qed.

(** the key set of a tracker of sets under the derived updates *)
Lemma zm_has_add_to : forall k x k' (m : zmap zset), zm_has k' (zm_add_to k x m) = (k =? k') || zm_has k' m.
Proof.
  intros k x k' m. unfold zm_add_to. destruct (k =? k') eqn:E.
  - apply Z.eqb_eq in E. subst. now rewrite zm_has_set_eq.
  - apply Z.eqb_neq in E. now rewrite zm_has_set_ne.
Qed.

Lemma zm_has_del_from : forall k x k' (m : zmap zset), zm_has k' (zm_del_from k x m) = zm_has k' m.
Proof.
  intros k x k' m. unfold zm_del_from. destruct (zm_get k m) as [s|] eqn:E; [|reflexivity].
  destruct (Z.eq_dec k k') as [<-|Hne].
  - rewrite zm_has_set_eq. symmetry. apply zm_has_get. eauto.
  - now rewrite zm_has_set_ne.
Qed.

Ltac fsimp := cbn [f_now f_known f_under f_waitlist f_waittime f_waitslots f_announces f_announced f_fetching
  f_requests f_alternates f_wait_timer f_timeout_timer w_now w_known w_under w_waitlist w_waittime w_waitslots
  w_announces w_announced w_fetching w_requests w_alternates w_wait_timer w_timeout_timer rq_hashes rq_stolen rq_time].

Ltac fsimp_in H := cbn [f_now f_known f_under f_waitlist f_waittime f_waitslots f_announces f_announced f_fetching
  f_requests f_alternates f_wait_timer f_timeout_timer w_now w_known w_under w_waitlist w_waittime w_waitslots
  w_announces w_announced w_fetching w_requests w_alternates w_wait_timer w_timeout_timer rq_hashes rq_stolen rq_time] in H.

(** ** invariant 1: alternates exactly for what is being fetched *)

Definition IC (s : Fetcher) : Prop := forall h, zm_has h (f_alternates s) = zm_has h (f_fetching s).

Definition same_af (s s' : Fetcher) : Prop := f_alternates s' = f_alternates s /\ f_fetching s' = f_fetching s.

Lemma same_af_IC : forall s s', same_af s s' -> IC s -> IC s'.
Proof. intros s s' [Ha Hf] H h. rewrite Ha, Hf. apply H. Qed.

Lemma same_af_refl : forall s, same_af s s. Proof. split; reflexivity. Qed.
Lemma same_af_trans : forall a b c, same_af a b -> same_af b c -> same_af a c.
Proof. intros a b c [H1 H2] [H3 H4]. split; congruence. Qed.

Lemma reschedule_wait_af : forall s, same_af s (reschedule_wait s). Proof. intros; split; reflexivity. Qed.
Lemma reschedule_timeout_af : forall s, same_af s (reschedule_timeout s). Proof. intros; split; reflexivity. Qed.

(** *** scheduleFetches *)

Lemma sched_hash_IC : forall peer s hs hash, IC s ->
    exists s' hs', sched_hash peer (FOk s, hs) hash = (FOk s', hs') /\ IC s'.
Proof.
  intros peer s hs hash H. unfold sched_hash.
  destruct (max_tx_retrievals <=? zlen hs); [eauto|].
  destruct (zm_has hash (f_fetching s)) eqn:Ef; [eauto|].
  rewrite (H hash), Ef.
  eexists. eexists. split; [reflexivity|]. intros h. cbn.
  destruct (Z.eq_dec hash h) as [<-|Hne].
  - now rewrite !zm_has_set_eq.
  - rewrite !zm_has_set_ne by assumption. apply H.
Qed.

Lemma sched_hashes_IC : forall peer l s hs, IC s ->
    exists s' hs', fold_left (sched_hash peer) l (FOk s, hs) = (FOk s', hs') /\ IC s'.
Proof.
  induction l as [|x t IH]; intros s hs H; cbn [fold_left]; [eauto|].
  destruct (sched_hash_IC peer s hs x H) as [s1 [hs1 [E H1]]]. rewrite E. apply IH. exact H1.
Qed.

Lemma sched_peer_IC : forall k s peer, IC s -> exists s', sched_peer k s peer = FOk s' /\ IC s'.
Proof.
  intros k s peer H. unfold sched_peer.
  destruct (zm_has peer (f_requests s)); [eauto|].
  destruct (zm_get peer (f_announces s)) as [[|a l]|]; [eauto| |eauto].
  destruct (sched_hashes_IC peer (rotate k (a :: l)) s [] H) as [s1 [hs1 [E H1]]]. rewrite E.
  destruct hs1; [eauto|]. eexists. split; [reflexivity|]. exact H1.
Qed.

Lemma ffold_IC : forall {A} (f : Fetcher -> A -> fres) (l : list A) s,
    (forall s x, IC s -> exists s', f s x = FOk s' /\ IC s') -> IC s ->
    exists s', ffold f l s = FOk s' /\ IC s'.
Proof.
  intros A f l. induction l as [|x t IH]; intros s Hf H; cbn [ffold]; [eauto|].
  destruct (Hf s x H) as [s1 [E H1]]. rewrite E. cbn [fbind]. apply IH; assumption.
Qed.

(** scheduleFetches never panics when alternates mirror fetching, and keeps that *)
Lemma schedule_fetches_IC : forall w k s, IC s -> exists s', schedule_fetches w k s = FOk s' /\ IC s'.
Proof.
  intros w k s H. unfold schedule_fetches.
  destruct (match w with Some w0 => w0 | None => map fst (f_announces s) end) as [|a l] eqn:Ea; [eauto|].
  destruct (ffold_IC (sched_peer k) (rotate k (a :: l)) s (sched_peer_IC k) H) as [s1 [E H1]].
  rewrite E. cbn [fbind]. eexists. split; [reflexivity|].
  destruct (_ && _); [eapply same_af_IC; [apply reschedule_timeout_af|exact H1]|exact H1].
Qed.

(** *** the other steps keep IC whenever they complete *)

Lemma notify_one_IC : forall origin s hash, IC s -> IC (notify_one origin s hash).
Proof.
  intros origin s hash H. unfold notify_one.
  destruct (zm_has hash (f_alternates s)) eqn:Ea.
  - intros h. cbn. rewrite zm_has_add_to. destruct (hash =? h) eqn:E; [|apply H].
    apply Z.eqb_eq in E. subst h. cbn. now rewrite <- (H hash).
  - destruct (zm_has hash (f_announced s)); [intros h; cbn; apply H|].
    destruct (zm_has hash (f_waitlist s)); intros h; cbn; apply H.
Qed.

Lemma fold_notify_IC : forall origin l s, IC s -> IC (fold_left (notify_one origin) l s).
Proof. induction l as [|x t IH]; intros s H; cbn [fold_left]; [exact H|]. apply IH. now apply notify_one_IC. Qed.

Definition ok_IC (r : fres) : Prop := match r with FOk s => IC s | FCrash => True end.

Lemma fbind_IC : forall r k, ok_IC r -> (forall s, IC s -> ok_IC (k s)) -> ok_IC (fbind r k).
Proof. intros [s|] k H Hk; cbn; [apply Hk; exact H|exact I]. Qed.

Lemma ffold_okIC : forall {A} (f : Fetcher -> A -> fres) (l : list A) s,
    (forall s x, IC s -> ok_IC (f s x)) -> IC s -> ok_IC (ffold f l s).
Proof.
  intros A f l. induction l as [|x t IH]; intros s Hf H; cbn [ffold]; [exact H|].
  apply fbind_IC; [apply Hf; exact H|]. intros s1 H1. apply IH; assumption.
Qed.

Lemma schedule_ok_IC : forall w k s, IC s -> ok_IC (schedule_fetches w k s).
Proof. intros w k s H. destruct (schedule_fetches_IC w k s H) as [s' [E H']]. rewrite E. exact H'. Qed.

Lemma ev_notify_IC : forall origin hashes k s, IC s -> ok_IC (ev_notify origin hashes k s).
Proof.
  intros origin hashes k s H. unfold ev_notify.
  destruct (max_tx_announces <=? _); [exact H|].
  set (hs := if _ <? _ then _ else _).
  pose proof (fold_notify_IC origin hs s H) as H1.
  set (s1 := fold_left (notify_one origin) hs s) in *.
  assert (H2 : IC (if is_nil (f_waittime s) && negb (is_nil (f_waittime s1)) then reschedule_wait s1 else s1)).
  { destruct (_ && _); [eapply same_af_IC; [apply reschedule_wait_af|exact H1]|exact H1]. }
  destruct (negb _ && _); [apply schedule_ok_IC; exact H2|exact H2].
Qed.

(** the wait trigger does not touch alternates / fetching before it schedules *)
Lemma wait_peer_af : forall hash l s a, same_af s (fst (fold_left (wait_peer hash) l (s, a))).
Proof.
  intros hash l. induction l as [|p t IH]; intros s a; cbn [fold_left]; [apply same_af_refl|].
  unfold wait_peer at 2. eapply same_af_trans; [|apply IH]. split; reflexivity.
Qed.

Lemma wait_one_af : forall s (a : zset) e, match fst (wait_one (FOk s, a) e) with FOk s' => same_af s s' | FCrash => True end.
Proof.
  intros s a hash. unfold wait_one.
  destruct (zm_get hash (f_waittime s)) as [inst|]; [|apply same_af_refl].
  destruct (arrive_timeout <? _); [|apply same_af_refl].
  destruct (zm_has hash (f_announced s)); [exact I|].
  set (peers := match zm_get hash (f_waitlist s) with Some p => p | None => [] end).
  set (s1 := w_announced _ s).
  match goal with |- context [fold_left (wait_peer hash) peers ?acc] =>
    assert (Hw : same_af s1 (fst (fold_left (wait_peer hash) peers acc))) by apply wait_peer_af;
    destruct (fold_left (wait_peer hash) peers acc) as [s2 act] end.
  cbn [fst] in *.
  eapply same_af_trans; [|split; reflexivity]. eapply same_af_trans; [|exact Hw]. split; reflexivity.
Qed.

Lemma fold_wait_one_crash : forall l (a : zset), fst (fold_left wait_one l (FCrash, a)) = FCrash.
Proof. induction l as [|e t IH]; intros a; cbn [fold_left]; [reflexivity|]. apply IH. Qed.

Lemma fold_wait_one_af : forall l s (a : zset),
    match fst (fold_left wait_one l (FOk s, a)) with FOk s' => same_af s s' | FCrash => True end.
Proof.
  induction l as [|e t IH]; intros s a; cbn [fold_left]; [apply same_af_refl|].
  pose proof (wait_one_af s a e) as H1.
  match goal with |- context [wait_one ?acc e] => change (wait_one acc e) with (wait_one (FOk s, a) e) end.
  destruct (wait_one (FOk s, a) e) as [[s1|] a1]; cbn [fst] in H1.
  - pose proof (IH s1 a1) as H2. destruct (fst (fold_left wait_one t (FOk s1, a1))); [|exact I].
    eapply same_af_trans; eassumption.
  - rewrite fold_wait_one_crash. exact I.
Qed.

Lemma ev_wait_trigger_IC : forall k s, IC s -> ok_IC (ev_wait_trigger k s).
Proof.
  intros k s H. unfold ev_wait_trigger.
  match goal with |- context [fold_left wait_one ?l ?acc] =>
    assert (Hf : match fst (fold_left wait_one l acc) with FOk s' => same_af s s' | FCrash => True end)
      by apply (fold_wait_one_af (map fst (f_waittime s)) s []);
    destruct (fold_left wait_one l acc) as [[s1|] act] end; cbn [fst] in Hf; [|exact I].
  assert (H1 : IC s1) by (eapply same_af_IC; eassumption).
  assert (H2 : IC (if negb (is_nil (f_waittime s1)) then reschedule_wait s1 else s1)).
  { destruct (negb _); [eapply same_af_IC; [apply reschedule_wait_af|exact H1]|exact H1]. }
  destruct act; [exact H2|apply schedule_ok_IC; exact H2].
Qed.

Lemma del_both_IC : forall s hash s',
    (forall h, zm_has h (f_alternates s') = if hash =? h then false else zm_has h (f_alternates s)) ->
    (forall h, zm_has h (f_fetching s') = if hash =? h then false else zm_has h (f_fetching s)) ->
    IC s -> IC s'.
Proof. intros s hash s' Ha Hf H h. rewrite Ha, Hf. destruct (hash =? h); [reflexivity|apply H]. Qed.

Lemma has_del_if : forall {V} k h (m : zmap V), zm_has h (zm_del k m) = if k =? h then false else zm_has h m.
Proof.
  intros V k h m. destruct (k =? h) eqn:E.
  - apply Z.eqb_eq in E. subst. apply zm_has_del_eq.
  - apply Z.eqb_neq in E. now apply zm_has_del_ne.
Qed.

Lemma timeout_hash_IC : forall peer stolen s hash, IC s -> ok_IC (timeout_hash peer stolen s hash).
Proof.
  intros peer stolen s hash H. unfold timeout_hash.
  destruct (zs_mem hash stolen); [exact H|].
  destruct (zm_has hash (f_announced s)); [exact I|].
  cbn [ok_IC]. eapply (del_both_IC s hash); [| |exact H]; intros h; cbn.
  - destruct (zm_get hash (f_alternates s)); cbn; apply has_del_if.
  - destruct (zm_get hash (f_alternates s)); cbn; apply has_del_if.
Qed.

Lemma timeout_req_IC : forall s e, IC s -> ok_IC (timeout_req s e).
Proof.
  intros s peer H. unfold timeout_req.
  destruct (zm_get peer (f_requests s)) as [req|]; [|exact H].
  destruct (fetch_timeout <? _); [|exact H].
  apply fbind_IC; [apply ffold_okIC; [apply timeout_hash_IC|exact H]|].
  intros s1 H1. cbn [ok_IC]. destruct (_ =? 0); intros h; cbn; apply H1.
Qed.

Lemma ev_timeout_trigger_IC : forall k s, IC s -> ok_IC (ev_timeout_trigger k s).
Proof.
  intros k s H. unfold ev_timeout_trigger.
  apply fbind_IC; [apply ffold_okIC; [apply timeout_req_IC|exact H]|].
  intros s1 H1. apply fbind_IC; [apply schedule_ok_IC; exact H1|].
  intros s2 H2. cbn [ok_IC]. eapply same_af_IC; [apply reschedule_timeout_af|exact H2].
Qed.

Lemma cleanup_hash_IC : forall origin direct s hash, IC s -> ok_IC (cleanup_hash origin direct s hash).
Proof.
  intros origin direct s hash H. unfold cleanup_hash.
  destruct (zm_has hash (f_waitlist s)); [intros h; cbn; apply H|].
  set (s1 := w_alternates _ _).
  assert (Ha : forall h, zm_has h (f_alternates s1) = if hash =? h then false else zm_has h (f_alternates s))
    by (intros h; cbn; apply has_del_if).
  assert (Hf : f_fetching s1 = f_fetching s) by reflexivity.
  destruct (zm_get hash (f_fetching s1)) as [o|] eqn:Eo.
  - destruct (negb (o =? origin) || negb direct).
    + destruct (zm_get o (f_requests s1)); [|exact I]. cbn [ok_IC].
      eapply (del_both_IC s hash); [| |exact H]; intros h; cbn; [apply has_del_if|apply has_del_if].
    + cbn [ok_IC]. eapply (del_both_IC s hash); [| |exact H]; intros h; cbn; [apply has_del_if|apply has_del_if].
  - cbn [ok_IC]. intros h. rewrite Ha, Hf. destruct (hash =? h) eqn:E; [|apply H].
    apply Z.eqb_eq in E. subst h. symmetry. apply zm_has_false. rewrite <- Hf. exact Eo.
Qed.

Lemma direct_hash_IC : forall origin delivered stolen cutoff s i hash, IC s ->
    ok_IC (fst (direct_hash origin delivered stolen cutoff (FOk s, i) hash)).
Proof.
  intros origin delivered stolen cutoff s i hash H. unfold direct_hash.
  destruct (zs_mem hash stolen); [exact H|]. cbn [fst].
  apply fbind_IC.
  - destruct (negb (zs_mem hash delivered)); [|exact H].
    set (s1 := if i <? cutoff then _ else s).
    assert (H1 : IC s1).
    { unfold s1. destruct (i <? cutoff); [|exact H]. intros h. cbn. rewrite zm_has_del_from. apply H. }
    destruct (zm_get hash (f_alternates s1)) as [[|x a]|]; [exact H1| |exact H1].
    destruct (zm_has hash (f_announced s1)); [exact I|]. intros h. cbn. apply H1.
  - intros s2 H2. cbn [ok_IC]. eapply (del_both_IC s2 hash); [| |exact H2]; intros h; cbn; apply has_del_if.
Qed.

Lemma fold_direct_IC : forall origin delivered stolen cutoff l s i, IC s ->
    ok_IC (fst (fold_left (direct_hash origin delivered stolen cutoff) l (FOk s, i))).
Proof.
  induction l as [|x t IH]; intros s i H; cbn [fold_left]; [exact H|].
  pose proof (direct_hash_IC origin delivered stolen cutoff s i x H) as H1.
  destruct (direct_hash origin delivered stolen cutoff (FOk s, i) x) as [[s1|] i1]; cbn [fst] in H1.
  - apply IH. exact H1.
  - clear. induction t as [|y t' IH']; cbn [fold_left]; [exact I|]. exact IH'.
Qed.

Lemma ev_cleanup_IC : forall origin hashes direct k s, IC s -> ok_IC (ev_cleanup origin hashes direct k s).
Proof.
  intros origin hashes direct k s H. unfold ev_cleanup.
  apply fbind_IC; [apply ffold_okIC; [apply cleanup_hash_IC|exact H]|].
  intros s1 H1. destruct (negb direct); [exact H1|].
  destruct (zm_get origin (f_requests s1)) as [req|]; [|exact H1].
  set (s2 := w_requests _ s1). assert (H2 : IC s2) by (intros h; cbn; apply H1).
  pose proof (fold_direct_IC origin hashes (rq_stolen req) (cutoff_of hashes (rq_hashes req) 0 (zlen (rq_hashes req))) (rq_hashes req) s2 0 H2) as H3.
  destruct (fold_left _ (rq_hashes req) (FOk s2, 0)) as [[s3|] i3]; cbn [fst] in H3; [|exact I].
  apply schedule_ok_IC. exact H3.
Qed.

Lemma enqueue_pool_af : forall txs s, same_af s (enqueue_pool txs s).
Proof.
  unfold enqueue_pool. induction txs as [|p t IH]; intros s; cbn [fold_left]; [apply same_af_refl|].
  eapply same_af_trans; [|apply IH]. destruct (snd p =? 0); [split; reflexivity|].
  destruct (snd p =? 2); [split; reflexivity|apply same_af_refl].
Qed.

Lemma drop_wait_hash_af : forall peer s hash, same_af s (drop_wait_hash peer s hash).
Proof.
  intros peer s hash. unfold drop_wait_hash.
  destruct (zm_get hash (f_waitlist s)) as [ps|]; [|split; reflexivity].
  destruct (zs_del peer ps); split; reflexivity.
Qed.

Lemma fold_af : forall {A} (f : Fetcher -> A -> Fetcher) l s,
    (forall s x, same_af s (f s x)) -> same_af s (fold_left f l s).
Proof.
  intros A f l. induction l as [|x t IH]; intros s Hf; cbn [fold_left]; [apply same_af_refl|].
  eapply same_af_trans; [apply Hf|apply IH; exact Hf].
Qed.

Lemma drop_req_hash_IC : forall peer stolen s hash, IC s -> IC (drop_req_hash peer stolen s hash).
Proof.
  intros peer stolen s hash H. unfold drop_req_hash.
  destruct (zs_mem hash stolen); [exact H|].
  set (s1 := w_alternates (zm_del_from hash peer (f_alternates s)) s).
  assert (H1 : IC s1) by (intros h; cbn; rewrite zm_has_del_from; apply H).
  eapply (del_both_IC s1 hash); [| |exact H1]; intros h.
  - destruct (zm_get hash (f_alternates s1)) as [[|x a]|]; cbn; apply has_del_if.
  - destruct (zm_get hash (f_alternates s1)) as [[|x a]|]; cbn; apply has_del_if.
Qed.

Lemma fold_drop_req_IC : forall peer stolen l s, IC s -> IC (fold_left (drop_req_hash peer stolen) l s).
Proof. induction l as [|x t IH]; intros s H; cbn [fold_left]; [exact H|]. apply IH. now apply drop_req_hash_IC. Qed.

(** the three phases of the drop handler before it reschedules *)
Definition drop_body (peer : Z) (s : Fetcher) : Fetcher :=
  let s1 := match zm_get peer (f_waitslots s) with
            | Some hs =>
              let a := fold_left (drop_wait_hash peer) hs s in
              let b := w_waitslots (zm_del peer (f_waitslots a)) a in
              if negb (is_nil (f_waitlist b)) then reschedule_wait b else b
            | None => s
            end in
  let s2 := match zm_get peer (f_requests s1) with
            | Some rq =>
              let a := fold_left (drop_req_hash peer (rq_stolen rq)) (rq_hashes rq) s1 in
              w_requests (zm_del peer (f_requests a)) a
            | None => s1
            end in
  match zm_get peer (f_announces s2) with
  | Some hs =>
    let a := fold_left (drop_ann_hash peer) hs s2 in
    w_announces (zm_del peer (f_announces a)) a
  | None => s2
  end.

Lemma drop_phase1_af : forall peer s,
    same_af s (match zm_get peer (f_waitslots s) with
               | Some hs =>
                 let a := fold_left (drop_wait_hash peer) hs s in
                 let b := w_waitslots (zm_del peer (f_waitslots a)) a in
                 if negb (is_nil (f_waitlist b)) then reschedule_wait b else b
               | None => s
               end).
Proof.
  intros peer s. destruct (zm_get peer (f_waitslots s)) as [hs|]; [|apply same_af_refl].
  cbv zeta. set (a := fold_left (drop_wait_hash peer) hs s).
  assert (Ha : same_af s a) by (apply fold_af; apply drop_wait_hash_af).
  destruct (negb _); (eapply same_af_trans; [exact Ha|split; reflexivity]).
Qed.

Lemma drop_body_IC : forall peer s, IC s -> IC (drop_body peer s).
Proof.
  intros peer s H. unfold drop_body.
  set (s1 := match zm_get peer (f_waitslots s) with Some _ => _ | None => s end).
  assert (H1 : IC s1) by (eapply same_af_IC; [apply drop_phase1_af|exact H]).
  set (s2 := match zm_get peer (f_requests s1) with Some _ => _ | None => s1 end).
  assert (H2 : IC s2).
  { unfold s2. destruct (zm_get peer (f_requests s1)) as [rq|]; [|exact H1].
    cbv zeta. intros h. cbn. apply (fold_drop_req_IC peer (rq_stolen rq) (rq_hashes rq) s1 H1). }
  destruct (zm_get peer (f_announces s2)) as [hs|]; [|exact H2].
  cbv zeta. intros h. fsimp.
  assert (X : forall l s0, IC s0 -> IC (fold_left (drop_ann_hash peer) l s0)).
  { induction l as [|x t IH]; intros s0 H0; cbn [fold_left]; [exact H0|]. apply IH.
    intros h0. unfold drop_ann_hash. fsimp. rewrite zm_has_del_from. apply H0. }
  apply (X hs s2 H2).
Qed.

Lemma ev_drop_unfold : forall peer k s,
    ev_drop peer k s =
    match zm_get peer (f_requests (match zm_get peer (f_waitslots s) with
               | Some hs =>
                 let a := fold_left (drop_wait_hash peer) hs s in
                 let b := w_waitslots (zm_del peer (f_waitslots a)) a in
                 if negb (is_nil (f_waitlist b)) then reschedule_wait b else b
               | None => s
               end)) with
    | Some _ => fbind (schedule_fetches None k (drop_body peer s)) (fun s4 => FOk (reschedule_timeout s4))
    | None => FOk (drop_body peer s)
    end.
Proof. reflexivity. Qed.

Lemma ev_drop_IC : forall peer k s, IC s -> ok_IC (ev_drop peer k s).
Proof.
  intros peer k s H. rewrite ev_drop_unfold.
  pose proof (drop_body_IC peer s H) as Hb.
  match goal with |- context [match zm_get peer (f_requests ?x) with Some _ => _ | None => _ end] =>
    destruct (zm_get peer (f_requests x)) end; [|exact Hb].
  apply fbind_IC; [apply schedule_ok_IC; exact Hb|].
  intros s4 H4. cbn [ok_IC]. eapply same_af_IC; [apply reschedule_timeout_af|exact H4].
Qed.

Lemma ev_advance_IC : forall d k s, IC s -> ok_IC (ev_advance d k s).
Proof.
  intros d k s H. unfold ev_advance.
  set (s0 := w_now (f_now s + d) s). assert (H0 : IC s0) by (intros h; cbn; apply H).
  apply fbind_IC.
  - destruct (due (f_wait_timer s0) (f_now s0)); [|exact H0].
    apply ev_wait_trigger_IC. intros h. cbn. apply H0.
  - intros s1 H1. destruct (due (f_timeout_timer s1) (f_now s1)); [|exact H1].
    apply ev_timeout_trigger_IC. intros h. cbn. apply H1.
Qed.

Lemma fstep_IC : forall k s e, IC s -> ok_IC (fstep k s e).
Proof.
  intros k s [p hs|p txs direct|p|d] H; cbn [fstep].
  - destruct (notify_filter s hs); [exact H|]. apply ev_notify_IC. exact H.
  - unfold ev_enqueue. apply ev_cleanup_IC. eapply same_af_IC; [apply enqueue_pool_af|exact H].
  - apply ev_drop_IC. exact H.
  - apply ev_advance_IC. exact H.
Qed.

Lemma IC_f0 : IC f0. Proof. intros h. reflexivity. Qed.

(** whole histories (each event with its own rotation) *)
Fixpoint frun (s : Fetcher) (evs : list (Z * fev)) : fres :=
  match evs with
  | [] => FOk s
  | (k, e) :: t => fbind (fstep k s e) (fun s' => frun s' t)
  end.

Lemma frun_IC : forall evs s, IC s -> ok_IC (frun s evs).
Proof.
  induction evs as [|[k e] t IH]; intros s H; cbn [frun]; [exact H|].
  apply fbind_IC; [apply fstep_IC; exact H|]. intros s1 H1. apply IH. exact H1.
Qed.

(** ** 2. Drop(peer) forgets the peer *)

(** the fetches from [peer] are covered by its request *)
Definition covered (peer : Z) (s : Fetcher) : Prop :=
  forall h, zm_get h (f_fetching s) = Some peer ->
    exists rq, zm_get peer (f_requests s) = Some rq /\ In h (rq_hashes rq) /\ zs_mem h (rq_stolen rq) = false.

Definition no_fetch_from (peer : Z) (s : Fetcher) : Prop := forall h, zm_get h (f_fetching s) <> Some peer.

(** fetching entries only disappear in the drop body *)
Lemma drop_req_hash_fetching : forall peer stolen s hash h,
    zm_get h (f_fetching (drop_req_hash peer stolen s hash)) =
    if zs_mem hash stolen then zm_get h (f_fetching s) else if hash =? h then None else zm_get h (f_fetching s).
Proof.
  intros peer stolen s hash h. unfold drop_req_hash. destruct (zs_mem hash stolen); [reflexivity|].
  set (s1 := w_alternates _ s).
  assert (E : zm_get h (f_fetching (w_fetching (zm_del hash (f_fetching s1)) s1)) = if hash =? h then None else zm_get h (f_fetching s)).
  { cbn. destruct (hash =? h) eqn:E; [apply Z.eqb_eq in E; subst; apply zm_get_del_eq|apply Z.eqb_neq in E; now apply zm_get_del_ne]. }
  destruct (zm_get hash (f_alternates s1)) as [[|x a]|]; cbn in *; exact E.
Qed.

Lemma fold_drop_req_fetching : forall peer stolen l s h,
    zm_get h (f_fetching (fold_left (drop_req_hash peer stolen) l s)) =
    if existsb (fun x => (x =? h) && negb (zs_mem x stolen)) l then None else zm_get h (f_fetching s).
Proof.
  induction l as [|x t IH]; intros s h; cbn [fold_left existsb]; [reflexivity|].
  rewrite IH, drop_req_hash_fetching.
  destruct (existsb _ t); [now rewrite orb_true_r|]. rewrite orb_false_r.
  destruct (zs_mem x stolen); cbn [negb]; [now rewrite andb_false_r|]. rewrite andb_true_r.
  destruct (x =? h); reflexivity.
Qed.

Lemma fold_unannounce_fetching : forall peer hs s,
    f_fetching (fold_left (drop_ann_hash peer) hs s) = f_fetching s.
Proof. induction hs as [|x t IH]; intros s; cbn [fold_left]; [reflexivity|]. rewrite IH. reflexivity. Qed.

Lemma fold_unannounce_requests : forall peer hs s,
    f_requests (fold_left (drop_ann_hash peer) hs s) = f_requests s.
Proof. induction hs as [|x t IH]; intros s; cbn [fold_left]; [reflexivity|]. rewrite IH. reflexivity. Qed.

Lemma drop_body_fetching : forall peer s h,
    zm_get h (f_fetching (drop_body peer s)) =
    match zm_get peer (f_requests s) with
    | Some rq => if existsb (fun x => (x =? h) && negb (zs_mem x (rq_stolen rq))) (rq_hashes rq) then None
                 else zm_get h (f_fetching s)
    | None => zm_get h (f_fetching s)
    end.
Proof.
  intros peer s h. unfold drop_body.
  set (s1 := match zm_get peer (f_waitslots s) with Some _ => _ | None => s end).
  assert (H1 : f_fetching s1 = f_fetching s /\ f_requests s1 = f_requests s).
  { unfold s1. destruct (zm_get peer (f_waitslots s)) as [hs|]; [|split; reflexivity].
    cbv zeta. set (a := fold_left (drop_wait_hash peer) hs s).
    assert (Ha : f_fetching a = f_fetching s /\ f_requests a = f_requests s).
    { unfold a. clear. revert s. induction hs as [|x t IH]; intros s; cbn [fold_left]; [split; reflexivity|].
      destruct (IH (drop_wait_hash peer s x)) as [E1 E2]. rewrite E1, E2. unfold drop_wait_hash.
      destruct (zm_get x (f_waitlist s)) as [ps|]; [destruct (zs_del peer ps)|]; split; reflexivity. }
    destruct (negb _); cbn; exact Ha. }
  destruct H1 as [Hf Hr]. rewrite Hr.
  set (s2 := match zm_get peer (f_requests s) with Some _ => _ | None => s1 end).
  assert (H2 : zm_get h (f_fetching s2) = match zm_get peer (f_requests s) with
    | Some rq => if existsb (fun x => (x =? h) && negb (zs_mem x (rq_stolen rq))) (rq_hashes rq) then None
                 else zm_get h (f_fetching s)
    | None => zm_get h (f_fetching s) end).
  { unfold s2. destruct (zm_get peer (f_requests s)) as [rq|]; [|now rewrite Hf].
    cbv zeta. cbn. rewrite fold_drop_req_fetching, Hf. reflexivity. }
  rewrite <- H2.
  destruct (zm_get peer (f_announces s2)) as [hs|]; [|reflexivity].
  cbv zeta. cbn [f_fetching w_announces]. rewrite fold_unannounce_fetching. reflexivity.
Qed.

Lemma drop_body_no_fetch : forall peer s, covered peer s -> no_fetch_from peer (drop_body peer s).
Proof.
  intros peer s Hc h Hh. rewrite drop_body_fetching in Hh.
  destruct (zm_get peer (f_requests s)) as [rq|] eqn:Er.
  - destruct (existsb _ (rq_hashes rq)) eqn:Ex; [discriminate|].
    destruct (Hc h Hh) as [rq' [E1 [E2 E3]]]. rewrite Er in E1. inversion E1; subst rq'.
    assert (existsb (fun x => (x =? h) && negb (zs_mem x (rq_stolen rq))) (rq_hashes rq) = true).
    { apply existsb_exists. exists h. split; [exact E2|]. now rewrite Z.eqb_refl, E3. }
    congruence.
  - destruct (Hc h Hh) as [rq' [E1 _]]. congruence.
Qed.

(** the drop body removes the peer from the announcers and from the requests *)
Lemma drop_body_gone : forall peer s, zm_get peer (f_announces (drop_body peer s)) = None /\
                                      zm_get peer (f_requests (drop_body peer s)) = None.
Proof.
  intros peer s. unfold drop_body.
  set (s1 := match zm_get peer (f_waitslots s) with Some _ => _ | None => s end).
  set (s2 := match zm_get peer (f_requests s1) with Some _ => _ | None => s1 end).
  assert (Hr : zm_get peer (f_requests s2) = None).
  { unfold s2. destruct (zm_get peer (f_requests s1)) eqn:E; [cbn; apply zm_get_del_eq|exact E]. }
  destruct (zm_get peer (f_announces s2)) as [hs|] eqn:Ea.
  - cbv zeta. split; [cbn; apply zm_get_del_eq|].
    cbn [f_requests w_announces]. rewrite fold_unannounce_requests. exact Hr.
  - split; assumption.
Qed.

Lemma fold_sched_crash : forall peer l hs, fold_left (sched_hash peer) l (FCrash, hs) = (FCrash, hs).
Proof. induction l as [|x t IH]; intros hs; cbn [fold_left]; [reflexivity|]. cbn [sched_hash]. apply IH. Qed.

(** scheduling gives work only to peers that announce something *)
Lemma sched_hash_from : forall peer q s hs hash s' hs',
    sched_hash peer (FOk s, hs) hash = (FOk s', hs') -> peer <> q -> no_fetch_from q s -> no_fetch_from q s'.
Proof.
  intros peer q s hs hash s' hs' E Hne H. unfold sched_hash in E.
  destruct (max_tx_retrievals <=? zlen hs); [inversion E; subst; exact H|].
  destruct (zm_has hash (f_fetching s)); [inversion E; subst; exact H|].
  destruct (zm_has hash (f_alternates s)); [discriminate|].
  inversion E; subst. intros h. cbn.
  destruct (Z.eq_dec hash h) as [<-|Hh].
  - rewrite zm_get_set_eq. intros X. inversion X. contradiction.
  - rewrite zm_get_set_ne by assumption. apply H.
Qed.

Lemma sched_hashes_from : forall peer q l s hs s' hs',
    fold_left (sched_hash peer) l (FOk s, hs) = (FOk s', hs') -> peer <> q -> no_fetch_from q s -> no_fetch_from q s'.
Proof.
  induction l as [|x t IH]; intros s hs s' hs' E Hne H; cbn [fold_left] in E; [inversion E; subst; exact H|].
  destruct (sched_hash peer (FOk s, hs) x) as [[s1|] hs1] eqn:E1.
  - eapply IH; [exact E|exact Hne|]. eapply sched_hash_from; eassumption.
  - rewrite fold_sched_crash in E. discriminate.
Qed.

Lemma sched_peer_from : forall k q s peer s',
    sched_peer k s peer = FOk s' -> no_fetch_from q s -> zm_get q (f_announces s) = None ->
    no_fetch_from q s' /\ zm_get q (f_announces s') = None.
Proof.
  intros k q s peer s' E H Hq. unfold sched_peer in E.
  destruct (zm_has peer (f_requests s)); [inversion E; subst; auto|].
  destruct (zm_get peer (f_announces s)) as [[|a l]|] eqn:Ea; [inversion E; subst; auto| |inversion E; subst; auto].
  assert (Hne : peer <> q) by (intros ->; congruence).
  destruct (fold_left (sched_hash peer) (rotate k (a :: l)) (FOk s, [])) as [[s1|] got] eqn:Ef; [|discriminate].
  pose proof (sched_hashes_from peer q _ s [] s1 got Ef Hne H) as H1.
  assert (Han : f_announces s1 = f_announces s).
  { clear -Ef. revert Ef. generalize (@nil Z) as hs0. generalize s as s0. generalize (rotate k (a :: l)) as ll.
    induction ll as [|x t IH]; intros s0 hs0 Ef; cbn [fold_left] in Ef; [inversion Ef; reflexivity|].
    destruct (sched_hash peer (FOk s0, hs0) x) as [[s2|] hs2] eqn:E2.
    - rewrite (IH _ _ Ef). unfold sched_hash in E2.
      destruct (max_tx_retrievals <=? zlen hs0); [inversion E2; reflexivity|].
      destruct (zm_has x (f_fetching s0)); [inversion E2; reflexivity|].
      destruct (zm_has x (f_alternates s0)); [discriminate|]. inversion E2. reflexivity.
    - rewrite fold_sched_crash in Ef. discriminate. }
  destruct got as [|g gs]; inversion E; subst.
  - split; [exact H1|rewrite Han; exact Hq].
  - split; [intros h; cbn; apply H1|cbn; rewrite Han; exact Hq].
Qed.

Lemma ffold_sched_from : forall k q l s s',
    ffold (sched_peer k) l s = FOk s' -> no_fetch_from q s -> zm_get q (f_announces s) = None ->
    no_fetch_from q s'.
Proof.
  induction l as [|x t IH]; intros s s' E H Hq; cbn [ffold] in E; [inversion E; subst; exact H|].
  destruct (sched_peer k s x) as [s1|] eqn:E1; [|discriminate]. cbn [fbind] in E.
  destruct (sched_peer_from k q s x s1 E1 H Hq) as [H1 Hq1]. eapply IH; eassumption.
Qed.

Lemma schedule_from : forall w k q s s',
    schedule_fetches w k s = FOk s' -> no_fetch_from q s -> zm_get q (f_announces s) = None -> no_fetch_from q s'.
Proof.
  intros w k q s s' E H Hq. unfold schedule_fetches in E.
  destruct (match w with Some w0 => w0 | None => map fst (f_announces s) end) as [|a l]; [inversion E; subst; exact H|].
  destruct (ffold (sched_peer k) (rotate k (a :: l)) s) as [s1|] eqn:E1; [|discriminate]. cbn [fbind] in E.
  pose proof (ffold_sched_from k q _ s s1 E1 H Hq) as H1.
  inversion E; subst. destruct (_ && _); [intros h; cbn; apply H1|exact H1].
Qed.

(** Drop(peer): when the peer's fetches are covered by its request (and alternates mirror
    fetching, so that rescheduling cannot panic) the event completes and nothing is left that is
    "being fetched" from the dropped peer *)
Lemma ev_drop_forgets : forall peer k s, IC s -> covered peer s ->
    exists s', ev_drop peer k s = FOk s' /\ no_fetch_from peer s' /\ zm_get peer (f_requests s') = None.
Proof.
  intros peer k s Hic Hc. rewrite ev_drop_unfold.
  match goal with |- context [match zm_get peer (f_requests ?x) with Some _ => _ | None => _ end] =>
    destruct (zm_get peer (f_requests x)) end;
  pose proof (drop_body_IC peer s Hic) as Hb;
  pose proof (drop_body_no_fetch peer s Hc) as Hn;
  destruct (drop_body_gone peer s) as [Ha Hr].
  - destruct (schedule_fetches_IC None k (drop_body peer s) Hb) as [s4 [E H4]]. rewrite E. cbn [fbind].
    eexists. split; [reflexivity|]. split.
    + intros h. cbn. exact (schedule_from None k peer _ s4 E Hn Ha h).
    + cbn. (* scheduling creates requests only for announcers *)
      clear -E Ha Hr. unfold schedule_fetches in E.
      destruct (map fst (f_announces (drop_body peer s))) as [|a l] eqn:Ek; [inversion E; subst; exact Hr|].
      destruct (ffold (sched_peer k) (rotate k (a :: l)) (drop_body peer s)) as [s1|] eqn:E1; [|discriminate].
      cbn [fbind] in E. assert (Hs1 : zm_get peer (f_requests s1) = None).
      { revert E1 Ha Hr. generalize (drop_body peer s) as s0. generalize (rotate k (a :: l)) as ll.
        induction ll as [|x t IH]; intros s0 E1 Ha Hr; cbn [ffold] in E1; [inversion E1; subst; exact Hr|].
        destruct (sched_peer k s0 x) as [s2|] eqn:E2; [|discriminate]. cbn [fbind] in E1.
        assert (Ha2 : zm_get peer (f_announces s2) = None /\ zm_get peer (f_requests s2) = None).
        { unfold sched_peer in E2. destruct (zm_has x (f_requests s0)); [inversion E2; subst; auto|].
          destruct (zm_get x (f_announces s0)) as [[|b bl]|] eqn:Eb; [inversion E2; subst; auto| |inversion E2; subst; auto].
          assert (Hne : x <> peer) by (intros ->; congruence).
          destruct (fold_left (sched_hash x) (rotate k (b :: bl)) (FOk s0, [])) as [[s3|] got] eqn:Ef; [|discriminate].
          assert (Hsame : f_announces s3 = f_announces s0 /\ f_requests s3 = f_requests s0).
          { clear -Ef. revert Ef. generalize (@nil Z) as hs0. generalize s0 as s00. generalize (rotate k (b :: bl)) as l2.
            induction l2 as [|y t2 IH2]; intros s00 hs0 Ef; cbn [fold_left] in Ef; [inversion Ef; split; reflexivity|].
            destruct (sched_hash x (FOk s00, hs0) y) as [[s5|] hs5] eqn:E5.
            - destruct (IH2 _ _ Ef) as [A B]. rewrite A, B. unfold sched_hash in E5.
              destruct (max_tx_retrievals <=? zlen hs0); [inversion E5; split; reflexivity|].
              destruct (zm_has y (f_fetching s00)); [inversion E5; split; reflexivity|].
              destruct (zm_has y (f_alternates s00)); [discriminate|]. inversion E5. split; reflexivity.
            - rewrite fold_sched_crash in Ef. discriminate. }
          destruct Hsame as [A B]. destruct got; inversion E2; subst; cbn; rewrite ?A, ?B; auto.
          split; [exact Ha|]. rewrite zm_get_set_ne by exact Hne. exact Hr. }
        destruct Ha2 as [Ha2 Hr2]. eapply IH; eassumption. }
      inversion E; subst. destruct (_ && _); cbn; exact Hs1.
  - eexists. split; [reflexivity|]. split; [exact Hn|exact Hr].
Qed.

(** ** 3. the delivery loop and the request of the peer being fetched from *)

Definition IA (s : Fetcher) : Prop :=
  forall h p, zm_get h (f_fetching s) = Some p ->
    exists rq, zm_get p (f_requests s) = Some rq /\ In h (rq_hashes rq) /\ zs_mem h (rq_stolen rq) = false.

Lemma cleanup_hash_IA : forall origin direct s hash, IA s ->
    exists s', cleanup_hash origin direct s hash = FOk s' /\ IA s'.
Proof.
  intros origin direct s hash H. unfold cleanup_hash.
  destruct (zm_has hash (f_waitlist s)).
  { eexists. split; [reflexivity|]. intros h p. fsimp. apply H. }
  fsimp.
  destruct (zm_get hash (f_fetching s)) as [o|] eqn:Eo.
  - destruct (H hash o Eo) as [rq [E1 [E2 E3]]].
    destruct (negb (o =? origin) || negb direct).
    + rewrite E1. eexists. split; [reflexivity|]. intros h p. fsimp.
      destruct (Z.eq_dec hash h) as [<-|Hne]; [rewrite zm_get_del_eq; discriminate|].
      rewrite zm_get_del_ne by assumption. intros Hh. destruct (H h p Hh) as [rq' [F1 [F2 F3]]].
      destruct (Z.eq_dec o p) as [<-|Hop].
      * rewrite zm_get_set_eq. rewrite E1 in F1. inversion F1; subst rq'. eexists. split; [reflexivity|]. fsimp.
        split; [exact F2|]. rewrite zs_mem_add, F3, orb_false_r. apply Z.eqb_neq. congruence.
      * rewrite zm_get_set_ne by assumption. eauto.
    + eexists. split; [reflexivity|]. intros h p. fsimp.
      destruct (Z.eq_dec hash h) as [<-|Hne]; [rewrite zm_get_del_eq; discriminate|].
      rewrite zm_get_del_ne by assumption. apply H.
  - eexists. split; [reflexivity|]. intros h p. fsimp. apply H.
Qed.

(** the delivery loop (the crash site of seeded breakage a2) never dereferences a missing request *)
Lemma cleanup_loop_IA : forall origin direct hashes s, IA s ->
    exists s', ffold (cleanup_hash origin direct) hashes s = FOk s' /\ IA s'.
Proof.
  intros origin direct hashes. induction hashes as [|x t IH]; intros s H; cbn [ffold]; [eauto|].
  destruct (cleanup_hash_IA origin direct s x H) as [s1 [E H1]]. rewrite E. cbn [fbind]. apply IH. exact H1.
Qed.

(** *** IA is kept by every event *)

Definition ok_IA (r : fres) : Prop := match r with FOk s => IA s | FCrash => True end.

Lemma fbind_IA : forall r k, ok_IA r -> (forall s, IA s -> ok_IA (k s)) -> ok_IA (fbind r k).
Proof. intros [s|] k H Hk; cbn; [apply Hk; exact H|exact I]. Qed.

Lemma ffold_okIA : forall {A} (f : Fetcher -> A -> fres) (l : list A) s,
    (forall s x, IA s -> ok_IA (f s x)) -> IA s -> ok_IA (ffold f l s).
Proof.
  intros A f l. induction l as [|x t IH]; intros s Hf H; cbn [ffold]; [exact H|].
  apply fbind_IA; [apply Hf; exact H|]. intros s1 H1. apply IH; assumption.
Qed.

(** same fetching and requests *)
Definition same_fr (s s' : Fetcher) : Prop := f_fetching s' = f_fetching s /\ f_requests s' = f_requests s.
Lemma same_fr_IA : forall s s', same_fr s s' -> IA s -> IA s'.
Proof. intros s s' [Hf Hr] H h p. rewrite Hf, Hr. apply H. Qed.
Lemma same_fr_refl : forall s, same_fr s s. Proof. split; reflexivity. Qed.
Lemma same_fr_trans : forall a b c, same_fr a b -> same_fr b c -> same_fr a c.
Proof. intros a b c [H1 H2] [H3 H4]. split; congruence. Qed.

Lemma fold_fr : forall {A} (f : Fetcher -> A -> Fetcher) l s,
    (forall s x, same_fr s (f s x)) -> same_fr s (fold_left f l s).
Proof.
  intros A f l. induction l as [|x t IH]; intros s Hf; cbn [fold_left]; [apply same_fr_refl|].
  eapply same_fr_trans; [apply Hf|apply IH; exact Hf].
Qed.

(** scheduling: the fetches it creates for a peer are exactly the request it then files *)
Definition sched_Q (peer : Z) (s : Fetcher) (s0 : Fetcher) (hs0 : list Z) : Prop :=
  f_requests s0 = f_requests s /\
  forall h p, zm_get h (f_fetching s0) = Some p -> (p = peer /\ In h hs0) \/ zm_get h (f_fetching s) = Some p.

Lemma sched_hash_Q : forall peer s s0 hs0 hash s1 hs1,
    sched_Q peer s s0 hs0 -> sched_hash peer (FOk s0, hs0) hash = (FOk s1, hs1) -> sched_Q peer s s1 hs1.
Proof.
  intros peer s s0 hs0 hash s1 hs1 [Qr Qf] E. unfold sched_hash in E.
  destruct (max_tx_retrievals <=? zlen hs0); [inversion E; subst; split; assumption|].
  destruct (zm_has hash (f_fetching s0)); [inversion E; subst; split; assumption|].
  destruct (zm_has hash (f_alternates s0)); [discriminate|].
  inversion E; subst. split; [exact Qr|]. intros h p. fsimp.
  destruct (Z.eq_dec hash h) as [<-|Hne].
  - rewrite zm_get_set_eq. intros X. inversion X; subst. left. split; [reflexivity|]. apply in_or_app. right. left. reflexivity.
  - rewrite zm_get_set_ne by assumption. intros X. destruct (Qf h p X) as [[-> Hin]|Hold]; [|right; exact Hold].
    left. split; [reflexivity|]. apply in_or_app. left. exact Hin.
Qed.

Lemma sched_hashes_Q : forall peer s l s0 hs0 s1 hs1,
    sched_Q peer s s0 hs0 -> fold_left (sched_hash peer) l (FOk s0, hs0) = (FOk s1, hs1) -> sched_Q peer s s1 hs1.
Proof.
  induction l as [|x t IH]; intros s0 hs0 s1 hs1 Q E; cbn [fold_left] in E; [inversion E; subst; exact Q|].
  destruct (sched_hash peer (FOk s0, hs0) x) as [[s2|] hs2] eqn:E2.
  - eapply IH; [|exact E]. eapply sched_hash_Q; eassumption.
  - rewrite fold_sched_crash in E. discriminate.
Qed.

Lemma sched_peer_IA : forall k s peer, IA s -> ok_IA (sched_peer k s peer).
Proof.
  intros k s peer H. unfold sched_peer.
  destruct (zm_has peer (f_requests s)) eqn:Ep; [exact H|].
  destruct (zm_get peer (f_announces s)) as [[|a l]|]; [exact H| |exact H].
  destruct (fold_left (sched_hash peer) (rotate k (a :: l)) (FOk s, [])) as [[s1|] got] eqn:Ef; [|exact I].
  assert (Q0 : sched_Q peer s s []) by (split; [reflexivity|intros h p X; right; exact X]).
  destruct (sched_hashes_Q peer s _ s [] s1 got Q0 Ef) as [Qr Qf].
  apply zm_has_false in Ep.
  destruct got as [|g gs]; cbn [ok_IA].
  - intros h p X. rewrite Qr. destruct (Qf h p X) as [[_ []]|Hold]. apply H. exact Hold.
  - intros h p. fsimp. intros X. destruct (Qf h p X) as [[-> Hin]|Hold].
    + rewrite zm_get_set_eq. eexists. split; [reflexivity|]. fsimp. split; [exact Hin|reflexivity].
    + destruct (H h p Hold) as [rq [E1 E2]].
      assert (Hne : peer <> p) by (intros ->; congruence).
      rewrite zm_get_set_ne by exact Hne. rewrite Qr. eauto.
Qed.

Lemma reschedule_timeout_fr : forall s, same_fr s (reschedule_timeout s). Proof. intros; split; reflexivity. Qed.
Lemma reschedule_wait_fr : forall s, same_fr s (reschedule_wait s). Proof. intros; split; reflexivity. Qed.

Lemma schedule_ok_IA : forall w k s, IA s -> ok_IA (schedule_fetches w k s).
Proof.
  intros w k s H. unfold schedule_fetches.
  destruct (match w with Some w0 => w0 | None => map fst (f_announces s) end) as [|a l]; [exact H|].
  apply fbind_IA; [apply ffold_okIA; [apply sched_peer_IA|exact H]|].
  intros s1 H1. cbn [ok_IA]. destruct (_ && _); [eapply same_fr_IA; [apply reschedule_timeout_fr|exact H1]|exact H1].
Qed.

Lemma notify_one_fr : forall origin s hash, same_fr s (notify_one origin s hash).
Proof.
  intros origin s hash. unfold notify_one.
  destruct (zm_has hash (f_alternates s)); [split; reflexivity|].
  destruct (zm_has hash (f_announced s)); [split; reflexivity|].
  destruct (zm_has hash (f_waitlist s)); split; reflexivity.
Qed.

Lemma ev_notify_IA : forall origin hashes k s, IA s -> ok_IA (ev_notify origin hashes k s).
Proof.
  intros origin hashes k s H. unfold ev_notify.
  destruct (max_tx_announces <=? _); [exact H|].
  set (hs := if _ <? _ then _ else _).
  assert (H1 : IA (fold_left (notify_one origin) hs s)) by (eapply same_fr_IA; [apply fold_fr; apply notify_one_fr|exact H]).
  set (s1 := fold_left (notify_one origin) hs s) in *.
  assert (H2 : IA (if is_nil (f_waittime s) && negb (is_nil (f_waittime s1)) then reschedule_wait s1 else s1)).
  { destruct (_ && _); [eapply same_fr_IA; [apply reschedule_wait_fr|exact H1]|exact H1]. }
  destruct (negb _ && _); [apply schedule_ok_IA; exact H2|exact H2].
Qed.

Lemma wait_peer_fr : forall hash l s a, same_fr s (fst (fold_left (wait_peer hash) l (s, a))).
Proof.
  intros hash l. induction l as [|p t IH]; intros s a; cbn [fold_left]; [apply same_fr_refl|].
  unfold wait_peer at 2. eapply same_fr_trans; [|apply IH]. split; reflexivity.
Qed.

Lemma wait_one_fr : forall s (a : zset) e, match fst (wait_one (FOk s, a) e) with FOk s' => same_fr s s' | FCrash => True end.
Proof.
  intros s a hash. unfold wait_one.
  destruct (zm_get hash (f_waittime s)) as [inst|]; [|apply same_fr_refl].
  destruct (arrive_timeout <? _); [|apply same_fr_refl].
  destruct (zm_has hash (f_announced s)); [exact I|].
  set (peers := match zm_get hash (f_waitlist s) with Some p => p | None => [] end).
  set (s1 := w_announced _ s).
  match goal with |- context [fold_left (wait_peer hash) peers ?acc] =>
    assert (Hw : same_fr s1 (fst (fold_left (wait_peer hash) peers acc))) by apply wait_peer_fr;
    destruct (fold_left (wait_peer hash) peers acc) as [s2 act] end.
  cbn [fst] in *.
  eapply same_fr_trans; [|split; reflexivity]. eapply same_fr_trans; [|exact Hw]. split; reflexivity.
Qed.

Lemma fold_wait_one_fr : forall l s (a : zset),
    match fst (fold_left wait_one l (FOk s, a)) with FOk s' => same_fr s s' | FCrash => True end.
Proof.
  induction l as [|e t IH]; intros s a; cbn [fold_left]; [apply same_fr_refl|].
  pose proof (wait_one_fr s a e) as H1.
  match goal with |- context [wait_one ?acc e] => change (wait_one acc e) with (wait_one (FOk s, a) e) end.
  destruct (wait_one (FOk s, a) e) as [[s1|] a1]; cbn [fst] in H1.
  - pose proof (IH s1 a1) as H2. destruct (fst (fold_left wait_one t (FOk s1, a1))); [|exact I].
    eapply same_fr_trans; eassumption.
  - rewrite fold_wait_one_crash. exact I.
Qed.

Lemma ev_wait_trigger_IA : forall k s, IA s -> ok_IA (ev_wait_trigger k s).
Proof.
  intros k s H. unfold ev_wait_trigger.
  match goal with |- context [fold_left wait_one ?l ?acc] =>
    assert (Hf : match fst (fold_left wait_one l acc) with FOk s' => same_fr s s' | FCrash => True end)
      by apply (fold_wait_one_fr (map fst (f_waittime s)) s []);
    destruct (fold_left wait_one l acc) as [[s1|] act] end; cbn [fst] in Hf; [|exact I].
  assert (H1 : IA s1) by (eapply same_fr_IA; eassumption).
  assert (H2 : IA (if negb (is_nil (f_waittime s1)) then reschedule_wait s1 else s1)).
  { destruct (negb _); [eapply same_fr_IA; [apply reschedule_wait_fr|exact H1]|exact H1]. }
  destruct act; [exact H2|apply schedule_ok_IA; exact H2].
Qed.

(** a loop that only removes fetches of the listed live hashes *)
Definition removes (stolen : zset) (hashes : list Z) (s s' : Fetcher) : Prop :=
  f_requests s' = f_requests s /\
  forall h, zm_get h (f_fetching s') =
            if existsb (fun x => (x =? h) && negb (zs_mem x stolen)) hashes then None else zm_get h (f_fetching s).

Lemma removes_nil : forall stolen s, removes stolen [] s s.
Proof. intros. split; [reflexivity|intros h; reflexivity]. Qed.

Lemma removes_step : forall stolen x t s s1 s2,
    f_requests s1 = f_requests s ->
    (forall h, zm_get h (f_fetching s1) = if (x =? h) && negb (zs_mem x stolen) then None else zm_get h (f_fetching s)) ->
    removes stolen t s1 s2 -> removes stolen (x :: t) s s2.
Proof.
  intros stolen x t s s1 s2 Hr Hf [Hr2 Hf2]. split; [congruence|]. intros h. rewrite Hf2, Hf. cbn [existsb].
  destruct (existsb _ t); [now rewrite orb_true_r|]. now rewrite orb_false_r.
Qed.

Lemma timeout_hash_rm : forall peer stolen s hash s1, timeout_hash peer stolen s hash = FOk s1 ->
    f_requests s1 = f_requests s /\
    forall h, zm_get h (f_fetching s1) = if (hash =? h) && negb (zs_mem hash stolen) then None else zm_get h (f_fetching s).
Proof.
  intros peer stolen s hash s1 E. unfold timeout_hash in E.
  destruct (zs_mem hash stolen); [inversion E; subst; split; [reflexivity|intros h; now rewrite andb_false_r]|].
  destruct (zm_has hash (f_announced s)); [discriminate|].
  inversion E; subst. split; [destruct (zm_get hash (f_alternates s)); reflexivity|].
  intros h. rewrite andb_true_r.
  assert (X : forall m : zmap Z, zm_get h (zm_del hash m) = if hash =? h then None else zm_get h m).
  { intros m. destruct (hash =? h) eqn:E2; [apply Z.eqb_eq in E2; subst; apply zm_get_del_eq|apply Z.eqb_neq in E2; now apply zm_get_del_ne]. }
  destruct (zm_get hash (f_alternates s)); fsimp; apply X.
Qed.

Lemma ffold_timeout_rm : forall peer stolen l s s', ffold (timeout_hash peer stolen) l s = FOk s' -> removes stolen l s s'.
Proof.
  induction l as [|x t IH]; intros s s' E; cbn [ffold] in E; [inversion E; subst; apply removes_nil|].
  destruct (timeout_hash peer stolen s x) as [s1|] eqn:E1; [|discriminate]. cbn [fbind] in E.
  destruct (timeout_hash_rm peer stolen s x s1 E1) as [Hr Hf].
  eapply removes_step; [exact Hr|exact Hf|apply IH; exact E].
Qed.

(** after such a loop over the whole request of [peer], filing any request for [peer] restores IA *)
Lemma removes_IA : forall peer req s s1 rq', IA s -> zm_get peer (f_requests s) = Some req ->
    removes (rq_stolen req) (rq_hashes req) s s1 ->
    forall s2, f_fetching s2 = f_fetching s1 ->
      (forall p, p <> peer -> zm_get p (f_requests s2) = zm_get p (f_requests s)) ->
      zm_get peer (f_requests s2) = rq' -> IA s2.
Proof.
  intros peer req s s1 rq' H Er [Hr Hf] s2 Hf2 Hr2 _ h p X.
  rewrite Hf2, Hf in X.
  destruct (existsb _ (rq_hashes req)) eqn:Ex; [discriminate|].
  destruct (H h p X) as [rq [E1 [E2 E3]]].
  destruct (Z.eq_dec p peer) as [->|Hne].
  - rewrite Er in E1. inversion E1; subst rq.
    assert (existsb (fun x => (x =? h) && negb (zs_mem x (rq_stolen req))) (rq_hashes req) = true).
    { apply existsb_exists. exists h. split; [exact E2|]. now rewrite Z.eqb_refl, E3. }
    congruence.
  - rewrite (Hr2 p Hne). eauto.
Qed.

Lemma timeout_req_IA : forall s peer, IA s -> ok_IA (timeout_req s peer).
Proof.
  intros s peer H. unfold timeout_req.
  destruct (zm_get peer (f_requests s)) as [req|] eqn:Er; [|exact H].
  destruct (fetch_timeout <? _); [|exact H].
  destruct (ffold (timeout_hash peer (rq_stolen req)) (rq_hashes req) s) as [s1|] eqn:Ef; [|exact I].
  cbn [fbind ok_IA]. pose proof (ffold_timeout_rm peer _ _ s s1 Ef) as Hrm.
  eapply (removes_IA peer req s s1 _ H Er Hrm); [| |reflexivity].
  - destruct (_ =? 0); reflexivity.
  - intros p Hne. destruct (_ =? 0); fsimp; (rewrite zm_get_set_ne by congruence); destruct Hrm as [Hr _]; now rewrite Hr.
Qed.

Lemma ev_timeout_trigger_IA : forall k s, IA s -> ok_IA (ev_timeout_trigger k s).
Proof.
  intros k s H. unfold ev_timeout_trigger.
  apply fbind_IA; [apply ffold_okIA; [apply timeout_req_IA|exact H]|].
  intros s1 H1. apply fbind_IA; [apply schedule_ok_IA; exact H1|].
  intros s2 H2. cbn [ok_IA]. eapply same_fr_IA; [apply reschedule_timeout_fr|exact H2].
Qed.

Lemma fold_direct_crash : forall origin delivered stolen cutoff l i,
    fst (fold_left (direct_hash origin delivered stolen cutoff) l (FCrash, i)) = FCrash.
Proof. induction l as [|x t IH]; intros i; cbn [fold_left]; [reflexivity|]. cbn [direct_hash]. apply IH. Qed.

Lemma direct_hash_rm : forall origin delivered stolen cutoff s i hash s1 i1,
    direct_hash origin delivered stolen cutoff (FOk s, i) hash = (FOk s1, i1) ->
    f_requests s1 = f_requests s /\
    forall h, zm_get h (f_fetching s1) = if (hash =? h) && negb (zs_mem hash stolen) then None else zm_get h (f_fetching s).
Proof.
  intros origin delivered stolen cutoff s i hash s1 i1 E. unfold direct_hash in E.
  destruct (zs_mem hash stolen); [inversion E; subst; split; [reflexivity|intros h; now rewrite andb_false_r]|].
  match type of E with (fbind ?r _, _) = _ => destruct r as [s2|] eqn:Er end; [|discriminate].
  cbn [fbind] in E. inversion E; subst. clear E.
  assert (Hs2 : f_requests s2 = f_requests s /\ f_fetching s2 = f_fetching s).
  { destruct (negb (zs_mem hash delivered)); [|inversion Er; subst; split; reflexivity].
    set (sa := if i <? cutoff then _ else s) in *.
    assert (Ha : f_requests sa = f_requests s /\ f_fetching sa = f_fetching s) by (unfold sa; destruct (i <? cutoff); split; reflexivity).
    destruct (zm_get hash (f_alternates sa)) as [[|x a]|]; [inversion Er; subst; exact Ha| |inversion Er; subst; exact Ha].
    destruct (zm_has hash (f_announced sa)); [discriminate|]. inversion Er; subst. exact Ha. }
  destruct Hs2 as [Hr Hf]. split; [fsimp; exact Hr|]. intros h. rewrite andb_true_r. fsimp. rewrite Hf.
  destruct (hash =? h) eqn:E2; [apply Z.eqb_eq in E2; subst; apply zm_get_del_eq|apply Z.eqb_neq in E2; now apply zm_get_del_ne].
Qed.

Lemma fold_direct_rm : forall origin delivered stolen cutoff l s i s' i',
    fold_left (direct_hash origin delivered stolen cutoff) l (FOk s, i) = (FOk s', i') -> removes stolen l s s'.
Proof.
  induction l as [|x t IH]; intros s i s' i' E; cbn [fold_left] in E; [inversion E; subst; apply removes_nil|].
  destruct (direct_hash origin delivered stolen cutoff (FOk s, i) x) as [[s1|] i1] eqn:E1.
  - destruct (direct_hash_rm _ _ _ _ _ _ _ _ _ E1) as [Hr Hf].
    eapply removes_step; [exact Hr|exact Hf|eapply IH; exact E].
  - pose proof (fold_direct_crash origin delivered stolen cutoff t i1) as X. rewrite E in X. discriminate.
Qed.

Lemma ev_cleanup_IA : forall origin hashes direct k s, IA s -> ok_IA (ev_cleanup origin hashes direct k s).
Proof.
  intros origin hashes direct k s H. unfold ev_cleanup.
  destruct (cleanup_loop_IA origin direct hashes s H) as [s1 [E H1]]. rewrite E. cbn [fbind].
  destruct (negb direct); [exact H1|].
  destruct (zm_get origin (f_requests s1)) as [req|] eqn:Er; [|exact H1].
  destruct (fold_left _ (rq_hashes req) (FOk (w_requests (zm_del origin (f_requests s1)) s1), 0)) as [[s3|] i3] eqn:Ef; [|exact I].
  apply schedule_ok_IA.
  pose proof (fold_direct_rm _ _ _ _ _ _ _ _ _ Ef) as [Hr Hf].
  (* the request is removed first, then the fetches of its live hashes *)
  intros h p X. rewrite Hf in X. fsimp_in X.
  destruct (existsb _ (rq_hashes req)) eqn:Ex; [discriminate|].
  destruct (H1 h p X) as [rq [E1 [E2 E3]]].
  destruct (Z.eq_dec p origin) as [->|Hne].
  - rewrite Er in E1. inversion E1; subst rq.
    assert (existsb (fun x => (x =? h) && negb (zs_mem x (rq_stolen req))) (rq_hashes req) = true).
    { apply existsb_exists. exists h. split; [exact E2|]. now rewrite Z.eqb_refl, E3. }
    congruence.
  - rewrite Hr. fsimp. rewrite zm_get_del_ne by congruence. eauto.
Qed.

Lemma enqueue_pool_fr : forall txs s, same_fr s (enqueue_pool txs s).
Proof.
  unfold enqueue_pool. induction txs as [|p t IH]; intros s; cbn [fold_left]; [apply same_fr_refl|].
  eapply same_fr_trans; [|apply IH]. destruct (snd p =? 0); [split; reflexivity|].
  destruct (snd p =? 2); [split; reflexivity|apply same_fr_refl].
Qed.

Lemma drop_body_requests : forall peer s p,
    zm_get p (f_requests (drop_body peer s)) = if peer =? p then None else zm_get p (f_requests s).
Proof.
  intros peer s p. unfold drop_body.
  set (s1 := match zm_get peer (f_waitslots s) with Some _ => _ | None => s end).
  assert (H1 : f_requests s1 = f_requests s).
  { unfold s1. destruct (zm_get peer (f_waitslots s)) as [hs|]; [|reflexivity].
    cbv zeta. set (a := fold_left (drop_wait_hash peer) hs s).
    assert (Ha : f_requests a = f_requests s).
    { unfold a. clear. revert s. induction hs as [|x t IH]; intros s; cbn [fold_left]; [reflexivity|].
      rewrite IH. unfold drop_wait_hash.
      destruct (zm_get x (f_waitlist s)) as [ps|]; [destruct (zs_del peer ps)|]; reflexivity. }
    destruct (negb _); fsimp; exact Ha. }
  set (s2 := match zm_get peer (f_requests s1) with Some _ => _ | None => s1 end).
  assert (H2 : zm_get p (f_requests s2) = if peer =? p then None else zm_get p (f_requests s)).
  { unfold s2. rewrite H1. destruct (zm_get peer (f_requests s)) as [rq|] eqn:Er.
    - cbv zeta. fsimp.
      assert (Hfr : forall l s0, f_requests (fold_left (drop_req_hash peer (rq_stolen rq)) l s0) = f_requests s0).
      { induction l as [|x t IH]; intros s0; cbn [fold_left]; [reflexivity|]. rewrite IH. unfold drop_req_hash.
        destruct (zs_mem x (rq_stolen rq)); [reflexivity|].
        destruct (zm_get x (f_alternates (w_alternates (zm_del_from x peer (f_alternates s0)) s0))) as [[|y a]|]; reflexivity. }
      rewrite Hfr, H1.
      destruct (peer =? p) eqn:E; [apply Z.eqb_eq in E; subst; apply zm_get_del_eq|apply Z.eqb_neq in E; now apply zm_get_del_ne].
    - rewrite H1. destruct (peer =? p) eqn:E; [apply Z.eqb_eq in E; subst; exact Er|reflexivity]. }
  destruct (zm_get peer (f_announces s2)) as [hs|]; [|exact H2].
  cbv zeta. cbn [f_requests w_announces]. rewrite fold_unannounce_requests. exact H2.
Qed.

Lemma drop_body_IA : forall peer s, IA s -> IA (drop_body peer s).
Proof.
  intros peer s H h p X. rewrite drop_body_fetching in X. rewrite drop_body_requests.
  destruct (zm_get peer (f_requests s)) as [rq|] eqn:Er.
  - destruct (existsb _ (rq_hashes rq)) eqn:Ex; [discriminate|].
    destruct (H h p X) as [rq' [E1 [E2 E3]]].
    destruct (peer =? p) eqn:E.
    + apply Z.eqb_eq in E. subst p. rewrite Er in E1. inversion E1; subst rq'.
      assert (existsb (fun x => (x =? h) && negb (zs_mem x (rq_stolen rq))) (rq_hashes rq) = true).
      { apply existsb_exists. exists h. split; [exact E2|]. now rewrite Z.eqb_refl, E3. }
      congruence.
    + eauto.
  - destruct (H h p X) as [rq' [E1 E2]]. destruct (peer =? p) eqn:E; [apply Z.eqb_eq in E; subst; congruence|eauto].
Qed.

Lemma ev_drop_IA : forall peer k s, IA s -> ok_IA (ev_drop peer k s).
Proof.
  intros peer k s H. rewrite ev_drop_unfold.
  pose proof (drop_body_IA peer s H) as Hb.
  match goal with |- context [match zm_get peer (f_requests ?x) with Some _ => _ | None => _ end] =>
    destruct (zm_get peer (f_requests x)) end; [|exact Hb].
  apply fbind_IA; [apply schedule_ok_IA; exact Hb|].
  intros s4 H4. cbn [ok_IA]. eapply same_fr_IA; [apply reschedule_timeout_fr|exact H4].
Qed.

Lemma ev_advance_IA : forall d k s, IA s -> ok_IA (ev_advance d k s).
Proof.
  intros d k s H. unfold ev_advance.
  set (s0 := w_now (f_now s + d) s). assert (H0 : IA s0) by (intros h p; fsimp; apply H).
  apply fbind_IA.
  - destruct (due (f_wait_timer s0) (f_now s0)); [|exact H0].
    apply ev_wait_trigger_IA. intros h p. fsimp. apply H0.
  - intros s1 H1. destruct (due (f_timeout_timer s1) (f_now s1)); [|exact H1].
    apply ev_timeout_trigger_IA. intros h p. fsimp. apply H1.
Qed.

Lemma fstep_IA : forall k s e, IA s -> ok_IA (fstep k s e).
Proof.
  intros k s [p hs|p txs direct|p|d] H; cbn [fstep].
  - destruct (notify_filter s hs); [exact H|]. apply ev_notify_IA. exact H.
  - unfold ev_enqueue. apply ev_cleanup_IA. eapply same_fr_IA; [apply enqueue_pool_fr|exact H].
  - apply ev_drop_IA. exact H.
  - apply ev_advance_IA. exact H.
Qed.

Lemma IA_f0 : IA f0. Proof. intros h p X. discriminate. Qed.

Lemma frun_IA : forall evs s, IA s -> ok_IA (frun s evs).
Proof.
  induction evs as [|[k e] t IH]; intros s H; cbn [frun]; [exact H|].
  apply fbind_IA; [apply fstep_IA; exact H|]. intros s1 H1. apply IH. exact H1.
Qed.

(** both invariants along every history from the empty fetcher *)
Lemma frun_inv : forall evs, match frun f0 evs with FOk s => IC s /\ IA s | FCrash => True end.
Proof.
  intros evs. pose proof (frun_IC evs f0 IC_f0) as H1. pose proof (frun_IA evs f0 IA_f0) as H2.
  destruct (frun f0 evs); [split; assumption|exact I].
Qed.

Lemma IA_covered : forall s peer, IA s -> covered peer s.
Proof. intros s peer H h X. exact (H h peer X). Qed.

(** what the two invariants give at every state a history from the empty fetcher reaches *)
Lemma reachable_safe : forall evs s, frun f0 evs = FOk s ->
    (forall w k, exists s', schedule_fetches w k s = FOk s') /\
    (forall origin direct hashes, exists s', ffold (cleanup_hash origin direct) hashes s = FOk s') /\
    (forall peer k, exists s', ev_drop peer k s = FOk s' /\ no_fetch_from peer s' /\ zm_get peer (f_requests s') = None).
Proof.
  intros evs s E. pose proof (frun_inv evs) as H. rewrite E in H. destruct H as [Hc Ha].
  split; [|split].
  - intros w k. destruct (schedule_fetches_IC w k s Hc) as [s' [E' _]]. eauto.
  - intros origin direct hashes. destruct (cleanup_loop_IA origin direct hashes s Ha) as [s' [E' _]]. eauto.
  - intros peer k. apply ev_drop_forgets; [exact Hc|apply IA_covered; exact Ha].
Qed.

(** a2 as a closed example: after announce / wait / request, a Drop that keeps the "being fetched"
    mark (the seeded handler) leaves a state in which the next delivery of the transaction by
    anybody else panics; the real handler does not *)
Definition s_requested : fres :=
  fbind (fstep 0 f0 (ENotify 0 [7])) (fun s => fstep 0 s (EAdvance 500)).

Definition stale_after_drop (s : Fetcher) : Fetcher :=
  w_announces [] (w_alternates [] (w_requests [] s)).   (* everything of peer 0 forgotten, except fetching *)

Example a2_real_drop_then_delivery :
  match s_requested with
  | FOk s => match ev_drop 0 0 s with
             | FOk s' => match fstep 0 s' (EEnqueue 1 [(7, 0)] false) with FOk _ => true | FCrash => false end
             | FCrash => false
             end
  | FCrash => false
  end = true.
Proof. vm_compute. reflexivity. Qed.

Example a2_stale_fetching_then_delivery :
  match s_requested with
  | FOk s => fstep 0 (stale_after_drop s) (EEnqueue 1 [(7, 0)] false)
  | FCrash => FOk f0
  end = FCrash.
Proof. vm_compute. reflexivity. Qed.
