(** C18 — no message from a peer can crash the node: the model.

    Transcribed from /repo as it is today (HEAD 16f4308, i.e. with the C18 repairs 1dac3ea, 108de2e,
    2cdb1a0, ae9b242, 8b6016a, 512e73d, 35ce00b, 16f4308 applied):
      lib/common/bit_array.go       BitArray (Bits and Elems INDEPENDENT, as FromProto leaves them)
      consensus/msgs.go             MsgFromProto  (wire structure -> message, ValidateBasic)
      consensus/manager.go          Receive, the messages' ValidateBasic, PeerState setters,
                                    PickVoteToSend and the bit-array expression of gossipDataRoutine
      blockchain/reactor.go         Receive with its explicit RLock/RUnlock events
      lib/p2p/conn/connection.go    recvRoutine / recvPacketMsg framing limits
    Total, computable Gallina; no proofs here. *)
From Coq Require Import List ZArith NArith Bool.
From Kardia Require Import Generated.C18Facts.
Import ListNotations.
Local Open Scope Z_scope.

(** ** Outcomes *)

(** what a handler does with one delivery *)
Inductive outcome :=
| Accepted
| Rejected            (* StopPeerForError: the sending peer is dropped *)
| Crash               (* a Go panic: slice index out of range, makeslice, explicit panic *)
| LockLeak            (* the handler returned with a mutex still held *)
| Alloc (bytes : Z).  (* a single allocation above the limit *)

(** result of a bit-array primitive *)
Inductive res (A : Type) :=
| Ok (a : A)
| RCrash
| RAlloc (bytes : Z).
Arguments Ok {A} a.
Arguments RCrash {A}.
Arguments RAlloc {A} bytes.

Definition bind {A B} (r : res A) (f : A -> res B) : res B :=
  match r with Ok a => f a | RCrash => RCrash | RAlloc n => RAlloc n end.
Notation "'do' x <- r ; k" := (bind r (fun x => k)) (at level 200, x pattern, r at level 100, k at level 200).

(** allocation limit of the harness' ALLOC class: 64 MiB *)
Definition alloc_limit : Z := 67108864.

(** ** BitArray *)

Definition two64 : Z := 18446744073709551616.
Definition two63 : Z := 9223372036854775808.
Definition max_int32 : Z := 2147483647.
Definition word_mask : N := 18446744073709551615%N.

(** [ba_bits] is the Go [uint] (0 <= bits < 2^64); [ba_elems] the []uint64 *)
Record BitArray := { ba_bits : Z; ba_elems : list N }.

(** int(bA.Bits): the two's complement reading used by every index comparison *)
Definition as_int (u : Z) : Z := if u <? two63 then u else u - two64.
(** uint(int64) *)
Definition as_uint (i : Z) : Z := i mod two64.

Definition size (b : option BitArray) : Z :=
  match b with None => 0 | Some b => as_int (ba_bits b) end.

Definition len {A} (l : list A) : Z := Z.of_nat (length l).

(** (bits+63)/64 with Go's truncating division *)
Definition words_for (bits : Z) : Z := Z.quot (bits + 63) 64.

(** make([]uint64, n): panics for n < 0, zero-filled otherwise; charged against the limit *)
Definition make_words (n : Z) : res (list N) :=
  if n <? 0 then RCrash
  else if alloc_limit <? n * 8 then RAlloc (n * 8)
  else Ok (repeat 0%N (Z.to_nat n)).

(** NewBitArray(bits int) *)
Definition new_bitarray (bits : Z) : res (option BitArray) :=
  if bits <=? 0 then Ok None
  else do e <- make_words (words_for bits); Ok (Some {| ba_bits := bits; ba_elems := e |}).

Fixpoint nth_elem (l : list N) (n : nat) : option N :=
  match l, n with
  | [], _ => None
  | x :: _, O => Some x
  | _ :: t, S k => nth_elem t k
  end.

Fixpoint set_elem (l : list N) (n : nat) (v : N) : list N :=
  match l, n with
  | [], _ => []
  | _ :: t, O => v :: t
  | x :: t, S k => x :: set_elem t k v
  end.

(** getIndex(i): i >= int(Bits) -> false; else Elems[i/64] (panics when out of range) *)
Definition get_index (b : BitArray) (i : Z) : res bool :=
  if as_int (ba_bits b) <=? i then Ok false
  else if i <? 0 then RCrash
  else match nth_elem (ba_elems b) (Z.to_nat (i / 64)) with
       | None => RCrash
       | Some e => Ok (N.testbit e (Z.to_N (i mod 64)))
       end.

(** setIndex(i, v) *)
Definition set_index (b : BitArray) (i : Z) (v : bool) : res (BitArray * bool) :=
  if as_int (ba_bits b) <=? i then Ok (b, false)
  else if i <? 0 then RCrash
  else let k := Z.to_nat (i / 64) in
       match nth_elem (ba_elems b) k with
       | None => RCrash
       | Some e =>
         let e' := if v then N.setbit e (Z.to_N (i mod 64)) else N.clearbit e (Z.to_N (i mod 64)) in
         Ok ({| ba_bits := ba_bits b; ba_elems := set_elem (ba_elems b) k e' |}, true)
       end.

(** copy(dst, src) into a zero slice of n words *)
Fixpoint copy_into (n : nat) (src : list N) : list N :=
  match n with
  | O => []
  | S k => match src with
           | [] => 0%N :: copy_into k []
           | x :: t => x :: copy_into k t
           end
  end.

(** copyBits(bits int): make((bits+63)/64), copy, Bits = uint(bits) *)
Definition copy_bits (b : BitArray) (bits : Z) : res BitArray :=
  let n := words_for bits in
  if n <? 0 then RCrash
  else if alloc_limit <? n * 8 then RAlloc (n * 8)
  else Ok {| ba_bits := as_uint bits; ba_elems := copy_into (Z.to_nat n) (ba_elems b) |}.

(** copy(): same Bits, a copy of Elems (charged) *)
Definition copy (b : BitArray) : res BitArray :=
  if alloc_limit <? len (ba_elems b) * 8 then RAlloc (len (ba_elems b) * 8) else Ok b.

(** Or after repair 35ce00b: for i < len(c.Elems) && i < len(o.Elems) *)
Fixpoint zip_or (c o : list N) : list N :=
  match c, o with
  | x :: c', y :: o' => N.lor x y :: zip_or c' o'
  | _, _ => c
  end.

Definition or_ (a o : option BitArray) : res (option BitArray) :=
  match a, o with
  | None, None => Ok None
  | None, Some o => do c <- copy o; Ok (Some c)
  | Some a, None => do c <- copy a; Ok (Some c)
  | Some a, Some o =>
    do c <- copy_bits a (Z.max (as_int (ba_bits a)) (as_int (ba_bits o)));
    Ok (Some {| ba_bits := ba_bits c; ba_elems := zip_or (ba_elems c) (ba_elems o) |})
  end.

(** and(): for i < len(c.Elems) { c.Elems[i] &= o.Elems[i] } — panics when o is shorter *)
Fixpoint zip_and (c o : list N) : option (list N) :=
  match c with
  | [] => Some []
  | x :: c' => match o with
               | [] => None
               | y :: o' => match zip_and c' o' with
                            | None => None
                            | Some r => Some (N.land x y :: r)
                            end
               end
  end.

Definition and_raw (a o : BitArray) : res BitArray :=
  do c <- copy_bits a (Z.min (as_int (ba_bits a)) (as_int (ba_bits o)));
  match zip_and (ba_elems c) (ba_elems o) with
  | None => RCrash
  | Some e => Ok {| ba_bits := ba_bits c; ba_elems := e |}
  end.

Definition not_raw (b : BitArray) : res BitArray :=
  do c <- copy b;
  Ok {| ba_bits := ba_bits c; ba_elems := map (fun e => N.lxor e word_mask) (ba_elems c) |}.

Definition not_ (b : option BitArray) : res (option BitArray) :=
  match b with None => Ok None | Some b => do c <- not_raw b; Ok (Some c) end.

(** the first [n] words set to zero ("c.Elems[i] &= ^c.Elems[i]"); panics when c is shorter *)
Fixpoint zero_prefix (n : nat) (c : list N) : option (list N) :=
  match n with
  | O => Some c
  | S k => match c with
           | [] => None
           | _ :: t => match zero_prefix k t with None => None | Some r => Some (0%N :: r) end
           end
  end.

(** the bit loop of Sub's first branch: idx from [start], [n] iterations *)
Fixpoint sub_bits (n : nat) (idx : Z) (c o : BitArray) : res BitArray :=
  match n with
  | O => Ok c
  | S k =>
    do gc <- get_index c idx;
    do go <- (if gc then get_index o idx else Ok false);   (* && short-circuits *)
    do r <- set_index c idx (gc && negb go);
    sub_bits k (idx + 1) (fst r) o
  end.

(** Sub *)
Definition sub_ (a o : option BitArray) : res (option BitArray) :=
  match a, o with
  | None, _ | _, None => Ok None
  | Some a, Some o =>
    if ba_bits o <? ba_bits a then
      do c <- copy a;
      let no := length (ba_elems o) in
      match zero_prefix (pred no) (ba_elems c) with
      | None => RCrash
      | Some e =>
        let c := {| ba_bits := ba_bits c; ba_elems := e |} in
        match no with
        | O => Ok (Some c)
        | S i =>
          let start := Z.of_nat i * 64 in
          let obits := as_int (ba_bits o) in
          (* indices at or beyond 64*len(c.Elems) panic; the ones before are processed first *)
          let lim := Z.min obits (64 * len (ba_elems c)) in
          do c' <- sub_bits (Z.to_nat (lim - start)) start c o;
          if (Z.max start lim <? obits) && (Z.max start lim <? as_int (ba_bits c)) then RCrash else Ok (Some c')
        end
      end
    else
      do n <- not_raw o;
      do r <- and_raw a n;
      Ok (Some r)
  end.

(** Update: copy(bA.Elems, o.Elems) *)
Fixpoint overwrite (dst src : list N) : list N :=
  match dst, src with
  | _ :: d, y :: s => y :: overwrite d s
  | _, _ => dst
  end.

Definition update_ (a o : option BitArray) : option BitArray :=
  match a, o with
  | Some a, Some o => Some {| ba_bits := ba_bits a; ba_elems := overwrite (ba_elems a) (ba_elems o) |}
  | _, _ => a
  end.

(** PickRandom returns ok iff some pickable bit is set: any bit of a non-last word, or one of
    the first (Bits mod 64, or 64) bits of the last word *)
Fixpoint any_pickable (elems : list N) (last_bits : N) : bool :=
  match elems with
  | [] => false
  | [e] => negb (N.eqb (N.land e (N.ones last_bits)) 0)
  | e :: t => negb (N.eqb e 0) || any_pickable t last_bits
  end.

Definition last_elem_bits (b : BitArray) : N :=
  let m := (ba_bits b) mod 64 in if m =? 0 then 64%N else Z.to_N m.

Definition pick_some (b : option BitArray) : bool :=
  match b with None => false | Some b => any_pickable (ba_elems b) (last_elem_bits b) end.

(** is [idx] an index PickRandom may return? *)
Definition pickable (b : option BitArray) (idx : Z) : bool :=
  match b with
  | None => false
  | Some b =>
    (0 <=? idx) &&
    match nth_elem (ba_elems b) (Z.to_nat (idx / 64)) with
    | None => false
    | Some e =>
      N.testbit e (Z.to_N (idx mod 64)) &&
      ((idx / 64 <? len (ba_elems b) - 1) || (Z.of_N (last_elem_bits b) >? idx mod 64))
    end
  end.

(** BitArray.ValidateBasic (8b6016a) *)
Definition ba_valid (b : BitArray) : bool :=
  (ba_bits b <=? max_int32) && (len (ba_elems b) =? words_for (as_int (ba_bits b))).

(** ** Wire structures (what proto.Unmarshal hands to MsgFromProto) *)

Record WBits := { wb_bits : Z (* int64 *); wb_elems : list N }.
Record WBlockID := { w_hash : list N; w_total : Z; w_pshash : list N }.
Record WVote := { wv_type : Z; wv_height : Z; wv_round : Z; wv_bid : WBlockID; wv_index : Z; wv_siglen : Z }.

Inductive wire :=
| WRaw                                   (* proto.Unmarshal fails *)
| WUnk                                   (* no / unknown oneof *)
| WNRS (h r step secs lcr : Z)
| WNVB (h r total : Z) (hash : list N) (ba : option WBits) (iscommit : bool)
| WProp (h r polr : Z) (bid : WBlockID) (siglen : Z)
| WPOL (h polr : Z) (ba : WBits)
| WBP (h r idx byteslen leaflen naunts badaunts : Z)
| WVoteMsg (v : option WVote)
| WHV (h r t idx : Z)
| WM23 (h r t : Z) (bid : WBlockID)
| WVSB (h r t : Z) (bid : WBlockID) (ba : WBits).

(** ** Messages after MsgFromProto *)

Record BlockID := { b_hash_zero : bool; b_total : Z; b_pshash_zero : bool }.

Inductive msg :=
| MNRS (h r step secs lcr : Z)
| MNVB (h r total : Z) (ba : BitArray) (iscommit : bool)
| MProp (h r polr total : Z)
| MPOL (h polr : Z) (ba : BitArray)
| MBP (h r idx : Z)
| MVote (t h r idx : Z)
| MHV (h r t idx : Z)
| MM23 (h r t : Z)
| MVSB (h r t : Z) (ba : BitArray).

(** common.BytesToHash keeps the last 32 bytes; Hash.IsZero *)
Definition lastn {A} (n : nat) (l : list A) : list A := rev (firstn n (rev l)).
Definition hash_zero (bs : list N) : bool := forallb (N.eqb 0) (lastn 32 bs).

Definition bid_of (w : WBlockID) : BlockID :=
  {| b_hash_zero := hash_zero (w_hash w); b_total := w_total w; b_pshash_zero := hash_zero (w_pshash w) |}.
Definition psh_zero (b : BlockID) : bool := (b_total b =? 0) && b_pshash_zero b.
Definition bid_zero (b : BlockID) : bool := b_hash_zero b && psh_zero b.
Definition bid_complete (b : BlockID) : bool := negb (b_hash_zero b) && negb (psh_zero b).

Definition type_valid (t : Z) : bool := (t =? prevote_type) || (t =? precommit_type).

(** BitArray.FromProto: Bits := uint(pb.Bits); Elems copied when non-empty *)
Definition from_wbits (w : option WBits) : BitArray :=
  match w with
  | None => {| ba_bits := 0; ba_elems := [] |}
  | Some w => {| ba_bits := as_uint (wb_bits w); ba_elems := wb_elems w |}
  end.

(** MsgFromProto including the final pb.ValidateBasic(); None = error (peer stopped) *)
Definition from_proto (w : wire) : option msg :=
  match w with
  | WRaw | WUnk => None
  | WNRS h r step secs lcr =>
    let s := step mod 256 in                      (* RoundStepType is a uint8 *)
    if (step_min <=? s) && (s <=? step_max) then Some (MNRS h r s secs lcr) else None
  | WNVB h r total hash ba ic =>
    let b := from_wbits ba in
    if negb (ba_valid b) then None
    else if size (Some b) =? 0 then None
    else if negb (size (Some b) =? total) then None
    else if max_block_parts_count <? size (Some b) then None
    else Some (MNVB h r total b ic)
  | WProp h r polr bid siglen =>
    let b := bid_of bid in
    if negb (bid_complete b) then None
    else if max_block_parts_count <? b_total b then None
    else if siglen =? 0 then None
    else Some (MProp h r polr (b_total b))
  | WPOL h polr ba =>
    let b := from_wbits (Some ba) in
    if negb (ba_valid b) then None
    else if size (Some b) =? 0 then None
    else if max_votes_count <? size (Some b) then None
    else Some (MPOL h polr b)
  | WBP h r idx byteslen leaflen naunts badaunts =>
    if negb (leaflen =? merkle_size) then None
    else if negb (badaunts =? 0) then None
    else if block_part_size_bytes <? byteslen then None
    else Some (MBP h r idx)
  | WVoteMsg None => None
  | WVoteMsg (Some v) =>
    let b := bid_of (wv_bid v) in
    if negb (type_valid (wv_type v)) then None
    else if negb (bid_zero b) && negb (bid_complete b) then None
    else if wv_siglen v =? 0 then None
    else Some (MVote (wv_type v) (wv_height v) (wv_round v) (wv_index v))
  | WHV h r t idx => if type_valid t then Some (MHV h r t idx) else None
  | WM23 h r t bid => if type_valid t then Some (MM23 h r t) else None
  | WVSB h r t bid ba =>
    let b := from_wbits (Some ba) in
    if negb (type_valid t) then None
    else if negb (ba_valid b) then None
    else if max_votes_count <? size (Some b) then None
    else Some (MVSB h r t b)
  end.

(** ** PeerRoundState *)

(** [p_cc_alias]: PRS.CatchupCommit is the same object as PRS.Precommits
    (ensureCatchupCommitRound / ApplyNewRoundStepMessage assign the pointer); the shared
    array is then the one stored in [p_precommits]. *)
Record PRS := {
  p_height : Z; p_round : Z; p_step : Z;
  p_proposal : bool; p_total : Z; p_parts : option BitArray;
  p_polround : Z; p_pol : option BitArray;
  p_prevotes : option BitArray; p_precommits : option BitArray;
  p_lcr : Z; p_lc : option BitArray;
  p_ccr : Z; p_cc : option BitArray; p_cc_alias : bool }.

Definition prs0 : PRS :=
  {| p_height := 0; p_round := 0; p_step := 0; p_proposal := false; p_total := 0; p_parts := None;
     p_polround := 0; p_pol := None; p_prevotes := None; p_precommits := None;
     p_lcr := 0; p_lc := None; p_ccr := 0; p_cc := None; p_cc_alias := false |}.

Definition cc_of (p : PRS) : option BitArray := if p_cc_alias p then p_precommits p else p_cc p.

(** which slot getVoteBitArray returns *)
Inductive slot := SPrevotes | SPrecommits | SCatchup | SPOL | SLast.

Definition get_slot (p : PRS) (h r t : Z) : option slot :=
  if negb (type_valid t) then None
  else if p_height p =? h then
    if (p_round p =? r) then (if t =? prevote_type then Some SPrevotes else Some SPrecommits)
    else if (p_ccr p =? r) then (if t =? prevote_type then None else Some SCatchup)
    else if (p_polround p =? r) then (if t =? prevote_type then Some SPOL else None)
    else None
  else if p_height p =? as_uint (h + 1) then
    if (p_lcr p =? r) then (if t =? prevote_type then None else Some SLast) else None
  else None.

Definition read_slot (p : PRS) (s : slot) : option BitArray :=
  match s with
  | SPrevotes => p_prevotes p | SPrecommits => p_precommits p | SCatchup => cc_of p
  | SPOL => p_pol p | SLast => p_lc p
  end.

Definition set_parts (p : PRS) v := {| p_height := p_height p; p_round := p_round p; p_step := p_step p;
  p_proposal := p_proposal p; p_total := p_total p; p_parts := v; p_polround := p_polround p; p_pol := p_pol p;
  p_prevotes := p_prevotes p; p_precommits := p_precommits p; p_lcr := p_lcr p; p_lc := p_lc p;
  p_ccr := p_ccr p; p_cc := p_cc p; p_cc_alias := p_cc_alias p |}.
Definition set_pol (p : PRS) v := {| p_height := p_height p; p_round := p_round p; p_step := p_step p;
  p_proposal := p_proposal p; p_total := p_total p; p_parts := p_parts p; p_polround := p_polround p; p_pol := v;
  p_prevotes := p_prevotes p; p_precommits := p_precommits p; p_lcr := p_lcr p; p_lc := p_lc p;
  p_ccr := p_ccr p; p_cc := p_cc p; p_cc_alias := p_cc_alias p |}.
Definition set_prevotes (p : PRS) v := {| p_height := p_height p; p_round := p_round p; p_step := p_step p;
  p_proposal := p_proposal p; p_total := p_total p; p_parts := p_parts p; p_polround := p_polround p; p_pol := p_pol p;
  p_prevotes := v; p_precommits := p_precommits p; p_lcr := p_lcr p; p_lc := p_lc p;
  p_ccr := p_ccr p; p_cc := p_cc p; p_cc_alias := p_cc_alias p |}.
Definition set_precommits (p : PRS) v := {| p_height := p_height p; p_round := p_round p; p_step := p_step p;
  p_proposal := p_proposal p; p_total := p_total p; p_parts := p_parts p; p_polround := p_polround p; p_pol := p_pol p;
  p_prevotes := p_prevotes p; p_precommits := v; p_lcr := p_lcr p; p_lc := p_lc p;
  p_ccr := p_ccr p; p_cc := p_cc p; p_cc_alias := p_cc_alias p |}.
Definition set_lc (p : PRS) v := {| p_height := p_height p; p_round := p_round p; p_step := p_step p;
  p_proposal := p_proposal p; p_total := p_total p; p_parts := p_parts p; p_polround := p_polround p; p_pol := p_pol p;
  p_prevotes := p_prevotes p; p_precommits := p_precommits p; p_lcr := p_lcr p; p_lc := v;
  p_ccr := p_ccr p; p_cc := p_cc p; p_cc_alias := p_cc_alias p |}.
Definition set_cc (p : PRS) v (alias : bool) := {| p_height := p_height p; p_round := p_round p; p_step := p_step p;
  p_proposal := p_proposal p; p_total := p_total p; p_parts := p_parts p; p_polround := p_polround p; p_pol := p_pol p;
  p_prevotes := p_prevotes p; p_precommits := p_precommits p; p_lcr := p_lcr p; p_lc := p_lc p;
  p_ccr := p_ccr p; p_cc := v; p_cc_alias := alias |}.

Definition write_slot (p : PRS) (s : slot) (v : option BitArray) : PRS :=
  match s with
  | SPrevotes => set_prevotes p v
  | SPrecommits => set_precommits p v
  | SCatchup => if p_cc_alias p then set_precommits p v else set_cc p v false
  | SPOL => set_pol p v
  | SLast => set_lc p v
  end.

(** setHasVote *)
Definition set_has_vote (p : PRS) (h r t idx : Z) : res PRS :=
  match get_slot p h r t with
  | None => Ok p
  | Some s =>
    match read_slot p s with
    | None => Ok p
    | Some b => do r <- set_index b idx true; Ok (write_slot p s (Some (fst r)))
    end
  end.

(** ensureVoteBitArrays *)
Definition ensure_vote_bit_arrays (p : PRS) (h n : Z) : res PRS :=
  if p_height p =? h then
    do p1 <- (match p_prevotes p with Some _ => Ok p | None => do b <- new_bitarray n; Ok (set_prevotes p b) end);
    do p2 <- (match p_precommits p1 with Some _ => Ok p1 | None => do b <- new_bitarray n; Ok (set_precommits p1 b) end);
    do p3 <- (match cc_of p2 with Some _ => Ok p2 | None => do b <- new_bitarray n; Ok (set_cc p2 b false) end);
    (match p_pol p3 with Some _ => Ok p3 | None => do b <- new_bitarray n; Ok (set_pol p3 b) end)
  else if p_height p =? as_uint (h + 1) then
    (match p_lc p with Some _ => Ok p | None => do b <- new_bitarray n; Ok (set_lc p b) end)
  else Ok p.

(** ensureCatchupCommitRound *)
Definition ensure_catchup_commit_round (p : PRS) (h r n : Z) : res PRS :=
  if negb (p_height p =? h) then Ok p
  else if p_ccr p =? r then Ok p
  else
    let p' := {| p_height := p_height p; p_round := p_round p; p_step := p_step p;
      p_proposal := p_proposal p; p_total := p_total p; p_parts := p_parts p; p_polround := p_polround p; p_pol := p_pol p;
      p_prevotes := p_prevotes p; p_precommits := p_precommits p; p_lcr := p_lcr p; p_lc := p_lc p;
      p_ccr := r; p_cc := p_cc p; p_cc_alias := p_cc_alias p |} in
    if r =? p_round p then
      (* CatchupCommit = Precommits: the same object — unless Precommits is still nil *)
      Ok (set_cc p' None (match p_precommits p with Some _ => true | None => false end))
    else do b <- new_bitarray n; Ok (set_cc p' b false).

(** CompareHRS *)
Definition compare_hrs (h1 r1 s1 h2 r2 s2 : Z) : Z :=
  if h1 <? h2 then -1 else if h2 <? h1 then 1
  else if r1 <? r2 then -1 else if r2 <? r1 then 1
  else if s1 <? s2 then -1 else if s2 <? s1 then 1 else 0.

(** ApplyNewRoundStepMessage *)
Definition apply_nrs (p : PRS) (h r s lcr : Z) : PRS :=
  if compare_hrs h r s (p_height p) (p_round p) (p_step p) <=? 0 then p
  else
    let psH := p_height p in let psR := p_round p in
    let psCCR := p_ccr p in let psCC := cc_of p in
    let hr_changed := negb (psH =? h) || negb (psR =? r) in
    (* the CatchupCommit object survives the reset of Precommits: un-share it first *)
    let cc0 := psCC in
    let proposal := if hr_changed then false else p_proposal p in
    let total := if hr_changed then 0 else p_total p in
    let parts := if hr_changed then None else p_parts p in
    let polr := if hr_changed then 0 else p_polround p in
    let pol := if hr_changed then None else p_pol p in
    let prevotes := if hr_changed then None else p_prevotes p in
    let precommits1 := if hr_changed then None else p_precommits p in
    let alias1 := if hr_changed then false else p_cc_alias p in
    let take_cc := (psH =? h) && negb (psR =? r) && (r =? psCCR) in
    let precommits2 := if take_cc then psCC else precommits1 in
    let alias2 := if take_cc then (match psCC with Some _ => true | None => false end) else alias1 in
    if negb (psH =? h) then
      (* LastCommit = ps.PRS.Precommits — already reset to nil two statements earlier *)
      {| p_height := h; p_round := r; p_step := s; p_proposal := proposal; p_total := total; p_parts := parts;
         p_polround := polr; p_pol := pol; p_prevotes := prevotes; p_precommits := precommits2;
         p_lcr := lcr; p_lc := (if (as_uint (psH + 1) =? h) && (psR =? lcr) then precommits2 else None);
         p_ccr := 0; p_cc := None; p_cc_alias := false |}
    else
      {| p_height := h; p_round := r; p_step := s; p_proposal := proposal; p_total := total; p_parts := parts;
         p_polround := polr; p_pol := pol; p_prevotes := prevotes; p_precommits := precommits2;
         p_lcr := p_lcr p; p_lc := p_lc p;
         p_ccr := psCCR; p_cc := (if alias2 then None else cc0); p_cc_alias := alias2 |}.

(** NewRoundStepMessage.ValidateHeight *)
Definition nrs_height_ok (h lcr ih : Z) : bool :=
  if h <? ih then false
  else if (h =? ih) && negb (lcr =? 0) then false
  else if (ih <? h) && (lcr =? 0) then false
  else true.

(** SetHasProposal *)
Definition set_has_proposal (p : PRS) (h r polr total : Z) : res PRS :=
  if negb (p_height p =? h) || negb (p_round p =? r) then Ok p
  else if p_proposal p then Ok p
  else
    let p1 := {| p_height := p_height p; p_round := p_round p; p_step := p_step p;
      p_proposal := true; p_total := p_total p; p_parts := p_parts p; p_polround := p_polround p; p_pol := p_pol p;
      p_prevotes := p_prevotes p; p_precommits := p_precommits p; p_lcr := p_lcr p; p_lc := p_lc p;
      p_ccr := p_ccr p; p_cc := p_cc p; p_cc_alias := p_cc_alias p |} in
    match p_parts p with
    | Some _ => Ok p1
    | None =>
      do b <- new_bitarray total;
      Ok {| p_height := p_height p; p_round := p_round p; p_step := p_step p;
            p_proposal := true; p_total := total; p_parts := b; p_polround := polr; p_pol := None;
            p_prevotes := p_prevotes p; p_precommits := p_precommits p; p_lcr := p_lcr p; p_lc := p_lc p;
            p_ccr := p_ccr p; p_cc := p_cc p; p_cc_alias := p_cc_alias p |}
    end.

(** SetHasProposalBlockPart *)
Definition set_has_part (p : PRS) (h r idx : Z) : res PRS :=
  if negb (p_height p =? h) || negb (p_round p =? r) then Ok p
  else match p_parts p with
       | None => Ok p
       | Some b => do x <- set_index b idx true; Ok (set_parts p (Some (fst x)))
       end.

(** ApplyNewValidBlockMessage *)
Definition apply_nvb (p : PRS) (h r total : Z) (ba : BitArray) (ic : bool) : PRS :=
  if negb (p_height p =? h) then p
  else if negb (p_round p =? r) && negb ic then p
  else {| p_height := p_height p; p_round := p_round p; p_step := p_step p;
          p_proposal := p_proposal p; p_total := total; p_parts := Some ba; p_polround := p_polround p; p_pol := p_pol p;
          p_prevotes := p_prevotes p; p_precommits := p_precommits p; p_lcr := p_lcr p; p_lc := p_lc p;
          p_ccr := p_ccr p; p_cc := p_cc p; p_cc_alias := p_cc_alias p |}.

(** ApplyProposalPOLMessage *)
Definition apply_pol (p : PRS) (h polr : Z) (ba : BitArray) : PRS :=
  if negb (p_height p =? h) then p
  else if negb (p_polround p =? polr) then p
  else set_pol p (Some ba).

(** ApplyHasVoteMessage *)
Definition apply_hv (p : PRS) (h r t idx : Z) : res PRS :=
  if negb (p_height p =? h) then Ok p else set_has_vote p h r t idx.

(** ApplyVoteSetBitsMessage *)
Definition apply_vsb (p : PRS) (h r t : Z) (votes_msg : BitArray) (ours : option BitArray) : res PRS :=
  match get_slot p h r t with
  | None => Ok p
  | Some s =>
    match read_slot p s with
    | None => Ok p
    | Some v =>
      match ours with
      | None => Ok (write_slot p s (update_ (Some v) (Some votes_msg)))
      | Some _ =>
        do other <- sub_ (Some v) ours;
        do has <- or_ other (Some votes_msg);
        Ok (write_slot p s (update_ (Some v) has))
      end
    end
  end.

(** ** ConsensusManager.Receive *)

(** what Receive reads from the node (ConsensusState) and what the harness' bookkeeping says
    about a VoteSetMaj23 claim *)
Inductive maj23_env := M23Skip | M23NoVoteSet | M23Conflict | M23Ok.
Record env := {
  e_running : bool;          (* conR.IsRunning() *)
  e_height : Z; e_vals : Z; e_last_commit : Z; e_initial : Z;
  e_our_votes : option BitArray;   (* votes.{Prevotes,Precommits}(round).BitArrayByBlockID(id) *)
  e_maj23 : maj23_env }.

(** mutexes of the Receive paths *)
Inductive mutex := MuPeerState | MuConsState | MuBcReactor.
Inductive ev := Acq (m : mutex) | Rel (m : mutex).

(** a PeerState method: mtx.Lock(); defer mtx.Unlock() — released on panic too *)
Definition with_ps {A} (r : res A) : list ev * res A := ([Acq MuPeerState; Rel MuPeerState], r).
(** cs.mtx.Lock(); read fields; cs.mtx.Unlock() *)
Definition read_cs : list ev := [Acq MuConsState; Rel MuConsState].

Definition fin (tr : list ev) (r : res PRS) (p : PRS) : list ev * outcome * PRS :=
  match r with
  | Ok p' => (tr, Accepted, p')
  | RCrash => (tr, Crash, p)
  | RAlloc n => (tr, Alloc n, p)
  end.

(** the peer-state part of Receive for a decoded, validated message *)
Definition dispatch (e : env) (ch : Z) (m : msg) (p : PRS) : list ev * outcome * PRS :=
  if ch =? chan_state then
    match m with
    | MNRS h r s secs lcr =>
      if nrs_height_ok h lcr (e_initial e) then
        let '(tr, r) := with_ps (Ok (apply_nrs p h r s lcr)) in fin (read_cs ++ tr) r p
      else (read_cs, Accepted, p)
    | MNVB h r total ba ic => let '(tr, r) := with_ps (Ok (apply_nvb p h r total ba ic)) in fin tr r p
    | MHV h r t idx => let '(tr, r) := with_ps (apply_hv p h r t idx) in fin tr r p
    | MM23 h r t =>
      match e_maj23 e with
      | M23Conflict => (read_cs, Rejected, p)
      | _ => (read_cs, Accepted, p)
      end
    | _ => ([], Accepted, p)
    end
  else if ch =? chan_data then
    match m with
    | MProp h r polr total => let '(tr, r) := with_ps (set_has_proposal p h r polr total) in fin tr r p
    | MPOL h polr ba => let '(tr, r) := with_ps (Ok (apply_pol p h polr ba)) in fin tr r p
    | MBP h r idx => let '(tr, r) := with_ps (set_has_part p h r idx) in fin tr r p
    | _ => ([], Accepted, p)
    end
  else if ch =? chan_vote then
    match m with
    | MVote t h r idx =>
      let '(tr1, r1) := with_ps (ensure_vote_bit_arrays p (e_height e) (e_vals e)) in
      match r1 with
      | Ok p1 =>
        let '(tr2, r2) := with_ps (ensure_vote_bit_arrays p1 (e_height e - 1) (e_last_commit e)) in
        match r2 with
        | Ok p2 => let '(tr3, r3) := with_ps (set_has_vote p2 h r t idx) in
                   fin (read_cs ++ tr1 ++ tr2 ++ tr3) r3 p2
        | _ => fin (read_cs ++ tr1 ++ tr2) r2 p1
        end
      | _ => fin (read_cs ++ tr1) r1 p
      end
    | _ => ([], Accepted, p)
    end
  else if ch =? chan_vsb then
    match m with
    | MVSB h r t ba =>
      let ours := if e_height e =? h then e_our_votes e else None in
      let '(tr, r) := with_ps (apply_vsb p h r t ba ours) in fin (read_cs ++ tr) r p
    | _ => ([], Accepted, p)
    end
  else ([], Accepted, p).

Fixpoint held (tr : list ev) (acc : list mutex) : list mutex :=
  match tr with
  | [] => acc
  | Acq m :: t => held t (m :: acc)
  | Rel m :: t => held t (match acc with [] => [] | _ :: a => a end)
  end.

Definition seal (x : list ev * outcome * PRS) : outcome * PRS :=
  let '(tr, o, p) := x in
  match held tr [] with [] => (o, p) | _ => (LockLeak, p) end.

(** Receive(chID, src, msgBytes) of the consensus reactor.  [st = None]: the peer has no
    PeerState any more (RemovePeer ran) — logged and ignored since 16f4308. *)
Definition handle_trace (e : env) (ch : Z) (w : wire) (st : option PRS) : list ev * outcome * option PRS :=
  if negb (e_running e) then ([], Accepted, st)
  else match from_proto w with
       | None => ([], Rejected, st)
       | Some m =>
         match st with
         | None => ([], Accepted, None)
         | Some p => let '(tr, o, p') := dispatch e ch m p in (tr, o, Some p')
         end
       end.

Definition handle (e : env) (ch : Z) (w : wire) (st : option PRS) : outcome * option PRS :=
  let '(tr, o, s) := handle_trace e ch w st in
  match held tr [] with [] => (o, s) | _ => (LockLeak, s) end.

(** ** Gossip side (not recovered by the connection) *)

(** PickVoteToSend(votes): [some idx] must be pickable in votes.BitArray().Sub(psVotes) *)
Record voteset := { vs_height : Z; vs_round : Z; vs_type : Z; vs_size : Z; vs_commit : bool; vs_bits : option BitArray }.

Inductive pick := PickNone | PickSome | PickCrash | PickAlloc (n : Z).

(** first half: up to the PickRandom *)
Definition pick_vote_pre (p : PRS) (v : voteset) : res (PRS * option BitArray * option slot) :=
  if vs_size v =? 0 then Ok (p, None, None)
  else
    do p1 <- (if vs_commit v then ensure_catchup_commit_round p (vs_height v) (vs_round v) (vs_size v) else Ok p);
    do p2 <- ensure_vote_bit_arrays p1 (vs_height v) (vs_size v);
    match get_slot p2 (vs_height v) (vs_round v) (vs_type v) with
    | None => Ok (p2, None, None)
    | Some s =>
      match read_slot p2 s with
      | None => Ok (p2, None, None)
      | Some ps => do d <- sub_ (vs_bits v) (Some ps); Ok (p2, d, Some s)
      end
    end.

Definition pick_vote (p : PRS) (v : voteset) : pick * PRS * option BitArray :=
  match pick_vote_pre p v with
  | RCrash => (PickCrash, p, None)
  | RAlloc n => (PickAlloc n, p, None)
  | Ok (p2, d, _) => ((if pick_some d then PickSome else PickNone), p2, d)
  end.

(** second half, given the index PickRandom returned: setHasVote(height, round, type, index) *)
Definition pick_vote_post (p : PRS) (v : voteset) (idx : Z) : res PRS :=
  set_has_vote p (vs_height v) (vs_round v) (vs_type v) idx.

(** gossipDataRoutine: rs.ProposalBlockParts.BitArray().Sub(prs.ProposalBlockParts.Copy()).PickRandom() *)
Definition gossip_data (p : PRS) (has_header : bool) (ours : option BitArray) : pick * option BitArray :=
  if negb has_header then (PickNone, None)
  else
    let r := do c <- (match p_parts p with None => Ok None | Some b => do c <- copy b; Ok (Some c) end);
             sub_ ours c in
    match r with
    | RCrash => (PickCrash, None)
    | RAlloc n => (PickAlloc n, None)
    | Ok d => ((if pick_some d then PickSome else PickNone), d)
    end.

(** ** HeightVoteSet (consensus/types/height_vote_set.go): which rounds have vote sets

    [hv_round] is hvs.round (uint32), [hv_rounds] the keys of roundVoteSets, [hv_catchup] the
    rounds each peer was allowed to open beyond hvs.round (peerCatchupRounds). *)

Definition two32 : Z := 4294967296.
Record HVS := { hv_round : Z; hv_rounds : list Z; hv_catchup : list (Z * list Z) }.

Definition zmem (x : Z) (l : list Z) : bool := existsb (Z.eqb x) l.

Fixpoint alookup (k : Z) (l : list (Z * list Z)) : list Z :=
  match l with [] => [] | (a, b) :: t => if a =? k then b else alookup k t end.
Fixpoint aset (k : Z) (v : list Z) (l : list (Z * list Z)) : list (Z * list Z) :=
  match l with
  | [] => [(k, v)]
  | (a, b) :: t => if a =? k then (a, v) :: t else (a, b) :: aset k v t
  end.

(** NewHeightVoteSet: addRound(1); round = 1 *)
Definition hvs_new : HVS := {| hv_round := 1; hv_rounds := [1]; hv_catchup := [] |}.

(** addRound: PanicSanity("addRound() for an existing round") *)
Definition hvs_add_round (h : HVS) (r : Z) : res HVS :=
  if zmem r (hv_rounds h) then RCrash
  else Ok {| hv_round := hv_round h; hv_rounds := r :: hv_rounds h; hv_catchup := hv_catchup h |}.

(** the loop of SetRound: [n] iterations from [r]; a round a peer has opened already is skipped *)
Fixpoint hvs_fill (n : nat) (r : Z) (h : HVS) : res HVS :=
  match n with
  | O => Ok h
  | S k => if zmem r (hv_rounds h) then hvs_fill k (r + 1) h
           else do h' <- hvs_add_round h r; hvs_fill k (r + 1) h'
  end.

(** SetRound(round).  newRound := hvs.round - 1 in uint32.  With round = MaxUint32 the loop
    condition [r <= round] never fails (r wraps): an endless, allocating loop — [RAlloc] *)
Definition hvs_set_round (h : HVS) (round : Z) : res HVS :=
  let nr := (hv_round h - 1) mod two32 in
  if negb (hv_round h =? 1) && (round <? nr) then RCrash
  else if round =? two32 - 1 then RAlloc 0
  else do h' <- hvs_fill (Z.to_nat (round - nr + 1)) nr h;
       Ok {| hv_round := round; hv_rounds := hv_rounds h'; hv_catchup := hv_catchup h' |}.

(** AddVote(vote, peerID) up to the point where the vote reaches its VoteSet *)
Inductive hv_class := HVVoteSet | HVErrType | HVUnwanted.
Definition hvs_add_vote (h : HVS) (t r peer : Z) : res (HVS * hv_class) :=
  if negb (type_valid t) then Ok (h, HVErrType)
  else if zmem r (hv_rounds h) then Ok (h, HVVoteSet)
  else
    let rndz := alookup peer (hv_catchup h) in
    if len rndz <? 2 then
      do h' <- hvs_add_round h r;
      Ok ({| hv_round := hv_round h'; hv_rounds := hv_rounds h'; hv_catchup := aset peer (rndz ++ [r]) (hv_catchup h') |}, HVVoteSet)
    else Ok (h, HVUnwanted).

Inductive hvs_op := HAdd (t r peer : Z) | HSet (round : Z).
Definition hvs_step (h : HVS) (o : hvs_op) : res HVS :=
  match o with
  | HAdd t r peer => do x <- hvs_add_vote h t r peer; Ok (fst x)
  | HSet round => hvs_set_round h round
  end.

(** the node's use of it (consensus/state.go): updateToState makes a new set for the new height;
    enterNewRound(height, round) — only for round >= cs.Round — calls SetRound(round + 1); a vote
    of the node's height taken from the peer queue goes to AddVote with the sender's id *)
Record nodehv := { nh_height : Z; nh_hvs : HVS }.

(** what is seen of the node after one of its steps: its height and hvs.round.  A changed
    hvs.round means SetRound ran with that argument (several calls in one step end in the same
    rounds as the last one alone: each fills from the previous hvs.round - 1) *)
Definition node_observe (n : nodehv) (h hr : Z) : res nodehv :=
  let b := if nh_height n =? h then n else {| nh_height := h; nh_hvs := hvs_new |} in
  if hv_round (nh_hvs b) =? hr then Ok b
  else do hv <- hvs_set_round (nh_hvs b) hr; Ok {| nh_height := h; nh_hvs := hv |}.

Definition node_vote (n : nodehv) (t h r peer : Z) : res nodehv :=
  if nh_height n =? h then
    do x <- hvs_add_vote (nh_hvs n) t r peer;
    Ok {| nh_height := nh_height n; nh_hvs := fst x |}
  else Ok n.

(** a delivery on the vote channel that Receive queued for the consensus routine *)
Definition node_deliver (running has_ps : bool) (ch : Z) (w : wire) (peer : Z) (n : nodehv) : res nodehv :=
  if negb running || negb has_ps then Ok n
  else match from_proto w with
       | Some (MVote t h r _) => if ch =? chan_vote then node_vote n t h r peer else Ok n
       | _ => Ok n
       end.

(** ** Block-sync reactor: Receive with its lock events (structure-level model) *)

Inductive bc_msg :=
| BRaw | BStatusReq | BStatusResp (base height : Z) | BBlockReq (h : Z) | BNoBlock (h : Z)
| BBlockResp (block_ok : bool).

(** ValidateMsg *)
Definition bc_valid (m : bc_msg) : bool :=
  match m with
  | BRaw => false
  | BStatusReq => true
  | BStatusResp base h => base <=? h
  | BBlockReq h => 1 <=? h
  | BNoBlock h => 1 <=? h
  | BBlockResp ok => ok
  end.

(** today's Receive (after 2cdb1a0); [conv_ok] is the result of the second BlockFromProto
    (made with the read lock held) *)
Definition bc_receive_trace (m : bc_msg) (conv_ok : bool) : list ev * outcome :=
  if negb (bc_valid m) then ([], Rejected)
  else match m with
       | BStatusReq | BBlockReq _ => ([], Accepted)
       | BStatusResp _ _ | BNoBlock _ => ([Acq MuBcReactor; Rel MuBcReactor], Accepted)
       | BBlockResp _ =>
         if conv_ok then ([Acq MuBcReactor; Rel MuBcReactor], Accepted)
         else ([Acq MuBcReactor; Rel MuBcReactor], Accepted)   (* error path: RUnlock, return *)
       | BRaw => ([], Rejected)
       end.

(** the code before 2cdb1a0: the conversion-error path returned without RUnlock *)
Definition bc_receive_trace_old (m : bc_msg) (conv_ok : bool) : list ev * outcome :=
  if negb (bc_valid m) then ([], Rejected)
  else match m with
       | BBlockResp _ => if conv_ok then ([Acq MuBcReactor; Rel MuBcReactor], Accepted) else ([Acq MuBcReactor], Accepted)
       | _ => bc_receive_trace m conv_ok
       end.

Definition seal2 (x : list ev * outcome) : outcome :=
  match held (fst x) [] with [] => snd x | _ => LockLeak end.

Definition bc_receive (m : bc_msg) (conv_ok : bool) : outcome := seal2 (bc_receive_trace m conv_ok).
Definition bc_receive_old (m : bc_msg) (conv_ok : bool) : outcome := seal2 (bc_receive_trace_old m conv_ok).

(** ** Tx-pool, evidence, PEX: decode-level models (what happens after decoding is not modelled) *)

Inductive shallow := ShRej | ShAcc | ShRun.

(** tx pool: n items, [bad] = an item does not decode; an unknown peer is ignored *)
Inductive tx_msg := TRaw | TUnk | TTxs (n bad : Z) | TPooled (n bad : Z) | THashes (n : Z) | TReq (n : Z).
Definition tx_receive (m : tx_msg) : shallow :=
  match m with
  | TRaw | TUnk => ShRej
  | TTxs n bad | TPooled n bad => if (n =? 0) || negb (bad =? 0) then ShRej else ShAcc
  | THashes n | TReq n => if n =? 0 then ShRej else ShAcc
  end.

Inductive ev_msg := ERaw | EList (n : Z) (dec_ok : bool).
Definition ev_receive (m : ev_msg) : shallow :=
  match m with ERaw => ShRej | EList _ false => ShRej | EList _ true => ShRun end.

(** lib/p2p/netaddress.go NetAddressFromProto: an address on the wire is (does the IP string parse,
    the uint32 port); the port must fit a uint16: [pb.Port >= 1<<16] is refused *)
Definition max_port : Z := 65535.
Definition port_ok (p : Z) : bool := p <? 65536.
Definition addr_from_proto (a : bool * Z) : option Z :=
  if negb (fst a) then None else if port_ok (snd a) then Some (snd a mod 65536) else None.
(** ToProto: uint32(na.Port) of a uint16 port; the IP prints to a string that parses *)
Definition addr_to_proto (port : Z) : bool * Z := (true, port).

(** NetAddressesFromProto: the first address that does not convert fails the whole list *)
Fixpoint addrs_from_proto (l : list (bool * Z)) : option (list Z) :=
  match l with
  | [] => Some []
  | a :: t => match addr_from_proto a with
              | None => None
              | Some p => match addrs_from_proto t with None => None | Some r => Some (p :: r) end
              end
  end.

(** pex Receive: an address list is added to the book (errors of the book are logged only) when it
    converts and was asked for; otherwise the sender is stopped.  PexRequest: pacing is wall clock *)
Inductive pex_msg := PRaw | PReq | PAddrs (addrs : list (bool * Z)) (solicited : bool).
Definition pex_receive (m : pex_msg) : shallow :=
  match m with
  | PRaw => ShRej
  | PReq => ShRun
  | PAddrs l sol =>
    match addrs_from_proto l with
    | None => ShRej
    | Some _ => if sol then ShAcc else ShRej
    end
  end.

(** ** Connection framing (recvRoutine / recvPacketMsg) *)

Inductive frame :=
| FPing | FPong
| FMsg (ch : Z) (eof : bool) (datalen : Z) (pktlen : Z)
| FBigLen | FGarbage | FEmpty.

Inductive fevent := FRecv (ch : Z) (total : Z) | FErr.

Record conn_cfg := { c_max_packet : Z; c_caps : list (Z * Z) (* channel id, RecvMessageCapacity *) }.

Fixpoint lookup (k : Z) (l : list (Z * Z)) : option Z :=
  match l with [] => None | (a, b) :: t => if a =? k then Some b else lookup k t end.

Fixpoint set_assoc (k v : Z) (l : list (Z * Z)) : list (Z * Z) :=
  match l with
  | [] => [(k, v)]
  | (a, b) :: t => if a =? k then (a, v) :: t else (a, b) :: set_assoc k v t
  end.

(** one frame: the events it causes, the new per-channel "recving" lengths, and whether the
    connection is still alive *)
Definition frame_step (cfg : conn_cfg) (recving : list (Z * Z)) (f : frame) : list fevent * list (Z * Z) * bool :=
  match f with
  | FPing | FPong => ([], recving, true)
  | FBigLen | FGarbage | FEmpty => ([FErr], recving, false)
  | FMsg ch eof dl pl =>
    if c_max_packet cfg <? pl then ([FErr], recving, false)
    else
      let c := ch mod 256 in                       (* byte(pkt.PacketMsg.ChannelID) *)
      match lookup c (c_caps cfg) with
      | None => ([FErr], recving, false)
      | Some cap =>
        let cur := match lookup c recving with Some x => x | None => 0 end in
        if cap <? cur + dl then ([FErr], recving, false)
        else if eof then ([FRecv c (cur + dl)], set_assoc c 0 recving, true)
        else ([], set_assoc c (cur + dl) recving, true)
      end
  end.

Fixpoint frames_run (cfg : conn_cfg) (recving : list (Z * Z)) (fs : list frame) : list fevent :=
  match fs with
  | [] => []
  | f :: t =>
    let '(evs, r', alive) := frame_step cfg recving f in
    if alive then evs ++ frames_run cfg r' t else evs
  end.

(** ** Wire round trip of the modelled consensus messages *)

(** ToProto of a well-formed message (what MustEncode writes, seen through Unmarshal) *)
Definition to_wbits (b : BitArray) : WBits := {| wb_bits := as_int (ba_bits b); wb_elems := ba_elems b |}.

(** checksum of a word list, for the compact state digest printed by harness and driver *)
Definition digest_mod : N := 2305843009213693951%N.
Definition digest (l : list N) : N :=
  fold_left (fun acc x => ((acc * 1000003 + x + 1) mod digest_mod)%N) l 0%N.
