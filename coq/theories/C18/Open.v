(** C18 — statements that are NOT proved (the property is PARTIAL by design).  Kept as
    Definitions so that they are type-checked and visible; nothing here is used by Properties.v. *)
From Coq Require Import List ZArith NArith Bool.
From Kardia Require Import C18.Model C18.ModelFetcher C18.ProofsBits C18.Proofs C18.ProofsFetcher C18.ProofsFetcherEmpty.
Local Open Scope Z_scope.

(** 1. No hang: the real handlers return within a deadline.  Measured by the harness watchdog
    (2 s per delivery) and the lock probes, not modelled: the model has no notion of time, channel
    capacity (peerMsgQueue, BlockchainReactor.events under RLock) or scheduling. *)

(** 2. Real allocation: C18_alloc_bound covers the bit-array allocations of the modelled handlers
    (constant bound).  The general statement "bytes allocated by Receive <= c * |msg| + const" for
    protobuf decoding, the part set, the tx pool, the evidence pool and the address book is measured
    (64 MiB per delivery), not proved. *)

(** 3. The consensus state machine behind peerMsgQueue (handleMsg: setProposal,
    addProposalBlockPart, tryAddVote up to signature verification) is not modelled here; every
    queued message is executed under recover by the harness (that is how the nil-LastCommit
    CONSENSUS FAILURE was found).  Full statement, for a model [handle_msg] of handleMsg: *)
Definition open_consensus_routine_no_crash (handle_msg : msg -> PRS -> outcome) : Prop :=
  forall m p, msg_ok m -> wf_prs p -> handle_msg m p <> Crash.

(** 4. The evidence reactor is modelled at decode level only ([ev_receive]); block-sync
    scheduler/processor (duplicate-height enqueue) are exercised by the harness with the real
    routines running, not modelled.  The PEX address decoder and the tx fetcher are modelled
    (Model.pex_receive, ModelFetcher.v). *)

(** 5. The fetcher: IC and IA are proved inductive over all histories (C18_fetcher_invariants), the
    index part of GOOD for every event except a direct reply (C18_fetcher_index_invariant_partial).
    Not proved inductive: the stage-disjointness part of [fetcher_ok] (queued / waiting / fetching are
    exclusive; the live hashes of a request are exactly what is being fetched from that peer; no hash
    twice in a request), which excludes the remaining three explicit panics ("announce tracker already
    contains waitlist item", "announced tracker already contains alternate item" twice) and carries
    the index part through a partial direct reply.  It is evaluated on every state the model reaches
    and checked on the implementation's trackers after every event.  The full statements: *)
Definition open_fetcher_no_crash : Prop :=
  forall evs, ProofsFetcher.frun ModelFetcher.f0 evs <> ModelFetcher.FCrash.
Definition open_fetcher_good_invariant : Prop :=
  forall evs s, ProofsFetcher.frun ModelFetcher.f0 evs = ModelFetcher.FOk s -> ProofsFetcherEmpty.GOOD s.
