(** C18 — the transaction fetcher behind the tx-pool channel: the model.

    Transcribed from /repo mainchain/fetcher/tx_fetcher.go (the automaton of TxFetcher.loop):
    tx_pool.Reactor.Receive turns NewPooledTransactionHashes into Notify, Txs / PooledTransactions
    into Enqueue (-> the cleanup event), and Reactor.RemovePeer into Drop.  Hashes and peers are
    integers (the harness numbers the hashes in byte order and the peers in string order, the order
    forEachHash / forEachPeer use in test mode before rotating by rand.Intn); time is in
    milliseconds.  Every Go map is kept separately, as in the code: the eight trackers are
    redundant indexes of each other and the crash sites are exactly the places that rely on their
    consistency.  Total, computable Gallina; no proofs here. *)
From Coq Require Import List ZArith Bool.
From Kardia Require Import Generated.C18Facts.
Import ListNotations.
Local Open Scope Z_scope.

(** ** finite sets and maps over Z (sorted insertion: the listing order is the iteration order) *)

Definition zset := list Z.

Fixpoint zs_add (x : Z) (s : zset) : zset :=
  match s with
  | [] => [x]
  | y :: t => if x =? y then s else if x <? y then x :: s else y :: zs_add x t
  end.
Definition zs_del (x : Z) (s : zset) : zset := filter (fun y => negb (y =? x)) s.
Definition zs_mem (x : Z) (s : zset) : bool := existsb (Z.eqb x) s.
Definition zlen {A} (l : list A) : Z := Z.of_nat (length l).

Section Maps.
  Context {V : Type}.
  Definition zmap := list (Z * V).
  Fixpoint zm_get (k : Z) (m : zmap) : option V :=
    match m with [] => None | (a, v) :: t => if a =? k then Some v else zm_get k t end.
  Fixpoint zm_set (k : Z) (v : V) (m : zmap) : zmap :=
    match m with
    | [] => [(k, v)]
    | (a, w) :: t => if a =? k then (a, v) :: t else if k <? a then (k, v) :: m else (a, w) :: zm_set k v t
    end.
  Definition zm_del (k : Z) (m : zmap) : zmap := filter (fun p => negb (fst p =? k)) m.
  Definition zm_has (k : Z) (m : zmap) : bool := match zm_get k m with Some _ => true | None => false end.
End Maps.
Arguments zmap V : clear implicits.

(** m[k][x] = struct{}{} (the inner map is made when missing) *)
Definition zm_add_to (k x : Z) (m : zmap zset) : zmap zset :=
  zm_set k (zs_add x (match zm_get k m with Some s => s | None => [] end)) m.
(** delete(m[k], x) — nothing happens when m[k] is missing *)
Definition zm_del_from (k x : Z) (m : zmap zset) : zmap zset :=
  match zm_get k m with Some s => zm_set k (zs_del x s) m | None => m end.
(** delete(m[k], x); if len(m[k]) == 0 { delete(m, k) } *)
Definition zm_del_from_norm (k x : Z) (m : zmap zset) : zmap zset :=
  match zm_get k m with
  | Some s => match zs_del x s with [] => zm_del k m | s' => zm_set k s' m end
  | None => m
  end.
(** for k, set := range m { delete(set, x); if len(set) == 0 { delete(m, k) } } *)
Definition zm_purge (x : Z) (m : zmap zset) : zmap zset :=
  filter (fun p => match snd p with [] => false | _ => true end) (map (fun p => (fst p, zs_del x (snd p))) m).
Definition set_len (k : Z) (m : zmap zset) : Z := match zm_get k m with Some s => zlen s | None => 0 end.

(** rotateStrings / rotateHashes(list, n): slice[i] = orig[(i+n) % len] *)
Definition rotate {A} (n : Z) (l : list A) : list A :=
  match l with
  | [] => []
  | _ => let k := Z.to_nat (n mod zlen l) in skipn k l ++ firstn k l
  end.

(** ** state *)

Record Req := { rq_hashes : list Z;  (* nil once the request has timed out ("dangling") *)
                rq_stolen : zset; rq_time : Z }.

Record Fetcher := {
  f_now : Z;
  f_known : zset;                (* hasTx: what the pool has *)
  f_under : zset;                (* underpriced *)
  f_waitlist : zmap zset;        (* hash -> peers *)
  f_waittime : zmap Z;           (* hash -> instance *)
  f_waitslots : zmap zset;       (* peer -> hashes *)
  f_announces : zmap zset;       (* peer -> hashes *)
  f_announced : zmap zset;       (* hash -> peers *)
  f_fetching : zmap Z;           (* hash -> peer *)
  f_requests : zmap Req;         (* peer -> request *)
  f_alternates : zmap zset;      (* hash -> peers *)
  f_wait_timer : option Z;       (* deadline of waitTimer while it is armed *)
  f_timeout_timer : option Z }.

Definition f0 : Fetcher :=
  {| f_now := 0; f_known := []; f_under := []; f_waitlist := []; f_waittime := []; f_waitslots := [];
     f_announces := []; f_announced := []; f_fetching := []; f_requests := []; f_alternates := [];
     f_wait_timer := None; f_timeout_timer := None |}.

Definition w_now v s := {| f_now := v; f_known := f_known s; f_under := f_under s; f_waitlist := f_waitlist s; f_waittime := f_waittime s; f_waitslots := f_waitslots s; f_announces := f_announces s; f_announced := f_announced s; f_fetching := f_fetching s; f_requests := f_requests s; f_alternates := f_alternates s; f_wait_timer := f_wait_timer s; f_timeout_timer := f_timeout_timer s |}.
Definition w_known v s := {| f_now := f_now s; f_known := v; f_under := f_under s; f_waitlist := f_waitlist s; f_waittime := f_waittime s; f_waitslots := f_waitslots s; f_announces := f_announces s; f_announced := f_announced s; f_fetching := f_fetching s; f_requests := f_requests s; f_alternates := f_alternates s; f_wait_timer := f_wait_timer s; f_timeout_timer := f_timeout_timer s |}.
Definition w_under v s := {| f_now := f_now s; f_known := f_known s; f_under := v; f_waitlist := f_waitlist s; f_waittime := f_waittime s; f_waitslots := f_waitslots s; f_announces := f_announces s; f_announced := f_announced s; f_fetching := f_fetching s; f_requests := f_requests s; f_alternates := f_alternates s; f_wait_timer := f_wait_timer s; f_timeout_timer := f_timeout_timer s |}.
Definition w_waitlist v s := {| f_now := f_now s; f_known := f_known s; f_under := f_under s; f_waitlist := v; f_waittime := f_waittime s; f_waitslots := f_waitslots s; f_announces := f_announces s; f_announced := f_announced s; f_fetching := f_fetching s; f_requests := f_requests s; f_alternates := f_alternates s; f_wait_timer := f_wait_timer s; f_timeout_timer := f_timeout_timer s |}.
Definition w_waittime v s := {| f_now := f_now s; f_known := f_known s; f_under := f_under s; f_waitlist := f_waitlist s; f_waittime := v; f_waitslots := f_waitslots s; f_announces := f_announces s; f_announced := f_announced s; f_fetching := f_fetching s; f_requests := f_requests s; f_alternates := f_alternates s; f_wait_timer := f_wait_timer s; f_timeout_timer := f_timeout_timer s |}.
Definition w_waitslots v s := {| f_now := f_now s; f_known := f_known s; f_under := f_under s; f_waitlist := f_waitlist s; f_waittime := f_waittime s; f_waitslots := v; f_announces := f_announces s; f_announced := f_announced s; f_fetching := f_fetching s; f_requests := f_requests s; f_alternates := f_alternates s; f_wait_timer := f_wait_timer s; f_timeout_timer := f_timeout_timer s |}.
Definition w_announces v s := {| f_now := f_now s; f_known := f_known s; f_under := f_under s; f_waitlist := f_waitlist s; f_waittime := f_waittime s; f_waitslots := f_waitslots s; f_announces := v; f_announced := f_announced s; f_fetching := f_fetching s; f_requests := f_requests s; f_alternates := f_alternates s; f_wait_timer := f_wait_timer s; f_timeout_timer := f_timeout_timer s |}.
Definition w_announced v s := {| f_now := f_now s; f_known := f_known s; f_under := f_under s; f_waitlist := f_waitlist s; f_waittime := f_waittime s; f_waitslots := f_waitslots s; f_announces := f_announces s; f_announced := v; f_fetching := f_fetching s; f_requests := f_requests s; f_alternates := f_alternates s; f_wait_timer := f_wait_timer s; f_timeout_timer := f_timeout_timer s |}.
Definition w_fetching v s := {| f_now := f_now s; f_known := f_known s; f_under := f_under s; f_waitlist := f_waitlist s; f_waittime := f_waittime s; f_waitslots := f_waitslots s; f_announces := f_announces s; f_announced := f_announced s; f_fetching := v; f_requests := f_requests s; f_alternates := f_alternates s; f_wait_timer := f_wait_timer s; f_timeout_timer := f_timeout_timer s |}.
Definition w_requests v s := {| f_now := f_now s; f_known := f_known s; f_under := f_under s; f_waitlist := f_waitlist s; f_waittime := f_waittime s; f_waitslots := f_waitslots s; f_announces := f_announces s; f_announced := f_announced s; f_fetching := f_fetching s; f_requests := v; f_alternates := f_alternates s; f_wait_timer := f_wait_timer s; f_timeout_timer := f_timeout_timer s |}.
Definition w_alternates v s := {| f_now := f_now s; f_known := f_known s; f_under := f_under s; f_waitlist := f_waitlist s; f_waittime := f_waittime s; f_waitslots := f_waitslots s; f_announces := f_announces s; f_announced := f_announced s; f_fetching := f_fetching s; f_requests := f_requests s; f_alternates := v; f_wait_timer := f_wait_timer s; f_timeout_timer := f_timeout_timer s |}.
Definition w_wait_timer v s := {| f_now := f_now s; f_known := f_known s; f_under := f_under s; f_waitlist := f_waitlist s; f_waittime := f_waittime s; f_waitslots := f_waitslots s; f_announces := f_announces s; f_announced := f_announced s; f_fetching := f_fetching s; f_requests := f_requests s; f_alternates := f_alternates s; f_wait_timer := v; f_timeout_timer := f_timeout_timer s |}.
Definition w_timeout_timer v s := {| f_now := f_now s; f_known := f_known s; f_under := f_under s; f_waitlist := f_waitlist s; f_waittime := f_waittime s; f_waitslots := f_waitslots s; f_announces := f_announces s; f_announced := f_announced s; f_fetching := f_fetching s; f_requests := f_requests s; f_alternates := f_alternates s; f_wait_timer := f_wait_timer s; f_timeout_timer := v |}.

(** a loop iteration either completes or panics (the loop is a bare goroutine: the process dies) *)
Inductive fres := FOk (s : Fetcher) | FCrash.
Definition fbind (r : fres) (k : Fetcher -> fres) : fres := match r with FOk s => k s | FCrash => FCrash end.

Fixpoint ffold {A} (f : Fetcher -> A -> fres) (l : list A) (s : Fetcher) : fres :=
  match l with
  | [] => FOk s
  | x :: t => fbind (f s x) (ffold f t)
  end.

(** constants of tx_fetcher.go, in milliseconds (C18Facts) *)
Definition arrive_timeout : Z := tx_arrive_timeout_ms.
Definition gather_slack : Z := tx_gather_slack_ms.
Definition fetch_timeout : Z := tx_fetch_timeout_ms.

(** ** timers *)

(** rescheduleWait: the earliest waittime instance (the early break of the Go loop can stop at
    another instance that is also within gatherSlack of expiring; the harness does not call it in
    such states) *)
Definition reschedule_wait (s : Fetcher) : Fetcher :=
  let earliest := fold_left (fun e p => Z.min e (snd p)) (f_waittime s) (f_now s) in
  w_wait_timer (Some (f_now s + (arrive_timeout - (f_now s - earliest)))) s.

(** rescheduleTimeout: the earliest request that has not timed out yet *)
Definition reschedule_timeout (s : Fetcher) : Fetcher :=
  let earliest := fold_left (fun e p => match rq_hashes (snd p) with [] => e | _ => Z.min e (rq_time (snd p)) end)
                            (f_requests s) (f_now s) in
  w_timeout_timer (Some (f_now s + (fetch_timeout - (f_now s - earliest)))) s.

(** ** scheduleFetches *)

(** the forEachHash body for one peer: returns the state and the hashes allotted so far *)
Definition sched_hash (peer : Z) (acc : fres * list Z) (hash : Z) : fres * list Z :=
  match acc with
  | (FCrash, hs) => (FCrash, hs)
  | (FOk s, hs) =>
    if max_tx_retrievals <=? zlen hs then (FOk s, hs)            (* the for-each was left *)
    else if zm_has hash (f_fetching s) then (FOk s, hs)
    else if zm_has hash (f_alternates s) then (FCrash, hs)        (* "alternate tracker already contains fetching item" *)
    else
      let s1 := w_fetching (zm_set hash peer (f_fetching s)) s in
      let alt := match zm_get hash (f_announced s1) with Some a => a | None => [] end in
      let s2 := w_alternates (zm_set hash alt (f_alternates s1)) s1 in
      let s3 := w_announced (zm_del hash (f_announced s2)) s2 in
      (FOk s3, hs ++ [hash])
  end.

Definition sched_peer (k : Z) (s : Fetcher) (peer : Z) : fres :=
  if zm_has peer (f_requests s) then FOk s
  else match zm_get peer (f_announces s) with
       | None | Some [] => FOk s
       | Some hs =>
         match fold_left (sched_hash peer) (rotate k hs) (FOk s, []) with
         | (FCrash, _) => FCrash
         | (FOk s', []) => FOk s'
         | (FOk s', got) =>
           FOk (w_requests (zm_set peer {| rq_hashes := got; rq_stolen := []; rq_time := f_now s' |} (f_requests s')) s')
         end
       end.

Definition schedule_fetches (whitelist : option zset) (k : Z) (s : Fetcher) : fres :=
  let actives := match whitelist with Some w => w | None => map fst (f_announces s) end in
  match actives with
  | [] => FOk s
  | _ =>
    let idle := match f_requests s with [] => true | _ => false end in
    fbind (ffold (sched_peer k) (rotate k actives) s) (fun s' =>
      FOk (if idle && negb (match f_requests s' with [] => true | _ => false end) then reschedule_timeout s' else s'))
  end.

(** ** case ann := <-f.notify *)

Definition notify_one (origin : Z) (s : Fetcher) (hash : Z) : Fetcher :=
  if zm_has hash (f_alternates s) then
    w_announces (zm_add_to origin hash (f_announces s)) (w_alternates (zm_add_to hash origin (f_alternates s)) s)
  else if zm_has hash (f_announced s) then
    w_announces (zm_add_to origin hash (f_announces s)) (w_announced (zm_add_to hash origin (f_announced s)) s)
  else if zm_has hash (f_waitlist s) then
    w_waitslots (zm_add_to origin hash (f_waitslots s)) (w_waitlist (zm_add_to hash origin (f_waitlist s)) s)
  else
    w_waitslots (zm_add_to origin hash (f_waitslots s))
      (w_waittime (zm_set hash (f_now s) (f_waittime s)) (w_waitlist (zm_set hash [origin] (f_waitlist s)) s)).

Definition is_nil {A} (l : list A) : bool := match l with [] => true | _ => false end.

(** [hashes]: what Notify passes on — the announced hashes that the pool does not have and that
    are not marked underpriced; nothing is sent to the loop when none is left *)
Definition notify_filter (s : Fetcher) (hashes : list Z) : list Z :=
  filter (fun h => negb (zs_mem h (f_known s)) && negb (zs_mem h (f_under s))) hashes.

Definition ev_notify (origin : Z) (hashes : list Z) (k : Z) (s : Fetcher) : fres :=
  let used := set_len origin (f_waitslots s) + set_len origin (f_announces s) in
  if max_tx_announces <=? used then FOk s
  else
    let want := used + zlen hashes in
    let hs := if max_tx_announces <? want then firstn (Z.to_nat (want - max_tx_announces)) hashes else hashes in
    let idle_wait := is_nil (f_waittime s) in
    let old_peer := zm_has origin (f_announces s) in
    let s1 := fold_left (notify_one origin) hs s in
    let s2 := if idle_wait && negb (is_nil (f_waittime s1)) then reschedule_wait s1 else s1 in
    if negb old_peer && (0 <? set_len origin (f_announces s2)) then schedule_fetches (Some [origin]) k s2
    else FOk s2.

(** ** case <-waitTrigger *)

Definition wait_peer (hash : Z) (acc : Fetcher * zset) (peer : Z) : Fetcher * zset :=
  let '(s, actives) := acc in
  (w_waitslots (zm_del_from_norm peer hash (f_waitslots s)) (w_announces (zm_add_to peer hash (f_announces s)) s),
   zs_add peer actives).

(** for hash, instance := range f.waittime — the keys as listed, the instance as it is now *)
Definition wait_one (acc : fres * zset) (hash : Z) : fres * zset :=
  match acc with
  | (FCrash, a) => (FCrash, a)
  | (FOk s, actives) =>
    match zm_get hash (f_waittime s) with
    | None => (FOk s, actives)
    | Some instance =>
      if arrive_timeout <? (f_now s - instance) + gather_slack then
        if zm_has hash (f_announced s) then (FCrash, actives)     (* "announce tracker already contains waitlist item" *)
        else
          let peers := match zm_get hash (f_waitlist s) with Some p => p | None => [] end in
          let s1 := w_announced (zm_set hash peers (f_announced s)) s in
          let '(s2, act) := fold_left (wait_peer hash) peers (s1, actives) in
          (FOk (w_waitlist (zm_del hash (f_waitlist s2)) (w_waittime (zm_del hash (f_waittime s2)) s2)), act)
      else (FOk s, actives)
    end
  end.

Definition ev_wait_trigger (k : Z) (s : Fetcher) : fres :=
  match fold_left wait_one (map fst (f_waittime s)) (FOk s, []) with
  | (FCrash, _) => FCrash
  | (FOk s1, actives) =>
    let s2 := if negb (is_nil (f_waittime s1)) then reschedule_wait s1 else s1 in
    match actives with [] => FOk s2 | _ => schedule_fetches (Some actives) k s2 end
  end.

(** ** case <-timeoutTrigger *)

Definition timeout_hash (peer : Z) (stolen : zset) (s : Fetcher) (hash : Z) : fres :=
  if zs_mem hash stolen then FOk s
  else if zm_has hash (f_announced s) then FCrash               (* "announced tracker already contains alternate item" *)
  else
    let s1 := match zm_get hash (f_alternates s) with
              | Some a => w_announced (zm_set hash a (f_announced s)) s
              | None => s
              end in
    let s2 := w_announced (zm_del_from_norm hash peer (f_announced s1)) s1 in
    let s3 := w_announces (zm_del_from peer hash (f_announces s2)) s2 in
    FOk (w_fetching (zm_del hash (f_fetching s3)) (w_alternates (zm_del hash (f_alternates s3)) s3)).

(** for peer, req := range f.requests — the keys as listed, the request as it is now *)
Definition timeout_req (s : Fetcher) (peer : Z) : fres :=
  match zm_get peer (f_requests s) with
  | None => FOk s
  | Some req =>
    if fetch_timeout <? (f_now s - rq_time req) + gather_slack then
      fbind (ffold (timeout_hash peer (rq_stolen req)) (rq_hashes req) s) (fun s1 =>
        let s2 := if set_len peer (f_announces s1) =? 0 then w_announces (zm_del peer (f_announces s1)) s1 else s1 in
        FOk (w_requests (zm_set peer {| rq_hashes := []; rq_stolen := rq_stolen req; rq_time := rq_time req |} (f_requests s2)) s2))
    else FOk s
  end.

Definition ev_timeout_trigger (k : Z) (s : Fetcher) : fres :=
  fbind (ffold timeout_req (map fst (f_requests s)) s) (fun s1 =>
    fbind (schedule_fetches None k s1) (fun s2 => FOk (reschedule_timeout s2))).

(** ** case delivery := <-f.cleanup *)

Definition cleanup_hash (origin : Z) (direct : bool) (s : Fetcher) (hash : Z) : fres :=
  if zm_has hash (f_waitlist s) then
    FOk (w_waittime (zm_del hash (f_waittime s))
          (w_waitlist (zm_del hash (f_waitlist s)) (w_waitslots (zm_purge hash (f_waitslots s)) s)))
  else
    let s1 := w_alternates (zm_del hash (f_alternates s))
               (w_announced (zm_del hash (f_announced s)) (w_announces (zm_purge hash (f_announces s)) s)) in
    match zm_get hash (f_fetching s1) with
    | Some o =>
      if negb (o =? origin) || negb direct then
        match zm_get o (f_requests s1) with
        | None => FCrash                                              (* f.requests[origin].stolen on a nil request *)
        | Some rq =>
          FOk (w_fetching (zm_del hash (f_fetching s1))
                (w_requests (zm_set o {| rq_hashes := rq_hashes rq; rq_stolen := zs_add hash (rq_stolen rq); rq_time := rq_time rq |} (f_requests s1)) s1))
        end
      else FOk (w_fetching (zm_del hash (f_fetching s1)) s1)
    | None => FOk s1
    end.

(** index of the last delivered hash of the request, len(req.hashes) when none *)
Fixpoint cutoff_of (delivered : list Z) (hs : list Z) (i : Z) (cur : Z) : Z :=
  match hs with
  | [] => cur
  | h :: t => cutoff_of delivered t (i + 1) (if zs_mem h delivered then i else cur)
  end.

Definition direct_hash (origin : Z) (delivered : list Z) (stolen : zset) (cutoff : Z) (acc : fres * Z) (hash : Z) : fres * Z :=
  match acc with
  | (FCrash, i) => (FCrash, i)
  | (FOk s, i) =>
    if zs_mem hash stolen then (FOk s, i + 1)
    else
      let r :=
        if negb (zs_mem hash delivered) then
          let s1 := if i <? cutoff then
                      w_announces (zm_del_from_norm origin hash (f_announces s))
                        (w_alternates (zm_del_from hash origin (f_alternates s)) s)
                    else s in
          match zm_get hash (f_alternates s1) with
          | Some ((_ :: _) as a) =>
            if zm_has hash (f_announced s1) then FCrash             (* "announced tracker already contains alternate item" *)
            else FOk (w_announced (zm_set hash a (f_announced s1)) s1)
          | _ => FOk s1
          end
        else FOk s in
      (fbind r (fun s2 => FOk (w_fetching (zm_del hash (f_fetching s2)) (w_alternates (zm_del hash (f_alternates s2)) s2))), i + 1)
  end.

Definition ev_cleanup (origin : Z) (hashes : list Z) (direct : bool) (k : Z) (s : Fetcher) : fres :=
  fbind (ffold (cleanup_hash origin direct) hashes s) (fun s1 =>
    if negb direct then FOk s1
    else match zm_get origin (f_requests s1) with
         | None => FOk s1                                             (* "Unexpected transaction delivery" *)
         | Some req =>
           let s2 := w_requests (zm_del origin (f_requests s1)) s1 in
           let cutoff := cutoff_of hashes (rq_hashes req) 0 (zlen (rq_hashes req)) in
           match fold_left (direct_hash origin hashes (rq_stolen req) cutoff) (rq_hashes req) (FOk s2, 0) with
           | (FCrash, _) => FCrash
           | (FOk s3, _) => schedule_fetches None k s3
           end
         end).

(** Enqueue: the pool's verdict per transaction decides what is added to the underpriced set and
    what is reported to the loop as delivered.  verdict: 0 ok, 1 already known, 2 underpriced,
    3 blacklisted sender (left out of the delivery), 4 other rejection *)
Definition enqueue_added (txs : list (Z * Z)) : list Z :=
  map fst (filter (fun p => negb (snd p =? 3)) txs).
Definition enqueue_pool (txs : list (Z * Z)) (s : Fetcher) : Fetcher :=
  fold_left (fun s p =>
    if snd p =? 0 then w_known (zs_add (fst p) (f_known s)) s
    else if snd p =? 2 then w_under (zs_add (fst p) (f_under s)) s
    else s) txs s.
Definition ev_enqueue (origin : Z) (txs : list (Z * Z)) (direct : bool) (k : Z) (s : Fetcher) : fres :=
  ev_cleanup origin (enqueue_added txs) direct k (enqueue_pool txs s).

(** ** case drop := <-f.drop *)

Definition drop_wait_hash (peer : Z) (s : Fetcher) (hash : Z) : Fetcher :=
  match zm_get hash (f_waitlist s) with
  | Some ps =>
    match zs_del peer ps with
    | [] => w_waittime (zm_del hash (f_waittime s)) (w_waitlist (zm_del hash (f_waitlist s)) s)
    | ps' => w_waitlist (zm_set hash ps' (f_waitlist s)) s
    end
  | None => w_waittime (zm_del hash (f_waittime s)) s      (* len(nil) == 0: both deletes run *)
  end.

Definition drop_req_hash (peer : Z) (stolen : zset) (s : Fetcher) (hash : Z) : Fetcher :=
  if zs_mem hash stolen then s
  else
    let s1 := w_alternates (zm_del_from hash peer (f_alternates s)) s in
    let s2 := match zm_get hash (f_alternates s1) with
              | Some ((_ :: _) as a) =>
                w_alternates (zm_del hash (f_alternates s1)) (w_announced (zm_set hash a (f_announced s1)) s1)
              | _ => w_alternates (zm_del hash (f_alternates s1)) s1
              end in
    w_fetching (zm_del hash (f_fetching s2)) s2.

(** the general announcement tracking of the dropped peer: out of the queued origins of the hash,
    and (95b0505) out of the alternates of a hash that is in flight from somebody else *)
Definition drop_ann_hash (peer : Z) (s : Fetcher) (h : Z) : Fetcher :=
  w_alternates (zm_del_from h peer (f_alternates s)) (w_announced (zm_del_from_norm h peer (f_announced s)) s).

Definition ev_drop (peer : Z) (k : Z) (s : Fetcher) : fres :=
  let s1 := match zm_get peer (f_waitslots s) with
            | Some hs =>
              let a := fold_left (drop_wait_hash peer) hs s in
              let b := w_waitslots (zm_del peer (f_waitslots a)) a in
              if negb (is_nil (f_waitlist b)) then reschedule_wait b else b
            | None => s
            end in
  let request := zm_get peer (f_requests s1) in
  let s2 := match request with
            | Some rq =>
              let a := fold_left (drop_req_hash peer (rq_stolen rq)) (rq_hashes rq) s1 in
              w_requests (zm_del peer (f_requests a)) a
            | None => s1
            end in
  let s3 := match zm_get peer (f_announces s2) with
            | Some hs =>
              let a := fold_left (drop_ann_hash peer) hs s2 in
              w_announces (zm_del peer (f_announces a)) a
            | None => s2
            end in
  match request with
  | Some _ => fbind (schedule_fetches None k s3) (fun s4 => FOk (reschedule_timeout s4))
  | None => FOk s3
  end.

(** ** the clock: Run(d) moves the time and fires what is due (callbacks run after the clock has
    reached the end of the interval; the wait trigger first when both are due) *)
Definition due (t : option Z) (now : Z) : bool := match t with Some d => d <=? now | None => false end.

Definition ev_advance (d : Z) (k : Z) (s : Fetcher) : fres :=
  let s0 := w_now (f_now s + d) s in
  fbind (if due (f_wait_timer s0) (f_now s0) then ev_wait_trigger k (w_wait_timer None s0) else FOk s0) (fun s1 =>
    if due (f_timeout_timer s1) (f_now s1) then ev_timeout_trigger k (w_timeout_timer None s1) else FOk s1).

(** ** events *)

Inductive fev :=
| ENotify (peer : Z) (hashes : list Z)        (* Notify(peer, hashes): filtered by the pool first *)
| EEnqueue (peer : Z) (txs : list (Z * Z)) (direct : bool)
| EDrop (peer : Z)
| EAdvance (d : Z).

Definition fstep (k : Z) (s : Fetcher) (e : fev) : fres :=
  match e with
  | ENotify p hs => match notify_filter s hs with [] => FOk s | u => ev_notify p u k s end
  | EEnqueue p txs direct => ev_enqueue p txs direct k s
  | EDrop p => ev_drop p k s
  | EAdvance d => ev_advance d k s
  end.

(** ** the consistency the crash sites rely on, as a computable check (the harness evaluates the
    same conditions on the implementation's trackers after every event) *)

(** every hash being fetched belongs to a request that exists, lists it and has not marked it
    stolen; and it has an alternates entry *)
Definition chk_fetching (s : Fetcher) : bool :=
  forallb (fun p => match zm_get (snd p) (f_requests s) with
                    | Some rq => zs_mem (fst p) (rq_hashes rq) && negb (zs_mem (fst p) (rq_stolen rq))
                    | None => false
                    end && zm_has (fst p) (f_alternates s)) (f_fetching s).
(** every live hash of a request is being fetched from that peer *)
Definition chk_requests (s : Fetcher) : bool :=
  forallb (fun p => forallb (fun h => zs_mem h (rq_stolen (snd p)) ||
                                       match zm_get h (f_fetching s) with Some o => o =? fst p | None => false end)
                            (rq_hashes (snd p))) (f_requests s).
(** alternates only for hashes being fetched; queued and waiting hashes are not being fetched *)
Definition chk_stages (s : Fetcher) : bool :=
  forallb (fun p => zm_has (fst p) (f_fetching s)) (f_alternates s) &&
  forallb (fun p => negb (zm_has (fst p) (f_fetching s)) && negb (zm_has (fst p) (f_waitlist s))) (f_announced s) &&
  forallb (fun p => negb (zm_has (fst p) (f_fetching s))) (f_waitlist s) &&
  forallb (fun p => zm_has (fst p) (f_waitlist s)) (f_waittime s).
(** a queued announcement of a peer is tracked under the hash as well *)
Definition chk_announces (s : Fetcher) : bool :=
  forallb (fun p => forallb (fun h =>
      if zm_has h (f_fetching s) then match zm_get h (f_alternates s) with Some _ => true | None => false end
      else match zm_get h (f_announced s) with Some ps => zs_mem (fst p) ps | None => false end) (snd p)) (f_announces s).

(** the per-hash and the per-peer indexes agree (what makes Drop(peer) find every trace of the peer) *)
Definition chk_index (s : Fetcher) : bool :=
  forallb (fun e => negb (is_nil (snd e)) &&
                    forallb (fun p => match zm_get p (f_announces s) with Some hs => zs_mem (fst e) hs | None => false end) (snd e))
          (f_announced s) &&
  forallb (fun e => forallb (fun p => match zm_get p (f_announces s) with Some hs => zs_mem (fst e) hs | None => false end) (snd e))
          (f_alternates s) &&
  forallb (fun e => negb (is_nil (snd e)) &&
                    forallb (fun p => match zm_get p (f_waitslots s) with Some hs => zs_mem (fst e) hs | None => false end) (snd e))
          (f_waitlist s) &&
  forallb (fun e => forallb (fun h => match zm_get h (f_waitlist s) with Some ps => zs_mem (fst e) ps | None => false end) (snd e))
          (f_waitslots s).

Definition fetcher_ok (s : Fetcher) : bool :=
  chk_fetching s && chk_requests s && chk_stages s && chk_announces s && chk_index s.
