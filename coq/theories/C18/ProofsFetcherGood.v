(** C18 proofs, part 7: the index part of GOOD is kept by the remaining events (Notify, the wait
    and timeout triggers, deliveries), so that GOOD holds at every state a history reaches. *)
From Coq Require Import List ZArith Bool Lia.
From Kardia Require Import C18.ModelFetcher C18.ProofsFetcher C18.ProofsFetcherDrop C18.ProofsFetcherEmpty Generated.C18Facts.
Import ListNotations.
Local Open Scope Z_scope.

Record REST (s : Fetcher) : Prop := {
  r_r1 : R1 s; r_r2 : R2 s; r_w1 : W1 s; r_nw : NW s; r_na : NA s; r_fw : FW s }.

Definition ok_REST (r : fres) : Prop := match r with FOk s => REST s | FCrash => True end.

Lemma fbind_REST : forall r k, ok_REST r -> (forall s, REST s -> ok_REST (k s)) -> ok_REST (fbind r k).
Proof. intros [s|] k H Hk; cbn; [apply Hk; exact H|exact I]. Qed.

Lemma ffold_okREST : forall {A} (f : Fetcher -> A -> fres) (l : list A) s,
    (forall s x, REST s -> ok_REST (f s x)) -> REST s -> ok_REST (ffold f l s).
Proof.
  intros A f l. induction l as [|x t IH]; intros s Hf H; cbn [ffold]; [exact H|].
  apply fbind_REST; [apply Hf; exact H|]. intros s1 H1. apply IH; assumption.
Qed.

(** ** sets and maps: membership *)

Lemma In_zs_add : forall y x s, In y (zs_add x s) <-> y = x \/ In y s.
Proof.
  intros y x s. rewrite <- !zs_mem_In, zs_mem_add. rewrite orb_true_iff, Z.eqb_eq. tauto.
Qed.

Lemma zs_add_not_nil : forall x s, zs_add x s <> [].
Proof. intros x s E. assert (In x (zs_add x s)) by (apply In_zs_add; auto). rewrite E in H. destruct H. Qed.

Lemma get_add_to : forall k x k' (m : zmap zset),
    zm_get k' (zm_add_to k x m) =
    if k =? k' then Some (zs_add x (match zm_get k m with Some s => s | None => [] end)) else zm_get k' m.
Proof.
  intros k x k' m. unfold zm_add_to. destruct (k =? k') eqn:E.
  - apply Z.eqb_eq in E. subst. apply zm_get_set_eq.
  - apply Z.eqb_neq in E. now apply zm_get_set_ne.
Qed.

(** adding never loses a membership *)
Lemma add_to_keeps : forall k x q (m : zmap zset) s y,
    zm_get q m = Some s -> In y s -> exists s', zm_get q (zm_add_to k x m) = Some s' /\ In y s'.
Proof.
  intros k x q m s y E Hin. rewrite get_add_to. destruct (k =? q) eqn:Ek.
  - apply Z.eqb_eq in Ek. subst q. rewrite E. eexists. split; [reflexivity|]. apply In_zs_add. right. exact Hin.
  - eauto.
Qed.

Lemma add_to_has : forall k x (m : zmap zset), exists s', zm_get k (zm_add_to k x m) = Some s' /\ In x s'.
Proof. intros. rewrite get_add_to, Z.eqb_refl. eexists. split; [reflexivity|]. apply In_zs_add. left. reflexivity. Qed.

(** removing [x] keeps the other memberships *)
Lemma del_from_norm_keeps : forall k x q (m : zmap zset) s y,
    zm_get q m = Some s -> In y s -> (q <> k \/ y <> x) ->
    exists s', zm_get q (zm_del_from_norm k x m) = Some s' /\ In y s'.
Proof.
  intros k x q m s y E Hin Hne. unfold zm_del_from_norm.
  destruct (Z.eq_dec k q) as [->|Hk].
  - rewrite E. destruct Hne as [Hne|Hne]; [contradiction|].
    assert (Hd : In y (zs_del x s)) by (apply In_zs_del; auto).
    destruct (zs_del x s) as [|a l] eqn:Ed; [destruct Hd|]. rewrite zm_get_set_eq. eauto.
  - destruct (zm_get k m) as [s0|]; [|eauto].
    destruct (zs_del x s0); [rewrite zm_get_del_ne by assumption|rewrite zm_get_set_ne by assumption]; eauto.
Qed.

Lemma del_from_keeps : forall k x q (m : zmap zset) s y,
    zm_get q m = Some s -> In y s -> (q <> k \/ y <> x) ->
    exists s', zm_get q (zm_del_from k x m) = Some s' /\ In y s'.
Proof.
  intros k x q m s y E Hin Hne. rewrite get_del_from. destruct (k =? q) eqn:Ek; [|eauto].
  apply Z.eqb_eq in Ek. subst q. rewrite E. cbn [option_map]. eexists. split; [reflexivity|].
  destruct Hne as [Hne|Hne]; [contradiction|]. apply In_zs_del. auto.
Qed.

Lemma purge_keeps : forall x q (m : zmap zset) s y,
    zm_get q m = Some s -> In y s -> y <> x -> exists s', zm_get q (zm_purge x m) = Some s' /\ In y s'.
Proof.
  intros x q m s y. unfold zm_purge. induction m as [|[a v] t IH]; cbn [zm_get map filter fst snd]; [discriminate|].
  destruct (a =? q) eqn:Ea.
  - intros E Hin Hne. inversion E; subst v.
    assert (Hd : In y (zs_del x s)) by (apply In_zs_del; auto).
    destruct (zs_del x s) as [|b l] eqn:Ed; [destruct Hd|]. cbn [zm_get]. rewrite Ea. eauto.
  - intros E Hin Hne. destruct (zs_del x v); [apply IH; assumption|]. cbn [zm_get]. rewrite Ea. apply IH; assumption.
Qed.

Lemma purge_sub : forall x q (m : zmap zset) s', zm_get q (zm_purge x m) = Some s' ->
    s' <> [] /\ exists s, In (q, s) m /\ forall y, In y s' -> In y s /\ y <> x.
Proof.
  intros x q m s'. unfold zm_purge. induction m as [|[a v] t IH]; cbn [zm_get map filter fst snd]; [discriminate|].
  destruct (zs_del x v) as [|b l] eqn:Ed.
  - intros E. destruct (IH E) as [N [s [Hin Hs]]]. split; [exact N|]. exists s. split; [right; exact Hin|exact Hs].
  - cbn [zm_get]. destruct (a =? q) eqn:Ea.
    + intros E. inversion E; subst s'. split; [discriminate|]. apply Z.eqb_eq in Ea. subst a. exists v. split; [left; reflexivity|].
      intros y Hy. rewrite <- Ed in Hy. apply In_zs_del in Hy. exact Hy.
    + intros E. destruct (IH E) as [N [s [Hin Hs]]]. split; [exact N|]. exists s. split; [right; exact Hin|exact Hs].
Qed.

(** ** the announcements only grow: R1 and R2 survive *)
Definition ann_grows (s s' : Fetcher) : Prop :=
  forall q hs h, zm_get q (f_announces s) = Some hs -> In h hs -> exists hs', zm_get q (f_announces s') = Some hs' /\ In h hs'.

Lemma grows_R : forall (tbl : Fetcher -> zmap zset) s s',
    ann_grows s s' -> tbl s' = tbl s ->
    (forall h ps p, zm_get h (tbl s) = Some ps -> In p ps -> exists hs, zm_get p (f_announces s) = Some hs /\ In h hs) ->
    (forall h ps p, zm_get h (tbl s') = Some ps -> In p ps -> exists hs, zm_get p (f_announces s') = Some hs /\ In h hs).
Proof.
  intros tbl s s' Hg Ht H h ps p E Hin. rewrite Ht in E. destruct (H h ps p E Hin) as [hs [E1 H1]]. exact (Hg p hs h E1 H1).
Qed.

(** ** Notify *)
Lemma notify_one_REST : forall origin s hash, REST s -> REST (notify_one origin s hash).
Proof.
  intros origin s hash [H1 H2 Hw Hnw Hna Hfw]. unfold notify_one.
  assert (G : forall s0, f_announces s0 = zm_add_to origin hash (f_announces s) -> ann_grows s s0).
  { intros s0 E q hs h Eq Hin. rewrite E. eapply add_to_keeps; eassumption. }
  destruct (zm_has hash (f_alternates s)) eqn:Ea.
  - set (s' := w_announces _ _). assert (Gs : ann_grows s s') by (apply G; reflexivity).
    constructor; try assumption.
    + exact (grows_R f_announced s s' Gs eq_refl H1).
    + intros h ps p E Hin. unfold s' in E. fsimp_in E. rewrite get_add_to in E. destruct (hash =? h) eqn:Eh.
      * apply Z.eqb_eq in Eh. subst h. inversion E; subst ps. apply In_zs_add in Hin. destruct Hin as [->|Hin].
        -- unfold s'. fsimp. apply add_to_has.
        -- destruct (zm_get hash (f_alternates s)) as [a|] eqn:E0; [|destruct Hin].
           destruct (H2 hash a p E0 Hin) as [hs [E1 X1]]. exact (Gs p hs hash E1 X1).
      * destruct (H2 h ps p E Hin) as [hs [E1 X1]]. exact (Gs p hs h E1 X1).
  - destruct (zm_has hash (f_announced s)) eqn:Ed.
    + set (s' := w_announces _ _). assert (Gs : ann_grows s s') by (apply G; reflexivity).
      constructor; try assumption.
      * intros h ps p E Hin. unfold s' in E. fsimp_in E. rewrite get_add_to in E. destruct (hash =? h) eqn:Eh.
        -- apply Z.eqb_eq in Eh. subst h. inversion E; subst ps. apply In_zs_add in Hin. destruct Hin as [->|Hin].
           ++ unfold s'. fsimp. apply add_to_has.
           ++ destruct (zm_get hash (f_announced s)) as [a|] eqn:E0; [|destruct Hin].
              destruct (H1 hash a p E0 Hin) as [hs [E1 X1]]. exact (Gs p hs hash E1 X1).
        -- destruct (H1 h ps p E Hin) as [hs [E1 X1]]. exact (Gs p hs h E1 X1).
      * exact (grows_R f_alternates s s' Gs eq_refl H2).
      * intros h. unfold s'. fsimp. rewrite get_add_to. destruct (hash =? h); [intros X; inversion X; eapply zs_add_not_nil; eassumption|apply Hna].
    + assert (Gw : forall s0, f_waitslots s0 = zm_add_to origin hash (f_waitslots s) ->
                     forall q hs h, zm_get q (f_waitslots s) = Some hs -> In h hs -> exists hs', zm_get q (f_waitslots s0) = Some hs' /\ In h hs').
      { intros s0 E q hs h Eq Hin. rewrite E. eapply add_to_keeps; eassumption. }
      destruct (zm_has hash (f_waitlist s)) eqn:El.
      * set (s' := w_waitslots _ _). constructor; try assumption.
        -- intros h ps p E Hin. unfold s' in E. fsimp_in E. rewrite get_add_to in E. destruct (hash =? h) eqn:Eh.
           ++ apply Z.eqb_eq in Eh. subst h. inversion E; subst ps. apply In_zs_add in Hin. destruct Hin as [->|Hin].
              ** unfold s'. fsimp. apply add_to_has.
              ** destruct (zm_get hash (f_waitlist s)) as [a|] eqn:E0; [|destruct Hin].
                 destruct (Hw hash a p E0 Hin) as [hs [E1 X1]]. exact (Gw s' eq_refl p hs hash E1 X1).
           ++ destruct (Hw h ps p E Hin) as [hs [E1 X1]]. exact (Gw s' eq_refl p hs h E1 X1).
        -- intros h. unfold s'. fsimp. rewrite get_add_to. destruct (hash =? h); [intros X; inversion X; eapply zs_add_not_nil; eassumption|apply Hnw].
        -- intros h X. unfold s'. fsimp. unfold zm_has. rewrite get_add_to. destruct (hash =? h); [reflexivity|apply (Hfw h X)].
      * set (s' := w_waitslots _ _). constructor; try assumption.
        -- intros h ps p E Hin. unfold s' in E. fsimp_in E. destruct (Z.eq_dec hash h) as [<-|Hne].
           ++ rewrite zm_get_set_eq in E. inversion E; subst ps. destruct Hin as [<-|[]]. unfold s'. fsimp. apply add_to_has.
           ++ rewrite zm_get_set_ne in E by assumption. destruct (Hw h ps p E Hin) as [hs [E1 X1]]. exact (Gw s' eq_refl p hs h E1 X1).
        -- intros h. unfold s'. fsimp. destruct (Z.eq_dec hash h) as [<-|Hne]; [rewrite zm_get_set_eq; discriminate|].
           rewrite zm_get_set_ne by assumption. apply Hnw.
        -- intros h X. unfold s' in *. fsimp. fsimp_in X. destruct (Z.eq_dec hash h) as [<-|Hne]; [apply zm_has_set_eq|].
           rewrite zm_has_set_ne by assumption. rewrite zm_has_set_ne in X by assumption. apply (Hfw h X).
Qed.

Lemma fold_notify_REST : forall origin l s, REST s -> REST (fold_left (notify_one origin) l s).
Proof. induction l as [|x t IH]; intros s H; cbn [fold_left]; [exact H|]. apply IH. now apply notify_one_REST. Qed.

(** rescheduling keeps REST: origins only move from queued to alternate sets of the same hash *)
Lemma later_REST : forall s s', later s s' -> f_announces s' = f_announces s -> REST s -> REST s'.
Proof.
  intros s s' L A [H1 H2 Hw Hnw Hna Hfw]. constructor.
  - intros h ps p E Hin. destruct (l_sub _ _ L h ps p (or_introl E) Hin) as [ps0 [[E0|E0] Hin0]]; rewrite A; eauto.
  - intros h ps p E Hin. destruct (l_sub _ _ L h ps p (or_intror E) Hin) as [ps0 [[E0|E0] Hin0]]; rewrite A; eauto.
  - intros h ps p E Hin. rewrite (l_wl _ _ L) in E. rewrite (l_ws _ _ L). eauto.
  - intros h. rewrite (l_wl _ _ L). apply Hnw.
  - apply (l_na _ _ L). exact Hna.
  - intros h. rewrite (l_wt _ _ L), (l_wl _ _ L). apply Hfw.
Qed.

Lemma schedule_ok_REST : forall w k s, REST s -> ok_REST (schedule_fetches w k s).
Proof.
  intros w k s H. destruct (schedule_fetches w k s) as [s'|] eqn:E; [|exact I]. cbn [ok_REST].
  destruct (schedule_later w k s s' E) as [L [A _]]. exact (later_REST s s' L A H).
Qed.

Lemma timer_REST : forall s, REST s -> REST (reschedule_wait s) /\ REST (reschedule_timeout s).
Proof. intros s [H1 H2 Hw Hnw Hna Hfw]. split; constructor; assumption. Qed.

Lemma ev_notify_REST : forall origin hashes k s, REST s -> ok_REST (ev_notify origin hashes k s).
Proof.
  intros origin hashes k s H. unfold ev_notify.
  destruct (max_tx_announces <=? _); [exact H|].
  set (hs := if _ <? _ then _ else _).
  pose proof (fold_notify_REST origin hs s H) as H1.
  set (s1 := fold_left (notify_one origin) hs s) in *.
  assert (H2 : REST (if is_nil (f_waittime s) && negb (is_nil (f_waittime s1)) then reschedule_wait s1 else s1)).
  { destruct (_ && _); [apply timer_REST; exact H1|exact H1]. }
  destruct (negb _ && _); [apply schedule_ok_REST; exact H2|exact H2].
Qed.

(** ** the wait trigger *)

Record WP (hash : Z) (t t' : Fetcher) (l : list Z) : Prop := {
  wp_wl : f_waitlist t' = f_waitlist t; wp_wt : f_waittime t' = f_waittime t;
  wp_ad : f_announced t' = f_announced t; wp_al : f_alternates t' = f_alternates t;
  wp_grow : ann_grows t t';
  wp_new : forall p, In p l -> exists hs, zm_get p (f_announces t') = Some hs /\ In hash hs;
  wp_ws : forall q hs h, zm_get q (f_waitslots t) = Some hs -> In h hs -> h <> hash ->
                         exists hs', zm_get q (f_waitslots t') = Some hs' /\ In h hs' }.

Lemma wait_peer_WP : forall hash l t (a : zset), WP hash t (fst (fold_left (wait_peer hash) l (t, a))) l.
Proof.
  intros hash l. induction l as [|p r IH]; intros t a; cbn [fold_left].
  - constructor; try reflexivity; [intros q hs h E Hin; eauto|intros p []|intros q hs h E Hin _; eauto].
  - unfold wait_peer at 2.
    set (t1 := w_waitslots (zm_del_from_norm p hash (f_waitslots t)) (w_announces (zm_add_to p hash (f_announces t)) t)).
    specialize (IH t1 (zs_add p a)). destruct IH as [A B C D G N W].
    assert (G1 : ann_grows t t1) by (intros q hs h E Hin; unfold t1; fsimp; eapply add_to_keeps; eassumption).
    constructor; try (etransitivity; [eassumption|reflexivity]).
    + intros q hs h E Hin. destruct (G1 q hs h E Hin) as [hs1 [E1 H1]]. exact (G q hs1 h E1 H1).
    + intros q [<-|Hin]; [|exact (N q Hin)].
      assert (X : exists hs, zm_get p (f_announces t1) = Some hs /\ In hash hs) by (unfold t1; fsimp; apply add_to_has).
      destruct X as [hs [E1 H1]]. exact (G p hs hash E1 H1).
    + intros q hs h E Hin Hne.
      assert (X : exists hs1, zm_get q (f_waitslots t1) = Some hs1 /\ In h hs1)
        by (unfold t1; fsimp; eapply del_from_norm_keeps; [exact E|exact Hin|right; exact Hne]).
      destruct X as [hs1 [E1 H1]]. exact (W q hs1 h E1 H1 Hne).
Qed.

Lemma wait_one_REST : forall s (a : zset) hash, REST s -> ok_REST (fst (wait_one (FOk s, a) hash)).
Proof.
  intros s a hash H. unfold wait_one.
  destruct (zm_get hash (f_waittime s)) as [inst|] eqn:Et; [|exact H].
  destruct (arrive_timeout <? _); [|exact H].
  destruct (zm_has hash (f_announced s)) eqn:Ead; [exact I|].
  destruct H as [H1 H2 Hw Hnw Hna Hfw].
  assert (Hwl : zm_has hash (f_waitlist s) = true) by (apply Hfw; apply zm_has_get; eauto).
  apply zm_has_get in Hwl. destruct Hwl as [peers Ep]. rewrite Ep.
  set (s1 := w_announced (zm_set hash peers (f_announced s)) s).
  match goal with |- context [fold_left (wait_peer hash) peers ?acc] =>
    pose proof (wait_peer_WP hash peers s1 a) as W;
    change (fold_left (wait_peer hash) peers acc) with (fold_left (wait_peer hash) peers (s1, a)) end.
  destruct (fold_left (wait_peer hash) peers (s1, a)) as [s2 act]. cbn [fst] in *.
  destruct W as [A B C D G N Ws]. cbn [ok_REST]. constructor.
  - intros h ps p E Hin. fsimp_in E. fsimp. rewrite C in E. unfold s1 in E. fsimp_in E.
    destruct (Z.eq_dec hash h) as [<-|Hne].
    + rewrite zm_get_set_eq in E. inversion E; subst ps. exact (N p Hin).
    + rewrite zm_get_set_ne in E by assumption. destruct (H1 h ps p E Hin) as [hs [E1 X1]]. exact (G p hs h E1 X1).
  - intros h ps p E Hin. fsimp_in E. fsimp. rewrite D in E. destruct (H2 h ps p E Hin) as [hs [E1 X1]]. exact (G p hs h E1 X1).
  - intros h ps p E Hin. fsimp_in E. fsimp. rewrite A in E.
    destruct (Z.eq_dec hash h) as [<-|Hne]; [rewrite zm_get_del_eq in E; discriminate|].
    rewrite zm_get_del_ne in E by assumption. destruct (Hw h ps p E Hin) as [hs [E1 X1]].
    apply (Ws p hs h E1 X1). congruence.
  - intros h. fsimp. rewrite A. destruct (Z.eq_dec hash h) as [<-|Hne]; [rewrite zm_get_del_eq; discriminate|].
    rewrite zm_get_del_ne by assumption. apply Hnw.
  - intros h. fsimp. rewrite C. unfold s1. fsimp. destruct (Z.eq_dec hash h) as [<-|Hne].
    + rewrite zm_get_set_eq. intros X. inversion X; subst peers. exact (Hnw hash Ep).
    + rewrite zm_get_set_ne by assumption. apply Hna.
  - intros h. fsimp. rewrite A, B. destruct (Z.eq_dec hash h) as [<-|Hne]; [rewrite zm_has_del_eq; discriminate|].
    rewrite !zm_has_del_ne by assumption. apply Hfw.
Qed.

Lemma fold_wait_one_REST : forall l s (a : zset), REST s -> ok_REST (fst (fold_left wait_one l (FOk s, a))).
Proof.
  induction l as [|e t IH]; intros s a H; cbn [fold_left]; [exact H|].
  pose proof (wait_one_REST s a e H) as H1.
  match goal with |- context [wait_one ?acc e] => change (wait_one acc e) with (wait_one (FOk s, a) e) end.
  destruct (wait_one (FOk s, a) e) as [[s1|] a1]; cbn [fst] in H1.
  - apply IH. exact H1.
  - rewrite fold_wait_one_crash. exact I.
Qed.

Lemma ev_wait_trigger_REST : forall k s, REST s -> ok_REST (ev_wait_trigger k s).
Proof.
  intros k s H. unfold ev_wait_trigger.
  match goal with |- context [fold_left wait_one ?l ?acc] =>
    assert (Hf : ok_REST (fst (fold_left wait_one l acc))) by apply (fold_wait_one_REST (map fst (f_waittime s)) s [] H);
    destruct (fold_left wait_one l acc) as [[s1|] act] end; cbn [fst] in Hf; [|exact I].
  assert (H2 : REST (if negb (is_nil (f_waittime s1)) then reschedule_wait s1 else s1)).
  { destruct (negb _); [apply timer_REST; exact Hf|exact Hf]. }
  destruct act; [exact H2|apply schedule_ok_REST; exact H2].
Qed.

(** ** the timeout trigger *)

Lemma get_del_from_norm_ne : forall k x h (m : zmap zset), k <> h -> zm_get h (zm_del_from_norm k x m) = zm_get h m.
Proof.
  intros k x h m Hne. unfold zm_del_from_norm. destruct (zm_get k m) as [s0|]; [|reflexivity].
  destruct (zs_del x s0); [now apply zm_get_del_ne|now apply zm_get_set_ne].
Qed.

Lemma del_from_norm_key_nonempty : forall k x (m : zmap zset), zm_get k (zm_del_from_norm k x m) <> Some [].
Proof.
  intros k x m. unfold zm_del_from_norm. destruct (zm_get k m) as [s0|] eqn:E0; [|rewrite E0; discriminate].
  destruct (zs_del x s0) as [|a l]; [rewrite zm_get_del_eq; discriminate|rewrite zm_get_set_eq; discriminate].
Qed.

Lemma timeout_hash_REST : forall peer stolen s hash, REST s -> ok_REST (timeout_hash peer stolen s hash).
Proof.
  intros peer stolen s hash H. unfold timeout_hash.
  destruct (zs_mem hash stolen); [exact H|].
  destruct (zm_has hash (f_announced s)) eqn:Ead; [exact I|]. apply zm_has_false in Ead.
  destruct H as [H1 H2 Hw Hnw Hna Hfw]. cbn [ok_REST].
  set (s1 := match zm_get hash (f_alternates s) with Some a => w_announced (zm_set hash a (f_announced s)) s | None => s end).
  assert (An1 : f_announces s1 = f_announces s) by (unfold s1; destruct (zm_get hash (f_alternates s)); reflexivity).
  assert (Al1 : f_alternates s1 = f_alternates s) by (unfold s1; destruct (zm_get hash (f_alternates s)); reflexivity).
  assert (W1s : f_waitlist s1 = f_waitlist s /\ f_waittime s1 = f_waittime s /\ f_waitslots s1 = f_waitslots s)
    by (unfold s1; destruct (zm_get hash (f_alternates s)); repeat split; reflexivity).
  assert (Q1 : forall h ps, zm_get h (f_announced s1) = Some ps ->
                 if hash =? h then zm_get hash (f_alternates s) = Some ps else zm_get h (f_announced s) = Some ps).
  { intros h ps E. unfold s1 in E. destruct (hash =? h) eqn:Eh.
    - apply Z.eqb_eq in Eh. subst h. destruct (zm_get hash (f_alternates s)) as [a|]; fsimp_in E.
      + rewrite zm_get_set_eq in E. exact E.
      + congruence.
    - apply Z.eqb_neq in Eh. destruct (zm_get hash (f_alternates s)) as [a|]; fsimp_in E; [rewrite zm_get_set_ne in E by assumption|]; exact E. }
  destruct W1s as [Wl [Wt Ws]].
  constructor; unfold R1, R2, W1, NW, NA, FW; fsimp.
  - (* R1 *)
    intros h ps p E Hin. rewrite An1.
    destruct (Z.eq_dec hash h) as [<-|Hne].
    + apply get_del_from_norm_some in E. rewrite Z.eqb_refl in E. destruct E as [ps0 [E0 ->]].
      apply In_zs_del in Hin. destruct Hin as [Hin Hp]. specialize (Q1 hash ps0 E0). rewrite Z.eqb_refl in Q1.
      destruct (H2 hash ps0 p Q1 Hin) as [hs [E1 X1]]. eapply del_from_keeps; [exact E1|exact X1|left; exact Hp].
    + rewrite get_del_from_norm_ne in E by assumption. specialize (Q1 h ps E).
      replace (hash =? h) with false in Q1 by (symmetry; apply Z.eqb_neq; exact Hne).
      destruct (H1 h ps p Q1 Hin) as [hs [E1 X1]]. eapply del_from_keeps; [exact E1|exact X1|right; congruence].
  - (* R2 *)
    intros h ps p E Hin. rewrite An1, Al1 in *.
    destruct (Z.eq_dec hash h) as [<-|Hne]; [rewrite zm_get_del_eq in E; discriminate|].
    rewrite zm_get_del_ne in E by assumption. destruct (H2 h ps p E Hin) as [hs [E1 X1]].
    eapply del_from_keeps; [exact E1|exact X1|right; congruence].
  - intros h ps p E Hin. rewrite Wl in E. rewrite Ws. eauto.
  - intros h. rewrite Wl. apply Hnw.
  - intros h. destruct (Z.eq_dec hash h) as [<-|Hne]; [apply del_from_norm_key_nonempty|].
    rewrite get_del_from_norm_ne by assumption. intros E. specialize (Q1 h [] E).
    replace (hash =? h) with false in Q1 by (symmetry; apply Z.eqb_neq; exact Hne). exact (Hna h Q1).
  - intros h. rewrite Wt, Wl. apply Hfw.
Qed.

Lemma timeout_req_REST : forall s peer, REST s -> ok_REST (timeout_req s peer).
Proof.
  intros s peer H. unfold timeout_req.
  destruct (zm_get peer (f_requests s)) as [req|]; [|exact H].
  destruct (fetch_timeout <? _); [|exact H].
  apply fbind_REST; [apply ffold_okREST; [apply timeout_hash_REST|exact H]|].
  intros s1 [H1 H2 Hw Hnw Hna Hfw]. cbn [ok_REST].
  destruct (set_len peer (f_announces s1) =? 0) eqn:El; [|constructor; assumption].
  apply Z.eqb_eq in El.
  assert (Hno : forall hs h, zm_get peer (f_announces s1) = Some hs -> In h hs -> False).
  { intros hs h E Hin. unfold set_len in El. rewrite E in El. destruct hs; [destruct Hin|]. unfold zlen in El. cbn [length] in El. lia. }
  constructor; unfold R1, R2, W1, NW, NA, FW; fsimp; try assumption.
  - intros h ps p E Hin. destruct (H1 h ps p E Hin) as [hs [E1 X1]].
    destruct (Z.eq_dec peer p) as [<-|Hne]; [exfalso; eapply Hno; eassumption|]. rewrite zm_get_del_ne by assumption. eauto.
  - intros h ps p E Hin. destruct (H2 h ps p E Hin) as [hs [E1 X1]].
    destruct (Z.eq_dec peer p) as [<-|Hne]; [exfalso; eapply Hno; eassumption|]. rewrite zm_get_del_ne by assumption. eauto.
Qed.

Lemma ev_timeout_trigger_REST : forall k s, REST s -> ok_REST (ev_timeout_trigger k s).
Proof.
  intros k s H. unfold ev_timeout_trigger.
  apply fbind_REST; [apply ffold_okREST; [apply timeout_req_REST|exact H]|].
  intros s1 H1. apply fbind_REST; [apply schedule_ok_REST; exact H1|].
  intros s2 H2. cbn [ok_REST]. apply timer_REST. exact H2.
Qed.

(** ** deliveries *)

Lemma purge_nonempty : forall x (m : zmap zset) h, zm_get h (zm_purge x m) <> Some [].
Proof. intros x m h E. destruct (purge_sub x h m [] E) as [N _]. apply N. reflexivity. Qed.

Lemma cleanup_hash_REST : forall origin direct s hash, REST s -> ok_REST (cleanup_hash origin direct s hash).
Proof.
  intros origin direct s hash [H1 H2 Hw Hnw Hna Hfw]. unfold cleanup_hash.
  destruct (zm_has hash (f_waitlist s)).
  - cbn [ok_REST]. constructor; unfold R1, R2, W1, NW, NA, FW; fsimp; try assumption.
    + intros h ps p E Hin. destruct (Z.eq_dec hash h) as [<-|Hne]; [rewrite zm_get_del_eq in E; discriminate|].
      rewrite zm_get_del_ne in E by assumption. destruct (Hw h ps p E Hin) as [hs [E1 X1]].
      eapply purge_keeps; [exact E1|exact X1|congruence].
    + intros h. destruct (Z.eq_dec hash h) as [<-|Hne]; [rewrite zm_get_del_eq; discriminate|].
      rewrite zm_get_del_ne by assumption. apply Hnw.
    + intros h X. destruct (Z.eq_dec hash h) as [<-|Hne]; [rewrite zm_has_del_eq in X; discriminate|].
      rewrite zm_has_del_ne in X by assumption. rewrite zm_has_del_ne by assumption. apply (Hfw h X).
  - set (s1 := w_alternates _ _).
    assert (R : REST s1).
    { unfold s1. constructor; unfold R1, R2, W1, NW, NA, FW; fsimp; try assumption.
      - intros h ps p E Hin. destruct (Z.eq_dec hash h) as [<-|Hne]; [rewrite zm_get_del_eq in E; discriminate|].
        rewrite zm_get_del_ne in E by assumption. destruct (H1 h ps p E Hin) as [hs [E1 X1]].
        eapply purge_keeps; [exact E1|exact X1|congruence].
      - intros h ps p E Hin. destruct (Z.eq_dec hash h) as [<-|Hne]; [rewrite zm_get_del_eq in E; discriminate|].
        rewrite zm_get_del_ne in E by assumption. destruct (H2 h ps p E Hin) as [hs [E1 X1]].
        eapply purge_keeps; [exact E1|exact X1|congruence].
      - intros h. destruct (Z.eq_dec hash h) as [<-|Hne]; [rewrite zm_get_del_eq; discriminate|].
        rewrite zm_get_del_ne by assumption. apply Hna. }
    destruct R as [A B C D E F].
    destruct (zm_get hash (f_fetching s1)) as [o|]; [|constructor; assumption].
    destruct (negb (o =? origin) || negb direct).
    + destruct (zm_get o (f_requests s1)); [|exact I]. constructor; assumption.
    + constructor; assumption.
Qed.

(** a broadcast (not a reply to a request): the delivery loop only *)
Lemma ev_cleanup_broadcast_REST : forall origin hashes k s, REST s -> ok_REST (ev_cleanup origin hashes false k s).
Proof.
  intros origin hashes k s H. unfold ev_cleanup.
  apply fbind_REST; [apply ffold_okREST; [apply cleanup_hash_REST|exact H]|].
  intros s1 H1. exact H1.
Qed.

Lemma enqueue_pool_REST : forall txs s, REST s -> REST (enqueue_pool txs s).
Proof.
  unfold enqueue_pool. induction txs as [|p t IH]; intros s H; cbn [fold_left]; [exact H|]. apply IH.
  destruct H as [H1 H2 Hw Hnw Hna Hfw]. destruct (snd p =? 0); [constructor; assumption|].
  destruct (snd p =? 2); constructor; assumption.
Qed.

Lemma ev_advance_REST : forall d k s, REST s -> ok_REST (ev_advance d k s).
Proof.
  intros d k s H. unfold ev_advance.
  assert (H0 : REST (w_now (f_now s + d) s)) by (destruct H; constructor; assumption).
  set (s0 := w_now (f_now s + d) s) in *.
  apply fbind_REST.
  - destruct (due (f_wait_timer s0) (f_now s0)); [|exact H0].
    apply ev_wait_trigger_REST. destruct H0; constructor; assumption.
  - intros s1 H1. destruct (due (f_timeout_timer s1) (f_now s1)); [|exact H1].
    apply ev_timeout_trigger_REST. destruct H1; constructor; assumption.
Qed.

(** every event except a direct reply (whose partial-delivery path needs the stage-disjointness
    facts as well) keeps the index facts *)
Definition not_direct (e : fev) : Prop := match e with EEnqueue _ _ true => False | _ => True end.

Lemma REST_of_GOOD : forall s, GOOD s -> REST s.
Proof. intros s G. constructor; [exact (g_r1 s G)|exact (g_r2 s G)|exact (g_w1 s G)|exact (g_nw s G)|exact (g_na s G)|exact (g_fw s G)]. Qed.

Lemma fstep_GOOD : forall k s e, not_direct e -> GOOD s ->
    match fstep k s e with FOk s' => GOOD s' | FCrash => True end.
Proof.
  intros k s e Hnd G.
  pose proof (fstep_IC k s e (g_ic s G)) as Hc. pose proof (fstep_IA k s e (g_ia s G)) as Ha.
  assert (Hr : ok_REST (fstep k s e)).
  { pose proof (REST_of_GOOD s G) as R. destruct e as [p hs|p txs direct|p|d]; cbn [fstep].
    - destruct (notify_filter s hs); [exact R|]. apply ev_notify_REST. exact R.
    - destruct direct; [destruct Hnd|]. unfold ev_enqueue. apply ev_cleanup_broadcast_REST. apply enqueue_pool_REST. exact R.
    - destruct (ev_drop p k s) as [s'|] eqn:E; [|exact I]. destruct (ev_drop_good p k s s' G E) as [G' _]. apply REST_of_GOOD. exact G'.
    - apply ev_advance_REST. exact R. }
  destruct (fstep k s e) as [s'|]; [|exact I]. cbn in Hc, Ha, Hr. destruct Hr as [A B C D E F].
  constructor; assumption.
Qed.
