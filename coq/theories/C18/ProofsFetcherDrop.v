(** C18 proofs, part 5: after Drop(peer) the peer is no origin of anything any more — neither a
    queued origin nor an alternate origin of a hash in flight from somebody else (repair 95b0505;
    before it the alternates kept the peer and the hash was later queued for ever with no peer to
    ask).  Hypotheses: the per-hash and per-peer indexes agree (R1, R2: part of [fetcher_ok],
    evaluated on every state the model reaches and on the implementation's trackers). *)
From Coq Require Import List ZArith Bool Lia.
From Kardia Require Import C18.ModelFetcher C18.ProofsFetcher Generated.C18Facts.
Import ListNotations.
Local Open Scope Z_scope.

Definition R1 (s : Fetcher) : Prop :=
  forall h ps p, zm_get h (f_announced s) = Some ps -> In p ps ->
    exists hs, zm_get p (f_announces s) = Some hs /\ In h hs.
Definition R2 (s : Fetcher) : Prop :=
  forall h ps p, zm_get h (f_alternates s) = Some ps -> In p ps ->
    exists hs, zm_get p (f_announces s) = Some hs /\ In h hs.

(** [p] is an origin only of hashes in [hs] *)
Definition only_at (p : Z) (hs : list Z) (s : Fetcher) : Prop :=
  (forall h ps, zm_get h (f_announced s) = Some ps -> In p ps -> In h hs) /\
  (forall h ps, zm_get h (f_alternates s) = Some ps -> In p ps -> In h hs).

Definition origin_free (p : Z) (s : Fetcher) : Prop := only_at p [] s.

Lemma In_zs_del : forall x y s, In x (zs_del y s) <-> In x s /\ x <> y.
Proof.
  intros x y s. unfold zs_del. rewrite filter_In. split; intros [H1 H2]; split; auto.
  - intros ->. rewrite Z.eqb_refl in H2. discriminate.
  - apply negb_true_iff. apply Z.eqb_neq. exact H2.
Qed.

Lemma get_del_from : forall k x k' (m : zmap zset),
    zm_get k' (zm_del_from k x m) = if k =? k' then option_map (zs_del x) (zm_get k' m) else zm_get k' m.
Proof.
  intros k x k' m. unfold zm_del_from. destruct (k =? k') eqn:E.
  - apply Z.eqb_eq in E. subst k'. destruct (zm_get k m) as [s|] eqn:Eg; cbn [option_map].
    + apply zm_get_set_eq.
    + exact Eg.
  - apply Z.eqb_neq in E. destruct (zm_get k m); [now apply zm_get_set_ne|reflexivity].
Qed.

Lemma get_del_from_norm_some : forall k x k' (m : zmap zset) ps,
    zm_get k' (zm_del_from_norm k x m) = Some ps ->
    if k =? k' then exists ps0, zm_get k' m = Some ps0 /\ ps = zs_del x ps0 else zm_get k' m = Some ps.
Proof.
  intros k x k' m ps. unfold zm_del_from_norm. destruct (k =? k') eqn:E.
  - apply Z.eqb_eq in E. subst k'. destruct (zm_get k m) as [s|] eqn:Eg; [|congruence].
    destruct (zs_del x s) as [|a l] eqn:Ed.
    + rewrite zm_get_del_eq. discriminate.
    + rewrite zm_get_set_eq. intros X. inversion X; subst. exists s. split; [reflexivity|symmetry; exact Ed].
  - apply Z.eqb_neq in E. destruct (zm_get k m) as [s|]; [|auto].
    destruct (zs_del x s); [now rewrite zm_get_del_ne|now rewrite zm_get_set_ne].
Qed.

Lemma only_at_weaken : forall p hs hs' s, (forall h, In h hs -> In h hs') -> only_at p hs s -> only_at p hs' s.
Proof. intros p hs hs' s Hsub [H1 H2]. split; intros h ps E Hin; apply Hsub; eauto. Qed.

(** phase 2 of the drop handler keeps "origin only at the hashes it announced" *)
Lemma drop_req_hash_only : forall p stolen hs s hash, only_at p hs s -> only_at p hs (drop_req_hash p stolen s hash).
Proof.
  intros p stolen hs s hash [H1 H2]. unfold drop_req_hash.
  destruct (zs_mem hash stolen); [split; assumption|].
  set (s1 := w_alternates (zm_del_from hash p (f_alternates s)) s).
  assert (Ha1 : forall h ps, zm_get h (f_alternates s1) = Some ps -> In p ps -> In h hs).
  { intros h ps E Hin. unfold s1 in E. fsimp_in E. rewrite get_del_from in E. destruct (hash =? h).
    - destruct (zm_get h (f_alternates s)) as [ps0|] eqn:E0; [|discriminate]. cbn [option_map] in E. inversion E; subst.
      apply In_zs_del in Hin. destruct Hin as [_ X]. contradiction.
    - eapply H2; eassumption. }
  assert (Hd1 : f_announced s1 = f_announced s) by reflexivity.
  destruct (zm_get hash (f_alternates s1)) as [[|x a]|] eqn:Eh; split; intros h ps E Hin; fsimp_in E.
  - rewrite Hd1 in E. eapply H1; eassumption.
  - destruct (Z.eq_dec hash h) as [<-|Hne]; [rewrite zm_get_del_eq in E; discriminate|].
    rewrite zm_get_del_ne in E by assumption. eapply Ha1; eassumption.
  - destruct (Z.eq_dec hash h) as [<-|Hne].
    + rewrite zm_get_set_eq in E. inversion E; subst. eapply Ha1; eassumption.
    + rewrite zm_get_set_ne in E by assumption. rewrite Hd1 in E. eapply H1; eassumption.
  - destruct (Z.eq_dec hash h) as [<-|Hne]; [rewrite zm_get_del_eq in E; discriminate|].
    rewrite zm_get_del_ne in E by assumption. eapply Ha1; eassumption.
  - rewrite Hd1 in E. eapply H1; eassumption.
  - destruct (Z.eq_dec hash h) as [<-|Hne]; [rewrite zm_get_del_eq in E; discriminate|].
    rewrite zm_get_del_ne in E by assumption. eapply Ha1; eassumption.
Qed.

Lemma fold_drop_req_only : forall p stolen hs l s, only_at p hs s -> only_at p hs (fold_left (drop_req_hash p stolen) l s).
Proof. induction l as [|x t IH]; intros s H; cbn [fold_left]; [exact H|]. apply IH. now apply drop_req_hash_only. Qed.

(** phase 3: one announced hash less to be an origin of *)
Lemma drop_ann_hash_only : forall p x hs s, only_at p (x :: hs) s -> only_at p hs (drop_ann_hash p s x).
Proof.
  intros p x hs s [H1 H2]. unfold drop_ann_hash. split; intros h ps E Hin; fsimp_in E.
  - apply get_del_from_norm_some in E. destruct (x =? h) eqn:Ex.
    + destruct E as [ps0 [_ ->]]. apply In_zs_del in Hin. destruct Hin as [_ X]. contradiction.
    + apply Z.eqb_neq in Ex. destruct (H1 h ps E Hin) as [<-|X]; [contradiction|exact X].
  - rewrite get_del_from in E. destruct (x =? h) eqn:Ex.
    + destruct (zm_get h (f_alternates s)) as [ps0|]; [|discriminate]. cbn [option_map] in E. inversion E; subst.
      apply In_zs_del in Hin. destruct Hin as [_ X]. contradiction.
    + apply Z.eqb_neq in Ex. destruct (H2 h ps E Hin) as [<-|X]; [contradiction|exact X].
Qed.

Lemma fold_drop_ann_only : forall p l s, only_at p l s -> origin_free p (fold_left (drop_ann_hash p) l s).
Proof.
  induction l as [|x t IH]; intros s H; cbn [fold_left]; [exact H|]. apply IH. now apply drop_ann_hash_only.
Qed.

(** the first phase and the bookkeeping between the phases do not touch the origins *)
Definition same_orig (s s' : Fetcher) : Prop :=
  f_announced s' = f_announced s /\ f_alternates s' = f_alternates s /\ f_announces s' = f_announces s.

Lemma same_orig_only : forall p hs s s', same_orig s s' -> only_at p hs s -> only_at p hs s'.
Proof. intros p hs s s' [Ha [Hl _]] [H1 H2]. split; intros h ps E; [rewrite Ha in E|rewrite Hl in E]; eauto. Qed.

Lemma drop_wait_hash_orig : forall peer s hash, same_orig s (drop_wait_hash peer s hash).
Proof.
  intros peer s hash. unfold drop_wait_hash.
  destruct (zm_get hash (f_waitlist s)) as [ps|]; [destruct (zs_del peer ps)|]; repeat split; reflexivity.
Qed.

Lemma fold_orig : forall {A} (f : Fetcher -> A -> Fetcher) l s,
    (forall s x, same_orig s (f s x)) -> same_orig s (fold_left f l s).
Proof.
  intros A f l. induction l as [|x t IH]; intros s Hf; cbn [fold_left]; [repeat split; reflexivity|].
  destruct (Hf s x) as [A1 [A2 A3]]. destruct (IH (f s x) Hf) as [B1 [B2 B3]]. repeat split; congruence.
Qed.

Lemma drop_body_origin_free : forall p s, R1 s -> R2 s -> origin_free p (drop_body p s).
Proof.
  intros p s H1 H2. unfold drop_body.
  set (s1 := match zm_get p (f_waitslots s) with Some _ => _ | None => s end).
  assert (O1 : same_orig s s1).
  { unfold s1. destruct (zm_get p (f_waitslots s)) as [hs|]; [|repeat split; reflexivity].
    cbv zeta. destruct (fold_orig (drop_wait_hash p) hs s (drop_wait_hash_orig p)) as [A1 [A2 A3]].
    destruct (negb _); repeat split; fsimp; assumption. }
  set (hs := match zm_get p (f_announces s) with Some l => l | None => [] end).
  assert (P0 : only_at p hs s).
  { split; intros h ps E Hin; [destruct (H1 h ps p E Hin) as [l [El Hl]]|destruct (H2 h ps p E Hin) as [l [El Hl]]];
      unfold hs; rewrite El; exact Hl. }
  assert (P1 : only_at p hs s1) by (eapply same_orig_only; eassumption).
  set (s2 := match zm_get p (f_requests s1) with Some _ => _ | None => s1 end).
  assert (P2 : only_at p hs s2 /\ f_announces s2 = f_announces s).
  { destruct O1 as [_ [_ O1]]. unfold s2. destruct (zm_get p (f_requests s1)) as [rq|]; [|split; [exact P1|exact O1]].
    cbv zeta. split.
    - pose proof (fold_drop_req_only p (rq_stolen rq) hs (rq_hashes rq) s1 P1) as [X1 X2]. split; assumption.
    - fsimp. rewrite <- O1. clear. generalize (rq_hashes rq) as l. generalize s1 as s0.
      intros s0 l. revert s0. induction l as [|x t IH]; intros s0; cbn [fold_left]; [reflexivity|]. rewrite IH.
      unfold drop_req_hash. destruct (zs_mem x (rq_stolen rq)); [reflexivity|].
      destruct (zm_get x (f_alternates (w_alternates (zm_del_from x p (f_alternates s0)) s0))) as [[|y a]|]; reflexivity. }
  destruct P2 as [P2 Han]. rewrite Han. fold hs.
  destruct (zm_get p (f_announces s)) as [l|] eqn:El.
  - cbv zeta. unfold hs in P2. pose proof (fold_drop_ann_only p l s2 P2) as [X1 X2]. split; intros h ps E; fsimp_in E; eauto.
  - exact P2.
Qed.

(** scheduling builds alternates out of queued origins only *)
Lemma sched_hash_free : forall peer p s hs hash s' hs',
    sched_hash peer (FOk s, hs) hash = (FOk s', hs') -> origin_free p s -> origin_free p s'.
Proof.
  intros peer p s hs hash s' hs' E [H1 H2]. unfold sched_hash in E.
  destruct (max_tx_retrievals <=? zlen hs); [inversion E; subst; split; assumption|].
  destruct (zm_has hash (f_fetching s)); [inversion E; subst; split; assumption|].
  destruct (zm_has hash (f_alternates s)); [discriminate|].
  inversion E; subst. split; intros h ps X Hin; fsimp_in X.
  - destruct (Z.eq_dec hash h) as [<-|Hne]; [rewrite zm_get_del_eq in X; discriminate|].
    rewrite zm_get_del_ne in X by assumption. eapply H1; eassumption.
  - destruct (Z.eq_dec hash h) as [<-|Hne].
    + rewrite zm_get_set_eq in X. inversion X; subst.
      destruct (zm_get hash (f_announced s)) as [a|] eqn:Ea; [eapply H1; eassumption|destruct Hin].
    + rewrite zm_get_set_ne in X by assumption. eapply H2; eassumption.
Qed.

Lemma sched_hashes_free : forall peer p l s hs s' hs',
    fold_left (sched_hash peer) l (FOk s, hs) = (FOk s', hs') -> origin_free p s -> origin_free p s'.
Proof.
  induction l as [|x t IH]; intros s hs s' hs' E H; cbn [fold_left] in E; [inversion E; subst; exact H|].
  destruct (sched_hash peer (FOk s, hs) x) as [[s1|] hs1] eqn:E1.
  - eapply IH; [exact E|]. eapply sched_hash_free; eassumption.
  - rewrite fold_sched_crash in E. discriminate.
Qed.

Lemma sched_peer_free : forall k p s peer s', sched_peer k s peer = FOk s' -> origin_free p s -> origin_free p s'.
Proof.
  intros k p s peer s' E H. unfold sched_peer in E.
  destruct (zm_has peer (f_requests s)); [inversion E; subst; exact H|].
  destruct (zm_get peer (f_announces s)) as [[|a l]|]; [inversion E; subst; exact H| |inversion E; subst; exact H].
  destruct (fold_left (sched_hash peer) (rotate k (a :: l)) (FOk s, [])) as [[s1|] got] eqn:Ef; [|discriminate].
  pose proof (sched_hashes_free peer p _ s [] s1 got Ef H) as [X1 X2].
  destruct got; inversion E; subst; split; intros h ps Y; fsimp_in Y; eauto.
Qed.

Lemma schedule_free : forall w k p s s', schedule_fetches w k s = FOk s' -> origin_free p s -> origin_free p s'.
Proof.
  intros w k p s s' E H. unfold schedule_fetches in E.
  destruct (match w with Some w0 => w0 | None => map fst (f_announces s) end) as [|a l]; [inversion E; subst; exact H|].
  destruct (ffold (sched_peer k) (rotate k (a :: l)) s) as [s1|] eqn:E1; [|discriminate]. cbn [fbind] in E.
  assert (H1 : origin_free p s1).
  { revert E1 H. generalize (rotate k (a :: l)) as ll. generalize s as s0.
    intros s0 ll. revert s0. induction ll as [|x t IH]; intros s0 E1 H0; cbn [ffold] in E1; [inversion E1; subst; exact H0|].
    destruct (sched_peer k s0 x) as [s2|] eqn:E2; [|discriminate]. cbn [fbind] in E1.
    eapply IH; [exact E1|]. eapply sched_peer_free; eassumption. }
  inversion E; subst. destruct H1 as [X1 X2]. destruct (_ && _); split; intros h ps Y; fsimp_in Y; eauto.
Qed.

(** Drop(peer): afterwards the peer is no queued origin and no alternate origin of any hash *)
Lemma ev_drop_origin_free : forall p k s s', R1 s -> R2 s -> ev_drop p k s = FOk s' -> origin_free p s'.
Proof.
  intros p k s s' H1 H2 E. rewrite ev_drop_unfold in E.
  pose proof (drop_body_origin_free p s H1 H2) as Hb.
  match type of E with context [match zm_get p (f_requests ?x) with Some _ => _ | None => _ end] =>
    destruct (zm_get p (f_requests x)) end.
  - destruct (schedule_fetches None k (drop_body p s)) as [s4|] eqn:E4; [|discriminate]. cbn [fbind] in E.
    inversion E; subst. pose proof (schedule_free None k p _ s4 E4 Hb) as [X1 X2].
    split; intros h ps Y; fsimp_in Y; eauto.
  - inversion E; subst. exact Hb.
Qed.

(** the leak before 95b0505, computed: B announces what is in flight from A, B is dropped, A is
    dropped — with a drop handler that leaves the alternates alone the hash stays queued for ever
    with the long-gone B as only origin; with the real one every table is empty *)
Definition leak_history : list (Z * fev) :=
  [(0, ENotify 0 [7]); (0, EAdvance 500); (0, ENotify 1 [7]); (0, EDrop 1); (0, EDrop 0)].

Example leak_history_ends_empty :
  match frun f0 leak_history with
  | FOk s => is_nil (f_announced s) && is_nil (f_alternates s) && is_nil (f_fetching s) && is_nil (f_requests s) &&
             is_nil (f_announces s) && is_nil (f_waitlist s) && is_nil (f_waittime s) && is_nil (f_waitslots s)
  | FCrash => false
  end = true.
Proof. vm_compute. reflexivity. Qed.
