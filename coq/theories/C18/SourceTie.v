(** C18 — tie of the model's validators, bounds and limits to the Go SOURCE.
    [Generated/C18Source.v] is produced on every check by /verif/go2coq from /repo's working tree
    (spec go2coq/specs/C18.json): every guard / integer expression / single-atom condition / field
    store / loop header / switch arm of the message validators (consensus/manager.go ValidateBasic
    methods, MsgFromProto, types Vote/Proposal/Part/PartSetHeader/BlockID, merkle proof, bit array),
    of ConsensusManager.Receive and the PeerState handlers, HeightVoteSet (SetRound / addRound /
    AddVote), the bit-array operations, the block-sync ValidateMsg / Receive, the tx-pool decoder and
    reactor, the whole TxFetcher (Notify / Enqueue / Drop / loop / timers / scheduleFetches), the
    evidence and PEX reactors, NetAddressFromProto, the connection's recvPacketMsg and SigToPub.
    Part 1 states that the MODEL (Model.v, ModelFetcher.v) computes exactly these expressions on
    these operands; part 2 pins every translated expression and every operand list, also of the code
    the model abstracts.  An edit of a guard, an operand, a constant, a loop header or a store in the
    Go source changes the generated file and re-opens these obligations. *)
From Coq Require Import List ZArith NArith Bool Lia String.
From Kardia Require Import Base.Int64 Base.GoSem.
From Kardia Require Import Generated.C18Source.
From Kardia Require Import Generated.C18Facts C18.Model C18.ModelFetcher.
Import ListNotations.
Local Open Scope Z_scope.

(** a condition that is a single atom: the atom is pinned, and its polarity *)
Definition pinned1 (f : bool -> bool) (atoms : list string) (positive : bool) (a : string) : Prop :=
  atoms = [a] /\ forall b, f b = if positive then b else negb b.

Definition u64 (z : Z) : Prop := 0 <= z < 18446744073709551616.
Definition u32 (z : Z) : Prop := 0 <= z < 4294967296.

(** * Part 1: the model's expressions are the source's *)

(** ** constants *)
Lemma src_consts :
  consensus__StateChannel = chan_state /\ consensus__DataChannel = chan_data /\ consensus__VoteChannel = chan_vote /\
  consensus__VoteSetBitsChannel = chan_vsb /\ consensus__maxMsgSize = max_msg_size /\
  types__MaxBlockPartsCount = max_block_parts_count /\ types__MaxVotesCount = max_votes_count /\
  types__BlockPartSizeBytes = block_part_size_bytes /\ blockchain__MaxMsgSize = bc_max_msg_size /\
  lib_merkle__Size = merkle_size /\
  mainchain_fetcher__maxTxAnnounces = max_tx_announces /\ mainchain_fetcher__maxTxRetrievals = max_tx_retrievals /\
  mainchain_fetcher__txArriveTimeout = tx_arrive_timeout_ms * 1000000 /\
  mainchain_fetcher__txGatherSlack = tx_gather_slack_ms * 1000000 /\ mainchain_fetcher__gatherSlack = tx_gather_slack_ms * 1000000.
Proof. repeat split; reflexivity. Qed.

(** ** ConsensusManager.Receive: the channel switch and the height tests *)
Lemma src_channel_switch ch :
  consensus__ConsensusManager_Receive__case_chID_eq_StateChannel ch = (ch =? chan_state) /\
  consensus__ConsensusManager_Receive__case_chID_eq_DataChannel ch = (ch =? chan_data) /\
  consensus__ConsensusManager_Receive__case_chID_eq_VoteChannel ch = (ch =? chan_vote) /\
  consensus__ConsensusManager_Receive__case_chID_eq_VoteSetBitsChannel ch = (ch =? chan_vsb).
Proof. repeat split; reflexivity. Qed.

(** the node's own array is consulted for a VoteSetBits message of the node's height only *)
Lemma src_vsb_height e h : (e_height e =? h) = consensus__ConsensusManager_Receive__if_height_eq_msg_Height (e_height e) h.
Proof. reflexivity. Qed.

(** EnsureVoteBitArrays(height-1, ...): the model's [e_height e - 1] is the uint64 subtraction *)
Lemma src_height_minus_1 h : 1 <= h -> u64 h -> consensus__ConsensusManager_Receive__arg_height_minus_1 h = h - 1.
Proof. unfold u64, consensus__ConsensusManager_Receive__arg_height_minus_1. intros. gosolve. Qed.

(** ** the validators of the messages (ValidateBasic), as [from_proto] applies them *)

(** RoundStepType.IsValid on the uint8 the wire value is cut to *)
Lemma src_step_valid s : 0 <= s < 256 ->
  ((step_min <=? s) && (s <=? step_max)) = consensus_types__RoundStepType_IsValid__ret_uint32_rs_ge_0x01_and_uint32_rs_le_0x08 s.
Proof.
  intros H. unfold consensus_types__RoundStepType_IsValid__ret_uint32_rs_ge_0x01_and_uint32_rs_le_0x08, step_min, step_max.
  gosem. rewrite Z.geb_leb. reflexivity.
Qed.

(** NewRoundStepMessage.ValidateHeight *)
Lemma src_nrs_height h lcr ih :
  nrs_height_ok h lcr ih =
  if consensus__NewRoundStepMessage_ValidateHeight__if_m_Height_lt_initialHeight h ih then false
  else if consensus__NewRoundStepMessage_ValidateHeight__if_m_Height_eq_initialHeight_and_m_LastCommitRound_ne_0 h ih lcr then false
  else if consensus__NewRoundStepMessage_ValidateHeight__if_m_Height_gt_initialHeight_and_m_LastCommitRound_eq_0 h ih lcr then false
  else true.
Proof.
  unfold nrs_height_ok, consensus__NewRoundStepMessage_ValidateHeight__if_m_Height_lt_initialHeight,
    consensus__NewRoundStepMessage_ValidateHeight__if_m_Height_eq_initialHeight_and_m_LastCommitRound_ne_0,
    consensus__NewRoundStepMessage_ValidateHeight__if_m_Height_gt_initialHeight_and_m_LastCommitRound_eq_0, go_neqb.
  rewrite Z.gtb_ltb. reflexivity.
Qed.

(** NewValidBlockMessage.ValidateBasic on the decoded array [b] and the header's total *)
Lemma src_nvb_validate size total : u32 total ->
  (size =? 0) = consensus__NewValidBlockMessage_ValidateBasic__if_m_BlockParts_Size_eq_0 size /\
  negb (size =? total) = consensus__NewValidBlockMessage_ValidateBasic__if_m_BlockParts_Size_ne_int_m_BlockPartsHeader_Total size total /\
  (max_block_parts_count <? size) = consensus__NewValidBlockMessage_ValidateBasic__if_m_BlockParts_Size_gt_types_MaxBlockPartsCount size.
Proof.
  unfold u32. intros H. split; [reflexivity|]. split.
  - unfold consensus__NewValidBlockMessage_ValidateBasic__if_m_BlockParts_Size_ne_int_m_BlockPartsHeader_Total. gosem. reflexivity.
  - unfold consensus__NewValidBlockMessage_ValidateBasic__if_m_BlockParts_Size_gt_types_MaxBlockPartsCount, max_block_parts_count.
    now rewrite Z.gtb_ltb.
Qed.

Lemma src_pol_validate size :
  (size =? 0) = consensus__ProposalPOLMessage_ValidateBasic__if_m_ProposalPOL_Size_eq_0 size /\
  (max_votes_count <? size) = consensus__ProposalPOLMessage_ValidateBasic__if_m_ProposalPOL_Size_gt_types_MaxVotesCount size.
Proof.
  split; [reflexivity|]. unfold consensus__ProposalPOLMessage_ValidateBasic__if_m_ProposalPOL_Size_gt_types_MaxVotesCount, max_votes_count.
  now rewrite Z.gtb_ltb.
Qed.

Lemma src_vsb_validate size :
  (max_votes_count <? size) = consensus__VoteSetBitsMessage_ValidateBasic__if_m_Votes_Size_gt_types_MaxVotesCount size.
Proof. unfold consensus__VoteSetBitsMessage_ValidateBasic__if_m_Votes_Size_gt_types_MaxVotesCount, max_votes_count. now rewrite Z.gtb_ltb. Qed.

(** IsVoteTypeValid, used by HasVote / VoteSetMaj23 / VoteSetBits / Vote *)
Lemma src_type_valid t :
  type_valid t = (types__IsVoteTypeValid__case_t_eq_kproto_PrevoteType t || types__IsVoteTypeValid__case_t_eq_kproto_PrecommitType t)%bool.
Proof. reflexivity. Qed.

(** BlockID / PartSetHeader predicates *)
Lemma src_blockid b :
  psh_zero b = types__PartSetHeader_IsZero__ret_psh_Total_eq_0_and_psh_Hash_IsZero (b_total b) (b_pshash_zero b) /\
  bid_zero b = types__BlockID_IsZero__ret_blockID_Hash_IsZero_and_blockID_PartsHeader_IsZero (b_hash_zero b) (psh_zero b) /\
  bid_complete b = types__BlockID_IsComplete__ret_not_blockID_Hash_IsZero_and_not_blockID_PartsHeader_IsZero (b_hash_zero b) (psh_zero b).
Proof. repeat split; reflexivity. Qed.

(** Vote.ValidateBasic and Proposal.ValidateBasic as [from_proto] applies them *)
Lemma src_vote_validate b siglen :
  (negb (bid_zero b) && negb (bid_complete b))%bool =
    types__Vote_ValidateBasic__if_not_vote_BlockID_IsZero_and_not_vote_BlockID_IsComplete (bid_zero b) (bid_complete b) /\
  (siglen =? 0) = types__Vote_ValidateBasic__if_len_vote_Signature_eq_0 siglen.
Proof. split; reflexivity. Qed.

Lemma src_proposal_validate total siglen :
  (max_block_parts_count <? total) = types__Proposal_ValidateBasic__if_p_POLBlockID_PartsHeader_Total_gt_MaxBlockPartsCount total /\
  (siglen =? 0) = types__Proposal_ValidateBasic__if_len_p_Signature_eq_0 siglen.
Proof.
  split; [|reflexivity]. unfold types__Proposal_ValidateBasic__if_p_POLBlockID_PartsHeader_Total_gt_MaxBlockPartsCount, max_block_parts_count.
  now rewrite Z.gtb_ltb.
Qed.

(** Part.ValidateBasic and the merkle proof's *)
Lemma src_part_validate byteslen leaflen :
  (block_part_size_bytes <? byteslen) = types__Part_ValidateBasic__if_len_part_Bytes_gt_BlockPartSizeBytes byteslen /\
  negb (leaflen =? merkle_size) = lib_merkle__SimpleProof_ValidateBasic__if_len_sp_LeafHash_ne_Size leaflen.
Proof.
  split; [|reflexivity]. unfold types__Part_ValidateBasic__if_len_part_Bytes_gt_BlockPartSizeBytes, block_part_size_bytes.
  now rewrite Z.gtb_ltb.
Qed.

(** ** PeerState *)
Lemma src_set_has_proposal p h r :
  (negb (p_height p =? h) || negb (p_round p =? r))%bool =
  consensus__PeerState_SetHasProposal__if_ps_PRS_Height_ne_proposal_Height_or_ps_PRS_Round_ne_proposal_Round (p_height p) h (p_round p) r.
Proof. reflexivity. Qed.
Lemma src_set_has_part p h r :
  (negb (p_height p =? h) || negb (p_round p =? r))%bool =
  consensus__PeerState_SetHasProposalBlockPart__if_ps_PRS_Height_ne_height_or_ps_PRS_Round_ne_round (p_height p) h (p_round p) r.
Proof. reflexivity. Qed.
Lemma src_apply_nvb p h r ic :
  negb (p_height p =? h) = consensus__PeerState_ApplyNewValidBlockMessage__if_ps_PRS_Height_ne_msg_Height (p_height p) h /\
  (negb (p_round p =? r) && negb ic)%bool = consensus__PeerState_ApplyNewValidBlockMessage__if_ps_PRS_Round_ne_msg_Round_and_not_msg_IsCommit (p_round p) r ic.
Proof. split; reflexivity. Qed.
Lemma src_apply_pol p h polr :
  negb (p_height p =? h) = consensus__PeerState_ApplyProposalPOLMessage__if_ps_PRS_Height_ne_msg_Height (p_height p) h /\
  negb (p_polround p =? polr) = consensus__PeerState_ApplyProposalPOLMessage__if_ps_PRS_ProposalPOLRound_ne_msg_ProposalPOLRound (p_polround p) polr.
Proof. split; reflexivity. Qed.
Lemma src_apply_hv p h : negb (p_height p =? h) = consensus__PeerState_ApplyHasVoteMessage__if_ps_PRS_Height_ne_msg_Height (p_height p) h.
Proof. reflexivity. Qed.
Lemma src_pick_vote v : (vs_size v =? 0) = consensus__PeerState_PickVoteToSend__if_votes_Size_eq_0 (vs_size v).
Proof. reflexivity. Qed.

(** getVoteBitArray = [get_slot], decision by decision (the uint64 height+1 wraps) *)
Lemma src_get_slot p h r t : u64 h ->
  get_slot p h r t =
  if consensus__PeerState_getVoteBitArray__if_not_types_IsVoteTypeValid_signedMsgType (type_valid t) then None
  else if consensus__PeerState_getVoteBitArray__if_ps_PRS_Height_eq_height (p_height p) h then
    if consensus__PeerState_getVoteBitArray__if_ps_PRS_Round_eq_round (p_round p) r then
      (if consensus__PeerState_getVoteBitArray__case_signedMsgType_eq_kproto_PrevoteType t then Some SPrevotes else Some SPrecommits)
    else if consensus__PeerState_getVoteBitArray__if_ps_PRS_CatchupCommitRound_eq_round (p_ccr p) r then
      (if consensus__PeerState_getVoteBitArray__case_signedMsgType_eq_kproto_PrevoteType_2 t then None else Some SCatchup)
    else if consensus__PeerState_getVoteBitArray__if_ps_PRS_ProposalPOLRound_eq_round (p_polround p) r then
      (if consensus__PeerState_getVoteBitArray__case_signedMsgType_eq_kproto_PrevoteType_3 t then Some SPOL else None)
    else None
  else if consensus__PeerState_getVoteBitArray__if_ps_PRS_Height_eq_height_plus_1 (p_height p) h then
    if consensus__PeerState_getVoteBitArray__if_ps_PRS_LastCommitRound_eq_round (p_lcr p) r then
      (if consensus__PeerState_getVoteBitArray__case_signedMsgType_eq_kproto_PrevoteType_4 t then None else Some SLast)
    else None
  else None.
Proof.
  intros H. unfold get_slot, consensus__PeerState_getVoteBitArray__if_ps_PRS_Height_eq_height_plus_1, as_uint, two64, go_add, wrap.
  reflexivity.
Qed.

Lemma src_ensure_arrays p h : u64 h ->
  (p_height p =? h) = consensus__PeerState_ensureVoteBitArrays__if_ps_PRS_Height_eq_height (p_height p) h /\
  (p_height p =? as_uint (h + 1)) = consensus__PeerState_ensureVoteBitArrays__if_ps_PRS_Height_eq_height_plus_1 (p_height p) h.
Proof. intros H. split; reflexivity. Qed.

Lemma src_ensure_catchup p h r :
  negb (p_height p =? h) = consensus__PeerState_ensureCatchupCommitRound__if_ps_PRS_Height_ne_height (p_height p) h /\
  (p_ccr p =? r) = consensus__PeerState_ensureCatchupCommitRound__if_ps_PRS_CatchupCommitRound_eq_round (p_ccr p) r /\
  (r =? p_round p) = consensus__PeerState_ensureCatchupCommitRound__if_round_eq_ps_PRS_Round r (p_round p).
Proof. repeat split; reflexivity. Qed.

(** CompareHRS = [compare_hrs] *)
Lemma src_compare_hrs h1 r1 s1 h2 r2 s2 :
  compare_hrs h1 r1 s1 h2 r2 s2 =
  if consensus__CompareHRS__if_h1_lt_h2 h1 h2 then -1 else if consensus__CompareHRS__if_h1_gt_h2 h1 h2 then 1
  else if consensus__CompareHRS__if_r1_lt_r2 r1 r2 then -1 else if consensus__CompareHRS__if_r1_gt_r2 r1 r2 then 1
  else if consensus__CompareHRS__if_s1_lt_s2 s1 s2 then -1 else if consensus__CompareHRS__if_s1_gt_s2 s1 s2 then 1 else 0.
Proof.
  unfold compare_hrs, consensus__CompareHRS__if_h1_lt_h2, consensus__CompareHRS__if_h1_gt_h2, consensus__CompareHRS__if_r1_lt_r2,
    consensus__CompareHRS__if_r1_gt_r2, consensus__CompareHRS__if_s1_lt_s2, consensus__CompareHRS__if_s1_gt_s2.
  rewrite !Z.gtb_ltb. reflexivity.
Qed.

(** ApplyNewRoundStepMessage: the guards of [apply_nrs] *)
Lemma src_apply_nrs p h r s lcr : u64 (p_height p) ->
  (compare_hrs h r s (p_height p) (p_round p) (p_step p) <=? 0) =
    consensus__PeerState_ApplyNewRoundStepMessage__if_CompareHRS_msg_Height_msg_Round_msg_Step_ps_PRS_Height_ps_PR_3ef4ef0e
      (compare_hrs h r s (p_height p) (p_round p) (p_step p)) /\
  (negb (p_height p =? h) || negb (p_round p =? r))%bool =
    consensus__PeerState_ApplyNewRoundStepMessage__if_psHeight_ne_msg_Height_or_psRound_ne_msg_Round (p_height p) h (p_round p) r /\
  ((p_height p =? h) && negb (p_round p =? r) && (r =? p_ccr p))%bool =
    consensus__PeerState_ApplyNewRoundStepMessage__if_psHeight_eq_msg_Height_and_psRound_ne_msg_Round_and_msg_Roun_329e9b89
      (p_height p) h (p_round p) r (p_ccr p) /\
  negb (p_height p =? h) = consensus__PeerState_ApplyNewRoundStepMessage__if_psHeight_ne_msg_Height (p_height p) h /\
  ((as_uint (p_height p + 1) =? h) && (p_round p =? lcr))%bool =
    consensus__PeerState_ApplyNewRoundStepMessage__if_psHeight_plus_1_eq_msg_Height_and_psRound_eq_msg_LastCommitRound
      (p_height p) h (p_round p) lcr.
Proof. intros H. repeat split; reflexivity. Qed.

(** ** HeightVoteSet *)
Lemma src_hvs_new : hv_round hvs_new = consensus_types__NewHeightVoteSet__put_hvs_round.
Proof. reflexivity. Qed.

(** SetRound: newRound, the sanity guard, the loop from newRound while r <= round, r++ *)
Lemma src_set_round_new h : (hv_round h - 1) mod two32 = consensus_types__HeightVoteSet_SetRound__set_newRound (hv_round h).
Proof. reflexivity. Qed.
Lemma src_set_round_guard h round :
  (negb (hv_round h =? 1) && (round <? (hv_round h - 1) mod two32))%bool =
  consensus_types__HeightVoteSet_SetRound__if_hvs_round_ne_1_and_round_lt_newRound (hv_round h) round
    (consensus_types__HeightVoteSet_SetRound__set_newRound (hv_round h)).
Proof. reflexivity. Qed.
(** the loop starts at newRound ... *)
Lemma src_set_round_init nr : consensus_types__HeightVoteSet_SetRound__forinit_r nr = nr.
Proof. reflexivity. Qed.
(** ... runs exactly [round - newRound + 1] times — the count [hvs_set_round] gives [hvs_fill] —
    as long as round is not MaxUint32 (where the model says RAlloc: the counter wraps) *)
Lemma src_set_round_count nr round k : u32 nr -> 0 <= round < two32 - 1 -> 0 <= k ->
  consensus_types__HeightVoteSet_SetRound__for_r_le_round (nr + k) round = (k <? round - nr + 1).
Proof.
  unfold u32, two32, consensus_types__HeightVoteSet_SetRound__for_r_le_round. intros.
  destruct (Z.leb_spec (nr + k) round), (Z.ltb_spec k (round - nr + 1)); try reflexivity; lia.
Qed.
Lemma src_set_round_incr r round : 0 <= r <= round -> round < two32 - 1 ->
  consensus_types__HeightVoteSet_SetRound__set_r_op r = r + 1.
Proof. unfold two32, consensus_types__HeightVoteSet_SetRound__set_r_op. intros. gosolve. Qed.
(** a round that exists already is skipped ([hvs_fill] tests membership before addRound) and
    addRound panics on an existing round ([hvs_add_round]): the two map tests are the conditions *)
Lemma src_set_round_skip :
  pinned1 consensus_types__HeightVoteSet_SetRound__if_ok consensus_types__HeightVoteSet_SetRound__if_ok_atoms true "ok : bool" /\
  pinned1 consensus_types__HeightVoteSet_addRound__if_ok consensus_types__HeightVoteSet_addRound__if_ok_atoms true "ok : bool" /\
  consensus_types__HeightVoteSet_SetRound__forinit_r_atoms = ["newRound : uint32"]%string /\
  consensus_types__HeightVoteSet_SetRound__for_r_le_round_atoms = ["r : uint32"; "round : uint32"]%string /\
  consensus_types__HeightVoteSet_SetRound__put_hvs_round_atoms = ["round : uint32"]%string.
Proof. unfold pinned1. repeat split. Qed.
Lemma src_set_round_put round : consensus_types__HeightVoteSet_SetRound__put_hvs_round round = round.
Proof. reflexivity. Qed.

(** AddVote: the catch-up allowance of two rounds per peer *)
Lemma src_catchup_limit (rndz : list Z) :
  (len rndz <? 2) = consensus_types__HeightVoteSet_AddVote__if_len_rndz_lt_2 (len rndz) /\
  consensus_types__HeightVoteSet_AddVote__if_len_rndz_lt_2_atoms = ["len(rndz) : int"]%string.
Proof. split; reflexivity. Qed.

(** ** BitArray *)
Definition i63 (z : Z) : Prop := -9223372036854775808 <= z < 9223372036854775807 - 63.

Lemma src_words_for bits : i63 bits ->
  words_for bits = lib_common__NewBitArray__arg_bits_plus_63_div_64 bits /\
  words_for bits = lib_common__BitArray_copyBits__arg_bits_plus_63_div_64 bits.
Proof.
  unfold i63, words_for, lib_common__NewBitArray__arg_bits_plus_63_div_64, lib_common__BitArray_copyBits__arg_bits_plus_63_div_64.
  intros H. assert (Hq : -9223372036854775808 <= Z.quot (bits + 63) 64 <= 9223372036854775807).
  { pose proof (Z.quot_lt_upper_bound). destruct (Z_le_gt_dec 0 (bits + 63)).
    - split; [pose proof (Z.quot_pos (bits + 63) 64); lia|]. apply Z.le_trans with (bits + 63); [|lia]. apply Z.quot_le_upper_bound; lia.
    - split; [|pose proof (Z.quot_opp_l (bits+63) 64); assert (Z.quot (bits + 63) 64 <= 0) by (apply Z.quot_le_upper_bound; lia); lia].
      rewrite <- (Z.opp_involutive (bits + 63)). rewrite Z.quot_opp_l by lia.
      assert (Z.quot (- (bits + 63)) 64 <= - (bits + 63)) by (apply Z.quot_le_upper_bound; lia). lia. }
  split; gosem; reflexivity.
Qed.

Lemma src_new_bitarray bits : (bits <=? 0) = lib_common__NewBitArray__if_bits_le_0 bits.
Proof. reflexivity. Qed.

(** int(bA.Bits) is [as_int]; the index guards of getIndex / setIndex *)
Lemma src_as_int u : u64 u -> as_int u = go_conv I64 u.
Proof.
  unfold u64, as_int, two63, two64, go_conv, wrap. intros H.
  destruct (Z.ltb_spec u 9223372036854775808).
  - rewrite Z.mod_small by lia. lia.
  - replace (u + 9223372036854775808) with (u - 9223372036854775808 + 1 * 18446744073709551616) by lia.
    rewrite Z.mod_add by lia. rewrite Z.mod_small by lia. lia.
Qed.
Lemma src_index_guard b i : u64 (ba_bits b) ->
  (as_int (ba_bits b) <=? i) = lib_common__BitArray_getIndex__if_i_ge_int_bA_Bits i (ba_bits b) /\
  (as_int (ba_bits b) <=? i) = lib_common__BitArray_setIndex__if_i_ge_int_bA_Bits i (ba_bits b).
Proof.
  intros H. unfold lib_common__BitArray_getIndex__if_i_ge_int_bA_Bits, lib_common__BitArray_setIndex__if_i_ge_int_bA_Bits.
  rewrite <- (src_as_int _ H), Z.geb_leb. split; reflexivity.
Qed.

(** ValidateBasic (8b6016a): bits <= MaxInt32 and len(elems) = (int(bits)+63)/64 *)
Lemma src_ba_valid b : u64 (ba_bits b) -> ba_bits b <= max_int32 ->
  ba_valid b = (negb (lib_common__BitArray_ValidateBasic__if_bA_Bits_gt_math_MaxInt32 (ba_bits b)) &&
                negb (lib_common__BitArray_ValidateBasic__if_len_bA_Elems_ne_expected (len (ba_elems b))
                        (lib_common__BitArray_ValidateBasic__set_expected (ba_bits b))))%bool.
Proof.
  unfold u64, max_int32. intros H Hm. unfold ba_valid, lib_common__BitArray_ValidateBasic__if_bA_Bits_gt_math_MaxInt32,
    lib_common__BitArray_ValidateBasic__if_len_bA_Elems_ne_expected, lib_common__BitArray_ValidateBasic__set_expected, max_int32.
  rewrite Z.gtb_ltb. replace (2147483647 <? ba_bits b) with (negb (ba_bits b <=? 2147483647)) by (rewrite Z.leb_antisym; now rewrite negb_involutive).
  rewrite negb_involutive. f_equal. unfold go_neqb. rewrite negb_involutive. f_equal.
  assert (Ha : as_int (ba_bits b) = ba_bits b) by (unfold as_int, two63; destruct (Z.ltb_spec (ba_bits b) 9223372036854775808); lia).
  rewrite Ha. unfold words_for. gosem.
  rewrite (wrap_id I64 (Z.quot (ba_bits b + 63) 64)); [reflexivity|].
  unfold in_range. split; [pose proof (Z.quot_pos (ba_bits b + 63) 64); lia|].
  apply Z.le_trans with (ba_bits b + 63); [apply Z.quot_le_upper_bound; lia|lia].
Qed.
Lemma src_ba_valid_bits b : (ba_bits b <=? max_int32) = negb (lib_common__BitArray_ValidateBasic__if_bA_Bits_gt_math_MaxInt32 (ba_bits b)).
Proof.
  unfold lib_common__BitArray_ValidateBasic__if_bA_Bits_gt_math_MaxInt32, max_int32. rewrite Z.gtb_ltb, Z.leb_antisym. reflexivity.
Qed.

(** FromProto: Bits := uint(pb.Bits) *)
Lemma src_from_wbits w : ba_bits (from_wbits (Some w)) = lib_common__BitArray_FromProto__put_bA_Bits (wb_bits w).
Proof. reflexivity. Qed.

(** Sub: which branch *)
Lemma src_sub_branch a o : (ba_bits o <? ba_bits a) = lib_common__BitArray_Sub__if_bA_Bits_gt_o_Bits (ba_bits a) (ba_bits o).
Proof. unfold lib_common__BitArray_Sub__if_bA_Bits_gt_o_Bits. now rewrite Z.gtb_ltb. Qed.

(** ** block sync: ValidateMsg = [bc_valid] *)
Lemma src_bc_valid base h :
  bc_valid (BStatusResp base h) = negb (blockchain__ValidateMsg__if_msg_Base_gt_msg_Height base h) /\
  bc_valid (BBlockReq h) = negb (blockchain__ValidateMsg__if_msg_Height_lt_1 h) /\
  bc_valid (BNoBlock h) = negb (blockchain__ValidateMsg__if_msg_Height_lt_1_2 h).
Proof.
  unfold bc_valid, blockchain__ValidateMsg__if_msg_Base_gt_msg_Height, blockchain__ValidateMsg__if_msg_Height_lt_1, blockchain__ValidateMsg__if_msg_Height_lt_1_2.
  rewrite Z.gtb_ltb, !Z.leb_antisym. repeat split; reflexivity.
Qed.

(** ** tx pool: empty lists are refused *)
Lemma src_tx_empty n :
  (n =? 0) = mainchain_tx_pool__decodeMsg__if_len_txs_eq_0 n /\ (n =? 0) = mainchain_tx_pool__decodeMsg__if_len_hashes_eq_0 n /\
  (n =? 0) = mainchain_tx_pool__decodeMsg__if_len_txs_eq_0_2 n /\ (n =? 0) = mainchain_tx_pool__decodeMsg__if_len_hashes_eq_0_2 n.
Proof. repeat split; reflexivity. Qed.

(** ** the tx fetcher (times: the model counts milliseconds, the source nanoseconds) *)
Definition ms (t : Z) : Z := t * 1000000.
Definition tms (t : Z) : Prop := 0 <= t < 1000000000000.

(** Notify is dropped / cut at maxTxAnnounces *)
Lemma src_announce_cap used n :
  (max_tx_announces <=? used) = mainchain_fetcher__TxFetcher_loop__if_used_ge_maxTxAnnounces used /\
  (max_tx_announces <? used + n) = mainchain_fetcher__TxFetcher_loop__if_want_gt_maxTxAnnounces (used + n).
Proof.
  unfold mainchain_fetcher__TxFetcher_loop__if_used_ge_maxTxAnnounces, mainchain_fetcher__TxFetcher_loop__if_want_gt_maxTxAnnounces, max_tx_announces.
  rewrite Z.geb_leb, Z.gtb_ltb. split; reflexivity.
Qed.
Lemma src_announce_used a b : 0 <= a < 4294967296 -> 0 <= b < 4294967296 ->
  mainchain_fetcher__TxFetcher_loop__set_used a b = a + b /\ mainchain_fetcher__TxFetcher_loop__set_want a b = a + b.
Proof. unfold mainchain_fetcher__TxFetcher_loop__set_used, mainchain_fetcher__TxFetcher_loop__set_want. intros. split; gosolve. Qed.
Lemma src_idle_wait (s : Fetcher) :
  is_nil (f_waittime s) = mainchain_fetcher__TxFetcher_loop__set_idleWait (zlen (f_waittime s)).
Proof. unfold mainchain_fetcher__TxFetcher_loop__set_idleWait, zlen. destruct (f_waittime s); reflexivity. Qed.

(** the wait trigger's expiry test and the timeout trigger's *)
Lemma src_wait_expiry now inst : tms now -> tms inst ->
  (arrive_timeout <? (now - inst) + gather_slack) =
  mainchain_fetcher__TxFetcher_loop__if_time_Duration_f_clock_Now_minus_instance_plus_txGatherSlack__ad1ffaf4 (ms now) (ms inst).
Proof.
  unfold tms, ms, arrive_timeout, gather_slack, tx_arrive_timeout_ms, tx_gather_slack_ms,
    mainchain_fetcher__TxFetcher_loop__if_time_Duration_f_clock_Now_minus_instance_plus_txGatherSlack__ad1ffaf4.
  intros. gosem. rewrite Z.gtb_ltb.
  destruct (Z.ltb_spec 500 (now - inst + 100)), (Z.ltb_spec 500000000 (now * 1000000 - inst * 1000000 + 100000000)); try reflexivity; lia.
Qed.
Lemma src_fetch_expiry now t : tms now -> tms t ->
  (fetch_timeout <? (now - t) + gather_slack) =
  mainchain_fetcher__TxFetcher_loop__if_time_Duration_f_clock_Now_minus_req_time_plus_txGatherSlack__0c5cb80d (ms now) (ms t) (ms tx_fetch_timeout_ms).
Proof.
  unfold tms, ms, fetch_timeout, gather_slack, tx_fetch_timeout_ms, tx_gather_slack_ms,
    mainchain_fetcher__TxFetcher_loop__if_time_Duration_f_clock_Now_minus_req_time_plus_txGatherSlack__0c5cb80d.
  intros. gosem. rewrite Z.gtb_ltb.
  destruct (Z.ltb_spec 5000 (now - t + 100)), (Z.ltb_spec (5000 * 1000000) (now * 1000000 - t * 1000000 + 100000000)); try reflexivity; lia.
Qed.
(** the timers: txArriveTimeout - (now - earliest), txFetchTimeout - (now - earliest) *)
Lemma src_wait_timer now e : tms now -> tms e ->
  ms (arrive_timeout - (now - e)) = mainchain_fetcher__TxFetcher_rescheduleWait__arg_txArriveTimeout_minus_time_Duration_now_minus_earliest (ms now) (ms e).
Proof.
  unfold tms, ms, arrive_timeout, tx_arrive_timeout_ms, mainchain_fetcher__TxFetcher_rescheduleWait__arg_txArriveTimeout_minus_time_Duration_now_minus_earliest.
  intros. gosem. lia.
Qed.
Lemma src_timeout_timer now e : tms now -> tms e ->
  ms (fetch_timeout - (now - e)) =
  mainchain_fetcher__TxFetcher_rescheduleTimeout__arg_txFetchTimeout_minus_time_Duration_now_minus_earliest (ms tx_fetch_timeout_ms) (ms now) (ms e).
Proof.
  unfold tms, ms, fetch_timeout, tx_fetch_timeout_ms, mainchain_fetcher__TxFetcher_rescheduleTimeout__arg_txFetchTimeout_minus_time_Duration_now_minus_earliest.
  intros. gosem. lia.
Qed.

(** scheduleFetches: at most maxTxRetrievals per request; idle test *)
Lemma src_retrievals (hs : list Z) :
  (max_tx_retrievals <=? zlen hs) = mainchain_fetcher__TxFetcher_scheduleFetches__if_len_hashes_ge_maxTxRetrievals (zlen hs).
Proof. unfold mainchain_fetcher__TxFetcher_scheduleFetches__if_len_hashes_ge_maxTxRetrievals, max_tx_retrievals. now rewrite Z.geb_leb. Qed.

(** the delivery loop: a delivery is "stolen" when the hash is in flight from somebody else or the
    delivery is a broadcast; the partial-delivery cutoff *)
Lemma src_stolen o origin direct :
  (negb (o =? origin) || negb direct)%bool =
  mainchain_fetcher__TxFetcher_loop__if_ok_and_origin_ne_delivery_origin_or_not_delivery_direct true (negb (o =? origin)) direct.
Proof. reflexivity. Qed.
Lemma src_cutoff i c : (i <? c) = mainchain_fetcher__TxFetcher_loop__if_i_lt_cutoff i c.
Proof. reflexivity. Qed.

(** the drop handler's branch on what is left of the alternates (seeded breakage a2 turns the test
    around) and the clean-up of the alternates of the other hashes (95b0505) *)
Lemma src_drop_branch :
  (forall n, mainchain_fetcher__TxFetcher_loop__if_len_f_alternates_at_hash_eq_0 n = (n =? 0)) /\
  mainchain_fetcher__TxFetcher_loop__if_len_f_alternates_at_hash_eq_0_atoms = ["len(f.alternates[hash]) : int"]%string /\
  pinned1 mainchain_fetcher__TxFetcher_loop__if_alts_ne_nil mainchain_fetcher__TxFetcher_loop__if_alts_ne_nil_atoms true "alts != nil : untyped bool" /\
  (forall n, mainchain_fetcher__TxFetcher_loop__if_len_f_alternates_at_hash_gt_0 n = (0 <? n)) /\
  mainchain_fetcher__TxFetcher_loop__if_len_f_alternates_at_hash_gt_0_atoms = ["len(f.alternates[hash]) : int"]%string.
Proof. unfold pinned1. repeat split. intros n. unfold mainchain_fetcher__TxFetcher_loop__if_len_f_alternates_at_hash_gt_0. now rewrite Z.gtb_ltb. Qed.

(** the model's branch: [zs_del peer alternates] empty or not *)
Lemma src_drop_branch_model (a : list Z) :
  (match a with [] => true | _ => false end) = mainchain_fetcher__TxFetcher_loop__if_len_f_alternates_at_hash_eq_0 (zlen a).
Proof. unfold mainchain_fetcher__TxFetcher_loop__if_len_f_alternates_at_hash_eq_0, zlen. destruct a; reflexivity. Qed.

(** ** PEX and addresses *)
Lemma src_port_ok p : port_ok p = negb (lib_p2p__NetAddressFromProto__if_pb_Port_ge_1_shl_16 p).
Proof. unfold port_ok, lib_p2p__NetAddressFromProto__if_pb_Port_ge_1_shl_16. rewrite Z.geb_leb, Z.ltb_antisym. reflexivity. Qed.
Lemma src_port_atoms :
  lib_p2p__NetAddressFromProto__if_pb_Port_ge_1_shl_16_atoms = ["pb.Port : uint32"]%string /\
  pinned1 lib_p2p__NetAddressFromProto__if_ip_eq_nil lib_p2p__NetAddressFromProto__if_ip_eq_nil_atoms true "ip == nil : untyped bool" /\
  lib_p2p__NetAddressFromProto__bind_ip_atoms = ["net.ParseIP(pb.IP)"]%string /\
  pinned1 lib_p2p_pex__Reactor_ReceiveAddrs__if_not_r_requestsSent_Has_id lib_p2p_pex__Reactor_ReceiveAddrs__if_not_r_requestsSent_Has_id_atoms false "r.requestsSent.Has(id) : bool".
Proof. unfold pinned1. repeat split. Qed.

(** ** connection: a message may fill its channel's capacity exactly *)
Lemma src_recv_capacity cap cur dl : 0 <= cur < 4294967296 -> 0 <= dl < 4294967296 ->
  (cap <? cur + dl) = lib_p2p_conn__Channel_recvPacketMsg__if_recvCap_lt_recvReceived cap (lib_p2p_conn__Channel_recvPacketMsg__set_recvReceived cur dl).
Proof.
  unfold lib_p2p_conn__Channel_recvPacketMsg__if_recvCap_lt_recvReceived, lib_p2p_conn__Channel_recvPacketMsg__set_recvReceived.
  intros. gosem. reflexivity.
Qed.

(** * Part 2: every translated expression and operand list, pinned *)
Definition pins_consensus__MsgFromProto : Prop :=
  pinned1 consensus__MsgFromProto__if_msg_eq_nil consensus__MsgFromProto__if_msg_eq_nil_atoms true "msg == nil : untyped bool" /\
  pinned1 consensus__MsgFromProto__if_err_ne_nil consensus__MsgFromProto__if_err_ne_nil_atoms true "err != nil : untyped bool" /\
  pinned1 consensus__MsgFromProto__if_err_ne_nil_2 consensus__MsgFromProto__if_err_ne_nil_2_atoms true "err != nil : untyped bool" /\
  pinned1 consensus__MsgFromProto__if_err_ne_nil_3 consensus__MsgFromProto__if_err_ne_nil_3_atoms true "err != nil : untyped bool" /\
  pinned1 consensus__MsgFromProto__if_err_ne_nil_4 consensus__MsgFromProto__if_err_ne_nil_4_atoms true "err != nil : untyped bool" /\
  pinned1 consensus__MsgFromProto__if_err_ne_nil_5 consensus__MsgFromProto__if_err_ne_nil_5_atoms true "err != nil : untyped bool" /\
  pinned1 consensus__MsgFromProto__if_err_ne_nil_6 consensus__MsgFromProto__if_err_ne_nil_6_atoms true "err != nil : untyped bool" /\
  pinned1 consensus__MsgFromProto__if_err_ne_nil_7 consensus__MsgFromProto__if_err_ne_nil_7_atoms true "err != nil : untyped bool" /\
  consensus__MsgFromProto__bind_pbPartSetHeader_err_atoms = ["types.PartSetHeaderFromProto(&msg.NewValidBlock.BlockPartSetHeader)"]%string /\
  consensus__MsgFromProto__bind_pbBits_atoms = ["new(common.BitArray)"]%string /\
  consensus__MsgFromProto__bind_pbP_err_atoms = ["types.ProposalFromProto(&msg.Proposal.Proposal)"]%string /\
  consensus__MsgFromProto__bind_pbBits_2_atoms = ["new(common.BitArray)"]%string /\
  consensus__MsgFromProto__bind_parts_err_atoms = ["types.PartFromProto(&msg.BlockPart.Part)"]%string /\
  consensus__MsgFromProto__bind_vote_err_atoms = ["types.VoteFromProto(msg.Vote.Vote)"]%string /\
  consensus__MsgFromProto__bind_bi_err_atoms = ["types.BlockIDFromProto(&msg.VoteSetMaj23.BlockID)"]%string /\
  consensus__MsgFromProto__bind_bi_err_2_atoms = ["types.BlockIDFromProto(&msg.VoteSetBits.BlockID)"]%string /\
  consensus__MsgFromProto__bind_bits_atoms = ["new(common.BitArray)"]%string /\
  consensus__MsgFromProto__bind_err_atoms = ["pb.ValidateBasic()"]%string.
Lemma pins_consensus__MsgFromProto_ok : pins_consensus__MsgFromProto. Proof. unfold pins_consensus__MsgFromProto, pinned1. repeat split. Qed.

Definition pins_consensus__ConsensusManager_Receive : Prop :=
  pinned1 consensus__ConsensusManager_Receive__if_not_conR_IsRunning consensus__ConsensusManager_Receive__if_not_conR_IsRunning_atoms false "conR.IsRunning() : bool" /\
  pinned1 consensus__ConsensusManager_Receive__if_err_ne_nil consensus__ConsensusManager_Receive__if_err_ne_nil_atoms true "err != nil : untyped bool" /\
  pinned1 consensus__ConsensusManager_Receive__if_err_ne_nil_2 consensus__ConsensusManager_Receive__if_err_ne_nil_2_atoms true "err != nil : untyped bool" /\
  pinned1 consensus__ConsensusManager_Receive__if_not_ok consensus__ConsensusManager_Receive__if_not_ok_atoms false "ok : bool" /\
  (forall x1, consensus__ConsensusManager_Receive__case_chID_eq_StateChannel x1 = (Z.eqb x1 32)) /\
  consensus__ConsensusManager_Receive__case_chID_eq_StateChannel_atoms = ["chID : byte"]%string /\
  (forall x1, consensus__ConsensusManager_Receive__case_chID_eq_DataChannel x1 = (Z.eqb x1 33)) /\
  consensus__ConsensusManager_Receive__case_chID_eq_DataChannel_atoms = ["chID : byte"]%string /\
  (forall x1, consensus__ConsensusManager_Receive__case_chID_eq_VoteChannel x1 = (Z.eqb x1 34)) /\
  consensus__ConsensusManager_Receive__case_chID_eq_VoteChannel_atoms = ["chID : byte"]%string /\
  (forall x1, consensus__ConsensusManager_Receive__case_chID_eq_VoteSetBitsChannel x1 = (Z.eqb x1 35)) /\
  consensus__ConsensusManager_Receive__case_chID_eq_VoteSetBitsChannel_atoms = ["chID : byte"]%string /\
  pinned1 consensus__ConsensusManager_Receive__if_err_ne_nil_3 consensus__ConsensusManager_Receive__if_err_ne_nil_3_atoms true "err != nil : untyped bool" /\
  (forall x1 x2, consensus__ConsensusManager_Receive__if_height_ne_msg_Height x1 x2 = (go_neqb x1 x2)) /\
  consensus__ConsensusManager_Receive__if_height_ne_msg_Height_atoms = ["height : uint64"; "msg.Height : uint64"]%string /\
  pinned1 consensus__ConsensusManager_Receive__if_err_ne_nil_4 consensus__ConsensusManager_Receive__if_err_ne_nil_4_atoms true "err != nil : untyped bool" /\
  (forall x1, consensus__ConsensusManager_Receive__case_msg_Type_eq_kproto_PrevoteType x1 = (Z.eqb x1 1)) /\
  consensus__ConsensusManager_Receive__case_msg_Type_eq_kproto_PrevoteType_atoms = ["msg.Type : github.com/kardiachain/go-kardia/proto/kardiachain/types.SignedMsgType"]%string /\
  (forall x1, consensus__ConsensusManager_Receive__case_msg_Type_eq_kproto_PrecommitType x1 = (Z.eqb x1 2)) /\
  consensus__ConsensusManager_Receive__case_msg_Type_eq_kproto_PrecommitType_atoms = ["msg.Type : github.com/kardiachain/go-kardia/proto/kardiachain/types.SignedMsgType"]%string /\
  (forall x1, consensus__ConsensusManager_Receive__let_valSize x1 = x1) /\
  consensus__ConsensusManager_Receive__let_valSize_atoms = ["cs.Validators.Size() : int"]%string /\
  (forall x1, consensus__ConsensusManager_Receive__let_lastCommitSize x1 = x1) /\
  consensus__ConsensusManager_Receive__let_lastCommitSize_atoms = ["cs.LastCommit.Size() : int"]%string /\
  (forall x1, consensus__ConsensusManager_Receive__arg_height_minus_1 x1 = (go_sub U64 x1 1)) /\
  consensus__ConsensusManager_Receive__arg_height_minus_1_atoms = ["height : uint64"]%string /\
  (forall x1 x2, consensus__ConsensusManager_Receive__if_height_eq_msg_Height x1 x2 = (Z.eqb x1 x2)) /\
  consensus__ConsensusManager_Receive__if_height_eq_msg_Height_atoms = ["height : uint64"; "msg.Height : uint64"]%string /\
  (forall x1, consensus__ConsensusManager_Receive__case_msg_Type_eq_kproto_PrevoteType_2 x1 = (Z.eqb x1 1)) /\
  consensus__ConsensusManager_Receive__case_msg_Type_eq_kproto_PrevoteType_2_atoms = ["msg.Type : github.com/kardiachain/go-kardia/proto/kardiachain/types.SignedMsgType"]%string /\
  (forall x1, consensus__ConsensusManager_Receive__case_msg_Type_eq_kproto_PrecommitType_2 x1 = (Z.eqb x1 2)) /\
  consensus__ConsensusManager_Receive__case_msg_Type_eq_kproto_PrecommitType_2_atoms = ["msg.Type : github.com/kardiachain/go-kardia/proto/kardiachain/types.SignedMsgType"]%string /\
  consensus__ConsensusManager_Receive__bind_msg_err_atoms = ["decodeMsg(msgBytes)"]%string /\
  consensus__ConsensusManager_Receive__bind_err_atoms = ["msg.ValidateBasic()"]%string /\
  consensus__ConsensusManager_Receive__bind_err_2_atoms = ["msg.ValidateHeight(initialHeight)"]%string /\
  consensus__ConsensusManager_Receive__bind_err_3_atoms = ["votes.SetPeerMaj23(msg.Round, msg.Type, ps.peer.ID(), msg.BlockID)"]%string /\
  consensus__ConsensusManager_Receive__bind_ourVotes_atoms = ["votes.Prevotes(msg.Round).BitArrayByBlockID(msg.BlockID)"]%string /\
  consensus__ConsensusManager_Receive__bind_ourVotes_2_atoms = ["votes.Precommits(msg.Round).BitArrayByBlockID(msg.BlockID)"]%string /\
  consensus__ConsensusManager_Receive__bind_ourVotes_3_atoms = ["votes.Prevotes(msg.Round).BitArrayByBlockID(msg.BlockID)"]%string /\
  consensus__ConsensusManager_Receive__bind_ourVotes_4_atoms = ["votes.Precommits(msg.Round).BitArrayByBlockID(msg.BlockID)"]%string.
Lemma pins_consensus__ConsensusManager_Receive_ok : pins_consensus__ConsensusManager_Receive. Proof. unfold pins_consensus__ConsensusManager_Receive, pinned1. repeat split. Qed.

Definition pins_consensus__NewRoundStepMessage_ValidateBasic : Prop :=
  pinned1 consensus__NewRoundStepMessage_ValidateBasic__if_not_m_Step_IsValid consensus__NewRoundStepMessage_ValidateBasic__if_not_m_Step_IsValid_atoms false "m.Step.IsValid() : bool".
Lemma pins_consensus__NewRoundStepMessage_ValidateBasic_ok : pins_consensus__NewRoundStepMessage_ValidateBasic. Proof. unfold pins_consensus__NewRoundStepMessage_ValidateBasic, pinned1. repeat split. Qed.

Definition pins_consensus__NewRoundStepMessage_ValidateHeight : Prop :=
  (forall x1 x2, consensus__NewRoundStepMessage_ValidateHeight__if_m_Height_lt_initialHeight x1 x2 = (Z.ltb x1 x2)) /\
  consensus__NewRoundStepMessage_ValidateHeight__if_m_Height_lt_initialHeight_atoms = ["m.Height : uint64"; "initialHeight : uint64"]%string /\
  (forall x1 x2 x3, consensus__NewRoundStepMessage_ValidateHeight__if_m_Height_eq_initialHeight_and_m_LastCommitRound_ne_0 x1 x2 x3 = (andb (Z.eqb x1 x2) (go_neqb x3 0))) /\
  consensus__NewRoundStepMessage_ValidateHeight__if_m_Height_eq_initialHeight_and_m_LastCommitRound_ne_0_atoms = ["m.Height : uint64"; "initialHeight : uint64"; "m.LastCommitRound : uint32"]%string /\
  (forall x1 x2 x3, consensus__NewRoundStepMessage_ValidateHeight__if_m_Height_gt_initialHeight_and_m_LastCommitRound_eq_0 x1 x2 x3 = (andb (Z.gtb x1 x2) (Z.eqb x3 0))) /\
  consensus__NewRoundStepMessage_ValidateHeight__if_m_Height_gt_initialHeight_and_m_LastCommitRound_eq_0_atoms = ["m.Height : uint64"; "initialHeight : uint64"; "m.LastCommitRound : uint32"]%string.
Lemma pins_consensus__NewRoundStepMessage_ValidateHeight_ok : pins_consensus__NewRoundStepMessage_ValidateHeight. Proof. unfold pins_consensus__NewRoundStepMessage_ValidateHeight, pinned1. repeat split. Qed.

Definition pins_consensus__NewValidBlockMessage_ValidateBasic : Prop :=
  pinned1 consensus__NewValidBlockMessage_ValidateBasic__if_err_ne_nil consensus__NewValidBlockMessage_ValidateBasic__if_err_ne_nil_atoms true "err != nil : untyped bool" /\
  pinned1 consensus__NewValidBlockMessage_ValidateBasic__if_err_ne_nil_2 consensus__NewValidBlockMessage_ValidateBasic__if_err_ne_nil_2_atoms true "err != nil : untyped bool" /\
  (forall x1, consensus__NewValidBlockMessage_ValidateBasic__if_m_BlockParts_Size_eq_0 x1 = (Z.eqb x1 0)) /\
  consensus__NewValidBlockMessage_ValidateBasic__if_m_BlockParts_Size_eq_0_atoms = ["m.BlockParts.Size() : int"]%string /\
  (forall x1 x2, consensus__NewValidBlockMessage_ValidateBasic__if_m_BlockParts_Size_ne_int_m_BlockPartsHeader_Total x1 x2 = (go_neqb x1 (go_conv I64 x2))) /\
  consensus__NewValidBlockMessage_ValidateBasic__if_m_BlockParts_Size_ne_int_m_BlockPartsHeader_Total_atoms = ["m.BlockParts.Size() : int"; "m.BlockPartsHeader.Total : uint32"]%string /\
  (forall x1, consensus__NewValidBlockMessage_ValidateBasic__if_m_BlockParts_Size_gt_types_MaxBlockPartsCount x1 = (Z.gtb x1 1601)) /\
  consensus__NewValidBlockMessage_ValidateBasic__if_m_BlockParts_Size_gt_types_MaxBlockPartsCount_atoms = ["m.BlockParts.Size() : int"]%string /\
  consensus__NewValidBlockMessage_ValidateBasic__bind_err_atoms = ["m.BlockPartsHeader.ValidateBasic()"]%string /\
  consensus__NewValidBlockMessage_ValidateBasic__bind_err_2_atoms = ["m.BlockParts.ValidateBasic()"]%string.
Lemma pins_consensus__NewValidBlockMessage_ValidateBasic_ok : pins_consensus__NewValidBlockMessage_ValidateBasic. Proof. unfold pins_consensus__NewValidBlockMessage_ValidateBasic, pinned1. repeat split. Qed.

Definition pins_consensus__ProposalPOLMessage_ValidateBasic : Prop :=
  pinned1 consensus__ProposalPOLMessage_ValidateBasic__if_err_ne_nil consensus__ProposalPOLMessage_ValidateBasic__if_err_ne_nil_atoms true "err != nil : untyped bool" /\
  (forall x1, consensus__ProposalPOLMessage_ValidateBasic__if_m_ProposalPOL_Size_eq_0 x1 = (Z.eqb x1 0)) /\
  consensus__ProposalPOLMessage_ValidateBasic__if_m_ProposalPOL_Size_eq_0_atoms = ["m.ProposalPOL.Size() : int"]%string /\
  (forall x1, consensus__ProposalPOLMessage_ValidateBasic__if_m_ProposalPOL_Size_gt_types_MaxVotesCount x1 = (Z.gtb x1 10000)) /\
  consensus__ProposalPOLMessage_ValidateBasic__if_m_ProposalPOL_Size_gt_types_MaxVotesCount_atoms = ["m.ProposalPOL.Size() : int"]%string /\
  consensus__ProposalPOLMessage_ValidateBasic__bind_err_atoms = ["m.ProposalPOL.ValidateBasic()"]%string.
Lemma pins_consensus__ProposalPOLMessage_ValidateBasic_ok : pins_consensus__ProposalPOLMessage_ValidateBasic. Proof. unfold pins_consensus__ProposalPOLMessage_ValidateBasic, pinned1. repeat split. Qed.

Definition pins_consensus__BlockPartMessage_ValidateBasic : Prop :=
  pinned1 consensus__BlockPartMessage_ValidateBasic__if_err_ne_nil consensus__BlockPartMessage_ValidateBasic__if_err_ne_nil_atoms true "err != nil : untyped bool" /\
  consensus__BlockPartMessage_ValidateBasic__bind_err_atoms = ["m.Part.ValidateBasic()"]%string.
Lemma pins_consensus__BlockPartMessage_ValidateBasic_ok : pins_consensus__BlockPartMessage_ValidateBasic. Proof. unfold pins_consensus__BlockPartMessage_ValidateBasic, pinned1. repeat split. Qed.

Definition pins_consensus__HasVoteMessage_ValidateBasic : Prop :=
  pinned1 consensus__HasVoteMessage_ValidateBasic__if_not_types_IsVoteTypeValid_m_Type consensus__HasVoteMessage_ValidateBasic__if_not_types_IsVoteTypeValid_m_Type_atoms false "types.IsVoteTypeValid(m.Type) : bool".
Lemma pins_consensus__HasVoteMessage_ValidateBasic_ok : pins_consensus__HasVoteMessage_ValidateBasic. Proof. unfold pins_consensus__HasVoteMessage_ValidateBasic, pinned1. repeat split. Qed.

Definition pins_consensus__VoteSetMaj23Message_ValidateBasic : Prop :=
  pinned1 consensus__VoteSetMaj23Message_ValidateBasic__if_not_types_IsVoteTypeValid_m_Type consensus__VoteSetMaj23Message_ValidateBasic__if_not_types_IsVoteTypeValid_m_Type_atoms false "types.IsVoteTypeValid(m.Type) : bool" /\
  pinned1 consensus__VoteSetMaj23Message_ValidateBasic__if_err_ne_nil consensus__VoteSetMaj23Message_ValidateBasic__if_err_ne_nil_atoms true "err != nil : untyped bool" /\
  consensus__VoteSetMaj23Message_ValidateBasic__bind_err_atoms = ["m.BlockID.ValidateBasic()"]%string.
Lemma pins_consensus__VoteSetMaj23Message_ValidateBasic_ok : pins_consensus__VoteSetMaj23Message_ValidateBasic. Proof. unfold pins_consensus__VoteSetMaj23Message_ValidateBasic, pinned1. repeat split. Qed.

Definition pins_consensus__VoteSetBitsMessage_ValidateBasic : Prop :=
  pinned1 consensus__VoteSetBitsMessage_ValidateBasic__if_not_types_IsVoteTypeValid_m_Type consensus__VoteSetBitsMessage_ValidateBasic__if_not_types_IsVoteTypeValid_m_Type_atoms false "types.IsVoteTypeValid(m.Type) : bool" /\
  pinned1 consensus__VoteSetBitsMessage_ValidateBasic__if_err_ne_nil consensus__VoteSetBitsMessage_ValidateBasic__if_err_ne_nil_atoms true "err != nil : untyped bool" /\
  pinned1 consensus__VoteSetBitsMessage_ValidateBasic__if_err_ne_nil_2 consensus__VoteSetBitsMessage_ValidateBasic__if_err_ne_nil_2_atoms true "err != nil : untyped bool" /\
  (forall x1, consensus__VoteSetBitsMessage_ValidateBasic__if_m_Votes_Size_gt_types_MaxVotesCount x1 = (Z.gtb x1 10000)) /\
  consensus__VoteSetBitsMessage_ValidateBasic__if_m_Votes_Size_gt_types_MaxVotesCount_atoms = ["m.Votes.Size() : int"]%string /\
  consensus__VoteSetBitsMessage_ValidateBasic__bind_err_atoms = ["m.BlockID.ValidateBasic()"]%string /\
  consensus__VoteSetBitsMessage_ValidateBasic__bind_err_2_atoms = ["m.Votes.ValidateBasic()"]%string.
Lemma pins_consensus__VoteSetBitsMessage_ValidateBasic_ok : pins_consensus__VoteSetBitsMessage_ValidateBasic. Proof. unfold pins_consensus__VoteSetBitsMessage_ValidateBasic, pinned1. repeat split. Qed.

Definition pins_consensus__PeerState_SetHasProposal : Prop :=
  (forall x1 x2 x3 x4, consensus__PeerState_SetHasProposal__if_ps_PRS_Height_ne_proposal_Height_or_ps_PRS_Round_ne_proposal_Round x1 x2 x3 x4 = (orb (go_neqb x1 x2) (go_neqb x3 x4))) /\
  consensus__PeerState_SetHasProposal__if_ps_PRS_Height_ne_proposal_Height_or_ps_PRS_Round_ne_proposal_Round_atoms = ["ps.PRS.Height : uint64"; "proposal.Height : uint64"; "ps.PRS.Round : uint32"; "proposal.Round : uint32"]%string /\
  pinned1 consensus__PeerState_SetHasProposal__if_ps_PRS_Proposal consensus__PeerState_SetHasProposal__if_ps_PRS_Proposal_atoms true "ps.PRS.Proposal : bool" /\
  pinned1 consensus__PeerState_SetHasProposal__if_ps_PRS_ProposalBlockParts_ne_nil consensus__PeerState_SetHasProposal__if_ps_PRS_ProposalBlockParts_ne_nil_atoms true "ps.PRS.ProposalBlockParts != nil : untyped bool" /\
  (forall x1, consensus__PeerState_SetHasProposal__put_ps_PRS_ProposalPOLRound x1 = x1) /\
  consensus__PeerState_SetHasProposal__put_ps_PRS_ProposalPOLRound_atoms = ["proposal.POLRound : uint32"]%string /\
  consensus__PeerState_SetHasProposal__put_ps_PRS_Proposal_atoms = []%string.
Lemma pins_consensus__PeerState_SetHasProposal_ok : pins_consensus__PeerState_SetHasProposal. Proof. unfold pins_consensus__PeerState_SetHasProposal, pinned1. repeat split. Qed.

Definition pins_consensus__PeerState_SetHasProposalBlockPart : Prop :=
  (forall x1 x2 x3 x4, consensus__PeerState_SetHasProposalBlockPart__if_ps_PRS_Height_ne_height_or_ps_PRS_Round_ne_round x1 x2 x3 x4 = (orb (go_neqb x1 x2) (go_neqb x3 x4))) /\
  consensus__PeerState_SetHasProposalBlockPart__if_ps_PRS_Height_ne_height_or_ps_PRS_Round_ne_round_atoms = ["ps.PRS.Height : uint64"; "height : uint64"; "ps.PRS.Round : uint32"; "round : uint32"]%string.
Lemma pins_consensus__PeerState_SetHasProposalBlockPart_ok : pins_consensus__PeerState_SetHasProposalBlockPart. Proof. unfold pins_consensus__PeerState_SetHasProposalBlockPart, pinned1. repeat split. Qed.

Definition pins_consensus__PeerState_PickVoteToSend : Prop :=
  (forall x1, consensus__PeerState_PickVoteToSend__if_votes_Size_eq_0 x1 = (Z.eqb x1 0)) /\
  consensus__PeerState_PickVoteToSend__if_votes_Size_eq_0_atoms = ["votes.Size() : int"]%string /\
  (forall x1, consensus__PeerState_PickVoteToSend__let_height x1 = x1) /\
  consensus__PeerState_PickVoteToSend__let_height_atoms = ["votes.GetHeight() : uint64"]%string /\
  (forall x1, consensus__PeerState_PickVoteToSend__let_round x1 = x1) /\
  consensus__PeerState_PickVoteToSend__let_round_atoms = ["votes.GetRound() : uint32"]%string /\
  (forall x1, consensus__PeerState_PickVoteToSend__let_signedMsgType x1 = x1) /\
  consensus__PeerState_PickVoteToSend__let_signedMsgType_atoms = ["votes.Type() : github.com/kardiachain/go-kardia/proto/kardiachain/types.SignedMsgType"]%string /\
  (forall x1, consensus__PeerState_PickVoteToSend__let_size x1 = x1) /\
  consensus__PeerState_PickVoteToSend__let_size_atoms = ["votes.Size() : int"]%string /\
  pinned1 consensus__PeerState_PickVoteToSend__if_votes_IsCommit consensus__PeerState_PickVoteToSend__if_votes_IsCommit_atoms true "votes.IsCommit() : bool" /\
  pinned1 consensus__PeerState_PickVoteToSend__if_psVotes_eq_nil consensus__PeerState_PickVoteToSend__if_psVotes_eq_nil_atoms true "psVotes == nil : untyped bool" /\
  pinned1 consensus__PeerState_PickVoteToSend__if_ok consensus__PeerState_PickVoteToSend__if_ok_atoms true "ok : bool" /\
  consensus__PeerState_PickVoteToSend__bind_psVotes_atoms = ["ps.getVoteBitArray(height, round, signedMsgType)"]%string /\
  consensus__PeerState_PickVoteToSend__bind_index_ok_atoms = ["votes.BitArray().Sub(psVotes).PickRandom()"]%string.
Lemma pins_consensus__PeerState_PickVoteToSend_ok : pins_consensus__PeerState_PickVoteToSend. Proof. unfold pins_consensus__PeerState_PickVoteToSend, pinned1. repeat split. Qed.

Definition pins_consensus__PeerState_ApplyNewValidBlockMessage : Prop :=
  (forall x1 x2, consensus__PeerState_ApplyNewValidBlockMessage__if_ps_PRS_Height_ne_msg_Height x1 x2 = (go_neqb x1 x2)) /\
  consensus__PeerState_ApplyNewValidBlockMessage__if_ps_PRS_Height_ne_msg_Height_atoms = ["ps.PRS.Height : uint64"; "msg.Height : uint64"]%string /\
  (forall x1 x2 x3, consensus__PeerState_ApplyNewValidBlockMessage__if_ps_PRS_Round_ne_msg_Round_and_not_msg_IsCommit x1 x2 x3 = (andb (go_neqb x1 x2) (negb x3))) /\
  consensus__PeerState_ApplyNewValidBlockMessage__if_ps_PRS_Round_ne_msg_Round_and_not_msg_IsCommit_atoms = ["ps.PRS.Round : uint32"; "msg.Round : uint32"; "msg.IsCommit : bool"]%string.
Lemma pins_consensus__PeerState_ApplyNewValidBlockMessage_ok : pins_consensus__PeerState_ApplyNewValidBlockMessage. Proof. unfold pins_consensus__PeerState_ApplyNewValidBlockMessage, pinned1. repeat split. Qed.

Definition pins_consensus__PeerState_getVoteBitArray : Prop :=
  pinned1 consensus__PeerState_getVoteBitArray__if_not_types_IsVoteTypeValid_signedMsgType consensus__PeerState_getVoteBitArray__if_not_types_IsVoteTypeValid_signedMsgType_atoms false "types.IsVoteTypeValid(signedMsgType) : bool" /\
  (forall x1 x2, consensus__PeerState_getVoteBitArray__if_ps_PRS_Height_eq_height x1 x2 = (Z.eqb x1 x2)) /\
  consensus__PeerState_getVoteBitArray__if_ps_PRS_Height_eq_height_atoms = ["ps.PRS.Height : uint64"; "height : uint64"]%string /\
  (forall x1 x2, consensus__PeerState_getVoteBitArray__if_ps_PRS_Round_eq_round x1 x2 = (Z.eqb x1 x2)) /\
  consensus__PeerState_getVoteBitArray__if_ps_PRS_Round_eq_round_atoms = ["ps.PRS.Round : uint32"; "round : uint32"]%string /\
  (forall x1, consensus__PeerState_getVoteBitArray__case_signedMsgType_eq_kproto_PrevoteType x1 = (Z.eqb x1 1)) /\
  consensus__PeerState_getVoteBitArray__case_signedMsgType_eq_kproto_PrevoteType_atoms = ["signedMsgType : github.com/kardiachain/go-kardia/proto/kardiachain/types.SignedMsgType"]%string /\
  (forall x1, consensus__PeerState_getVoteBitArray__case_signedMsgType_eq_kproto_PrecommitType x1 = (Z.eqb x1 2)) /\
  consensus__PeerState_getVoteBitArray__case_signedMsgType_eq_kproto_PrecommitType_atoms = ["signedMsgType : github.com/kardiachain/go-kardia/proto/kardiachain/types.SignedMsgType"]%string /\
  (forall x1 x2, consensus__PeerState_getVoteBitArray__if_ps_PRS_CatchupCommitRound_eq_round x1 x2 = (Z.eqb x1 x2)) /\
  consensus__PeerState_getVoteBitArray__if_ps_PRS_CatchupCommitRound_eq_round_atoms = ["ps.PRS.CatchupCommitRound : uint32"; "round : uint32"]%string /\
  (forall x1, consensus__PeerState_getVoteBitArray__case_signedMsgType_eq_kproto_PrevoteType_2 x1 = (Z.eqb x1 1)) /\
  consensus__PeerState_getVoteBitArray__case_signedMsgType_eq_kproto_PrevoteType_2_atoms = ["signedMsgType : github.com/kardiachain/go-kardia/proto/kardiachain/types.SignedMsgType"]%string /\
  (forall x1, consensus__PeerState_getVoteBitArray__case_signedMsgType_eq_kproto_PrecommitType_2 x1 = (Z.eqb x1 2)) /\
  consensus__PeerState_getVoteBitArray__case_signedMsgType_eq_kproto_PrecommitType_2_atoms = ["signedMsgType : github.com/kardiachain/go-kardia/proto/kardiachain/types.SignedMsgType"]%string /\
  (forall x1 x2, consensus__PeerState_getVoteBitArray__if_ps_PRS_ProposalPOLRound_eq_round x1 x2 = (Z.eqb x1 x2)) /\
  consensus__PeerState_getVoteBitArray__if_ps_PRS_ProposalPOLRound_eq_round_atoms = ["ps.PRS.ProposalPOLRound : uint32"; "round : uint32"]%string /\
  (forall x1, consensus__PeerState_getVoteBitArray__case_signedMsgType_eq_kproto_PrevoteType_3 x1 = (Z.eqb x1 1)) /\
  consensus__PeerState_getVoteBitArray__case_signedMsgType_eq_kproto_PrevoteType_3_atoms = ["signedMsgType : github.com/kardiachain/go-kardia/proto/kardiachain/types.SignedMsgType"]%string /\
  (forall x1, consensus__PeerState_getVoteBitArray__case_signedMsgType_eq_kproto_PrecommitType_3 x1 = (Z.eqb x1 2)) /\
  consensus__PeerState_getVoteBitArray__case_signedMsgType_eq_kproto_PrecommitType_3_atoms = ["signedMsgType : github.com/kardiachain/go-kardia/proto/kardiachain/types.SignedMsgType"]%string /\
  (forall x1 x2, consensus__PeerState_getVoteBitArray__if_ps_PRS_Height_eq_height_plus_1 x1 x2 = (Z.eqb x1 (go_add U64 x2 1))) /\
  consensus__PeerState_getVoteBitArray__if_ps_PRS_Height_eq_height_plus_1_atoms = ["ps.PRS.Height : uint64"; "height : uint64"]%string /\
  (forall x1 x2, consensus__PeerState_getVoteBitArray__if_ps_PRS_LastCommitRound_eq_round x1 x2 = (Z.eqb x1 x2)) /\
  consensus__PeerState_getVoteBitArray__if_ps_PRS_LastCommitRound_eq_round_atoms = ["ps.PRS.LastCommitRound : uint32"; "round : uint32"]%string /\
  (forall x1, consensus__PeerState_getVoteBitArray__case_signedMsgType_eq_kproto_PrevoteType_4 x1 = (Z.eqb x1 1)) /\
  consensus__PeerState_getVoteBitArray__case_signedMsgType_eq_kproto_PrevoteType_4_atoms = ["signedMsgType : github.com/kardiachain/go-kardia/proto/kardiachain/types.SignedMsgType"]%string /\
  (forall x1, consensus__PeerState_getVoteBitArray__case_signedMsgType_eq_kproto_PrecommitType_4 x1 = (Z.eqb x1 2)) /\
  consensus__PeerState_getVoteBitArray__case_signedMsgType_eq_kproto_PrecommitType_4_atoms = ["signedMsgType : github.com/kardiachain/go-kardia/proto/kardiachain/types.SignedMsgType"]%string.
Lemma pins_consensus__PeerState_getVoteBitArray_ok : pins_consensus__PeerState_getVoteBitArray. Proof. unfold pins_consensus__PeerState_getVoteBitArray, pinned1. repeat split. Qed.

Definition pins_consensus__PeerState_ensureCatchupCommitRound : Prop :=
  (forall x1 x2, consensus__PeerState_ensureCatchupCommitRound__if_ps_PRS_Height_ne_height x1 x2 = (go_neqb x1 x2)) /\
  consensus__PeerState_ensureCatchupCommitRound__if_ps_PRS_Height_ne_height_atoms = ["ps.PRS.Height : uint64"; "height : uint64"]%string /\
  (forall x1 x2, consensus__PeerState_ensureCatchupCommitRound__if_ps_PRS_CatchupCommitRound_eq_round x1 x2 = (Z.eqb x1 x2)) /\
  consensus__PeerState_ensureCatchupCommitRound__if_ps_PRS_CatchupCommitRound_eq_round_atoms = ["ps.PRS.CatchupCommitRound : uint32"; "round : uint32"]%string /\
  (forall x1, consensus__PeerState_ensureCatchupCommitRound__put_ps_PRS_CatchupCommitRound x1 = x1) /\
  consensus__PeerState_ensureCatchupCommitRound__put_ps_PRS_CatchupCommitRound_atoms = ["round : uint32"]%string /\
  (forall x1 x2, consensus__PeerState_ensureCatchupCommitRound__if_round_eq_ps_PRS_Round x1 x2 = (Z.eqb x1 x2)) /\
  consensus__PeerState_ensureCatchupCommitRound__if_round_eq_ps_PRS_Round_atoms = ["round : uint32"; "ps.PRS.Round : uint32"]%string.
Lemma pins_consensus__PeerState_ensureCatchupCommitRound_ok : pins_consensus__PeerState_ensureCatchupCommitRound. Proof. unfold pins_consensus__PeerState_ensureCatchupCommitRound, pinned1. repeat split. Qed.

Definition pins_consensus__PeerState_ensureVoteBitArrays : Prop :=
  (forall x1 x2, consensus__PeerState_ensureVoteBitArrays__if_ps_PRS_Height_eq_height x1 x2 = (Z.eqb x1 x2)) /\
  consensus__PeerState_ensureVoteBitArrays__if_ps_PRS_Height_eq_height_atoms = ["ps.PRS.Height : uint64"; "height : uint64"]%string /\
  pinned1 consensus__PeerState_ensureVoteBitArrays__if_ps_PRS_Prevotes_eq_nil consensus__PeerState_ensureVoteBitArrays__if_ps_PRS_Prevotes_eq_nil_atoms true "ps.PRS.Prevotes == nil : untyped bool" /\
  pinned1 consensus__PeerState_ensureVoteBitArrays__if_ps_PRS_Precommits_eq_nil consensus__PeerState_ensureVoteBitArrays__if_ps_PRS_Precommits_eq_nil_atoms true "ps.PRS.Precommits == nil : untyped bool" /\
  pinned1 consensus__PeerState_ensureVoteBitArrays__if_ps_PRS_CatchupCommit_eq_nil consensus__PeerState_ensureVoteBitArrays__if_ps_PRS_CatchupCommit_eq_nil_atoms true "ps.PRS.CatchupCommit == nil : untyped bool" /\
  pinned1 consensus__PeerState_ensureVoteBitArrays__if_ps_PRS_ProposalPOL_eq_nil consensus__PeerState_ensureVoteBitArrays__if_ps_PRS_ProposalPOL_eq_nil_atoms true "ps.PRS.ProposalPOL == nil : untyped bool" /\
  (forall x1 x2, consensus__PeerState_ensureVoteBitArrays__if_ps_PRS_Height_eq_height_plus_1 x1 x2 = (Z.eqb x1 (go_add U64 x2 1))) /\
  consensus__PeerState_ensureVoteBitArrays__if_ps_PRS_Height_eq_height_plus_1_atoms = ["ps.PRS.Height : uint64"; "height : uint64"]%string /\
  pinned1 consensus__PeerState_ensureVoteBitArrays__if_ps_PRS_LastCommit_eq_nil consensus__PeerState_ensureVoteBitArrays__if_ps_PRS_LastCommit_eq_nil_atoms true "ps.PRS.LastCommit == nil : untyped bool".
Lemma pins_consensus__PeerState_ensureVoteBitArrays_ok : pins_consensus__PeerState_ensureVoteBitArrays. Proof. unfold pins_consensus__PeerState_ensureVoteBitArrays, pinned1. repeat split. Qed.

Definition pins_consensus__PeerState_setHasVote : Prop :=
  pinned1 consensus__PeerState_setHasVote__if_psVotes_ne_nil consensus__PeerState_setHasVote__if_psVotes_ne_nil_atoms true "psVotes != nil : untyped bool" /\
  consensus__PeerState_setHasVote__bind_psVotes_atoms = ["ps.getVoteBitArray(height, round, signedMsgType)"]%string.
Lemma pins_consensus__PeerState_setHasVote_ok : pins_consensus__PeerState_setHasVote. Proof. unfold pins_consensus__PeerState_setHasVote, pinned1. repeat split. Qed.

Definition pins_consensus__PeerState_ApplyNewRoundStepMessage : Prop :=
  (forall x1, consensus__PeerState_ApplyNewRoundStepMessage__if_CompareHRS_msg_Height_msg_Round_msg_Step_ps_PRS_Height_ps_PR_3ef4ef0e x1 = (Z.leb x1 0)) /\
  consensus__PeerState_ApplyNewRoundStepMessage__if_CompareHRS_msg_Height_msg_Round_msg_Step_ps_PRS_Height_ps_PR_3ef4ef0e_atoms = ["CompareHRS(msg.Height, msg.Round, msg.Step, ps.PRS.Height, ps.PRS.Round, ps.PRS.Step) : int"]%string /\
  (forall x1 x2, consensus__PeerState_ApplyNewRoundStepMessage__set_startTime x1 x2 = (go_sub I64 x1 (go_conv I64 x2))) /\
  consensus__PeerState_ApplyNewRoundStepMessage__set_startTime_atoms = ["time.Now().Unix() : int64"; "msg.SecondsSinceStartTime : uint64"]%string /\
  (forall x1, consensus__PeerState_ApplyNewRoundStepMessage__put_ps_PRS_Height x1 = x1) /\
  consensus__PeerState_ApplyNewRoundStepMessage__put_ps_PRS_Height_atoms = ["msg.Height : uint64"]%string /\
  (forall x1, consensus__PeerState_ApplyNewRoundStepMessage__put_ps_PRS_Round x1 = x1) /\
  consensus__PeerState_ApplyNewRoundStepMessage__put_ps_PRS_Round_atoms = ["msg.Round : uint32"]%string /\
  (forall x1, consensus__PeerState_ApplyNewRoundStepMessage__put_ps_PRS_Step x1 = x1) /\
  consensus__PeerState_ApplyNewRoundStepMessage__put_ps_PRS_Step_atoms = ["msg.Step : github.com/kardiachain/go-kardia/consensus/types.RoundStepType"]%string /\
  (forall x1, consensus__PeerState_ApplyNewRoundStepMessage__put_ps_PRS_StartTime x1 = (go_conv U64 x1)) /\
  consensus__PeerState_ApplyNewRoundStepMessage__put_ps_PRS_StartTime_atoms = ["startTime : int64"]%string /\
  (forall x1 x2 x3 x4, consensus__PeerState_ApplyNewRoundStepMessage__if_psHeight_ne_msg_Height_or_psRound_ne_msg_Round x1 x2 x3 x4 = (orb (go_neqb x1 x2) (go_neqb x3 x4))) /\
  consensus__PeerState_ApplyNewRoundStepMessage__if_psHeight_ne_msg_Height_or_psRound_ne_msg_Round_atoms = ["psHeight : uint64"; "msg.Height : uint64"; "psRound : uint32"; "msg.Round : uint32"]%string /\
  (forall x1 x2 x3 x4 x5, consensus__PeerState_ApplyNewRoundStepMessage__if_psHeight_eq_msg_Height_and_psRound_ne_msg_Round_and_msg_Roun_329e9b89 x1 x2 x3 x4 x5 = (andb (andb (Z.eqb x1 x2) (go_neqb x3 x4)) (Z.eqb x4 x5))) /\
  consensus__PeerState_ApplyNewRoundStepMessage__if_psHeight_eq_msg_Height_and_psRound_ne_msg_Round_and_msg_Roun_329e9b89_atoms = ["psHeight : uint64"; "msg.Height : uint64"; "psRound : uint32"; "msg.Round : uint32"; "psCatchupCommitRound : uint32"]%string /\
  (forall x1 x2, consensus__PeerState_ApplyNewRoundStepMessage__if_psHeight_ne_msg_Height x1 x2 = (go_neqb x1 x2)) /\
  consensus__PeerState_ApplyNewRoundStepMessage__if_psHeight_ne_msg_Height_atoms = ["psHeight : uint64"; "msg.Height : uint64"]%string /\
  (forall x1 x2 x3 x4, consensus__PeerState_ApplyNewRoundStepMessage__if_psHeight_plus_1_eq_msg_Height_and_psRound_eq_msg_LastCommitRound x1 x2 x3 x4 = (andb (Z.eqb (go_add U64 x1 1) x2) (Z.eqb x3 x4))) /\
  consensus__PeerState_ApplyNewRoundStepMessage__if_psHeight_plus_1_eq_msg_Height_and_psRound_eq_msg_LastCommitRound_atoms = ["psHeight : uint64"; "msg.Height : uint64"; "psRound : uint32"; "msg.LastCommitRound : uint32"]%string /\
  (forall x1, consensus__PeerState_ApplyNewRoundStepMessage__put_ps_PRS_LastCommitRound x1 = x1) /\
  consensus__PeerState_ApplyNewRoundStepMessage__put_ps_PRS_LastCommitRound_atoms = ["msg.LastCommitRound : uint32"]%string /\
  (forall x1, consensus__PeerState_ApplyNewRoundStepMessage__put_ps_PRS_LastCommitRound_2 x1 = x1) /\
  consensus__PeerState_ApplyNewRoundStepMessage__put_ps_PRS_LastCommitRound_2_atoms = ["msg.LastCommitRound : uint32"]%string /\
  consensus__PeerState_ApplyNewRoundStepMessage__put_ps_PRS_Proposal_atoms = []%string /\
  consensus__PeerState_ApplyNewRoundStepMessage__put_ps_PRS_ProposalPOLRound_atoms = []%string /\
  consensus__PeerState_ApplyNewRoundStepMessage__put_ps_PRS_CatchupCommitRound_atoms = []%string.
Lemma pins_consensus__PeerState_ApplyNewRoundStepMessage_ok : pins_consensus__PeerState_ApplyNewRoundStepMessage. Proof. unfold pins_consensus__PeerState_ApplyNewRoundStepMessage, pinned1. repeat split. Qed.

Definition pins_consensus__PeerState_ApplyHasVoteMessage : Prop :=
  (forall x1 x2, consensus__PeerState_ApplyHasVoteMessage__if_ps_PRS_Height_ne_msg_Height x1 x2 = (go_neqb x1 x2)) /\
  consensus__PeerState_ApplyHasVoteMessage__if_ps_PRS_Height_ne_msg_Height_atoms = ["ps.PRS.Height : uint64"; "msg.Height : uint64"]%string.
Lemma pins_consensus__PeerState_ApplyHasVoteMessage_ok : pins_consensus__PeerState_ApplyHasVoteMessage. Proof. unfold pins_consensus__PeerState_ApplyHasVoteMessage, pinned1. repeat split. Qed.

Definition pins_consensus__PeerState_ApplyVoteSetBitsMessage : Prop :=
  pinned1 consensus__PeerState_ApplyVoteSetBitsMessage__if_votes_ne_nil consensus__PeerState_ApplyVoteSetBitsMessage__if_votes_ne_nil_atoms true "votes != nil : untyped bool" /\
  pinned1 consensus__PeerState_ApplyVoteSetBitsMessage__if_ourVotes_eq_nil consensus__PeerState_ApplyVoteSetBitsMessage__if_ourVotes_eq_nil_atoms true "ourVotes == nil : untyped bool" /\
  consensus__PeerState_ApplyVoteSetBitsMessage__bind_votes_atoms = ["ps.getVoteBitArray(msg.Height, msg.Round, msg.Type)"]%string /\
  consensus__PeerState_ApplyVoteSetBitsMessage__bind_otherVotes_atoms = ["votes.Sub(ourVotes)"]%string /\
  consensus__PeerState_ApplyVoteSetBitsMessage__bind_hasVotes_atoms = ["otherVotes.Or(msg.Votes)"]%string.
Lemma pins_consensus__PeerState_ApplyVoteSetBitsMessage_ok : pins_consensus__PeerState_ApplyVoteSetBitsMessage. Proof. unfold pins_consensus__PeerState_ApplyVoteSetBitsMessage, pinned1. repeat split. Qed.

Definition pins_consensus__PeerState_ApplyProposalPOLMessage : Prop :=
  (forall x1 x2, consensus__PeerState_ApplyProposalPOLMessage__if_ps_PRS_Height_ne_msg_Height x1 x2 = (go_neqb x1 x2)) /\
  consensus__PeerState_ApplyProposalPOLMessage__if_ps_PRS_Height_ne_msg_Height_atoms = ["ps.PRS.Height : uint64"; "msg.Height : uint64"]%string /\
  (forall x1 x2, consensus__PeerState_ApplyProposalPOLMessage__if_ps_PRS_ProposalPOLRound_ne_msg_ProposalPOLRound x1 x2 = (go_neqb x1 x2)) /\
  consensus__PeerState_ApplyProposalPOLMessage__if_ps_PRS_ProposalPOLRound_ne_msg_ProposalPOLRound_atoms = ["ps.PRS.ProposalPOLRound : uint32"; "msg.ProposalPOLRound : uint32"]%string.
Lemma pins_consensus__PeerState_ApplyProposalPOLMessage_ok : pins_consensus__PeerState_ApplyProposalPOLMessage. Proof. unfold pins_consensus__PeerState_ApplyProposalPOLMessage, pinned1. repeat split. Qed.

Definition pins_consensus__CompareHRS : Prop :=
  (forall x1 x2, consensus__CompareHRS__if_h1_lt_h2 x1 x2 = (Z.ltb x1 x2)) /\
  consensus__CompareHRS__if_h1_lt_h2_atoms = ["h1 : uint64"; "h2 : uint64"]%string /\
  (forall x1 x2, consensus__CompareHRS__if_h1_gt_h2 x1 x2 = (Z.gtb x1 x2)) /\
  consensus__CompareHRS__if_h1_gt_h2_atoms = ["h1 : uint64"; "h2 : uint64"]%string /\
  (forall x1 x2, consensus__CompareHRS__if_r1_lt_r2 x1 x2 = (Z.ltb x1 x2)) /\
  consensus__CompareHRS__if_r1_lt_r2_atoms = ["r1 : uint32"; "r2 : uint32"]%string /\
  (forall x1 x2, consensus__CompareHRS__if_r1_gt_r2 x1 x2 = (Z.gtb x1 x2)) /\
  consensus__CompareHRS__if_r1_gt_r2_atoms = ["r1 : uint32"; "r2 : uint32"]%string /\
  (forall x1 x2, consensus__CompareHRS__if_s1_lt_s2 x1 x2 = (Z.ltb x1 x2)) /\
  consensus__CompareHRS__if_s1_lt_s2_atoms = ["s1 : github.com/kardiachain/go-kardia/consensus/types.RoundStepType"; "s2 : github.com/kardiachain/go-kardia/consensus/types.RoundStepType"]%string /\
  (forall x1 x2, consensus__CompareHRS__if_s1_gt_s2 x1 x2 = (Z.gtb x1 x2)) /\
  consensus__CompareHRS__if_s1_gt_s2_atoms = ["s1 : github.com/kardiachain/go-kardia/consensus/types.RoundStepType"; "s2 : github.com/kardiachain/go-kardia/consensus/types.RoundStepType"]%string.
Lemma pins_consensus__CompareHRS_ok : pins_consensus__CompareHRS. Proof. unfold pins_consensus__CompareHRS, pinned1. repeat split. Qed.

Definition pins_consensus_types__NewHeightVoteSet : Prop :=
  (forall x1, consensus_types__NewHeightVoteSet__put_hvs_height x1 = x1) /\
  consensus_types__NewHeightVoteSet__put_hvs_height_atoms = ["height : uint64"]%string /\
  consensus_types__NewHeightVoteSet__put_hvs_round_atoms = []%string.
Lemma pins_consensus_types__NewHeightVoteSet_ok : pins_consensus_types__NewHeightVoteSet. Proof. unfold pins_consensus_types__NewHeightVoteSet, pinned1. repeat split. Qed.

Definition pins_consensus_types__HeightVoteSet_addRound : Prop :=
  pinned1 consensus_types__HeightVoteSet_addRound__if_ok consensus_types__HeightVoteSet_addRound__if_ok_atoms true "ok : bool" /\
  consensus_types__HeightVoteSet_addRound__bind_prevotes_atoms = ["types.NewVoteSet(hvs.chainID, hvs.height, round, kproto.PrevoteType, hvs.valSet)"]%string /\
  consensus_types__HeightVoteSet_addRound__bind_precommits_atoms = ["types.NewVoteSet(hvs.chainID, hvs.height, round, kproto.PrecommitType, hvs.valSet)"]%string.
Lemma pins_consensus_types__HeightVoteSet_addRound_ok : pins_consensus_types__HeightVoteSet_addRound. Proof. unfold pins_consensus_types__HeightVoteSet_addRound, pinned1. repeat split. Qed.

Definition pins_consensus_types__HeightVoteSet_SetRound : Prop :=
  (forall x1, consensus_types__HeightVoteSet_SetRound__set_newRound x1 = (go_sub U32 x1 1)) /\
  consensus_types__HeightVoteSet_SetRound__set_newRound_atoms = ["hvs.round : uint32"]%string /\
  (forall x1 x2 x3, consensus_types__HeightVoteSet_SetRound__if_hvs_round_ne_1_and_round_lt_newRound x1 x2 x3 = (andb (go_neqb x1 1) (Z.ltb x2 x3))) /\
  consensus_types__HeightVoteSet_SetRound__if_hvs_round_ne_1_and_round_lt_newRound_atoms = ["hvs.round : uint32"; "round : uint32"; "newRound : uint32"]%string /\
  (forall x1 x2, consensus_types__HeightVoteSet_SetRound__for_r_le_round x1 x2 = (Z.leb x1 x2)) /\
  consensus_types__HeightVoteSet_SetRound__for_r_le_round_atoms = ["r : uint32"; "round : uint32"]%string /\
  (forall x1, consensus_types__HeightVoteSet_SetRound__forinit_r x1 = x1) /\
  consensus_types__HeightVoteSet_SetRound__forinit_r_atoms = ["newRound : uint32"]%string /\
  (forall x1, consensus_types__HeightVoteSet_SetRound__set_r_op x1 = (go_add U32 x1 1)) /\
  consensus_types__HeightVoteSet_SetRound__set_r_op_atoms = ["r : uint32"]%string /\
  pinned1 consensus_types__HeightVoteSet_SetRound__if_ok consensus_types__HeightVoteSet_SetRound__if_ok_atoms true "ok : bool" /\
  (forall x1, consensus_types__HeightVoteSet_SetRound__put_hvs_round x1 = x1) /\
  consensus_types__HeightVoteSet_SetRound__put_hvs_round_atoms = ["round : uint32"]%string.
Lemma pins_consensus_types__HeightVoteSet_SetRound_ok : pins_consensus_types__HeightVoteSet_SetRound. Proof. unfold pins_consensus_types__HeightVoteSet_SetRound, pinned1. repeat split. Qed.

Definition pins_consensus_types__HeightVoteSet_AddVote : Prop :=
  pinned1 consensus_types__HeightVoteSet_AddVote__if_not_types_IsVoteTypeValid_vote_Type consensus_types__HeightVoteSet_AddVote__if_not_types_IsVoteTypeValid_vote_Type_atoms false "types.IsVoteTypeValid(vote.Type) : bool" /\
  pinned1 consensus_types__HeightVoteSet_AddVote__if_voteSet_eq_nil consensus_types__HeightVoteSet_AddVote__if_voteSet_eq_nil_atoms true "voteSet == nil : untyped bool" /\
  (forall x1, consensus_types__HeightVoteSet_AddVote__if_len_rndz_lt_2 x1 = (Z.ltb x1 2)) /\
  consensus_types__HeightVoteSet_AddVote__if_len_rndz_lt_2_atoms = ["len(rndz) : int"]%string /\
  consensus_types__HeightVoteSet_AddVote__bind_voteSet_atoms = ["hvs.getVoteSet(vote.Round, vote.Type)"]%string /\
  consensus_types__HeightVoteSet_AddVote__bind_voteSet_2_atoms = ["hvs.getVoteSet(vote.Round, vote.Type)"]%string.
Lemma pins_consensus_types__HeightVoteSet_AddVote_ok : pins_consensus_types__HeightVoteSet_AddVote. Proof. unfold pins_consensus_types__HeightVoteSet_AddVote, pinned1. repeat split. Qed.

Definition pins_consensus_types__HeightVoteSet_getVoteSet : Prop :=
  pinned1 consensus_types__HeightVoteSet_getVoteSet__if_not_ok consensus_types__HeightVoteSet_getVoteSet__if_not_ok_atoms false "ok : bool" /\
  (forall x1, consensus_types__HeightVoteSet_getVoteSet__case_signedMsgType_eq_kproto_PrevoteType x1 = (Z.eqb x1 1)) /\
  consensus_types__HeightVoteSet_getVoteSet__case_signedMsgType_eq_kproto_PrevoteType_atoms = ["signedMsgType : github.com/kardiachain/go-kardia/proto/kardiachain/types.SignedMsgType"]%string /\
  (forall x1, consensus_types__HeightVoteSet_getVoteSet__case_signedMsgType_eq_kproto_PrecommitType x1 = (Z.eqb x1 2)) /\
  consensus_types__HeightVoteSet_getVoteSet__case_signedMsgType_eq_kproto_PrecommitType_atoms = ["signedMsgType : github.com/kardiachain/go-kardia/proto/kardiachain/types.SignedMsgType"]%string.
Lemma pins_consensus_types__HeightVoteSet_getVoteSet_ok : pins_consensus_types__HeightVoteSet_getVoteSet. Proof. unfold pins_consensus_types__HeightVoteSet_getVoteSet, pinned1. repeat split. Qed.

Definition pins_consensus_types__RoundStepType_IsValid : Prop :=
  (forall x1, consensus_types__RoundStepType_IsValid__ret_uint32_rs_ge_0x01_and_uint32_rs_le_0x08 x1 = (andb (Z.geb (go_conv U32 x1) 1) (Z.leb (go_conv U32 x1) 8))) /\
  consensus_types__RoundStepType_IsValid__ret_uint32_rs_ge_0x01_and_uint32_rs_le_0x08_atoms = ["rs : github.com/kardiachain/go-kardia/consensus/types.RoundStepType"]%string.
Lemma pins_consensus_types__RoundStepType_IsValid_ok : pins_consensus_types__RoundStepType_IsValid. Proof. unfold pins_consensus_types__RoundStepType_IsValid, pinned1. repeat split. Qed.

Definition pins_lib_common__NewBitArray : Prop :=
  (forall x1, lib_common__NewBitArray__if_bits_le_0 x1 = (Z.leb x1 0)) /\
  lib_common__NewBitArray__if_bits_le_0_atoms = ["bits : int"]%string /\
  (forall x1, lib_common__NewBitArray__arg_bits_plus_63_div_64 x1 = (go_quot I64 (go_add I64 x1 63) 64)) /\
  lib_common__NewBitArray__arg_bits_plus_63_div_64_atoms = ["bits : int"]%string.
Lemma pins_lib_common__NewBitArray_ok : pins_lib_common__NewBitArray. Proof. unfold pins_lib_common__NewBitArray, pinned1. repeat split. Qed.

Definition pins_lib_common__BitArray_Size : Prop :=
  pinned1 lib_common__BitArray_Size__if_bA_eq_nil lib_common__BitArray_Size__if_bA_eq_nil_atoms true "bA == nil : untyped bool".
Lemma pins_lib_common__BitArray_Size_ok : pins_lib_common__BitArray_Size. Proof. unfold pins_lib_common__BitArray_Size, pinned1. repeat split. Qed.

Definition pins_lib_common__BitArray_getIndex : Prop :=
  (forall x1 x2, lib_common__BitArray_getIndex__if_i_ge_int_bA_Bits x1 x2 = (Z.geb x1 (go_conv I64 x2))) /\
  lib_common__BitArray_getIndex__if_i_ge_int_bA_Bits_atoms = ["i : int"; "bA.Bits : uint"]%string /\
  (forall x1 x2, lib_common__BitArray_getIndex__ret_bA_Elems_at_i_div_64_band_uint64_1_shl_uint_i_mod_64_gt_0 x1 x2 = (Z.gtb (go_and U64 x1 x2) 0)) /\
  lib_common__BitArray_getIndex__ret_bA_Elems_at_i_div_64_band_uint64_1_shl_uint_i_mod_64_gt_0_atoms = ["bA.Elems[i/64] : uint64"; "uint64(1) << uint(i%64) : uint64"]%string.
Lemma pins_lib_common__BitArray_getIndex_ok : pins_lib_common__BitArray_getIndex. Proof. unfold pins_lib_common__BitArray_getIndex, pinned1. repeat split. Qed.

Definition pins_lib_common__BitArray_setIndex : Prop :=
  (forall x1 x2, lib_common__BitArray_setIndex__if_i_ge_int_bA_Bits x1 x2 = (Z.geb x1 (go_conv I64 x2))) /\
  lib_common__BitArray_setIndex__if_i_ge_int_bA_Bits_atoms = ["i : int"; "bA.Bits : uint"]%string /\
  pinned1 lib_common__BitArray_setIndex__if_v lib_common__BitArray_setIndex__if_v_atoms true "v : bool" /\
  (forall x1 x2, lib_common__BitArray_setIndex__assign_op x1 x2 = (go_or U64 x1 x2)) /\
  lib_common__BitArray_setIndex__assign_op_atoms = ["bA.Elems[i/64] : uint64"; "uint64(1) << uint(i%64) : uint64"]%string /\
  (forall x1 x2, lib_common__BitArray_setIndex__assign_op_2 x1 x2 = (go_and U64 x1 x2)) /\
  lib_common__BitArray_setIndex__assign_op_2_atoms = ["bA.Elems[i/64] : uint64"; "^(uint64(1) << uint(i%64)) : uint64"]%string.
Lemma pins_lib_common__BitArray_setIndex_ok : pins_lib_common__BitArray_setIndex. Proof. unfold pins_lib_common__BitArray_setIndex, pinned1. repeat split. Qed.

Definition pins_lib_common__BitArray_copyBits : Prop :=
  (forall x1, lib_common__BitArray_copyBits__arg_bits_plus_63_div_64 x1 = (go_quot I64 (go_add I64 x1 63) 64)) /\
  lib_common__BitArray_copyBits__arg_bits_plus_63_div_64_atoms = ["bits : int"]%string /\
  lib_common__BitArray_copyBits__bind_c_atoms = ["make([]uint64, (bits+63)/64)"]%string.
Lemma pins_lib_common__BitArray_copyBits_ok : pins_lib_common__BitArray_copyBits. Proof. unfold pins_lib_common__BitArray_copyBits, pinned1. repeat split. Qed.

Definition pins_lib_common__BitArray_Or : Prop :=
  (forall x1 x2, lib_common__BitArray_Or__if_bA_eq_nil_and_o_eq_nil x1 x2 = (andb x1 x2)) /\
  lib_common__BitArray_Or__if_bA_eq_nil_and_o_eq_nil_atoms = ["bA == nil : untyped bool"; "o == nil : untyped bool"]%string /\
  (forall x1 x2, lib_common__BitArray_Or__if_bA_eq_nil_and_o_ne_nil x1 x2 = (andb x1 x2)) /\
  lib_common__BitArray_Or__if_bA_eq_nil_and_o_ne_nil_atoms = ["bA == nil : untyped bool"; "o != nil : untyped bool"]%string /\
  pinned1 lib_common__BitArray_Or__if_o_eq_nil lib_common__BitArray_Or__if_o_eq_nil_atoms true "o == nil : untyped bool" /\
  (forall x1 x2 x3, lib_common__BitArray_Or__for_i_lt_len_c_Elems_and_i_lt_len_o_Elems x1 x2 x3 = (andb (Z.ltb x1 x2) (Z.ltb x1 x3))) /\
  lib_common__BitArray_Or__for_i_lt_len_c_Elems_and_i_lt_len_o_Elems_atoms = ["i : int"; "len(c.Elems) : int"; "len(o.Elems) : int"]%string /\
  (forall x1, lib_common__BitArray_Or__set_i_op x1 = (go_add I64 x1 1)) /\
  lib_common__BitArray_Or__set_i_op_atoms = ["i : int"]%string /\
  (forall x1 x2, lib_common__BitArray_Or__assign_op x1 x2 = (go_or U64 x1 x2)) /\
  lib_common__BitArray_Or__assign_op_atoms = ["c.Elems[i] : uint64"; "o.Elems[i] : uint64"]%string /\
  lib_common__BitArray_Or__bind_c_atoms = ["bA.copyBits(MaxInt(int(bA.Bits), int(o.Bits)))"]%string /\
  lib_common__BitArray_Or__forinit_i_atoms = []%string /\
  lib_common__BitArray_Or__let_i_atoms = []%string.
Lemma pins_lib_common__BitArray_Or_ok : pins_lib_common__BitArray_Or. Proof. unfold pins_lib_common__BitArray_Or, pinned1. repeat split. Qed.

Definition pins_lib_common__BitArray_and : Prop :=
  (forall x1 x2, lib_common__BitArray_and__for_i_lt_len_c_Elems x1 x2 = (Z.ltb x1 x2)) /\
  lib_common__BitArray_and__for_i_lt_len_c_Elems_atoms = ["i : int"; "len(c.Elems) : int"]%string /\
  (forall x1, lib_common__BitArray_and__set_i_op x1 = (go_add I64 x1 1)) /\
  lib_common__BitArray_and__set_i_op_atoms = ["i : int"]%string /\
  (forall x1 x2, lib_common__BitArray_and__assign_op x1 x2 = (go_and U64 x1 x2)) /\
  lib_common__BitArray_and__assign_op_atoms = ["c.Elems[i] : uint64"; "o.Elems[i] : uint64"]%string /\
  lib_common__BitArray_and__bind_c_atoms = ["bA.copyBits(MinInt(int(bA.Bits), int(o.Bits)))"]%string /\
  lib_common__BitArray_and__forinit_i_atoms = []%string /\
  lib_common__BitArray_and__let_i_atoms = []%string.
Lemma pins_lib_common__BitArray_and_ok : pins_lib_common__BitArray_and. Proof. unfold pins_lib_common__BitArray_and, pinned1. repeat split. Qed.

Definition pins_lib_common__BitArray_And : Prop :=
  (forall x1 x2, lib_common__BitArray_And__if_bA_eq_nil_or_o_eq_nil x1 x2 = (orb x1 x2)) /\
  lib_common__BitArray_And__if_bA_eq_nil_or_o_eq_nil_atoms = ["bA == nil : untyped bool"; "o == nil : untyped bool"]%string.
Lemma pins_lib_common__BitArray_And_ok : pins_lib_common__BitArray_And. Proof. unfold pins_lib_common__BitArray_And, pinned1. repeat split. Qed.

Definition pins_lib_common__BitArray_Not : Prop :=
  pinned1 lib_common__BitArray_Not__if_bA_eq_nil lib_common__BitArray_Not__if_bA_eq_nil_atoms true "bA == nil : untyped bool" /\
  (forall x1 x2, lib_common__BitArray_Not__for_i_lt_len_c_Elems x1 x2 = (Z.ltb x1 x2)) /\
  lib_common__BitArray_Not__for_i_lt_len_c_Elems_atoms = ["i : int"; "len(c.Elems) : int"]%string /\
  (forall x1, lib_common__BitArray_Not__set_i_op x1 = (go_add I64 x1 1)) /\
  lib_common__BitArray_Not__set_i_op_atoms = ["i : int"]%string /\
  lib_common__BitArray_Not__bind_c_atoms = ["bA.copy()"]%string /\
  lib_common__BitArray_Not__forinit_i_atoms = []%string /\
  lib_common__BitArray_Not__let_i_atoms = []%string.
Lemma pins_lib_common__BitArray_Not_ok : pins_lib_common__BitArray_Not. Proof. unfold pins_lib_common__BitArray_Not, pinned1. repeat split. Qed.

Definition pins_lib_common__BitArray_Sub : Prop :=
  (forall x1 x2, lib_common__BitArray_Sub__if_bA_eq_nil_or_o_eq_nil x1 x2 = (orb x1 x2)) /\
  lib_common__BitArray_Sub__if_bA_eq_nil_or_o_eq_nil_atoms = ["bA == nil : untyped bool"; "o == nil : untyped bool"]%string /\
  (forall x1 x2, lib_common__BitArray_Sub__if_bA_Bits_gt_o_Bits x1 x2 = (Z.gtb x1 x2)) /\
  lib_common__BitArray_Sub__if_bA_Bits_gt_o_Bits_atoms = ["bA.Bits : uint"; "o.Bits : uint"]%string /\
  (forall x1 x2, lib_common__BitArray_Sub__for_i_lt_len_o_Elems_minus_1 x1 x2 = (Z.ltb x1 (go_sub I64 x2 1))) /\
  lib_common__BitArray_Sub__for_i_lt_len_o_Elems_minus_1_atoms = ["i : int"; "len(o.Elems) : int"]%string /\
  (forall x1, lib_common__BitArray_Sub__set_i_op x1 = (go_add I64 x1 1)) /\
  lib_common__BitArray_Sub__set_i_op_atoms = ["i : int"]%string /\
  (forall x1 x2, lib_common__BitArray_Sub__assign_op x1 x2 = (go_and U64 x1 x2)) /\
  lib_common__BitArray_Sub__assign_op_atoms = ["c.Elems[i] : uint64"; "^c.Elems[i] : uint64"]%string /\
  (forall x1, lib_common__BitArray_Sub__set_i x1 = (go_sub I64 x1 1)) /\
  lib_common__BitArray_Sub__set_i_atoms = ["len(o.Elems) : int"]%string /\
  (forall x1, lib_common__BitArray_Sub__if_i_ge_0 x1 = (Z.geb x1 0)) /\
  lib_common__BitArray_Sub__if_i_ge_0_atoms = ["i : int"]%string /\
  (forall x1 x2, lib_common__BitArray_Sub__for_idx_lt_int_o_Bits x1 x2 = (Z.ltb x1 (go_conv I64 x2))) /\
  lib_common__BitArray_Sub__for_idx_lt_int_o_Bits_atoms = ["idx : int"; "o.Bits : uint"]%string /\
  (forall x1, lib_common__BitArray_Sub__set_idx x1 = (go_mul I64 x1 64)) /\
  lib_common__BitArray_Sub__set_idx_atoms = ["i : int"]%string /\
  (forall x1, lib_common__BitArray_Sub__set_idx_op x1 = (go_add I64 x1 1)) /\
  lib_common__BitArray_Sub__set_idx_op_atoms = ["idx : int"]%string /\
  (forall x1 x2, lib_common__BitArray_Sub__arg_c_getIndex_idx_and_not_o_GetIndex_idx x1 x2 = (andb x1 (negb x2))) /\
  lib_common__BitArray_Sub__arg_c_getIndex_idx_and_not_o_GetIndex_idx_atoms = ["c.getIndex(idx) : bool"; "o.GetIndex(idx) : bool"]%string /\
  lib_common__BitArray_Sub__bind_c_atoms = ["bA.copy()"]%string /\
  lib_common__BitArray_Sub__forinit_i_atoms = []%string /\
  lib_common__BitArray_Sub__let_i_atoms = []%string.
Lemma pins_lib_common__BitArray_Sub_ok : pins_lib_common__BitArray_Sub. Proof. unfold pins_lib_common__BitArray_Sub, pinned1. repeat split. Qed.

Definition pins_lib_common__BitArray_Update : Prop :=
  (forall x1 x2, lib_common__BitArray_Update__if_bA_eq_nil_or_o_eq_nil x1 x2 = (orb x1 x2)) /\
  lib_common__BitArray_Update__if_bA_eq_nil_or_o_eq_nil_atoms = ["bA == nil : untyped bool"; "o == nil : untyped bool"]%string.
Lemma pins_lib_common__BitArray_Update_ok : pins_lib_common__BitArray_Update. Proof. unfold pins_lib_common__BitArray_Update, pinned1. repeat split. Qed.

Definition pins_lib_common__BitArray_PickRandom : Prop :=
  pinned1 lib_common__BitArray_PickRandom__if_bA_eq_nil lib_common__BitArray_PickRandom__if_bA_eq_nil_atoms true "bA == nil : untyped bool" /\
  (forall x1, lib_common__BitArray_PickRandom__let_length x1 = x1) /\
  lib_common__BitArray_PickRandom__let_length_atoms = ["len(bA.Elems) : int"]%string /\
  (forall x1, lib_common__BitArray_PickRandom__if_length_eq_0 x1 = (Z.eqb x1 0)) /\
  lib_common__BitArray_PickRandom__if_length_eq_0_atoms = ["length : int"]%string /\
  (forall x1, lib_common__BitArray_PickRandom__let_randElemStart x1 = x1) /\
  lib_common__BitArray_PickRandom__let_randElemStart_atoms = ["RandIntn(length) : int"]%string /\
  (forall x1 x2, lib_common__BitArray_PickRandom__for_i_lt_length x1 x2 = (Z.ltb x1 x2)) /\
  lib_common__BitArray_PickRandom__for_i_lt_length_atoms = ["i : int"; "length : int"]%string /\
  (forall x1, lib_common__BitArray_PickRandom__set_i_op x1 = (go_add I64 x1 1)) /\
  lib_common__BitArray_PickRandom__set_i_op_atoms = ["i : int"]%string /\
  (forall x1 x2 x3, lib_common__BitArray_PickRandom__set_elemIdx x1 x2 x3 = (go_rem I64 (go_add I64 x1 x2) x3)) /\
  lib_common__BitArray_PickRandom__set_elemIdx_atoms = ["i : int"; "randElemStart : int"; "length : int"]%string /\
  (forall x1 x2, lib_common__BitArray_PickRandom__if_elemIdx_lt_length_minus_1 x1 x2 = (Z.ltb x1 (go_sub I64 x2 1))) /\
  lib_common__BitArray_PickRandom__if_elemIdx_lt_length_minus_1_atoms = ["elemIdx : int"; "length : int"]%string /\
  (forall x1, lib_common__BitArray_PickRandom__if_bA_Elems_at_elemIdx_gt_0 x1 = (Z.gtb x1 0)) /\
  lib_common__BitArray_PickRandom__if_bA_Elems_at_elemIdx_gt_0_atoms = ["bA.Elems[elemIdx] : uint64"]%string /\
  (forall x1, lib_common__BitArray_PickRandom__let_randBitStart x1 = x1) /\
  lib_common__BitArray_PickRandom__let_randBitStart_atoms = ["RandIntn(64) : int"]%string /\
  (forall x1, lib_common__BitArray_PickRandom__for_j_lt_64 x1 = (Z.ltb x1 64)) /\
  lib_common__BitArray_PickRandom__for_j_lt_64_atoms = ["j : int"]%string /\
  (forall x1, lib_common__BitArray_PickRandom__set_j_op x1 = (go_add I64 x1 1)) /\
  lib_common__BitArray_PickRandom__set_j_op_atoms = ["j : int"]%string /\
  (forall x1 x2, lib_common__BitArray_PickRandom__set_bitIdx x1 x2 = (go_rem I64 (go_add I64 x1 x2) 64)) /\
  lib_common__BitArray_PickRandom__set_bitIdx_atoms = ["j : int"; "randBitStart : int"]%string /\
  (forall x1 x2, lib_common__BitArray_PickRandom__if_bA_Elems_at_elemIdx_band_uint64_1_shl_uint_bitIdx_gt_0 x1 x2 = (Z.gtb (go_and U64 x1 x2) 0)) /\
  lib_common__BitArray_PickRandom__if_bA_Elems_at_elemIdx_band_uint64_1_shl_uint_bitIdx_gt_0_atoms = ["bA.Elems[elemIdx] : uint64"; "uint64(1) << uint(bitIdx) : uint64"]%string /\
  (forall x1 x2, lib_common__BitArray_PickRandom__ret_64_mul_elemIdx_plus_bitIdx x1 x2 = (go_add I64 (go_mul I64 64 x1) x2)) /\
  lib_common__BitArray_PickRandom__ret_64_mul_elemIdx_plus_bitIdx_atoms = ["elemIdx : int"; "bitIdx : int"]%string /\
  (forall x1, lib_common__BitArray_PickRandom__set_elemBits x1 = (go_rem U64 x1 64)) /\
  lib_common__BitArray_PickRandom__set_elemBits_atoms = ["bA.Bits : uint"]%string /\
  (forall x1, lib_common__BitArray_PickRandom__if_elemBits_eq_0 x1 = (Z.eqb x1 0)) /\
  lib_common__BitArray_PickRandom__if_elemBits_eq_0_atoms = ["elemBits : uint"]%string /\
  (forall x1, lib_common__BitArray_PickRandom__let_randBitStart_2 x1 = x1) /\
  lib_common__BitArray_PickRandom__let_randBitStart_2_atoms = ["RandIntn(int(elemBits)) : int"]%string /\
  (forall x1 x2, lib_common__BitArray_PickRandom__for_j_lt_int_elemBits x1 x2 = (Z.ltb x1 (go_conv I64 x2))) /\
  lib_common__BitArray_PickRandom__for_j_lt_int_elemBits_atoms = ["j : int"; "elemBits : uint"]%string /\
  (forall x1, lib_common__BitArray_PickRandom__set_j_op_2 x1 = (go_add I64 x1 1)) /\
  lib_common__BitArray_PickRandom__set_j_op_2_atoms = ["j : int"]%string /\
  (forall x1 x2 x3, lib_common__BitArray_PickRandom__set_bitIdx_2 x1 x2 x3 = (go_rem I64 (go_add I64 x1 x2) (go_conv I64 x3))) /\
  lib_common__BitArray_PickRandom__set_bitIdx_2_atoms = ["j : int"; "randBitStart : int"; "elemBits : uint"]%string /\
  (forall x1 x2, lib_common__BitArray_PickRandom__if_bA_Elems_at_elemIdx_band_uint64_1_shl_uint_bitIdx_gt_0_2 x1 x2 = (Z.gtb (go_and U64 x1 x2) 0)) /\
  lib_common__BitArray_PickRandom__if_bA_Elems_at_elemIdx_band_uint64_1_shl_uint_bitIdx_gt_0_2_atoms = ["bA.Elems[elemIdx] : uint64"; "uint64(1) << uint(bitIdx) : uint64"]%string /\
  (forall x1 x2, lib_common__BitArray_PickRandom__ret_64_mul_elemIdx_plus_bitIdx_2 x1 x2 = (go_add I64 (go_mul I64 64 x1) x2)) /\
  lib_common__BitArray_PickRandom__ret_64_mul_elemIdx_plus_bitIdx_2_atoms = ["elemIdx : int"; "bitIdx : int"]%string /\
  lib_common__BitArray_PickRandom__forinit_i_atoms = []%string /\
  lib_common__BitArray_PickRandom__let_i_atoms = []%string /\
  lib_common__BitArray_PickRandom__forinit_j_atoms = []%string /\
  lib_common__BitArray_PickRandom__let_j_atoms = []%string /\
  lib_common__BitArray_PickRandom__let_elemBits_atoms = []%string /\
  lib_common__BitArray_PickRandom__forinit_j_2_atoms = []%string /\
  lib_common__BitArray_PickRandom__let_j_2_atoms = []%string.
Lemma pins_lib_common__BitArray_PickRandom_ok : pins_lib_common__BitArray_PickRandom. Proof. unfold pins_lib_common__BitArray_PickRandom, pinned1. repeat split. Qed.

Definition pins_lib_common__BitArray_ValidateBasic : Prop :=
  pinned1 lib_common__BitArray_ValidateBasic__if_bA_eq_nil lib_common__BitArray_ValidateBasic__if_bA_eq_nil_atoms true "bA == nil : untyped bool" /\
  (forall x1, lib_common__BitArray_ValidateBasic__if_bA_Bits_gt_math_MaxInt32 x1 = (Z.gtb x1 2147483647)) /\
  lib_common__BitArray_ValidateBasic__if_bA_Bits_gt_math_MaxInt32_atoms = ["bA.Bits : uint"]%string /\
  (forall x1 x2, lib_common__BitArray_ValidateBasic__if_len_bA_Elems_ne_expected x1 x2 = (go_neqb x1 x2)) /\
  lib_common__BitArray_ValidateBasic__if_len_bA_Elems_ne_expected_atoms = ["len(bA.Elems) : int"; "expected : int"]%string /\
  (forall x1, lib_common__BitArray_ValidateBasic__set_expected x1 = (go_quot I64 (go_add I64 (go_conv I64 x1) 63) 64)) /\
  lib_common__BitArray_ValidateBasic__set_expected_atoms = ["bA.Bits : uint"]%string.
Lemma pins_lib_common__BitArray_ValidateBasic_ok : pins_lib_common__BitArray_ValidateBasic. Proof. unfold pins_lib_common__BitArray_ValidateBasic, pinned1. repeat split. Qed.

Definition pins_lib_common__BitArray_FromProto : Prop :=
  pinned1 lib_common__BitArray_FromProto__if_protoBitArray_eq_nil lib_common__BitArray_FromProto__if_protoBitArray_eq_nil_atoms true "protoBitArray == nil : untyped bool" /\
  (forall x1, lib_common__BitArray_FromProto__put_bA_Bits x1 = (go_conv U64 x1)) /\
  lib_common__BitArray_FromProto__put_bA_Bits_atoms = ["protoBitArray.Bits : int64"]%string /\
  (forall x1, lib_common__BitArray_FromProto__if_len_protoBitArray_Elems_gt_0 x1 = (Z.gtb x1 0)) /\
  lib_common__BitArray_FromProto__if_len_protoBitArray_Elems_gt_0_atoms = ["len(protoBitArray.Elems) : int"]%string.
Lemma pins_lib_common__BitArray_FromProto_ok : pins_lib_common__BitArray_FromProto. Proof. unfold pins_lib_common__BitArray_FromProto, pinned1. repeat split. Qed.

Definition pins_types__Part_ValidateBasic : Prop :=
  (forall x1, types__Part_ValidateBasic__if_len_part_Bytes_gt_BlockPartSizeBytes x1 = (Z.gtb x1 65536)) /\
  types__Part_ValidateBasic__if_len_part_Bytes_gt_BlockPartSizeBytes_atoms = ["len(part.Bytes) : int"]%string.
Lemma pins_types__Part_ValidateBasic_ok : pins_types__Part_ValidateBasic. Proof. unfold pins_types__Part_ValidateBasic, pinned1. repeat split. Qed.

Definition pins_types__PartSetHeader_ValidateBasic : Prop :=
  pinned1 types__PartSetHeader_ValidateBasic__if_err_ne_nil types__PartSetHeader_ValidateBasic__if_err_ne_nil_atoms true "err != nil : untyped bool" /\
  types__PartSetHeader_ValidateBasic__bind_err_atoms = ["ValidateHash(psh.Hash)"]%string.
Lemma pins_types__PartSetHeader_ValidateBasic_ok : pins_types__PartSetHeader_ValidateBasic. Proof. unfold pins_types__PartSetHeader_ValidateBasic, pinned1. repeat split. Qed.

Definition pins_types__PartSet_AddPart : Prop :=
  pinned1 types__PartSet_AddPart__if_ps_eq_nil types__PartSet_AddPart__if_ps_eq_nil_atoms true "ps == nil : untyped bool" /\
  (forall x1 x2, types__PartSet_AddPart__if_part_Index_ge_ps_total x1 x2 = (Z.geb x1 x2)) /\
  types__PartSet_AddPart__if_part_Index_ge_ps_total_atoms = ["part.Index : uint32"; "ps.total : uint32"]%string /\
  pinned1 types__PartSet_AddPart__if_ps_parts_at_part_Index_ne_nil types__PartSet_AddPart__if_ps_parts_at_part_Index_ne_nil_atoms true "ps.parts[part.Index] != nil : untyped bool" /\
  (forall x1 x2 x3 x4, types__PartSet_AddPart__if_part_Proof_Index_ne_uint64_part_Index_or_part_Proof_Total_ne_9efbf145 x1 x2 x3 x4 = (orb (go_neqb x1 (go_conv U64 x2)) (go_neqb x3 (go_conv U64 x4)))) /\
  types__PartSet_AddPart__if_part_Proof_Index_ne_uint64_part_Index_or_part_Proof_Total_ne_9efbf145_atoms = ["part.Proof.Index : uint64"; "part.Index : uint32"; "part.Proof.Total : uint64"; "ps.total : uint32"]%string /\
  (forall x1, types__PartSet_AddPart__set_count_op x1 = (go_add U32 x1 1)) /\
  types__PartSet_AddPart__set_count_op_atoms = ["ps.count : uint32"]%string.
Lemma pins_types__PartSet_AddPart_ok : pins_types__PartSet_AddPart. Proof. unfold pins_types__PartSet_AddPart, pinned1. repeat split. Qed.

Definition pins_types__PartSet_AddPart__if_part_Proof_Verify_ps_Hash : Prop :=
  pinned1 types__PartSet_AddPart__if_part_Proof_Verify_ps_Hash__Bytes_part_Bytes_ne_nil types__PartSet_AddPart__if_part_Proof_Verify_ps_Hash__Bytes_part_Bytes_ne_nil_atoms true "part.Proof.Verify(ps.Hash().Bytes(), part.Bytes) != nil : untyped bool".
Lemma pins_types__PartSet_AddPart__if_part_Proof_Verify_ps_Hash_ok : pins_types__PartSet_AddPart__if_part_Proof_Verify_ps_Hash. Proof. unfold pins_types__PartSet_AddPart__if_part_Proof_Verify_ps_Hash, pinned1. repeat split. Qed.

Definition pins_types__Vote_ValidateBasic : Prop :=
  pinned1 types__Vote_ValidateBasic__if_not_IsVoteTypeValid_vote_Type types__Vote_ValidateBasic__if_not_IsVoteTypeValid_vote_Type_atoms false "IsVoteTypeValid(vote.Type) : bool" /\
  pinned1 types__Vote_ValidateBasic__if_err_ne_nil types__Vote_ValidateBasic__if_err_ne_nil_atoms true "err != nil : untyped bool" /\
  (forall x1 x2, types__Vote_ValidateBasic__if_not_vote_BlockID_IsZero_and_not_vote_BlockID_IsComplete x1 x2 = (andb (negb x1) (negb x2))) /\
  types__Vote_ValidateBasic__if_not_vote_BlockID_IsZero_and_not_vote_BlockID_IsComplete_atoms = ["vote.BlockID.IsZero() : bool"; "vote.BlockID.IsComplete() : bool"]%string /\
  (forall x1, types__Vote_ValidateBasic__if_len_vote_Signature_eq_0 x1 = (Z.eqb x1 0)) /\
  types__Vote_ValidateBasic__if_len_vote_Signature_eq_0_atoms = ["len(vote.Signature) : int"]%string /\
  types__Vote_ValidateBasic__bind_err_atoms = ["vote.BlockID.ValidateBasic()"]%string.
Lemma pins_types__Vote_ValidateBasic_ok : pins_types__Vote_ValidateBasic. Proof. unfold pins_types__Vote_ValidateBasic, pinned1. repeat split. Qed.

Definition pins_types__Proposal_ValidateBasic : Prop :=
  pinned1 types__Proposal_ValidateBasic__if_err_ne_nil types__Proposal_ValidateBasic__if_err_ne_nil_atoms true "err != nil : untyped bool" /\
  pinned1 types__Proposal_ValidateBasic__if_not_p_POLBlockID_IsComplete types__Proposal_ValidateBasic__if_not_p_POLBlockID_IsComplete_atoms false "p.POLBlockID.IsComplete() : bool" /\
  (forall x1, types__Proposal_ValidateBasic__if_p_POLBlockID_PartsHeader_Total_gt_MaxBlockPartsCount x1 = (Z.gtb x1 1601)) /\
  types__Proposal_ValidateBasic__if_p_POLBlockID_PartsHeader_Total_gt_MaxBlockPartsCount_atoms = ["p.POLBlockID.PartsHeader.Total : uint32"]%string /\
  (forall x1, types__Proposal_ValidateBasic__if_len_p_Signature_eq_0 x1 = (Z.eqb x1 0)) /\
  types__Proposal_ValidateBasic__if_len_p_Signature_eq_0_atoms = ["len(p.Signature) : int"]%string /\
  types__Proposal_ValidateBasic__bind_err_atoms = ["p.POLBlockID.ValidateBasic()"]%string.
Lemma pins_types__Proposal_ValidateBasic_ok : pins_types__Proposal_ValidateBasic. Proof. unfold pins_types__Proposal_ValidateBasic, pinned1. repeat split. Qed.

Definition pins_types__BlockID_ValidateBasic : Prop :=
  pinned1 types__BlockID_ValidateBasic__if_err_ne_nil types__BlockID_ValidateBasic__if_err_ne_nil_atoms true "err != nil : untyped bool" /\
  types__BlockID_ValidateBasic__bind_err_atoms = ["blockID.PartsHeader.ValidateBasic()"]%string.
Lemma pins_types__BlockID_ValidateBasic_ok : pins_types__BlockID_ValidateBasic. Proof. unfold pins_types__BlockID_ValidateBasic, pinned1. repeat split. Qed.

Definition pins_types__BlockID_IsZero : Prop :=
  (forall x1 x2, types__BlockID_IsZero__ret_blockID_Hash_IsZero_and_blockID_PartsHeader_IsZero x1 x2 = (andb x1 x2)) /\
  types__BlockID_IsZero__ret_blockID_Hash_IsZero_and_blockID_PartsHeader_IsZero_atoms = ["blockID.Hash.IsZero() : bool"; "blockID.PartsHeader.IsZero() : bool"]%string.
Lemma pins_types__BlockID_IsZero_ok : pins_types__BlockID_IsZero. Proof. unfold pins_types__BlockID_IsZero, pinned1. repeat split. Qed.

Definition pins_types__BlockID_IsComplete : Prop :=
  (forall x1 x2, types__BlockID_IsComplete__ret_not_blockID_Hash_IsZero_and_not_blockID_PartsHeader_IsZero x1 x2 = (andb (negb x1) (negb x2))) /\
  types__BlockID_IsComplete__ret_not_blockID_Hash_IsZero_and_not_blockID_PartsHeader_IsZero_atoms = ["blockID.Hash.IsZero() : bool"; "blockID.PartsHeader.IsZero() : bool"]%string.
Lemma pins_types__BlockID_IsComplete_ok : pins_types__BlockID_IsComplete. Proof. unfold pins_types__BlockID_IsComplete, pinned1. repeat split. Qed.

Definition pins_types__PartSetHeader_IsZero : Prop :=
  (forall x1 x2, types__PartSetHeader_IsZero__ret_psh_Total_eq_0_and_psh_Hash_IsZero x1 x2 = (andb (Z.eqb x1 0) x2)) /\
  types__PartSetHeader_IsZero__ret_psh_Total_eq_0_and_psh_Hash_IsZero_atoms = ["psh.Total : uint32"; "psh.Hash.IsZero() : bool"]%string.
Lemma pins_types__PartSetHeader_IsZero_ok : pins_types__PartSetHeader_IsZero. Proof. unfold pins_types__PartSetHeader_IsZero, pinned1. repeat split. Qed.

Definition pins_types__IsVoteTypeValid : Prop :=
  (forall x1, types__IsVoteTypeValid__case_t_eq_kproto_PrevoteType x1 = (Z.eqb x1 1)) /\
  types__IsVoteTypeValid__case_t_eq_kproto_PrevoteType_atoms = ["t : github.com/kardiachain/go-kardia/proto/kardiachain/types.SignedMsgType"]%string /\
  (forall x1, types__IsVoteTypeValid__case_t_eq_kproto_PrecommitType x1 = (Z.eqb x1 2)) /\
  types__IsVoteTypeValid__case_t_eq_kproto_PrecommitType_atoms = ["t : github.com/kardiachain/go-kardia/proto/kardiachain/types.SignedMsgType"]%string.
Lemma pins_types__IsVoteTypeValid_ok : pins_types__IsVoteTypeValid. Proof. unfold pins_types__IsVoteTypeValid, pinned1. repeat split. Qed.

Definition pins_blockchain__ValidateMsg : Prop :=
  pinned1 blockchain__ValidateMsg__if_pb_eq_nil blockchain__ValidateMsg__if_pb_eq_nil_atoms true "pb == nil : untyped bool" /\
  (forall x1, blockchain__ValidateMsg__if_msg_Height_lt_1 x1 = (Z.ltb x1 1)) /\
  blockchain__ValidateMsg__if_msg_Height_lt_1_atoms = ["msg.Height : uint64"]%string /\
  pinned1 blockchain__ValidateMsg__if_err_ne_nil blockchain__ValidateMsg__if_err_ne_nil_atoms true "err != nil : untyped bool" /\
  (forall x1, blockchain__ValidateMsg__if_msg_Height_lt_1_2 x1 = (Z.ltb x1 1)) /\
  blockchain__ValidateMsg__if_msg_Height_lt_1_2_atoms = ["msg.Height : uint64"]%string /\
  (forall x1 x2, blockchain__ValidateMsg__if_msg_Base_gt_msg_Height x1 x2 = (Z.gtb x1 x2)) /\
  blockchain__ValidateMsg__if_msg_Base_gt_msg_Height_atoms = ["msg.Base : uint64"; "msg.Height : uint64"]%string /\
  blockchain__ValidateMsg__bind_err_atoms = ["types.BlockFromProto(msg.Block, trie.NewStackTrie(nil))"]%string.
Lemma pins_blockchain__ValidateMsg_ok : pins_blockchain__ValidateMsg. Proof. unfold pins_blockchain__ValidateMsg, pinned1. repeat split. Qed.

Definition pins_blockchain__BlockchainReactor_Receive : Prop :=
  pinned1 blockchain__BlockchainReactor_Receive__if_err_ne_nil blockchain__BlockchainReactor_Receive__if_err_ne_nil_atoms true "err != nil : untyped bool" /\
  pinned1 blockchain__BlockchainReactor_Receive__if_err_ne_nil_2 blockchain__BlockchainReactor_Receive__if_err_ne_nil_2_atoms true "err != nil : untyped bool" /\
  pinned1 blockchain__BlockchainReactor_Receive__if_err_ne_nil_3 blockchain__BlockchainReactor_Receive__if_err_ne_nil_3_atoms true "err != nil : untyped bool" /\
  pinned1 blockchain__BlockchainReactor_Receive__if_block_ne_nil blockchain__BlockchainReactor_Receive__if_block_ne_nil_atoms true "block != nil : untyped bool" /\
  pinned1 blockchain__BlockchainReactor_Receive__if_err_ne_nil_4 blockchain__BlockchainReactor_Receive__if_err_ne_nil_4_atoms true "err != nil : untyped bool" /\
  pinned1 blockchain__BlockchainReactor_Receive__if_err_ne_nil_5 blockchain__BlockchainReactor_Receive__if_err_ne_nil_5_atoms true "err != nil : untyped bool" /\
  pinned1 blockchain__BlockchainReactor_Receive__if_err_ne_nil_6 blockchain__BlockchainReactor_Receive__if_err_ne_nil_6_atoms true "err != nil : untyped bool" /\
  blockchain__BlockchainReactor_Receive__bind_msg_err_atoms = ["DecodeMsg(msgBytes)"]%string /\
  blockchain__BlockchainReactor_Receive__bind_err_atoms = ["ValidateMsg(msg)"]%string /\
  blockchain__BlockchainReactor_Receive__bind_err_2_atoms = ["r.io.sendStatusResponse(r.store.Base(), r.store.Height(), src.ID())"]%string /\
  blockchain__BlockchainReactor_Receive__bind_block_atoms = ["r.store.LoadBlock(msg.Height)"]%string /\
  blockchain__BlockchainReactor_Receive__bind_err_3_atoms = ["r.io.sendBlockToPeer(block, src.ID())"]%string /\
  blockchain__BlockchainReactor_Receive__bind_peerID_atoms = ["src.ID()"]%string /\
  blockchain__BlockchainReactor_Receive__bind_err_4_atoms = ["r.io.sendBlockNotFound(msg.Height, peerID)"]%string /\
  blockchain__BlockchainReactor_Receive__bind_bi_err_atoms = ["types.BlockFromProto(msg.Block, trie.NewStackTrie(nil))"]%string.
Lemma pins_blockchain__BlockchainReactor_Receive_ok : pins_blockchain__BlockchainReactor_Receive. Proof. unfold pins_blockchain__BlockchainReactor_Receive, pinned1. repeat split. Qed.

Definition pins_mainchain_tx_pool__decodeMsg : Prop :=
  pinned1 mainchain_tx_pool__decodeMsg__if_err_ne_nil mainchain_tx_pool__decodeMsg__if_err_ne_nil_atoms true "err != nil : untyped bool" /\
  (forall x1, mainchain_tx_pool__decodeMsg__if_len_txs_eq_0 x1 = (Z.eqb x1 0)) /\
  mainchain_tx_pool__decodeMsg__if_len_txs_eq_0_atoms = ["len(txs) : int"]%string /\
  pinned1 mainchain_tx_pool__decodeMsg__if_err_ne_nil_2 mainchain_tx_pool__decodeMsg__if_err_ne_nil_2_atoms true "err != nil : untyped bool" /\
  (forall x1, mainchain_tx_pool__decodeMsg__if_len_hashes_eq_0 x1 = (Z.eqb x1 0)) /\
  mainchain_tx_pool__decodeMsg__if_len_hashes_eq_0_atoms = ["len(hashes) : int"]%string /\
  (forall x1, mainchain_tx_pool__decodeMsg__if_len_txs_eq_0_2 x1 = (Z.eqb x1 0)) /\
  mainchain_tx_pool__decodeMsg__if_len_txs_eq_0_2_atoms = ["len(txs) : int"]%string /\
  pinned1 mainchain_tx_pool__decodeMsg__if_err_ne_nil_3 mainchain_tx_pool__decodeMsg__if_err_ne_nil_3_atoms true "err != nil : untyped bool" /\
  (forall x1, mainchain_tx_pool__decodeMsg__if_len_hashes_eq_0_2 x1 = (Z.eqb x1 0)) /\
  mainchain_tx_pool__decodeMsg__if_len_hashes_eq_0_2_atoms = ["len(hashes) : int"]%string /\
  mainchain_tx_pool__decodeMsg__bind_err_atoms = ["msg.Unmarshal(bz)"]%string /\
  mainchain_tx_pool__decodeMsg__bind_txs_atoms = ["msg.Txs.GetTxs()"]%string /\
  mainchain_tx_pool__decodeMsg__bind_decoded_atoms = ["make([]*types.Transaction, len(txs))"]%string /\
  mainchain_tx_pool__decodeMsg__bind_err_2_atoms = ["rlp.DecodeBytes(txBytes, tx)"]%string /\
  mainchain_tx_pool__decodeMsg__bind_decoded_2_atoms = ["make(NewPooledTransactionHashes, len(hashes))"]%string /\
  mainchain_tx_pool__decodeMsg__bind_pooledTransactions_atoms = ["make(PooledTransactions, len(txs))"]%string /\
  mainchain_tx_pool__decodeMsg__bind_err_3_atoms = ["rlp.DecodeBytes(txBytes, tx)"]%string /\
  mainchain_tx_pool__decodeMsg__bind_decoded_3_atoms = ["make(RequestPooledTransactionHashes, len(hashes))"]%string.
Lemma pins_mainchain_tx_pool__decodeMsg_ok : pins_mainchain_tx_pool__decodeMsg. Proof. unfold pins_mainchain_tx_pool__decodeMsg, pinned1. repeat split. Qed.

Definition pins_mainchain_tx_pool__Reactor_Receive : Prop :=
  pinned1 mainchain_tx_pool__Reactor_Receive__if_err_ne_nil mainchain_tx_pool__Reactor_Receive__if_err_ne_nil_atoms true "err != nil : untyped bool" /\
  pinned1 mainchain_tx_pool__Reactor_Receive__if_p_eq_nil mainchain_tx_pool__Reactor_Receive__if_p_eq_nil_atoms true "p == nil : untyped bool" /\
  pinned1 mainchain_tx_pool__Reactor_Receive__if_err_ne_nil_2 mainchain_tx_pool__Reactor_Receive__if_err_ne_nil_2_atoms true "err != nil : untyped bool" /\
  pinned1 mainchain_tx_pool__Reactor_Receive__if_err_ne_nil_3 mainchain_tx_pool__Reactor_Receive__if_err_ne_nil_3_atoms true "err != nil : untyped bool" /\
  pinned1 mainchain_tx_pool__Reactor_Receive__if_err_ne_nil_4 mainchain_tx_pool__Reactor_Receive__if_err_ne_nil_4_atoms true "err != nil : untyped bool" /\
  mainchain_tx_pool__Reactor_Receive__bind_msg_err_atoms = ["decodeMsg(msgBytes)"]%string /\
  mainchain_tx_pool__Reactor_Receive__bind_peerID_atoms = ["string(src.ID())"]%string /\
  mainchain_tx_pool__Reactor_Receive__bind_p_atoms = ["txR.peers.Peer(src.ID())"]%string /\
  mainchain_tx_pool__Reactor_Receive__bind_err_atoms = ["txR.txFetcher.Enqueue(peerID, m.Txs, false)"]%string /\
  mainchain_tx_pool__Reactor_Receive__bind_err_2_atoms = ["txR.txFetcher.Enqueue(peerID, m, true)"]%string /\
  mainchain_tx_pool__Reactor_Receive__bind_err_3_atoms = ["txR.txFetcher.Notify(peerID, m)"]%string.
Lemma pins_mainchain_tx_pool__Reactor_Receive_ok : pins_mainchain_tx_pool__Reactor_Receive. Proof. unfold pins_mainchain_tx_pool__Reactor_Receive, pinned1. repeat split. Qed.

Definition pins_mainchain_tx_pool__Reactor_RemovePeer : Prop :=
  pinned1 mainchain_tx_pool__Reactor_RemovePeer__if_err_ne_nil mainchain_tx_pool__Reactor_RemovePeer__if_err_ne_nil_atoms true "err != nil : untyped bool" /\
  pinned1 mainchain_tx_pool__Reactor_RemovePeer__if_err_ne_nil_2 mainchain_tx_pool__Reactor_RemovePeer__if_err_ne_nil_2_atoms true "err != nil : untyped bool" /\
  mainchain_tx_pool__Reactor_RemovePeer__bind_err_atoms = ["txR.peers.Unregister(peer.ID())"]%string /\
  mainchain_tx_pool__Reactor_RemovePeer__bind_err_2_atoms = ["txR.txFetcher.Drop(string(peer.ID()))"]%string.
Lemma pins_mainchain_tx_pool__Reactor_RemovePeer_ok : pins_mainchain_tx_pool__Reactor_RemovePeer. Proof. unfold pins_mainchain_tx_pool__Reactor_RemovePeer, pinned1. repeat split. Qed.

Definition pins_mainchain_tx_pool__Reactor_fetchTx : Prop :=
  pinned1 mainchain_tx_pool__Reactor_fetchTx__if_p_eq_nil mainchain_tx_pool__Reactor_fetchTx__if_p_eq_nil_atoms true "p == nil : untyped bool" /\
  mainchain_tx_pool__Reactor_fetchTx__bind_p_atoms = ["txR.peers.Peer(p2p.ID(peer))"]%string.
Lemma pins_mainchain_tx_pool__Reactor_fetchTx_ok : pins_mainchain_tx_pool__Reactor_fetchTx. Proof. unfold pins_mainchain_tx_pool__Reactor_fetchTx, pinned1. repeat split. Qed.

Definition pins_mainchain_fetcher__TxFetcher_Notify : Prop :=
  pinned1 mainchain_fetcher__TxFetcher_Notify__case_f_hasTx_hash mainchain_fetcher__TxFetcher_Notify__case_f_hasTx_hash_atoms true "f.hasTx(hash) : bool" /\
  (forall x1, mainchain_fetcher__TxFetcher_Notify__set_duplicate_op x1 = (go_add I64 x1 1)) /\
  mainchain_fetcher__TxFetcher_Notify__set_duplicate_op_atoms = ["duplicate : int64"]%string /\
  pinned1 mainchain_fetcher__TxFetcher_Notify__case_f_underpriced_Contains_hash mainchain_fetcher__TxFetcher_Notify__case_f_underpriced_Contains_hash_atoms true "f.underpriced.Contains(hash) : bool" /\
  (forall x1, mainchain_fetcher__TxFetcher_Notify__set_underpriced_op x1 = (go_add I64 x1 1)) /\
  mainchain_fetcher__TxFetcher_Notify__set_underpriced_op_atoms = ["underpriced : int64"]%string /\
  (forall x1, mainchain_fetcher__TxFetcher_Notify__if_len_unknowns_eq_0 x1 = (Z.eqb x1 0)) /\
  mainchain_fetcher__TxFetcher_Notify__if_len_unknowns_eq_0_atoms = ["len(unknowns) : int"]%string /\
  mainchain_fetcher__TxFetcher_Notify__bind_unknowns_atoms = ["append(unknowns, hash)"]%string.
Lemma pins_mainchain_fetcher__TxFetcher_Notify_ok : pins_mainchain_fetcher__TxFetcher_Notify. Proof. unfold pins_mainchain_fetcher__TxFetcher_Notify, pinned1. repeat split. Qed.

Definition pins_mainchain_fetcher__TxFetcher_Enqueue : Prop :=
  pinned1 mainchain_fetcher__TxFetcher_Enqueue__if_direct mainchain_fetcher__TxFetcher_Enqueue__if_direct_atoms true "direct : bool" /\
  (forall x1 x2, mainchain_fetcher__TxFetcher_Enqueue__if_errors_Is_err_ErrUnderpriced_or_errors_Is_err_ErrReplaceUnderpriced x1 x2 = (orb x1 x2)) /\
  mainchain_fetcher__TxFetcher_Enqueue__if_errors_Is_err_ErrUnderpriced_or_errors_Is_err_ErrReplaceUnderpriced_atoms = ["errors.Is(err, ErrUnderpriced) : bool"; "errors.Is(err, ErrReplaceUnderpriced) : bool"]%string /\
  (forall x1, mainchain_fetcher__TxFetcher_Enqueue__for_f_underpriced_Cardinality_ge_maxTxUnderpricedSetSize x1 = (Z.geb x1 32768)) /\
  mainchain_fetcher__TxFetcher_Enqueue__for_f_underpriced_Cardinality_ge_maxTxUnderpricedSetSize_atoms = ["f.underpriced.Cardinality() : int"]%string /\
  pinned1 mainchain_fetcher__TxFetcher_Enqueue__if_errors_Is_err_ErrBlacklistedSender mainchain_fetcher__TxFetcher_Enqueue__if_errors_Is_err_ErrBlacklistedSender_atoms true "errors.Is(err, ErrBlacklistedSender) : bool" /\
  pinned1 mainchain_fetcher__TxFetcher_Enqueue__case_err_eq_nil mainchain_fetcher__TxFetcher_Enqueue__case_err_eq_nil_atoms true "err == nil : bool" /\
  pinned1 mainchain_fetcher__TxFetcher_Enqueue__case_errors_Is_err_ErrAlreadyKnown mainchain_fetcher__TxFetcher_Enqueue__case_errors_Is_err_ErrAlreadyKnown_atoms true "errors.Is(err, ErrAlreadyKnown) : bool" /\
  (forall x1, mainchain_fetcher__TxFetcher_Enqueue__set_duplicate_op x1 = (go_add I64 x1 1)) /\
  mainchain_fetcher__TxFetcher_Enqueue__set_duplicate_op_atoms = ["duplicate : int64"]%string /\
  (forall x1 x2, mainchain_fetcher__TxFetcher_Enqueue__case_errors_Is_err_ErrUnderpriced_or_errors_Is_err_ErrReplaceUnderpriced x1 x2 = (orb x1 x2)) /\
  mainchain_fetcher__TxFetcher_Enqueue__case_errors_Is_err_ErrUnderpriced_or_errors_Is_err_ErrReplaceUnderpriced_atoms = ["errors.Is(err, ErrUnderpriced) : bool"; "errors.Is(err, ErrReplaceUnderpriced) : bool"]%string /\
  (forall x1, mainchain_fetcher__TxFetcher_Enqueue__set_underpriced_op x1 = (go_add I64 x1 1)) /\
  mainchain_fetcher__TxFetcher_Enqueue__set_underpriced_op_atoms = ["underpriced : int64"]%string /\
  (forall x1, mainchain_fetcher__TxFetcher_Enqueue__set_otherreject_op x1 = (go_add I64 x1 1)) /\
  mainchain_fetcher__TxFetcher_Enqueue__set_otherreject_op_atoms = ["otherreject : int64"]%string /\
  pinned1 mainchain_fetcher__TxFetcher_Enqueue__if_direct_2 mainchain_fetcher__TxFetcher_Enqueue__if_direct_2_atoms true "direct : bool" /\
  mainchain_fetcher__TxFetcher_Enqueue__bind_errs_atoms = ["f.addTxs(txs)"]%string /\
  mainchain_fetcher__TxFetcher_Enqueue__bind_added_atoms = ["append(added, txs[i].Hash())"]%string.
Lemma pins_mainchain_fetcher__TxFetcher_Enqueue_ok : pins_mainchain_fetcher__TxFetcher_Enqueue. Proof. unfold pins_mainchain_fetcher__TxFetcher_Enqueue, pinned1. repeat split. Qed.

Definition pins_mainchain_fetcher__TxFetcher_loop : Prop :=
  (forall x1 x2, mainchain_fetcher__TxFetcher_loop__set_used x1 x2 = (go_add I64 x1 x2)) /\
  mainchain_fetcher__TxFetcher_loop__set_used_atoms = ["len(f.waitslots[ann.origin]) : int"; "len(f.announces[ann.origin]) : int"]%string /\
  (forall x1, mainchain_fetcher__TxFetcher_loop__if_used_ge_maxTxAnnounces x1 = (Z.geb x1 4096)) /\
  mainchain_fetcher__TxFetcher_loop__if_used_ge_maxTxAnnounces_atoms = ["used : int"]%string /\
  (forall x1 x2, mainchain_fetcher__TxFetcher_loop__set_want x1 x2 = (go_add I64 x1 x2)) /\
  mainchain_fetcher__TxFetcher_loop__set_want_atoms = ["used : int"; "len(ann.hashes) : int"]%string /\
  (forall x1, mainchain_fetcher__TxFetcher_loop__if_want_gt_maxTxAnnounces x1 = (Z.gtb x1 4096)) /\
  mainchain_fetcher__TxFetcher_loop__if_want_gt_maxTxAnnounces_atoms = ["want : int"]%string /\
  (forall x1, mainchain_fetcher__TxFetcher_loop__arg_int64_want_minus_maxTxAnnounces x1 = (go_conv I64 (go_sub I64 x1 4096))) /\
  mainchain_fetcher__TxFetcher_loop__arg_int64_want_minus_maxTxAnnounces_atoms = ["want : int"]%string /\
  (forall x1, mainchain_fetcher__TxFetcher_loop__set_idleWait x1 = (Z.eqb x1 0)) /\
  mainchain_fetcher__TxFetcher_loop__set_idleWait_atoms = ["len(f.waittime) : int"]%string /\
  pinned1 mainchain_fetcher__TxFetcher_loop__if_f_alternates_at_hash_ne_nil mainchain_fetcher__TxFetcher_loop__if_f_alternates_at_hash_ne_nil_atoms true "f.alternates[hash] != nil : untyped bool" /\
  pinned1 mainchain_fetcher__TxFetcher_loop__if_announces_ne_nil mainchain_fetcher__TxFetcher_loop__if_announces_ne_nil_atoms true "announces != nil : untyped bool" /\
  pinned1 mainchain_fetcher__TxFetcher_loop__if_f_announced_at_hash_ne_nil mainchain_fetcher__TxFetcher_loop__if_f_announced_at_hash_ne_nil_atoms true "f.announced[hash] != nil : untyped bool" /\
  pinned1 mainchain_fetcher__TxFetcher_loop__if_announces_ne_nil_2 mainchain_fetcher__TxFetcher_loop__if_announces_ne_nil_2_atoms true "announces != nil : untyped bool" /\
  pinned1 mainchain_fetcher__TxFetcher_loop__if_f_waitlist_at_hash_ne_nil mainchain_fetcher__TxFetcher_loop__if_f_waitlist_at_hash_ne_nil_atoms true "f.waitlist[hash] != nil : untyped bool" /\
  pinned1 mainchain_fetcher__TxFetcher_loop__if_waitslots_ne_nil mainchain_fetcher__TxFetcher_loop__if_waitslots_ne_nil_atoms true "waitslots != nil : untyped bool" /\
  (forall x1, mainchain_fetcher__TxFetcher_loop__let_assign x1 = x1) /\
  mainchain_fetcher__TxFetcher_loop__let_assign_atoms = ["f.clock.Now() : github.com/kardiachain/go-kardia/lib/mclock.AbsTime"]%string /\
  pinned1 mainchain_fetcher__TxFetcher_loop__if_waitslots_ne_nil_2 mainchain_fetcher__TxFetcher_loop__if_waitslots_ne_nil_2_atoms true "waitslots != nil : untyped bool" /\
  (forall x1 x2, mainchain_fetcher__TxFetcher_loop__if_idleWait_and_len_f_waittime_gt_0 x1 x2 = (andb x1 (Z.gtb x2 0))) /\
  mainchain_fetcher__TxFetcher_loop__if_idleWait_and_len_f_waittime_gt_0_atoms = ["idleWait : bool"; "len(f.waittime) : int"]%string /\
  (forall x1 x2, mainchain_fetcher__TxFetcher_loop__if_not_oldPeer_and_len_f_announces_at_ann_origin_gt_0 x1 x2 = (andb (negb x1) (Z.gtb x2 0))) /\
  mainchain_fetcher__TxFetcher_loop__if_not_oldPeer_and_len_f_announces_at_ann_origin_gt_0_atoms = ["oldPeer : bool"; "len(f.announces[ann.origin]) : int"]%string /\
  pinned1 mainchain_fetcher__TxFetcher_loop__if_f_announced_at_hash_ne_nil_2 mainchain_fetcher__TxFetcher_loop__if_f_announced_at_hash_ne_nil_2_atoms true "f.announced[hash] != nil : untyped bool" /\
  pinned1 mainchain_fetcher__TxFetcher_loop__if_announces_ne_nil_3 mainchain_fetcher__TxFetcher_loop__if_announces_ne_nil_3_atoms true "announces != nil : untyped bool" /\
  (forall x1, mainchain_fetcher__TxFetcher_loop__if_len_f_waitslots_at_peer_eq_0 x1 = (Z.eqb x1 0)) /\
  mainchain_fetcher__TxFetcher_loop__if_len_f_waitslots_at_peer_eq_0_atoms = ["len(f.waitslots[peer]) : int"]%string /\
  (forall x1, mainchain_fetcher__TxFetcher_loop__if_len_f_waittime_gt_0 x1 = (Z.gtb x1 0)) /\
  mainchain_fetcher__TxFetcher_loop__if_len_f_waittime_gt_0_atoms = ["len(f.waittime) : int"]%string /\
  (forall x1, mainchain_fetcher__TxFetcher_loop__if_len_actives_gt_0 x1 = (Z.gtb x1 0)) /\
  mainchain_fetcher__TxFetcher_loop__if_len_actives_gt_0_atoms = ["len(actives) : int"]%string /\
  pinned1 mainchain_fetcher__TxFetcher_loop__if_req_stolen_ne_nil mainchain_fetcher__TxFetcher_loop__if_req_stolen_ne_nil_atoms true "req.stolen != nil : untyped bool" /\
  pinned1 mainchain_fetcher__TxFetcher_loop__if_ok mainchain_fetcher__TxFetcher_loop__if_ok_atoms true "ok : bool" /\
  pinned1 mainchain_fetcher__TxFetcher_loop__if_ok_2 mainchain_fetcher__TxFetcher_loop__if_ok_2_atoms true "ok : bool" /\
  pinned1 mainchain_fetcher__TxFetcher_loop__if_f_alternates_at_hash_ne_nil_2 mainchain_fetcher__TxFetcher_loop__if_f_alternates_at_hash_ne_nil_2_atoms true "f.alternates[hash] != nil : untyped bool" /\
  (forall x1, mainchain_fetcher__TxFetcher_loop__if_len_f_announced_at_hash_eq_0 x1 = (Z.eqb x1 0)) /\
  mainchain_fetcher__TxFetcher_loop__if_len_f_announced_at_hash_eq_0_atoms = ["len(f.announced[hash]) : int"]%string /\
  (forall x1, mainchain_fetcher__TxFetcher_loop__if_len_f_announces_at_peer_eq_0 x1 = (Z.eqb x1 0)) /\
  mainchain_fetcher__TxFetcher_loop__if_len_f_announces_at_peer_eq_0_atoms = ["len(f.announces[peer]) : int"]%string /\
  pinned1 mainchain_fetcher__TxFetcher_loop__if_ok_3 mainchain_fetcher__TxFetcher_loop__if_ok_3_atoms true "ok : bool" /\
  (forall x1, mainchain_fetcher__TxFetcher_loop__if_len_txset_eq_0 x1 = (Z.eqb x1 0)) /\
  mainchain_fetcher__TxFetcher_loop__if_len_txset_eq_0_atoms = ["len(txset) : int"]%string /\
  (forall x1, mainchain_fetcher__TxFetcher_loop__if_len_txset_eq_0_2 x1 = (Z.eqb x1 0)) /\
  mainchain_fetcher__TxFetcher_loop__if_len_txset_eq_0_2_atoms = ["len(txset) : int"]%string /\
  (forall x1 x2 x3, mainchain_fetcher__TxFetcher_loop__if_ok_and_origin_ne_delivery_origin_or_not_delivery_direct x1 x2 x3 = (andb x1 (orb x2 (negb x3)))) /\
  mainchain_fetcher__TxFetcher_loop__if_ok_and_origin_ne_delivery_origin_or_not_delivery_direct_atoms = ["ok : bool"; "origin != delivery.origin : bool"; "delivery.direct : bool"]%string /\
  pinned1 mainchain_fetcher__TxFetcher_loop__if_stolen_eq_nil mainchain_fetcher__TxFetcher_loop__if_stolen_eq_nil_atoms true "stolen == nil : untyped bool" /\
  pinned1 mainchain_fetcher__TxFetcher_loop__if_delivery_direct mainchain_fetcher__TxFetcher_loop__if_delivery_direct_atoms true "delivery.direct : bool" /\
  pinned1 mainchain_fetcher__TxFetcher_loop__if_req_eq_nil mainchain_fetcher__TxFetcher_loop__if_req_eq_nil_atoms true "req == nil : untyped bool" /\
  (forall x1, mainchain_fetcher__TxFetcher_loop__let_cutoff x1 = x1) /\
  mainchain_fetcher__TxFetcher_loop__let_cutoff_atoms = ["len(req.hashes) : int"]%string /\
  pinned1 mainchain_fetcher__TxFetcher_loop__if_ok_4 mainchain_fetcher__TxFetcher_loop__if_ok_4_atoms true "ok : bool" /\
  pinned1 mainchain_fetcher__TxFetcher_loop__if_req_stolen_ne_nil_2 mainchain_fetcher__TxFetcher_loop__if_req_stolen_ne_nil_2_atoms true "req.stolen != nil : untyped bool" /\
  pinned1 mainchain_fetcher__TxFetcher_loop__if_ok_5 mainchain_fetcher__TxFetcher_loop__if_ok_5_atoms true "ok : bool" /\
  pinned1 mainchain_fetcher__TxFetcher_loop__if_not_ok mainchain_fetcher__TxFetcher_loop__if_not_ok_atoms false "ok : bool" /\
  (forall x1 x2, mainchain_fetcher__TxFetcher_loop__if_i_lt_cutoff x1 x2 = (Z.ltb x1 x2)) /\
  mainchain_fetcher__TxFetcher_loop__if_i_lt_cutoff_atoms = ["i : int"; "cutoff : int"]%string /\
  (forall x1, mainchain_fetcher__TxFetcher_loop__if_len_f_announces_at_delivery_origin_eq_0 x1 = (Z.eqb x1 0)) /\
  mainchain_fetcher__TxFetcher_loop__if_len_f_announces_at_delivery_origin_eq_0_atoms = ["len(f.announces[delivery.origin]) : int"]%string /\
  (forall x1, mainchain_fetcher__TxFetcher_loop__if_len_f_alternates_at_hash_gt_0 x1 = (Z.gtb x1 0)) /\
  mainchain_fetcher__TxFetcher_loop__if_len_f_alternates_at_hash_gt_0_atoms = ["len(f.alternates[hash]) : int"]%string /\
  pinned1 mainchain_fetcher__TxFetcher_loop__if_ok_6 mainchain_fetcher__TxFetcher_loop__if_ok_6_atoms true "ok : bool" /\
  pinned1 mainchain_fetcher__TxFetcher_loop__if_ok_7 mainchain_fetcher__TxFetcher_loop__if_ok_7_atoms true "ok : bool" /\
  (forall x1, mainchain_fetcher__TxFetcher_loop__if_len_f_waitlist_at_hash_eq_0 x1 = (Z.eqb x1 0)) /\
  mainchain_fetcher__TxFetcher_loop__if_len_f_waitlist_at_hash_eq_0_atoms = ["len(f.waitlist[hash]) : int"]%string /\
  (forall x1, mainchain_fetcher__TxFetcher_loop__if_len_f_waitlist_gt_0 x1 = (Z.gtb x1 0)) /\
  mainchain_fetcher__TxFetcher_loop__if_len_f_waitlist_gt_0_atoms = ["len(f.waitlist) : int"]%string /\
  pinned1 mainchain_fetcher__TxFetcher_loop__if_request_ne_nil mainchain_fetcher__TxFetcher_loop__if_request_ne_nil_atoms true "request != nil : untyped bool" /\
  pinned1 mainchain_fetcher__TxFetcher_loop__if_request_stolen_ne_nil mainchain_fetcher__TxFetcher_loop__if_request_stolen_ne_nil_atoms true "request.stolen != nil : untyped bool" /\
  pinned1 mainchain_fetcher__TxFetcher_loop__if_ok_8 mainchain_fetcher__TxFetcher_loop__if_ok_8_atoms true "ok : bool" /\
  (forall x1, mainchain_fetcher__TxFetcher_loop__if_len_f_alternates_at_hash_eq_0 x1 = (Z.eqb x1 0)) /\
  mainchain_fetcher__TxFetcher_loop__if_len_f_alternates_at_hash_eq_0_atoms = ["len(f.alternates[hash]) : int"]%string /\
  pinned1 mainchain_fetcher__TxFetcher_loop__if_ok_9 mainchain_fetcher__TxFetcher_loop__if_ok_9_atoms true "ok : bool" /\
  (forall x1, mainchain_fetcher__TxFetcher_loop__if_len_f_announced_at_hash_eq_0_2 x1 = (Z.eqb x1 0)) /\
  mainchain_fetcher__TxFetcher_loop__if_len_f_announced_at_hash_eq_0_2_atoms = ["len(f.announced[hash]) : int"]%string /\
  pinned1 mainchain_fetcher__TxFetcher_loop__if_alts_ne_nil mainchain_fetcher__TxFetcher_loop__if_alts_ne_nil_atoms true "alts != nil : untyped bool" /\
  pinned1 mainchain_fetcher__TxFetcher_loop__if_request_ne_nil_2 mainchain_fetcher__TxFetcher_loop__if_request_ne_nil_2_atoms true "request != nil : untyped bool" /\
  (forall x1 x2, mainchain_fetcher__TxFetcher_loop__arg_int64_len_f_announces_minus_len_f_requests x1 x2 = (go_conv I64 (go_sub I64 x1 x2))) /\
  mainchain_fetcher__TxFetcher_loop__arg_int64_len_f_announces_minus_len_f_requests_atoms = ["len(f.announces) : int"; "len(f.requests) : int"]%string /\
  pinned1 mainchain_fetcher__TxFetcher_loop__if_f_step_ne_nil mainchain_fetcher__TxFetcher_loop__if_f_step_ne_nil_atoms true "f.step != nil : untyped bool" /\
  mainchain_fetcher__TxFetcher_loop__bind_actives_atoms = ["make(map[string]struct{})"]%string /\
  mainchain_fetcher__TxFetcher_loop__bind_delivered_atoms = ["make(map[common.Hash]struct{})"]%string.
Lemma pins_mainchain_fetcher__TxFetcher_loop_ok : pins_mainchain_fetcher__TxFetcher_loop. Proof. unfold pins_mainchain_fetcher__TxFetcher_loop, pinned1. repeat split. Qed.

Definition pins_mainchain_fetcher__TxFetcher_loop__if_time_Duration_f_clock_Now_minus_instance_plus_txGatherSlack : Prop :=
  (forall x1 x2, mainchain_fetcher__TxFetcher_loop__if_time_Duration_f_clock_Now_minus_instance_plus_txGatherSlack__ad1ffaf4 x1 x2 = (Z.gtb (go_add I64 (go_conv I64 (go_sub I64 x1 x2)) 100000000) 500000000)) /\
  mainchain_fetcher__TxFetcher_loop__if_time_Duration_f_clock_Now_minus_instance_plus_txGatherSlack__ad1ffaf4_atoms = ["f.clock.Now() : github.com/kardiachain/go-kardia/lib/mclock.AbsTime"; "instance : github.com/kardiachain/go-kardia/lib/mclock.AbsTime"]%string.
Lemma pins_mainchain_fetcher__TxFetcher_loop__if_time_Duration_f_clock_Now_minus_instance_plus_txGatherSlack_ok : pins_mainchain_fetcher__TxFetcher_loop__if_time_Duration_f_clock_Now_minus_instance_plus_txGatherSlack. Proof. unfold pins_mainchain_fetcher__TxFetcher_loop__if_time_Duration_f_clock_Now_minus_instance_plus_txGatherSlack, pinned1. repeat split. Qed.

Definition pins_mainchain_fetcher__TxFetcher_loop__if_time_Duration_f_clock_Now_minus_req_time_plus_txGatherSlack : Prop :=
  (forall x1 x2 x3, mainchain_fetcher__TxFetcher_loop__if_time_Duration_f_clock_Now_minus_req_time_plus_txGatherSlack__0c5cb80d x1 x2 x3 = (Z.gtb (go_add I64 (go_conv I64 (go_sub I64 x1 x2)) 100000000) x3)) /\
  mainchain_fetcher__TxFetcher_loop__if_time_Duration_f_clock_Now_minus_req_time_plus_txGatherSlack__0c5cb80d_atoms = ["f.clock.Now() : github.com/kardiachain/go-kardia/lib/mclock.AbsTime"; "req.time : github.com/kardiachain/go-kardia/lib/mclock.AbsTime"; "txFetchTimeout : time.Duration"]%string.
Lemma pins_mainchain_fetcher__TxFetcher_loop__if_time_Duration_f_clock_Now_minus_req_time_plus_txGatherSlack_ok : pins_mainchain_fetcher__TxFetcher_loop__if_time_Duration_f_clock_Now_minus_req_time_plus_txGatherSlack. Proof. unfold pins_mainchain_fetcher__TxFetcher_loop__if_time_Duration_f_clock_Now_minus_req_time_plus_txGatherSlack, pinned1. repeat split. Qed.

Definition pins_mainchain_fetcher__TxFetcher_rescheduleWait : Prop :=
  pinned1 mainchain_fetcher__TxFetcher_rescheduleWait__if_mul_timer_ne_nil mainchain_fetcher__TxFetcher_rescheduleWait__if_mul_timer_ne_nil_atoms true "*timer != nil : untyped bool" /\
  (forall x1, mainchain_fetcher__TxFetcher_rescheduleWait__let_now x1 = x1) /\
  mainchain_fetcher__TxFetcher_rescheduleWait__let_now_atoms = ["f.clock.Now() : github.com/kardiachain/go-kardia/lib/mclock.AbsTime"]%string /\
  (forall x1 x2, mainchain_fetcher__TxFetcher_rescheduleWait__if_earliest_gt_instance x1 x2 = (Z.gtb x1 x2)) /\
  mainchain_fetcher__TxFetcher_rescheduleWait__if_earliest_gt_instance_atoms = ["earliest : github.com/kardiachain/go-kardia/lib/mclock.AbsTime"; "instance : github.com/kardiachain/go-kardia/lib/mclock.AbsTime"]%string /\
  (forall x1 x2, mainchain_fetcher__TxFetcher_rescheduleWait__if_txArriveTimeout_minus_time_Duration_now_minus_earliest_lt_gatherSlack x1 x2 = (Z.ltb (go_sub I64 500000000 (go_conv I64 (go_sub I64 x1 x2))) 100000000)) /\
  mainchain_fetcher__TxFetcher_rescheduleWait__if_txArriveTimeout_minus_time_Duration_now_minus_earliest_lt_gatherSlack_atoms = ["now : github.com/kardiachain/go-kardia/lib/mclock.AbsTime"; "earliest : github.com/kardiachain/go-kardia/lib/mclock.AbsTime"]%string /\
  (forall x1 x2, mainchain_fetcher__TxFetcher_rescheduleWait__arg_txArriveTimeout_minus_time_Duration_now_minus_earliest x1 x2 = (go_sub I64 500000000 (go_conv I64 (go_sub I64 x1 x2)))) /\
  mainchain_fetcher__TxFetcher_rescheduleWait__arg_txArriveTimeout_minus_time_Duration_now_minus_earliest_atoms = ["now : github.com/kardiachain/go-kardia/lib/mclock.AbsTime"; "earliest : github.com/kardiachain/go-kardia/lib/mclock.AbsTime"]%string.
Lemma pins_mainchain_fetcher__TxFetcher_rescheduleWait_ok : pins_mainchain_fetcher__TxFetcher_rescheduleWait. Proof. unfold pins_mainchain_fetcher__TxFetcher_rescheduleWait, pinned1. repeat split. Qed.

Definition pins_mainchain_fetcher__TxFetcher_rescheduleTimeout : Prop :=
  pinned1 mainchain_fetcher__TxFetcher_rescheduleTimeout__if_mul_timer_ne_nil mainchain_fetcher__TxFetcher_rescheduleTimeout__if_mul_timer_ne_nil_atoms true "*timer != nil : untyped bool" /\
  (forall x1, mainchain_fetcher__TxFetcher_rescheduleTimeout__let_now x1 = x1) /\
  mainchain_fetcher__TxFetcher_rescheduleTimeout__let_now_atoms = ["f.clock.Now() : github.com/kardiachain/go-kardia/lib/mclock.AbsTime"]%string /\
  pinned1 mainchain_fetcher__TxFetcher_rescheduleTimeout__if_req_hashes_eq_nil mainchain_fetcher__TxFetcher_rescheduleTimeout__if_req_hashes_eq_nil_atoms true "req.hashes == nil : untyped bool" /\
  (forall x1 x2, mainchain_fetcher__TxFetcher_rescheduleTimeout__if_earliest_gt_req_time x1 x2 = (Z.gtb x1 x2)) /\
  mainchain_fetcher__TxFetcher_rescheduleTimeout__if_earliest_gt_req_time_atoms = ["earliest : github.com/kardiachain/go-kardia/lib/mclock.AbsTime"; "req.time : github.com/kardiachain/go-kardia/lib/mclock.AbsTime"]%string /\
  (forall x1 x2 x3, mainchain_fetcher__TxFetcher_rescheduleTimeout__if_txFetchTimeout_minus_time_Duration_now_minus_earliest_lt_gatherSlack x1 x2 x3 = (Z.ltb (go_sub I64 x1 (go_conv I64 (go_sub I64 x2 x3))) 100000000)) /\
  mainchain_fetcher__TxFetcher_rescheduleTimeout__if_txFetchTimeout_minus_time_Duration_now_minus_earliest_lt_gatherSlack_atoms = ["txFetchTimeout : time.Duration"; "now : github.com/kardiachain/go-kardia/lib/mclock.AbsTime"; "earliest : github.com/kardiachain/go-kardia/lib/mclock.AbsTime"]%string /\
  (forall x1 x2 x3, mainchain_fetcher__TxFetcher_rescheduleTimeout__arg_txFetchTimeout_minus_time_Duration_now_minus_earliest x1 x2 x3 = (go_sub I64 x1 (go_conv I64 (go_sub I64 x2 x3)))) /\
  mainchain_fetcher__TxFetcher_rescheduleTimeout__arg_txFetchTimeout_minus_time_Duration_now_minus_earliest_atoms = ["txFetchTimeout : time.Duration"; "now : github.com/kardiachain/go-kardia/lib/mclock.AbsTime"; "earliest : github.com/kardiachain/go-kardia/lib/mclock.AbsTime"]%string.
Lemma pins_mainchain_fetcher__TxFetcher_rescheduleTimeout_ok : pins_mainchain_fetcher__TxFetcher_rescheduleTimeout. Proof. unfold pins_mainchain_fetcher__TxFetcher_rescheduleTimeout, pinned1. repeat split. Qed.

Definition pins_mainchain_fetcher__TxFetcher_scheduleFetches : Prop :=
  pinned1 mainchain_fetcher__TxFetcher_scheduleFetches__if_actives_eq_nil mainchain_fetcher__TxFetcher_scheduleFetches__if_actives_eq_nil_atoms true "actives == nil : untyped bool" /\
  (forall x1, mainchain_fetcher__TxFetcher_scheduleFetches__if_len_actives_eq_0 x1 = (Z.eqb x1 0)) /\
  mainchain_fetcher__TxFetcher_scheduleFetches__if_len_actives_eq_0_atoms = ["len(actives) : int"]%string /\
  (forall x1, mainchain_fetcher__TxFetcher_scheduleFetches__set_idle x1 = (Z.eqb x1 0)) /\
  mainchain_fetcher__TxFetcher_scheduleFetches__set_idle_atoms = ["len(f.requests) : int"]%string /\
  pinned1 mainchain_fetcher__TxFetcher_scheduleFetches__if_f_requests_at_peer_ne_nil mainchain_fetcher__TxFetcher_scheduleFetches__if_f_requests_at_peer_ne_nil_atoms true "f.requests[peer] != nil : untyped bool" /\
  (forall x1, mainchain_fetcher__TxFetcher_scheduleFetches__if_len_f_announces_at_peer_eq_0 x1 = (Z.eqb x1 0)) /\
  mainchain_fetcher__TxFetcher_scheduleFetches__if_len_f_announces_at_peer_eq_0_atoms = ["len(f.announces[peer]) : int"]%string /\
  pinned1 mainchain_fetcher__TxFetcher_scheduleFetches__if_not_ok mainchain_fetcher__TxFetcher_scheduleFetches__if_not_ok_atoms false "ok : bool" /\
  pinned1 mainchain_fetcher__TxFetcher_scheduleFetches__if_ok mainchain_fetcher__TxFetcher_scheduleFetches__if_ok_atoms true "ok : bool" /\
  (forall x1, mainchain_fetcher__TxFetcher_scheduleFetches__if_len_hashes_ge_maxTxRetrievals x1 = (Z.geb x1 256)) /\
  mainchain_fetcher__TxFetcher_scheduleFetches__if_len_hashes_ge_maxTxRetrievals_atoms = ["len(hashes) : int"]%string /\
  (forall x1, mainchain_fetcher__TxFetcher_scheduleFetches__if_len_hashes_gt_0 x1 = (Z.gtb x1 0)) /\
  mainchain_fetcher__TxFetcher_scheduleFetches__if_len_hashes_gt_0_atoms = ["len(hashes) : int"]%string /\
  pinned1 mainchain_fetcher__TxFetcher_scheduleFetches__if_err_ne_nil mainchain_fetcher__TxFetcher_scheduleFetches__if_err_ne_nil_atoms true "err != nil : untyped bool" /\
  (forall x1 x2, mainchain_fetcher__TxFetcher_scheduleFetches__if_idle_and_len_f_requests_gt_0 x1 x2 = (andb x1 (Z.gtb x2 0))) /\
  mainchain_fetcher__TxFetcher_scheduleFetches__if_idle_and_len_f_requests_gt_0_atoms = ["idle : bool"; "len(f.requests) : int"]%string /\
  mainchain_fetcher__TxFetcher_scheduleFetches__bind_actives_atoms = ["make(map[string]struct{})"]%string /\
  mainchain_fetcher__TxFetcher_scheduleFetches__bind_hashes_atoms = ["make([]common.Hash, 0, maxTxRetrievals)"]%string /\
  mainchain_fetcher__TxFetcher_scheduleFetches__bind_hashes_2_atoms = ["append(hashes, hash)"]%string /\
  mainchain_fetcher__TxFetcher_scheduleFetches__bind_err_atoms = ["f.fetchTxs(peer, hashes)"]%string.
Lemma pins_mainchain_fetcher__TxFetcher_scheduleFetches_ok : pins_mainchain_fetcher__TxFetcher_scheduleFetches. Proof. unfold pins_mainchain_fetcher__TxFetcher_scheduleFetches, pinned1. repeat split. Qed.

Definition pins_types_evidence__Reactor_Receive : Prop :=
  pinned1 types_evidence__Reactor_Receive__if_err_ne_nil types_evidence__Reactor_Receive__if_err_ne_nil_atoms true "err != nil : untyped bool" /\
  types_evidence__Reactor_Receive__bind_evis_err_atoms = ["decodeMsg(msgBytes)"]%string /\
  types_evidence__Reactor_Receive__bind_err_atoms = ["evR.evpool.AddEvidence(ev)"]%string.
Lemma pins_types_evidence__Reactor_Receive_ok : pins_types_evidence__Reactor_Receive. Proof. unfold pins_types_evidence__Reactor_Receive, pinned1. repeat split. Qed.

Definition pins_types_evidence__decodeMsg : Prop :=
  pinned1 types_evidence__decodeMsg__if_err_ne_nil types_evidence__decodeMsg__if_err_ne_nil_atoms true "err != nil : untyped bool" /\
  (forall x1 x2, types_evidence__decodeMsg__for_i_lt_len_lm_Evidence x1 x2 = (Z.ltb x1 x2)) /\
  types_evidence__decodeMsg__for_i_lt_len_lm_Evidence_atoms = ["i : int"; "len(lm.Evidence) : int"]%string /\
  (forall x1, types_evidence__decodeMsg__set_i_op x1 = (go_add I64 x1 1)) /\
  types_evidence__decodeMsg__set_i_op_atoms = ["i : int"]%string /\
  pinned1 types_evidence__decodeMsg__if_err_ne_nil_2 types_evidence__decodeMsg__if_err_ne_nil_2_atoms true "err != nil : untyped bool" /\
  pinned1 types_evidence__decodeMsg__if_err_ne_nil_3 types_evidence__decodeMsg__if_err_ne_nil_3_atoms true "err != nil : untyped bool" /\
  types_evidence__decodeMsg__bind_err_atoms = ["lm.Unmarshal(bz)"]%string /\
  types_evidence__decodeMsg__bind_evis_atoms = ["make([]types.Evidence, len(lm.Evidence))"]%string /\
  types_evidence__decodeMsg__forinit_i_atoms = []%string /\
  types_evidence__decodeMsg__let_i_atoms = []%string /\
  types_evidence__decodeMsg__bind_ev_err_atoms = ["types.EvidenceFromProto(lm.Evidence[i])"]%string /\
  types_evidence__decodeMsg__bind_err_2_atoms = ["ev.ValidateBasic()"]%string.
Lemma pins_types_evidence__decodeMsg_ok : pins_types_evidence__decodeMsg. Proof. unfold pins_types_evidence__decodeMsg, pinned1. repeat split. Qed.

Definition pins_lib_p2p_pex__Reactor_Receive : Prop :=
  pinned1 lib_p2p_pex__Reactor_Receive__if_err_ne_nil lib_p2p_pex__Reactor_Receive__if_err_ne_nil_atoms true "err != nil : untyped bool" /\
  (forall x1 x2, lib_p2p_pex__Reactor_Receive__if_r_config_SeedMode_and_not_src_IsOutbound x1 x2 = (andb x1 (negb x2))) /\
  lib_p2p_pex__Reactor_Receive__if_r_config_SeedMode_and_not_src_IsOutbound_atoms = ["r.config.SeedMode : bool"; "src.IsOutbound() : bool"]%string /\
  pinned1 lib_p2p_pex__Reactor_Receive__if_v_ne_nil lib_p2p_pex__Reactor_Receive__if_v_ne_nil_atoms true "v != nil : untyped bool" /\
  pinned1 lib_p2p_pex__Reactor_Receive__if_err_ne_nil_2 lib_p2p_pex__Reactor_Receive__if_err_ne_nil_2_atoms true "err != nil : untyped bool" /\
  pinned1 lib_p2p_pex__Reactor_Receive__if_err_ne_nil_3 lib_p2p_pex__Reactor_Receive__if_err_ne_nil_3_atoms true "err != nil : untyped bool" /\
  pinned1 lib_p2p_pex__Reactor_Receive__if_err_ne_nil_4 lib_p2p_pex__Reactor_Receive__if_err_ne_nil_4_atoms true "err != nil : untyped bool" /\
  pinned1 lib_p2p_pex__Reactor_Receive__if_err_eq_ErrUnsolicitedList lib_p2p_pex__Reactor_Receive__if_err_eq_ErrUnsolicitedList_atoms true "err == ErrUnsolicitedList : untyped bool" /\
  lib_p2p_pex__Reactor_Receive__bind_msg_err_atoms = ["decodeMsg(msgBytes)"]%string /\
  lib_p2p_pex__Reactor_Receive__bind_id_atoms = ["string(src.ID())"]%string /\
  lib_p2p_pex__Reactor_Receive__bind_v_atoms = ["r.lastReceivedRequests.Get(id)"]%string /\
  lib_p2p_pex__Reactor_Receive__bind_err_atoms = ["r.receiveRequest(src)"]%string /\
  lib_p2p_pex__Reactor_Receive__bind_addrs_err_atoms = ["p2p.NetAddressesFromProto(msg.Addrs)"]%string /\
  lib_p2p_pex__Reactor_Receive__bind_err_2_atoms = ["r.ReceiveAddrs(addrs, src)"]%string.
Lemma pins_lib_p2p_pex__Reactor_Receive_ok : pins_lib_p2p_pex__Reactor_Receive. Proof. unfold pins_lib_p2p_pex__Reactor_Receive, pinned1. repeat split. Qed.

Definition pins_lib_p2p_pex__Reactor_ReceiveAddrs : Prop :=
  pinned1 lib_p2p_pex__Reactor_ReceiveAddrs__if_not_r_requestsSent_Has_id lib_p2p_pex__Reactor_ReceiveAddrs__if_not_r_requestsSent_Has_id_atoms false "r.requestsSent.Has(id) : bool" /\
  pinned1 lib_p2p_pex__Reactor_ReceiveAddrs__if_err_ne_nil lib_p2p_pex__Reactor_ReceiveAddrs__if_err_ne_nil_atoms true "err != nil : untyped bool" /\
  pinned1 lib_p2p_pex__Reactor_ReceiveAddrs__if_seedAddr_Equals_srcAddr lib_p2p_pex__Reactor_ReceiveAddrs__if_seedAddr_Equals_srcAddr_atoms true "seedAddr.Equals(srcAddr) : bool" /\
  pinned1 lib_p2p_pex__Reactor_ReceiveAddrs__if_err_ne_nil_2 lib_p2p_pex__Reactor_ReceiveAddrs__if_err_ne_nil_2_atoms true "err != nil : untyped bool" /\
  pinned1 lib_p2p_pex__Reactor_ReceiveAddrs__if_srcIsSeed lib_p2p_pex__Reactor_ReceiveAddrs__if_srcIsSeed_atoms true "srcIsSeed : bool" /\
  pinned1 lib_p2p_pex__Reactor_ReceiveAddrs__if_err_ne_nil_3 lib_p2p_pex__Reactor_ReceiveAddrs__if_err_ne_nil_3_atoms true "err != nil : untyped bool" /\
  lib_p2p_pex__Reactor_ReceiveAddrs__bind_id_atoms = ["string(src.ID())"]%string /\
  lib_p2p_pex__Reactor_ReceiveAddrs__bind_srcAddr_err_atoms = ["src.NodeInfo().NetAddress()"]%string /\
  lib_p2p_pex__Reactor_ReceiveAddrs__let_srcIsSeed_atoms = []%string /\
  lib_p2p_pex__Reactor_ReceiveAddrs__let_srcIsSeed_2_atoms = []%string /\
  lib_p2p_pex__Reactor_ReceiveAddrs__bind_err_atoms = ["r.book.AddAddress(netAddr, srcAddr)"]%string /\
  lib_p2p_pex__Reactor_ReceiveAddrs__bind_err_2_atoms = ["r.dialPeer(addr)"]%string.
Lemma pins_lib_p2p_pex__Reactor_ReceiveAddrs_ok : pins_lib_p2p_pex__Reactor_ReceiveAddrs. Proof. unfold pins_lib_p2p_pex__Reactor_ReceiveAddrs, pinned1. repeat split. Qed.

Definition pins_lib_p2p_pex__Reactor_receiveRequest : Prop :=
  pinned1 lib_p2p_pex__Reactor_receiveRequest__if_v_eq_nil lib_p2p_pex__Reactor_receiveRequest__if_v_eq_nil_atoms true "v == nil : untyped bool" /\
  pinned1 lib_p2p_pex__Reactor_receiveRequest__if_lastReceived_Equal_time_Time lib_p2p_pex__Reactor_receiveRequest__if_lastReceived_Equal_time_Time_atoms true "lastReceived.Equal(time.Time{}) : bool" /\
  (forall x1, lib_p2p_pex__Reactor_receiveRequest__let_minInterval x1 = x1) /\
  lib_p2p_pex__Reactor_receiveRequest__let_minInterval_atoms = ["r.minReceiveRequestInterval() : time.Duration"]%string /\
  (forall x1 x2, lib_p2p_pex__Reactor_receiveRequest__if_now_Sub_lastReceived_lt_minInterval x1 x2 = (Z.ltb x1 x2)) /\
  lib_p2p_pex__Reactor_receiveRequest__if_now_Sub_lastReceived_lt_minInterval_atoms = ["now.Sub(lastReceived) : time.Duration"; "minInterval : time.Duration"]%string /\
  lib_p2p_pex__Reactor_receiveRequest__bind_id_atoms = ["string(src.ID())"]%string /\
  lib_p2p_pex__Reactor_receiveRequest__bind_v_atoms = ["r.lastReceivedRequests.Get(id)"]%string /\
  lib_p2p_pex__Reactor_receiveRequest__bind_lastReceived_atoms = ["time.Now()"]%string /\
  lib_p2p_pex__Reactor_receiveRequest__bind_now_atoms = ["time.Now()"]%string.
Lemma pins_lib_p2p_pex__Reactor_receiveRequest_ok : pins_lib_p2p_pex__Reactor_receiveRequest. Proof. unfold pins_lib_p2p_pex__Reactor_receiveRequest, pinned1. repeat split. Qed.

Definition pins_lib_p2p_pex__Reactor_RequestAddrs : Prop :=
  pinned1 lib_p2p_pex__Reactor_RequestAddrs__if_exists lib_p2p_pex__Reactor_RequestAddrs__if_exists_atoms true "exists : bool" /\
  lib_p2p_pex__Reactor_RequestAddrs__bind_id_atoms = ["string(p.ID())"]%string /\
  lib_p2p_pex__Reactor_RequestAddrs__bind_exists_atoms = ["r.requestsSent.GetOrSet(id, struct{}{})"]%string.
Lemma pins_lib_p2p_pex__Reactor_RequestAddrs_ok : pins_lib_p2p_pex__Reactor_RequestAddrs. Proof. unfold pins_lib_p2p_pex__Reactor_RequestAddrs, pinned1. repeat split. Qed.

Definition pins_lib_p2p__NetAddressFromProto : Prop :=
  pinned1 lib_p2p__NetAddressFromProto__if_ip_eq_nil lib_p2p__NetAddressFromProto__if_ip_eq_nil_atoms true "ip == nil : untyped bool" /\
  (forall x1, lib_p2p__NetAddressFromProto__if_pb_Port_ge_1_shl_16 x1 = (Z.geb x1 65536)) /\
  lib_p2p__NetAddressFromProto__if_pb_Port_ge_1_shl_16_atoms = ["pb.Port : uint32"]%string /\
  lib_p2p__NetAddressFromProto__bind_ip_atoms = ["net.ParseIP(pb.IP)"]%string.
Lemma pins_lib_p2p__NetAddressFromProto_ok : pins_lib_p2p__NetAddressFromProto. Proof. unfold pins_lib_p2p__NetAddressFromProto, pinned1. repeat split. Qed.

Definition pins_lib_p2p__NetAddressesFromProto : Prop :=
  pinned1 lib_p2p__NetAddressesFromProto__if_err_ne_nil lib_p2p__NetAddressesFromProto__if_err_ne_nil_atoms true "err != nil : untyped bool" /\
  lib_p2p__NetAddressesFromProto__bind_nas_atoms = ["make([]*NetAddress, 0, len(pbs))"]%string /\
  lib_p2p__NetAddressesFromProto__bind_na_err_atoms = ["NetAddressFromProto(pb)"]%string /\
  lib_p2p__NetAddressesFromProto__bind_nas_2_atoms = ["append(nas, na)"]%string.
Lemma pins_lib_p2p__NetAddressesFromProto_ok : pins_lib_p2p__NetAddressesFromProto. Proof. unfold pins_lib_p2p__NetAddressesFromProto, pinned1. repeat split. Qed.

Definition pins_lib_p2p_conn__Channel_recvPacketMsg : Prop :=
  (forall x1, lib_p2p_conn__Channel_recvPacketMsg__let_recvCap x1 = x1) /\
  lib_p2p_conn__Channel_recvPacketMsg__let_recvCap_atoms = ["ch.desc.RecvMessageCapacity : int"]%string /\
  (forall x1 x2, lib_p2p_conn__Channel_recvPacketMsg__set_recvReceived x1 x2 = (go_add I64 x1 x2)) /\
  lib_p2p_conn__Channel_recvPacketMsg__set_recvReceived_atoms = ["len(ch.recving) : int"; "len(packet.Data) : int"]%string /\
  (forall x1 x2, lib_p2p_conn__Channel_recvPacketMsg__if_recvCap_lt_recvReceived x1 x2 = (Z.ltb x1 x2)) /\
  lib_p2p_conn__Channel_recvPacketMsg__if_recvCap_lt_recvReceived_atoms = ["recvCap : int"; "recvReceived : int"]%string /\
  pinned1 lib_p2p_conn__Channel_recvPacketMsg__if_packet_EOF lib_p2p_conn__Channel_recvPacketMsg__if_packet_EOF_atoms true "packet.EOF : bool".
Lemma pins_lib_p2p_conn__Channel_recvPacketMsg_ok : pins_lib_p2p_conn__Channel_recvPacketMsg. Proof. unfold pins_lib_p2p_conn__Channel_recvPacketMsg, pinned1. repeat split. Qed.

Definition pins_lib_p2p_conn__MConnection_recvRoutine : Prop :=
  pinned1 lib_p2p_conn__MConnection_recvRoutine__if_err_ne_nil lib_p2p_conn__MConnection_recvRoutine__if_err_ne_nil_atoms true "err != nil : untyped bool" /\
  pinned1 lib_p2p_conn__MConnection_recvRoutine__if_c_IsRunning lib_p2p_conn__MConnection_recvRoutine__if_c_IsRunning_atoms true "c.IsRunning() : bool" /\
  pinned1 lib_p2p_conn__MConnection_recvRoutine__if_err_eq_io_EOF lib_p2p_conn__MConnection_recvRoutine__if_err_eq_io_EOF_atoms true "err == io.EOF : untyped bool" /\
  (forall x1 x2, lib_p2p_conn__MConnection_recvRoutine__if_not_ok_or_channel_eq_nil x1 x2 = (orb (negb x1) x2)) /\
  lib_p2p_conn__MConnection_recvRoutine__if_not_ok_or_channel_eq_nil_atoms = ["ok : bool"; "channel == nil : bool"]%string /\
  pinned1 lib_p2p_conn__MConnection_recvRoutine__if_err_ne_nil_2 lib_p2p_conn__MConnection_recvRoutine__if_err_ne_nil_2_atoms true "err != nil : untyped bool" /\
  pinned1 lib_p2p_conn__MConnection_recvRoutine__if_c_IsRunning_2 lib_p2p_conn__MConnection_recvRoutine__if_c_IsRunning_2_atoms true "c.IsRunning() : bool" /\
  pinned1 lib_p2p_conn__MConnection_recvRoutine__if_msgBytes_ne_nil lib_p2p_conn__MConnection_recvRoutine__if_msgBytes_ne_nil_atoms true "msgBytes != nil : untyped bool" /\
  lib_p2p_conn__MConnection_recvRoutine__bind_protoReader_atoms = ["protoio.NewDelimitedReader(c.bufConnReader, c._maxPacketMsgSize)"]%string /\
  lib_p2p_conn__MConnection_recvRoutine__bind_err_atoms = ["protoReader.ReadMsg(&packet)"]%string /\
  lib_p2p_conn__MConnection_recvRoutine__bind_err_2_atoms = ["fmt.Errorf('unknown channel %X', pkt.PacketMsg.ChannelID)"]%string /\
  lib_p2p_conn__MConnection_recvRoutine__bind_msgBytes_err_atoms = ["channel.recvPacketMsg(*pkt.PacketMsg)"]%string /\
  lib_p2p_conn__MConnection_recvRoutine__bind_err_3_atoms = ["fmt.Errorf('unknown message type %v', reflect.TypeOf(packet))"]%string.
Lemma pins_lib_p2p_conn__MConnection_recvRoutine_ok : pins_lib_p2p_conn__MConnection_recvRoutine. Proof. unfold pins_lib_p2p_conn__MConnection_recvRoutine, pinned1. repeat split. Qed.

Definition pins_lib_crypto__SigToPub : Prop :=
  (forall x1, lib_crypto__SigToPub__if_len_sig_ne_SignatureLength x1 = (go_neqb x1 65)) /\
  lib_crypto__SigToPub__if_len_sig_ne_SignatureLength_atoms = ["len(sig) : int"]%string /\
  (forall x1 x2 x3 x4, lib_crypto__SigToPub__if_r_Sign_eq_0_or_s_Sign_eq_0_or_r_Cmp_secp256k1N_ge_0_or_s_Cmp_b70b570f x1 x2 x3 x4 = (orb (orb (orb (Z.eqb x1 0) (Z.eqb x2 0)) (Z.geb x3 0)) (Z.geb x4 0))) /\
  lib_crypto__SigToPub__if_r_Sign_eq_0_or_s_Sign_eq_0_or_r_Cmp_secp256k1N_ge_0_or_s_Cmp_b70b570f_atoms = ["r.Sign() : int"; "s.Sign() : int"; "r.Cmp(secp256k1N) : int"; "s.Cmp(secp256k1N) : int"]%string /\
  (forall x1, lib_crypto__SigToPub__assign x1 = (go_add U8 x1 27)) /\
  lib_crypto__SigToPub__assign_atoms = ["sig[64] : byte"]%string /\
  lib_crypto__SigToPub__bind_btcsig_atoms = ["make([]byte, 65)"]%string /\
  lib_crypto__SigToPub__bind_pub_err_atoms = ["btcec.RecoverCompact(btcec.S256(), btcsig, hash)"]%string.
Lemma pins_lib_crypto__SigToPub_ok : pins_lib_crypto__SigToPub. Proof. unfold pins_lib_crypto__SigToPub, pinned1. repeat split. Qed.

Definition pins_lib_merkle__SimpleProof_ValidateBasic : Prop :=
  (forall x1, lib_merkle__SimpleProof_ValidateBasic__if_len_sp_LeafHash_ne_Size x1 = (go_neqb x1 32)) /\
  lib_merkle__SimpleProof_ValidateBasic__if_len_sp_LeafHash_ne_Size_atoms = ["len(sp.LeafHash) : int"]%string /\
  (forall x1, lib_merkle__SimpleProof_ValidateBasic__if_len_auntHash_ne_Size x1 = (go_neqb x1 32)) /\
  lib_merkle__SimpleProof_ValidateBasic__if_len_auntHash_ne_Size_atoms = ["len(auntHash) : int"]%string.
Lemma pins_lib_merkle__SimpleProof_ValidateBasic_ok : pins_lib_merkle__SimpleProof_ValidateBasic. Proof. unfold pins_lib_merkle__SimpleProof_ValidateBasic, pinned1. repeat split. Qed.

Definition pins_lib_common__BitArray_copy : Prop :=
  lib_common__BitArray_copy__bind_c_atoms = ["make([]uint64, len(bA.Elems))"]%string.
Lemma pins_lib_common__BitArray_copy_ok : pins_lib_common__BitArray_copy. Proof. unfold pins_lib_common__BitArray_copy, pinned1. repeat split. Qed.

Definition pins_all : Prop :=
  pins_consensus__MsgFromProto /\
  pins_consensus__ConsensusManager_Receive /\
  pins_consensus__NewRoundStepMessage_ValidateBasic /\
  pins_consensus__NewRoundStepMessage_ValidateHeight /\
  pins_consensus__NewValidBlockMessage_ValidateBasic /\
  pins_consensus__ProposalPOLMessage_ValidateBasic /\
  pins_consensus__BlockPartMessage_ValidateBasic /\
  pins_consensus__HasVoteMessage_ValidateBasic /\
  pins_consensus__VoteSetMaj23Message_ValidateBasic /\
  pins_consensus__VoteSetBitsMessage_ValidateBasic /\
  pins_consensus__PeerState_SetHasProposal /\
  pins_consensus__PeerState_SetHasProposalBlockPart /\
  pins_consensus__PeerState_PickVoteToSend /\
  pins_consensus__PeerState_ApplyNewValidBlockMessage /\
  pins_consensus__PeerState_getVoteBitArray /\
  pins_consensus__PeerState_ensureCatchupCommitRound /\
  pins_consensus__PeerState_ensureVoteBitArrays /\
  pins_consensus__PeerState_setHasVote /\
  pins_consensus__PeerState_ApplyNewRoundStepMessage /\
  pins_consensus__PeerState_ApplyHasVoteMessage /\
  pins_consensus__PeerState_ApplyVoteSetBitsMessage /\
  pins_consensus__PeerState_ApplyProposalPOLMessage /\
  pins_consensus__CompareHRS /\
  pins_consensus_types__NewHeightVoteSet /\
  pins_consensus_types__HeightVoteSet_addRound /\
  pins_consensus_types__HeightVoteSet_SetRound /\
  pins_consensus_types__HeightVoteSet_AddVote /\
  pins_consensus_types__HeightVoteSet_getVoteSet /\
  pins_consensus_types__RoundStepType_IsValid /\
  pins_lib_common__NewBitArray /\
  pins_lib_common__BitArray_Size /\
  pins_lib_common__BitArray_getIndex /\
  pins_lib_common__BitArray_setIndex /\
  pins_lib_common__BitArray_copyBits /\
  pins_lib_common__BitArray_Or /\
  pins_lib_common__BitArray_and /\
  pins_lib_common__BitArray_And /\
  pins_lib_common__BitArray_Not /\
  pins_lib_common__BitArray_Sub /\
  pins_lib_common__BitArray_Update /\
  pins_lib_common__BitArray_PickRandom /\
  pins_lib_common__BitArray_ValidateBasic /\
  pins_lib_common__BitArray_FromProto /\
  pins_types__Part_ValidateBasic /\
  pins_types__PartSetHeader_ValidateBasic /\
  pins_types__PartSet_AddPart /\
  pins_types__PartSet_AddPart__if_part_Proof_Verify_ps_Hash /\
  pins_types__Vote_ValidateBasic /\
  pins_types__Proposal_ValidateBasic /\
  pins_types__BlockID_ValidateBasic /\
  pins_types__BlockID_IsZero /\
  pins_types__BlockID_IsComplete /\
  pins_types__PartSetHeader_IsZero /\
  pins_types__IsVoteTypeValid /\
  pins_blockchain__ValidateMsg /\
  pins_blockchain__BlockchainReactor_Receive /\
  pins_mainchain_tx_pool__decodeMsg /\
  pins_mainchain_tx_pool__Reactor_Receive /\
  pins_mainchain_tx_pool__Reactor_RemovePeer /\
  pins_mainchain_tx_pool__Reactor_fetchTx /\
  pins_mainchain_fetcher__TxFetcher_Notify /\
  pins_mainchain_fetcher__TxFetcher_Enqueue /\
  pins_mainchain_fetcher__TxFetcher_loop /\
  pins_mainchain_fetcher__TxFetcher_loop__if_time_Duration_f_clock_Now_minus_instance_plus_txGatherSlack /\
  pins_mainchain_fetcher__TxFetcher_loop__if_time_Duration_f_clock_Now_minus_req_time_plus_txGatherSlack /\
  pins_mainchain_fetcher__TxFetcher_rescheduleWait /\
  pins_mainchain_fetcher__TxFetcher_rescheduleTimeout /\
  pins_mainchain_fetcher__TxFetcher_scheduleFetches /\
  pins_types_evidence__Reactor_Receive /\
  pins_types_evidence__decodeMsg /\
  pins_lib_p2p_pex__Reactor_Receive /\
  pins_lib_p2p_pex__Reactor_ReceiveAddrs /\
  pins_lib_p2p_pex__Reactor_receiveRequest /\
  pins_lib_p2p_pex__Reactor_RequestAddrs /\
  pins_lib_p2p__NetAddressFromProto /\
  pins_lib_p2p__NetAddressesFromProto /\
  pins_lib_p2p_conn__Channel_recvPacketMsg /\
  pins_lib_p2p_conn__MConnection_recvRoutine /\
  pins_lib_crypto__SigToPub /\
  pins_lib_merkle__SimpleProof_ValidateBasic /\
  pins_lib_common__BitArray_copy.
Lemma pins_all_ok : pins_all.
Proof.
  unfold pins_all. repeat (split; [first [exact pins_consensus__MsgFromProto_ok | exact pins_consensus__ConsensusManager_Receive_ok | exact pins_consensus__NewRoundStepMessage_ValidateBasic_ok | exact pins_consensus__NewRoundStepMessage_ValidateHeight_ok | exact pins_consensus__NewValidBlockMessage_ValidateBasic_ok | exact pins_consensus__ProposalPOLMessage_ValidateBasic_ok | exact pins_consensus__BlockPartMessage_ValidateBasic_ok | exact pins_consensus__HasVoteMessage_ValidateBasic_ok | exact pins_consensus__VoteSetMaj23Message_ValidateBasic_ok | exact pins_consensus__VoteSetBitsMessage_ValidateBasic_ok | exact pins_consensus__PeerState_SetHasProposal_ok | exact pins_consensus__PeerState_SetHasProposalBlockPart_ok | exact pins_consensus__PeerState_PickVoteToSend_ok | exact pins_consensus__PeerState_ApplyNewValidBlockMessage_ok | exact pins_consensus__PeerState_getVoteBitArray_ok | exact pins_consensus__PeerState_ensureCatchupCommitRound_ok | exact pins_consensus__PeerState_ensureVoteBitArrays_ok | exact pins_consensus__PeerState_setHasVote_ok | exact pins_consensus__PeerState_ApplyNewRoundStepMessage_ok | exact pins_consensus__PeerState_ApplyHasVoteMessage_ok | exact pins_consensus__PeerState_ApplyVoteSetBitsMessage_ok | exact pins_consensus__PeerState_ApplyProposalPOLMessage_ok | exact pins_consensus__CompareHRS_ok | exact pins_consensus_types__NewHeightVoteSet_ok | exact pins_consensus_types__HeightVoteSet_addRound_ok | exact pins_consensus_types__HeightVoteSet_SetRound_ok | exact pins_consensus_types__HeightVoteSet_AddVote_ok | exact pins_consensus_types__HeightVoteSet_getVoteSet_ok | exact pins_consensus_types__RoundStepType_IsValid_ok | exact pins_lib_common__NewBitArray_ok | exact pins_lib_common__BitArray_Size_ok | exact pins_lib_common__BitArray_getIndex_ok | exact pins_lib_common__BitArray_setIndex_ok | exact pins_lib_common__BitArray_copyBits_ok | exact pins_lib_common__BitArray_Or_ok | exact pins_lib_common__BitArray_and_ok | exact pins_lib_common__BitArray_And_ok | exact pins_lib_common__BitArray_Not_ok | exact pins_lib_common__BitArray_Sub_ok | exact pins_lib_common__BitArray_Update_ok | exact pins_lib_common__BitArray_PickRandom_ok | exact pins_lib_common__BitArray_ValidateBasic_ok | exact pins_lib_common__BitArray_FromProto_ok | exact pins_types__Part_ValidateBasic_ok | exact pins_types__PartSetHeader_ValidateBasic_ok | exact pins_types__PartSet_AddPart_ok | exact pins_types__PartSet_AddPart__if_part_Proof_Verify_ps_Hash_ok | exact pins_types__Vote_ValidateBasic_ok | exact pins_types__Proposal_ValidateBasic_ok | exact pins_types__BlockID_ValidateBasic_ok | exact pins_types__BlockID_IsZero_ok | exact pins_types__BlockID_IsComplete_ok | exact pins_types__PartSetHeader_IsZero_ok | exact pins_types__IsVoteTypeValid_ok | exact pins_blockchain__ValidateMsg_ok | exact pins_blockchain__BlockchainReactor_Receive_ok | exact pins_mainchain_tx_pool__decodeMsg_ok | exact pins_mainchain_tx_pool__Reactor_Receive_ok | exact pins_mainchain_tx_pool__Reactor_RemovePeer_ok | exact pins_mainchain_tx_pool__Reactor_fetchTx_ok | exact pins_mainchain_fetcher__TxFetcher_Notify_ok | exact pins_mainchain_fetcher__TxFetcher_Enqueue_ok | exact pins_mainchain_fetcher__TxFetcher_loop_ok | exact pins_mainchain_fetcher__TxFetcher_loop__if_time_Duration_f_clock_Now_minus_instance_plus_txGatherSlack_ok | exact pins_mainchain_fetcher__TxFetcher_loop__if_time_Duration_f_clock_Now_minus_req_time_plus_txGatherSlack_ok | exact pins_mainchain_fetcher__TxFetcher_rescheduleWait_ok | exact pins_mainchain_fetcher__TxFetcher_rescheduleTimeout_ok | exact pins_mainchain_fetcher__TxFetcher_scheduleFetches_ok | exact pins_types_evidence__Reactor_Receive_ok | exact pins_types_evidence__decodeMsg_ok | exact pins_lib_p2p_pex__Reactor_Receive_ok | exact pins_lib_p2p_pex__Reactor_ReceiveAddrs_ok | exact pins_lib_p2p_pex__Reactor_receiveRequest_ok | exact pins_lib_p2p_pex__Reactor_RequestAddrs_ok | exact pins_lib_p2p__NetAddressFromProto_ok | exact pins_lib_p2p__NetAddressesFromProto_ok | exact pins_lib_p2p_conn__Channel_recvPacketMsg_ok | exact pins_lib_p2p_conn__MConnection_recvRoutine_ok | exact pins_lib_crypto__SigToPub_ok | exact pins_lib_merkle__SimpleProof_ValidateBasic_ok | exact pins_lib_common__BitArray_copy_ok]|]); exact pins_lib_common__BitArray_copy_ok.
Qed.

(** * the whole tie, as one statement (quoted by Properties.v) *)
Definition C18_source_tie_statement : Prop :=
  (consensus__StateChannel = chan_state /\ consensus__DataChannel = chan_data /\ consensus__VoteChannel = chan_vote /\
   consensus__VoteSetBitsChannel = chan_vsb /\ consensus__maxMsgSize = max_msg_size /\
   types__MaxBlockPartsCount = max_block_parts_count /\ types__MaxVotesCount = max_votes_count /\
   types__BlockPartSizeBytes = block_part_size_bytes /\ lib_merkle__Size = merkle_size /\
   mainchain_fetcher__maxTxAnnounces = max_tx_announces /\ mainchain_fetcher__maxTxRetrievals = max_tx_retrievals /\
   mainchain_fetcher__txArriveTimeout = tx_arrive_timeout_ms * 1000000 /\ mainchain_fetcher__txGatherSlack = tx_gather_slack_ms * 1000000)
  (* validators *)
  /\ (forall s, 0 <= s < 256 -> ((step_min <=? s) && (s <=? step_max))%bool = consensus_types__RoundStepType_IsValid__ret_uint32_rs_ge_0x01_and_uint32_rs_le_0x08 s)
  /\ (forall h lcr ih, nrs_height_ok h lcr ih =
        if consensus__NewRoundStepMessage_ValidateHeight__if_m_Height_lt_initialHeight h ih then false
        else if consensus__NewRoundStepMessage_ValidateHeight__if_m_Height_eq_initialHeight_and_m_LastCommitRound_ne_0 h ih lcr then false
        else if consensus__NewRoundStepMessage_ValidateHeight__if_m_Height_gt_initialHeight_and_m_LastCommitRound_eq_0 h ih lcr then false else true)
  /\ (forall size total, u32 total ->
        (size =? 0) = consensus__NewValidBlockMessage_ValidateBasic__if_m_BlockParts_Size_eq_0 size /\
        negb (size =? total) = consensus__NewValidBlockMessage_ValidateBasic__if_m_BlockParts_Size_ne_int_m_BlockPartsHeader_Total size total /\
        (max_block_parts_count <? size) = consensus__NewValidBlockMessage_ValidateBasic__if_m_BlockParts_Size_gt_types_MaxBlockPartsCount size)
  /\ (forall size, (max_votes_count <? size) = consensus__ProposalPOLMessage_ValidateBasic__if_m_ProposalPOL_Size_gt_types_MaxVotesCount size)
  /\ (forall size, (max_votes_count <? size) = consensus__VoteSetBitsMessage_ValidateBasic__if_m_Votes_Size_gt_types_MaxVotesCount size)
  /\ (forall t, type_valid t = (types__IsVoteTypeValid__case_t_eq_kproto_PrevoteType t || types__IsVoteTypeValid__case_t_eq_kproto_PrecommitType t)%bool)
  /\ (forall b, bid_complete b = types__BlockID_IsComplete__ret_not_blockID_Hash_IsZero_and_not_blockID_PartsHeader_IsZero (b_hash_zero b) (psh_zero b))
  /\ (forall total siglen,
        (max_block_parts_count <? total) = types__Proposal_ValidateBasic__if_p_POLBlockID_PartsHeader_Total_gt_MaxBlockPartsCount total /\
        (siglen =? 0) = types__Proposal_ValidateBasic__if_len_p_Signature_eq_0 siglen)
  /\ (forall byteslen leaflen,
        (block_part_size_bytes <? byteslen) = types__Part_ValidateBasic__if_len_part_Bytes_gt_BlockPartSizeBytes byteslen /\
        negb (leaflen =? merkle_size) = lib_merkle__SimpleProof_ValidateBasic__if_len_sp_LeafHash_ne_Size leaflen)
  (* peer state *)
  /\ (forall p h r t, u64 h -> get_slot p h r t =
        if consensus__PeerState_getVoteBitArray__if_not_types_IsVoteTypeValid_signedMsgType (type_valid t) then None
        else if consensus__PeerState_getVoteBitArray__if_ps_PRS_Height_eq_height (p_height p) h then
          if consensus__PeerState_getVoteBitArray__if_ps_PRS_Round_eq_round (p_round p) r then
            (if consensus__PeerState_getVoteBitArray__case_signedMsgType_eq_kproto_PrevoteType t then Some SPrevotes else Some SPrecommits)
          else if consensus__PeerState_getVoteBitArray__if_ps_PRS_CatchupCommitRound_eq_round (p_ccr p) r then
            (if consensus__PeerState_getVoteBitArray__case_signedMsgType_eq_kproto_PrevoteType_2 t then None else Some SCatchup)
          else if consensus__PeerState_getVoteBitArray__if_ps_PRS_ProposalPOLRound_eq_round (p_polround p) r then
            (if consensus__PeerState_getVoteBitArray__case_signedMsgType_eq_kproto_PrevoteType_3 t then Some SPOL else None)
          else None
        else if consensus__PeerState_getVoteBitArray__if_ps_PRS_Height_eq_height_plus_1 (p_height p) h then
          if consensus__PeerState_getVoteBitArray__if_ps_PRS_LastCommitRound_eq_round (p_lcr p) r then
            (if consensus__PeerState_getVoteBitArray__case_signedMsgType_eq_kproto_PrevoteType_4 t then None else Some SLast)
          else None
        else None)
  /\ (forall h1 r1 s1 h2 r2 s2, compare_hrs h1 r1 s1 h2 r2 s2 =
        if consensus__CompareHRS__if_h1_lt_h2 h1 h2 then -1 else if consensus__CompareHRS__if_h1_gt_h2 h1 h2 then 1
        else if consensus__CompareHRS__if_r1_lt_r2 r1 r2 then -1 else if consensus__CompareHRS__if_r1_gt_r2 r1 r2 then 1
        else if consensus__CompareHRS__if_s1_lt_s2 s1 s2 then -1 else if consensus__CompareHRS__if_s1_gt_s2 s1 s2 then 1 else 0)
  /\ (forall p h r, (negb (p_height p =? h) || negb (p_round p =? r))%bool =
        consensus__PeerState_SetHasProposal__if_ps_PRS_Height_ne_proposal_Height_or_ps_PRS_Round_ne_proposal_Round (p_height p) h (p_round p) r)
  (* vote-set rounds *)
  /\ (forall h, (hv_round h - 1) mod two32 = consensus_types__HeightVoteSet_SetRound__set_newRound (hv_round h))
  /\ (forall h round, (negb (hv_round h =? 1) && (round <? (hv_round h - 1) mod two32))%bool =
        consensus_types__HeightVoteSet_SetRound__if_hvs_round_ne_1_and_round_lt_newRound (hv_round h) round
          (consensus_types__HeightVoteSet_SetRound__set_newRound (hv_round h)))
  /\ (forall nr, consensus_types__HeightVoteSet_SetRound__forinit_r nr = nr)
  /\ (forall nr round k, u32 nr -> 0 <= round < two32 - 1 -> 0 <= k ->
        consensus_types__HeightVoteSet_SetRound__for_r_le_round (nr + k) round = (k <? round - nr + 1))
  /\ (pinned1 consensus_types__HeightVoteSet_SetRound__if_ok consensus_types__HeightVoteSet_SetRound__if_ok_atoms true "ok : bool" /\
      pinned1 consensus_types__HeightVoteSet_addRound__if_ok consensus_types__HeightVoteSet_addRound__if_ok_atoms true "ok : bool")
  /\ (forall rndz : list Z, (len rndz <? 2) = consensus_types__HeightVoteSet_AddVote__if_len_rndz_lt_2 (len rndz))
  (* bit arrays *)
  /\ (forall bits, i63 bits -> words_for bits = lib_common__NewBitArray__arg_bits_plus_63_div_64 bits)
  /\ (forall b i, u64 (ba_bits b) -> (as_int (ba_bits b) <=? i) = lib_common__BitArray_setIndex__if_i_ge_int_bA_Bits i (ba_bits b))
  /\ (forall b, u64 (ba_bits b) -> ba_bits b <= max_int32 ->
        ba_valid b = (negb (lib_common__BitArray_ValidateBasic__if_bA_Bits_gt_math_MaxInt32 (ba_bits b)) &&
                      negb (lib_common__BitArray_ValidateBasic__if_len_bA_Elems_ne_expected (len (ba_elems b))
                              (lib_common__BitArray_ValidateBasic__set_expected (ba_bits b))))%bool)
  (* block sync, tx pool *)
  /\ (forall base h, bc_valid (BStatusResp base h) = negb (blockchain__ValidateMsg__if_msg_Base_gt_msg_Height base h) /\
                     bc_valid (BBlockReq h) = negb (blockchain__ValidateMsg__if_msg_Height_lt_1 h))
  /\ (forall n, (n =? 0) = mainchain_tx_pool__decodeMsg__if_len_txs_eq_0 n)
  (* fetcher *)
  /\ (forall used n, (max_tx_announces <=? used) = mainchain_fetcher__TxFetcher_loop__if_used_ge_maxTxAnnounces used /\
                     (max_tx_announces <? used + n) = mainchain_fetcher__TxFetcher_loop__if_want_gt_maxTxAnnounces (used + n))
  /\ (forall now inst, tms now -> tms inst -> (arrive_timeout <? (now - inst) + gather_slack) =
        mainchain_fetcher__TxFetcher_loop__if_time_Duration_f_clock_Now_minus_instance_plus_txGatherSlack__ad1ffaf4 (ms now) (ms inst))
  /\ (forall now t, tms now -> tms t -> (fetch_timeout <? (now - t) + gather_slack) =
        mainchain_fetcher__TxFetcher_loop__if_time_Duration_f_clock_Now_minus_req_time_plus_txGatherSlack__0c5cb80d (ms now) (ms t) (ms tx_fetch_timeout_ms))
  /\ (forall hs : list Z, (max_tx_retrievals <=? zlen hs) = mainchain_fetcher__TxFetcher_scheduleFetches__if_len_hashes_ge_maxTxRetrievals (zlen hs))
  /\ (forall a : list Z, (match a with [] => true | _ => false end) = mainchain_fetcher__TxFetcher_loop__if_len_f_alternates_at_hash_eq_0 (zlen a))
  /\ pinned1 mainchain_fetcher__TxFetcher_loop__if_alts_ne_nil mainchain_fetcher__TxFetcher_loop__if_alts_ne_nil_atoms true "alts != nil : untyped bool"
  (* addresses, framing *)
  /\ (forall p, port_ok p = negb (lib_p2p__NetAddressFromProto__if_pb_Port_ge_1_shl_16 p))
  /\ (forall cap cur dl, 0 <= cur < 4294967296 -> 0 <= dl < 4294967296 ->
        (cap <? cur + dl) = lib_p2p_conn__Channel_recvPacketMsg__if_recvCap_lt_recvReceived cap (lib_p2p_conn__Channel_recvPacketMsg__set_recvReceived cur dl))
  (* everything else, by shape and operands *)
  /\ pins_all.

Lemma C18_source_tie_proof : C18_source_tie_statement.
Proof.
  unfold C18_source_tie_statement.
  split; [repeat split; reflexivity|].
  split; [exact src_step_valid|]. split; [exact src_nrs_height|]. split; [exact src_nvb_validate|].
  split; [intros size; exact (proj2 (src_pol_validate size))|]. split; [exact src_vsb_validate|].
  split; [exact src_type_valid|]. split; [intros b; exact (proj2 (proj2 (src_blockid b)))|].
  split; [exact src_proposal_validate|]. split; [exact src_part_validate|].
  split; [exact src_get_slot|]. split; [exact src_compare_hrs|]. split; [exact src_set_has_proposal|].
  split; [exact src_set_round_new|]. split; [exact src_set_round_guard|]. split; [exact src_set_round_init|].
  split; [exact src_set_round_count|].
  split; [split; [exact (proj1 src_set_round_skip)|exact (proj1 (proj2 src_set_round_skip))]|].
  split; [intros rndz; exact (proj1 (src_catchup_limit rndz))|].
  split; [intros bits H; exact (proj1 (src_words_for bits H))|].
  split; [intros b i H; exact (proj2 (src_index_guard b i H))|].
  split; [exact src_ba_valid|].
  split; [intros base h; split; [exact (proj1 (src_bc_valid base h))|exact (proj1 (proj2 (src_bc_valid base h)))]|].
  split; [intros n; exact (proj1 (src_tx_empty n))|].
  split; [exact src_announce_cap|]. split; [exact src_wait_expiry|]. split; [exact src_fetch_expiry|].
  split; [exact src_retrievals|]. split; [exact src_drop_branch_model|].
  split; [exact (proj1 (proj2 (proj2 src_drop_branch)))|].
  split; [exact src_port_ok|]. split; [exact src_recv_capacity|]. exact pins_all_ok.
Qed.
