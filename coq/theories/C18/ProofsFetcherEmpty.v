(** C18 proofs, part 6: when every peer has been dropped, every tracker of the fetcher is empty
    (nothing a peer has sent outlives its connection).  Stated for any state in which the indexes
    agree ([GOOD]: the propositional form of [fetcher_ok]'s index part, with IC and IA) and for any
    list of drops that covers every peer that occurs in the state. *)
From Coq Require Import List ZArith Bool Lia.
From Kardia Require Import C18.ModelFetcher C18.ProofsFetcher C18.ProofsFetcherDrop Generated.C18Facts.
Import ListNotations.
Local Open Scope Z_scope.

(** ** the remaining index facts *)
Definition W1 (s : Fetcher) : Prop :=
  forall h ps p, zm_get h (f_waitlist s) = Some ps -> In p ps -> exists hs, zm_get p (f_waitslots s) = Some hs /\ In h hs.
Definition NW (s : Fetcher) : Prop := forall h, zm_get h (f_waitlist s) <> Some [].
Definition NA (s : Fetcher) : Prop := forall h, zm_get h (f_announced s) <> Some [].
Definition FW (s : Fetcher) : Prop := forall h, zm_has h (f_waittime s) = true -> zm_has h (f_waitlist s) = true.

Record GOOD (s : Fetcher) : Prop := {
  g_ic : IC s; g_ia : IA s; g_r1 : R1 s; g_r2 : R2 s; g_w1 : W1 s; g_nw : NW s; g_na : NA s; g_fw : FW s }.

(** [p] occurs nowhere *)
Record clean (p : Z) (s : Fetcher) : Prop := {
  c_orig : origin_free p s;
  c_wl : forall h ps, zm_get h (f_waitlist s) = Some ps -> ~ In p ps;
  c_ws : zm_get p (f_waitslots s) = None;
  c_an : zm_get p (f_announces s) = None;
  c_rq : zm_get p (f_requests s) = None;
  c_fe : no_fetch_from p s }.

Definition all_empty (s : Fetcher) : Prop :=
  f_waitlist s = [] /\ f_waittime s = [] /\ f_waitslots s = [] /\ f_announces s = [] /\ f_announced s = [] /\
  f_fetching s = [] /\ f_requests s = [] /\ f_alternates s = [].

Lemma zm_get_head : forall {V} k (v : V) t, zm_get k ((k, v) :: t) = Some v.
Proof. intros. cbn [zm_get]. now rewrite Z.eqb_refl. Qed.

Lemma clean_all_empty : forall s, IC s -> NW s -> NA s -> FW s -> (forall p, clean p s) -> all_empty s.
Proof.
  intros s Hic Hnw Hna Hfw Hc.
  assert (Ews : f_waitslots s = []).
  { destruct (f_waitslots s) as [|[p hs] t] eqn:E; [reflexivity|]. pose proof (c_ws p s (Hc p)) as X. rewrite E, zm_get_head in X. discriminate. }
  assert (Ean : f_announces s = []).
  { destruct (f_announces s) as [|[p hs] t] eqn:E; [reflexivity|]. pose proof (c_an p s (Hc p)) as X. rewrite E, zm_get_head in X. discriminate. }
  assert (Erq : f_requests s = []).
  { destruct (f_requests s) as [|[p rq] t] eqn:E; [reflexivity|]. pose proof (c_rq p s (Hc p)) as X. rewrite E, zm_get_head in X. discriminate. }
  assert (Efe : f_fetching s = []).
  { destruct (f_fetching s) as [|[h p] t] eqn:E; [reflexivity|]. exfalso. apply (c_fe p s (Hc p) h). rewrite E. apply zm_get_head. }
  assert (Ewl : f_waitlist s = []).
  { destruct (f_waitlist s) as [|[h ps] t] eqn:E; [reflexivity|]. exfalso.
    assert (X : zm_get h (f_waitlist s) = Some ps) by (rewrite E; apply zm_get_head).
    destruct ps as [|q ps']; [exact (Hnw h X)|]. apply (c_wl q s (Hc q) h _ X). left. reflexivity. }
  assert (Ead : f_announced s = []).
  { destruct (f_announced s) as [|[h ps] t] eqn:E; [reflexivity|]. exfalso.
    assert (X : zm_get h (f_announced s) = Some ps) by (rewrite E; apply zm_get_head).
    destruct ps as [|q ps']; [exact (Hna h X)|]. destruct (c_orig q s (Hc q)) as [O1 _]. exact (O1 h _ X (or_introl eq_refl)). }
  assert (Eal : f_alternates s = []).
  { destruct (f_alternates s) as [|[h ps] t] eqn:E; [reflexivity|]. exfalso.
    assert (X : zm_has h (f_alternates s) = true) by (unfold zm_has; rewrite E, zm_get_head; reflexivity).
    rewrite (Hic h), Efe in X. discriminate. }
  assert (Ewt : f_waittime s = []).
  { destruct (f_waittime s) as [|[h t0] t] eqn:E; [reflexivity|]. exfalso.
    assert (X : zm_has h (f_waittime s) = true) by (unfold zm_has; rewrite E, zm_get_head; reflexivity).
    apply Hfw in X. rewrite Ewl in X. discriminate. }
  repeat split; assumption.
Qed.

(** ** phase 1 of the drop handler: the wait tables *)

Record ph1 (p : Z) (s : Fetcher) (done : list Z) (s0 : Fetcher) : Prop := {
  p1_sub : forall h ps q, zm_get h (f_waitlist s0) = Some ps -> In q ps ->
             exists ps0, zm_get h (f_waitlist s) = Some ps0 /\ In q ps0;
  p1_done : forall h ps, zm_get h (f_waitlist s0) = Some ps -> In h done -> ~ In p ps;
  p1_nw : NW s0; p1_fw : FW s0;
  p1_ws : f_waitslots s0 = f_waitslots s;
  p1_rest : f_announces s0 = f_announces s /\ f_announced s0 = f_announced s /\ f_fetching s0 = f_fetching s /\
            f_requests s0 = f_requests s /\ f_alternates s0 = f_alternates s }.

Lemma drop_wait_hash_ph1 : forall p s done s0 x, ph1 p s done s0 -> ph1 p s (x :: done) (drop_wait_hash p s0 x).
Proof.
  intros p s done s0 x H. unfold drop_wait_hash.
  destruct (zm_get x (f_waitlist s0)) as [ps|] eqn:Ex.
  - destruct (zs_del p ps) as [|a l] eqn:Ed.
    + constructor; fsimp.
      * intros h qs q E Hin. destruct (Z.eq_dec x h) as [<-|Hne]; [rewrite zm_get_del_eq in E; discriminate|].
        rewrite zm_get_del_ne in E by assumption. eapply p1_sub; eassumption.
      * intros h qs E [<-|Hd]; [rewrite zm_get_del_eq in E; discriminate|].
        destruct (Z.eq_dec x h) as [<-|Hne]; [rewrite zm_get_del_eq in E; discriminate|].
        rewrite zm_get_del_ne in E by assumption. eapply p1_done; eassumption.
      * unfold NW, FW; fsimp; intros h E. destruct (Z.eq_dec x h) as [<-|Hne]; [rewrite zm_get_del_eq in E; discriminate|].
        rewrite zm_get_del_ne in E by assumption. exact (p1_nw _ _ _ _ H h E).
      * unfold NW, FW; fsimp; intros h E. destruct (Z.eq_dec x h) as [<-|Hne]; [rewrite zm_has_del_eq in E; discriminate|].
        rewrite zm_has_del_ne in E by assumption. rewrite zm_has_del_ne by assumption. exact (p1_fw _ _ _ _ H h E).
      * exact (p1_ws _ _ _ _ H).
      * exact (p1_rest _ _ _ _ H).
    + constructor; fsimp.
      * intros h qs q E Hin. destruct (Z.eq_dec x h) as [<-|Hne].
        -- rewrite zm_get_set_eq in E. inversion E; subst qs. rewrite <- Ed in Hin. apply In_zs_del in Hin.
           eapply p1_sub; [eassumption|exact Ex|exact (proj1 Hin)].
        -- rewrite zm_get_set_ne in E by assumption. eapply p1_sub; eassumption.
      * intros h qs E Hd. destruct (Z.eq_dec x h) as [<-|Hne].
        -- rewrite zm_get_set_eq in E. inversion E; subst qs. rewrite <- Ed. intros X. apply In_zs_del in X. destruct X as [_ X]. contradiction.
        -- rewrite zm_get_set_ne in E by assumption. destruct Hd as [->|Hd]; [contradiction|]. eapply p1_done; eassumption.
      * unfold NW, FW; fsimp; intros h E. destruct (Z.eq_dec x h) as [<-|Hne]; [rewrite zm_get_set_eq in E; discriminate|].
        rewrite zm_get_set_ne in E by assumption. exact (p1_nw _ _ _ _ H h E).
      * unfold NW, FW; fsimp; intros h E. destruct (Z.eq_dec x h) as [<-|Hne]; [apply zm_has_set_eq|].
        rewrite zm_has_set_ne by assumption. exact (p1_fw _ _ _ _ H h E).
      * exact (p1_ws _ _ _ _ H).
      * exact (p1_rest _ _ _ _ H).
  - constructor; fsimp.
    + exact (p1_sub _ _ _ _ H).
    + intros h qs E [<-|Hd]; [congruence|]. eapply p1_done; eassumption.
    + exact (p1_nw _ _ _ _ H).
    + unfold NW, FW; fsimp; intros h E. destruct (Z.eq_dec x h) as [<-|Hne]; [rewrite zm_has_del_eq in E; discriminate|].
      rewrite zm_has_del_ne in E by assumption. exact (p1_fw _ _ _ _ H h E).
    + exact (p1_ws _ _ _ _ H).
    + exact (p1_rest _ _ _ _ H).
Qed.

Lemma fold_drop_wait_ph1 : forall p s l done s0, ph1 p s done s0 -> ph1 p s (rev l ++ done) (fold_left (drop_wait_hash p) l s0).
Proof.
  induction l as [|x t IH]; intros done s0 H; cbn [fold_left rev app]; [exact H|].
  rewrite <- app_assoc. cbn [app]. apply IH. apply drop_wait_hash_ph1. exact H.
Qed.

(** the state after phase 1 *)
Definition phase1 (p : Z) (s : Fetcher) : Fetcher :=
  match zm_get p (f_waitslots s) with
  | Some hs =>
    let a := fold_left (drop_wait_hash p) hs s in
    let b := w_waitslots (zm_del p (f_waitslots a)) a in
    if negb (is_nil (f_waitlist b)) then reschedule_wait b else b
  | None => s
  end.

Record ph1_done (p : Z) (s s1 : Fetcher) : Prop := {
  d1_sub : forall h ps q, zm_get h (f_waitlist s1) = Some ps -> In q ps ->
             exists ps0, zm_get h (f_waitlist s) = Some ps0 /\ In q ps0;
  d1_free : forall h ps, zm_get h (f_waitlist s1) = Some ps -> ~ In p ps;
  d1_nw : NW s1; d1_fw : FW s1;
  d1_ws : forall q, zm_get q (f_waitslots s1) = if p =? q then None else zm_get q (f_waitslots s);
  d1_rest : f_announces s1 = f_announces s /\ f_announced s1 = f_announced s /\ f_fetching s1 = f_fetching s /\
            f_requests s1 = f_requests s /\ f_alternates s1 = f_alternates s }.

Lemma phase1_done : forall p s, W1 s -> NW s -> FW s -> ph1_done p s (phase1 p s).
Proof.
  intros p s Hw Hnw Hfw. unfold phase1.
  destruct (zm_get p (f_waitslots s)) as [hs|] eqn:Ep.
  - cbv zeta.
    assert (H0 : ph1 p s [] s).
    { constructor; [intros h ps q E Hin; eauto|intros h ps E []|exact Hnw|exact Hfw|reflexivity|repeat split; reflexivity]. }
    pose proof (fold_drop_wait_ph1 p s hs [] s H0) as H. rewrite app_nil_r in H.
    set (a := fold_left (drop_wait_hash p) hs s) in *.
    assert (D : ph1_done p s (w_waitslots (zm_del p (f_waitslots a)) a)).
    { constructor; fsimp.
      - exact (p1_sub _ _ _ _ H).
      - intros h ps E Hin. destruct (p1_sub _ _ _ _ H h ps p E Hin) as [ps0 [E0 Hin0]].
        destruct (Hw h ps0 p E0 Hin0) as [hs' [E1 Hin1]]. rewrite Ep in E1. inversion E1; subst hs'.
        apply (p1_done _ _ _ _ H h ps E); [|exact Hin]. apply in_rev in Hin1. exact Hin1.
      - exact (p1_nw _ _ _ _ H).
      - exact (p1_fw _ _ _ _ H).
      - intros q. rewrite (p1_ws _ _ _ _ H). destruct (p =? q) eqn:E; [apply Z.eqb_eq in E; subst; apply zm_get_del_eq|apply Z.eqb_neq in E; now apply zm_get_del_ne].
      - exact (p1_rest _ _ _ _ H). }
    destruct (negb _); [|exact D].
    destruct D as [A B C DD E F]. constructor; fsimp; assumption.
  - constructor.
    + intros h ps q E Hin. eauto.
    + intros h ps E Hin. destruct (Hw h ps p E Hin) as [hs' [E1 _]]. congruence.
    + exact Hnw.
    + exact Hfw.
    + intros q. destruct (p =? q) eqn:E; [apply Z.eqb_eq in E; subst; exact Ep|reflexivity].
    + repeat split; reflexivity.
Qed.

(** ** phases 2 and 3, and the rescheduling: origins only move between the queued and the alternate
    sets of the same hash, or disappear *)

Definition sub_orig (s s' : Fetcher) : Prop :=
  forall h ps q, (zm_get h (f_announced s') = Some ps \/ zm_get h (f_alternates s') = Some ps) -> In q ps ->
    exists ps0, (zm_get h (f_announced s) = Some ps0 \/ zm_get h (f_alternates s) = Some ps0) /\ In q ps0.

(** what the later phases leave alone or only shrink *)
Record later (s s' : Fetcher) : Prop := {
  l_wl : f_waitlist s' = f_waitlist s; l_wt : f_waittime s' = f_waittime s; l_ws : f_waitslots s' = f_waitslots s;
  l_sub : sub_orig s s';
  l_na : NA s -> NA s' }.

Lemma later_refl : forall s, later s s.
Proof. intros s. constructor; auto. intros h ps q E Hin. eauto. Qed.

Lemma later_trans : forall a b c, later a b -> later b c -> later a c.
Proof.
  intros a b c H1 H2. constructor.
  - rewrite (l_wl _ _ H2). apply (l_wl _ _ H1).
  - rewrite (l_wt _ _ H2). apply (l_wt _ _ H1).
  - rewrite (l_ws _ _ H2). apply (l_ws _ _ H1).
  - intros h ps q E Hin. destruct (l_sub _ _ H2 h ps q E Hin) as [ps1 [E1 Hin1]]. exact (l_sub _ _ H1 h ps1 q E1 Hin1).
  - intros X. apply (l_na _ _ H2). apply (l_na _ _ H1). exact X.
Qed.

Lemma fold_later : forall {A} (f : Fetcher -> A -> Fetcher) l s,
    (forall s x, later s (f s x)) -> later s (fold_left f l s).
Proof.
  intros A f l. induction l as [|x t IH]; intros s Hf; cbn [fold_left]; [apply later_refl|].
  eapply later_trans; [apply Hf|apply IH; exact Hf].
Qed.

Lemma drop_req_hash_later : forall p stolen s hash, later s (drop_req_hash p stolen s hash).
Proof.
  intros p stolen s hash. unfold drop_req_hash.
  destruct (zs_mem hash stolen); [apply later_refl|].
  set (s1 := w_alternates (zm_del_from hash p (f_alternates s)) s).
  assert (A1 : forall h ps, zm_get h (f_alternates s1) = Some ps ->
                 exists ps0, zm_get h (f_alternates s) = Some ps0 /\ forall q, In q ps -> In q ps0).
  { intros h ps E. unfold s1 in E. fsimp_in E. rewrite get_del_from in E. destruct (hash =? h).
    - destruct (zm_get h (f_alternates s)) as [ps0|]; [|discriminate]. cbn [option_map] in E. inversion E; subst.
      exists ps0. split; [reflexivity|]. intros q Hq. apply In_zs_del in Hq. exact (proj1 Hq).
    - exists ps. split; [exact E|auto]. }
  assert (D1 : f_announced s1 = f_announced s) by reflexivity.
  destruct (zm_get hash (f_alternates s1)) as [[|x a]|] eqn:Eh; constructor; try reflexivity.
  - intros h ps q [E|E] Hin; fsimp_in E.
    + rewrite D1 in E. eauto.
    + destruct (Z.eq_dec hash h) as [<-|Hne]; [rewrite zm_get_del_eq in E; discriminate|].
      rewrite zm_get_del_ne in E by assumption. destruct (A1 h ps E) as [ps0 [E0 Hs]]. eauto.
  - intros X h. fsimp. rewrite D1. apply X.
  - intros h ps q [E|E] Hin; fsimp_in E.
    + destruct (Z.eq_dec hash h) as [<-|Hne].
      * rewrite zm_get_set_eq in E. inversion E; subst. destruct (A1 hash _ Eh) as [ps0 [E0 Hs]]. eauto.
      * rewrite zm_get_set_ne in E by assumption. rewrite D1 in E. eauto.
    + destruct (Z.eq_dec hash h) as [<-|Hne]; [rewrite zm_get_del_eq in E; discriminate|].
      rewrite zm_get_del_ne in E by assumption. destruct (A1 h ps E) as [ps0 [E0 Hs]]. eauto.
  - intros X h. fsimp. destruct (Z.eq_dec hash h) as [<-|Hne]; [rewrite zm_get_set_eq; discriminate|].
    rewrite zm_get_set_ne by assumption. rewrite D1. apply X.
  - intros h ps q [E|E] Hin; fsimp_in E.
    + rewrite D1 in E. eauto.
    + destruct (Z.eq_dec hash h) as [<-|Hne]; [rewrite zm_get_del_eq in E; discriminate|].
      rewrite zm_get_del_ne in E by assumption. destruct (A1 h ps E) as [ps0 [E0 Hs]]. eauto.
  - intros X h. fsimp. rewrite D1. apply X.
Qed.

Lemma drop_ann_hash_later : forall p s x, later s (drop_ann_hash p s x).
Proof.
  intros p s x. unfold drop_ann_hash. constructor; try reflexivity.
  - intros h ps q [E|E] Hin; fsimp_in E.
    + apply get_del_from_norm_some in E. destruct (x =? h).
      * destruct E as [ps0 [E0 ->]]. apply In_zs_del in Hin. exists ps0. split; [left; exact E0|exact (proj1 Hin)].
      * eauto.
    + rewrite get_del_from in E. destruct (x =? h).
      * destruct (zm_get h (f_alternates s)) as [ps0|] eqn:E0; [|discriminate]. cbn [option_map] in E. inversion E; subst.
        apply In_zs_del in Hin. exists ps0. split; [right; reflexivity|exact (proj1 Hin)].
      * eauto.
  - intros X h. fsimp. unfold zm_del_from_norm. destruct (zm_get x (f_announced s)) as [ps0|] eqn:E0; [|apply X].
    destruct (zs_del p ps0) as [|a l] eqn:Ed.
    + destruct (Z.eq_dec x h) as [<-|Hne]; [rewrite zm_get_del_eq; discriminate|]. rewrite zm_get_del_ne by assumption. apply X.
    + destruct (Z.eq_dec x h) as [<-|Hne]; [rewrite zm_get_set_eq; discriminate|]. rewrite zm_get_set_ne by assumption. apply X.
Qed.

Lemma sched_hash_later : forall peer s hs hash s' hs',
    sched_hash peer (FOk s, hs) hash = (FOk s', hs') -> later s s' /\ f_announces s' = f_announces s /\ f_requests s' = f_requests s.
Proof.
  intros peer s hs hash s' hs' E. unfold sched_hash in E.
  destruct (max_tx_retrievals <=? zlen hs); [inversion E; subst; split; [apply later_refl|split; reflexivity]|].
  destruct (zm_has hash (f_fetching s)); [inversion E; subst; split; [apply later_refl|split; reflexivity]|].
  destruct (zm_has hash (f_alternates s)) eqn:Ea; [discriminate|].
  inversion E; subst. split; [|split; reflexivity]. constructor; try reflexivity.
  - intros h ps q [X|X] Hin; fsimp_in X.
    + destruct (Z.eq_dec hash h) as [<-|Hne]; [rewrite zm_get_del_eq in X; discriminate|].
      rewrite zm_get_del_ne in X by assumption. eauto.
    + destruct (Z.eq_dec hash h) as [<-|Hne].
      * rewrite zm_get_set_eq in X. inversion X; subst.
        destruct (zm_get hash (f_announced s)) as [a|] eqn:Eq; [eauto|destruct Hin].
      * rewrite zm_get_set_ne in X by assumption. eauto.
  - intros X h. fsimp. destruct (Z.eq_dec hash h) as [<-|Hne]; [rewrite zm_get_del_eq; discriminate|].
    rewrite zm_get_del_ne by assumption. apply X.
Qed.

Lemma sched_hashes_later : forall peer l s hs s' hs',
    fold_left (sched_hash peer) l (FOk s, hs) = (FOk s', hs') ->
    later s s' /\ f_announces s' = f_announces s /\ f_requests s' = f_requests s.
Proof.
  induction l as [|x t IH]; intros s hs s' hs' E; cbn [fold_left] in E.
  - inversion E; subst. split; [apply later_refl|split; reflexivity].
  - destruct (sched_hash peer (FOk s, hs) x) as [[s1|] hs1] eqn:E1.
    + destruct (sched_hash_later _ _ _ _ _ _ E1) as [L1 [A1 R1']]. destruct (IH _ _ _ _ E) as [L2 [A2 R2']].
      split; [eapply later_trans; eassumption|split; congruence].
    + rewrite fold_sched_crash in E. discriminate.
Qed.

(** a peer that announces nothing is given no request *)
Lemma sched_peer_later : forall k s peer s', sched_peer k s peer = FOk s' ->
    later s s' /\ f_announces s' = f_announces s /\
    forall q, zm_get q (f_announces s) = None -> zm_get q (f_requests s') = zm_get q (f_requests s).
Proof.
  intros k s peer s' E. unfold sched_peer in E.
  destruct (zm_has peer (f_requests s)); [inversion E; subst; split; [apply later_refl|split; auto]|].
  destruct (zm_get peer (f_announces s)) as [[|a l]|] eqn:Ea;
    [inversion E; subst; split; [apply later_refl|split; auto]| |inversion E; subst; split; [apply later_refl|split; auto]].
  destruct (fold_left (sched_hash peer) (rotate k (a :: l)) (FOk s, [])) as [[s1|] got] eqn:Ef; [|discriminate].
  destruct (sched_hashes_later _ _ _ _ _ _ Ef) as [L [A R]].
  destruct got as [|g gs]; inversion E; subst.
  - split; [exact L|split; [exact A|intros q _; now rewrite R]].
  - split; [|split; [exact A|]].
    + destruct L as [L1 L2 L3 L4 L5]. constructor; fsimp; assumption.
    + intros q Hq. fsimp. assert (Hne : peer <> q) by (intros ->; congruence).
      rewrite zm_get_set_ne by exact Hne. now rewrite R.
Qed.

Lemma ffold_sched_later : forall k l s s', ffold (sched_peer k) l s = FOk s' ->
    later s s' /\ f_announces s' = f_announces s /\
    forall q, zm_get q (f_announces s) = None -> zm_get q (f_requests s') = zm_get q (f_requests s).
Proof.
  induction l as [|x t IH]; intros s s' E; cbn [ffold] in E.
  - inversion E; subst. split; [apply later_refl|split; auto].
  - destruct (sched_peer k s x) as [s1|] eqn:E1; [|discriminate]. cbn [fbind] in E.
    destruct (sched_peer_later _ _ _ _ E1) as [L1 [A1 Q1]]. destruct (IH _ _ E) as [L2 [A2 Q2]].
    split; [eapply later_trans; eassumption|split; [congruence|]].
    intros q Hq. rewrite Q2 by (rewrite A1; exact Hq). apply Q1. exact Hq.
Qed.

Lemma schedule_later : forall w k s s', schedule_fetches w k s = FOk s' ->
    later s s' /\ f_announces s' = f_announces s /\
    forall q, zm_get q (f_announces s) = None -> zm_get q (f_requests s') = zm_get q (f_requests s).
Proof.
  intros w k s s' E. unfold schedule_fetches in E.
  destruct (match w with Some w0 => w0 | None => map fst (f_announces s) end) as [|a l];
    [inversion E; subst; split; [apply later_refl|split; auto]|].
  destruct (ffold (sched_peer k) (rotate k (a :: l)) s) as [s1|] eqn:E1; [|discriminate]. cbn [fbind] in E.
  destruct (ffold_sched_later _ _ _ _ E1) as [L [A Q]]. inversion E; subst.
  destruct (_ && _); [|split; [exact L|split; [exact A|exact Q]]].
  split; [|split; [exact A|exact Q]]. destruct L as [L1 L2 L3 L4 L5]. constructor; fsimp; assumption.
Qed.

(** ** the whole drop handler *)

Lemma drop_body_phases : forall p s,
    drop_body p s =
    let s1 := phase1 p s in
    let s2 := match zm_get p (f_requests s1) with
              | Some rq => let a := fold_left (drop_req_hash p (rq_stolen rq)) (rq_hashes rq) s1 in
                           w_requests (zm_del p (f_requests a)) a
              | None => s1
              end in
    match zm_get p (f_announces s2) with
    | Some hs => let a := fold_left (drop_ann_hash p) hs s2 in w_announces (zm_del p (f_announces a)) a
    | None => s2
    end.
Proof. reflexivity. Qed.

Lemma fold_drop_req_announces : forall p stolen l s, f_announces (fold_left (drop_req_hash p stolen) l s) = f_announces s.
Proof.
  induction l as [|x t IH]; intros s; cbn [fold_left]; [reflexivity|]. rewrite IH. unfold drop_req_hash.
  destruct (zs_mem x stolen); [reflexivity|].
  destruct (zm_get x (f_alternates (w_alternates (zm_del_from x p (f_alternates s)) s))) as [[|y a]|]; reflexivity.
Qed.

Lemma fold_drop_ann_announces : forall p l s, f_announces (fold_left (drop_ann_hash p) l s) = f_announces s.
Proof. induction l as [|x t IH]; intros s; cbn [fold_left]; [reflexivity|]. rewrite IH. reflexivity. Qed.

Lemma drop_body_later : forall p s,
    later (phase1 p s) (drop_body p s) /\
    forall q, zm_get q (f_announces (drop_body p s)) = if p =? q then None else zm_get q (f_announces (phase1 p s)).
Proof.
  intros p s. rewrite drop_body_phases. cbv zeta. set (s1 := phase1 p s).
  set (s2 := match zm_get p (f_requests s1) with Some _ => _ | None => s1 end).
  assert (L2 : later s1 s2 /\ f_announces s2 = f_announces s1).
  { unfold s2. destruct (zm_get p (f_requests s1)) as [rq|]; [|split; [apply later_refl|reflexivity]].
    cbv zeta. pose proof (fold_later (drop_req_hash p (rq_stolen rq)) (rq_hashes rq) s1 (drop_req_hash_later p (rq_stolen rq))) as L.
    split; [|fsimp; apply fold_drop_req_announces].
    destruct L as [A B C D E]. constructor; fsimp; assumption. }
  destruct L2 as [L2 A2].
  destruct (zm_get p (f_announces s2)) as [hs|] eqn:Ep.
  - cbv zeta. pose proof (fold_later (drop_ann_hash p) hs s2 (drop_ann_hash_later p)) as L.
    split.
    + eapply later_trans; [exact L2|]. destruct L as [A B C D E]. constructor; fsimp; assumption.
    + intros q. fsimp. rewrite fold_drop_ann_announces, A2.
      destruct (p =? q) eqn:E; [apply Z.eqb_eq in E; subst; apply zm_get_del_eq|apply Z.eqb_neq in E; now apply zm_get_del_ne].
  - split; [exact L2|]. intros q. rewrite A2. destruct (p =? q) eqn:E; [apply Z.eqb_eq in E; subst; rewrite <- A2; exact Ep|reflexivity].
Qed.

(** the result of the event, whichever branch *)
Lemma ev_drop_result : forall p k s s', ev_drop p k s = FOk s' ->
    later (drop_body p s) s' /\ f_announces s' = f_announces (drop_body p s) /\
    forall q, zm_get q (f_announces (drop_body p s)) = None -> zm_get q (f_requests s') = zm_get q (f_requests (drop_body p s)).
Proof.
  intros p k s s' E. rewrite ev_drop_unfold in E.
  match type of E with context [match zm_get p (f_requests ?x) with Some _ => _ | None => _ end] =>
    destruct (zm_get p (f_requests x)) end.
  - destruct (schedule_fetches None k (drop_body p s)) as [s4|] eqn:E4; [|discriminate]. cbn [fbind] in E. inversion E; subst.
    destruct (schedule_later _ _ _ _ E4) as [L [A Q]].
    split; [|split; [exact A|exact Q]]. destruct L as [L1 L2 L3 L4 L5]. constructor; fsimp; assumption.
  - inversion E; subst. split; [apply later_refl|split; auto].
Qed.

Lemma good_f0 : GOOD f0.
Proof.
  constructor.
  - exact IC_f0.
  - exact IA_f0.
  - intros h ps p X. discriminate.
  - intros h ps p X. discriminate.
  - intros h ps p X. discriminate.
  - intros h X. discriminate.
  - intros h X. discriminate.
  - intros h X. discriminate.
Qed.

(** Drop(p) in a good state: the state stays good, [p] occurs nowhere afterwards, and a peer
    that occurred nowhere before does not appear *)
Lemma ev_drop_good : forall p k s s', GOOD s -> ev_drop p k s = FOk s' ->
    GOOD s' /\ clean p s' /\ forall q, clean q s -> clean q s'.
Proof.
  intros p k s s' G E.
  pose proof (phase1_done p s (g_w1 s G) (g_nw s G) (g_fw s G)) as D1.
  destruct (drop_body_later p s) as [Lb Ab].
  destruct (ev_drop_result p k s s' E) as [Ls [As Qs]].
  pose proof (later_trans _ _ _ Lb Ls) as L.
  destruct (d1_rest p s _ D1) as [R_an [R_ad [R_fe [R_rq R_al]]]].
  assert (Han : forall q, zm_get q (f_announces s') = if p =? q then None else zm_get q (f_announces s))
    by (intros q; rewrite As, Ab, R_an; reflexivity).
  pose proof (ev_drop_origin_free p k s s' (g_r1 s G) (g_r2 s G) E) as Of.
  destruct (ev_drop_forgets p k s (g_ic s G) (IA_covered s p (g_ia s G))) as [s'' [E'' [Nf Nr]]].
  rewrite E in E''. inversion E''; subst s''. clear E''.
  (* origins of s' come from origins of s *)
  assert (Sub : sub_orig s s').
  { intros h ps q X Hin. destruct (l_sub _ _ L h ps q X Hin) as [ps0 [X0 Hin0]]. rewrite R_ad, R_al in X0. eauto. }
  assert (Hwl : f_waitlist s' = f_waitlist (phase1 p s)) by apply (l_wl _ _ L).
  assert (Hws : f_waitslots s' = f_waitslots (phase1 p s)) by apply (l_ws _ _ L).
  assert (Hwt : f_waittime s' = f_waittime (phase1 p s)) by apply (l_wt _ _ L).
  split; [|split].
  - constructor.
    + pose proof (ev_drop_IC p k s (g_ic s G)) as X. rewrite E in X. exact X.
    + pose proof (ev_drop_IA p k s (g_ia s G)) as X. rewrite E in X. exact X.
    + intros h ps q X Hin. destruct (Sub h ps q (or_introl X) Hin) as [ps0 [[X0|X0] Hin0]];
        [destruct (g_r1 s G h ps0 q X0 Hin0) as [hs [Eh Hh]]|destruct (g_r2 s G h ps0 q X0 Hin0) as [hs [Eh Hh]]];
        (exists hs; split; [|exact Hh]; rewrite Han;
         destruct (p =? q) eqn:Epq; [apply Z.eqb_eq in Epq; subst q; exfalso; exact (proj1 Of h ps X Hin)|exact Eh]).
    + intros h ps q X Hin. destruct (Sub h ps q (or_intror X) Hin) as [ps0 [[X0|X0] Hin0]];
        [destruct (g_r1 s G h ps0 q X0 Hin0) as [hs [Eh Hh]]|destruct (g_r2 s G h ps0 q X0 Hin0) as [hs [Eh Hh]]];
        (exists hs; split; [|exact Hh]; rewrite Han;
         destruct (p =? q) eqn:Epq; [apply Z.eqb_eq in Epq; subst q; exfalso; exact (proj2 Of h ps X Hin)|exact Eh]).
    + intros h ps q X Hin. rewrite Hwl in X. destruct (d1_sub p s _ D1 h ps q X Hin) as [ps0 [X0 Hin0]].
      destruct (g_w1 s G h ps0 q X0 Hin0) as [hs [Eh Hh]]. exists hs. split; [|exact Hh].
      rewrite Hws, (d1_ws p s _ D1). destruct (p =? q) eqn:Epq; [apply Z.eqb_eq in Epq; subst q; exfalso; exact (d1_free p s _ D1 h ps X Hin)|exact Eh].
    + intros h. rewrite Hwl. apply (d1_nw p s _ D1).
    + apply (l_na _ _ L). intros h. rewrite R_ad. apply (g_na s G).
    + intros h. rewrite Hwt, Hwl. apply (d1_fw p s _ D1).
  - constructor.
    + exact Of.
    + intros h ps X. rewrite Hwl in X. exact (d1_free p s _ D1 h ps X).
    + rewrite Hws, (d1_ws p s _ D1), Z.eqb_refl. reflexivity.
    + rewrite Han, Z.eqb_refl. reflexivity.
    + exact Nr.
    + exact Nf.
  - intros q C. constructor.
    + destruct (c_orig q s C) as [O1 O2]. split; intros h ps X Hin.
      * destruct (Sub h ps q (or_introl X) Hin) as [ps0 [[X0|X0] Hin0]]; [exact (O1 h ps0 X0 Hin0)|exact (O2 h ps0 X0 Hin0)].
      * destruct (Sub h ps q (or_intror X) Hin) as [ps0 [[X0|X0] Hin0]]; [exact (O1 h ps0 X0 Hin0)|exact (O2 h ps0 X0 Hin0)].
    + intros h ps X Hin. rewrite Hwl in X. destruct (d1_sub p s _ D1 h ps q X Hin) as [ps0 [X0 Hin0]]. exact (c_wl q s C h ps0 X0 Hin0).
    + rewrite Hws, (d1_ws p s _ D1). destruct (p =? q); [reflexivity|exact (c_ws q s C)].
    + rewrite Han. destruct (p =? q); [reflexivity|exact (c_an q s C)].
    + assert (Hb : zm_get q (f_announces (drop_body p s)) = None).
      { rewrite Ab, R_an. destruct (p =? q); [reflexivity|exact (c_an q s C)]. }
      rewrite (Qs q Hb), drop_body_requests. destruct (p =? q); [reflexivity|exact (c_rq q s C)].
    + (* fetches: the body only removes, the rescheduling only serves announcers *)
      assert (Nb : no_fetch_from q (drop_body p s)).
      { intros h X. rewrite drop_body_fetching in X. apply (c_fe q s C h).
        destruct (zm_get p (f_requests s)) as [rq|]; [destruct (existsb _ (rq_hashes rq)); [discriminate|exact X]|exact X]. }
      assert (Hb : zm_get q (f_announces (drop_body p s)) = None).
      { rewrite Ab, R_an. destruct (p =? q); [reflexivity|exact (c_an q s C)]. }
      clear -E Nb Hb. rewrite ev_drop_unfold in E.
      match type of E with context [match zm_get p (f_requests ?x) with Some _ => _ | None => _ end] =>
        destruct (zm_get p (f_requests x)) end.
      * destruct (schedule_fetches None k (drop_body p s)) as [s4|] eqn:E4; [|discriminate]. cbn [fbind] in E. inversion E; subst.
        intros h. fsimp. exact (schedule_from None k q _ s4 E4 Nb Hb h).
      * inversion E; subst. exact Nb.
Qed.

(** dropping a list of peers *)
Fixpoint drop_all (ps : list (Z * Z)) (s : Fetcher) : fres :=
  match ps with
  | [] => FOk s
  | (k, p) :: t => fbind (ev_drop p k s) (drop_all t)
  end.

Lemma drop_all_good : forall ps s s', GOOD s -> drop_all ps s = FOk s' ->
    GOOD s' /\ (forall p, In p (map snd ps) -> clean p s') /\ (forall q, clean q s -> clean q s').
Proof.
  induction ps as [|[k p] t IH]; intros s s' G E; cbn [drop_all] in E.
  - inversion E; subst. split; [exact G|split; [intros p []|auto]].
  - destruct (ev_drop p k s) as [s1|] eqn:E1; [|discriminate]. cbn [fbind] in E.
    destruct (ev_drop_good p k s s1 G E1) as [G1 [C1 K1]].
    destruct (IH s1 s' G1 E) as [G' [C' K']].
    split; [exact G'|split].
    + cbn [map snd]. intros q [<-|Hin]; [apply K'; exact C1|apply C'; exact Hin].
    + intros q C. apply K'. apply K1. exact C.
Qed.

(** every peer dropped: every tracker is empty *)
Theorem drop_everyone_empties : forall ps s s', GOOD s ->
    (forall q, ~ In q (map snd ps) -> clean q s) -> drop_all ps s = FOk s' -> all_empty s'.
Proof.
  intros ps s s' G Hcov E. destruct (drop_all_good ps s s' G E) as [G' [C' K']].
  apply clean_all_empty; [exact (g_ic s' G')|exact (g_nw s' G')|exact (g_na s' G')|exact (g_fw s' G')|].
  intros p. destruct (in_dec Z.eq_dec p (map snd ps)) as [Hin|Hnin]; [apply C'; exact Hin|apply K'; apply Hcov; exact Hnin].
Qed.

(** and it never panics on the way *)
Theorem drop_all_completes : forall ps s, GOOD s -> exists s', drop_all ps s = FOk s'.
Proof.
  induction ps as [|[k p] t IH]; intros s G; cbn [drop_all]; [eauto|].
  destruct (ev_drop_forgets p k s (g_ic s G) (IA_covered s p (g_ia s G))) as [s1 [E1 _]]. rewrite E1. cbn [fbind].
  destruct (ev_drop_good p k s s1 G E1) as [G1 _]. apply IH. exact G1.
Qed.
