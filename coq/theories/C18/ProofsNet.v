(** C18 proofs, part 3: the PEX address decoder (limits of the port field, round trip) and the
    HeightVoteSet round bookkeeping (SetRound after peers have opened rounds never panics). *)
From Coq Require Import List ZArith NArith Bool Lia.
From Kardia Require Import C18.Model Generated.C18Facts.
Import ListNotations.
Local Open Scope Z_scope.

(** ** PEX: NetAddressFromProto / ToProto *)

Definition addr_wf (a : bool * Z) : Prop := fst a = true /\ 0 <= snd a <= max_port.

Lemma addr_roundtrip : forall port, 0 <= port <= max_port -> addr_from_proto (addr_to_proto port) = Some port.
Proof.
  intros port H. unfold addr_from_proto, addr_to_proto, port_ok, max_port in *. cbn [fst snd negb].
  destruct (port <? 65536) eqn:E; [|apply Z.ltb_ge in E; lia].
  f_equal. apply Z.mod_small. lia.
Qed.

Lemma addr_from_proto_some : forall a, addr_wf a -> addr_from_proto a = Some (snd a).
Proof.
  intros [ok port] [H1 H2]. cbn in *. subst ok. apply (addr_roundtrip port H2).
Qed.

Lemma addr_from_proto_inv : forall a p, 0 <= snd a -> addr_from_proto a = Some p -> addr_wf a /\ p = snd a.
Proof.
  intros [ok port] p Hp. unfold addr_from_proto, port_ok, addr_wf, max_port. cbn [fst snd].
  destruct ok; cbn [negb]; [|discriminate].
  destruct (port <? 65536) eqn:E; [|discriminate].
  apply Z.ltb_lt in E. cbn in Hp. intros H. inversion H. rewrite Z.mod_small by lia. split; [split; [reflexivity|lia]|reflexivity].
Qed.

Lemma addrs_from_proto_wf : forall l, Forall addr_wf l -> addrs_from_proto l = Some (map snd l).
Proof.
  induction l as [|a t IH]; intros H; [reflexivity|].
  inversion H as [|? ? Ha Ht]; subst. cbn [addrs_from_proto map].
  rewrite (addr_from_proto_some a Ha), (IH Ht). reflexivity.
Qed.

Lemma addrs_from_proto_inv : forall l r, Forall (fun a => 0 <= snd a) l -> addrs_from_proto l = Some r -> Forall addr_wf l.
Proof.
  induction l as [|a t IH]; intros r Hp H; [constructor|].
  inversion Hp as [|? ? Hpa Hpt]; subst. cbn [addrs_from_proto] in H.
  destruct (addr_from_proto a) as [p|] eqn:Ea; [|discriminate].
  destruct (addrs_from_proto t) as [r'|] eqn:Et; [|discriminate].
  constructor; [exact (proj1 (addr_from_proto_inv a p Hpa Ea))|exact (IH r' Hpt eq_refl)].
Qed.

(** a list is taken exactly when it was asked for and every address is well-formed (the wire port
    is a uint32: non-negative) *)
Lemma pex_addrs_accepted_iff : forall l sol, Forall (fun a => 0 <= snd a) l ->
    (pex_receive (PAddrs l sol) = ShAcc <-> sol = true /\ Forall addr_wf l).
Proof.
  intros l sol Hp. cbn [pex_receive]. split.
  - destruct (addrs_from_proto l) as [r|] eqn:E; [|discriminate].
    destruct sol; [|discriminate]. intros _. split; [reflexivity|exact (addrs_from_proto_inv l r Hp E)].
  - intros [Hs Hw]. subst sol. rewrite (addrs_from_proto_wf l Hw). reflexivity.
Qed.

Lemma pex_never_else : forall m, pex_receive m = ShRej \/ pex_receive m = ShAcc \/ pex_receive m = ShRun.
Proof.
  destruct m as [| |l sol]; cbn; auto. destruct (addrs_from_proto l); [destruct sol|]; auto.
Qed.

(** the highest port is a port *)
Example pex_port_65535 : pex_receive (PAddrs [(true, 65535); (true, 26656)] true) = ShAcc.
Proof. reflexivity. Qed.
Example pex_port_65536 : pex_receive (PAddrs [(true, 26656); (true, 65536)] true) = ShRej.
Proof. reflexivity. Qed.

(** ** HeightVoteSet *)

Definition hvs_inv (h : HVS) : Prop := 1 <= hv_round h < two32.

(** what enterNewRound guarantees about the argument of SetRound: never more than one below
    hvs.round, at least 1, and not the value at which the uint32 loop counter wraps *)
Definition hvs_pre (h : HVS) (o : hvs_op) : Prop :=
  match o with
  | HAdd _ _ _ => True
  | HSet round => 1 <= round < two32 - 1 /\ (hv_round h = 1 \/ hv_round h - 1 <= round)
  end.

Lemma zmem_In : forall x l, zmem x l = true <-> In x l.
Proof.
  intros x l. unfold zmem. rewrite existsb_exists. split.
  - intros [y [Hy E]]. apply Z.eqb_eq in E. subst. exact Hy.
  - intros H. exists x. split; [exact H|apply Z.eqb_refl].
Qed.

Lemma hvs_fill_ok : forall n r h, exists h',
    hvs_fill n r h = Ok h' /\ hv_round h' = hv_round h /\ hv_catchup h' = hv_catchup h /\
    (forall q, In q (hv_rounds h) -> In q (hv_rounds h')) /\
    (forall q, r <= q < r + Z.of_nat n -> In q (hv_rounds h')) /\
    (forall q, In q (hv_rounds h') -> In q (hv_rounds h) \/ r <= q < r + Z.of_nat n).
Proof.
  induction n as [|n IH]; intros r h.
  - exists h. cbn [hvs_fill]. repeat split; auto; intros; lia.
  - cbn [hvs_fill]. destruct (zmem r (hv_rounds h)) eqn:E.
    + destruct (IH (r + 1) h) as [h' [H1 [H2 [H3 [H4 [H5 H6]]]]]]. exists h'. repeat split; auto.
      * intros q Hq. destruct (Z.eq_dec q r) as [->|Hne]; [apply H4; apply zmem_In; exact E|apply H5; lia].
      * intros q Hq. destruct (H6 q Hq) as [|]; [left; assumption|right; lia].
    + unfold hvs_add_round. rewrite E. cbn [bind].
      set (h1 := {| hv_round := hv_round h; hv_rounds := r :: hv_rounds h; hv_catchup := hv_catchup h |}).
      destruct (IH (r + 1) h1) as [h' [H1 [H2 [H3 [H4 [H5 H6]]]]]]. exists h'. repeat split; auto.
      * intros q Hq. apply H4. right. exact Hq.
      * intros q Hq. destruct (Z.eq_dec q r) as [->|Hne]; [apply H4; left; reflexivity|apply H5; lia].
      * intros q Hq. destruct (H6 q Hq) as [[<-|Hin]|]; [right; lia|left; exact Hin|right; lia].
Qed.

(** SetRound in the situations enterNewRound creates: no panic, whatever rounds peers have opened;
    afterwards every round from hvs.round-1 (before) to the new round is tracked and nothing is lost *)
Lemma hvs_set_round_ok : forall h round, hvs_inv h -> hvs_pre h (HSet round) ->
    exists h', hvs_set_round h round = Ok h' /\ hvs_inv h' /\ hv_round h' = round /\
      hv_catchup h' = hv_catchup h /\
      (forall q, In q (hv_rounds h) -> In q (hv_rounds h')) /\
      (forall q, hv_round h - 1 <= q <= round -> In q (hv_rounds h')).
Proof.
  intros h round [Hi1 Hi2] Hp. cbn [hvs_pre] in Hp. destruct Hp as [[Hr1 Hr2] Hd]. unfold hvs_set_round.
  assert (Hnr : (hv_round h - 1) mod two32 = hv_round h - 1) by (apply Z.mod_small; lia).
  rewrite Hnr.
  assert (Hg : negb (hv_round h =? 1) && (round <? hv_round h - 1) = false).
  { destruct Hd as [->|Hle]; [reflexivity|]. apply andb_false_iff. right. apply Z.ltb_ge. exact Hle. }
  rewrite Hg.
  assert (Hw : (round =? two32 - 1) = false) by (apply Z.eqb_neq; lia). rewrite Hw.
  destruct (hvs_fill_ok (Z.to_nat (round - (hv_round h - 1) + 1)) (hv_round h - 1) h) as [h1 [H1 [H2 [H3 [H4 [H5 _]]]]]].
  rewrite H1. cbn [bind]. eexists. split; [reflexivity|]. cbn [hv_round hv_rounds hv_catchup].
  split; [unfold hvs_inv; cbn [hv_round]; lia|].
  split; [reflexivity|]. split; [exact H3|]. split; [exact H4|].
  intros q Hq. apply H5.
  destruct Hd as [E|Hle].
  - rewrite E in *. rewrite Z2Nat.id by lia. lia.
  - rewrite Z2Nat.id by lia. lia.
Qed.

(** AddVote never panics: a round is only made when it is missing *)
Lemma hvs_add_vote_ok : forall h t r peer, exists h' c,
    hvs_add_vote h t r peer = Ok (h', c) /\ hv_round h' = hv_round h /\
    (forall q, In q (hv_rounds h) -> In q (hv_rounds h')) /\
    (c = HVVoteSet -> In r (hv_rounds h')).
Proof.
  intros h t r peer. unfold hvs_add_vote.
  destruct (type_valid t); cbn [negb].
  2:{ exists h, HVErrType. repeat split; auto. discriminate. }
  destruct (zmem r (hv_rounds h)) eqn:E.
  { exists h, HVVoteSet. repeat split; auto. intros _. apply zmem_In. exact E. }
  destruct (len (alookup peer (hv_catchup h)) <? 2).
  - unfold hvs_add_round. rewrite E. cbn [bind hv_round hv_rounds hv_catchup].
    eexists. exists HVVoteSet. split; [reflexivity|]. cbn [hv_round hv_rounds]. repeat split; auto.
    + intros q Hq. right. exact Hq.
    + intros _. left. reflexivity.
  - exists h, HVUnwanted. repeat split; auto. discriminate.
Qed.

Lemma hvs_step_ok : forall h o, hvs_inv h -> hvs_pre h o -> exists h', hvs_step h o = Ok h' /\ hvs_inv h'.
Proof.
  intros h [t r peer|round] Hi Hp; cbn [hvs_step].
  - destruct (hvs_add_vote_ok h t r peer) as [h' [c [H1 [H2 _]]]]. rewrite H1. cbn [bind fst].
    exists h'. split; [reflexivity|]. unfold hvs_inv in *. rewrite H2. exact Hi.
  - destruct (hvs_set_round_ok h round Hi Hp) as [h' [H1 [H2 _]]]. exists h'. split; assumption.
Qed.

(** whole histories: votes of any peers for any rounds interleaved with round changes *)
Fixpoint hvs_run (h : HVS) (ops : list hvs_op) : res HVS :=
  match ops with
  | [] => Ok h
  | o :: t => do h' <- hvs_step h o; hvs_run h' t
  end.

(** the discipline of the caller, along the history *)
Fixpoint hvs_disciplined (h : HVS) (ops : list hvs_op) : Prop :=
  match ops with
  | [] => True
  | o :: t => hvs_pre h o /\ forall h', hvs_step h o = Ok h' -> hvs_disciplined h' t
  end.

Lemma hvs_run_ok : forall ops h, hvs_inv h -> hvs_disciplined h ops -> exists h', hvs_run h ops = Ok h' /\ hvs_inv h'.
Proof.
  induction ops as [|o t IH]; intros h Hi Hd.
  - exists h. split; [reflexivity|exact Hi].
  - destruct Hd as [Hp Hn]. destruct (hvs_step_ok h o Hi Hp) as [h1 [H1 H2]].
    cbn [hvs_run]. rewrite H1. cbn [bind]. apply IH; [exact H2|exact (Hn h1 H1)].
Qed.

Lemma hvs_new_inv : hvs_inv hvs_new.
Proof. unfold hvs_inv, hvs_new, two32. cbn. lia. Qed.

(** the node: every observation with hvs.round moved forward by enterNewRound is a legal SetRound *)
Lemma node_observe_ok : forall n h hr, hvs_inv (nh_hvs n) -> 2 <= hr < two32 - 1 ->
    (nh_height n = h -> hv_round (nh_hvs n) - 1 <= hr) ->
    exists n', node_observe n h hr = Ok n' /\ hvs_inv (nh_hvs n') /\ hv_round (nh_hvs n') = hr.
Proof.
  intros n h hr Hi Hr Hm. unfold node_observe.
  destruct (nh_height n =? h) eqn:E.
  - apply Z.eqb_eq in E. destruct (hv_round (nh_hvs n) =? hr) eqn:E2.
    + apply Z.eqb_eq in E2. exists n. split; [reflexivity|]. split; [exact Hi|exact E2].
    + destruct (hvs_set_round_ok (nh_hvs n) hr Hi) as [h' [H1 [H2 [H3 _]]]].
      { split; [lia|]. right. apply Hm. exact E. }
      rewrite H1. cbn [bind]. eexists. split; [reflexivity|]. cbn [nh_hvs]. split; assumption.
  - cbn [nh_hvs]. replace (hv_round hvs_new =? hr) with false by (symmetry; apply Z.eqb_neq; cbn; lia).
    destruct (hvs_set_round_ok hvs_new hr hvs_new_inv) as [h' [H1 [H2 [H3 _]]]].
    { split; [lia|]. left. reflexivity. }
    rewrite H1. cbn [bind]. eexists. split; [reflexivity|]. cbn [nh_hvs]. split; assumption.
Qed.

Lemma node_vote_ok : forall n t h r peer, hvs_inv (nh_hvs n) ->
    exists n', node_vote n t h r peer = Ok n' /\ hvs_inv (nh_hvs n') /\ nh_height n' = nh_height n /\
               hv_round (nh_hvs n') = hv_round (nh_hvs n).
Proof.
  intros n t h r peer Hi. unfold node_vote. destruct (nh_height n =? h).
  - destruct (hvs_add_vote_ok (nh_hvs n) t r peer) as [h' [c [H1 [H2 _]]]]. rewrite H1. cbn [bind fst].
    eexists. split; [reflexivity|]. cbn [nh_hvs nh_height]. unfold hvs_inv in *. rewrite H2. auto.
  - exists n. auto.
Qed.

(** the situation of seeded breakage a1, as a closed example: a peer's vote opens round 3 while the
    node tracks rounds up to 2; entering round 2 (SetRound 3) must step over it *)
Example hvs_catchup_then_set_round :
  exists h1 h2 h3, hvs_set_round hvs_new 2 = Ok h1 /\ hvs_add_vote h1 prevote_type 3 7 = Ok (h2, HVVoteSet) /\
                   hvs_set_round h2 3 = Ok h3 /\ hv_rounds h3 = [3; 2; 0; 1].
Proof. do 3 eexists. repeat split; vm_compute; reflexivity. Qed.

(** without the membership test in the loop (the seeded variant) the same history panics *)
Fixpoint hvs_fill_unchecked (n : nat) (r : Z) (h : HVS) : res HVS :=
  match n with
  | O => Ok h
  | S k => do h' <- hvs_add_round h r; hvs_fill_unchecked k (r + 1) h'
  end.
Example hvs_unchecked_fill_panics :
  hvs_fill_unchecked 1 3 {| hv_round := 2; hv_rounds := [3; 2; 0; 1]; hv_catchup := [(7, [3])] |} = RCrash.
Proof. reflexivity. Qed.
