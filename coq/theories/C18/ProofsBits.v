(** C18 proofs, part 1: the bit-array primitives never panic on well-formed arrays, and keep
    them well-formed (arrays of different sizes included). *)
From Coq Require Import List ZArith NArith Bool Lia.
From Kardia Require Import C18.Model Generated.C18Facts.
Import ListNotations.
Local Open Scope Z_scope.
Ltac Zify.zify_post_hook ::= Z.div_mod_to_equations.

(** a bit array as NewBitArray builds it and BitArray.ValidateBasic accepts it *)
(** every bit array the node builds or accepts has at most [bmax] bits: MaxVotesCount bounds the
    vote arrays, MaxBlockPartsCount (smaller) the part arrays *)
Definition bmax : Z := max_votes_count.

Lemma bmax_facts : max_block_parts_count <= bmax /\ bmax <= max_int32 /\ words_for bmax * 8 <= alloc_limit /\ 0 <= bmax.
Proof. unfold bmax, max_block_parts_count, max_votes_count, max_int32, alloc_limit. cbn. lia. Qed.

Definition wf_ba (b : BitArray) : Prop :=
  0 <= ba_bits b <= bmax /\ len (ba_elems b) = words_for (ba_bits b).

Definition wf_oba (b : option BitArray) : Prop :=
  match b with None => True | Some b => wf_ba b end.

(** a primitive's result is acceptable: no panic, no allocation above the limit, a well-formed value *)
Definition safe {A} (P : A -> Prop) (r : res A) : Prop :=
  match r with Ok a => P a | RCrash => False | RAlloc _ => False end.

Lemma safe_bind : forall A B (P : A -> Prop) (Q : B -> Prop) (r : res A) (f : A -> res B),
    safe P r -> (forall a, P a -> safe Q (f a)) -> safe Q (bind r f).
Proof. intros A B P Q r f Hr Hf. destruct r; cbn in *; auto. Qed.

Lemma as_int_small : forall u, 0 <= u <= max_int32 -> as_int u = u.
Proof. intros u Hu. unfold as_int, two63, max_int32 in *. destruct (u <? 9223372036854775808) eqn:E; [reflexivity|]. apply Z.ltb_ge in E. lia. Qed.

Lemma as_uint_small : forall u, 0 <= u <= max_int32 -> as_uint u = u.
Proof. intros u Hu. unfold as_uint, two64, max_int32 in *. apply Z.mod_small. lia. Qed.

Lemma bmax_int32 : forall u, 0 <= u <= bmax -> 0 <= u <= max_int32.
Proof. intros u H. pose proof bmax_facts. lia. Qed.

Lemma words_for_nonneg : forall b, 0 <= b -> 0 <= words_for b.
Proof. intros b Hb. unfold words_for. apply Z.quot_pos; lia. Qed.

Lemma words_for_eq : forall b, 0 <= b -> words_for b = (b + 63) / 64.
Proof. intros b Hb. unfold words_for. apply Z.quot_div_nonneg; lia. Qed.

Lemma words_for_mono : forall a b, 0 <= a <= b -> words_for a <= words_for b.
Proof. intros a b H. rewrite !words_for_eq by lia. apply Z.div_le_mono; lia. Qed.

Lemma words_for_covers : forall b i, 0 <= i < b -> i / 64 < words_for b.
Proof. intros b i H. rewrite words_for_eq by lia. lia. Qed.

Lemma len_nonneg : forall A (l : list A), 0 <= len l.
Proof. intros. unfold len. lia. Qed.

Lemma len_repeat : forall (x : N) n, len (repeat x n) = Z.of_nat n.
Proof. intros. unfold len. now rewrite repeat_length. Qed.

Lemma nth_elem_some : forall l n, (n < length l)%nat -> exists e, nth_elem l n = Some e.
Proof.
  induction l as [|x l IH]; intros n Hn; cbn in *; [lia|].
  destruct n; [eauto|]. apply IH. lia.
Qed.

Lemma set_elem_length : forall l n v, length (set_elem l n v) = length l.
Proof. induction l as [|x l IH]; intros n v; cbn; [reflexivity|]. destruct n; cbn; [reflexivity|]. now rewrite IH. Qed.

Lemma copy_into_length : forall n src, length (copy_into n src) = n.
Proof. induction n as [|n IH]; intros src; cbn; [reflexivity|]. destruct src; cbn; now rewrite IH. Qed.

Lemma zip_or_length : forall c o, length (zip_or c o) = length c.
Proof. induction c as [|x c IH]; intros o; cbn; [reflexivity|]. destruct o; cbn; [reflexivity|]. now rewrite IH. Qed.

Lemma overwrite_length : forall d s, length (overwrite d s) = length d.
Proof. induction d as [|x d IH]; intros s; cbn; [reflexivity|]. destruct s; cbn; [reflexivity|]. now rewrite IH. Qed.

Lemma zip_and_ok : forall c o, (length c <= length o)%nat -> exists r, zip_and c o = Some r /\ length r = length c.
Proof.
  induction c as [|x c IH]; intros o H; cbn in *; [eauto|].
  destruct o as [|y o]; cbn in *; [lia|].
  destruct (IH o) as [r [Hr Hl]]; [lia|]. rewrite Hr. eexists; split; [reflexivity|]. cbn. now rewrite Hl.
Qed.

Lemma zero_prefix_ok : forall n c, (n <= length c)%nat -> exists r, zero_prefix n c = Some r /\ length r = length c.
Proof.
  induction n as [|n IH]; intros c H; cbn; [eauto|].
  destruct c as [|x c]; cbn in *; [lia|].
  destruct (IH c) as [r [Hr Hl]]; [lia|]. rewrite Hr. eexists; split; [reflexivity|]. cbn. now rewrite Hl.
Qed.

(** *** getIndex / setIndex *)

Lemma get_index_ok : forall b i, wf_ba b -> 0 <= i -> exists v, get_index b i = Ok v.
Proof.
  intros b i [Hb Hl] Hi. unfold get_index. rewrite as_int_small by (apply bmax_int32; assumption).
  destruct (ba_bits b <=? i) eqn:E; [eexists; reflexivity|]. apply Z.leb_gt in E.
  destruct (i <? 0) eqn:E2; [apply Z.ltb_lt in E2; lia|].
  destruct (nth_elem_some (ba_elems b) (Z.to_nat (i / 64))) as [e He].
  - pose proof (words_for_covers (ba_bits b) i ltac:(lia)) as Hc. unfold len in Hl.
    assert (0 <= i / 64) by (apply Z.div_pos; lia). lia.
  - rewrite He. eexists; reflexivity.
Qed.

Lemma set_index_ok : forall b i v, wf_ba b -> 0 <= i ->
  exists b' f, set_index b i v = Ok (b', f) /\ wf_ba b' /\ ba_bits b' = ba_bits b.
Proof.
  intros b i v [Hb Hl] Hi. unfold set_index. rewrite as_int_small by (apply bmax_int32; assumption).
  destruct (ba_bits b <=? i) eqn:E; [exists b, false; split; [reflexivity|split; [split; assumption|reflexivity]]|]. apply Z.leb_gt in E.
  destruct (i <? 0) eqn:E2; [apply Z.ltb_lt in E2; lia|].
  destruct (nth_elem_some (ba_elems b) (Z.to_nat (i / 64))) as [e He].
  - pose proof (words_for_covers (ba_bits b) i ltac:(lia)) as Hc. unfold len in Hl.
    assert (0 <= i / 64) by (apply Z.div_pos; lia). lia.
  - rewrite He. eexists _, true. split; [reflexivity|]. split; [|reflexivity].
    split; cbn; [assumption|]. unfold len in *. now rewrite set_elem_length.
Qed.

Lemma set_index_safe : forall b i v, wf_ba b -> 0 <= i ->
  safe (fun r => wf_ba (fst r) /\ ba_bits (fst r) = ba_bits b) (set_index b i v).
Proof. intros b i v H Hi. destruct (set_index_ok b i v H Hi) as [b' [f [E [W B]]]]. rewrite E. cbn. auto. Qed.

(** *** constructors and copies *)

Lemma no_alloc : forall n, 0 <= n <= words_for bmax -> (alloc_limit <? n * 8) = false.
Proof. intros n Hn. apply Z.ltb_ge. pose proof bmax_facts. lia. Qed.

Lemma make_words_safe : forall n, 0 <= n <= words_for bmax -> safe (fun e => len e = n) (make_words n).
Proof.
  intros n Hn. unfold make_words. destruct (n <? 0) eqn:E; [apply Z.ltb_lt in E; lia|].
  rewrite no_alloc by assumption. cbn. rewrite len_repeat. lia.
Qed.

Lemma new_bitarray_safe : forall n, n <= bmax -> safe wf_oba (new_bitarray n).
Proof.
  intros n Hn. unfold new_bitarray. destruct (n <=? 0) eqn:E; [exact I|]. apply Z.leb_gt in E.
  eapply safe_bind; [apply make_words_safe; split; [apply words_for_nonneg; lia|apply words_for_mono; lia]|].
  intros e He. cbn. split; cbn; [lia|assumption].
Qed.

Lemma copy_safe : forall b, wf_ba b -> safe (fun c => c = b) (copy b).
Proof.
  intros b [Hb Hl]. unfold copy. rewrite no_alloc; [reflexivity|].
  rewrite Hl. split; [apply words_for_nonneg; lia|apply words_for_mono; lia].
Qed.

Lemma copy_bits_safe : forall b n, 0 <= n <= bmax ->
  safe (fun c => wf_ba c /\ ba_bits c = n) (copy_bits b n).
Proof.
  intros b n Hn. unfold copy_bits.
  pose proof (words_for_nonneg n ltac:(lia)) as Hw.
  destruct (words_for n <? 0) eqn:E; [apply Z.ltb_lt in E; lia|].
  rewrite no_alloc by (split; [assumption|apply words_for_mono; lia]). cbn.
  rewrite as_uint_small by (apply bmax_int32; assumption). split; [|reflexivity]. split; cbn; [assumption|].
  unfold len. rewrite copy_into_length. lia.
Qed.

(** *** Or (after 35ce00b), and, Not, Update *)

Lemma or_safe : forall a o, wf_oba a -> wf_oba o -> safe wf_oba (or_ a o).
Proof.
  intros [a|] [o|] Ha Ho; cbn in *; try exact I.
  - pose proof Ha as [Hab Hal]. pose proof Ho as [Hob Hol].
    rewrite !as_int_small by (apply bmax_int32; assumption).
    eapply safe_bind; [apply (copy_bits_safe a (Z.max (ba_bits a) (ba_bits o))); lia|].
    intros c [[Hcb Hcl] Hbits]. cbn. split; cbn; [assumption|]. unfold len in *. now rewrite zip_or_length.
  - eapply safe_bind; [apply copy_safe; assumption|]. intros c ->. exact Ha.
  - eapply safe_bind; [apply copy_safe; assumption|]. intros c ->. exact Ho.
Qed.

Lemma not_raw_safe : forall b, wf_ba b -> safe (fun c => wf_ba c /\ ba_bits c = ba_bits b) (not_raw b).
Proof.
  intros b H. unfold not_raw. eapply safe_bind; [apply copy_safe; assumption|].
  intros c ->. cbn. destruct H as [Hb Hl]. repeat split; cbn; try lia. unfold len in *. now rewrite map_length.
Qed.

Lemma and_raw_safe : forall a o, wf_ba a -> wf_ba o -> safe wf_ba (and_raw a o).
Proof.
  intros a o [Hab Hal] [Hob Hol]. unfold and_raw. rewrite !as_int_small by (apply bmax_int32; assumption).
  eapply safe_bind; [apply (copy_bits_safe a (Z.min (ba_bits a) (ba_bits o))); lia|].
  intros c [[Hcb Hcl] Hbits].
  destruct (zip_and_ok (ba_elems c) (ba_elems o)) as [r [Hr Hlen]].
  - pose proof (words_for_mono (ba_bits c) (ba_bits o) ltac:(lia)). unfold len in *. lia.
  - rewrite Hr. cbn. split; cbn; [assumption|]. unfold len in *. now rewrite Hlen.
Qed.

Lemma update_wf : forall a o, wf_oba a -> wf_oba (update_ a o).
Proof.
  intros [a|] [o|] Ha; cbn in *; auto. destruct Ha as [Hb Hl]. split; cbn; [assumption|].
  unfold len in *. now rewrite overwrite_length.
Qed.

(** *** Sub *)

Lemma sub_bits_safe : forall n idx c o,
    wf_ba c -> wf_ba o -> 0 <= idx ->
    safe (fun r => wf_ba r /\ ba_bits r = ba_bits c) (sub_bits n idx c o).
Proof.
  induction n as [|n IH]; intros idx c o Hc Ho Hi; cbn; [auto|].
  destruct (get_index_ok c idx Hc Hi) as [gc Hgc]. rewrite Hgc. cbn.
  assert (Hgo : exists go, (if gc then get_index o idx else Ok false) = Ok go).
  { destruct gc; [apply get_index_ok; assumption|eexists; reflexivity]. }
  destruct Hgo as [go Hgo]. rewrite Hgo. cbn.
  destruct (set_index_ok c idx (gc && negb go) Hc Hi) as [c' [f [E [W B]]]]. rewrite E. cbn.
  specialize (IH (idx + 1) c' o W Ho ltac:(lia)).
  destruct (sub_bits n (idx + 1) c' o); cbn in *; auto. rewrite <- B. exact IH.
Qed.

Lemma sub_safe : forall a o, wf_oba a -> wf_oba o -> safe wf_oba (sub_ a o).
Proof.
  intros [a|] [o|] Ha Ho; [|exact I|exact I|exact I].
  unfold sub_. cbn [wf_oba] in Ha, Ho.
  pose proof Ha as [Hab Hal]. pose proof Ho as [Hob Hol].
  destruct (ba_bits o <? ba_bits a) eqn:E.
  - apply Z.ltb_lt in E.
    eapply safe_bind; [apply copy_safe; assumption|]. intros c ->.
    destruct (zero_prefix_ok (pred (length (ba_elems o))) (ba_elems a)) as [e [He Hel]].
    { pose proof (words_for_mono (ba_bits o) (ba_bits a) ltac:(lia)). unfold len in *. lia. }
    rewrite He. cbv zeta.
    set (c := {| ba_bits := ba_bits a; ba_elems := e |}).
    assert (Hc : wf_ba c). { split; cbn; [assumption|]. unfold len in *. now rewrite Hel. }
    destruct (length (ba_elems o)) as [|i] eqn:Eno; [exact Hc|].
    rewrite as_int_small by (apply bmax_int32; assumption).
    assert (Hcov : ba_bits a <= 64 * len (ba_elems c)).
    { destruct Hc as [_ Hcl]. cbn [ba_bits c] in Hcl. rewrite Hcl. rewrite words_for_eq by lia. lia. }
    assert (Hlim : Z.min (ba_bits o) (64 * len (ba_elems c)) = ba_bits o) by lia.
    rewrite Hlim.
    eapply safe_bind; [apply (sub_bits_safe _ (Z.of_nat i * 64) c o Hc Ho); lia|].
    intros c' [Hc' _].
    assert (Z.max (Z.of_nat i * 64) (ba_bits o) <? ba_bits o = false) as -> by (apply Z.ltb_ge; lia).
    cbn. exact Hc'.
  - eapply safe_bind; [apply not_raw_safe; assumption|]. intros n [Hn Hnb].
    eapply safe_bind; [apply and_raw_safe; assumption|]. intros r Hr. exact Hr.
Qed.

(** *** BitArray.ValidateBasic is exactly well-formedness *)

Lemma ba_valid_wf : forall w, ba_valid (from_wbits w) = true ->
  size (Some (from_wbits w)) <= bmax -> wf_ba (from_wbits w).
Proof.
  intros w H Hs. unfold ba_valid in H. apply andb_true_iff in H as [H1 H2].
  apply Z.leb_le in H1. apply Z.eqb_eq in H2.
  assert (Hnn : 0 <= ba_bits (from_wbits w)).
  { destruct w as [w|]; cbn; [|lia]. unfold as_uint, two64. apply Z.mod_pos_bound. lia. }
  cbn [size] in Hs. rewrite as_int_small in Hs, H2 by lia.
  split; [lia|exact H2].
Qed.
