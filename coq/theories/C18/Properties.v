(** C18 — property theorems only. *)
From Coq Require Import List ZArith NArith Bool.
From Kardia Require Import C18.Model C18.Proofs Generated.C18Facts.
Local Open Scope Z_scope.

Theorem C18_bc_locks_balanced : forall m c, bc_receive m c <> LockLeak.
Proof. exact bc_locks_balanced. Qed.
Print Assumptions C18_bc_locks_balanced.
