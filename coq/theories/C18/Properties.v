(** C18 — property theorems only.  Each is closed by [exact] of a lemma proved in Proofs*.v and
    followed by [Print Assumptions].

    Reading: [handle e ch w st] is ConsensusManager.Receive(chID, peer, bytes) on the decoded
    structure [w] of the bytes, with [st] the peer's PeerState (None after RemovePeer) and [e] what
    the handler reads from the node.  [env_ok]: the node's validator counts are within
    MaxVotesCount and its own vote array is well-formed; [wire_typed]: the uint32 fields of the
    .proto are non-negative; [st_ok]: every bit array in the peer state has exactly the words its
    bits need (true of NewPeerState, preserved by every handler: C18_state_invariant). *)
From Coq Require Import List ZArith NArith Bool.
From Kardia Require Import C18.Model C18.ModelFetcher C18.ProofsBits C18.Proofs C18.ProofsNet C18.ProofsFetcher C18.ProofsFetcherDrop C18.ProofsFetcherEmpty C18.ProofsFetcherGood C18.SourceTie Generated.C18Facts.
Import ListNotations.
Local Open Scope Z_scope.

(** no delivery panics — for every channel id, every decoded structure, every node state *)
Theorem C18_no_crash :
  forall e ch w st, env_ok e -> wire_typed w -> st_ok st -> fst (handle e ch w st) <> Crash.
Proof. exact handle_no_crash. Qed.
Print Assumptions C18_no_crash.

(** no handler returns with a mutex held (PeerState.mtx, ConsensusState.mtx) *)
Theorem C18_locks_balanced :
  forall e ch w st, env_ok e -> wire_typed w -> st_ok st -> fst (handle e ch w st) <> LockLeak.
Proof. exact handle_no_leak. Qed.
Print Assumptions C18_locks_balanced.

(** block-sync Receive releases its read lock on every path (2cdb1a0); the old code did not *)
Theorem C18_bc_locks_balanced : forall m conv_ok, bc_receive m conv_ok <> LockLeak.
Proof. exact bc_locks_balanced. Qed.
Print Assumptions C18_bc_locks_balanced.

Theorem C18_bc_lock_leak_before_repair : bc_receive_old (BBlockResp true) false = LockLeak.
Proof. exact bc_old_leaks. Qed.
Print Assumptions C18_bc_lock_leak_before_repair.

(** allocation: no bit-array allocation of a handler exceeds the limit, whatever sizes the
    message claims (constant bound: every array stays within MaxVotesCount bits) *)
Theorem C18_alloc_bound :
  forall e ch w st n, env_ok e -> wire_typed w -> st_ok st -> fst (handle e ch w st) <> Alloc n.
Proof. exact handle_no_alloc. Qed.
Print Assumptions C18_alloc_bound.

(** the invariant behind the three statements above, over whole delivery sequences *)
Theorem C18_state_invariant :
  forall ds st, st_ok st -> Forall (fun d => env_ok (fst (fst d)) /\ wire_typed (snd d)) ds ->
    Forall (fun o => o = Accepted \/ o = Rejected) (fst (run st ds)) /\ st_ok (snd (run st ds)).
Proof. exact run_good. Qed.
Print Assumptions C18_state_invariant.

(** every bit array that MsgFromProto lets through is consistent and within bounds *)
Theorem C18_validated_arrays_wellformed :
  forall w m, wire_typed w -> from_proto w = Some m -> msg_ok m.
Proof. exact from_proto_ok. Qed.
Print Assumptions C18_validated_arrays_wellformed.

(** the bit-array operations on well-formed arrays of ANY two sizes *)
Theorem C18_bitarray_ops_total :
  forall a o, wf_oba a -> wf_oba o ->
    safe wf_oba (sub_ a o) /\ safe wf_oba (or_ a o) /\ wf_oba (update_ a o).
Proof. intros a o Ha Ho. exact (conj (sub_safe a o Ha Ho) (conj (or_safe a o Ha Ho) (update_wf a o Ha))). Qed.
Print Assumptions C18_bitarray_ops_total.

(** gossip side (a panic there kills the node): PickVoteToSend and the gossipDataRoutine expression *)
Theorem C18_gossip_votes_no_crash :
  forall p v, wf_prs p -> vs_ok v ->
    (fst (fst (pick_vote p v)) = PickNone \/ fst (fst (pick_vote p v)) = PickSome) /\ wf_prs (snd (fst (pick_vote p v))).
Proof. exact pick_vote_no_crash. Qed.
Print Assumptions C18_gossip_votes_no_crash.

Theorem C18_gossip_data_no_crash :
  forall p hh ours, wf_prs p -> wf_oba ours ->
    fst (gossip_data p hh ours) = PickNone \/ fst (gossip_data p hh ours) = PickSome.
Proof. exact gossip_data_no_crash. Qed.
Print Assumptions C18_gossip_data_no_crash.

(** the validation is what the statements rest on: with an array that ValidateBasic refuses since
    8b6016a already in the peer state, one HasVote panics *)
Theorem C18_no_crash_refuted_without_validation :
  fst (handle env1 chan_state (WHV 1 1 prevote_type 0) (Some prs_bad)) = Crash.
Proof. exact unvalidated_array_crashes. Qed.
Print Assumptions C18_no_crash_refuted_without_validation.

(** well-formed messages survive encode/decode unchanged *)
Theorem C18_wire_roundtrip : forall m, msg_wellformed m -> from_proto (to_wire m) = Some m.
Proof. exact wire_roundtrip. Qed.
Print Assumptions C18_wire_roundtrip.

(** framing: a delivered message never exceeds its channel's RecvMessageCapacity *)
Theorem C18_frame_capacity :
  forall cfg recving f evs r' alive ch total cap,
    frame_step cfg recving f = (evs, r', alive) -> In (FRecv ch total) evs ->
    lookup ch (c_caps cfg) = Some cap -> total <= cap.
Proof. exact frame_step_cap. Qed.
Print Assumptions C18_frame_capacity.

(** block-sync Receive model: accepted or rejected, nothing else *)
Theorem C18_bc_no_crash : forall m conv_ok, bc_receive m conv_ok = Accepted \/ bc_receive m conv_ok = Rejected.
Proof. exact bc_no_crash. Qed.
Print Assumptions C18_bc_no_crash.

(** PEX channel: a requested address list is taken exactly when every address is well-formed — the
    IP parses and the port is a 16-bit number, 65535 included; nothing else stops the sender *)
Theorem C18_pex_wellformed_accepted :
  forall l sol, Forall (fun a => 0 <= snd a) l ->
    (pex_receive (PAddrs l sol) = ShAcc <-> sol = true /\ Forall addr_wf l).
Proof. exact pex_addrs_accepted_iff. Qed.
Print Assumptions C18_pex_wellformed_accepted.

(** every port an address can have survives ToProto / NetAddressFromProto *)
Theorem C18_pex_addr_roundtrip :
  forall port, 0 <= port <= max_port -> addr_from_proto (addr_to_proto port) = Some port.
Proof. exact addr_roundtrip. Qed.
Print Assumptions C18_pex_addr_roundtrip.

(** HeightVoteSet: whatever rounds peers have opened by their votes (AddVote makes the vote sets
    of an untracked round before anything is verified), the round changes of the node — SetRound
    with an argument not more than one below hvs.round — never reach the addRound panic, over
    whole histories of votes and round changes *)
Theorem C18_hvs_no_crash :
  forall ops h, hvs_inv h -> hvs_disciplined h ops -> exists h', hvs_run h ops = Ok h' /\ hvs_inv h'.
Proof. exact hvs_run_ok. Qed.
Print Assumptions C18_hvs_no_crash.

(** ... and SetRound leaves every round from hvs.round-1 to the new round tracked, losing none *)
Theorem C18_hvs_set_round_tracks :
  forall h round, hvs_inv h -> hvs_pre h (HSet round) ->
    exists h', hvs_set_round h round = Ok h' /\ hvs_inv h' /\ hv_round h' = round /\
      hv_catchup h' = hv_catchup h /\
      (forall q, In q (hv_rounds h) -> In q (hv_rounds h')) /\
      (forall q, hv_round h - 1 <= q <= round -> In q (hv_rounds h')).
Proof. exact hvs_set_round_ok. Qed.
Print Assumptions C18_hvs_set_round_tracks.

(** the node's own round change after any deliveries: legal and panic-free *)
Theorem C18_node_round_change_no_crash :
  forall n h hr, hvs_inv (nh_hvs n) -> 2 <= hr < two32 - 1 ->
    (nh_height n = h -> hv_round (nh_hvs n) - 1 <= hr) ->
    exists n', node_observe n h hr = Ok n' /\ hvs_inv (nh_hvs n') /\ hv_round (nh_hvs n') = hr.
Proof. exact node_observe_ok. Qed.
Print Assumptions C18_node_round_change_no_crash.

(** dropping the membership test of the SetRound loop (seeded breakage a1) panics on a round a
    peer has opened *)
Theorem C18_hvs_unchecked_fill_refuted :
  hvs_fill_unchecked 1 3 {| hv_round := 2; hv_rounds := [3; 2; 0; 1]; hv_catchup := [(7, [3])] |} = RCrash.
Proof. exact hvs_unchecked_fill_panics. Qed.
Print Assumptions C18_hvs_unchecked_fill_refuted.

(** Tx-pool channel, the fetcher behind it.  [fstep k s e] is one iteration of TxFetcher.loop for
    the event [e] (Notify / Enqueue / Drop / the clock) in state [s]; FCrash = the loop goroutine
    panics (nobody recovers it: the process dies).

    Over whole histories of announcements, deliveries, peer drops and timer expiries from any
    number of peers, "alternates are tracked exactly for the hashes being fetched" holds after
    every event that completes ... *)
Theorem C18_fetcher_alternates_invariant :
  IC f0 /\ forall evs s, IC s -> match frun s evs with FOk s' => IC s' | FCrash => True end.
Proof. exact (conj IC_f0 frun_IC). Qed.
Print Assumptions C18_fetcher_alternates_invariant.

(** ... and with it scheduleFetches never reaches its panic ("alternate tracker already contains
    fetching item"), whichever peers and rotation *)
Theorem C18_fetcher_schedule_no_crash :
  forall w k s, IC s -> exists s', schedule_fetches w k s = FOk s' /\ IC s'.
Proof. exact schedule_fetches_IC. Qed.
Print Assumptions C18_fetcher_schedule_no_crash.

(** Drop(peer) — RemovePeer — completes and leaves nothing marked as being fetched from the peer
    and no request of it, in every state where the peer's fetches are covered by its request *)
Theorem C18_fetcher_drop_forgets_peer :
  forall peer k s, IC s -> covered peer s ->
    exists s', ev_drop peer k s = FOk s' /\ no_fetch_from peer s' /\ zm_get peer (f_requests s') = None.
Proof. exact ev_drop_forgets. Qed.
Print Assumptions C18_fetcher_drop_forgets_peer.

(** ... and so does "every hash marked as being fetched from a peer is listed, not stolen, in a
    request of that peer that exists" (the fact the delivery path relies on when it marks a
    delivery as stolen: f.requests[origin].stolen) *)
Theorem C18_fetcher_invariants :
  forall evs, match frun f0 evs with FOk s => IC s /\ IA s | FCrash => True end.
Proof. exact frun_inv. Qed.
Print Assumptions C18_fetcher_invariants.

(** the delivery loop never dereferences a missing request, and keeps the invariant *)
Theorem C18_fetcher_delivery_no_missing_request :
  forall origin direct hashes s, IA s ->
    exists s', ffold (cleanup_hash origin direct) hashes s = FOk s' /\ IA s'.
Proof. exact cleanup_loop_IA. Qed.
Print Assumptions C18_fetcher_delivery_no_missing_request.

(** PARTIAL no-crash statement for the fetcher: at every state reachable from the empty fetcher by
    any history of events, scheduling completes, the delivery loop of any delivery completes, and
    the drop of any peer completes and forgets the peer.  Not excluded by proof: the three
    "tracker already contains ..." panics of the wait trigger, the timeout trigger and a partial
    direct delivery (they need the stage-disjointness part of [fetcher_ok], which is evaluated on
    every state the model reaches and checked on the implementation's trackers by the harness) *)
Theorem C18_fetcher_reachable_safe_partial :
  forall evs s, frun f0 evs = FOk s ->
    (forall w k, exists s', schedule_fetches w k s = FOk s') /\
    (forall origin direct hashes, exists s', ffold (cleanup_hash origin direct) hashes s = FOk s') /\
    (forall peer k, exists s', ev_drop peer k s = FOk s' /\ no_fetch_from peer s' /\ zm_get peer (f_requests s') = None).
Proof. exact reachable_safe. Qed.
Print Assumptions C18_fetcher_reachable_safe_partial.

(** seeded breakage a2, computed: with the mark left behind by a Drop that forgets only the
    request, the next delivery of the transaction by anybody panics *)
Theorem C18_fetcher_stale_fetching_refuted :
  match s_requested with
  | FOk s => fstep 0 (stale_after_drop s) (EEnqueue 1 [(7, 0)] false)
  | FCrash => FOk f0
  end = FCrash.
Proof. exact a2_stale_fetching_then_delivery. Qed.
Print Assumptions C18_fetcher_stale_fetching_refuted.

(** Drop(peer) (repair 95b0505): afterwards the peer is neither a queued origin nor an alternate
    origin of any hash — in particular not of a hash that is in flight from somebody else, which
    before the repair was later queued for ever with no peer to ask.  R1/R2: an origin recorded
    under a hash is a peer recorded as announcing it *)
Theorem C18_fetcher_drop_no_stale_origin :
  forall p k s s', R1 s -> R2 s -> ev_drop p k s = FOk s' -> origin_free p s'.
Proof. exact ev_drop_origin_free. Qed.
Print Assumptions C18_fetcher_drop_no_stale_origin.

(** when every peer has been dropped, every tracker of the fetcher is empty: nothing a peer has
    sent outlives its connection, and the drops never panic.  [GOOD]: the indexes of the state
    agree (the propositional form of [fetcher_ok]'s index part, with IC and IA); it holds of the
    empty fetcher and is kept by every Drop (ev_drop_good).  PARTIAL in this respect only: that
    Notify / Enqueue / the timers keep the index part of GOOD is not proved (IC and IA are:
    C18_fetcher_invariants); it is evaluated on every state the model reaches and on the
    implementation's trackers after every event *)
Theorem C18_fetcher_drop_everyone_empties_partial :
  GOOD f0 /\
  (forall ps s, GOOD s -> exists s', drop_all ps s = FOk s') /\
  (forall ps s s', GOOD s -> (forall q, ~ In q (map snd ps) -> clean q s) -> drop_all ps s = FOk s' -> all_empty s').
Proof. exact (conj good_f0 (conj drop_all_completes drop_everyone_empties)). Qed.
Print Assumptions C18_fetcher_drop_everyone_empties_partial.

(** GOOD is kept by every event except a direct reply to a request: announcements, broadcast
    deliveries, peer drops, the wait and the timeout trigger.  PARTIAL: for a direct reply
    (PooledTransactions answering RequestPooledTransactions) the partial-delivery path also needs
    the stage-disjointness facts (a hash being fetched is not queued), which are not proved
    inductive (Open.v item 5) *)
Theorem C18_fetcher_index_invariant_partial :
  forall k s e, not_direct e -> GOOD s -> match fstep k s e with FOk s' => GOOD s' | FCrash => True end.
Proof. exact fstep_GOOD. Qed.
Print Assumptions C18_fetcher_index_invariant_partial.

(** source tie: the validators, bounds and limits of the model ARE the expressions of the Go source
    (Generated/C18Source.v, regenerated from /repo by go2coq on every check), on the operands named
    there; every other translated guard, store and loop header of the anchored code is pinned *)
Theorem C18_source_tie : C18_source_tie_statement.
Proof. exact C18_source_tie_proof. Qed.
Print Assumptions C18_source_tie.

(** The decision-critical functions of the anchored code have exactly the decisions the source tie knows about
    (go2coq manifests, regenerated from /repo on every check; statement in SourceManifest.v). *)
From Kardia Require Import C18.SourceManifest.
Theorem C18_source_manifest : C18_source_manifest_statement.
Proof. exact C18_source_manifest_proof. Qed.
Print Assumptions C18_source_manifest.
