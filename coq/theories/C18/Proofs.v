(** C18 proofs, part 2: the consensus reactor's Receive paths into PeerState and the gossip-side
    bit-array expressions never panic, never allocate above the limit, keep the peer state
    well-formed and release every mutex; block-sync lock balance; framing; wire round trip. *)
From Coq Require Import List ZArith NArith Bool Lia.
From Kardia Require Import C18.Model C18.ProofsBits Generated.C18Facts.
Import ListNotations.
Local Open Scope Z_scope.

(** ** Well-formed peer state *)

Definition wf_prs (p : PRS) : Prop :=
  wf_oba (p_parts p) /\ wf_oba (p_pol p) /\ wf_oba (p_prevotes p) /\ wf_oba (p_precommits p) /\
  wf_oba (p_lc p) /\ wf_oba (p_cc p).

Lemma wf_prs0 : wf_prs prs0.
Proof. unfold wf_prs, prs0; cbn; tauto. Qed.

Lemma wf_cc_of : forall p, wf_prs p -> wf_oba (cc_of p).
Proof. intros p H. unfold cc_of. destruct (p_cc_alias p); unfold wf_prs in H; tauto. Qed.

Lemma wf_read_slot : forall p s, wf_prs p -> wf_oba (read_slot p s).
Proof. intros p s H. destruct s; cbn; try (unfold wf_prs in H; tauto). now apply wf_cc_of. Qed.

Ltac prs := unfold wf_prs in *; cbn in *; tauto.

Lemma wf_set_parts : forall p v, wf_prs p -> wf_oba v -> wf_prs (set_parts p v). Proof. intros; prs. Qed.
Lemma wf_set_pol : forall p v, wf_prs p -> wf_oba v -> wf_prs (set_pol p v). Proof. intros; prs. Qed.
Lemma wf_set_prevotes : forall p v, wf_prs p -> wf_oba v -> wf_prs (set_prevotes p v). Proof. intros; prs. Qed.
Lemma wf_set_precommits : forall p v, wf_prs p -> wf_oba v -> wf_prs (set_precommits p v). Proof. intros; prs. Qed.
Lemma wf_set_lc : forall p v, wf_prs p -> wf_oba v -> wf_prs (set_lc p v). Proof. intros; prs. Qed.
Lemma wf_set_cc : forall p v a, wf_prs p -> wf_oba v -> wf_prs (set_cc p v a). Proof. intros; prs. Qed.

Lemma wf_write_slot : forall p s v, wf_prs p -> wf_oba v -> wf_prs (write_slot p s v).
Proof.
  intros p s v H Hv. destruct s; cbn;
    [apply wf_set_prevotes|apply wf_set_precommits| |apply wf_set_pol|apply wf_set_lc]; auto.
  destruct (p_cc_alias p); [apply wf_set_precommits|apply wf_set_cc]; auto.
Qed.

(** ** PeerState setters *)

Lemma set_has_vote_safe : forall p h r t idx, wf_prs p -> 0 <= idx -> safe wf_prs (set_has_vote p h r t idx).
Proof.
  intros p h r t idx H Hi. unfold set_has_vote.
  destruct (get_slot p h r t) as [s|]; [|exact H].
  pose proof (wf_read_slot p s H) as Hs. destruct (read_slot p s) as [b|]; [|exact H].
  eapply safe_bind; [apply set_index_safe; assumption|].
  intros x [Hx _]. cbn. apply wf_write_slot; assumption.
Qed.

Lemma ensure_slot : forall (p : PRS) (cur : option BitArray) (n : Z) (setter : PRS -> option BitArray -> PRS),
    wf_prs p -> n <= bmax -> (forall q v, wf_prs q -> wf_oba v -> wf_prs (setter q v)) ->
    safe wf_prs (match cur with Some _ => Ok p | None => do b <- new_bitarray n; Ok (setter p b) end).
Proof.
  intros p cur n setter H Hn Hset. destruct cur; [exact H|].
  eapply safe_bind; [apply new_bitarray_safe; assumption|]. intros b Hb. cbn. apply Hset; assumption.
Qed.

Lemma ensure_vote_bit_arrays_safe : forall p h n, wf_prs p -> n <= bmax -> safe wf_prs (ensure_vote_bit_arrays p h n).
Proof.
  intros p h n H Hn. unfold ensure_vote_bit_arrays.
  destruct (p_height p =? h).
  - eapply safe_bind; [apply (ensure_slot p (p_prevotes p) n set_prevotes H Hn wf_set_prevotes)|]. intros p1 H1.
    eapply safe_bind; [apply (ensure_slot p1 (p_precommits p1) n set_precommits H1 Hn wf_set_precommits)|]. intros p2 H2.
    eapply safe_bind; [apply (ensure_slot p2 (cc_of p2) n (fun q v => set_cc q v false) H2 Hn); intros; apply wf_set_cc; assumption|]. intros p3 H3.
    apply (ensure_slot p3 (p_pol p3) n set_pol H3 Hn wf_set_pol).
  - destruct (p_height p =? as_uint (h + 1)); [|exact H].
    apply (ensure_slot p (p_lc p) n set_lc H Hn wf_set_lc).
Qed.

Lemma ensure_catchup_safe : forall p h r n, wf_prs p -> n <= bmax -> safe wf_prs (ensure_catchup_commit_round p h r n).
Proof.
  intros p h r n H Hn. unfold ensure_catchup_commit_round.
  destruct (negb (p_height p =? h)); [exact H|]. destruct (p_ccr p =? r); [exact H|].
  destruct (r =? p_round p).
  - cbn. prs.
  - eapply safe_bind; [apply new_bitarray_safe; assumption|]. intros b Hb. cbn. prs.
Qed.

Lemma apply_nrs_wf : forall p h r s lcr, wf_prs p -> wf_prs (apply_nrs p h r s lcr).
Proof.
  intros p h r s lcr H. pose proof (wf_cc_of p H) as Hcc. unfold apply_nrs.
  destruct (compare_hrs h r s (p_height p) (p_round p) (p_step p) <=? 0); [exact H|].
  cbv zeta.
  destruct (negb (p_height p =? h) || negb (p_round p =? r));
  destruct ((p_height p =? h) && negb (p_round p =? r) && (r =? p_ccr p));
  destruct (negb (p_height p =? h));
  destruct (cc_of p) as [c|] eqn:Ecc; destruct (p_cc_alias p);
  try destruct ((as_uint (p_height p + 1) =? h) && (p_round p =? lcr));
  unfold wf_prs in *; cbn in *; try tauto.
Qed.

Lemma set_has_proposal_safe : forall p h r polr total, wf_prs p -> total <= bmax ->
  safe wf_prs (set_has_proposal p h r polr total).
Proof.
  intros p h r polr total H Ht. unfold set_has_proposal.
  destruct (negb (p_height p =? h) || negb (p_round p =? r)); [exact H|].
  destruct (p_proposal p); [exact H|].
  destruct (p_parts p) eqn:E; [unfold wf_prs in *; rewrite E in H; cbn in *; tauto|].
  eapply safe_bind; [apply new_bitarray_safe; assumption|]. intros b Hb. cbn. prs.
Qed.

Lemma set_has_part_safe : forall p h r idx, wf_prs p -> 0 <= idx -> safe wf_prs (set_has_part p h r idx).
Proof.
  intros p h r idx H Hi. unfold set_has_part.
  destruct (negb (p_height p =? h) || negb (p_round p =? r)); [exact H|].
  destruct (p_parts p) as [b|] eqn:E; [|exact H].
  eapply safe_bind; [apply set_index_safe; [unfold wf_prs in H; rewrite E in H; cbn in H; tauto|assumption]|].
  intros x [Hx _]. cbn. apply wf_set_parts; assumption.
Qed.

Lemma apply_nvb_wf : forall p h r total ba ic, wf_prs p -> wf_ba ba -> wf_prs (apply_nvb p h r total ba ic).
Proof.
  intros p h r total ba ic H Hb. unfold apply_nvb.
  destruct (negb (p_height p =? h)); [exact H|]. destruct (negb (p_round p =? r) && negb ic); [exact H|]. prs.
Qed.

Lemma apply_pol_wf : forall p h polr ba, wf_prs p -> wf_ba ba -> wf_prs (apply_pol p h polr ba).
Proof.
  intros p h polr ba H Hb. unfold apply_pol.
  destruct (negb (p_height p =? h)); [exact H|]. destruct (negb (p_polround p =? polr)); [exact H|].
  apply wf_set_pol; assumption.
Qed.

Lemma apply_hv_safe : forall p h r t idx, wf_prs p -> 0 <= idx -> safe wf_prs (apply_hv p h r t idx).
Proof. intros. unfold apply_hv. destruct (negb (p_height p =? h)); [assumption|]. now apply set_has_vote_safe. Qed.

Lemma apply_vsb_safe : forall p h r t vm ours, wf_prs p -> wf_ba vm -> wf_oba ours -> safe wf_prs (apply_vsb p h r t vm ours).
Proof.
  intros p h r t vm ours H Hvm Ho. unfold apply_vsb.
  destruct (get_slot p h r t) as [s|]; [|exact H].
  pose proof (wf_read_slot p s H) as Hs. destruct (read_slot p s) as [v|]; [|exact H].
  destruct ours as [o|].
  - eapply safe_bind; [apply (sub_safe (Some v) (Some o)); assumption|]. intros other Hot.
    eapply safe_bind; [apply (or_safe other (Some vm)); assumption|]. intros has Hhas.
    cbn. apply wf_write_slot; [assumption|]. apply (update_wf (Some v) has). exact Hs.
  - cbn. apply wf_write_slot; [assumption|]. apply (update_wf (Some v) (Some vm)). exact Hs.
Qed.

(** ** Messages that passed MsgFromProto *)

(** fields that are unsigned on the wire (uint32 in the .proto) *)
Definition wire_typed (w : wire) : Prop :=
  match w with
  | WBP _ _ idx _ _ _ _ => 0 <= idx
  | WVoteMsg (Some v) => 0 <= wv_index v
  | WHV _ _ _ idx => 0 <= idx
  | _ => True
  end.

Definition msg_ok (m : msg) : Prop :=
  match m with
  | MNVB _ _ _ ba _ => wf_ba ba
  | MProp _ _ _ total => total <= bmax
  | MPOL _ _ ba => wf_ba ba
  | MBP _ _ idx => 0 <= idx
  | MVote _ _ _ idx => 0 <= idx
  | MHV _ _ _ idx => 0 <= idx
  | MVSB _ _ _ ba => wf_ba ba
  | _ => True
  end.

Lemma from_proto_ok : forall w m, wire_typed w -> from_proto w = Some m -> msg_ok m.
Proof.
  intros w m Ht H. pose proof bmax_facts as [F1 [F2 [F3 F4]]].
  destruct w; cbv beta iota zeta delta [from_proto] in H; try discriminate.
  - destruct ((step_min <=? step mod 256) && (step mod 256 <=? step_max)); inversion H; exact I.
  - destruct (negb (ba_valid (from_wbits ba))) eqn:E1; [discriminate|].
    destruct (size (Some (from_wbits ba)) =? 0); [discriminate|].
    destruct (negb (size (Some (from_wbits ba)) =? total)); [discriminate|].
    destruct (max_block_parts_count <? size (Some (from_wbits ba))) eqn:E4; [discriminate|].
    inversion H; subst. cbn. apply negb_false_iff in E1. apply Z.ltb_ge in E4.
    apply (ba_valid_wf ba); [assumption|lia].
  - destruct (negb (bid_complete (bid_of bid))); [discriminate|].
    destruct (max_block_parts_count <? b_total (bid_of bid)) eqn:E; [discriminate|].
    destruct (siglen =? 0); [discriminate|]. inversion H; subst. cbn [msg_ok]. apply Z.ltb_ge in E. cbn in E. lia.
  - destruct (negb (ba_valid (from_wbits (Some ba)))) eqn:E1; [discriminate|].
    destruct (size (Some (from_wbits (Some ba))) =? 0); [discriminate|].
    destruct (max_votes_count <? size (Some (from_wbits (Some ba)))) eqn:E3; [discriminate|].
    inversion H; subst. cbn. apply negb_false_iff in E1. apply Z.ltb_ge in E3.
    apply (ba_valid_wf (Some ba)); [assumption|exact E3].
  - destruct (negb (leaflen =? merkle_size)); [discriminate|].
    destruct (negb (badaunts =? 0)); [discriminate|].
    destruct (block_part_size_bytes <? byteslen); [discriminate|]. inversion H; subst. exact Ht.
  - destruct v as [v|]; [|discriminate].
    destruct (negb (type_valid (wv_type v))); [discriminate|].
    destruct (negb (bid_zero (bid_of (wv_bid v))) && negb (bid_complete (bid_of (wv_bid v)))); [discriminate|].
    destruct (wv_siglen v =? 0); [discriminate|]. inversion H; subst. exact Ht.
  - destruct (type_valid t); inversion H; subst. exact Ht.
  - destruct (type_valid t); inversion H; subst. exact I.
  - destruct (negb (type_valid t)); [discriminate|].
    destruct (negb (ba_valid (from_wbits (Some ba)))) eqn:E1; [discriminate|].
    destruct (max_votes_count <? size (Some (from_wbits (Some ba)))) eqn:E3; [discriminate|].
    inversion H; subst. cbn. apply negb_false_iff in E1. apply Z.ltb_ge in E3.
    apply (ba_valid_wf (Some ba)); [assumption|exact E3].
Qed.

(** ** Receive *)

(** what the node hands to the handler: validator counts within the vote-array bound and a
    well-formed own vote array *)
Definition env_ok (e : env) : Prop :=
  e_vals e <= bmax /\ e_last_commit e <= bmax /\ wf_oba (e_our_votes e).

Definition good (x : list ev * outcome * PRS) : Prop :=
  let '(tr, o, p) := x in
  held tr [] = [] /\ wf_prs p /\ (o = Accepted \/ o = Rejected).

Lemma fin_good : forall tr r p, held tr [] = [] -> safe wf_prs r -> wf_prs p -> good (fin tr r p).
Proof. intros tr r p Ht Hr Hp. destruct r; cbn in *; try contradiction. auto. Qed.

Lemma dispatch_good : forall e ch m p, env_ok e -> msg_ok m -> wf_prs p -> good (dispatch e ch m p).
Proof.
  intros e ch m p [Hv [Hlc Hov]] Hm Hp. unfold dispatch.
  destruct (ch =? chan_state).
  { destruct m; try solve [cbn; auto].
    - destruct (nrs_height_ok h lcr (e_initial e)); [|cbn; auto].
      apply fin_good; [reflexivity|apply apply_nrs_wf; assumption|assumption].
    - apply fin_good; [reflexivity|apply apply_nvb_wf; assumption|assumption].
    - apply fin_good; [reflexivity|apply apply_hv_safe; assumption|assumption].
    - destruct (e_maj23 e); cbn; auto. }
  destruct (ch =? chan_data).
  { destruct m; try solve [cbn; auto].
    - apply fin_good; [reflexivity|apply set_has_proposal_safe; assumption|assumption].
    - apply fin_good; [reflexivity|apply apply_pol_wf; assumption|assumption].
    - apply fin_good; [reflexivity|apply set_has_part_safe; assumption|assumption]. }
  destruct (ch =? chan_vote).
  { destruct m; try solve [cbn; auto].
    cbn [with_ps].
    pose proof (ensure_vote_bit_arrays_safe p (e_height e) (e_vals e) Hp Hv) as H1.
    destruct (ensure_vote_bit_arrays p (e_height e) (e_vals e)) as [p1| |]; cbn in H1; try contradiction.
    pose proof (ensure_vote_bit_arrays_safe p1 (e_height e - 1) (e_last_commit e) H1 Hlc) as H2.
    destruct (ensure_vote_bit_arrays p1 (e_height e - 1) (e_last_commit e)) as [p2| |]; cbn in H2; try contradiction.
    apply fin_good; [reflexivity|apply set_has_vote_safe; assumption|assumption]. }
  destruct (ch =? chan_vsb).
  { destruct m; try solve [cbn; auto].
    apply fin_good; [reflexivity| |assumption].
    apply apply_vsb_safe; [assumption|assumption|]. destruct (e_height e =? h); [assumption|exact I]. }
  cbn; auto.
Qed.

Definition st_ok (st : option PRS) : Prop := match st with None => True | Some p => wf_prs p end.

(** the main statement about Receive: whatever the channel, the bytes (as decoded structure), the
    node values and the peer state, the handler neither panics, nor allocates above the limit, nor
    leaves a mutex held; and the peer state stays well-formed *)
Lemma handle_good : forall e ch w st, env_ok e -> wire_typed w -> st_ok st ->
  (fst (handle e ch w st) = Accepted \/ fst (handle e ch w st) = Rejected) /\ st_ok (snd (handle e ch w st)).
Proof.
  intros e ch w st He Hw Hst. unfold handle, handle_trace.
  destruct (negb (e_running e)); [cbn; auto|].
  destruct (from_proto w) as [m|] eqn:Em; [|cbn; auto].
  destruct st as [p|]; [|cbn; auto].
  pose proof (dispatch_good e ch m p He (from_proto_ok w m Hw Em) Hst) as Hg.
  destruct (dispatch e ch m p) as [[tr o] p']. cbn in Hg. destruct Hg as [Hh [Hp Ho]].
  rewrite Hh. cbn. auto.
Qed.

Lemma handle_no_crash : forall e ch w st, env_ok e -> wire_typed w -> st_ok st -> fst (handle e ch w st) <> Crash.
Proof. intros e ch w st He Hw Hs. destruct (handle_good e ch w st He Hw Hs) as [[H|H] _]; rewrite H; discriminate. Qed.

Lemma handle_no_leak : forall e ch w st, env_ok e -> wire_typed w -> st_ok st -> fst (handle e ch w st) <> LockLeak.
Proof. intros e ch w st He Hw Hs. destruct (handle_good e ch w st He Hw Hs) as [[H|H] _]; rewrite H; discriminate. Qed.

Lemma handle_no_alloc : forall e ch w st n, env_ok e -> wire_typed w -> st_ok st -> fst (handle e ch w st) <> Alloc n.
Proof. intros e ch w st n He Hw Hs. destruct (handle_good e ch w st He Hw Hs) as [[H|H] _]; rewrite H; discriminate. Qed.

Lemma handle_keeps_wf : forall e ch w st, env_ok e -> wire_typed w -> st_ok st -> st_ok (snd (handle e ch w st)).
Proof. intros e ch w st He Hw Hs. exact (proj2 (handle_good e ch w st He Hw Hs)). Qed.

(** invariant over any sequence of deliveries, starting from NewPeerState *)
Fixpoint run (st : option PRS) (ds : list (env * Z * wire)) : list outcome * option PRS :=
  match ds with
  | [] => ([], st)
  | (e, ch, w) :: t =>
    let '(o, st') := handle e ch w st in
    let '(os, st'') := run st' t in (o :: os, st'')
  end.

Lemma run_good : forall ds st,
    st_ok st -> Forall (fun d => env_ok (fst (fst d)) /\ wire_typed (snd d)) ds ->
    Forall (fun o => o = Accepted \/ o = Rejected) (fst (run st ds)) /\ st_ok (snd (run st ds)).
Proof.
  induction ds as [|[[e ch] w] t IH]; intros st Hst Hall; cbn; [auto|].
  inversion Hall as [|d l [He Hw] Ht]; subst. cbn in He, Hw.
  destruct (handle_good e ch w st He Hw Hst) as [Ho Hs].
  destruct (handle e ch w st) as [o st'] eqn:Eh. cbn in Ho, Hs.
  destruct (IH st' Hs Ht) as [Hos Hs']. destruct (run st' t) as [os st'']. cbn in *. auto.
Qed.

(** ** Gossip side *)

Definition vs_ok (v : voteset) : Prop := vs_size v <= bmax /\ wf_oba (vs_bits v).

Lemma pick_vote_pre_safe : forall p v, wf_prs p -> vs_ok v ->
  safe (fun x => wf_prs (fst (fst x)) /\ wf_oba (snd (fst x))) (pick_vote_pre p v).
Proof.
  intros p v Hp [Hs Hb]. unfold pick_vote_pre.
  destruct (vs_size v =? 0); [cbn; auto|].
  eapply safe_bind with (P := wf_prs).
  { destruct (vs_commit v); [apply ensure_catchup_safe; assumption|exact Hp]. }
  intros p1 H1. eapply safe_bind; [apply ensure_vote_bit_arrays_safe; assumption|]. intros p2 H2.
  destruct (get_slot p2 (vs_height v) (vs_round v) (vs_type v)) as [s|]; [|cbn; auto].
  pose proof (wf_read_slot p2 s H2) as Hsl. destruct (read_slot p2 s) as [ps|]; [|cbn; auto].
  eapply safe_bind; [apply (sub_safe (vs_bits v) (Some ps)); assumption|]. intros d Hd. cbn. auto.
Qed.

Lemma pick_vote_no_crash : forall p v, wf_prs p -> vs_ok v ->
  (fst (fst (pick_vote p v)) = PickNone \/ fst (fst (pick_vote p v)) = PickSome) /\ wf_prs (snd (fst (pick_vote p v))).
Proof.
  intros p v Hp Hv. unfold pick_vote. pose proof (pick_vote_pre_safe p v Hp Hv) as H.
  destruct (pick_vote_pre p v) as [[[p2 d] s]| |]; cbn in H; try contradiction.
  cbn. destruct H as [H2 _]. destruct (pick_some d); auto.
Qed.

Lemma pick_vote_post_safe : forall p v idx, wf_prs p -> 0 <= idx -> safe wf_prs (pick_vote_post p v idx).
Proof. intros. unfold pick_vote_post. now apply set_has_vote_safe. Qed.

Lemma gossip_data_no_crash : forall p hh ours, wf_prs p -> wf_oba ours ->
  fst (gossip_data p hh ours) = PickNone \/ fst (gossip_data p hh ours) = PickSome.
Proof.
  intros p hh ours Hp Ho. unfold gossip_data. destruct (negb hh); [cbn; auto|].
  assert (H : safe wf_oba (do c <- (match p_parts p with None => Ok None | Some b => do c <- copy b; Ok (Some c) end); sub_ ours c)).
  { eapply safe_bind with (P := wf_oba).
    - destruct (p_parts p) as [b|] eqn:E; [|exact I].
      assert (wf_ba b) by (unfold wf_prs in Hp; rewrite E in Hp; cbn in Hp; tauto).
      eapply safe_bind; [apply copy_safe; assumption|]. intros c ->. assumption.
    - intros c Hc. apply sub_safe; assumption. }
  destruct (do c <- _; sub_ ours c) as [d| |]; cbn in H; try contradiction.
  cbn. destruct (pick_some d); auto.
Qed.

(** ** Why the validation matters: the same handlers with an array ValidateBasic now refuses *)

Definition bad_pol : BitArray := {| ba_bits := 4; ba_elems := [] |}.
Definition prs_bad : PRS :=
  {| p_height := 1; p_round := 2; p_step := 3; p_proposal := true; p_total := 1; p_parts := None;
     p_polround := 1; p_pol := Some bad_pol; p_prevotes := None; p_precommits := None;
     p_lcr := 0; p_lc := None; p_ccr := 0; p_cc := None; p_cc_alias := false |}.
Definition env1 : env :=
  {| e_running := true; e_height := 1; e_vals := 4; e_last_commit := 0; e_initial := 1; e_our_votes := None; e_maj23 := M23Skip |}.

(** before 8b6016a ProposalPOL{Bits:4, Elems:[]} was accepted and stored; HasVote{H1,R1,prevote,0} then panics *)
Example unvalidated_array_crashes :
  fst (handle env1 chan_state (WHV 1 1 prevote_type 0) (Some prs_bad)) = Crash.
Proof. reflexivity. Qed.

Example bad_pol_now_rejected :
  handle env1 chan_data (WPOL 1 1 {| wb_bits := 4; wb_elems := [] |}) (Some prs0) = (Rejected, Some prs0).
Proof. reflexivity. Qed.

Example negative_bits_rejected :
  fst (handle env1 chan_data (WPOL 1 1 {| wb_bits := -200; wb_elems := [1%N] |}) (Some prs0)) = Rejected.
Proof. reflexivity. Qed.

(** the honest empty VoteSetBits reply (Bits 0, no words) against a 4-validator array: fine since 35ce00b *)
Definition prs_votes : PRS :=
  {| p_height := 1; p_round := 1; p_step := 3; p_proposal := false; p_total := 0; p_parts := None;
     p_polround := 0; p_pol := None; p_prevotes := Some {| ba_bits := 4; ba_elems := [5%N] |}; p_precommits := None;
     p_lcr := 0; p_lc := None; p_ccr := 0; p_cc := None; p_cc_alias := false |}.
Definition env_vsb : env :=
  {| e_running := true; e_height := 1; e_vals := 4; e_last_commit := 0; e_initial := 1;
     e_our_votes := Some {| ba_bits := 4; ba_elems := [1%N] |}; e_maj23 := M23Skip |}.
Definition some_bid : WBlockID := {| w_hash := [1%N]; w_total := 1; w_pshash := [1%N] |}.

Example empty_votes_accepted :
  fst (handle env_vsb chan_vsb (WVSB 1 1 prevote_type some_bid {| wb_bits := 0; wb_elems := [] |}) (Some prs_votes)) = Accepted.
Proof. reflexivity. Qed.

(** a proposal claiming 2^32-1 parts is refused since 512e73d (before: 512 MiB per message) *)
Example huge_total_rejected :
  fst (handle env1 chan_data (WProp 1 1 0 {| w_hash := [1%N]; w_total := 4294967295; w_pshash := [1%N] |} 65) (Some prs0)) = Rejected.
Proof. reflexivity. Qed.

(** the hypotheses of the main lemma are satisfiable *)
Example hyps_satisfiable : env_ok env_vsb /\ st_ok (Some prs_votes) /\ wire_typed (WHV 1 1 1 0).
Proof.
  unfold env_ok, st_ok, wf_prs, wf_oba, wf_ba, bmax, max_votes_count, words_for, len; cbn.
  repeat split; try lia; try discriminate.
Qed.

(** ** Block-sync reactor: lock balance (and the regression 2cdb1a0 repaired) *)

Lemma bc_locks_balanced : forall m c, bc_receive m c <> LockLeak.
Proof.
  intros m c. unfold bc_receive, seal2, bc_receive_trace.
  destruct (negb (bc_valid m)); cbn; [discriminate|].
  destruct m; cbn; try discriminate; destruct c; cbn; discriminate.
Qed.

Lemma bc_no_crash : forall m c, bc_receive m c = Accepted \/ bc_receive m c = Rejected.
Proof.
  intros m c. unfold bc_receive, seal2, bc_receive_trace.
  destruct (negb (bc_valid m)); cbn; [auto|].
  destruct m; cbn; auto; destruct c; cbn; auto.
Qed.

Example bc_old_leaks : bc_receive_old (BBlockResp true) false = LockLeak.
Proof. reflexivity. Qed.

(** ** Framing *)

(** a delivered message never exceeds the channel's RecvMessageCapacity *)
Lemma frame_step_cap : forall cfg recving f evs r' alive ch total cap,
    frame_step cfg recving f = (evs, r', alive) -> In (FRecv ch total) evs ->
    lookup ch (c_caps cfg) = Some cap -> total <= cap.
Proof.
  intros cfg recving f evs r' alive ch total cap H Hin Hcap.
  destruct f; cbn in H; try (inversion H; subst; cbn in Hin; intuition discriminate).
  destruct (c_max_packet cfg <? pktlen); [inversion H; subst; cbn in Hin; intuition discriminate|].
  destruct (lookup (ch0 mod 256) (c_caps cfg)) as [cap'|] eqn:El; [|inversion H; subst; cbn in Hin; intuition discriminate].
  destruct (cap' <? match lookup (ch0 mod 256) recving with Some x => x | None => 0 end + datalen) eqn:Ec;
    [inversion H; subst; cbn in Hin; intuition discriminate|].
  destruct eof; inversion H; subst; cbn in Hin; [|contradiction].
  destruct Hin as [Hin|[]]. inversion Hin; subst. rewrite El in Hcap. inversion Hcap; subst.
  apply Z.ltb_ge in Ec. exact Ec.
Qed.

(** ** Wire round trip of the modelled consensus messages *)

(** MsgToProto of a message, seen through Unmarshal (hashes are 32 bytes on the way out) *)
Definition hash32 (zero : bool) : list N := if zero then repeat 0%N 32 else 1%N :: repeat 0%N 31.

Definition to_wire (m : msg) : wire :=
  match m with
  | MNRS h r s secs lcr => WNRS h r s secs lcr
  | MNVB h r total ba ic => WNVB h r total (hash32 false) (Some (to_wbits ba)) ic
  | MPOL h polr ba => WPOL h polr (to_wbits ba)
  | MHV h r t idx => WHV h r t idx
  | MVSB h r t ba => WVSB h r t {| w_hash := hash32 false; w_total := 1; w_pshash := hash32 false |} (to_wbits ba)
  | MM23 h r t => WM23 h r t {| w_hash := hash32 false; w_total := 1; w_pshash := hash32 false |}
  | MBP h r idx => WBP h r idx 0 merkle_size 0 0
  | MProp h r polr total => WProp h r polr {| w_hash := hash32 false; w_total := total; w_pshash := hash32 false |} 65
  | MVote t h r idx => WVoteMsg (Some {| wv_type := t; wv_height := h; wv_round := r;
                                         wv_bid := {| w_hash := hash32 true; w_total := 0; w_pshash := hash32 true |};
                                         wv_index := idx; wv_siglen := 65 |})
  end.

(** a message as the node itself builds it *)
Definition msg_wellformed (m : msg) : Prop :=
  match m with
  | MNRS _ _ s _ _ => step_min <= s <= step_max
  | MNVB _ _ total ba _ => wf_ba ba /\ 0 < ba_bits ba /\ ba_bits ba = total /\ total <= max_block_parts_count
  | MPOL _ _ ba => wf_ba ba /\ 0 < ba_bits ba
  | MHV _ _ t _ | MM23 _ _ t => type_valid t = true
  | MVSB _ _ t ba => type_valid t = true /\ wf_ba ba
  | MBP _ _ _ => True
  | MProp _ _ _ total => 0 < total <= max_block_parts_count
  | MVote t _ _ _ => type_valid t = true
  end.

Lemma from_to_wbits : forall ba, wf_ba ba -> from_wbits (Some (to_wbits ba)) = ba.
Proof.
  intros [bits elems] [Hb Hl]. cbn in *. unfold from_wbits, to_wbits. cbn.
  rewrite as_int_small by (apply bmax_int32; assumption). rewrite as_uint_small by (apply bmax_int32; assumption). reflexivity.
Qed.

Lemma wf_ba_valid : forall ba, wf_ba ba -> ba_valid ba = true.
Proof.
  intros ba [Hb Hl]. unfold ba_valid. rewrite as_int_small by (apply bmax_int32; assumption).
  apply andb_true_iff. split; [apply Z.leb_le; pose proof bmax_facts; lia|apply Z.eqb_eq; exact Hl].
Qed.

Lemma wire_roundtrip : forall m, msg_wellformed m -> from_proto (to_wire m) = Some m.
Proof.
  intros m H. pose proof bmax_facts as [F1 [F2 [F3 F4]]]. destruct m; cbn [to_wire from_proto].
  - cbn in H. assert (step mod 256 = step) as -> by (apply Z.mod_small; unfold step_min, step_max in H; lia).
    destruct H as [H1 H2]. apply Z.leb_le in H1. apply Z.leb_le in H2. now rewrite H1, H2.
  - destruct H as [Hw [Hp [Ht Hm]]]. rewrite (from_to_wbits ba Hw). rewrite (wf_ba_valid ba Hw). cbn [negb size].
    destruct Hw as [Hb Hl]. rewrite as_int_small by (apply bmax_int32; assumption).
    assert (ba_bits ba =? 0 = false) as -> by (apply Z.eqb_neq; lia).
    assert (ba_bits ba =? total = true) as -> by (apply Z.eqb_eq; assumption).
    assert (max_block_parts_count <? ba_bits ba = false) as -> by (apply Z.ltb_ge; lia). reflexivity.
  - cbn in H. unfold bid_of, bid_complete, psh_zero. cbn.
    assert (total =? 0 = false) as -> by (apply Z.eqb_neq; lia).
    assert (max_block_parts_count <? total = false) as -> by (apply Z.ltb_ge; lia). reflexivity.
  - destruct H as [Hw Hp]. rewrite (from_to_wbits ba Hw). rewrite (wf_ba_valid ba Hw). cbn [negb size].
    destruct Hw as [Hb Hl]. rewrite as_int_small by (apply bmax_int32; assumption).
    assert (ba_bits ba =? 0 = false) as -> by (apply Z.eqb_neq; lia).
    assert (max_votes_count <? ba_bits ba = false) as -> by (apply Z.ltb_ge; unfold bmax in Hb; lia). reflexivity.
  - unfold merkle_size. cbn. reflexivity.
  - cbn in H. cbn. rewrite H. cbn. reflexivity.
  - cbn in H. cbn. now rewrite H.
  - cbn in H. cbn. now rewrite H.
  - destruct H as [Ht Hw]. rewrite Ht. cbn [negb]. rewrite (from_to_wbits ba Hw). rewrite (wf_ba_valid ba Hw). cbn [negb size].
    destruct Hw as [Hb Hl]. rewrite as_int_small by (apply bmax_int32; assumption).
    assert (max_votes_count <? ba_bits ba = false) as -> by (apply Z.ltb_ge; unfold bmax in Hb; lia). reflexivity.
Qed.
