(** C18 proofs (first part): lock balance, framing, block-sync lock regression. *)
From Coq Require Import List ZArith NArith Bool Lia.
From Kardia Require Import C18.Model Generated.C18Facts.
Import ListNotations.
Local Open Scope Z_scope.

Lemma bc_locks_balanced : forall m c, bc_receive m c <> LockLeak.
Proof.
  intros m c. unfold bc_receive, seal2, bc_receive_trace.
  destruct (negb (bc_valid m)); cbn; [discriminate|].
  destruct m; cbn; try discriminate; destruct c; cbn; try discriminate;
    try (destruct block_ok; cbn; discriminate).
Qed.

Example bc_old_leaks : bc_receive_old (BBlockResp true) false = LockLeak.
Proof. reflexivity. Qed.
