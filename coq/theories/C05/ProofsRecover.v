(** C05 — recovery on the crash images of the commit pipeline (lemmas). *)
From Coq Require Import List Arith Bool Lia.
From Kardia Require Import C05.Model.
Import ListNotations.

(** * the chain after n finished heights and the pipeline of the next height, as observed *)
Section Chain.
Variable txs : nat -> bool.

Definition wal_height (h : nat) : list rkind :=
  [RStep; RTimeout h 1 1; RStep; RProp h 1 (txs h); RPart h 1 (txs h); RStep; RVote 1 h 1 false;
   RStep; RVote 2 h 1 false; RStep; REnd h].

Fixpoint wal_upto (n : nat) : list rkind :=
  match n with 0 => [REnd 0] | S k => wal_upto k ++ wal_height (S k) end.

(** durable state after [n] heights were decided, saved, applied and recorded *)
Definition img_after (archive : bool) (n : nat) : image :=
  {| i_blocks := seq 1 n; i_txblocks := map (fun h => (h, txs h)) (seq 1 n);
     i_apps := seq 0 (S n); i_tries := if archive then seq 0 (S n) else [0];
     i_pending := None; i_head := Some n; i_cstates := seq 0 (S n); i_canon0 := true;
     i_badapps := []; i_wal := wal_upto n |}.

(** the ordered durable writes of height [h] (harness: pipeline-order oracle) *)
Definition pipeline (archive : bool) (h : nat) : list entry :=
  [EWal [RStep; RTimeout h 1 1]; EWal [RStep; RProp h 1 (txs h)]; EWal [RPart h 1 (txs h)];
   EWal [RStep; RVote 1 h 1 false]; EWal [RStep; RVote 2 h 1 false];
   EDb (WBlock h (txs h)); EWal [RStep; REnd h]; EDb (WBinfo h)]
  ++ (if archive then [EDb WTrie] else []) ++ [EDb (WHead h false); EDb (WCState h)].

(** crash after the first [i] durable writes of height [n+1] *)
Definition crash_img (archive : bool) (n i : nat) : image :=
  fold_left (fun im e => apply_entry e im) (firstn i (pipeline archive (S n))) (img_after archive n).
End Chain.

(** * list facts *)
Lemma memb_app : forall h l1 l2, memb h (l1 ++ l2) = memb h l1 || memb h l2.
Proof. induction l1 as [|x t IH]; intros l2; cbn; [reflexivity|]. rewrite IH, orb_assoc. reflexivity. Qed.

Lemma memb_In : forall h l, memb h l = true <-> In h l.
Proof.
  induction l as [|x t IH]; cbn; [split; [discriminate|tauto]|].
  rewrite orb_true_iff, IH, Nat.eqb_eq. tauto.
Qed.

Lemma memb_self_seq0 : forall n, memb n (seq 0 (S n)) = true.
Proof. intros. apply memb_In, in_seq. lia. Qed.

Lemma memb_succ_seq0 : forall n, memb (S n) (seq 0 (S n)) = false.
Proof. intros. destruct (memb (S n) (seq 0 (S n))) eqn:E; [|reflexivity]. apply memb_In, in_seq in E. lia. Qed.

Lemma memb_zero_seq0 : forall n, memb 0 (seq 0 (S n)) = true.
Proof. intros. reflexivity. Qed.

(** * rewind *)
Lemma rewind_hit : forall im h, has_state im h = true -> rewind im h = h.
Proof. intros im h H. destruct h; cbn [rewind]; rewrite H; reflexivity. Qed.

Lemma rewind_zero : forall im h,
  (forall x, memb x (i_tries im) = true -> x = 0) -> has_state im 0 = true -> rewind im h = 0.
Proof.
  intros im h Ht H0. induction h as [|h IH]; cbn [rewind].
  - rewrite H0. reflexivity.
  - destruct (has_state im (S h)) eqn:E; [|exact IH].
    unfold has_state in E. apply andb_prop in E. destruct E as [_ E]. apply Ht in E. discriminate.
Qed.

(** * what recover returns, from four facts about the image *)
Lemma recover_loaded : forall sc tl im h,
  i_canon0 im = true -> i_head im = Some h -> has_state im h = true -> memb h (i_cstates im) = true ->
  stores_agree (recover sc tl im) = true /\ r_hh (recover sc tl im) = h /\ r_start (recover sc tl im) = S h
  /\ r_fellback (recover sc tl im) = false.
Proof.
  intros sc tl im h Hc Hh Hs Hm. unfold recover. rewrite Hc, Hh. cbn [andb].
  unfold recover_view, heights_of. rewrite Hh, (rewind_hit _ _ Hs), Hm. cbn [fst snd].
  match goal with |- context [let '(s, p) := ?X in _] => destruct X as [s p] end.
  cbn. rewrite Nat.eqb_refl. repeat split; reflexivity.
Qed.

Lemma recover_fallback : forall sc tl im h,
  i_canon0 im = true -> i_head im = Some (S h) -> has_state im (S h) = true -> memb (S h) (i_cstates im) = false ->
  stores_agree (recover sc tl im) = false /\ r_hh (recover sc tl im) = S h /\ r_start (recover sc tl im) = 1
  /\ r_fellback (recover sc tl im) = true.
Proof.
  intros sc tl im h Hc Hh Hs Hm. unfold recover. rewrite Hc, Hh. cbn [andb].
  unfold recover_view, heights_of. rewrite Hh, (rewind_hit _ _ Hs), Hm. cbn [fst snd].
  match goal with |- context [let '(s, p) := ?X in _] => destruct X as [s p] end.
  cbn. repeat split; reflexivity.
Qed.

Lemma recover_rewound : forall sc tl im h,
  i_canon0 im = true -> i_head im = Some h ->
  (forall x, memb x (i_tries im) = true -> x = 0) -> has_state im 0 = true -> memb 0 (i_cstates im) = true ->
  stores_agree (recover sc tl im) = true /\ r_hh (recover sc tl im) = 0 /\ r_start (recover sc tl im) = 1.
Proof.
  intros sc tl im h Hc Hh Ht H0 Hm. unfold recover. rewrite Hc, Hh. cbn [andb].
  unfold recover_view, heights_of. rewrite Hh, (rewind_zero _ _ Ht H0), Hm. cbn [fst snd].
  match goal with |- context [let '(s, p) := ?X in _] => destruct X as [s p] end.
  cbn. repeat split; reflexivity.
Qed.

(** * the crash points of the pipeline *)
Ltac membs :=
  repeat (rewrite ?memb_app, ?memb_self_seq0, ?memb_succ_seq0, ?memb_zero_seq0; cbn [memb orb andb Nat.eqb]);
  rewrite ?Nat.eqb_refl, ?orb_true_r; cbn [orb andb]; try reflexivity.

(** flush-every-block mode, crash before the head batch (indices 0..9): head, state and
    consensus-state record are those of height n *)
Lemma archive_before_head : forall txs sc tl n i, i <= 9 ->
  let o := recover sc tl (crash_img txs true n i) in
  stores_agree o = true /\ r_hh o = n /\ r_start o = S n /\ r_fellback o = false.
Proof.
  intros txs sc tl n i Hi. cbv zeta.
  destruct i as [|[|[|[|[|[|[|[|[|[|j]]]]]]]]]]; try lia;
    (apply recover_loaded; unfold has_state; cbn -[seq memb]; membs).
Qed.

(** flush-every-block mode, crash after the head batch and before the consensus-state batch *)
Lemma archive_after_head : forall txs sc tl n,
  let o := recover sc tl (crash_img txs true n 10) in
  stores_agree o = false /\ r_hh o = S n /\ r_start o = 1 /\ r_fellback o = true.
Proof.
  intros. cbv zeta. apply recover_fallback; unfold has_state; cbn -[seq memb]; membs.
Qed.

(** flush-every-block mode, the whole pipeline done *)
Lemma archive_complete : forall txs sc tl n,
  let o := recover sc tl (crash_img txs true n 11) in
  stores_agree o = true /\ r_hh o = S n /\ r_start o = S (S n) /\ r_fellback o = false.
Proof.
  intros. cbv zeta. apply recover_loaded; unfold has_state; cbn -[seq memb]; membs.
Qed.

(** keep-recent mode: at every crash point the head is rewound to genesis and the node starts at height 1 *)
Lemma keeprecent_any : forall txs sc tl n i,
  let o := recover sc tl (crash_img txs false n i) in
  stores_agree o = true /\ r_hh o = 0 /\ r_start o = 1.
Proof.
  intros txs sc tl n i.
  assert (T : forall x, memb x [0] = true -> x = 0).
  { intros x H. destruct x; [reflexivity|discriminate]. }
  cbv zeta.
  destruct i as [|[|[|[|[|[|[|[|[|[|j]]]]]]]]]];
    (unfold crash_img, pipeline; cbn -[seq memb recover stores_agree]; rewrite ?firstn_nil; cbn -[seq memb recover stores_agree];
     eapply recover_rewound; try reflexivity; unfold has_state; cbn -[seq memb]; membs; try exact T).
Qed.

(** * witnesses for the crash points where the property fails (closed computations) *)
Definition sc_fixed : scen := {| sc_appfixed := true; sc_newtx := false |}.
Definition tx_all : nat -> bool := fun _ => true.
Definition tx_none : nat -> bool := fun _ => false.

(** crash index 7 of height 3 (after the #ENDHEIGHT fsync, before the app-hash batch), two heights done *)
Lemma witness_endheight :
  let o := recover sc_fixed TSynced (crash_img tx_all true 2 7) in
  r_replay o = RcEndPresent /\ r_start o = 3 /\ no_conflict o = false /\ r_repl_meta o = true /\ stores_agree o = true.
Proof. vm_compute. repeat split; reflexivity. Qed.

Lemma witness_endheight_8_9 :
  no_conflict (recover sc_fixed TSynced (crash_img tx_all true 2 8)) = false /\
  no_conflict (recover sc_fixed TSynced (crash_img tx_all true 2 9)) = false.
Proof. vm_compute. split; reflexivity. Qed.

(** crash index 10 of height 3 (after the head batch, before the consensus-state batch) *)
Lemma witness_fallback :
  let o := recover sc_fixed TSynced (crash_img tx_all true 2 10) in
  r_fellback o = true /\ r_start o = 1 /\ r_hh o = 3 /\ r_replay o = RcEndPresent /\ no_conflict o = false.
Proof. vm_compute. repeat split; reflexivity. Qed.

(** keep-recent mode, crash index 0 of height 2 (right after height 1 was recorded) *)
Lemma witness_rewound :
  let o := recover sc_fixed TSynced (crash_img tx_all false 1 0) in
  r_hh o = 0 /\ r_start o = 1 /\ r_replay o = RcEndPresent /\ no_conflict o = false /\ r_repl_meta o = true.
Proof. vm_compute. repeat split; reflexivity. Qed.

(** replay re-signs a different proposal: crash index 2 of height 3 (own proposal fsynced) *)
Lemma witness_resign :
  let o := recover sc_fixed TSynced (crash_img tx_all true 2 2) in
  r_replay o = RcReplayed /\ no_conflict o = false /\
  match r_sigs o with s :: _ => s_prop s = true /\ s_rel s = RelConf | [] => False end.
Proof. vm_compute. repeat split; reflexivity. Qed.

(** without transactions the re-created block is the logged one: no conflict at any crash point of
    heights 1..4 in flush mode before the head batch, and the replay class is as expected *)
Definition all_ok (archive : bool) (txs : nat -> bool) (n i : nat) : bool :=
  no_conflict (recover sc_fixed TSynced (crash_img txs archive n i)).

Lemma no_conflict_empty_blocks_small :
  forallb (fun n => forallb (fun i => all_ok true tx_none n i) (seq 0 10)) (seq 0 5) = true.
Proof. vm_compute. reflexivity. Qed.

(** with transactions: no conflict exactly at the crash points before the own proposal is durable *)
Lemma no_conflict_before_proposal_small :
  forallb (fun n => all_ok true tx_all n 0 && all_ok true tx_all n 1) (seq 0 5) = true.
Proof. vm_compute. reflexivity. Qed.

(** * second crash: recovery is idempotent on the durable image.
    The only database write a recovery makes to the chain pointers before consensus starts is
    the head-pointer rewrite of setHeadBeyondRoot; recovering again from the image that
    contains it gives the same answer. *)
Lemma rewind_ext : forall im' im x, (forall y, has_state im' y = has_state im y) -> rewind im' x = rewind im x.
Proof. intros im' im x Hs. induction x as [|x IH]; cbn [rewind]; rewrite Hs; [reflexivity|]. rewrite IH. reflexivity. Qed.

Lemma rewind_idem : forall im h, rewind im (rewind im h) = rewind im h.
Proof.
  intros im h. induction h as [|h IH]; cbn [rewind].
  - destruct (has_state im 0) eqn:E; cbn [rewind]; rewrite E; reflexivity.
  - destruct (has_state im (S h)) eqn:E; [apply rewind_hit; exact E|exact IH].
Qed.

Lemma second_crash_headptr : forall sc tl im h, i_head im = Some h ->
  recover sc tl (apply_db WHeadPtr im) = recover sc tl im.
Proof.
  intros sc tl im h Hh. unfold recover, recover_view, heights_of.
  cbn [apply_db i_head i_canon0 i_cstates i_wal i_blocks i_txblocks i_badapps i_apps i_tries]. rewrite Hh.
  erewrite (rewind_ext _ im) by (intro y; reflexivity). rewrite rewind_idem. reflexivity.
Qed.
