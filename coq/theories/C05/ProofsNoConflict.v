(** C05 — when a recovery cannot sign anything conflicting, and when it must (lemmas, unbounded).

    A block re-created after a restart is built from an empty pool: it equals a block proposed
    before the crash iff that one carried no transactions (and the application state is the
    regular one).  [no_conflict_general] holds for EVERY image - any database state, any WAL, any
    rotation, any tail. *)
From Coq Require Import List Arith Bool Lia.
From Kardia Require Import C05.Model C05.ProofsRecover C05.ProofsSearch C05.ProofsRotate.
Import ListNotations.

(** * what a search returns is in the log *)
Lemma after_end_incl : forall h l r, In r (after_end h l) -> In r l.
Proof.
  induction l as [|x t IH]; intros r H; [destruct H|].
  cbn [after_end] in H. destruct (is_end h x); [right; exact H|right; apply IH; exact H].
Qed.

Lemma scan_inl_incl : forall h f last rest, scan_file h last f = inl rest -> forall r, In r rest -> In r f.
Proof.
  induction f as [|x t IH]; intros last rest H r Hr; [discriminate|].
  destruct x; cbn [scan_file] in H; try (right; eapply IH; eassumption).
  destruct (h0 =? h); [injection H as <-; right; exact Hr|right; eapply IH; eassumption].
Qed.

Lemma search_rev_incl : forall h rfs last newer recs, search_rev h last rfs newer = Some recs ->
  forall r, In r recs -> In r (concat (rev rfs)) \/ In r newer.
Proof.
  induction rfs as [|f older IH]; intros last newer recs H r Hr; [discriminate|].
  cbn [search_rev] in H. cbn [rev]. rewrite concat_app. cbn [concat]. rewrite app_nil_r.
  destruct (scan_file h last f) as [rest|last'] eqn:E.
  - injection H as <-. apply in_app_or in Hr. destruct Hr as [Hr|Hr]; [|right; exact Hr].
    left. apply in_or_app. right. eapply scan_inl_incl; eassumption.
  - destruct (shortcut last' h); [discriminate|].
    destruct (IH _ _ _ H r Hr) as [Hi|Hi]; [left; apply in_or_app; left; exact Hi|].
    apply in_app_or in Hi. destruct Hi as [Hi|Hi]; [left; apply in_or_app; right; exact Hi|right; exact Hi].
Qed.

Lemma search_incl : forall h fs recs, search h fs = Some recs -> forall r, In r recs -> In r (concat fs).
Proof.
  intros h fs recs H r Hr. unfold search in H.
  destruct (search_rev_incl _ _ _ _ _ H r Hr) as [Hi|[]]. rewrite rev_involutive in Hi. exact Hi.
Qed.

(** the records catchupReplay reads are records of the durable WAL or the #ENDHEIGHT 0 of OnStart *)
Lemma flatw_incl : forall wal r, In r (flatw wal) -> In r wal \/ r = REnd 0.
Proof.
  intros wal r H. destruct (flatw_cases wal) as [E|E]; rewrite E in H.
  - left. apply filter_In in H. tauto.
  - apply in_app_or in H. destruct H as [H|[H|[]]]; [left; apply filter_In in H; tauto|right; symmetry; exact H].
Qed.

(** * proposals found in a list *)
Lemma first_prop_in : forall h l t, first_prop h l = Some t -> exists x, In (RProp h x t) l.
Proof.
  induction l as [|r rest IH]; intros t H; [discriminate|].
  destruct r; cbn [first_prop] in H; try (destruct (IH _ H) as [x Hx]; exists x; right; exact Hx).
  destruct (h0 =? h) eqn:E.
  - injection H as <-. apply Nat.eqb_eq in E. subst. exists r. left. reflexivity.
  - destruct (IH _ H) as [x Hx]. exists x. right. exact Hx.
Qed.

Lemma last_prop_in_gen : forall h l acc t,
  fold_left (fun acc r => match r with RProp x _ t => if x =? h then Some t else acc | _ => acc end) l acc = Some t ->
  acc = Some t \/ exists x, In (RProp h x t) l.
Proof.
  induction l as [|r rest IH]; intros acc t H; [left; exact H|].
  cbn [fold_left] in H. apply IH in H. destruct H as [H|[x Hx]]; [|right; exists x; right; exact Hx].
  destruct r; try (left; exact H).
  destruct (h0 =? h) eqn:E; [|left; exact H].
  injection H as <-. apply Nat.eqb_eq in E. subst. right. exists r. left. reflexivity.
Qed.

Lemma last_prop_in : forall h l t, last_prop h l = Some t -> exists x, In (RProp h x t) l.
Proof.
  intros h l t H. unfold last_prop in H. apply last_prop_in_gen in H. destruct H as [H|H]; [discriminate|exact H].
Qed.

(** * the signatures of a recovery, from three facts about its view *)
Lemma no_conflict_view : forall sc tl im v,
  sc_appfixed sc = true -> sc_newtx sc = false -> memb (cs_height im) (i_badapps im) = false ->
  wv_pubtx v = false -> match wv_logged v with Some t => t = false | None => True end ->
  no_conflict (recover_view sc tl im v) = true.
Proof.
  intros sc tl im v Hsc Hnew Hbad Hpub Hlog. unfold recover_view, cs_height in *.
  destruct (heights_of im) as [[hh hc] ld]. cbn [fst snd] in Hbad.
  rewrite Hsc, Hnew, Hbad, Hpub. cbn [orb andb negb].
  destruct (wv_logged v) as [t|]; [subst t|];
    destruct (wv_fstart v), (wv_fhc v), (hc =? 0), (wv_lpart v), (wv_lv1 v), (wv_lv2 v),
      (wv_pubp v), (wv_pubv1 v), (wv_pubv2 v), tl; reflexivity.
Qed.

Lemma conflict_view : forall sc tl im v,
  wv_fstart v = true -> wv_pubp v = true -> wv_pubtx v = true ->
  no_conflict (recover_view sc tl im v) = false.
Proof.
  intros sc tl im v H1 H2 H3. unfold recover_view.
  destruct (heights_of im) as [[hh hc] ld]. rewrite H1, H2, H3. reflexivity.
Qed.

(** * every image *)
Lemma no_conflict_general : forall sc tl im,
  sc_appfixed sc = true -> sc_newtx sc = false -> memb (cs_height im) (i_badapps im) = false ->
  (forall x t, In (RProp (S (cs_height im)) x t) (i_wal im) -> t = false) ->
  no_conflict (recover sc tl im) = true.
Proof.
  intros sc tl im Hsc Hnew Hbad Hp. unfold recover. fold (cs_height im).
  destruct (i_canon0 im && _); [reflexivity|].
  apply no_conflict_view; try assumption.
  - unfold view_of. cbn [wv_pubtx].
    destruct (last_prop (S (cs_height im)) (i_wal im)) as [t|] eqn:E; [|reflexivity].
    destruct (last_prop_in _ _ _ E) as [x Hx]. exact (Hp _ _ Hx).
  - unfold view_of. cbn [wv_logged].
    destruct (search (S (cs_height im)) (wal_onstart (split_files (i_wal im)))) as [r0|]; cbv beta iota; [exact I|].
    destruct (search (cs_height im) (wal_onstart (split_files (i_wal im)))) as [recs|] eqn:Es; cbv beta iota; [|exact I].
    destruct (first_prop (S (cs_height im)) recs) as [t|] eqn:E; [|exact I].
    destruct (first_prop_in _ _ _ E) as [x Hx].
    assert (Hin : In (RProp (S (cs_height im)) x t) (flatw (i_wal im))) by exact (search_incl _ _ _ Es _ Hx).
    destruct (flatw_incl _ _ Hin) as [Hw|Hw]; [exact (Hp _ _ Hw)|discriminate].
Qed.

(** * the images of the commit pipeline *)
Lemma leb_succ_false : forall n, (S n <=? n) = false.
Proof. intros. apply Nat.leb_gt. lia. Qed.

Lemma badapps_crash_img : forall txs n i, i_badapps (crash_img txs true n i) = [].
Proof.
  intros txs n i. unfold crash_img, pipeline.
  destruct i as [|[|[|[|[|[|[|[|[|[|[|i]]]]]]]]]]]; cbn -[Nat.leb]; rewrite ?firstn_nil, ?leb_succ_false; reflexivity.
Qed.

Lemma in_wal_upto_height : forall txs n h x t, In (RProp h x t) (wal_upto txs n) -> 1 <= h <= n /\ t = txs h.
Proof.
  intros txs n. induction n as [|n IH]; intros h x t H.
  - cbn in H. destruct H as [H|[]]. discriminate.
  - cbn [wal_upto] in H. apply in_app_or in H. destruct H as [H|H].
    + apply IH in H. destruct H as [H1 H2]. split; [lia|exact H2].
    + cbn in H. repeat (destruct H as [H|H]; try discriminate). 2: destruct H.
      injection H as <- <- <-. split; [lia|reflexivity].
Qed.

Lemma in_pipeline_prop : forall txs archive h i x t,
  In (RProp (S h) x t) (flat_map wal_of (firstn i (pipeline txs archive (S h)))) -> 2 <= i /\ t = txs (S h).
Proof.
  intros txs archive h i x t H. unfold pipeline in H.
  destruct i as [|[|i]]; cbn in H.
  - destruct H.
  - repeat (destruct H as [H|H]; try discriminate). destruct H.
  - split; [lia|].
    assert (Hall : In (RProp (S h) x t) (flat_map wal_of (pipeline txs archive (S h)))).
    { assert (Hs : forall (l : list entry) k r, In r (flat_map wal_of (firstn k l)) -> In r (flat_map wal_of l)).
      { induction l as [|e l IHl]; intros k r Hr; [rewrite firstn_nil in Hr; exact Hr|].
        destruct k; [destruct Hr|]. cbn [firstn flat_map] in *. apply in_app_or in Hr. apply in_or_app.
        destruct Hr as [Hr|Hr]; [left; exact Hr|right; eapply IHl; exact Hr]. }
      apply (Hs _ (S (S i))). unfold pipeline. cbn. exact H. }
    unfold pipeline in Hall. destruct archive; cbn in Hall;
      repeat (destruct Hall as [Hall|Hall]; try discriminate; try (injection Hall as _ <-; reflexivity)); destruct Hall.
Qed.

(** flush-every-block mode, the block of the crash height carries no transactions: no crash point
    before the head batch, after any number of heights, makes the restarted node sign anything
    conflicting *)
Lemma no_conflict_empty_blocks : forall txs sc tl n i, i <= 9 -> txs (S n) = false -> sc_appfixed sc = true -> sc_newtx sc = false ->
  no_conflict (recover sc tl (crash_img txs true n i)) = true.
Proof.
  intros txs sc tl n i Hi Htx Hsc Hnew. apply no_conflict_general; [exact Hsc|exact Hnew|rewrite badapps_crash_img; reflexivity|].
  rewrite cs_height_archive by exact Hi. intros x t H.
  rewrite i_wal_crash_img in H. apply in_app_or in H. destruct H as [H|H].
  - apply in_wal_upto_height in H. lia.
  - apply in_pipeline_prop in H. destruct H as [_ H]. rewrite H. exact Htx.
Qed.

(** ... and with any block: no crash point before the own proposal is durable *)
Lemma no_conflict_before_proposal : forall txs sc tl n i, i <= 1 -> sc_appfixed sc = true -> sc_newtx sc = false ->
  no_conflict (recover sc tl (crash_img txs true n i)) = true.
Proof.
  intros txs sc tl n i Hi Hsc Hnew. apply no_conflict_general; [exact Hsc|exact Hnew|rewrite badapps_crash_img; reflexivity|].
  rewrite cs_height_archive by lia. intros x t H.
  rewrite i_wal_crash_img in H. apply in_app_or in H. destruct H as [H|H].
  - apply in_wal_upto_height in H. lia.
  - apply in_pipeline_prop in H. lia.
Qed.

(** * the crash points after #ENDHEIGHT: every height, as soon as the block carries transactions *)
Lemma has_end_wal_upto_above : forall txs n h, n < h -> has_end h (wal_upto txs n) = false.
Proof.
  intros txs n h Hh. destruct (has_end h (wal_upto txs n)) eqn:E; [|reflexivity].
  apply has_end_markers in E. rewrite markers_wal_upto in E. apply in_seq in E. lia.
Qed.

Lemma existsb_prop_wal_upto_above : forall txs n h, n < h -> existsb (is_prop h) (wal_upto txs n) = false.
Proof.
  intros txs n h Hh. destruct (existsb (is_prop h) (wal_upto txs n)) eqn:E; [|reflexivity].
  apply existsb_exists in E. destruct E as [r [Hin Hr]]. destruct r; try discriminate.
  cbn in Hr. apply Nat.eqb_eq in Hr. subst. apply in_wal_upto_height in Hin. lia.
Qed.

Lemma last_prop_app : forall h l1 l2, last_prop h (l1 ++ l2) =
  match last_prop h l2 with Some t => Some t | None => last_prop h l1 end.
Proof.
  intros h l1 l2. unfold last_prop. rewrite fold_left_app. generalize (fold_left
    (fun acc r => match r with RProp x _ t => if x =? h then Some t else acc | _ => acc end) l1 None).
  induction l2 as [|r t IH] using rev_ind; intros acc; [destruct acc; reflexivity|].
  rewrite !fold_left_app. cbn [fold_left]. rewrite IH.
  destruct r; try reflexivity. destruct (h0 =? h); [reflexivity|]. reflexivity.
Qed.

Lemma wal_upto_nonempty : forall txs n, wal_upto txs n <> [].
Proof.
  intros txs n. destruct n; [discriminate|]. cbn [wal_upto]. intro H. apply app_eq_nil in H. destruct H as [_ H]. discriminate.
Qed.

Lemma crash_img_wal_nonempty : forall txs n i, exists r t, i_wal (crash_img txs true n i) = r :: t.
Proof.
  intros. rewrite i_wal_crash_img. pose proof (wal_upto_nonempty txs n) as Hne.
  destruct (wal_upto txs n) as [|r t]; [contradiction|]. eexists; eexists; reflexivity.
Qed.

Lemma forallb_filter_notrot : forall l, forallb notrot (filter notrot l) = true.
Proof.
  induction l as [|r t IH]; [reflexivity|].
  cbn [filter]. destruct (notrot r) eqn:Er; [cbn [forallb]; rewrite Er; exact IH|exact IH].
Qed.

Lemma conflict_after_endheight : forall txs sc tl n i, 7 <= i <= 9 -> txs (S n) = true ->
  no_conflict (recover sc tl (crash_img txs true n i)) = false.
Proof.
  intros txs sc tl n i Hi Htx. unfold recover. fold (cs_height (crash_img txs true n i)).
  rewrite cs_height_archive by lia.
  destruct (archive_before_head txs sc tl n i ltac:(lia)) as [_ [_ [Hst _]]]. cbv zeta in Hst.
  destruct (i_canon0 (crash_img txs true n i) && _) eqn:E.
  { unfold recover in Hst. rewrite E in Hst. discriminate. }
  set (W := i_wal (crash_img txs true n i)).
  assert (HW : W = wal_upto txs n ++ flat_map wal_of (firstn i (pipeline txs true (S n)))) by apply i_wal_crash_img.
  assert (Hnr : forallb notrot W = true).
  { unfold W. rewrite <- (crash_img_notrot txs true n i). apply forallb_filter_notrot. }
  assert (Hfiles : wal_onstart (split_files W) = [W]).
  { rewrite (split_files_norot W Hnr). destruct (crash_img_wal_nonempty txs n i) as [r [t Ert]].
    fold W in Ert. rewrite Ert. reflexivity. }
  apply conflict_view.
  - unfold view_of. cbn [wv_fstart]. fold W. rewrite Hfiles, search_single. unfold flat_search.
    rewrite HW, has_end_app, has_end_wal_upto_above by lia.
    unfold pipeline. destruct i as [|[|[|[|[|[|[|[|[|[|i]]]]]]]]]]; try lia; cbn; rewrite Nat.eqb_refl; reflexivity.
  - unfold view_of. cbn [wv_pubp]. fold W. rewrite HW, existsb_app, existsb_prop_wal_upto_above by lia.
    unfold pipeline. destruct i as [|[|[|[|[|[|[|[|[|[|i]]]]]]]]]]; try lia; cbn; rewrite Nat.eqb_refl; reflexivity.
  - unfold view_of. cbn [wv_pubtx]. fold W. rewrite HW, last_prop_app.
    unfold pipeline. destruct i as [|[|[|[|[|[|[|[|[|[|i]]]]]]]]]]; try lia; cbn; rewrite Nat.eqb_refl, Htx; reflexivity.
Qed.

(** * the closed-form image and the fold of the observed log agree on the head pointer *)
Lemma head_after_pipeline : forall txs archive h im,
  i_head (fold_left (fun im e => apply_entry e im) (pipeline txs archive h) im) = Some h.
Proof. intros txs archive h im. unfold pipeline. destruct archive; reflexivity. Qed.

Lemma image_head_of_chain_log : forall txs archive n,
  i_head (fold_left (fun im e => apply_entry e im)
            (flat_map (fun h => pipeline txs archive h) (seq 1 n)) (img_after txs archive 0))
  = i_head (img_after txs archive n).
Proof.
  intros txs archive n. destruct n as [|n]; [reflexivity|].
  replace (S n) with (n + 1) at 1 by lia. rewrite seq_app, flat_map_app, fold_left_app.
  cbn [seq flat_map]. rewrite app_nil_r, head_after_pipeline. cbn [img_after i_head]. f_equal; lia.
Qed.

(** * a pool that holds a new transaction after the restart: the re-created block differs from
    every original one; every crash point after the #ENDHEIGHT fsync conflicts at every height,
    whatever the original blocks carried *)
Lemma conflict_view_newtx : forall sc tl im v,
  sc_newtx sc = true -> wv_fstart v = true -> wv_pubp v = true ->
  no_conflict (recover_view sc tl im v) = false.
Proof.
  intros sc tl im v Hn H1 H2. unfold recover_view.
  destruct (heights_of im) as [[hh hc] ld]. rewrite H1, H2, Hn. destruct (wv_pubtx v); reflexivity.
Qed.

(** * "continues like a twin": the signature requests of the restarted node at its start height
    are exactly those of a node that never crashed - one proposal, one prevote and one precommit
    for a block in round 1 - under the hypotheses of [no_conflict_view] *)
Definition sig_shape (s : sigobs) := (s_prop s, s_ty s, s_h s, s_r s, s_nil s).

Lemma twin_shape_view : forall sc tl im v,
  sc_appfixed sc = true -> sc_newtx sc = false -> memb (cs_height im) (i_badapps im) = false ->
  wv_pubtx v = false -> match wv_logged v with Some t => t = false | None => True end ->
  map sig_shape (r_sigs (recover_view sc tl im v)) =
  [(true, 0, S (cs_height im), 1, false); (false, 1, S (cs_height im), 1, false); (false, 2, S (cs_height im), 1, false)].
Proof.
  intros sc tl im v Hsc Hnew Hbad Hpub Hlog. unfold recover_view, cs_height in *.
  destruct (heights_of im) as [[hh hc] ld]. cbn [fst snd] in *.
  rewrite Hsc, Hnew, Hbad, Hpub. cbn [orb andb negb].
  destruct (wv_logged v) as [t|]; [subst t|];
    destruct (wv_fstart v), (wv_fhc v), (hc =? 0), (wv_lpart v), (wv_lv1 v), (wv_lv2 v),
      (wv_pubp v), (wv_pubv1 v), (wv_pubv2 v), tl; reflexivity.
Qed.

Lemma twin_signatures : forall txs sc tl n i, i <= 9 -> txs (S n) = false -> sc_appfixed sc = true -> sc_newtx sc = false ->
  map sig_shape (r_sigs (recover sc tl (crash_img txs true n i))) =
  [(true, 0, S n, 1, false); (false, 1, S n, 1, false); (false, 2, S n, 1, false)].
Proof.
  intros txs sc tl n i Hi Htx Hsc Hnew.
  destruct (archive_before_head txs sc tl n i Hi) as [_ [_ [Hst _]]]. cbv zeta in Hst.
  unfold recover in *. fold (cs_height (crash_img txs true n i)) in *.
  destruct (i_canon0 (crash_img txs true n i) && _) eqn:E; [discriminate|].
  assert (Hp : forall x t, In (RProp (S (cs_height (crash_img txs true n i))) x t) (i_wal (crash_img txs true n i)) -> t = false).
  { rewrite cs_height_archive by exact Hi. intros x t H.
    rewrite i_wal_crash_img in H. apply in_app_or in H. destruct H as [H|H].
    - apply in_wal_upto_height in H. lia.
    - apply in_pipeline_prop in H. destruct H as [_ H]. rewrite H. exact Htx. }
  rewrite twin_shape_view; [rewrite cs_height_archive by exact Hi; reflexivity|exact Hsc|exact Hnew|rewrite badapps_crash_img; reflexivity| |].
  - unfold view_of. cbn [wv_pubtx].
    destruct (last_prop _ (i_wal (crash_img txs true n i))) as [t|] eqn:El; [|reflexivity].
    destruct (last_prop_in _ _ _ El) as [x Hx]. exact (Hp _ _ Hx).
  - unfold view_of. cbn [wv_logged].
    destruct (search (S _) (wal_onstart (split_files (i_wal (crash_img txs true n i))))) as [r0|]; cbv beta iota; [exact I|].
    destruct (search _ (wal_onstart (split_files (i_wal (crash_img txs true n i))))) as [recs|] eqn:Es; cbv beta iota; [|exact I].
    destruct (first_prop _ recs) as [t|] eqn:Ef; [|exact I].
    destruct (first_prop_in _ _ _ Ef) as [x Hx].
    assert (Hin : In (RProp (S (cs_height (crash_img txs true n i))) x t) (flatw (i_wal (crash_img txs true n i)))) by exact (search_incl _ _ _ Es _ Hx).
    destruct (flatw_incl _ _ Hin) as [Hw|Hw]; [exact (Hp _ _ Hw)|discriminate].
Qed.
