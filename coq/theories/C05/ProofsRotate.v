(** C05 — recovery does not depend on where the WAL was rotated (lemmas).

    [norm] erases the rotation marks and the #ENDHEIGHT 0 markers (BaseWAL.OnStart writes one into
    every empty head).  For a restart at a height >= 2 on a log with increasing markers, everything
    [recover] reads from the WAL is a function of the normalised log. *)
From Coq Require Import List Arith Bool Lia.
From Kardia Require Import C05.Model C05.ProofsRecover C05.ProofsSearch.
Import ListNotations.

Definition keep (r : rkind) : bool :=
  match r with RRot => false | REnd 0 => false | _ => true end.
Definition norm (l : list rkind) : list rkind := filter keep l.

Lemma norm_app : forall l1 l2, norm (l1 ++ l2) = norm l1 ++ norm l2.
Proof. intros. apply filter_app. Qed.

Lemma norm_notrot : forall l, norm (filter notrot l) = norm l.
Proof.
  unfold norm. induction l as [|r t IH]; [reflexivity|].
  destruct r as [h| | | | | | |]; cbn [filter notrot keep]; rewrite ?IH; reflexivity.
Qed.

Lemma norm_snoc0 : forall l, norm (l ++ [REnd 0]) = norm l.
Proof. intros. rewrite norm_app. cbn. apply app_nil_r. Qed.

Lemma has_end_norm : forall h l, 1 <= h -> has_end h (norm l) = has_end h l.
Proof.
  intros h l Hh. induction l as [|r t IH]; [reflexivity|].
  cbn [norm filter has_end existsb]. fold (norm t). fold (has_end h t).
  destruct r as [x| | | | | | |]; cbn [keep is_end orb has_end existsb]; fold (has_end h (norm t)); rewrite ?IH; try reflexivity.
  destruct x; cbn [has_end existsb is_end]; fold (has_end h (norm t)); rewrite IH; [|reflexivity].
  destruct h; [lia|reflexivity].
Qed.

Lemma after_end_norm : forall h l, 1 <= h -> norm (after_end h l) = after_end h (norm l).
Proof.
  intros h l Hh. induction l as [|r t IH]; [reflexivity|].
  cbn [after_end norm filter]. fold (norm t).
  destruct r as [x| | | | | | |]; cbn [is_end keep after_end]; try exact IH.
  destruct x.
  - destruct h; [lia|]. cbn [Nat.eqb]. exact IH.
  - cbn [after_end is_end]. destruct (S x =? h); [reflexivity|exact IH].
Qed.

Lemma existsb_norm : forall p l, p RRot = false -> p (REnd 0) = false -> existsb p (norm l) = existsb p l.
Proof.
  intros p l H1 H2. induction l as [|r t IH]; [reflexivity|].
  cbn [norm filter existsb]. fold (norm t).
  destruct r as [x| | | | | | |]; cbn [keep existsb]; rewrite ?IH, ?H1; try reflexivity.
  destruct x; cbn [existsb]; rewrite IH, ?H2; reflexivity.
Qed.

Lemma first_prop_norm : forall s l, first_prop s (norm l) = first_prop s l.
Proof.
  intros s l. induction l as [|r t IH]; [reflexivity|].
  cbn [norm filter]. fold (norm t).
  destruct r as [x| | | | | | |]; cbn [keep first_prop]; rewrite ?IH; try reflexivity.
  destruct x; cbn [first_prop]; exact IH.
Qed.

Lemma last_prop_norm : forall s l, last_prop s (norm l) = last_prop s l.
Proof.
  intros s l. unfold last_prop. generalize (@None bool).
  induction l as [|r t IH]; intros acc; [reflexivity|].
  cbn [norm filter]. fold (norm t).
  destruct r as [x| | | | | | |]; cbn [keep fold_left]; rewrite ?IH; try reflexivity.
  destruct x; cbn [fold_left]; apply IH.
Qed.

(** * the view of the WAL as a function of the normalised log *)
Definition view_norm (start hc : nat) (nw : list rkind) : walview :=
  let fstart := has_end start nw in
  let fhc := has_end hc nw in
  let recs := if fstart then [] else if fhc then after_end hc nw else [] in
  let logged := first_prop start recs in
  let ltx := match logged with Some t => t | None => false end in
  {| wv_fstart := fstart; wv_fhc := fhc; wv_logged := logged;
     wv_lpart := existsb (is_part start ltx) recs;
     wv_lv1 := existsb (is_vote 1 start) recs; wv_lv2 := existsb (is_vote 2 start) recs;
     wv_pubp := existsb (is_prop start) nw;
     wv_pubtx := match last_prop start nw with Some t => t | None => false end;
     wv_pubv1 := existsb (is_vote 1 start) nw; wv_pubv2 := existsb (is_vote 2 start) nw |}.

Lemma sorted_snoc0 : forall l, sorted_markers l -> sorted_markers (l ++ [REnd 0]).
Proof.
  intros l H. apply sorted_app. repeat split; [exact H| |].
  - cbn. constructor; constructor.
  - intros x y _ [Hy|[]]. left. symmetry. exact Hy.
Qed.

Lemma split_files_nonempty : forall wal, split_files wal <> [].
Proof. intros wal. destruct (split_files_cons wal) as [f [fs E]]. rewrite E. discriminate. Qed.

(** the flat log catchupReplay searches: the files of the group after BaseWAL.OnStart *)
Definition flatw (wal : list rkind) : list rkind := concat (wal_onstart (split_files wal)).

Lemma flatw_cases : forall wal, flatw wal = filter notrot wal \/ flatw wal = filter notrot wal ++ [REnd 0].
Proof.
  intros wal. unfold flatw. rewrite <- concat_split_files.
  apply concat_onstart. apply split_files_nonempty.
Qed.

Lemma flatw_norm : forall wal, norm (flatw wal) = norm wal.
Proof.
  intros wal. destruct (flatw_cases wal) as [E|E]; rewrite E, ?norm_snoc0; apply norm_notrot.
Qed.

Lemma flatw_sorted : forall wal, sorted_markers (filter notrot wal) -> sorted_markers (flatw wal).
Proof.
  intros wal H. destruct (flatw_cases wal) as [E|E]; rewrite E; [exact H|apply sorted_snoc0; exact H].
Qed.

Lemma search_flatw : forall h wal, 1 <= h -> sorted_markers (filter notrot wal) ->
  search h (wal_onstart (split_files wal)) = flat_search h (flatw wal).
Proof. intros h wal Hh Hs. apply search_sorted; [exact Hh|]. apply flatw_sorted. exact Hs. Qed.

Lemma is_part_rot : forall s tx, is_part s tx RRot = false /\ is_part s tx (REnd 0) = false.
Proof. split; reflexivity. Qed.

Lemma view_of_norm : forall start hc wal, 1 <= start -> 1 <= hc -> sorted_markers (filter notrot wal) ->
  view_of start hc wal = view_norm start hc (norm wal).
Proof.
  intros start hc wal Hs Hc Hsort. unfold view_of, view_norm.
  rewrite (search_flatw start wal Hs Hsort), (search_flatw hc wal Hc Hsort). unfold flat_search.
  rewrite <- (has_end_norm start (flatw wal) Hs), <- (has_end_norm hc (flatw wal) Hc), !flatw_norm.
  rewrite !(existsb_norm _ wal) by reflexivity. rewrite last_prop_norm.
  destruct (has_end start (norm wal)) eqn:E1; [destruct (has_end hc (norm wal)); reflexivity|].
  destruct (has_end hc (norm wal)) eqn:E2; [|reflexivity].
  set (recs := after_end hc (flatw wal)).
  assert (En : norm recs = after_end hc (norm wal)).
  { unfold recs. rewrite (after_end_norm hc _ Hc), flatw_norm. reflexivity. }
  rewrite <- En. rewrite first_prop_norm. rewrite !(existsb_norm _ recs) by reflexivity. reflexivity.
Qed.

(** * recover on an image whose WAL was rotated differently *)
Definition set_wal (im : image) (w : list rkind) : image :=
  {| i_blocks := i_blocks im; i_txblocks := i_txblocks im; i_apps := i_apps im; i_tries := i_tries im;
     i_pending := i_pending im; i_head := i_head im; i_cstates := i_cstates im; i_canon0 := i_canon0 im;
     i_badapps := i_badapps im; i_wal := w |}.

Lemma heights_set_wal : forall im w, heights_of (set_wal im w) = heights_of im.
Proof.
  intros im w. unfold heights_of. cbn [set_wal i_head i_cstates].
  destruct (i_head im) as [h|]; [|reflexivity].
  rewrite (rewind_ext (set_wal im w) im h) by (intro y; reflexivity). reflexivity.
Qed.

Lemma recover_view_set_wal : forall sc tl im w v, recover_view sc tl (set_wal im w) v = recover_view sc tl im v.
Proof.
  intros. unfold recover_view. rewrite heights_set_wal. reflexivity.
Qed.

Definition cs_height (im : image) : nat := snd (fst (heights_of im)).

Lemma recover_norm : forall sc tl im, 1 <= cs_height im -> sorted_markers (filter notrot (i_wal im)) ->
  recover sc tl im =
  if i_canon0 im && match i_head im with None => true | Some _ => false end then fail_obs
  else recover_view sc tl im (view_norm (S (cs_height im)) (cs_height im) (norm (i_wal im))).
Proof.
  intros sc tl im Hc Hs. unfold recover. fold (cs_height im).
  rewrite view_of_norm by (try lia; exact Hs). reflexivity.
Qed.

(** two logs with the same normal form (the same records, rotated at other places or not at all,
    with other #ENDHEIGHT 0 markers of OnStart): the same recovery *)
Lemma recover_rotation_invariant : forall sc tl im w,
  1 <= cs_height im ->
  sorted_markers (filter notrot (i_wal im)) -> sorted_markers (filter notrot w) ->
  norm w = norm (i_wal im) ->
  recover sc tl (set_wal im w) = recover sc tl im.
Proof.
  intros sc tl im w Hc Hs1 Hs2 Hn.
  assert (Hc' : cs_height (set_wal im w) = cs_height im) by (unfold cs_height; rewrite heights_set_wal; reflexivity).
  rewrite (recover_norm sc tl im Hc Hs1).
  rewrite (recover_norm sc tl (set_wal im w)) by (rewrite ?Hc'; assumption).
  rewrite Hc'. cbn [set_wal i_canon0 i_head i_wal]. rewrite Hn, recover_view_set_wal. reflexivity.
Qed.

(** * the seeded slip: the shortcut taken on [lastHeightFound >= 0]
    [search_ge0] is [search] with the comparison of the shortcut changed; one rotation followed by
    a crash (the head holds only OnStart's #ENDHEIGHT 0) makes it miss every marker >= 1. *)
Definition shortcut_ge0 (last : option nat) (h : nat) : bool :=
  match last with Some l => l <? h | None => false end.

Fixpoint search_rev_ge0 (h : nat) (last : option nat) (rfiles : list (list rkind)) (newer : list rkind) : option (list rkind) :=
  match rfiles with
  | [] => None
  | f :: older =>
    match scan_file h last f with
    | inl rest => Some (rest ++ newer)
    | inr last' => if shortcut_ge0 last' h then None else search_rev_ge0 h last' older (f ++ newer)
    end
  end.
Definition search_ge0 (h : nat) (files : list (list rkind)) : option (list rkind) :=
  search_rev_ge0 h None (rev files) [].

Lemma search_ge0_misses : forall older h, 1 <= h ->
  search_ge0 h (older ++ [[REnd 0]]) = None.
Proof.
  intros older h Hh. unfold search_ge0. rewrite rev_app_distr. cbn [rev app search_rev_ge0 scan_file].
  destruct h; [lia|]. reflexivity.
Qed.

Lemma search_finds_behind_fresh_head : forall f h, 1 <= h -> has_end h f = true ->
  search h [f; [REnd 0]] = Some (after_end h f ++ [REnd 0]).
Proof.
  intros f h Hh Hf. unfold search. cbn [rev app search_rev scan_file].
  destruct h; [lia|]. cbn [Nat.eqb shortcut Nat.ltb Nat.leb andb].
  rewrite (scan_found _ _ _ Hf). reflexivity.
Qed.

(** * the pipeline images have increasing markers *)
Definition wal_of (e : entry) : list rkind := match e with EWal r => r | EDb _ => [] end.

Lemma i_wal_apply_db : forall w im, i_wal (apply_db w im) = i_wal im.
Proof. intros w im. destruct w; reflexivity. Qed.

Lemma i_wal_fold : forall es im,
  i_wal (fold_left (fun im e => apply_entry e im) es im) = i_wal im ++ flat_map wal_of es.
Proof.
  induction es as [|e es IH]; intros im; cbn [fold_left flat_map]; [rewrite app_nil_r; reflexivity|].
  rewrite IH. destruct e; cbn [apply_entry wal_of].
  - rewrite i_wal_apply_db. reflexivity.
  - cbn [add_wal i_wal]. rewrite <- app_assoc. reflexivity.
Qed.

Lemma markers_wal_upto : forall txs n, markers (wal_upto txs n) = seq 0 (S n).
Proof.
  intros txs n. induction n as [|n IH]; [reflexivity|].
  cbn [wal_upto]. rewrite markers_app, IH. cbn [wal_height markers].
  replace (S (S n)) with (S n + 1) by lia. rewrite seq_app. reflexivity.
Qed.

Lemma fop_seq : forall k a, ForallOrdPairs mk_ok (seq a k).
Proof.
  induction k as [|k IH]; intros a; cbn [seq]; constructor; [|apply IH].
  apply Forall_forall. intros y Hy. apply in_seq in Hy. right. lia.
Qed.

Lemma i_wal_crash_img : forall txs archive n i,
  i_wal (crash_img txs archive n i) = wal_upto txs n ++ flat_map wal_of (firstn i (pipeline txs archive (S n))).
Proof. intros. unfold crash_img. rewrite i_wal_fold. reflexivity. Qed.

(** the markers of the records of a pipeline prefix: none, or the #ENDHEIGHT of that height *)
Lemma markers_pipeline_prefix : forall txs archive h i,
  markers (flat_map wal_of (firstn i (pipeline txs archive h))) = [] \/
  markers (flat_map wal_of (firstn i (pipeline txs archive h))) = [h].
Proof.
  intros txs archive h i. unfold pipeline.
  destruct i as [|[|[|[|[|[|[|i]]]]]]]; cbn; try (left; reflexivity).
  right. destruct archive; destruct i as [|[|[|[|i]]]]; cbn; rewrite ?firstn_nil; reflexivity.
Qed.

Lemma crash_img_sorted : forall txs archive n i, sorted_markers (i_wal (crash_img txs archive n i)).
Proof.
  intros. rewrite i_wal_crash_img. apply sorted_app. repeat split.
  - unfold sorted_markers. rewrite markers_wal_upto. apply fop_seq.
  - unfold sorted_markers. destruct (markers_pipeline_prefix txs archive (S n) i) as [E|E]; rewrite E; repeat constructor.
  - intros x y Hx Hy. rewrite markers_wal_upto in Hx. apply in_seq in Hx.
    destruct (markers_pipeline_prefix txs archive (S n) i) as [E|E]; rewrite E in Hy; [destruct Hy|].
    destruct Hy as [Hy|[]]. right. lia.
Qed.

Lemma notrot_wal_upto : forall txs n, forallb notrot (wal_upto txs n) = true.
Proof.
  intros txs n. induction n as [|n IH]; [reflexivity|].
  cbn [wal_upto]. rewrite forallb_app, IH. reflexivity.
Qed.

Lemma filter_notrot_id : forall l, forallb notrot l = true -> filter notrot l = l.
Proof.
  induction l as [|r t IH]; intros H; [reflexivity|].
  cbn [forallb] in H. apply andb_prop in H. destruct H as [Hr Ht]. cbn [filter]. rewrite Hr, (IH Ht). reflexivity.
Qed.

Lemma notrot_pipeline_prefix : forall txs archive h i,
  forallb notrot (flat_map wal_of (firstn i (pipeline txs archive h))) = true.
Proof.
  intros txs archive h i. unfold pipeline.
  destruct i as [|[|[|[|[|[|[|i]]]]]]]; cbn; try reflexivity.
  destruct archive; destruct i as [|[|[|[|i]]]]; cbn; rewrite ?firstn_nil; reflexivity.
Qed.

Lemma crash_img_notrot : forall txs archive n i, filter notrot (i_wal (crash_img txs archive n i)) = i_wal (crash_img txs archive n i).
Proof.
  intros. apply filter_notrot_id. rewrite i_wal_crash_img, forallb_app, notrot_wal_upto, notrot_pipeline_prefix. reflexivity.
Qed.

(** consensus-state height of the flush-every-block crash images before the head batch *)
Lemma cs_height_archive : forall txs n i, i <= 9 -> cs_height (crash_img txs true n i) = n.
Proof.
  intros txs n i Hi.
  destruct (archive_before_head txs sc_fixed TSynced n i Hi) as [Ha [Hh [Hst _]]].
  cbv zeta in *. unfold cs_height.
  unfold recover in Hst.
  destruct (i_canon0 (crash_img txs true n i) && match i_head (crash_img txs true n i) with None => true | Some _ => false end) eqn:E.
  - cbn in Hst. discriminate.
  - unfold recover_view in Hst. destruct (heights_of (crash_img txs true n i)) as [[hh hc] ld]. cbn [fst snd] in *.
    match type of Hst with r_start (let '(s, p) := ?X in _) = _ => destruct X as [s p] end.
    cbn in Hst. lia.
Qed.

(** rotation invariance on the images of the commit pipeline *)
Lemma crash_img_rotation_invariant : forall txs sc tl n i w, 1 <= n -> i <= 9 ->
  sorted_markers (filter notrot w) -> norm w = norm (i_wal (crash_img txs true n i)) ->
  recover sc tl (set_wal (crash_img txs true n i) w) = recover sc tl (crash_img txs true n i).
Proof.
  intros txs sc tl n i w Hn Hi Hs Hw. apply recover_rotation_invariant; try assumption.
  - rewrite cs_height_archive by exact Hi. exact Hn.
  - rewrite crash_img_notrot. apply crash_img_sorted.
Qed.

(** * witnesses *)
(** height 1 (the initial height) IS sensitive to a rotation: own proposal durable (crash index 2
    of height 1), then the head is rotated away; OnStart's marker shadows the one in wal.000 *)
Lemma witness_rotation_initial_height :
  let im := crash_img tx_all true 0 2 in
  let o := recover sc_fixed TSynced im in
  let o' := recover sc_fixed TSynced (set_wal im (i_wal im ++ [RRot])) in
  wv_logged (view_of 1 0 (i_wal im)) = Some true /\
  wv_logged (view_of 1 0 (i_wal im ++ [RRot])) = None /\
  r_replay o' = RcReplayed /\ no_conflict o' = false /\
  match r_sigs o' with s :: _ => s_prop s = true /\ s_rel s = RelConf | [] => False end.
Proof. vm_compute. repeat split; reflexivity. Qed.

(** the same rotation at height 3 changes nothing *)
Lemma witness_rotation_later_height :
  let im := crash_img tx_all true 2 4 in
  recover sc_fixed TSynced (set_wal im (i_wal im ++ [RRot])) = recover sc_fixed TSynced im.
Proof. vm_compute. reflexivity. Qed.
