(** C05 — tie of the model's decisions to the Go SOURCE.

    [Generated/C05Source.v] is produced on every check by /verif/go2coq from /repo's working tree
    (spec go2coq/specs/C05.json): every guard, integer assignment and call binding of
      consensus/replay.go   catchupReplay
      consensus/state.go    finalizeCommit, OnStart, updateToState
      consensus/wal.go      BaseWAL.SearchForEndHeight, BaseWAL.OnStart, BaseWAL.WriteSync
      lib/autofile/group.go checkHeadSizeLimit, RotateFile, readGroupInfo, filePathForIndex,
                            GroupReader.Read, GroupReader.openFile
      kai/state/cstate      dbStore.Load, LoadStateFromDBOrGenesisDoc, loadStateAtHeight, saveState,
                            BlockExecutor.ApplyBlock, updateState
      mainchain/blockchain  NewBlockChain, loadLastState, setHeadBeyondRoot, writeHeadBlock,
                            writeBlockWithState, writeBlockAndSetHead, BlockOperations.SaveBlock,
                            CommitAndValidateBlockTxs
    as Gallina over [Z] with explicit machine-integer wraps (Base/GoSem.v).  The lemmas below say
    that C05/Model.v ([search], [scan_file], [shortcut], [wal_onstart], [view_of], [recover_view],
    [heights_of], [rewind]) and the pipeline of ProofsRecover.v decide with exactly those expressions
    on exactly those operands ([_atoms] lists: Go operand text and type; [bind_] pins: the call that
    produces a compared value).  Heights are [nat] in the model, [Z.of_nat] of them here.
    An edit of the Go source that changes a comparison, a constant, an operand or one of the pinned
    calls changes the generated file and re-opens these obligations: e.g. [lastHeightFound > 0] to
    [>= 0] renames the shortcut guard; [cs.wal.WriteSync(endMsg)] to [cs.wal.Write(endMsg)] changes
    the pinned call text of finalizeCommit. *)
From Coq Require Import String List ZArith Bool Lia Arith.
From Kardia Require Import Base.GoSem.
From Kardia Require Import Generated.C05Source.
From Kardia Require Import C05.Model C05.ProofsRecover C05.ProofsSearch.
Import ListNotations.
Local Open Scope Z_scope.

Definition zh (h : nat) : Z := Z.of_nat h.
(** lastHeightFound: -1 until a marker was seen *)
Definition zlast (last : option nat) : Z := match last with None => -1 | Some l => Z.of_nat l end.

Lemma ltb_nat_Z : forall a b : nat, (a <? b)%nat = (Z.of_nat a <? Z.of_nat b).
Proof. intros. destruct (Nat.ltb_spec a b); destruct (Z.ltb_spec (Z.of_nat a) (Z.of_nat b)); try reflexivity; lia. Qed.
Lemma eqb_nat_Z : forall a b : nat, (a =? b)%nat = (Z.of_nat a =? Z.of_nat b).
Proof. intros. destruct (Nat.eqb_spec a b); destruct (Z.eqb_spec (Z.of_nat a) (Z.of_nat b)); try reflexivity; lia. Qed.

(** * consensus/wal.go BaseWAL.SearchForEndHeight *)
(** the early exit at the end of a file *)
Lemma src_shortcut : forall last h,
  shortcut last h =
  consensus__BaseWAL_SearchForEndHeight__if_lastHeightFound_gt_0_and_lastHeightFound_lt_height (zlast last) (zh h).
Proof.
  intros [l|] h; unfold shortcut, zlast, zh,
    consensus__BaseWAL_SearchForEndHeight__if_lastHeightFound_gt_0_and_lastHeightFound_lt_height.
  - rewrite Z.gtb_ltb, !ltb_nat_Z. reflexivity.
  - reflexivity.
Qed.

(** found: [m.Height == height]; otherwise lastHeightFound = m.Height *)
Lemma src_scan_marker : forall h last x t,
  scan_file h last (REnd x :: t) =
  if consensus__BaseWAL_SearchForEndHeight__if_m_Height_eq_height (zh x) (zh h) then inl t
  else scan_file h (Some x) t.
Proof.
  intros. unfold consensus__BaseWAL_SearchForEndHeight__if_m_Height_eq_height, zh. cbn [scan_file].
  rewrite eqb_nat_Z. reflexivity.
Qed.

(** one file of the loop: found => the reader (it reads on through the younger files); end of the
    file => the early exit, else the next older file *)
Lemma src_search_step : forall h last f older newer,
  search_rev h last (f :: older) newer =
  match scan_file h last f with
  | inl rest => Some (rest ++ newer)
  | inr last' =>
    if consensus__BaseWAL_SearchForEndHeight__if_lastHeightFound_gt_0_and_lastHeightFound_lt_height (zlast last') (zh h)
    then None else search_rev h last' older (f ++ newer)
  end.
Proof. intros. cbn [search_rev]. destruct (scan_file h last f); [reflexivity|]. rewrite src_shortcut. reflexivity. Qed.

(** [for index := max; index >= min; index--] over a group whose files are 0 .. n-1 (the model has no
    pruning: min = 0, max = n-1): iteration j runs iff there is a j-th file from the head backwards;
    the model's [search_rev] walks [rev files] *)
Lemma src_search_loop : forall (n j : nat), (1 <= n)%nat ->
  consensus__BaseWAL_SearchForEndHeight__for_index_ge_min
    (consensus__BaseWAL_SearchForEndHeight__forinit_index (Z.of_nat (n - 1)) - Z.of_nat j) 0
  = (j <? n)%nat.
Proof.
  intros n j Hn. unfold consensus__BaseWAL_SearchForEndHeight__for_index_ge_min,
    consensus__BaseWAL_SearchForEndHeight__forinit_index.
  rewrite Z.geb_leb. destruct (Z.leb_spec 0 (Z.of_nat (n - 1) - Z.of_nat j)); destruct (Nat.ltb_spec j n); try reflexivity; lia.
Qed.

Lemma src_search_index_step : forall i : nat, (1 <= i)%nat -> Z.of_nat i <= 9223372036854775807 ->
  consensus__BaseWAL_SearchForEndHeight__set_index_op (Z.of_nat i) = Z.of_nat (i - 1).
Proof. intros i Hi Hr. unfold consensus__BaseWAL_SearchForEndHeight__set_index_op. gosem. lia. Qed.

Lemma src_search_atoms :
  consensus__BaseWAL_SearchForEndHeight__if_lastHeightFound_gt_0_and_lastHeightFound_lt_height_atoms
    = ["lastHeightFound : int64"; "height : int64"]%string /\
  consensus__BaseWAL_SearchForEndHeight__if_m_Height_eq_height_atoms = ["m.Height : int64"; "height : int64"]%string /\
  consensus__BaseWAL_SearchForEndHeight__for_index_ge_min_atoms = ["index : int"; "min : int"]%string /\
  consensus__BaseWAL_SearchForEndHeight__forinit_index_atoms = ["max : int"]%string /\
  consensus__BaseWAL_SearchForEndHeight__let_min_atoms = ["wal.group.MinIndex() : int"]%string /\
  consensus__BaseWAL_SearchForEndHeight__let_max_atoms = ["wal.group.MaxIndex() : int"]%string /\
  consensus__BaseWAL_SearchForEndHeight__bind_gr_err_atoms = ["wal.group.NewReader(index)"]%string /\
  consensus__BaseWAL_SearchForEndHeight__bind_msg_err_atoms = ["dec.Decode()"]%string.
Proof. repeat split; reflexivity. Qed.

(** * consensus/wal.go BaseWAL.OnStart: #ENDHEIGHT 0 is written, with an fsync, iff the head is empty
    (the model counts records: a file without records is a file of size 0) *)
Lemma src_onstart_head : forall f,
  wal_onstart [f] = [if consensus__BaseWAL_OnStart__if_size_eq_0 (Z.of_nat (List.length f)) then [REnd 0] else f].
Proof. intros [|r t]; reflexivity. Qed.

Lemma src_onstart_older : forall f g fs, wal_onstart (f :: g :: fs) = f :: wal_onstart (g :: fs).
Proof. reflexivity. Qed.

Lemma src_onstart_atoms :
  consensus__BaseWAL_OnStart__if_size_eq_0_atoms = ["size : int64"]%string /\
  consensus__BaseWAL_OnStart__bind_size_err_atoms = ["wal.group.Head.Size()"]%string /\
  consensus__BaseWAL_OnStart__bind_err_atoms = ["wal.WriteSync(EndHeightMessage{0})"]%string /\
  consensus__BaseWAL_WriteSync__bind_err_atoms = ["wal.Write(msg)"]%string /\
  consensus__BaseWAL_WriteSync__bind_err_2_atoms = ["wal.FlushAndSync()"]%string.
Proof. repeat split; reflexivity. Qed.

(** * consensus/replay.go catchupReplay *)
(** the height searched second: [endHeight := csHeight - 1; if csHeight == InitialHeight { endHeight = 0 }]
    (InitialHeight = 1): the model's [hc] for the start height [S hc] *)
Lemma src_end_height : forall hc : nat, Z.of_nat (S hc) <= 18446744073709551615 ->
  zh hc = if consensus__ConsensusState_catchupReplay__if_csHeight_eq_cs_state_InitialHeight (zh (S hc)) 1
          then consensus__ConsensusState_catchupReplay__let_endHeight
          else consensus__ConsensusState_catchupReplay__set_endHeight (zh (S hc)).
Proof.
  intros hc Hr. unfold consensus__ConsensusState_catchupReplay__if_csHeight_eq_cs_state_InitialHeight,
    consensus__ConsensusState_catchupReplay__let_endHeight, consensus__ConsensusState_catchupReplay__set_endHeight, zh.
  destruct (Z.eqb_spec (Z.of_nat (S hc)) 1); [lia|]. gosem. lia.
Qed.

Lemma src_not_below_initial : forall hc : nat,
  consensus__ConsensusState_catchupReplay__if_csHeight_lt_cs_state_InitialHeight (zh (S hc)) 1 = false.
Proof. intros. unfold consensus__ConsensusState_catchupReplay__if_csHeight_lt_cs_state_InitialHeight, zh. apply Z.ltb_ge. lia. Qed.

(** the class of the replay: [if found] after the search for the start height ("wal should not
    contain #ENDHEIGHT"), [if !found] after the search for the previous one ("cannot replay height");
    ([negb (hc =? 0)] is the model's: the WAL of a node always holds #ENDHEIGHT 0) *)
Definition replay_class (v : walview) (hc : nat) : rclass :=
  if consensus__ConsensusState_catchupReplay__if_found (wv_fstart v) then RcEndPresent
  else if consensus__ConsensusState_catchupReplay__if_not_found (wv_fhc v) && negb (hc =? 0)%nat then RcNoMarker
  else RcReplayed.

Lemma src_replay_class : forall sc im v,
  r_replay (recover_view sc TSynced im v) = replay_class v (snd (fst (heights_of im))).
Proof.
  intros sc im v. unfold recover_view, replay_class,
    consensus__ConsensusState_catchupReplay__if_found, consensus__ConsensusState_catchupReplay__if_not_found.
  destruct (heights_of im) as [[hh hc] ld]. cbn [fst snd].
  match goal with |- context [let '(s, p) := ?X in _] => destruct X as [s p] end. reflexivity.
Qed.

(** what is searched: the markers of the start height and of the previous height, in the files of
    the group as BaseWAL.OnStart left them *)
Lemma src_view_searches : forall start hc wal,
  wv_fstart (view_of start hc wal) = (if search start (wal_onstart (split_files wal)) then true else false) /\
  wv_fhc (view_of start hc wal) = (if search hc (wal_onstart (split_files wal)) then true else false).
Proof. intros. unfold view_of. cbn [wv_fstart wv_fhc]. split; destruct (search _ _); reflexivity. Qed.

Lemma src_catchup_atoms :
  consensus__ConsensusState_catchupReplay__bind_gr_found_err_atoms =
    ["cs.wal.SearchForEndHeight(int64(csHeight), &WALSearchOptions{IgnoreDataCorruptionErrors: true})"]%string /\
  consensus__ConsensusState_catchupReplay__bind_gr_found_err_2_atoms =
    ["cs.wal.SearchForEndHeight(int64(endHeight), &WALSearchOptions{IgnoreDataCorruptionErrors: true})"]%string /\
  consensus__ConsensusState_catchupReplay__if_found_atoms = ["found : bool"]%string /\
  consensus__ConsensusState_catchupReplay__if_not_found_atoms = ["found : bool"]%string /\
  consensus__ConsensusState_catchupReplay__set_endHeight_atoms = ["csHeight : uint64"]%string /\
  consensus__ConsensusState_catchupReplay__if_csHeight_eq_cs_state_InitialHeight_atoms = ["csHeight : uint64"; "cs.state.InitialHeight : uint64"]%string /\
  consensus__ConsensusState_catchupReplay__if_csHeight_lt_cs_state_InitialHeight_atoms = ["csHeight : uint64"; "cs.state.InitialHeight : uint64"]%string /\
  consensus__ConsensusState_catchupReplay__bind_msg_err_atoms = ["dec.Decode()"]%string /\
  consensus__ConsensusState_catchupReplay__bind_err_2_atoms = ["cs.readReplayMessage(msg, nil)"]%string.
Proof. repeat split; reflexivity. Qed.

(** * consensus/state.go OnStart: the catch-up loop
    [err == nil] => start; not a data-corruption error => "Proceeding to start State anyway";
    corruption and a repair already attempted => fail; corruption => repair, once more.
    The model: the classes RcEndPresent / RcNoMarker are errors that are not corruption: the node
    starts ([r_ok], no panic in OnStart) and signs from scratch. *)
Inductive onstart_act := OsStart | OsStartAnyway | OsFail | OsRepair.
Definition onstart_decide (err_nil corrupt attempted : bool) : onstart_act :=
  if consensus__ConsensusState_OnStart__case_err_eq_nil err_nil then OsStart
  else if consensus__ConsensusState_OnStart__case_not_IsDataCorruptionError_err corrupt then OsStartAnyway
  else if consensus__ConsensusState_OnStart__case_repairAttempted attempted then OsFail
  else OsRepair.

Lemma src_onstart_table :
  onstart_decide true false false = OsStart /\ onstart_decide false false false = OsStartAnyway /\
  onstart_decide false false true = OsStartAnyway /\
  onstart_decide false true false = OsRepair /\ onstart_decide false true true = OsFail.
Proof. repeat split; reflexivity. Qed.

(** a replay error that is not corruption never stops the start: the restarted node signs *)
Lemma src_onstart_anyway : forall sc im v, wv_fstart v = true ->
  onstart_decide false false false = OsStartAnyway /\
  r_ok (recover_view sc TSynced im v) = true /\ r_onstart_panic (recover_view sc TSynced im v) = false /\
  List.length (r_sigs (recover_view sc TSynced im v)) = 3%nat.
Proof.
  intros sc im v H. split; [reflexivity|]. unfold recover_view. destruct (heights_of im) as [[hh hc] ld].
  rewrite H. repeat split; reflexivity.
Qed.

Lemma src_onstart_loop_atoms :
  consensus__ConsensusState_OnStart__if_cs_doWALCatchup_atoms = ["cs.doWALCatchup : bool"]%string /\
  consensus__ConsensusState_OnStart__let_repairAttempted = false /\
  consensus__ConsensusState_OnStart__let_repairAttempted_2 = true /\
  consensus__ConsensusState_OnStart__bind_err_2_atoms = ["cs.catchupReplay(cs.Height)"]%string /\
  consensus__ConsensusState_OnStart__case_err_eq_nil_atoms = ["err == nil : bool"]%string /\
  consensus__ConsensusState_OnStart__case_not_IsDataCorruptionError_err_atoms = ["IsDataCorruptionError(err) : bool"]%string /\
  consensus__ConsensusState_OnStart__case_repairAttempted_atoms = ["repairAttempted : bool"]%string /\
  consensus__ConsensusState_OnStart__bind_err_3_atoms = ["cs.wal.Stop()"]%string /\
  consensus__ConsensusState_OnStart__bind_err_4_atoms = ["kos.CopyFile(cs.config.WalFile(), corruptedFile)"]%string.
Proof. repeat split; reflexivity. Qed.

(** * consensus/state.go finalizeCommit *)
(** the block is saved (again) iff [cs.blockOperations.Height() < block.Height()]: BlockOperations
    starts at the head height [hh]; the stored block meta of the start height is replaced only then *)
Lemma src_save_block_guard : forall hh start : nat,
  (hh <? start)%nat = consensus__ConsensusState_finalizeCommit__if_cs_blockOperations_Height_lt_block_Height (zh hh) (zh start).
Proof. intros. unfold consensus__ConsensusState_finalizeCommit__if_cs_blockOperations_Height_lt_block_Height, zh. apply ltb_nat_Z. Qed.

Lemma src_repl_meta : forall sc tl im v,
  let o := recover_view sc tl im v in
  r_repl_meta o = r_repl_canon o &&
    consensus__ConsensusState_finalizeCommit__if_cs_blockOperations_Height_lt_block_Height (zh (r_hh o)) (zh (r_start o)).
Proof.
  intros sc tl im v. cbv zeta. unfold recover_view. destruct (heights_of im) as [[hh hc] ld].
  match goal with |- context [let '(s, p) := ?X in _] => destruct X as [s p] end.
  cbn [r_repl_meta r_repl_canon r_hh r_start]. rewrite <- src_save_block_guard. reflexivity.
Qed.

(** finalizeCommit acts only for the current height in the commit step *)
Lemma src_finalize_guard : forall h x step : nat,
  consensus__ConsensusState_finalizeCommit__if_cs_Height_ne_height_or_cs_Step_ne_cstypes_RoundStepCommit (zh h) (zh x) (zh step) = false
  <-> h = x /\ step = 8%nat.
Proof.
  intros. unfold consensus__ConsensusState_finalizeCommit__if_cs_Height_ne_height_or_cs_Step_ne_cstypes_RoundStepCommit, go_neqb, zh.
  rewrite orb_false_iff, !negb_false_iff, !Z.eqb_eq. lia.
Qed.

(** the order of the pipeline's WAL fsync: the block is validated, THEN [#ENDHEIGHT] is written with
    [WriteSync] (its own fsync: the 7th durable write of [pipeline]), THEN the block is applied
    (ApplyBlock: app-hash batch, trie flush, head batch, consensus-state batch).  The three calls
    are the 1st, 2nd and 3rd call bindings to [err] / [stateCopy, _, err] of finalizeCommit. *)
Lemma src_finalize_calls :
  consensus__ConsensusState_finalizeCommit__bind_err_atoms = ["cs.blockExec.ValidateBlock(cs.state, block)"]%string /\
  consensus__ConsensusState_finalizeCommit__bind_err_2_atoms = ["cs.wal.WriteSync(endMsg)"]%string /\
  consensus__ConsensusState_finalizeCommit__bind_stateCopy_atoms = ["cs.state.Copy()"]%string /\
  consensus__ConsensusState_finalizeCommit__bind_blockID_ok_atoms = ["cs.Votes.Precommits(cs.CommitRound).TwoThirdsMajority()"]%string /\
  consensus__ConsensusState_finalizeCommit__if_cs_blockOperations_Height_lt_block_Height_atoms = ["cs.blockOperations.Height() : uint64"; "block.Height() : uint64"]%string.
Proof. repeat split; reflexivity. Qed.

(** the #ENDHEIGHT record of height h is a durable write of its own, after the block batch and
    before the application's batches *)
Lemma src_pipeline_endheight : forall txs archive h,
  nth_error (pipeline txs archive h) 5 = Some (EDb (WBlock h (txs h))) /\
  nth_error (pipeline txs archive h) 6 = Some (EWal [RStep; REnd h]) /\
  nth_error (pipeline txs archive h) 7 = Some (EDb (WBinfo h)).
Proof. intros. unfold pipeline. repeat split; reflexivity. Qed.

(** * consensus/state.go updateToState: the height the restarted node is in *)
Lemma src_start_height : forall hc : nat, Z.of_nat (S hc) <= 18446744073709551615 ->
  zh (S hc) = consensus__ConsensusState_updateToState__set_height (zh hc).
Proof. intros hc H. unfold consensus__ConsensusState_updateToState__set_height, zh. gosem. lia. Qed.

Lemma src_recover_start : forall sc tl im v,
  r_start (recover_view sc tl im v) = S (r_hc (recover_view sc tl im v)).
Proof.
  intros. unfold recover_view. destruct (heights_of im) as [[hh hc] ld].
  match goal with |- context [let '(s, p) := ?X in _] => destruct X as [s p] end. reflexivity.
Qed.

(** the sanity tests of updateToState hold along the model's runs: the state handed over is one
    height ahead *)
Lemma src_update_guards : forall h : nat, (1 <= h)%nat -> Z.of_nat (S h) <= 18446744073709551615 ->
  consensus__ConsensusState_updateToState__if_cs_state_LastBlockHeight_gt_0_and_cs_state_LastBlockHeight_p_73787044 (zh h) (zh (S h)) = false /\
  consensus__ConsensusState_updateToState__if_state_LastBlockHeight_le_cs_state_LastBlockHeight (zh (S h)) (zh h) = false /\
  consensus__ConsensusState_updateToState__if_height_eq_1 (zh (S h)) = false.
Proof.
  intros h H1 H2. unfold zh,
    consensus__ConsensusState_updateToState__if_cs_state_LastBlockHeight_gt_0_and_cs_state_LastBlockHeight_p_73787044,
    consensus__ConsensusState_updateToState__if_state_LastBlockHeight_le_cs_state_LastBlockHeight,
    consensus__ConsensusState_updateToState__if_height_eq_1.
  repeat split.
  - gosem. unfold go_neqb. replace (Z.of_nat h + 1) with (Z.of_nat (S h)) by lia. rewrite Z.eqb_refl. apply andb_false_r.
  - apply Z.leb_gt. lia.
  - apply Z.eqb_neq. lia.
Qed.

Lemma src_update_atoms :
  consensus__ConsensusState_updateToState__set_height_atoms = ["state.LastBlockHeight : uint64"]%string /\
  consensus__ConsensusState_updateToState__if_state_LastBlockHeight_le_cs_state_LastBlockHeight_atoms = ["state.LastBlockHeight : uint64"; "cs.state.LastBlockHeight : uint64"]%string /\
  consensus__ConsensusState_updateToState__if_cs_state_LastBlockHeight_gt_0_and_cs_state_LastBlockHeight_p_73787044_atoms = ["cs.state.LastBlockHeight : uint64"; "cs.Height : uint64"]%string.
Proof. repeat split; reflexivity. Qed.

(** * lib/autofile/group.go *)
(** a rotation: flush, fsync, close, rename to the index [maxIndex] (of [maxIndex+1] files), then
    [maxIndex++]; no new head.  In the model: an [RRot] mark, everything before it durable. *)
Lemma src_rotate_calls :
  lib_autofile__Group_RotateFile__bind_err_atoms = ["g.headBuf.Flush()"]%string /\
  lib_autofile__Group_RotateFile__bind_err_2_atoms = ["g.Head.Sync()"]%string /\
  lib_autofile__Group_RotateFile__bind_err_3_atoms = ["g.Head.closeFile()"]%string /\
  lib_autofile__Group_RotateFile__bind_indexPath_atoms = ["filePathForIndex(headPath, g.maxIndex, g.maxIndex+1)"]%string /\
  lib_autofile__Group_RotateFile__bind_err_4_atoms = ["os.Rename(headPath, indexPath)"]%string.
Proof. repeat split; reflexivity. Qed.

Fixpoint count_rot (wal : list rkind) : nat :=
  match wal with [] => 0 | RRot :: t => S (count_rot t) | _ :: t => count_rot t end.

Lemma length_split_files : forall wal, List.length (split_files wal) = S (count_rot wal).
Proof.
  induction wal as [|r t IH]; [reflexivity|].
  destruct (split_files_cons t) as [f [fs E]].
  destruct r; cbn [split_files count_rot]; rewrite ?E in *; cbn [List.length] in *; lia.
Qed.

(** the number of files after one more rotation is [g.maxIndex + 1] files more by one: the index
    arithmetic of RotateFile and of readGroupInfo (head = highest numbered file + 1) *)
Lemma src_rotate_index : forall wal, Z.of_nat (count_rot wal) < 9223372036854775807 ->
  Z.of_nat (count_rot (wal ++ [RRot])) = lib_autofile__Group_RotateFile__set_maxIndex_op (Z.of_nat (count_rot wal)) /\
  lib_autofile__Group_RotateFile__arg_g_maxIndex_plus_1 (Z.of_nat (count_rot wal)) = Z.of_nat (List.length (split_files wal)).
Proof.
  intros wal H. assert (E : count_rot (wal ++ [RRot]) = S (count_rot wal)).
  { induction wal as [|r t IH]; [reflexivity|]. destruct r; cbn [app count_rot] in *; rewrite ?IH; try reflexivity; lia. }
  unfold lib_autofile__Group_RotateFile__set_maxIndex_op, lib_autofile__Group_RotateFile__arg_g_maxIndex_plus_1.
  rewrite E, length_split_files. split; gosem; lia.
Qed.

(** reopening a rotated group: the head's index is the highest numbered file + 1; no numbered file:
    the head is file 0 *)
Lemma src_group_info : forall wal, (1 <= count_rot wal)%nat -> Z.of_nat (count_rot wal) < 9223372036854775807 ->
  lib_autofile__Group_readGroupInfo__if_minIndex_eq_minus_1 0 = false /\
  lib_autofile__Group_readGroupInfo__set_maxIndex_op (Z.of_nat (count_rot wal - 1)) = Z.of_nat (List.length (split_files wal) - 1).
Proof.
  intros wal H1 H2. split; [reflexivity|].
  unfold lib_autofile__Group_readGroupInfo__set_maxIndex_op. rewrite length_split_files. gosem. lia.
Qed.

Lemma src_group_info_single : lib_autofile__Group_readGroupInfo__if_minIndex_eq_minus_1 (-1) = true.
Proof. reflexivity. Qed.

(** the reader goes on into file j+1 unless [index > maxIndex]; the head is the file [index == maxIndex] *)
Lemma src_reader_next : forall (j n : nat), Z.of_nat j < 9223372036854775807 ->
  lib_autofile__GroupReader_openFile__if_index_gt_gr_Group_maxIndex
    (lib_autofile__GroupReader_Read__arg_gr_curIndex_plus_1 (Z.of_nat j)) (Z.of_nat n) = (n <? S j)%nat.
Proof.
  intros j n Hj. unfold lib_autofile__GroupReader_openFile__if_index_gt_gr_Group_maxIndex, lib_autofile__GroupReader_Read__arg_gr_curIndex_plus_1.
  rewrite Z.gtb_ltb. gosem.
  destruct (Z.ltb_spec (Z.of_nat n) (Z.of_nat j + 1)); destruct (Nat.ltb_spec n (S j)); try reflexivity; lia.
Qed.

Lemma src_head_path : forall i n : nat, lib_autofile__filePathForIndex__if_index_eq_maxIndex (Z.of_nat i) (Z.of_nat n) = (i =? n)%nat.
Proof. intros. unfold lib_autofile__filePathForIndex__if_index_eq_maxIndex. symmetry. apply eqb_nat_Z. Qed.

(** the head is rotated iff the limit is set and [size >= limit] *)
Lemma src_check_head : forall size limit : nat,
  (negb (lib_autofile__Group_checkHeadSizeLimit__if_limit_eq_0 (Z.of_nat limit)) &&
   lib_autofile__Group_checkHeadSizeLimit__if_size_ge_limit (Z.of_nat size) (Z.of_nat limit))%bool
  = (negb (limit =? 0)%nat && (limit <=? size)%nat)%bool.
Proof.
  intros. unfold lib_autofile__Group_checkHeadSizeLimit__if_limit_eq_0, lib_autofile__Group_checkHeadSizeLimit__if_size_ge_limit.
  rewrite Z.geb_leb. change 0 with (Z.of_nat 0). rewrite <- eqb_nat_Z. f_equal.
  destruct (Z.leb_spec (Z.of_nat limit) (Z.of_nat size)); destruct (Nat.leb_spec limit size); try reflexivity; lia.
Qed.

Lemma src_group_atoms :
  lib_autofile__Group_checkHeadSizeLimit__if_size_ge_limit_atoms = ["size : int64"; "limit : int64"]%string /\
  lib_autofile__Group_checkHeadSizeLimit__let_limit_atoms = ["g.HeadSizeLimit() : int64"]%string /\
  lib_autofile__Group_checkHeadSizeLimit__bind_size_err_atoms = ["g.Head.Size()"]%string /\
  lib_autofile__Group_RotateFile__set_maxIndex_op_atoms = ["g.maxIndex : int"]%string /\
  lib_autofile__GroupReader_openFile__if_index_gt_gr_Group_maxIndex_atoms = ["index : int"; "gr.Group.maxIndex : int"]%string /\
  lib_autofile__GroupReader_Read__arg_gr_curIndex_plus_1_atoms = ["gr.curIndex : int"]%string /\
  lib_autofile__GroupReader_Read__bind_err1_atoms = ["gr.openFile(gr.curIndex + 1)"]%string /\
  lib_autofile__filePathForIndex__if_index_eq_maxIndex_atoms = ["index : int"; "maxIndex : int"]%string.
Proof. repeat split; reflexivity. Qed.

(** * kai/state/cstate/store.go: the consensus state is looked up AT THE HEAD HEIGHT; none => genesis *)
Lemma src_heights : forall im,
  heights_of im =
  let hh := match i_head im with None => 0%nat | Some h => rewind im h end in
  let loaded := memb hh (i_cstates im) in
  (hh,
   (if kai_state_cstate__dbStore_LoadStateFromDBOrGenesisDoc__if_state_IsEmpty (negb loaded) then 0%nat else hh),
   kai_state_cstate__dbStore_Load__if_state_ne_nil loaded).
Proof.
  intros. unfold heights_of, kai_state_cstate__dbStore_LoadStateFromDBOrGenesisDoc__if_state_IsEmpty, kai_state_cstate__dbStore_Load__if_state_ne_nil.
  cbv zeta. destruct (memb _ (i_cstates im)); reflexivity.
Qed.

Lemma src_store_atoms :
  kai_state_cstate__dbStore_Load__bind_head_atoms = ["rawdb.ReadHeadBlock(s.db)"]%string /\
  kai_state_cstate__dbStore_Load__bind_state_atoms = ["loadStateAtHeight(s.db, head.Height())"]%string /\
  kai_state_cstate__dbStore_LoadStateFromDBOrGenesisDoc__bind_state_atoms = ["s.Load()"]%string /\
  kai_state_cstate__dbStore_LoadStateFromDBOrGenesisDoc__if_state_IsEmpty_atoms = ["state.IsEmpty() : bool"]%string /\
  kai_state_cstate__dbStore_LoadStateFromDBOrGenesisDoc__bind_state_err_atoms = ["MakeGenesisState(genesisDoc)"]%string /\
  kai_state_cstate__loadStateAtHeight__bind_sp_atoms = ["rawdb.ReadConsensusStateHeight(db, height)"]%string /\
  kai_state_cstate__loadStateAtHeight__if_sp_eq_nil_atoms = ["sp == nil : untyped bool"]%string /\
  kai_state_cstate__loadStateAtHeight__put_state_LastBlockHeight_atoms = ["blockMeta.Header.Height : uint64"]%string.
Proof. repeat split; reflexivity. Qed.

(** the record of height 0 is the one with the validator sets of genesis *)
Lemma src_save_state_genesis : forall h : nat,
  kai_state_cstate__saveState__if_state_LastBlockHeight_eq_0 (zh h) = (h =? 0)%nat.
Proof. intros. unfold kai_state_cstate__saveState__if_state_LastBlockHeight_eq_0, zh. change 0 with (Z.of_nat 0). symmetry. apply eqb_nat_Z. Qed.

(** * kai/state/cstate/execution.go ApplyBlock: validate, run the block on the chain (app-hash batch,
    trie flush, head batch: BlockOperations.CommitAndValidateBlockTxs), then the new consensus state *)
Lemma src_apply_calls :
  kai_state_cstate__BlockExecutor_ApplyBlock__bind_err_atoms = ["blockExec.ValidateBlock(state, block)"]%string /\
  kai_state_cstate__BlockExecutor_ApplyBlock__bind_valUpdates_appHash_err_atoms = ["blockExec.bc.CommitAndValidateBlockTxs(block, commitInfo, byzVals)"]%string /\
  kai_state_cstate__BlockExecutor_ApplyBlock__bind_state_err_atoms = ["updateState(blockExec.logger, state, blockID, block.Header(), valUpdates)"]%string /\
  kai_state_cstate__updateState__set_lastHeightValsChanged_atoms = ["header.Height : uint64"]%string.
Proof. repeat split; reflexivity. Qed.

Lemma src_vals_changed : forall h : nat, Z.of_nat h + 2 <= 18446744073709551615 ->
  kai_state_cstate__updateState__set_lastHeightValsChanged (zh h) = zh (h + 2).
Proof. intros h H. unfold kai_state_cstate__updateState__set_lastHeightValsChanged, zh. gosem. lia. Qed.

(** the model's pipeline: app-hash batch, [trie flush], head batch, consensus-state batch *)
Lemma src_pipeline_apply : forall txs archive h,
  skipn 7 (pipeline txs archive h) =
  [EDb (WBinfo h)] ++ (if mainchain_blockchain__BlockChain_writeBlockWithState__if_bc_cacheConfig_TrieDirtyDisabled archive then [EDb WTrie] else [])
  ++ [EDb (WHead h false); EDb (WCState h)].
Proof. intros. unfold pipeline, mainchain_blockchain__BlockChain_writeBlockWithState__if_bc_cacheConfig_TrieDirtyDisabled. destruct archive; reflexivity. Qed.

(** * mainchain/blockchain/blockchain.go *)
(** NewBlockChain repairs iff the head has no state; setHeadBeyondRoot is called with the empty root
    ([beyondRoot] true from the start: it stops at the first block WITH state); while
    [!bc.HasState(appHash)] it goes to the parent ([Height() - 1]) if there is one ([parent != nil]: the
    block store is contiguous, so iff the height is >= 1), else to genesis: the model's [rewind] *)
Lemma src_rewind : forall im h, Z.of_nat h <= 18446744073709551615 ->
  rewind im h =
  if mainchain_blockchain__BlockChain_setHeadBeyondRoot__if_not_bc_HasState_appHash (has_state im h)
  then (if mainchain_blockchain__BlockChain_setHeadBeyondRoot__if_parent_ne_nil (1 <=? h)%nat
        then rewind im (Z.to_nat (mainchain_blockchain__BlockChain_setHeadBeyondRoot__arg_newHeadBlock_Height_minus_1 (zh h)))
        else 0%nat)
  else h.
Proof.
  intros im h Hr. unfold mainchain_blockchain__BlockChain_setHeadBeyondRoot__if_not_bc_HasState_appHash,
    mainchain_blockchain__BlockChain_setHeadBeyondRoot__if_parent_ne_nil,
    mainchain_blockchain__BlockChain_setHeadBeyondRoot__arg_newHeadBlock_Height_minus_1, zh.
  destruct h as [|h]; cbn [rewind Nat.leb]; destruct (has_state im _); cbn [negb]; try reflexivity.
  gosem. replace (Z.of_nat (S h) - 1) with (Z.of_nat h) by lia. rewrite Nat2Z.id. reflexivity.
Qed.

Lemma src_rewind_stop : forall x,
  mainchain_blockchain__BlockChain_setHeadBeyondRoot__if_beyondRoot_or_newHeadBlock_Height_eq_0 true x = true.
Proof. reflexivity. Qed.

Lemma src_repair_guard : forall im h,
  mainchain_blockchain__NewBlockChain__if_not_bc_HasState_root (has_state im h) = negb (has_state im h).
Proof. reflexivity. Qed.

(** keep-recent mode: no state is flushed while [current <= TriesInMemory] (128): the range in which
    the model's keep-recent images (only the genesis state on disk) are what the code produces *)
Lemma src_keep_recent_range : forall n : nat, (n <= 128)%nat ->
  mainchain_blockchain__BlockChain_writeBlockWithState__if_current_le_TriesInMemory (zh n) = true.
Proof. intros n H. unfold mainchain_blockchain__BlockChain_writeBlockWithState__if_current_le_TriesInMemory, zh. apply Z.leb_le. lia. Qed.

(** SaveBlock only takes the next block: [g != w] with [w = bo.Height() + 1] *)
Lemma src_save_contiguous : forall hh x : nat, Z.of_nat hh < 18446744073709551615 ->
  mainchain_blockchain__BlockOperations_SaveBlock__if_g_ne_w (zh x) (mainchain_blockchain__BlockOperations_SaveBlock__set_w (zh hh))
  = negb (x =? S hh)%nat.
Proof.
  intros hh x H. unfold mainchain_blockchain__BlockOperations_SaveBlock__if_g_ne_w, mainchain_blockchain__BlockOperations_SaveBlock__set_w, go_neqb, zh.
  gosem. f_equal. rewrite eqb_nat_Z. f_equal. lia.
Qed.

Lemma src_chain_atoms :
  mainchain_blockchain__NewBlockChain__bind_err_2_atoms = ["bc.loadLastState()"]%string /\
  mainchain_blockchain__NewBlockChain__bind_err_3_atoms = ["bc.setHeadBeyondRoot(head.Height(), common.Hash{}, true)"]%string /\
  mainchain_blockchain__NewBlockChain__bind_root_atoms = ["rawdb.ReadAppHash(bc.db, head.Height())"]%string /\
  mainchain_blockchain__NewBlockChain__if_not_bc_HasState_root_atoms = ["bc.HasState(root) : bool"]%string /\
  mainchain_blockchain__BlockChain_setHeadBeyondRoot__bind_appHash_atoms = ["rawdb.ReadAppHash(bc.db, newHeadBlock.Height())"]%string /\
  mainchain_blockchain__BlockChain_setHeadBeyondRoot__if_not_bc_HasState_appHash_atoms = ["bc.HasState(appHash) : bool"]%string /\
  mainchain_blockchain__BlockChain_setHeadBeyondRoot__bind_parent_atoms = ["bc.GetBlock(newHeadBlock.LastBlockHash(), newHeadBlock.Height()-1)"]%string /\
  mainchain_blockchain__BlockChain_setHeadBeyondRoot__if_beyondRoot_or_newHeadBlock_Height_eq_0_atoms = ["beyondRoot : bool"; "newHeadBlock.Height() : uint64"]%string /\
  mainchain_blockchain__BlockChain_setHeadBeyondRoot__if_parent_ne_nil_atoms = ["parent != nil : untyped bool"]%string /\
  mainchain_blockchain__BlockChain_writeBlockWithState__if_bc_cacheConfig_TrieDirtyDisabled_atoms = ["bc.cacheConfig.TrieDirtyDisabled : bool"]%string /\
  mainchain_blockchain__BlockChain_writeBlockWithState__bind_root_err_atoms = ["state.Commit(true)"]%string /\
  mainchain_blockchain__BlockChain_writeBlockWithState__bind_err_atoms = ["blockBatch.Write()"]%string /\
  mainchain_blockchain__BlockChain_writeBlockAndSetHead__bind_err_atoms = ["bc.writeBlockWithState(block, blockInfo, state)"]%string /\
  mainchain_blockchain__BlockChain_writeHeadBlock__bind_err_atoms = ["batch.Write()"]%string /\
  mainchain_blockchain__BlockOperations_SaveBlock__set_w_atoms = ["bo.Height() : uint64"]%string /\
  mainchain_blockchain__BlockOperations_SaveBlock__put_bo_height_atoms = ["height : uint64"]%string.
Proof. repeat split; reflexivity. Qed.

(** * the statement quoted in Properties.v *)
Definition C05_source_tie_statement : Prop :=
  (* SearchForEndHeight *)
  (forall last h, shortcut last h =
     consensus__BaseWAL_SearchForEndHeight__if_lastHeightFound_gt_0_and_lastHeightFound_lt_height (zlast last) (zh h))
  /\ (forall h last x t, scan_file h last (REnd x :: t) =
        if consensus__BaseWAL_SearchForEndHeight__if_m_Height_eq_height (zh x) (zh h) then inl t else scan_file h (Some x) t)
  /\ (forall h last f older newer, search_rev h last (f :: older) newer =
        match scan_file h last f with
        | inl rest => Some (rest ++ newer)
        | inr last' =>
          if consensus__BaseWAL_SearchForEndHeight__if_lastHeightFound_gt_0_and_lastHeightFound_lt_height (zlast last') (zh h)
          then None else search_rev h last' older (f ++ newer)
        end)
  /\ (forall n j : nat, (1 <= n)%nat ->
        consensus__BaseWAL_SearchForEndHeight__for_index_ge_min
          (consensus__BaseWAL_SearchForEndHeight__forinit_index (Z.of_nat (n - 1)) - Z.of_nat j) 0 = (j <? n)%nat)
  (* BaseWAL.OnStart *)
  /\ (forall f, wal_onstart [f] = [if consensus__BaseWAL_OnStart__if_size_eq_0 (Z.of_nat (List.length f)) then [REnd 0] else f])
  /\ consensus__BaseWAL_OnStart__bind_err_atoms = ["wal.WriteSync(EndHeightMessage{0})"]%string
  (* catchupReplay *)
  /\ (forall hc : nat, Z.of_nat (S hc) <= 18446744073709551615 ->
        zh hc = if consensus__ConsensusState_catchupReplay__if_csHeight_eq_cs_state_InitialHeight (zh (S hc)) 1
                then consensus__ConsensusState_catchupReplay__let_endHeight
                else consensus__ConsensusState_catchupReplay__set_endHeight (zh (S hc)))
  /\ (forall sc im v, r_replay (recover_view sc TSynced im v) = replay_class v (snd (fst (heights_of im))))
  /\ (forall start hc wal,
        wv_fstart (view_of start hc wal) = (if search start (wal_onstart (split_files wal)) then true else false) /\
        wv_fhc (view_of start hc wal) = (if search hc (wal_onstart (split_files wal)) then true else false))
  /\ consensus__ConsensusState_catchupReplay__bind_gr_found_err_atoms =
       ["cs.wal.SearchForEndHeight(int64(csHeight), &WALSearchOptions{IgnoreDataCorruptionErrors: true})"]%string
  /\ consensus__ConsensusState_catchupReplay__bind_gr_found_err_2_atoms =
       ["cs.wal.SearchForEndHeight(int64(endHeight), &WALSearchOptions{IgnoreDataCorruptionErrors: true})"]%string
  (* OnStart *)
  /\ (onstart_decide true false false = OsStart /\ onstart_decide false false false = OsStartAnyway /\
      onstart_decide false false true = OsStartAnyway /\
      onstart_decide false true false = OsRepair /\ onstart_decide false true true = OsFail)
  /\ consensus__ConsensusState_OnStart__bind_err_2_atoms = ["cs.catchupReplay(cs.Height)"]%string
  (* finalizeCommit *)
  /\ (forall sc tl im v, let o := recover_view sc tl im v in
        r_repl_meta o = r_repl_canon o &&
          consensus__ConsensusState_finalizeCommit__if_cs_blockOperations_Height_lt_block_Height (zh (r_hh o)) (zh (r_start o)))
  /\ consensus__ConsensusState_finalizeCommit__bind_err_atoms = ["cs.blockExec.ValidateBlock(cs.state, block)"]%string
  /\ consensus__ConsensusState_finalizeCommit__bind_err_2_atoms = ["cs.wal.WriteSync(endMsg)"]%string
  /\ (forall txs archive h,
        nth_error (pipeline txs archive h) 5 = Some (EDb (WBlock h (txs h))) /\
        nth_error (pipeline txs archive h) 6 = Some (EWal [RStep; REnd h]) /\
        nth_error (pipeline txs archive h) 7 = Some (EDb (WBinfo h)))
  (* updateToState *)
  /\ (forall hc : nat, Z.of_nat (S hc) <= 18446744073709551615 ->
        zh (S hc) = consensus__ConsensusState_updateToState__set_height (zh hc))
  (* autofile group *)
  /\ (lib_autofile__Group_RotateFile__bind_err_atoms = ["g.headBuf.Flush()"]%string /\
      lib_autofile__Group_RotateFile__bind_err_2_atoms = ["g.Head.Sync()"]%string /\
      lib_autofile__Group_RotateFile__bind_err_4_atoms = ["os.Rename(headPath, indexPath)"]%string)
  /\ (forall wal, Z.of_nat (count_rot wal) < 9223372036854775807 ->
        Z.of_nat (count_rot (wal ++ [RRot])) = lib_autofile__Group_RotateFile__set_maxIndex_op (Z.of_nat (count_rot wal)) /\
        lib_autofile__Group_RotateFile__arg_g_maxIndex_plus_1 (Z.of_nat (count_rot wal)) = Z.of_nat (List.length (split_files wal)))
  /\ (forall j n : nat, Z.of_nat j < 9223372036854775807 ->
        lib_autofile__GroupReader_openFile__if_index_gt_gr_Group_maxIndex
          (lib_autofile__GroupReader_Read__arg_gr_curIndex_plus_1 (Z.of_nat j)) (Z.of_nat n) = (n <? S j)%nat)
  /\ (forall size limit : nat,
        (negb (lib_autofile__Group_checkHeadSizeLimit__if_limit_eq_0 (Z.of_nat limit)) &&
         lib_autofile__Group_checkHeadSizeLimit__if_size_ge_limit (Z.of_nat size) (Z.of_nat limit))%bool
        = (negb (limit =? 0)%nat && (limit <=? size)%nat)%bool)
  (* consensus-state store *)
  /\ (forall im, heights_of im =
        let hh := match i_head im with None => 0%nat | Some h => rewind im h end in
        let loaded := memb hh (i_cstates im) in
        (hh, (if kai_state_cstate__dbStore_LoadStateFromDBOrGenesisDoc__if_state_IsEmpty (negb loaded) then 0%nat else hh),
         kai_state_cstate__dbStore_Load__if_state_ne_nil loaded))
  /\ kai_state_cstate__dbStore_Load__bind_state_atoms = ["loadStateAtHeight(s.db, head.Height())"]%string
  (* ApplyBlock and the chain *)
  /\ (forall txs archive h, skipn 7 (pipeline txs archive h) =
        [EDb (WBinfo h)] ++ (if mainchain_blockchain__BlockChain_writeBlockWithState__if_bc_cacheConfig_TrieDirtyDisabled archive then [EDb WTrie] else [])
        ++ [EDb (WHead h false); EDb (WCState h)])
  /\ kai_state_cstate__BlockExecutor_ApplyBlock__bind_valUpdates_appHash_err_atoms = ["blockExec.bc.CommitAndValidateBlockTxs(block, commitInfo, byzVals)"]%string
  /\ (forall im h, Z.of_nat h <= 18446744073709551615 ->
        rewind im h =
        if mainchain_blockchain__BlockChain_setHeadBeyondRoot__if_not_bc_HasState_appHash (has_state im h)
        then (if mainchain_blockchain__BlockChain_setHeadBeyondRoot__if_parent_ne_nil (1 <=? h)%nat
              then rewind im (Z.to_nat (mainchain_blockchain__BlockChain_setHeadBeyondRoot__arg_newHeadBlock_Height_minus_1 (zh h)))
              else 0%nat)
        else h)
  /\ (forall n : nat, (n <= 128)%nat ->
        mainchain_blockchain__BlockChain_writeBlockWithState__if_current_le_TriesInMemory (zh n) = true)
  /\ (forall hh x : nat, Z.of_nat hh < 18446744073709551615 ->
        mainchain_blockchain__BlockOperations_SaveBlock__if_g_ne_w (zh x) (mainchain_blockchain__BlockOperations_SaveBlock__set_w (zh hh))
        = negb (x =? S hh)%nat).

Lemma C05_source_tie_proof : C05_source_tie_statement.
Proof.
  unfold C05_source_tie_statement.
  split; [exact src_shortcut|]. split; [exact src_scan_marker|]. split; [exact src_search_step|].
  split; [exact src_search_loop|]. split; [exact src_onstart_head|]. split; [reflexivity|].
  split; [exact src_end_height|]. split; [exact src_replay_class|]. split; [exact src_view_searches|].
  split; [reflexivity|]. split; [reflexivity|]. split; [exact src_onstart_table|]. split; [reflexivity|].
  split; [exact src_repl_meta|]. split; [reflexivity|]. split; [reflexivity|]. split; [exact src_pipeline_endheight|].
  split; [exact src_start_height|]. split; [repeat split; reflexivity|]. split; [exact src_rotate_index|].
  split; [exact src_reader_next|]. split; [exact src_check_head|]. split; [exact src_heights|]. split; [reflexivity|].
  split; [exact src_pipeline_apply|]. split; [reflexivity|]. split; [exact src_rewind|].
  split; [exact src_keep_recent_range|]. exact src_save_contiguous.
Qed.
