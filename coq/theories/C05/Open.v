(** C05 — statements not proved yet (kept as definitions; nothing here is used elsewhere). *)
From Coq Require Import List Arith Bool.
From Kardia Require Import C05.Model C05.ProofsRecover.
Import ListNotations.

(** the closed-form image of ProofsRecover is the fold of the observed log (genesis boot writes,
    then the pipeline of every height): needs i_pending to be ignored / carried *)
Definition open_image_of_chain_log : Prop :=
  forall txs archive n,
    i_head (fold_left (fun im e => apply_entry e im)
              (flat_map (fun h => pipeline txs archive h) (seq 1 n)) (img_after txs archive 0))
    = i_head (img_after txs archive n).

(** unbounded versions of the bounded no-conflict theorems *)
Definition open_no_conflict_empty_blocks : Prop :=
  forall txs sc n i, i <= 9 -> txs (S n) = false -> sc_appfixed sc = true ->
    no_conflict (recover sc TSynced (crash_img txs true n i)) = true.

Definition open_no_conflict_before_proposal : Prop :=
  forall txs sc n i, i <= 1 -> sc_appfixed sc = true ->
    no_conflict (recover sc TSynced (crash_img txs true n i)) = true.

(** unbounded refutations: for every n the crash points 7..9 conflict as soon as the block of
    height n+1 carries transactions *)
Definition open_after_endheight_refuted : Prop :=
  forall txs sc n i, 7 <= i <= 9 -> txs (S n) = true ->
    no_conflict (recover sc TSynced (crash_img txs true n i)) = false.
