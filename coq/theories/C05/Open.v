(** C05 — statements not proved yet (kept as definitions; nothing here is used elsewhere).
    (Proved since and moved to Properties.v: the unbounded no-conflict theorems, the unbounded
    refutation after #ENDHEIGHT, the head pointer of the folded chain log.) *)
From Coq Require Import List Arith Bool.
From Kardia Require Import C05.Model C05.ProofsRecover C05.ProofsSearch.
Import ListNotations.

(** second crash, in general: recovering from the image extended by ANY prefix of what the
    recovering life itself writes before its first new signature gives the same answer
    (Properties.C05_second_crash covers the head-pointer rewrite only) *)
Definition open_second_crash_general : Prop :=
  forall sc tl im (life : list entry) k,
    i_head im <> None -> sorted_markers (filter notrot (i_wal im)) ->
    (forall e, In e (firstn k life) -> match e with EDb (WHeadPtr) => True | EWal recs => forallb (fun r => match r with RStep | RTimeout _ _ _ | REnd 0 => true | _ => false end) recs = true | _ => False end) ->
    r_sigs (recover sc tl (fold_left (fun im e => apply_entry e im) (firstn k life) im)) = r_sigs (recover sc tl im).

(** Not stated here because the model cannot express it: "continues exactly like a twin that never
    crashed" beyond the signature requests of the start height (Properties.C05_twin_signatures) and
    the equality of application hashes the harness checks on every run (oracle diverges-from-twin):
    that needs the application (EVM, staking contracts) as a function. *)
