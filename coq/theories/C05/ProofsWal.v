(** C05 — the write-ahead discipline of receiveRoutine and deterministic replay (lemmas). *)
From Coq Require Import List Arith Bool Lia.
Import ListNotations.

(** * the WAL as the receive routine uses it
    An input is a message (a number) that is either the node's own (internal queue: WriteSync
    before it is handled) or not (peer message / timeout: Write before it is handled).  The
    trace of one input is the list of events it causes, in program order. *)
Inductive ev := EvWrite (m : nat) | EvSync | EvAct (own : bool) (m : nat).

Definition trace_of_input (i : bool * nat) : list ev :=
  let (own, m) := i in
  if own then [EvWrite m; EvSync; EvAct true m] else [EvWrite m; EvAct false m].

Definition trace_of (inputs : list (bool * nat)) : list ev := flat_map trace_of_input inputs.

(** state of the WAL file: what was written, and how much of it an fsync covered *)
Definition wal_step (st : list nat * list nat) (e : ev) : list nat * list nat :=
  match e with
  | EvWrite m => (fst st ++ [m], snd st)
  | EvSync => (fst st, fst st)
  | EvAct _ _ => st
  end.
Definition wal_state (tr : list ev) : list nat * list nat := fold_left wal_step tr ([], []).
Definition logical (tr : list ev) : list nat := fst (wal_state tr).
Definition durable (tr : list ev) : list nat := snd (wal_state tr).

(** own messages acted upon in a trace *)
Definition own_acted (tr : list ev) : list nat :=
  flat_map (fun e => match e with EvAct true m => [m] | _ => [] end) tr.

(** the invariant of any event sequence: the durable part is a prefix of what was written *)
Lemma durable_prefix_gen : forall tr st, (exists r, fst st = snd st ++ r) ->
  exists r, fst (fold_left wal_step tr st) = snd (fold_left wal_step tr st) ++ r.
Proof.
  induction tr as [|e tr IH]; intros st H; cbn [fold_left]; [exact H|].
  apply IH. destruct H as [r Hr]. destruct e; cbn [wal_step fst snd].
  - exists (r ++ [m]). rewrite Hr, app_assoc. reflexivity.
  - exists []. rewrite app_nil_r. reflexivity.
  - exists r. exact Hr.
Qed.

Lemma durable_prefix : forall tr, exists r, logical tr = durable tr ++ r.
Proof. intros. unfold logical, durable, wal_state. apply durable_prefix_gen. exists []. reflexivity. Qed.

(** every own message acted upon is durable: invariant "the own messages acted upon so far are
    in the durable part, and whatever is durable stays durable" along disciplined traces *)
Lemma fold_app_state : forall tr1 tr2 st, fold_left wal_step (tr1 ++ tr2) st = fold_left wal_step tr2 (fold_left wal_step tr1 st).
Proof. intros. apply fold_left_app. Qed.

Lemma snd_mono : forall tr st m, (exists r, fst st = snd st ++ r) -> In m (snd st) -> In m (snd (fold_left wal_step tr st)).
Proof.
  induction tr as [|e tr IH]; intros st m Hp H; cbn [fold_left]; [exact H|].
  apply IH.
  - destruct Hp as [r Hr]. destruct e; cbn [wal_step fst snd].
    + exists (r ++ [m0]). rewrite Hr, app_assoc. reflexivity.
    + exists []. rewrite app_nil_r. reflexivity.
    + exists r. exact Hr.
  - destruct e; cbn [wal_step fst snd]; try exact H.
    destruct Hp as [r Hr]. rewrite Hr. apply in_or_app. left. exact H.
Qed.

Lemma prefix_state : forall tr st, (exists r, fst st = snd st ++ r) -> exists r, fst (fold_left wal_step tr st) = snd (fold_left wal_step tr st) ++ r.
Proof. exact durable_prefix_gen. Qed.

(** crash anywhere: a prefix of the trace of a list of inputs *)
Lemma acted_durable_gen : forall inputs st n m,
  (exists r, fst st = snd st ++ r) ->
  In m (own_acted (firstn n (trace_of inputs))) ->
  In m (snd (fold_left wal_step (firstn n (trace_of inputs)) st)).
Proof.
  induction inputs as [|[own x] inputs IH]; intros st n m Hp H.
  - unfold trace_of in H. cbn [flat_map] in H. rewrite firstn_nil in H. cbn in H. contradiction.
  - unfold trace_of in *. cbn [flat_map] in *.
    set (t1 := trace_of_input (own, x)) in *.
    rewrite firstn_app in *. unfold own_acted in H. rewrite flat_map_app in H. apply in_app_or in H.
    rewrite fold_app_state.
    destruct H as [H|H].
    + (* acted within this input's events *)
      apply snd_mono; [apply prefix_state; exact Hp|].
      subst t1. destruct own; cbn [trace_of_input] in *.
      * destruct n as [|[|[|n]]]; cbn [firstn] in H; rewrite ?firstn_nil in H; cbn in H; try contradiction.
        destruct H as [H|H]; [|contradiction]. subst m.
        cbn [firstn]. rewrite ?firstn_nil. cbn. apply in_or_app. right. left. reflexivity.
      * destruct n as [|[|n]]; cbn [firstn] in H; rewrite ?firstn_nil in H; cbn in H; contradiction.
    + apply IH; [apply prefix_state; exact Hp|exact H].
Qed.

Lemma acted_durable : forall inputs n m,
  In m (own_acted (firstn n (trace_of inputs))) -> In m (durable (firstn n (trace_of inputs))).
Proof. intros. unfold durable, wal_state. apply acted_durable_gen; [exists []; reflexivity|exact H]. Qed.

(** * deterministic replay
    The node is a step function over the logged inputs; its signature requests are a function of
    the state and the input.  What a crash loses is the state; replaying the logged inputs from the
    same start state reproduces the state and the decisions, whatever prefix was durable. *)
Section Replay.
Variables (S I O : Type) (step : S -> I -> S * list O).

Fixpoint run (s : S) (l : list I) : S * list O :=
  match l with
  | [] => (s, [])
  | i :: t => let (s1, o1) := step s i in let (s2, o2) := run s1 t in (s2, o1 ++ o2)
  end.

Lemma run_app : forall l1 l2 s,
  run s (l1 ++ l2) = let (s1, o1) := run s l1 in let (s2, o2) := run s1 l2 in (s2, o1 ++ o2).
Proof.
  induction l1 as [|i t IH]; intros l2 s; cbn [run app].
  - destruct (run s l2). reflexivity.
  - destruct (step s i) as [s1 o1]. rewrite IH. destruct (run s1 t) as [s2 o2]. destruct (run s2 l2) as [s3 o3].
    rewrite app_assoc. reflexivity.
Qed.

(** the live run of [log ++ rest] passes through exactly the state, and has made exactly the
    decisions, that a replay of the durable [log] reconstructs *)
Lemma replay_reproduces : forall log rest s0,
  let (s_live, o_live) := run s0 (log ++ rest) in
  let (s_rep, o_rep) := run s0 log in
  let (s_cont, o_cont) := run s_rep rest in
  s_live = s_cont /\ o_live = o_rep ++ o_cont.
Proof.
  intros. rewrite run_app. destruct (run s0 log) as [s1 o1]. destruct (run s1 rest) as [s2 o2]. split; reflexivity.
Qed.
End Replay.
