(** C05 — crash recovery.  Model (no proofs here).

    Durable state of a node = the fold of the ATOMIC durable writes it issued, in order:
    database writes (classified by the keys they touch, see harness crClassify) and WAL fsyncs
    (each makes the records written so far durable).  A crash image is a prefix of that log.
    [recover] transcribes what a restart does on an image:

      NewBlockChain          loadLastState; head state missing => setHeadBeyondRoot rewinds the
                             head pointer to the last block whose state root is on disk
                             (mainchain/blockchain/blockchain.go)
      Store.Load             reads the consensus-state record AT THE HEAD HEIGHT; none =>
                             LoadStateFromDBOrGenesisDoc builds (and saves) the genesis state
                             (kai/state/cstate/store.go)
      NewConsensusState      height = state.LastBlockHeight + 1
      catchupReplay          #ENDHEIGHT for that height present => error, logged, ignored;
                             else replay the records after #ENDHEIGHT (height-1)
                             (consensus/replay.go, state.go OnStart)

    and, for a single validator, the signature requests of the restarted node up to its next
    commit ([run_sigs]).  Heights are [nat].  File-system semantics are not modelled: a durable
    write is atomic (PARTIAL). *)
From Coq Require Import List Arith Bool.
Import ListNotations.

(** * WAL records *)
Inductive rkind :=
| REnd (h : nat)                          (* #ENDHEIGHT h *)
| RProp (h r : nat) (hastx : bool)        (* own proposal; hastx: its block carries transactions *)
| RPart (h r : nat) (hastx : bool)        (* own block part(s) of such a block *)
| RVote (ty h r : nat) (isnil : bool)     (* own vote, ty 1 prevote / 2 precommit *)
| RTimeout (h r st : nat)
| RStep
| RPeer
| RRot.                                   (* not a record: the WAL head was rotated here (autofile.Group.RotateFile):
                                             what precedes is in wal.NNN files, what follows in the next file *)

(** * database writes *)
Inductive wkind :=
| WGenBlock | WGenInfo | WGenCanon | WHeadPtr | WGenApp | WChainCfg | WSnap | WOther
| WTrie
| WCState (h : nat) | WBlock (h : nat) (hastx : bool) | WBinfo (h : nat)
| WBinfoAgain (h : nat)                   (* app-hash batch of a height that already had one: a new root, not on disk yet *)
| WHead (h : nat) (dangling : bool).      (* dangling: the head pointer names a block that was never saved *)

Inductive entry := EDb (w : wkind) | EWal (recs : list rkind).

Record image := {
  i_blocks : list nat;      (* heights with a block batch (meta, parts, commits, canonical hash) *)
  i_txblocks : list (nat * bool); (* per block batch, in order: does the stored block carry transactions *)
  i_apps : list nat;        (* heights with an app-hash entry *)
  i_tries : list nat;       (* heights whose state root is on disk *)
  i_pending : option nat;   (* height of the last app-hash batch, whose trie flush may follow *)
  i_head : option nat;      (* head pointer *)
  i_cstates : list nat;     (* heights with a consensus-state record *)
  i_canon0 : bool;          (* genesis block batch present *)
  i_badapps : list nat;     (* heights whose block was re-applied on top of a LATER state (after a
                               genesis fallback): their app hash is not the original one *)
  i_wal : list rkind        (* durable WAL records *)
}.

Definition empty_image : image :=
  {| i_blocks := []; i_txblocks := []; i_apps := []; i_tries := []; i_pending := None; i_head := None;
     i_cstates := []; i_canon0 := false; i_badapps := []; i_wal := [] |}.

Fixpoint memb (h : nat) (l : list nat) : bool :=
  match l with [] => false | x :: t => (x =? h) || memb h t end.

Definition has_state (im : image) (h : nat) : bool := memb h (i_apps im) && memb h (i_tries im).

(** setHeadBeyondRoot: walk back from the head until a block with state (genesis at the latest) *)
Fixpoint rewind (im : image) (h : nat) : nat :=
  if has_state im h then h else match h with 0 => 0 | S h' => rewind im h' end.

Definition apply_db (w : wkind) (im : image) : image :=
  match w with
  | WGenBlock => {| i_blocks := i_blocks im; i_txblocks := i_txblocks im; i_apps := i_apps im; i_tries := i_tries im; i_pending := i_pending im;
                    i_head := i_head im; i_cstates := i_cstates im; i_canon0 := true; i_badapps := i_badapps im; i_wal := i_wal im |}
  | WGenInfo | WGenCanon | WChainCfg | WSnap | WOther => im
  | WGenApp => {| i_blocks := i_blocks im; i_txblocks := i_txblocks im; i_apps := i_apps im ++ [0]; i_tries := i_tries im; i_pending := i_pending im;
                  i_head := i_head im; i_cstates := i_cstates im; i_canon0 := i_canon0 im; i_badapps := i_badapps im; i_wal := i_wal im |}
  | WHeadPtr => {| i_blocks := i_blocks im; i_txblocks := i_txblocks im; i_apps := i_apps im; i_tries := i_tries im; i_pending := i_pending im;
                   i_head := Some (match i_head im with None => 0 | Some h => rewind im h end);
                   i_cstates := i_cstates im; i_canon0 := i_canon0 im; i_badapps := i_badapps im; i_wal := i_wal im |}
  | WTrie => {| i_blocks := i_blocks im; i_txblocks := i_txblocks im; i_apps := i_apps im;
                i_tries := i_tries im ++ [match i_pending im with Some h => h | None => 0 end];
                i_pending := None; i_head := i_head im; i_cstates := i_cstates im; i_canon0 := i_canon0 im; i_badapps := i_badapps im; i_wal := i_wal im |}
  | WCState h => {| i_blocks := i_blocks im; i_txblocks := i_txblocks im; i_apps := i_apps im; i_tries := i_tries im; i_pending := i_pending im;
                    i_head := i_head im; i_cstates := i_cstates im ++ [h]; i_canon0 := i_canon0 im; i_badapps := i_badapps im; i_wal := i_wal im |}
  | WBlock h tx => {| i_blocks := i_blocks im ++ [h]; i_txblocks := i_txblocks im ++ [(h, tx)]; i_apps := i_apps im; i_tries := i_tries im; i_pending := i_pending im;
                   i_head := i_head im; i_cstates := i_cstates im; i_canon0 := i_canon0 im; i_badapps := i_badapps im; i_wal := i_wal im |}
  | WBinfo h => {| i_blocks := i_blocks im; i_txblocks := i_txblocks im; i_apps := i_apps im ++ [h]; i_tries := i_tries im; i_pending := Some h;
                   i_head := i_head im; i_cstates := i_cstates im; i_canon0 := i_canon0 im;
                   i_badapps := (if match i_head im with Some hd => h <=? hd | None => false end
                                 then i_badapps im ++ [h] else i_badapps im);
                   i_wal := i_wal im |}
  | WBinfoAgain h => {| i_blocks := i_blocks im; i_txblocks := i_txblocks im; i_apps := i_apps im ++ [h]; i_tries := filter (fun x => negb (x =? h)) (i_tries im); i_pending := Some h;
                   i_head := i_head im; i_cstates := i_cstates im; i_canon0 := i_canon0 im;
                   i_badapps := (if match i_head im with Some hd => h <=? hd | None => false end
                                 then i_badapps im ++ [h] else i_badapps im);
                   i_wal := i_wal im |}
  | WHead h d => {| i_blocks := i_blocks im; i_txblocks := i_txblocks im; i_apps := i_apps im; i_tries := i_tries im; i_pending := i_pending im;
                  i_head := (if d then None else Some h); i_cstates := i_cstates im; i_canon0 := i_canon0 im; i_badapps := i_badapps im; i_wal := i_wal im |}
  end.

Definition add_wal (recs : list rkind) (im : image) : image :=
  {| i_blocks := i_blocks im; i_txblocks := i_txblocks im; i_apps := i_apps im; i_tries := i_tries im; i_pending := i_pending im;
     i_head := i_head im; i_cstates := i_cstates im; i_canon0 := i_canon0 im; i_badapps := i_badapps im; i_wal := i_wal im ++ recs |}.

Definition apply_entry (e : entry) (im : image) : image :=
  match e with EDb w => apply_db w im | EWal recs => add_wal recs im end.

Definition image_of (l : list entry) : image := fold_left (fun im e => apply_entry e im) l empty_image.

(** the driver's entry point: database writes of the image and its WAL records *)
Definition mk_image (ws : list wkind) (wal : list rkind) : image :=
  add_wal wal (fold_left (fun im w => apply_db w im) ws empty_image).

(** * facts of an image (what rawdb accessors return on it) *)
Fixpoint hs_aux (blocks : list nat) (cur fuel : nat) : nat :=
  match fuel with
  | 0 => cur
  | S f => if memb (S cur) blocks then hs_aux blocks (S cur) f else cur
  end.
(** block-store height: the highest contiguous height from 1 *)
Definition store_height (im : image) : nat := hs_aux (i_blocks im) 0 (length (i_blocks im)).

Definition max_list (l : list nat) : option nat :=
  fold_left (fun acc x => match acc with None => Some x | Some m => Some (Nat.max m x) end) l None.

Definition head_has_cstate (im : image) : bool :=
  match i_head im with Some h => memb h (i_cstates im) | None => false end.

Definition states_on_disk (im : image) : list nat :=
  filter (has_state im) (seq 0 (store_height im + 2)).

(** * WAL queries *)
Definition is_end (h : nat) (r : rkind) : bool := match r with REnd x => x =? h | _ => false end.
Definition has_end (h : nat) (wal : list rkind) : bool := existsb (is_end h) wal.

(** records after the FIRST #ENDHEIGHT h of one file *)
Fixpoint after_end (h : nat) (wal : list rkind) : list rkind :=
  match wal with
  | [] => []
  | r :: t => if is_end h r then t else after_end h t
  end.

(** the search over a WAL that was never rotated (one file) *)
Definition flat_search (h : nat) (wal : list rkind) : option (list rkind) :=
  if has_end h wal then Some (after_end h wal) else None.

(** ** the WAL as a group of files (lib/autofile/group.go)
    The durable record list carries [RRot] where the head was rotated; the files of the group
    are the pieces between the marks, oldest first, the last piece is the head (empty when the
    process died after a rotation and before the next flush re-created the head). *)
Fixpoint split_files (wal : list rkind) : list (list rkind) :=
  match wal with
  | [] => [[]]
  | RRot :: t => [] :: split_files t
  | r :: t => match split_files t with f :: fs => (r :: f) :: fs | [] => [[r]] end
  end.

(** BaseWAL.OnStart: an empty head gets #ENDHEIGHT 0 (fsynced) before anything is searched *)
Fixpoint wal_onstart (files : list (list rkind)) : list (list rkind) :=
  match files with
  | [] => [[REnd 0]]
  | [f] => [match f with [] => [REnd 0] | _ => f end]
  | f :: fs => f :: wal_onstart fs
  end.

(** BaseWAL.SearchForEndHeight, one file: decode forward; [last] is lastHeightFound (None: -1),
    which is NOT reset between files.  inl: found, the reader stands behind the marker. *)
Fixpoint scan_file (h : nat) (last : option nat) (f : list rkind) : list rkind + option nat :=
  match f with
  | [] => inr last
  | REnd x :: t => if x =? h then inl t else scan_file h (Some x) t
  | _ :: t => scan_file h last t
  end.

(** "OPTIMISATION: no need to look for height in older files if we've seen h < height":
    [lastHeightFound > 0 && lastHeightFound < height] at the end of a file *)
Definition shortcut (last : option nat) (h : nat) : bool :=
  match last with Some l => (0 <? l) && (l <? h) | None => false end.

(** files newest first; [newer]: what the GroupReader goes on to read after the file in which
    the marker is found (the younger files, in order) *)
Fixpoint search_rev (h : nat) (last : option nat) (rfiles : list (list rkind)) (newer : list rkind) : option (list rkind) :=
  match rfiles with
  | [] => None
  | f :: older =>
    match scan_file h last f with
    | inl rest => Some (rest ++ newer)
    | inr last' => if shortcut last' h then None else search_rev h last' older (f ++ newer)
    end
  end.

Definition search (h : nat) (files : list (list rkind)) : option (list rkind) :=
  search_rev h None (rev files) [].

Definition is_prop (h : nat) (r : rkind) : bool := match r with RProp x _ _ => x =? h | _ => false end.
Definition is_part (h : nat) (tx : bool) (r : rkind) : bool :=
  match r with RPart x _ t => (x =? h) && Bool.eqb t tx | _ => false end.
(** the FIRST logged proposal of a height wins (setProposal keeps the one it has) *)
Fixpoint first_prop (h : nat) (l : list rkind) : option bool :=
  match l with
  | [] => None
  | RProp x _ t :: rest => if x =? h then Some t else first_prop h rest
  | _ :: rest => first_prop h rest
  end.
(** the LAST published proposal of a height *)
Definition last_prop (h : nat) (l : list rkind) : option bool :=
  fold_left (fun acc r => match r with RProp x _ t => if x =? h then Some t else acc | _ => acc end) l None.
(** does the block stored at a height carry transactions (latest batch) *)
Definition stored_tx (h : nat) (l : list (nat * bool)) : bool :=
  fold_left (fun acc p => if fst p =? h then snd p else acc) l false.
Definition is_vote (ty h : nat) (r : rkind) : bool := match r with RVote t x _ _ => (t =? ty) && (x =? h) | _ => false end.

(** * recovery *)
Inductive rclass := RcNone | RcEndPresent | RcNoMarker | RcReplayed.
Inductive tail := TSynced | TBuffered | TTorn.
Inductive rel := RelNew | RelSame | RelConf.

Record sigobs := { s_prop : bool; s_ty : nat; s_h : nat; s_r : nat; s_nil : bool; s_rel : rel }.

Record robs := {
  r_ok : bool;            (* NewBlockChain succeeded *)
  r_onstart_panic : bool; (* catchupReplay panicked inside OnStart *)
  r_hh : nat; r_hc : nat; r_start : nat; r_bo : nat;
  r_fellback : bool;
  r_replay : rclass;
  r_repaired : bool;
  r_repl_meta : bool; r_repl_canon : bool;
  r_sigs : list sigobs
}.

(** scenario parameters the prediction needs: does a genesis state reloaded at height 0 equal the
    one MakeGenesisState builds ([sc_appfixed]), and what the transaction pool holds after the
    restart: nothing ([sc_newtx] = false: a re-created block equals an original one iff that one
    carried no transactions) or a transaction the node had never seen ([sc_newtx] = true: a
    re-created block differs from every original one) *)
Record scen := { sc_appfixed : bool; sc_newtx : bool }.

Definition mk_sig (p : bool) (ty h r : nat) (n : bool) (rl : rel) : sigobs :=
  {| s_prop := p; s_ty := ty; s_h := h; s_r := r; s_nil := n; s_rel := rl |}.

Definition rel_of (published same : bool) : rel :=
  if published then (if same then RelSame else RelConf) else RelNew.

Definition fail_obs : robs :=
  {| r_ok := false; r_onstart_panic := false; r_hh := 0; r_hc := 0; r_start := 0; r_bo := 0; r_fellback := false;
     r_replay := RcNone; r_repaired := false; r_repl_meta := false; r_repl_canon := false; r_sigs := [] |}.

(** what catchupReplay and the double-sign comparison read from the WAL of an image started at
    height [start] on the consensus state of height [hc] *)
Record walview := {
  wv_fstart : bool;          (* SearchForEndHeight(start) found *)
  wv_fhc : bool;             (* SearchForEndHeight(hc) found *)
  wv_logged : option bool;   (* first own proposal of [start] among the records to replay (its block carries txs) *)
  wv_lpart : bool;           (* the parts of that block are among them *)
  wv_lv1 : bool; wv_lv2 : bool;   (* own prevote / precommit of [start] among them *)
  wv_pubp : bool; wv_pubtx : bool; wv_pubv1 : bool; wv_pubv2 : bool  (* published before the crash (anywhere in the durable WAL) *)
}.

Definition view_of (start hc : nat) (wal : list rkind) : walview :=
  let files := wal_onstart (split_files wal) in
  let fstart := match search start files with Some _ => true | None => false end in
  let shc := search hc files in
  let fhc := match shc with Some _ => true | None => false end in
  let recs := if fstart then [] else match shc with Some r => r | None => [] end in
  let logged := first_prop start recs in
  let ltx := match logged with Some t => t | None => false end in
  {| wv_fstart := fstart; wv_fhc := fhc; wv_logged := logged;
     wv_lpart := existsb (is_part start ltx) recs;
     wv_lv1 := existsb (is_vote 1 start) recs; wv_lv2 := existsb (is_vote 2 start) recs;
     wv_pubp := existsb (is_prop start) wal;
     wv_pubtx := match last_prop start wal with Some t => t | None => false end;
     wv_pubv1 := existsb (is_vote 1 start) wal; wv_pubv2 := existsb (is_vote 2 start) wal |}.

(** NewBlockChain's repair and Store.Load: (head height, consensus-state height, record loaded) *)
Definition heights_of (im : image) : nat * nat * bool :=
  let hh := match i_head im with None => 0 | Some h => rewind im h end in
  let loaded := memb hh (i_cstates im) in
  (hh, (if loaded then hh else 0), loaded).

Definition recover_view (sc : scen) (tl : tail) (im : image) (v : walview) : robs :=
    let '(hh, hc, loaded) := heights_of im in
    let start := S hc in
    let cls := if wv_fstart v then RcEndPresent
               else if negb (wv_fhc v) && negb (hc =? 0) then RcNoMarker
               else RcReplayed in
    let logged := wv_logged v in
    let lprop := match logged with Some _ => true | None => false end in
    let ltx := match logged with Some t => t | None => false end in
    let lpart := wv_lpart v in
    let lv1 := wv_lv1 v in
    let lv2 := wv_lv2 v in
    let pubp := wv_pubp v in
    let pubtx := wv_pubtx v in
    let pubv1 := wv_pubv1 v in
    let pubv2 := wv_pubv2 v in
    (* the state the node starts from is the freshly built genesis state *)
    let fresh_state := negb loaded in
    let app_ok := sc_appfixed sc || negb (start =? 1) || fresh_state in
    let good_app := app_ok && negb (memb hc (i_badapps im)) in
    (* a block re-created after the restart equals the published / logged / stored one *)
    let same_new := negb pubtx && negb (sc_newtx sc) && good_app in
    let same_log := negb ltx && negb (sc_newtx sc) && good_app in
    let same_stored := negb (stored_tx start (i_txblocks im)) && negb (sc_newtx sc) && good_app in
    let torn_commit := match tl with TTorn => lv2 | _ => false end in
    let shown := if torn_commit then RcNoMarker else cls in
    let repaired := match tl with TTorn => match cls with RcReplayed => true | _ => false end | _ => false end in
    let p1 := mk_sig true 0 start 1 false (rel_of pubp same_new) in
    let scratch := [p1; mk_sig false 1 start 1 false (rel_of pubv1 same_new); mk_sig false 2 start 1 false (rel_of pubv2 same_new)] in
    let round2 := [mk_sig true 0 start 2 false RelNew; mk_sig false 1 start 2 false RelNew; mk_sig false 2 start 2 false RelNew] in
    let '(sigs, panic) :=
      match cls with
      | RcReplayed =>
        if lprop then
          if lpart then
            if app_ok then
              ([mk_sig true 0 start 1 false (rel_of pubp same_log);
                mk_sig false 1 start 1 false (rel_of pubv1 true); mk_sig false 2 start 1 false (rel_of pubv2 true)], false)
            else if lv1 then
              ([p1; mk_sig false 1 start 1 true (rel_of pubv1 false)], true)
            else
              ([p1; mk_sig false 1 start 1 true (rel_of pubv1 false); mk_sig false 2 start 1 true RelNew] ++ round2, false)
          else if same_log then
            ([mk_sig true 0 start 1 false (rel_of pubp same_log);
              mk_sig false 1 start 1 false RelNew; mk_sig false 2 start 1 false RelNew], false)
          else
            ([p1; mk_sig false 1 start 1 true RelNew; mk_sig false 2 start 1 true RelNew] ++ round2, false)
        else (scratch, false)
      | _ => (scratch, false)
      end in
    (* the block stored at the start height is saved again unless the replay re-commits the logged one *)
    let replaced := match cls with
                    | RcReplayed => if lprop then false else memb start (i_blocks im) && negb same_stored
                    | _ => memb start (i_blocks im) && negb same_stored end in
    {| r_ok := true; r_onstart_panic := panic; r_hh := hh; r_hc := hc; r_start := start; r_bo := hh;
       r_fellback := negb loaded && negb (hh =? 0);
       r_replay := shown; r_repaired := repaired;
       r_repl_meta := replaced && (hh <? start); r_repl_canon := replaced;
       r_sigs := sigs |}.

Definition recover (sc : scen) (tl : tail) (im : image) : robs :=
  if i_canon0 im && match i_head im with None => true | Some _ => false end then fail_obs
  else
    let hc := snd (fst (heights_of im)) in
    recover_view sc tl im (view_of (S hc) hc (i_wal im)).

(** * property predicates on a recovery (used by the theorems and printed by the driver) *)
Definition stores_agree (o : robs) : bool := r_ok o && (r_hh o =? r_hc o).
Definition no_conflict (o : robs) : bool :=
  forallb (fun s => match s_rel s with RelConf => false | _ => true end) (r_sigs o).
