(** C05 — BaseWAL.SearchForEndHeight over a rotated WAL group (lemmas).

    The search goes through the files of the group newest first, each file front to back, keeps
    lastHeightFound ACROSS files and gives up at the end of a file when
    [0 < lastHeightFound < height].  Main result: on a log whose non-zero markers increase
    (what a node that never re-ran a height has written, with any number of #ENDHEIGHT 0
    markers that BaseWAL.OnStart put into empty heads), the search for a height >= 1 does not
    depend on where the log was cut into files: it finds what the search of the unrotated log
    finds, and the reader goes on through all younger files. *)
From Coq Require Import List Arith Bool Lia.
From Kardia Require Import C05.Model.
Import ListNotations.

(** * markers of a record list *)
Fixpoint markers (l : list rkind) : list nat :=
  match l with
  | [] => []
  | REnd x :: t => x :: markers t
  | _ :: t => markers t
  end.

Lemma markers_app : forall l1 l2, markers (l1 ++ l2) = markers l1 ++ markers l2.
Proof.
  induction l1 as [|r t IH]; intros l2; [reflexivity|].
  destruct r; cbn [app markers]; rewrite ?IH; reflexivity.
Qed.

Lemma has_end_markers : forall h l, has_end h l = true <-> In h (markers l).
Proof.
  intros h l. induction l as [|r t IH]; cbn [has_end existsb markers].
  - split; [discriminate|intros []].
  - fold (has_end h t). destruct r; cbn [is_end orb markers]; try exact IH.
    rewrite orb_true_iff, IH, Nat.eqb_eq. cbn [In]. tauto.
Qed.

Lemma has_end_app : forall h l1 l2, has_end h (l1 ++ l2) = has_end h l1 || has_end h l2.
Proof. intros. unfold has_end. apply existsb_app. Qed.

Lemma after_end_app_in : forall h l1 l2, has_end h l1 = true -> after_end h (l1 ++ l2) = after_end h l1 ++ l2.
Proof.
  induction l1 as [|r t IH]; intros l2 H; [discriminate|].
  cbn [app after_end]. cbn [has_end existsb] in H. destruct (is_end h r); [reflexivity|].
  apply IH. exact H.
Qed.

Lemma after_end_app_out : forall h l1 l2, has_end h l1 = false -> after_end h (l1 ++ l2) = after_end h l2.
Proof.
  induction l1 as [|r t IH]; intros l2 H; [reflexivity|].
  cbn [app after_end]. cbn [has_end existsb] in H. apply orb_false_iff in H. destruct H as [H1 H2].
  rewrite H1. apply IH. exact H2.
Qed.

(** the markers of a log increase, #ENDHEIGHT 0 markers aside: for every two markers x ... y,
    y = 0 or x < y *)
Definition mk_ok (x y : nat) : Prop := y = 0 \/ x < y.
Definition sorted_markers (l : list rkind) : Prop := ForallOrdPairs mk_ok (markers l).

Lemma fop_app : forall (R : nat -> nat -> Prop) a b,
  ForallOrdPairs R (a ++ b) <->
  ForallOrdPairs R a /\ ForallOrdPairs R b /\ (forall x y, In x a -> In y b -> R x y).
Proof.
  intros R a b. induction a as [|x a IH]; cbn [app].
  - split.
    + intros H. repeat split; [constructor|exact H|intros x y []].
    + intros [_ [H _]]. exact H.
  - split.
    + intros H. inversion H as [|x' l' Hx Hl]; subst. apply IH in Hl. destruct Hl as [Ha [Hb Hab]].
      apply Forall_app in Hx. destruct Hx as [Hxa Hxb].
      repeat split; [constructor; assumption|exact Hb|].
      intros u v [Hu|Hu] Hv; [subst u; rewrite Forall_forall in Hxb; apply Hxb; exact Hv|apply Hab; assumption].
    + intros [Ha [Hb Hab]]. inversion Ha as [|x' l' Hx Hl]; subst. constructor.
      * apply Forall_app. split; [exact Hx|]. apply Forall_forall. intros v Hv. apply Hab; [left; reflexivity|exact Hv].
      * apply IH. repeat split; [exact Hl|exact Hb|]. intros u v Hu Hv. apply Hab; [right; exact Hu|exact Hv].
Qed.

Lemma sorted_app : forall l1 l2, sorted_markers (l1 ++ l2) <->
  sorted_markers l1 /\ sorted_markers l2 /\ (forall x y, In x (markers l1) -> In y (markers l2) -> mk_ok x y).
Proof. intros. unfold sorted_markers. rewrite markers_app. apply fop_app. Qed.

(** a non-zero marker occurs at most once in a sorted log *)
Lemma sorted_unique : forall l1 l2 h, 1 <= h -> sorted_markers (l1 ++ l2) ->
  has_end h l2 = true -> has_end h l1 = false.
Proof.
  intros l1 l2 h Hh Hs H2. destruct (has_end h l1) eqn:H1; [|reflexivity].
  apply sorted_app in Hs. destruct Hs as [_ [_ Hx]].
  apply has_end_markers in H1. apply has_end_markers in H2.
  destruct (Hx h h H1 H2); lia.
Qed.

(** * one file *)
Fixpoint lastm (last : option nat) (f : list rkind) : option nat :=
  match f with
  | [] => last
  | REnd x :: t => lastm (Some x) t
  | _ :: t => lastm last t
  end.

Lemma scan_found : forall h f last, has_end h f = true -> scan_file h last f = inl (after_end h f).
Proof.
  induction f as [|r t IH]; intros last H; [discriminate|].
  cbn [has_end existsb] in H. fold (has_end h t) in H.
  destruct r; cbn [scan_file after_end is_end orb] in *; try (apply IH; exact H).
  destruct (h0 =? h) eqn:E; [reflexivity|]. apply IH. exact H.
Qed.

Lemma scan_missed : forall h f last, has_end h f = false -> scan_file h last f = inr (lastm last f).
Proof.
  induction f as [|r t IH]; intros last H; [reflexivity|].
  cbn [has_end existsb] in H. fold (has_end h t) in H.
  destruct r; cbn [scan_file lastm is_end orb] in *; try (apply IH; exact H).
  apply orb_false_iff in H. destruct H as [E H]. rewrite E. apply IH. exact H.
Qed.

(** lastHeightFound never stops a search for [h] when it is unset, 0, or above [h] *)
Definition good_last (h : nat) (last : option nat) : Prop :=
  match last with None => True | Some l => l = 0 \/ h < l end.

Lemma good_no_shortcut : forall h last, good_last h last -> shortcut last h = false.
Proof.
  intros h [l|] H; [|reflexivity]. cbn [shortcut]. destruct H as [H|H].
  - subst l. reflexivity.
  - apply andb_false_iff. right. apply Nat.ltb_ge. lia.
Qed.

Lemma lastm_good : forall h f last, good_last h last ->
  (forall y, In y (markers f) -> y = 0 \/ h < y) -> good_last h (lastm last f).
Proof.
  induction f as [|r t IH]; intros last Hl Hm; [exact Hl|].
  destruct r; cbn [lastm markers] in *; try (apply IH; [exact Hl|exact Hm]).
  apply IH; [cbn; apply Hm; left; reflexivity|intros y Hy; apply Hm; right; exact Hy].
Qed.

(** * the group *)
Lemma search_rev_none : forall h rfs last newer,
  (forall f, In f rfs -> has_end h f = false) -> search_rev h last rfs newer = None.
Proof.
  induction rfs as [|f older IH]; intros last newer H; [reflexivity|].
  cbn [search_rev]. rewrite scan_missed by (apply H; left; reflexivity).
  destruct (shortcut _ h); [reflexivity|]. apply IH. intros g Hg. apply H. right. exact Hg.
Qed.

Lemma has_end_concat_false : forall h fs, has_end h (concat fs) = false -> forall f, In f fs -> has_end h f = false.
Proof.
  induction fs as [|g fs IH]; intros H f Hf; [destruct Hf|].
  cbn [concat] in H. rewrite has_end_app in H. apply orb_false_iff in H. destruct H as [H1 H2].
  destruct Hf as [Hf|Hf]; [subst; exact H1|apply IH; assumption].
Qed.

Lemma search_rev_sorted : forall h, 1 <= h -> forall rfs last newer,
  good_last h last -> sorted_markers (concat (rev rfs)) ->
  search_rev h last rfs newer =
  match flat_search h (concat (rev rfs)) with Some recs => Some (recs ++ newer) | None => None end.
Proof.
  intros h Hh. induction rfs as [|f older IH]; intros last newer Hl Hs; [reflexivity|].
  cbn [rev] in *. rewrite concat_app in *. cbn [concat] in *. rewrite app_nil_r in *.
  set (A := concat (rev older)) in *.
  cbn [search_rev]. unfold flat_search. rewrite has_end_app.
  destruct (has_end h f) eqn:Hf.
  - (* the marker is in this file: it is in no older one *)
    rewrite (scan_found _ _ _ Hf).
    rewrite (sorted_unique _ _ _ Hh Hs Hf). cbn [orb].
    rewrite after_end_app_out by (exact (sorted_unique _ _ _ Hh Hs Hf)). reflexivity.
  - rewrite (scan_missed _ _ _ Hf). rewrite orb_false_r.
    destruct (has_end h A) eqn:HA.
    + (* the marker is in an older file: every marker of this file comes after it *)
      assert (Hm : forall y, In y (markers f) -> y = 0 \/ h < y).
      { intros y Hy. apply sorted_app in Hs. destruct Hs as [_ [_ Hx]].
        apply Hx; [apply has_end_markers; exact HA|exact Hy]. }
      rewrite (good_no_shortcut _ _ (lastm_good _ _ _ Hl Hm)).
      rewrite IH; [|exact (lastm_good _ _ _ Hl Hm)|apply sorted_app in Hs; tauto].
      unfold flat_search. fold A. rewrite HA.
      rewrite after_end_app_in by exact HA. rewrite <- app_assoc. reflexivity.
    + (* the marker is nowhere *)
      destruct (shortcut _ h); [reflexivity|].
      apply search_rev_none. intros g Hg. apply (has_end_concat_false h (rev older)); [exact HA|].
      apply in_rev. rewrite rev_involutive. exact Hg.
Qed.

(** the search of a sorted group = the search of the unrotated log *)
Lemma search_sorted : forall h fs, 1 <= h -> sorted_markers (concat fs) ->
  search h fs = flat_search h (concat fs).
Proof.
  intros h fs Hh Hs. unfold search.
  rewrite (search_rev_sorted h Hh (rev fs) None []); [|exact I|rewrite rev_involutive; exact Hs].
  rewrite rev_involutive. destruct (flat_search h (concat fs)); [rewrite app_nil_r|]; reflexivity.
Qed.

(** * from the record list with rotation marks to the files *)
Definition notrot (r : rkind) : bool := match r with RRot => false | _ => true end.

Lemma split_files_cons : forall wal, exists f fs, split_files wal = f :: fs.
Proof.
  induction wal as [|r t [f [fs IH]]]; [exists [], []; reflexivity|].
  destruct r; cbn [split_files]; rewrite ?IH; eauto.
Qed.

Lemma concat_split_files : forall wal, concat (split_files wal) = filter notrot wal.
Proof.
  induction wal as [|r t IH]; [reflexivity|].
  destruct (split_files_cons t) as [f [fs E]].
  destruct r; cbn [split_files filter notrot]; rewrite ?E; cbn [concat app]; try (rewrite <- IH, E; reflexivity).
Qed.

Lemma split_files_norot : forall wal, forallb notrot wal = true -> split_files wal = [wal].
Proof.
  induction wal as [|r t IH]; intros H; [reflexivity|].
  cbn [forallb] in H. apply andb_prop in H. destruct H as [Hr Ht].
  destruct r; cbn [split_files]; try (rewrite (IH Ht); reflexivity). discriminate.
Qed.

(** BaseWAL.OnStart only ever adds a #ENDHEIGHT 0 *)
Lemma concat_onstart : forall fs, fs <> [] ->
  concat (wal_onstart fs) = concat fs \/ concat (wal_onstart fs) = concat fs ++ [REnd 0].
Proof.
  induction fs as [|f fs IH]; intros H; [contradiction|].
  destruct fs as [|g fs].
  - cbn [wal_onstart concat]. destruct f; [right|left]; reflexivity.
  - change (wal_onstart (f :: g :: fs)) with (f :: wal_onstart (g :: fs)). cbn [concat].
    destruct (IH ltac:(discriminate)) as [E|E]; rewrite E; [left; reflexivity|right].
    cbn [concat]. rewrite app_assoc. reflexivity.
Qed.

Lemma onstart_single : forall r t, wal_onstart [r :: t] = [r :: t].
Proof. reflexivity. Qed.

(** a group that was never rotated: the search is the search of its one file *)
Lemma search_single : forall h f, search h [f] = flat_search h f.
Proof.
  intros h f. unfold search, flat_search. cbn [rev app search_rev].
  destruct (has_end h f) eqn:H.
  - rewrite (scan_found _ _ _ H), app_nil_r. reflexivity.
  - rewrite (scan_missed _ _ _ H). destruct (shortcut _ h); reflexivity.
Qed.
