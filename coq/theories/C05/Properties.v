(** C05 — crash recovery: property theorems only (each closed by [exact] of a lemma of
    ProofsWal.v / ProofsRecover.v, followed by [Print Assumptions]).

    PARTIAL: file-system semantics (torn writes inside a batch, directory fsync) are not
    modelled; a durable write is atomic.  Single validator.

    Vocabulary.
    - [trace_of inputs]: the WAL writes / fsyncs / "message is handled" events the receive routine
      issues for a list of inputs (own messages: Write, fsync, handle; others: Write, handle);
      [firstn n] of it is a crash after [n] events; [logical] what was written, [durable] what an
      fsync covered, [own_acted] the own messages handled (published).
    - [crash_img txs archive n i]: the durable image after [n] heights were decided, saved,
      applied and recorded and the first [i] durable writes of height [n+1] were made, for the
      pipeline the harness observes (wal-sync, own proposal, own part, own prevote, own precommit,
      block batch, #ENDHEIGHT, app-hash batch, [trie flush — flush-every-block mode only], head
      batch, consensus-state batch); [txs h]: the block of height [h] carries transactions.
    - [recover sc tl im]: what NewBlockChain's repair, Store.Load / genesis fallback,
      NewConsensusState and catchupReplay do on the image, and the signature requests up to the
      next commit; [stores_agree]: head height = consensus-state height; [no_conflict]: no
      signature request conflicts with a published message of the same (height, round, type). *)
From Coq Require Import List Arith Bool.
From Kardia Require Import C05.Model C05.ProofsWal C05.ProofsRecover.
Import ListNotations.

(** the durable WAL is a prefix of the logical log at every crash point ... *)
Theorem C05_wal_prefix :
  forall inputs n, exists rest,
    logical (firstn n (trace_of inputs)) = durable (firstn n (trace_of inputs)) ++ rest.
Proof. intros. apply durable_prefix. Qed.
Print Assumptions C05_wal_prefix.

(** ... and contains every own message that was acted upon before the crash *)
Theorem C05_wal_own_messages_durable :
  forall inputs n m,
    In m (own_acted (firstn n (trace_of inputs))) -> In m (durable (firstn n (trace_of inputs))).
Proof. exact acted_durable. Qed.
Print Assumptions C05_wal_own_messages_durable.

(** replaying a durable prefix reproduces the state and the decisions the live node had made
    after that prefix, for any deterministic step function *)
Theorem C05_replay_deterministic :
  forall (S I O : Type) (step : S -> I -> S * list O) (log rest : list I) (s0 : S),
    let (s_live, o_live) := run S I O step s0 (log ++ rest) in
    let (s_rep, o_rep) := run S I O step s0 log in
    let (s_cont, o_cont) := run S I O step s_rep rest in
    s_live = s_cont /\ o_live = o_rep ++ o_cont.
Proof. exact replay_reproduces. Qed.
Print Assumptions C05_replay_deterministic.

(** flush-every-block mode, every crash point before the head batch (wal-sync, proposal, part,
    prevote, precommit, block batch, #ENDHEIGHT, app-hash batch, trie flush), any number of
    finished heights: head, application state and consensus state agree on height n, nothing
    is lost, the node resumes at height n+1 *)
Theorem C05_consistent_before_head :
  forall txs sc tl n i, i <= 9 ->
    let o := recover sc tl (crash_img txs true n i) in
    stores_agree o = true /\ r_hh o = n /\ r_start o = S n /\ r_fellback o = false.
Proof. exact archive_before_head. Qed.
Print Assumptions C05_consistent_before_head.

Theorem C05_consistent_pipeline_complete :
  forall txs sc tl n,
    let o := recover sc tl (crash_img txs true n 11) in
    stores_agree o = true /\ r_hh o = S n /\ r_start o = S (S n) /\ r_fellback o = false.
Proof. exact archive_complete. Qed.
Print Assumptions C05_consistent_pipeline_complete.

(** crash after the head batch and before the consensus-state batch, any n: the stores do NOT
    agree — genesis fallback, consensus restarts at height 1 under a head at n+1 *)
Theorem C05_consistent_after_head_refuted :
  forall txs sc tl n,
    let o := recover sc tl (crash_img txs true n 10) in
    stores_agree o = false /\ r_hh o = S n /\ r_start o = 1 /\ r_fellback o = true.
Proof. exact archive_after_head. Qed.
Print Assumptions C05_consistent_after_head_refuted.

(** keep-recent mode, every crash point, any n: the head is rewound to genesis and consensus
    restarts at height 1 (the stores agree on the EMPTY prefix: every block is dropped) *)
Theorem C05_consistent_keep_recent :
  forall txs sc tl n i,
    let o := recover sc tl (crash_img txs false n i) in
    stores_agree o = true /\ r_hh o = 0 /\ r_start o = 1.
Proof. exact keeprecent_any. Qed.
Print Assumptions C05_consistent_keep_recent.

(** no conflicting signature: blocks without transactions, heights 1..5, every crash point before
    the head batch (bounded statement; the unbounded one is in Open.v) *)
Theorem C05_no_conflict_empty_blocks_partial :
  forallb (fun n => forallb (fun i => no_conflict (recover sc_fixed TSynced (crash_img tx_none true n i))) (seq 0 10)) (seq 0 5) = true.
Proof. exact no_conflict_empty_blocks_small. Qed.
Print Assumptions C05_no_conflict_empty_blocks_partial.

(** no conflicting signature before the own proposal is durable, blocks with transactions
    (bounded statement) *)
Theorem C05_no_conflict_before_proposal_partial :
  forallb (fun n => no_conflict (recover sc_fixed TSynced (crash_img tx_all true n 0)) &&
                    no_conflict (recover sc_fixed TSynced (crash_img tx_all true n 1))) (seq 0 5) = true.
Proof. exact no_conflict_before_proposal_small. Qed.
Print Assumptions C05_no_conflict_before_proposal_partial.

(** witness: crash index 7 of height 3 (after the #ENDHEIGHT fsync): no replay, the height is run
    again, the new block conflicts with the published one and replaces the stored one *)
Theorem C05_no_conflict_after_endheight_refuted :
  let o := recover sc_fixed TSynced (crash_img tx_all true 2 7) in
  r_replay o = RcEndPresent /\ r_start o = 3 /\ no_conflict o = false /\ r_repl_meta o = true /\ stores_agree o = true.
Proof. exact witness_endheight. Qed.
Print Assumptions C05_no_conflict_after_endheight_refuted.

Theorem C05_no_conflict_after_apphash_and_trie_refuted :
  no_conflict (recover sc_fixed TSynced (crash_img tx_all true 2 8)) = false /\
  no_conflict (recover sc_fixed TSynced (crash_img tx_all true 2 9)) = false.
Proof. exact witness_endheight_8_9. Qed.
Print Assumptions C05_no_conflict_after_apphash_and_trie_refuted.

(** witness: crash index 10 of height 3 (after the head batch): genesis fallback and conflicts *)
Theorem C05_no_conflict_after_head_refuted :
  let o := recover sc_fixed TSynced (crash_img tx_all true 2 10) in
  r_fellback o = true /\ r_start o = 1 /\ r_hh o = 3 /\ r_replay o = RcEndPresent /\ no_conflict o = false.
Proof. exact witness_fallback. Qed.
Print Assumptions C05_no_conflict_after_head_refuted.

(** witness: keep-recent mode, crash index 0 of height 2: head rewound, height 1 decided again *)
Theorem C05_no_conflict_keep_recent_refuted :
  let o := recover sc_fixed TSynced (crash_img tx_all false 1 0) in
  r_hh o = 0 /\ r_start o = 1 /\ r_replay o = RcEndPresent /\ no_conflict o = false /\ r_repl_meta o = true.
Proof. exact witness_rewound. Qed.
Print Assumptions C05_no_conflict_keep_recent_refuted.

(** witness: crash index 2 of height 3 (own proposal durable): the replay signs a second,
    different proposal for the same height and round *)
Theorem C05_no_conflict_replayed_proposal_refuted :
  let o := recover sc_fixed TSynced (crash_img tx_all true 2 2) in
  r_replay o = RcReplayed /\ no_conflict o = false /\
  match r_sigs o with s :: _ => s_prop s = true /\ s_rel s = RelConf | [] => False end.
Proof. exact witness_resign. Qed.
Print Assumptions C05_no_conflict_replayed_proposal_refuted.

(** recovery is idempotent on the durable image: the head-pointer rewrite a recovery makes does
    not change what the next recovery does *)
Theorem C05_second_crash :
  forall sc tl im h, i_head im = Some h ->
    recover sc tl (apply_db WHeadPtr im) = recover sc tl im.
Proof. exact second_crash_headptr. Qed.
Print Assumptions C05_second_crash.

(** the hypotheses are satisfiable / the definitions compute: a concrete healthy recovery *)
Theorem C05_example_replay :
  let o := recover sc_fixed TSynced (crash_img tx_none true 3 4) in
  stores_agree o = true /\ r_start o = 4 /\ r_replay o = RcReplayed /\ no_conflict o = true /\ length (r_sigs o) = 3.
Proof. vm_compute. repeat split; reflexivity. Qed.
Print Assumptions C05_example_replay.
