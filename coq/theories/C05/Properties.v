(** C05 — crash recovery: property theorems only (each closed by [exact] of a lemma of
    ProofsWal.v / ProofsRecover.v, followed by [Print Assumptions]).

    PARTIAL: file-system semantics (torn writes inside a batch, directory fsync) are not
    modelled; a durable write is atomic.  Single validator.

    Vocabulary.
    - [trace_of inputs]: the WAL writes / fsyncs / "message is handled" events the receive routine
      issues for a list of inputs (own messages: Write, fsync, handle; others: Write, handle);
      [firstn n] of it is a crash after [n] events; [logical] what was written, [durable] what an
      fsync covered, [own_acted] the own messages handled (published).
    - [crash_img txs archive n i]: the durable image after [n] heights were decided, saved,
      applied and recorded and the first [i] durable writes of height [n+1] were made, for the
      pipeline the harness observes (wal-sync, own proposal, own part, own prevote, own precommit,
      block batch, #ENDHEIGHT, app-hash batch, [trie flush — flush-every-block mode only], head
      batch, consensus-state batch); [txs h]: the block of height [h] carries transactions.
    - the durable WAL of an image is a record list with [RRot] marks where the head was rotated
      (autofile.Group.RotateFile); [split_files] cuts it into the files of the group, [wal_onstart]
      is BaseWAL.OnStart (an empty head gets #ENDHEIGHT 0), [search h files] is
      BaseWAL.SearchForEndHeight (newest file first, lastHeightFound kept across files, the
      "0 < lastHeightFound < height" shortcut), [flat_search] the search of a log that was never
      rotated; [sorted_markers l]: the non-zero #ENDHEIGHT markers of [l] increase (no height was
      run twice); [norm] erases the rotation marks and the #ENDHEIGHT 0 markers.
    - [recover sc tl im]: what NewBlockChain's repair, Store.Load / genesis fallback,
      NewConsensusState and catchupReplay do on the image, and the signature requests up to the
      next commit; [stores_agree]: head height = consensus-state height; [no_conflict]: no
      signature request conflicts with a published message of the same (height, round, type). *)
From Coq Require Import List Arith Bool.
From Kardia Require Import C05.Model C05.ProofsWal C05.ProofsRecover C05.ProofsSearch C05.ProofsRotate C05.ProofsNoConflict.
Import ListNotations.

(** the durable WAL is a prefix of the logical log at every crash point ... *)
Theorem C05_wal_prefix :
  forall inputs n, exists rest,
    logical (firstn n (trace_of inputs)) = durable (firstn n (trace_of inputs)) ++ rest.
Proof. intros. apply durable_prefix. Qed.
Print Assumptions C05_wal_prefix.

(** ... and contains every own message that was acted upon before the crash *)
Theorem C05_wal_own_messages_durable :
  forall inputs n m,
    In m (own_acted (firstn n (trace_of inputs))) -> In m (durable (firstn n (trace_of inputs))).
Proof. exact acted_durable. Qed.
Print Assumptions C05_wal_own_messages_durable.

(** replaying a durable prefix reproduces the state and the decisions the live node had made
    after that prefix, for any deterministic step function *)
Theorem C05_replay_deterministic :
  forall (S I O : Type) (step : S -> I -> S * list O) (log rest : list I) (s0 : S),
    let (s_live, o_live) := run S I O step s0 (log ++ rest) in
    let (s_rep, o_rep) := run S I O step s0 log in
    let (s_cont, o_cont) := run S I O step s_rep rest in
    s_live = s_cont /\ o_live = o_rep ++ o_cont.
Proof. exact replay_reproduces. Qed.
Print Assumptions C05_replay_deterministic.

(** flush-every-block mode, every crash point before the head batch (wal-sync, proposal, part,
    prevote, precommit, block batch, #ENDHEIGHT, app-hash batch, trie flush), any number of
    finished heights: head, application state and consensus state agree on height n, nothing
    is lost, the node resumes at height n+1 *)
Theorem C05_consistent_before_head :
  forall txs sc tl n i, i <= 9 ->
    let o := recover sc tl (crash_img txs true n i) in
    stores_agree o = true /\ r_hh o = n /\ r_start o = S n /\ r_fellback o = false.
Proof. exact archive_before_head. Qed.
Print Assumptions C05_consistent_before_head.

Theorem C05_consistent_pipeline_complete :
  forall txs sc tl n,
    let o := recover sc tl (crash_img txs true n 11) in
    stores_agree o = true /\ r_hh o = S n /\ r_start o = S (S n) /\ r_fellback o = false.
Proof. exact archive_complete. Qed.
Print Assumptions C05_consistent_pipeline_complete.

(** crash after the head batch and before the consensus-state batch, any n: the stores do NOT
    agree — genesis fallback, consensus restarts at height 1 under a head at n+1 *)
Theorem C05_consistent_after_head_refuted :
  forall txs sc tl n,
    let o := recover sc tl (crash_img txs true n 10) in
    stores_agree o = false /\ r_hh o = S n /\ r_start o = 1 /\ r_fellback o = true.
Proof. exact archive_after_head. Qed.
Print Assumptions C05_consistent_after_head_refuted.

(** keep-recent mode, every crash point, any n: the head is rewound to genesis and consensus
    restarts at height 1 (the stores agree on the EMPTY prefix: every block is dropped) *)
Theorem C05_consistent_keep_recent :
  forall txs sc tl n i,
    let o := recover sc tl (crash_img txs false n i) in
    stores_agree o = true /\ r_hh o = 0 /\ r_start o = 1.
Proof. exact keeprecent_any. Qed.
Print Assumptions C05_consistent_keep_recent.

(** NO CONFLICT, every image (any database state, any WAL, rotated anywhere, any tail): when the
    application state is the regular one, the pool is empty after the restart and no proposal of the restart height in the durable WAL
    carries transactions (so the block re-created from the empty pool equals it), the restarted
    node signs nothing that conflicts with what it had published *)
Theorem C05_no_conflict_general :
  forall sc tl im,
    sc_appfixed sc = true -> sc_newtx sc = false -> memb (cs_height im) (i_badapps im) = false ->
    (forall x t, In (RProp (S (cs_height im)) x t) (i_wal im) -> t = false) ->
    no_conflict (recover sc tl im) = true.
Proof. exact no_conflict_general. Qed.
Print Assumptions C05_no_conflict_general.

(** flush-every-block mode, ANY number of finished heights, every crash point before the head batch,
    every tail: no conflicting signature when the block of the crash height carries no transactions *)
Theorem C05_no_conflict_empty_blocks :
  forall txs sc tl n i, i <= 9 -> txs (S n) = false -> sc_appfixed sc = true -> sc_newtx sc = false ->
    no_conflict (recover sc tl (crash_img txs true n i)) = true.
Proof. exact no_conflict_empty_blocks. Qed.
Print Assumptions C05_no_conflict_empty_blocks.

(** ... and whatever the blocks carry: no conflicting signature before the own proposal is durable *)
Theorem C05_no_conflict_before_proposal :
  forall txs sc tl n i, i <= 1 -> sc_appfixed sc = true -> sc_newtx sc = false ->
    no_conflict (recover sc tl (crash_img txs true n i)) = true.
Proof. exact no_conflict_before_proposal. Qed.
Print Assumptions C05_no_conflict_before_proposal.

(** "continues like a twin that never crashed", on the signature requests: under the same
    hypotheses the restarted node asks for exactly one proposal, one prevote and one precommit
    for a block in round 1 of the height the twin is in *)
Theorem C05_twin_signatures :
  forall txs sc tl n i, i <= 9 -> txs (S n) = false -> sc_appfixed sc = true -> sc_newtx sc = false ->
    map sig_shape (r_sigs (recover sc tl (crash_img txs true n i))) =
    [(true, 0, S n, 1, false); (false, 1, S n, 1, false); (false, 2, S n, 1, false)].
Proof. exact twin_signatures. Qed.
Print Assumptions C05_twin_signatures.

(** REFUTED at every height: the three crash points after the #ENDHEIGHT fsync and before the head
    batch conflict as soon as the block of that height carries transactions (no block-replay
    handshake: the height is run again from an empty pool) *)
Theorem C05_no_conflict_after_endheight_every_height_refuted :
  forall txs sc tl n i, 7 <= i <= 9 -> txs (S n) = true ->
    no_conflict (recover sc tl (crash_img txs true n i)) = false.
Proof. exact conflict_after_endheight. Qed.
Print Assumptions C05_no_conflict_after_endheight_every_height_refuted.

(** witness: crash index 7 of height 3 (after the #ENDHEIGHT fsync): no replay, the height is run
    again, the new block conflicts with the published one and replaces the stored one *)
Theorem C05_no_conflict_after_endheight_refuted :
  let o := recover sc_fixed TSynced (crash_img tx_all true 2 7) in
  r_replay o = RcEndPresent /\ r_start o = 3 /\ no_conflict o = false /\ r_repl_meta o = true /\ stores_agree o = true.
Proof. exact witness_endheight. Qed.
Print Assumptions C05_no_conflict_after_endheight_refuted.

Theorem C05_no_conflict_after_apphash_and_trie_refuted :
  no_conflict (recover sc_fixed TSynced (crash_img tx_all true 2 8)) = false /\
  no_conflict (recover sc_fixed TSynced (crash_img tx_all true 2 9)) = false.
Proof. exact witness_endheight_8_9. Qed.
Print Assumptions C05_no_conflict_after_apphash_and_trie_refuted.

(** witness: crash index 10 of height 3 (after the head batch): genesis fallback and conflicts *)
Theorem C05_no_conflict_after_head_refuted :
  let o := recover sc_fixed TSynced (crash_img tx_all true 2 10) in
  r_fellback o = true /\ r_start o = 1 /\ r_hh o = 3 /\ r_replay o = RcEndPresent /\ no_conflict o = false.
Proof. exact witness_fallback. Qed.
Print Assumptions C05_no_conflict_after_head_refuted.

(** witness: keep-recent mode, crash index 0 of height 2: head rewound, height 1 decided again *)
Theorem C05_no_conflict_keep_recent_refuted :
  let o := recover sc_fixed TSynced (crash_img tx_all false 1 0) in
  r_hh o = 0 /\ r_start o = 1 /\ r_replay o = RcEndPresent /\ no_conflict o = false /\ r_repl_meta o = true.
Proof. exact witness_rewound. Qed.
Print Assumptions C05_no_conflict_keep_recent_refuted.

(** witness: crash index 2 of height 3 (own proposal durable): the replay signs a second,
    different proposal for the same height and round *)
Theorem C05_no_conflict_replayed_proposal_refuted :
  let o := recover sc_fixed TSynced (crash_img tx_all true 2 2) in
  r_replay o = RcReplayed /\ no_conflict o = false /\
  match r_sigs o with s :: _ => s_prop s = true /\ s_rel s = RelConf | [] => False end.
Proof. exact witness_resign. Qed.
Print Assumptions C05_no_conflict_replayed_proposal_refuted.

(** recovery is idempotent on the durable image: the head-pointer rewrite a recovery makes does
    not change what the next recovery does *)
Theorem C05_second_crash :
  forall sc tl im h, i_head im = Some h ->
    recover sc tl (apply_db WHeadPtr im) = recover sc tl im.
Proof. exact second_crash_headptr. Qed.
Print Assumptions C05_second_crash.

(** WAL ROTATION.  On a log whose markers increase, the search for a height >= 1 over the files
    of the group - wherever the head was rotated, however many #ENDHEIGHT 0 markers OnStart added -
    finds exactly what the search of the unrotated log finds, and reads on through all younger files *)
Theorem C05_search_rotation_invariant :
  forall h files, 1 <= h -> sorted_markers (concat files) ->
    search h files = flat_search h (concat files).
Proof. exact search_sorted. Qed.
Print Assumptions C05_search_rotation_invariant.

Theorem C05_search_unrotated : forall h f, search h [f] = flat_search h f.
Proof. exact search_single. Qed.
Print Assumptions C05_search_unrotated.

(** a restart at a height >= 2: two durable logs with the same records (rotated at other places
    or not at all, other #ENDHEIGHT 0 markers) give the same recovery - same replay class, same
    signature requests, same conflicts *)
Theorem C05_recover_rotation_invariant :
  forall sc tl im w,
    1 <= cs_height im ->
    sorted_markers (filter notrot (i_wal im)) -> sorted_markers (filter notrot w) ->
    norm w = norm (i_wal im) ->
    recover sc tl (set_wal im w) = recover sc tl im.
Proof. exact recover_rotation_invariant. Qed.
Print Assumptions C05_recover_rotation_invariant.

(** in particular on the crash images of the commit pipeline after n >= 1 heights: every theorem
    above about [crash_img] holds for every rotation of its WAL *)
Theorem C05_pipeline_rotation_invariant :
  forall txs sc tl n i w, 1 <= n -> i <= 9 ->
    sorted_markers (filter notrot w) -> norm w = norm (i_wal (crash_img txs true n i)) ->
    recover sc tl (set_wal (crash_img txs true n i) w) = recover sc tl (crash_img txs true n i).
Proof. exact crash_img_rotation_invariant. Qed.
Print Assumptions C05_pipeline_rotation_invariant.

(** why the shortcut must test [lastHeightFound > 0]: after a rotation and a crash the head holds
    only OnStart's #ENDHEIGHT 0; the search finds every marker >= 1 of the rotated file behind it,
    the variant with [lastHeightFound >= 0] ([search_ge0]) finds none *)
Theorem C05_search_behind_fresh_head :
  forall f h, 1 <= h -> has_end h f = true ->
    search h [f; [REnd 0]] = Some (after_end h f ++ [REnd 0]) /\
    (forall older, search_ge0 h (older ++ [[REnd 0]]) = None).
Proof. intros f h Hh Hf. split; [exact (search_finds_behind_fresh_head f h Hh Hf)|intro older; exact (search_ge0_misses older h Hh)]. Qed.
Print Assumptions C05_search_behind_fresh_head.

(** REFUTED for the initial height: own proposal of height 1 durable, head rotated away, crash:
    OnStart's fresh #ENDHEIGHT 0 is found first, nothing of height 1 is replayed (the unrotated
    image replays the proposal), the node signs a second, different proposal for height 1 round 1 *)
Theorem C05_rotation_initial_height_refuted :
  let im := crash_img tx_all true 0 2 in
  let o' := recover sc_fixed TSynced (set_wal im (i_wal im ++ [RRot])) in
  wv_logged (view_of 1 0 (i_wal im)) = Some true /\
  wv_logged (view_of 1 0 (i_wal im ++ [RRot])) = None /\
  r_replay o' = RcReplayed /\ no_conflict o' = false /\
  match r_sigs o' with s :: _ => s_prop s = true /\ s_rel s = RelConf | [] => False end.
Proof. exact witness_rotation_initial_height. Qed.
Print Assumptions C05_rotation_initial_height_refuted.

(** the closed-form image [img_after] and the fold of the observed log (boot writes, then the
    pipeline of every height) agree on the head pointer *)
Theorem C05_image_head_of_chain_log :
  forall txs archive n,
    i_head (fold_left (fun im e => apply_entry e im)
              (flat_map (fun h => pipeline txs archive h) (seq 1 n)) (img_after txs archive 0))
    = i_head (img_after txs archive n).
Proof. exact image_head_of_chain_log. Qed.
Print Assumptions C05_image_head_of_chain_log.

(** the hypotheses of the rotation theorems are satisfiable: a rotation right after the own
    prevote of height 3 changes nothing *)
Theorem C05_example_rotation :
  let im := crash_img tx_all true 2 4 in
  recover sc_fixed TSynced (set_wal im (i_wal im ++ [RRot])) = recover sc_fixed TSynced im.
Proof. exact witness_rotation_later_height. Qed.
Print Assumptions C05_example_rotation.

(** SOURCE TIE.  The model's decisions - the shortcut, marker test, file loop and reader of
    SearchForEndHeight, OnStart's height-0 marker, catchupReplay's two searches and its class,
    the catch-up loop of ConsensusState.OnStart, finalizeCommit's save guard and the place of
    WriteSync(#ENDHEIGHT) between validation and ApplyBlock, updateToState's height, the index
    arithmetic of RotateFile / the group reader / checkHeadSizeLimit, Store.Load at the HEAD height
    and the genesis fallback, the order of ApplyBlock's writes, setHeadBeyondRoot's walk, SaveBlock's
    contiguity test - are the expressions /verif/go2coq regenerates from the Go source on every
    check, on the operands and calls named there (statement spelled out in SourceTie.v). *)
From Kardia Require Import C05.SourceTie.
Theorem C05_source_tie : C05_source_tie_statement.
Proof. exact C05_source_tie_proof. Qed.
Print Assumptions C05_source_tie.

(** the hypotheses are satisfiable / the definitions compute: a concrete healthy recovery *)
Theorem C05_example_replay :
  let o := recover sc_fixed TSynced (crash_img tx_none true 3 4) in
  stores_agree o = true /\ r_start o = 4 /\ r_replay o = RcReplayed /\ no_conflict o = true /\ length (r_sigs o) = 3.
Proof. vm_compute. repeat split; reflexivity. Qed.
Print Assumptions C05_example_replay.

(** The decision-critical functions of the anchored code have exactly the decisions the source tie knows about
    (go2coq manifests, regenerated from /repo on every check; statement in SourceManifest.v). *)
From Kardia Require Import C05.SourceManifest.
Theorem C05_source_manifest : C05_source_manifest_statement.
Proof. exact C05_source_manifest_proof. Qed.
Print Assumptions C05_source_manifest.
