(** C17 — promoteExecutables under the invariant, runReorg without reset, addTxs, NewTxPool. *)
From Coq Require Import List ZArith NArith Bool Lia.
From Kardia Require Import Generated.C17Facts C17.Model C17.ProofsBasic C17.ProofsInv C17.ProofsOps C17.ProofsReorg C17.ProofsPromote.
Import ListNotations.
Local Open Scope Z_scope.

Lemma inv_promote_account p a : Inv p -> Inv (promote_account p a).
Proof.
  intros I. pose proof I as I0. apply Inv_split in I. destruct I as [S A].
  destruct (promote_account_spec p a S) as [S' [Hch [R [lo [P1 [P2 [P3 [P4 [P5 [P6 [P7 P8]]]]]]]]]]].
  { intros x y Hx Hy Hsx Hsy _. destruct (A a) as [Hrun [_ [Hq _]]].
    assert (st_nonce (p_chain p) a <= t_nonce x < pn_get p a) by (apply Hrun; eauto).
    specialize (Hq y Hy Hsy). lia. }
  set (p' := promote_account p a) in *.
  apply Inv_split. split; auto. intros b.
  destruct (A b) as [Hrun [Hpn [Hq Haff]]].
  unfold AcctInv. rewrite Hch.
  destruct (N.eq_dec a b) as [<-|Hne].
  - (* the promoted account *)
    assert (HloR : R <> [] -> lo = pn_get p a).
    { intros Hn. destruct (P4 Hn) as [_ Hle]. destruct (P3 lo) as [x [Hx Hxn]].
      { destruct R; [congruence|cbn [length]; lia]. }
      destruct (P2 x Hx) as [Hxq [Hxs _]]. specialize (Hq x Hxq Hxs). lia. }
    assert (Hpn' : pn_get p' a = pn_get p a + Z.of_nat (length R)).
    { rewrite P8. destruct R; [cbn; lia|]. rewrite HloR by congruence. reflexivity. }
    split; [|split; [|split]].
    + intros n. rewrite Hpn'. split.
      * intros [x [Hx [Hs Hn]]]. apply P1 in Hx. destruct Hx as [Hx|Hx].
        -- assert (st_nonce (p_chain p) a <= n < pn_get p a) by (apply Hrun; eauto). lia.
        -- destruct (P2 x Hx) as [_ [_ [_ Hr]]]. rewrite HloR in Hr by (intros ->; destruct Hx). lia.
      * intros Hn. destruct (Z_lt_ge_dec n (pn_get p a)) as [Hlt|Hge].
        -- destruct (proj2 (Hrun n)) as [x [Hx [Hs Hxn]]]; [lia|]. exists x. split; auto. apply P1. auto.
        -- assert (HRne : R <> []) by (intros ->; cbn in Hn; lia).
           destruct (P3 n) as [x [Hx Hxn]]; [rewrite HloR by auto; lia|].
           exists x. split; [apply P1; auto|]. split; auto. apply P2. auto.
    + rewrite Hpn'. lia.
    + intros x Hx Hs. apply P5 in Hx. destruct Hx as [Hxq [HnR Hc]]. specialize (Hc Hs). destruct Hc as [_ Hc].
      rewrite P8. destruct R as [|r0 R0] eqn:ER.
      * apply Hq; auto.
      * apply Hc. congruence.
    + intros x Hx Hs. apply P1 in Hx. destruct Hx as [Hx|Hx].
      * unfold affordable. rewrite Hch. apply Haff; auto.
      * unfold affordable. rewrite Hch. apply P2. auto.
  - (* other accounts are untouched *)
    assert (HR : forall x, In x R -> sender x <> b) by (intros x Hx Hs; apply Hne; destruct (P2 x Hx) as [_ [Hs' _]]; congruence).
    rewrite P7 by auto. split; [|split; [|split]]; auto.
    + intros n. rewrite <- Hrun. split.
      * intros [x [Hx [Hs Hn]]]. apply P1 in Hx. destruct Hx as [Hx|Hx]; [eauto|]. exfalso. eapply HR; eauto.
      * intros [x [Hx [Hs Hn]]]. exists x. split; auto. apply P1. auto.
    + intros x Hx Hs. apply P5 in Hx. apply Hq; tauto.
    + intros x Hx Hs. apply P1 in Hx. destruct Hx as [Hx|Hx].
      * unfold affordable. rewrite Hch. apply Haff; auto.
      * exfalso. eapply HR; eauto.
Qed.

Lemma inv_promote_executables accts : forall p, Inv p -> Inv (promote_executables p accts).
Proof.
  unfold promote_executables. induction accts as [|a r IH]; intros p I; cbn [fold_left]; auto.
  apply IH. apply inv_promote_account. auto.
Qed.

Lemma inv_run_reorg_none c p dirty : Inv p -> Inv (run_reorg c p None dirty).
Proof.
  intros I. unfold run_reorg.
  eapply Inv_core with (p := truncate_queue (o3 c) (truncate_pending (o2 c) (promote_executables p dirty))); [reflexivity|].
  apply inv_truncate_queue. apply inv_truncate_pending. apply inv_promote_executables. auto.
Qed.

Lemma inv_add_txs c p txs l : Inv p -> Inv (fst (add_txs c p txs l)).
Proof.
  intros I. unfold add_txs.
  destruct (filter _ txs) as [|n ns] eqn:En; [exact I|].
  destruct (add_txs_locked (o1 c) p (n :: ns) l) as [[p1 es] dirty] eqn:Ea. cbn [fst].
  apply inv_run_reorg_none. eapply inv_add_txs_locked; eauto.
Qed.

Lemma inv_empty cfg ch : Inv (empty_pool cfg ch).
Proof.
  unfold empty_pool. constructor; cbn [p_pending p_queue p_all p_chain map In]; try constructor; try tauto.
  - intros [x [[] _]].
  - intros H. unfold pn_get in H. cbn in H. lia.
  - intros a. unfold pn_get. cbn. lia.
Qed.

Lemma inv_new_pool c cfg ch file : Inv (new_pool c cfg ch file).
Proof.
  unfold new_pool. destruct (_ && _); [|apply inv_empty].
  eapply Inv_core with (p := match file with [] => empty_pool cfg ch | _ => fst (add_txs c (empty_pool cfg ch) file (negb (c_nolocals (p_cfg (empty_pool cfg ch))))) end); [reflexivity|].
  destruct file; [apply inv_empty|]. apply inv_add_txs. apply inv_empty.
Qed.
