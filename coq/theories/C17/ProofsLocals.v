(** C17 — locals are exempt from price eviction: the pool-full branch of add ([make_room]) and
    SetGasPrice remove only transactions that the index flags as remote. *)
From Coq Require Import List ZArith NArith Bool Lia.
From Kardia Require Import Generated.C17Facts C17.Model C17.ProofsBasic C17.ProofsInv C17.ProofsOps C17.ProofsReorg.
Import ListNotations.
Local Open Scope Z_scope.

(* ---- the index as a list of flagged entries *)

Lemma all_remove_entry al id e : In e (all_remove al id) <-> In e al /\ t_id (fst e) <> id.
Proof.
  unfold all_remove. rewrite filter_In. unfold id_is. rewrite negb_true_iff, N.eqb_neq. tauto.
Qed.

Lemma all_remove_list_entry l : forall al e, In e (all_remove_list al l) <-> In e al /\ ~ In (t_id (fst e)) (map t_id l).
Proof.
  unfold all_remove_list. induction l as [|x l IH]; intros al e; cbn [fold_left map In]; [tauto|].
  rewrite IH, all_remove_entry. intuition.
Qed.

Lemma all_remove_none al id : all_get al id = None -> all_remove al id = al.
Proof.
  unfold all_get, all_remove. induction al as [|e al IH]; cbn [find filter]; [reflexivity|].
  destruct (id_is id e) eqn:Ee; cbn [option_map negb]; [discriminate|].
  intros H. rewrite IH; auto.
Qed.

Lemma p_all_priced_removed p c : p_all (priced_removed p c) = p_all p.
Proof. unfold priced_removed, reheap. destruct (_ <=? _); reflexivity. Qed.

Lemma entry_flag_unique (al : list (tx * bool)) (x : tx) (b b' : bool) :
  NoDup (map t_id (map fst al)) -> In (x, b) al -> forall y, In (y, b') al -> t_id y = t_id x -> b' = b.
Proof.
  intros Hd Hx y Hy Hid. rewrite map_map in Hd.
  assert (H : (y, b') = (x, b)).
  { eapply (NoDup_map_inj (fun e : tx * bool => t_id (fst e))); eauto. }
  inversion H. reflexivity.
Qed.

Lemma all_get_remote_some al id t : all_get_remote al id = Some t -> In (t, false) al /\ t_id t = id.
Proof.
  unfold all_get_remote. destruct (find _ al) as [e|] eqn:E; cbn [option_map]; [|discriminate].
  intros H. inversion H; subst. apply find_some in E. destruct E as [Hin Hc].
  apply andb_true_iff in Hc. destruct Hc as [Hid Hf]. unfold id_is in Hid. apply N.eqb_eq in Hid.
  destruct e as [t b]. cbn [fst snd] in *. apply negb_true_iff in Hf. subst b. auto.
Qed.

(* ---- removeTx un-indexes exactly the requested id *)

Lemma remove_tx_all p id b : Inv p -> p_all (remove_tx p id b) = all_remove (p_all p) id.
Proof.
  intros I. unfold remove_tx.
  destruct (all_get (p_all p) id) as [t|] eqn:Eg; [|symmetry; apply all_remove_none; auto].
  set (p1 := set_all p (all_remove (p_all p) id)).
  set (p2 := if b then priced_removed p1 1 else p1).
  assert (Ha2 : p_all p2 = all_remove (p_all p) id) by (subst p2; destruct b; [rewrite p_all_priced_removed|]; reflexivity).
  assert (Hcore : core p2 = core p1) by (subst p2; destruct b; [apply core_priced_removed|reflexivity]).
  unfold core in Hcore. inversion Hcore as [[Hc Hp Hq Ha Hn]]. cbn [p1 p_chain p_pending p_queue p_all p_nonces set_all] in Hc, Hp, Hq, Ha, Hn.
  unfold l_remove. rewrite Hp, Hq.
  destruct (l_get (p_pending p) (sender t) (t_nonce t)) as [t0|] eqn:Egp.
  - set (a := sender t). set (n := t_nonce t).
    set (inval := filter (fun x => is_acct a x && (n <? t_nonce x)) (l_del (p_pending p) a n)).
    set (rest := filter (fun x => negb (is_acct a x && (n <? t_nonce x))) (l_del (p_pending p) a n)).
    destruct (enqueue_all_spec inval (set_pending p2 rest)) as [_ [_ [Hs3 _]]].
    { unfold inval. apply NoDup_map_filter. unfold l_del. apply NoDup_map_filter. apply (inv_kp _ p I). }
    { intros x Hx y Hy. cbn [p_queue set_pending] in Hy. rewrite Hq in Hy.
      unfold inval in Hx. apply filter_In in Hx. destruct Hx as [Hx _]. apply l_del_In in Hx. destruct Hx as [Hx _].
      intros Hk. symmetry in Hk. revert Hk. eapply (inv_disjoint _ p I); eauto. }
    cbn zeta in Hs3. cbn [p_all set_pending] in Hs3.
    unfold pn_set_if_lower. destruct (_ <=? _); [|unfold pn_set; cbn [p_all set_nonces]]; rewrite Hs3; exact Ha2.
  - destruct (l_get (p_queue p) (sender t) (t_nonce t)); cbn [p_all set_queue]; exact Ha2.
Qed.

Lemma remove_txs_all l : forall p b, Inv p -> p_all (remove_txs p l b) = all_remove_list (p_all p) l.
Proof.
  unfold remove_txs, all_remove_list. induction l as [|t l IH]; intros p b I; cbn [fold_left]; [reflexivity|].
  rewrite IH by (apply inv_remove_tx; exact I). rewrite remove_tx_all by exact I. reflexivity.
Qed.

(* ---- priced.Discard / priced.Cap hand out remote-flagged transactions only *)

Definition remotes_only (al : list (tx * bool)) (l : list tx) : Prop :=
  forall m, In m l -> exists t, In (t, false) al /\ t_id t = t_id m.

Lemma discard_loop_remote fuel o al : forall h s slots drop,
  remotes_only al drop ->
  remotes_only al (snd (discard_loop fuel o al h s slots drop)).
Proof.
  induction fuel as [|f IH]; intros h s slots drop Hd; cbn [discard_loop]; [exact Hd|].
  destruct (slots <=? 0); [exact Hd|].
  destruct (heap_min o h) as [m|]; [|exact Hd].
  destruct (all_get_remote al (t_id m)) as [t|] eqn:E.
  - apply IH. intros x Hx. apply in_app_iff in Hx. destruct Hx as [Hx|[<-|[]]]; [auto|].
    apply all_get_remote_some in E. exists t. exact E.
  - apply IH. exact Hd.
Qed.

Lemma cap_loop_remote fuel o al : forall h s thr drop,
  remotes_only al drop ->
  remotes_only al (snd (cap_loop fuel o al h s thr drop)).
Proof.
  induction fuel as [|f IH]; intros h s thr drop Hd; cbn [cap_loop]; [exact Hd|].
  destruct (heap_min o h) as [m|]; [|exact Hd].
  destruct (all_get_remote al (t_id m)) as [t|] eqn:E.
  - destruct (thr <=? t_price m); [exact Hd|].
    apply IH. intros x Hx. apply in_app_iff in Hx. destruct Hx as [Hx|[<-|[]]]; [auto|].
    apply all_get_remote_some in E. exists t. exact E.
  - apply IH. exact Hd.
Qed.

(* removing remote-flagged transactions leaves every local-flagged entry in place *)
Lemma remove_remotes_spares_locals p drop b :
  Inv p -> remotes_only (p_all p) drop ->
  forall x, In (x, true) (p_all p) -> In (x, true) (p_all (remove_txs p drop b)).
Proof.
  intros I Hr x Hx. rewrite remove_txs_all by exact I. apply all_remove_list_entry. split; [exact Hx|].
  cbn [fst]. intros Hin. apply in_map_iff in Hin. destruct Hin as [m [Hid Hm]].
  destruct (Hr m Hm) as [t [Ht Htid]].
  assert (false = true); [|discriminate].
  eapply (entry_flag_unique (p_all p) x true false (inv_ids _ p I) Hx t Ht). congruence.
Qed.

(** The pool-full branch of add never removes a transaction flagged local. *)
Theorem make_room_spares_locals o p t l p1 oe :
  Inv p -> make_room o p t l = (p1, oe) ->
  forall x, In (x, true) (p_all p) -> In (x, true) (p_all p1).
Proof.
  intros I. unfold make_room.
  destruct (_ <? _); [|intros H; inversion H; subst; auto].
  set (q1u := if l then (p, false) else priced_underpriced p o t).
  assert (Hq1 : core (fst q1u) = core p /\ p_all (fst q1u) = p_all p).
  { subst q1u. destruct l; cbn [fst]; [auto|]. unfold priced_underpriced. destruct (drop_stale_heads _ _ _ _ _). cbn. auto. }
  destruct q1u as [q1 under]. cbn [fst] in Hq1. destruct Hq1 as [C1 C8].
  assert (I1 : Inv q1) by (eapply Inv_core; [symmetry; exact C1|auto]).
  destruct (negb l && under); [intros H; inversion H; subst; rewrite C8; auto|].
  destruct (_ <? _); [intros H; inversion H; subst; rewrite C8; auto|].
  unfold priced_discard.
  pose proof (discard_loop_remote (length (p_heap q1)) o (p_all q1) (p_heap q1) (p_stales q1)
                (all_slots (p_all q1) - (c_gslots (p_cfg p) + c_gqueue (p_cfg p)) + num_slots t) []) as Hrem.
  destruct (discard_loop _ _ _ _ _ _ _) as [[[h s'] sl] drop]. cbn [snd] in Hrem.
  specialize (Hrem ltac:(intros m [])).
  destruct ((0 <? sl) && negb l).
  - destruct (negb l && negb false); intros H; inversion H; subst; cbn [p_all set_heap set_changes remove_txs fold_left]; rewrite ?C8; auto.
  - destruct (negb l && negb true); [intros H; inversion H; subst; cbn [p_all set_heap]; rewrite C8; auto|].
    intros H; inversion H; subst. clear H. intros x Hx.
    set (q3 := set_changes (set_heap q1 h s') (p_changes (set_heap q1 h s') + Z.of_nat (length drop))).
    assert (I3 : Inv q3) by (eapply Inv_core; [|exact I1]; reflexivity).
    apply (remove_remotes_spares_locals q3 drop false I3); cbn [q3 p_all set_changes set_heap]; [exact Hrem|].
    rewrite C8. exact Hx.
Qed.

(** SetGasPrice never removes a transaction flagged local. *)
Theorem set_gas_price_spares_locals c p price :
  Inv p -> forall x, In (x, true) (p_all p) -> In (x, true) (p_all (set_gas_price c p price)).
Proof.
  intros I x Hx. unfold set_gas_price. destruct (_ <? _); [|exact Hx].
  unfold priced_cap.
  pose proof (cap_loop_remote (length (p_heap (set_gasprice p price))) (o1 c) (p_all (set_gasprice p price))
                (p_heap (set_gasprice p price)) (p_stales (set_gasprice p price)) price []) as Hrem.
  destruct (cap_loop _ _ _ _ _ _ _) as [[h s] drop]. cbn [snd] in Hrem. specialize (Hrem ltac:(intros m [])).
  rewrite p_all_priced_removed.
  set (q := set_heap (set_gasprice p price) h s).
  assert (Iq : Inv q) by (eapply Inv_core; [|exact I]; reflexivity).
  apply (remove_remotes_spares_locals q drop false Iq); [exact Hrem|exact Hx].
Qed.

(** In the form of Open.v: a local-flagged transaction is still indexed after the pool-full branch. *)
Corollary price_eviction_spares_locals o p t l p1 oe :
  Inv p -> make_room o p t l = (p1, oe) ->
  forall x, In (x, true) (p_all p) -> In x (map fst (p_all p1)).
Proof.
  intros I H x Hx. apply in_map_iff. exists (x, true). split; [reflexivity|]. eapply make_room_spares_locals; eauto.
Qed.
