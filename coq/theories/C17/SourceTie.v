(** C17 — tie of the pool model's guards and arithmetic to the Go SOURCE.
    [Generated/C17Source.v] is produced on every check by /verif/go2coq from /repo's working tree:
    every condition / integer expression of validateTx, IntrinsicGas, add, enqueueTx, promoteTx,
    addTxs(Locked), journalTx, NewTxPool, sanitize, txList.Add/Filter/Remove,
    txSortedMap.Forward/Cap/Ready, the two heap orders, txPricedList.Removed/Cap/Underpriced/Discard,
    SetGasPrice, the eviction loop, runReorg, reset, promote/demote, truncatePending/Queue,
    txNoncer.setIfLower, txLookup.Add/Remove and Status, as Gallina over [Z] with explicit machine
    wraps.  The lemmas below say that the definitions of C17/Model.v compute exactly these
    expressions on exactly these operands: whole-function equalities where the function is small
    ([validate_tx], [intrinsic_gas], [l_add], [pn_set_if_lower], [sanitize], [priced_removed],
    [make_room], [journal_tx]), guard by guard otherwise (call arguments and switch cases of go2coq's third revision included: the
    slot count handed to priced.Discard, nonce+1 of promoteTx, 100+priceBump, the price cases of
    priceHeap.Less, list.Cap(list.Len()-1)); the [_atoms] lemmas pin WHAT is compared.
    big.Int comparisons appear in the source as [x.Cmp(y) op 0]: [cmp_int] is the Go int they return. *)
From Coq Require Import List ZArith NArith Bool Lia String.
From Kardia Require Import Base.Int64 Base.GoSem.
From Kardia Require Import Generated.C17Source.
From Kardia Require Import Generated.C17Facts C17.Model.
Import ListNotations.
Local Open Scope Z_scope.

Definition cmp_int (a b : Z) : Z := match a ?= b with Lt => -1 | Eq => 0 | Gt => 1 end.
Definition sign_int (a : Z) : Z := cmp_int a 0.

Lemma cmp_lt0 a b : (cmp_int a b <? 0) = (a <? b).
Proof. unfold cmp_int, Z.ltb. destruct (a ?= b); reflexivity. Qed.
Lemma cmp_gt0 a b : (cmp_int a b >? 0) = (b <? a).
Proof. rewrite Z.gtb_ltb. unfold cmp_int, Z.ltb. rewrite (Z.compare_antisym a b). destruct (a ?= b); reflexivity. Qed.
Lemma cmp_ge0 a b : (cmp_int a b >=? 0) = (b <=? a).
Proof. rewrite Z.geb_leb. unfold cmp_int, Z.leb. rewrite (Z.compare_antisym a b). destruct (a ?= b); reflexivity. Qed.
Lemma cmp_le0 a b : (cmp_int a b <=? 0) = (a <=? b).
Proof. unfold cmp_int, Z.leb. destruct (a ?= b); reflexivity. Qed.

Definition u64 (z : Z) : Prop := in_range U64 z.
Definition i64 (z : Z) : Prop := in_range I64 z.

(** ** constants *)
Lemma src_consts : mainchain_tx_pool__txSlotSize = tx_slot_size /\ mainchain_tx_pool__txMaxSize = tx_max_size.
Proof. split; reflexivity. Qed.

(** ** validateTx: the model's [validate_tx] IS the chain of source guards, in source order *)
Definition validate_tx_src (p : pool) (t : tx) (local : bool) : err :=
  if mainchain_tx_pool__TxPool_validateTx__if_uint64_tx_Size_gt_txMaxSize (t_size t) then EOversized else
  if mainchain_tx_pool__TxPool_validateTx__if_tx_Value__Sign_lt_0 (sign_int (t_value t)) then ENegative else
  if mainchain_tx_pool__TxPool_validateTx__if_pool_currentMaxGas_lt_tx_Gas (ch_gaslimit (p_chain p)) (t_gas t) then EGasLimit else
  match t_from t with
  | None => EInvalidSender
  | Some from =>
    if mainchain_tx_pool__TxPool_validateTx__if_not_local_and_tx_GasPriceIntCmp_pool_gasPrice_lt_0 local (cmp_int (t_price t) (p_gasprice p)) then EUnderpriced else
    if mainchain_tx_pool__TxPool_validateTx__if_pool_currentState_GetNonce_from_gt_tx_Nonce (st_nonce (p_chain p) from) (t_nonce t) then ENonceLow else
    if mainchain_tx_pool__TxPool_validateTx__if_pool_currentState_GetBalance_from__Cmp_tx_Cost_lt_0 (cmp_int (st_balance (p_chain p) from) (cost t)) then EFunds else
    match intrinsic_gas t (negb (p_galaxias p)) with
    | None => EGasOverflow
    | Some ig => if mainchain_tx_pool__TxPool_validateTx__if_tx_Gas_lt_intrGas (t_gas t) ig then EIntrinsic else EOk
    end
  end.

Lemma src_validate_tx p t local : validate_tx p t local = validate_tx_src p t local.
Proof.
  unfold validate_tx, validate_tx_src,
    mainchain_tx_pool__TxPool_validateTx__if_uint64_tx_Size_gt_txMaxSize,
    mainchain_tx_pool__TxPool_validateTx__if_tx_Value__Sign_lt_0,
    mainchain_tx_pool__TxPool_validateTx__if_pool_currentMaxGas_lt_tx_Gas,
    mainchain_tx_pool__TxPool_validateTx__if_not_local_and_tx_GasPriceIntCmp_pool_gasPrice_lt_0,
    mainchain_tx_pool__TxPool_validateTx__if_pool_currentState_GetNonce_from_gt_tx_Nonce,
    mainchain_tx_pool__TxPool_validateTx__if_pool_currentState_GetBalance_from__Cmp_tx_Cost_lt_0,
    mainchain_tx_pool__TxPool_validateTx__if_tx_Gas_lt_intrGas, sign_int, tx_max_size.
  rewrite Z.gtb_ltb, cmp_lt0. destruct (t_from t) as [from|]; [|reflexivity].
  rewrite !cmp_lt0, Z.gtb_ltb. reflexivity.
Qed.

Lemma src_validate_atoms :
  mainchain_tx_pool__TxPool_validateTx__if_uint64_tx_Size_gt_txMaxSize_atoms = ["uint64(tx.Size()) : uint64"]%string
  /\ mainchain_tx_pool__TxPool_validateTx__if_tx_Value__Sign_lt_0_atoms = ["tx.Value().Sign() : int"]%string
  /\ mainchain_tx_pool__TxPool_validateTx__if_pool_currentMaxGas_lt_tx_Gas_atoms = ["pool.currentMaxGas : uint64"; "tx.Gas() : uint64"]%string
  /\ mainchain_tx_pool__TxPool_validateTx__if_not_local_and_tx_GasPriceIntCmp_pool_gasPrice_lt_0_atoms = ["local : bool"; "tx.GasPriceIntCmp(pool.gasPrice) : int"]%string
  /\ mainchain_tx_pool__TxPool_validateTx__if_pool_currentState_GetNonce_from_gt_tx_Nonce_atoms = ["pool.currentState.GetNonce(from) : uint64"; "tx.Nonce() : uint64"]%string
  /\ mainchain_tx_pool__TxPool_validateTx__if_pool_currentState_GetBalance_from__Cmp_tx_Cost_lt_0_atoms = ["pool.currentState.GetBalance(from).Cmp(tx.Cost()) : int"]%string
  /\ mainchain_tx_pool__TxPool_validateTx__if_tx_Gas_lt_intrGas_atoms = ["tx.Gas() : uint64"; "intrGas : uint64"]%string.
Proof. repeat split; reflexivity. Qed.

(** ** IntrinsicGas: base costs, the two overflow guards and the two accumulations (uint64 wraps
    vanish exactly when the guards pass) *)
Definition intrinsic_src (t : tx) (legacy : bool) : option Z :=
  let gas0 := if mainchain_tx_pool__IntrinsicGas__if_contractCreation (t_create t) then mainchain_tx_pool__IntrinsicGas__let_gas
              else if mainchain_tx_pool__IntrinsicGas__if_legacy legacy then mainchain_tx_pool__IntrinsicGas__let_gas_3
              else mainchain_tx_pool__IntrinsicGas__let_gas_2 in
  if mainchain_tx_pool__IntrinsicGas__if_len_data_gt_0 (t_nz t + t_zb t) then
    if mainchain_tx_pool__IntrinsicGas__if_math_MaxUint64_minus_gas_div_nonZeroGas_lt_nz gas0 mainchain_tx_pool__IntrinsicGas__let_nonZeroGas (t_nz t) then None else
    let g1 := mainchain_tx_pool__IntrinsicGas__set_gas_op gas0 (t_nz t) mainchain_tx_pool__IntrinsicGas__let_nonZeroGas in
    let z := mainchain_tx_pool__IntrinsicGas__set_z (t_nz t + t_zb t) (t_nz t) in
    if mainchain_tx_pool__IntrinsicGas__if_math_MaxUint64_minus_gas_div_configs_TxDataZeroGas_lt_z g1 z then None else
    Some (mainchain_tx_pool__IntrinsicGas__set_gas_op_2 g1 z)
  else Some gas0.

Lemma quot_small a b : 0 <= a -> 0 < b -> Z.quot a b = a / b.
Proof. intros. apply Z.quot_div_nonneg; lia. Qed.

Lemma src_intrinsic_gas t legacy :
  0 <= t_nz t -> 0 <= t_zb t -> t_nz t + t_zb t <= 18446744073709551615 ->
  intrinsic_gas t legacy = intrinsic_src t legacy.
Proof.
  intros Hnz Hzb Hlen. unfold intrinsic_gas, intrinsic_src,
    mainchain_tx_pool__IntrinsicGas__if_contractCreation, mainchain_tx_pool__IntrinsicGas__if_legacy,
    mainchain_tx_pool__IntrinsicGas__let_gas, mainchain_tx_pool__IntrinsicGas__let_gas_2, mainchain_tx_pool__IntrinsicGas__let_gas_3,
    mainchain_tx_pool__IntrinsicGas__let_nonZeroGas, mainchain_tx_pool__IntrinsicGas__if_len_data_gt_0,
    mainchain_tx_pool__IntrinsicGas__if_math_MaxUint64_minus_gas_div_nonZeroGas_lt_nz,
    mainchain_tx_pool__IntrinsicGas__set_gas_op, mainchain_tx_pool__IntrinsicGas__set_z,
    mainchain_tx_pool__IntrinsicGas__if_math_MaxUint64_minus_gas_div_configs_TxDataZeroGas_lt_z,
    mainchain_tx_pool__IntrinsicGas__set_gas_op_2,
    tx_gas_creation, tx_gas_legacy, tx_gas, tx_data_nonzero_gas, tx_data_zero_gas, max_uint64.
  set (gas0 := if t_create t then 53000 else if legacy then 29000 else 21000).
  assert (Hg0 : 21000 <= gas0 <= 53000) by (unfold gas0; destruct (t_create t), legacy; lia).
  rewrite Z.gtb_ltb. destruct (0 <? t_nz t + t_zb t) eqn:Elen; [|reflexivity].
  unfold go_quot, go_sub, go_add, go_mul, go_conv.
  rewrite (wrap_id U64 (18446744073709551615 - gas0)) by (unfold in_range; lia).
  rewrite (quot_small (18446744073709551615 - gas0) 68) by lia.
  assert (Hq1 : 0 <= (18446744073709551615 - gas0) / 68 <= 18446744073709551615).
  { split; [apply Z.div_pos; lia|]. apply Z.div_le_upper_bound; lia. }
  rewrite (wrap_id U64 ((18446744073709551615 - gas0) / 68)) by (unfold in_range; lia).
  destruct ((18446744073709551615 - gas0) / 68 <? t_nz t) eqn:E1; [reflexivity|].
  apply Z.ltb_ge in E1.
  assert (Hm : t_nz t * 68 <= 18446744073709551615 - gas0).
  { pose proof (Z.mul_div_le (18446744073709551615 - gas0) 68 ltac:(lia)). nia. }
  rewrite (wrap_id U64 (t_nz t * 68)) by (unfold in_range; lia).
  rewrite (wrap_id U64 (gas0 + t_nz t * 68)) by (unfold in_range; lia).
  rewrite (wrap_id U64 (t_nz t + t_zb t)) by (unfold in_range; lia).
  replace (t_nz t + t_zb t - t_nz t) with (t_zb t) by lia.
  rewrite (wrap_id U64 (t_zb t)) by (unfold in_range; lia).
  set (g1 := gas0 + t_nz t * 68) in *.
  rewrite (wrap_id U64 (18446744073709551615 - g1)) by (unfold in_range; lia).
  rewrite (quot_small (18446744073709551615 - g1) 4) by lia.
  assert (Hq2 : 0 <= (18446744073709551615 - g1) / 4 <= 18446744073709551615).
  { split; [apply Z.div_pos; lia|]. apply Z.div_le_upper_bound; lia. }
  rewrite (wrap_id U64 ((18446744073709551615 - g1) / 4)) by (unfold in_range; lia).
  destruct ((18446744073709551615 - g1) / 4 <? t_zb t) eqn:E2; [reflexivity|].
  apply Z.ltb_ge in E2.
  assert (Hm2 : t_zb t * 4 <= 18446744073709551615 - g1).
  { pose proof (Z.mul_div_le (18446744073709551615 - g1) 4 ltac:(lia)). nia. }
  rewrite (wrap_id U64 (t_zb t * 4)) by (unfold in_range; lia).
  rewrite (wrap_id U64 (g1 + t_zb t * 4)) by (unfold in_range; lia).
  reflexivity.
Qed.

Lemma src_intrinsic_consts :
  mainchain_tx_pool__IntrinsicGas__let_gas = tx_gas_creation /\ mainchain_tx_pool__IntrinsicGas__let_gas_2 = tx_gas
  /\ mainchain_tx_pool__IntrinsicGas__let_gas_3 = tx_gas_legacy /\ mainchain_tx_pool__IntrinsicGas__let_nonZeroGas = tx_data_nonzero_gas.
Proof. repeat split; reflexivity. Qed.
Lemma src_intrinsic_atoms :
  mainchain_tx_pool__IntrinsicGas__if_math_MaxUint64_minus_gas_div_nonZeroGas_lt_nz_atoms = ["gas : uint64"; "nonZeroGas : uint64"; "nz : uint64"]%string
  /\ mainchain_tx_pool__IntrinsicGas__if_math_MaxUint64_minus_gas_div_configs_TxDataZeroGas_lt_z_atoms = ["gas : uint64"; "z : uint64"]%string
  /\ mainchain_tx_pool__IntrinsicGas__set_z_atoms = ["len(data) : int"; "nz : uint64"]%string.
Proof. repeat split; reflexivity. Qed.

(** ** txList.Add: the replacement guard (the threshold itself is big.Int arithmetic, outside the
    translator's subset; the model's [((100 + bump) * old) / 100] is validated by the harness) *)
Definition l_add_src (l : list tx) (t : tx) (bump : Z) : bool * option tx * list tx :=
  match l_get l (sender t) (t_nonce t) with
  | Some old =>
    if mainchain_tx_pool__txList_Add__if_old_GasPriceCmp_tx_ge_0_or_tx_GasPriceIntCmp_threshold_lt_0
         (cmp_int (t_price old) (t_price t)) (cmp_int (t_price t) (((100 + bump) * t_price old) / 100))
    then (false, None, l) else (true, Some old, l_put l t)
  | None => (true, None, l_put l t)
  end.
Lemma src_l_add l t bump : l_add l t bump = l_add_src l t bump.
Proof.
  unfold l_add, l_add_src, mainchain_tx_pool__txList_Add__if_old_GasPriceCmp_tx_ge_0_or_tx_GasPriceIntCmp_threshold_lt_0.
  destruct (l_get l (sender t) (t_nonce t)) as [old|]; [|reflexivity].
  rewrite cmp_ge0, cmp_lt0. reflexivity.
Qed.
Lemma src_l_add_atoms :
  mainchain_tx_pool__txList_Add__if_old_GasPriceCmp_tx_ge_0_or_tx_GasPriceIntCmp_threshold_lt_0_atoms
  = ["old.GasPriceCmp(tx) : int"; "tx.GasPriceIntCmp(threshold) : int"]%string.
Proof. reflexivity. Qed.

(** ** txList.Filter / Forward / Cap / Ready / Remove: the per-transaction predicates *)
Lemma filter_ext_eq {A} (f g : A -> bool) l : (forall x, f x = g x) -> filter f l = filter g l.
Proof. intros H. induction l as [|x l IH]; cbn [filter]; [reflexivity|]. rewrite H, IH. reflexivity. Qed.

Lemma src_filter_removed strict l a cl gl :
  fst (fst (l_filter strict l a cl gl)) =
  filter (fun t => is_acct a t && mainchain_tx_pool__txList_Filter__ret_tx_Gas_gt_gasLimit_or_tx_Cost__Cmp_costLimit_gt_0 (t_gas t) gl (cmp_int (cost t) cl)) l.
Proof.
  unfold l_filter.
  rewrite (filter_ext_eq (fun t => is_acct a t && mainchain_tx_pool__txList_Filter__ret_tx_Gas_gt_gasLimit_or_tx_Cost__Cmp_costLimit_gt_0 (t_gas t) gl (cmp_int (cost t) cl))
                         (fun t => is_acct a t && ((gl <? t_gas t) || (cl <? cost t)))).
  2:{ intros x. unfold mainchain_tx_pool__txList_Filter__ret_tx_Gas_gt_gasLimit_or_tx_Cost__Cmp_costLimit_gt_0. rewrite cmp_gt0, Z.gtb_ltb. reflexivity. }
  destruct (filter (fun t => is_acct a t && ((gl <? t_gas t) || (cl <? cost t))) l) eqn:E; [reflexivity|].
  destruct strict; reflexivity.
Qed.
Lemma src_filter_lowest lowest n : mainchain_tx_pool__txList_Filter__if_lowest_gt_nonce lowest n = (n <? lowest).
Proof. unfold mainchain_tx_pool__txList_Filter__if_lowest_gt_nonce. apply Z.gtb_ltb. Qed.
Lemma src_filter_lowest_init : mainchain_tx_pool__txList_Filter__let_lowest = max_uint64.
Proof. reflexivity. Qed.
(* [min_nonce] is the fold of "if lowest > nonce then lowest = nonce" from MaxUint64 *)
Lemma src_min_nonce l :
  min_nonce l = fold_right (fun t m => if mainchain_tx_pool__txList_Filter__if_lowest_gt_nonce m (t_nonce t) then t_nonce t else m)
                           mainchain_tx_pool__txList_Filter__let_lowest l.
Proof.
  unfold min_nonce. induction l as [|x l IH]; cbn [fold_right]; [reflexivity|]. rewrite <- IH, src_filter_lowest.
  destruct (Z.ltb_spec (t_nonce x) (fold_right (fun t m => Z.min (t_nonce t) m) max_uint64 l)); lia.
Qed.
Lemma src_filter_invalid n lowest : mainchain_tx_pool__txList_Filter__ret_tx_Nonce_gt_lowest n lowest = (lowest <? n).
Proof. unfold mainchain_tx_pool__txList_Filter__ret_tx_Nonce_gt_lowest. apply Z.gtb_ltb. Qed.
Lemma src_filter_atoms :
  mainchain_tx_pool__txList_Filter__ret_tx_Gas_gt_gasLimit_or_tx_Cost__Cmp_costLimit_gt_0_atoms = ["tx.Gas() : uint64"; "gasLimit : uint64"; "tx.Cost().Cmp(costLimit) : int"]%string
  /\ mainchain_tx_pool__txList_Filter__ret_tx_Nonce_gt_lowest_atoms = ["tx.Nonce() : uint64"; "lowest : uint64"]%string
  /\ mainchain_tx_pool__txList_Filter__if_l_costcap_Cmp_costLimit_le_0_and_l_gascap_le_gasLimit_atoms = ["l.costcap.Cmp(costLimit) : int"; "l.gascap : uint64"; "gasLimit : uint64"]%string.
Proof. repeat split; reflexivity. Qed.
(* the short circuit on the cached caps: "all costs <= costLimit and all gas <= gasLimit" *)
Lemma src_filter_shortcut cc cl gc gl :
  mainchain_tx_pool__txList_Filter__if_l_costcap_Cmp_costLimit_le_0_and_l_gascap_le_gasLimit (cmp_int cc cl) gc gl = ((cc <=? cl) && (gc <=? gl))%bool.
Proof. unfold mainchain_tx_pool__txList_Filter__if_l_costcap_Cmp_costLimit_le_0_and_l_gascap_le_gasLimit. rewrite cmp_le0. reflexivity. Qed.

Lemma src_forward l a th :
  fst (l_forward l a th) =
  filter (fun t => is_acct a t && mainchain_tx_pool__txSortedMap_Forward__for_m_index_Len_gt_0_and_mul_m_index_at_0_lt_threshold 1 (t_nonce t) th) l.
Proof. reflexivity. Qed.
Lemma src_forward_atoms :
  mainchain_tx_pool__txSortedMap_Forward__for_m_index_Len_gt_0_and_mul_m_index_at_0_lt_threshold_atoms = ["m.index.Len() : int"; "(*m.index)[0] : uint64"; "threshold : uint64"]%string.
Proof. reflexivity. Qed.

Lemma src_cap l a th :
  l_cap l a th =
  if mainchain_tx_pool__txSortedMap_Cap__if_len_m_items_le_threshold (l_len l a) th then ([], l)
  else (filter (fun t => is_acct a t && (th <=? rank_in l a t)) l, filter (fun t => negb (is_acct a t && (th <=? rank_in l a t))) l).
Proof. reflexivity. Qed.
Lemma src_cap_atoms : mainchain_tx_pool__txSortedMap_Cap__if_len_m_items_le_threshold_atoms = ["len(m.items) : int"; "threshold : int"]%string.
Proof. reflexivity. Qed.

Lemma src_ready l a start :
  l_ready l a start =
  match of_acct a l with
  | [] => []
  | la => if mainchain_tx_pool__txSortedMap_Ready__if_m_index_Len_eq_0_or_mul_m_index_at_0_gt_start (Z.of_nat (List.length la)) (min_nonce la) start
          then [] else run_from (List.length l) l a (min_nonce la)
  end.
Proof.
  unfold l_ready, mainchain_tx_pool__txSortedMap_Ready__if_m_index_Len_eq_0_or_mul_m_index_at_0_gt_start.
  destruct (of_acct a l) as [|x r]; [reflexivity|]. rewrite Z.gtb_ltb.
  replace (Z.of_nat (List.length (x :: r)) =? 0) with false by (symmetry; apply Z.eqb_neq; cbn [List.length]; lia).
  reflexivity.
Qed.
Lemma src_ready_next n : mainchain_tx_pool__txSortedMap_Ready__set_next_op n = wrap U64 (n + 1).
Proof. reflexivity. Qed.
Lemma src_ready_atoms :
  mainchain_tx_pool__txSortedMap_Ready__if_m_index_Len_eq_0_or_mul_m_index_at_0_gt_start_atoms = ["m.index.Len() : int"; "(*m.index)[0] : uint64"; "start : uint64"]%string.
Proof. reflexivity. Qed.

Lemma src_remove_invalid n t : mainchain_tx_pool__txList_Remove__ret_tx_Nonce_gt_nonce (t_nonce t) n = (n <? t_nonce t).
Proof. unfold mainchain_tx_pool__txList_Remove__ret_tx_Nonce_gt_nonce. apply Z.gtb_ltb. Qed.
Lemma src_remove l a n :
  l_remove true l a n =
  match l_get l a n with
  | None => (false, [], l)
  | Some _ => (true, filter (fun t => is_acct a t && mainchain_tx_pool__txList_Remove__ret_tx_Nonce_gt_nonce (t_nonce t) n) (l_del l a n),
                     filter (fun t => negb (is_acct a t && mainchain_tx_pool__txList_Remove__ret_tx_Nonce_gt_nonce (t_nonce t) n)) (l_del l a n))
  end.
Proof.
  unfold l_remove. destruct (l_get l a n); [|reflexivity].
  f_equal; [f_equal|]; apply filter_ext_eq; intros x; rewrite src_remove_invalid; reflexivity.
Qed.

(** ** the two heap orders *)
Lemma src_nonce_heap x y : mainchain_tx_pool__nonceHeap_Less__ret_h_at_i_lt_h_at_j x y = (x <? y).
Proof. reflexivity. Qed.
(* priceHeap.Less on equal prices: the higher nonce is "less" (popped first) - the second key of [hkey_lt] *)
Lemma src_price_heap_tie o x y : t_price x = t_price y ->
  mainchain_tx_pool__priceHeap_Less__ret_h_at_i__Nonce_gt_h_at_j__Nonce (t_nonce x) (t_nonce y) = true -> hkey_lt o x y = true.
Proof.
  unfold mainchain_tx_pool__priceHeap_Less__ret_h_at_i__Nonce_gt_h_at_j__Nonce, hkey_lt. intros Hp Hn.
  rewrite Z.gtb_ltb in Hn. rewrite Hp, Z.ltb_irrefl, Hn. reflexivity.
Qed.
Lemma src_price_heap_tie_rev o x y : t_price x = t_price y ->
  mainchain_tx_pool__priceHeap_Less__ret_h_at_i__Nonce_gt_h_at_j__Nonce (t_nonce y) (t_nonce x) = true -> hkey_lt o x y = false.
Proof.
  unfold mainchain_tx_pool__priceHeap_Less__ret_h_at_i__Nonce_gt_h_at_j__Nonce, hkey_lt. intros Hp Hn.
  rewrite Z.gtb_ltb in Hn. rewrite Hp, Z.ltb_irrefl, Hn.
  replace (t_nonce y <? t_nonce x) with false by (symmetry; apply Z.ltb_ge; apply Z.ltb_lt in Hn; lia). reflexivity.
Qed.
Lemma src_price_heap_atoms :
  mainchain_tx_pool__priceHeap_Less__ret_h_at_i__Nonce_gt_h_at_j__Nonce_atoms = ["h[i].Nonce() : uint64"; "h[j].Nonce() : uint64"]%string.
Proof. reflexivity. Qed.

(** ** txPricedList *)
Lemma quot4 x : 0 <= x -> Z.quot x 4 = x / 4.
Proof. intros. apply Z.quot_div_nonneg; lia. Qed.
Lemma div4_range x : 0 <= x <= 9223372036854775807 -> 0 <= x / 4 <= 9223372036854775807.
Proof. intros H. split; [apply Z.div_pos; lia|]. apply Z.div_le_upper_bound; lia. Qed.

Definition priced_removed_src (p : pool) (count : Z) : pool :=
  if mainchain_tx_pool__txPricedList_Removed__if_int_stales_le_len_mul_l_remotes_div_4 (p_stales p + count) (Z.of_nat (List.length (p_heap p)))
  then set_heap p (p_heap p) (p_stales p + count) else reheap p.
Lemma src_priced_removed p count :
  i64 (p_stales p + count) -> Z.of_nat (List.length (p_heap p)) <= 9223372036854775807 ->
  priced_removed p count = priced_removed_src p count.
Proof.
  unfold i64. intros Hs Hl. unfold priced_removed, priced_removed_src, mainchain_tx_pool__txPricedList_Removed__if_int_stales_le_len_mul_l_remotes_div_4, go_conv, go_quot.
  rewrite (wrap_id I64 (p_stales p + count)) by exact Hs.
  rewrite quot4 by lia.
  rewrite (wrap_id I64 (Z.of_nat (List.length (p_heap p)) / 4)).
  - reflexivity.
  - unfold in_range. pose proof (div4_range (Z.of_nat (List.length (p_heap p)))). lia.
Qed.

Lemma src_priced_cap_stop thr m : mainchain_tx_pool__txPricedList_Cap__if_cheapest_GasPriceIntCmp_threshold_ge_0 (cmp_int (t_price m) thr) = (thr <=? t_price m).
Proof. unfold mainchain_tx_pool__txPricedList_Cap__if_cheapest_GasPriceIntCmp_threshold_ge_0. apply cmp_ge0. Qed.
Lemma src_priced_stale_dec s : i64 (s - 1) -> mainchain_tx_pool__txPricedList_Cap__set_stales_op s = s - 1.
Proof. intros H. unfold mainchain_tx_pool__txPricedList_Cap__set_stales_op, go_sub. apply wrap_id. exact H. Qed.
Lemma src_underpriced_ret t m : mainchain_tx_pool__txPricedList_Underpriced__ret_cheapest_GasPriceCmp_tx_ge_0 (cmp_int (t_price m) (t_price t)) = (t_price t <=? t_price m).
Proof. unfold mainchain_tx_pool__txPricedList_Underpriced__ret_cheapest_GasPriceCmp_tx_ge_0. apply cmp_ge0. Qed.
(* priced_underpriced's answer is the source return expression on the heap minimum *)
Lemma src_priced_underpriced p o t :
  snd (priced_underpriced p o t) =
  let '(h, _) := drop_stale_heads (List.length (p_heap p)) o (p_all p) (p_heap p) (p_stales p) in
  match heap_min o h with
  | None => false
  | Some m => mainchain_tx_pool__txPricedList_Underpriced__ret_cheapest_GasPriceCmp_tx_ge_0 (cmp_int (t_price m) (t_price t))
  end.
Proof.
  unfold priced_underpriced. destruct (drop_stale_heads _ _ _ _ _) as [h s]. cbn [snd].
  destruct (heap_min o h); [|reflexivity]. rewrite src_underpriced_ret. reflexivity.
Qed.
Lemma src_discard_loop_guard len slots : 0 < len ->
  mainchain_tx_pool__txPricedList_Discard__for_len_mul_l_remotes_gt_0_and_slots_gt_0 len slots = negb (slots <=? 0).
Proof.
  intros H. unfold mainchain_tx_pool__txPricedList_Discard__for_len_mul_l_remotes_gt_0_and_slots_gt_0.
  rewrite !Z.gtb_ltb. replace (0 <? len) with true by (symmetry; apply Z.ltb_lt; lia). cbn [andb].
  destruct (Z.ltb_spec 0 slots); destruct (Z.leb_spec slots 0); try reflexivity; lia.
Qed.
Lemma src_discard_slots slots n : i64 (slots - n) -> mainchain_tx_pool__txPricedList_Discard__set_slots_op slots n = slots - n.
Proof. intros H. unfold mainchain_tx_pool__txPricedList_Discard__set_slots_op, go_sub. apply wrap_id. exact H. Qed.
Lemma src_discard_fail sl force : mainchain_tx_pool__txPricedList_Discard__if_slots_gt_0_and_not_force sl force = ((0 <? sl) && negb force)%bool.
Proof. unfold mainchain_tx_pool__txPricedList_Discard__if_slots_gt_0_and_not_force. rewrite Z.gtb_ltb. reflexivity. Qed.
(* priced_discard as a whole: the give-up test is the source guard *)
Lemma src_priced_discard p o slots force :
  priced_discard p o slots force =
  let '(h, s, sl, drop) := discard_loop (List.length (p_heap p)) o (p_all p) (p_heap p) (p_stales p) slots [] in
  if mainchain_tx_pool__txPricedList_Discard__if_slots_gt_0_and_not_force sl force then (set_heap p (drop ++ h) s, [], false)
  else (set_heap p h s, drop, true).
Proof.
  unfold priced_discard. destruct (discard_loop _ _ _ _ _ _ _) as [[[h s] sl] drop]. rewrite src_discard_fail. reflexivity.
Qed.
Lemma src_priced_atoms :
  mainchain_tx_pool__txPricedList_Removed__if_int_stales_le_len_mul_l_remotes_div_4_atoms = ["stales : int64"; "len(*l.remotes) : int"]%string
  /\ mainchain_tx_pool__txPricedList_Cap__if_cheapest_GasPriceIntCmp_threshold_ge_0_atoms = ["cheapest.GasPriceIntCmp(threshold) : int"]%string
  /\ mainchain_tx_pool__txPricedList_Underpriced__ret_cheapest_GasPriceCmp_tx_ge_0_atoms = ["cheapest.GasPriceCmp(tx) : int"]%string
  /\ mainchain_tx_pool__txPricedList_Discard__set_slots_op_atoms = ["slots : int"; "numSlots(tx) : int"]%string
  /\ mainchain_tx_pool__txPricedList_Discard__if_slots_gt_0_and_not_force_atoms = ["slots : int"; "force : bool"]%string.
Proof. repeat split; reflexivity. Qed.

(** ** TxPool.add: the pool-full branch ([make_room]) and the flags *)
Definition cfg_ok (q : pool) (t : tx) : Prop :=
  0 <= all_slots (p_all q) /\ 0 <= num_slots t /\ all_slots (p_all q) + num_slots t <= 9223372036854775807 /\
  0 <= c_gslots (p_cfg q) /\ 0 <= c_gqueue (p_cfg q) /\ c_gslots (p_cfg q) + c_gqueue (p_cfg q) <= 9223372036854775807.

Definition make_room_src (o1 : list N) (q : pool) (t : tx) (is_local : bool) : pool * option err :=
  let cfg := p_cfg q in
  if mainchain_tx_pool__TxPool_add__if_uint64_pool_all_Slots_plus_numSlots_tx_gt_pool_config_Global_f57d0a13
       (all_slots (p_all q)) (num_slots t) (c_gslots cfg) (c_gqueue cfg) then
    let '(q1, under) := if is_local then (q, false) else priced_underpriced q o1 t in
    if mainchain_tx_pool__TxPool_add__if_not_isLocal_and_pool_priced_Underpriced_tx is_local under then (q1, Some EUnderpriced) else
    if mainchain_tx_pool__TxPool_add__if_pool_changesSinceReorg_gt_int_pool_config_GlobalSlots_div_4 (p_changes q1) (c_gslots cfg) then (q1, Some EPoolFull) else
    let '(q2, drop, success) :=
        priced_discard q1 o1 (mainchain_tx_pool__TxPool_add__arg_pool_all_Slots_minus_int_pool_config_GlobalSlots_plus_pool_c_dd788a09
                                (all_slots (p_all q1)) (c_gslots cfg) (c_gqueue cfg) (num_slots t)) is_local in
    if mainchain_tx_pool__TxPool_add__if_not_isLocal_and_not_success is_local success then (q2, Some EPoolFull) else
    let q3 := set_changes q2 (p_changes q2 + Z.of_nat (List.length drop)) in
    (remove_txs q3 drop false, None)
  else (q, None).

Lemma src_full_guard s n gs gq :
  0 <= s + n <= 9223372036854775807 -> 0 <= gs -> 0 <= gq -> gs + gq <= 18446744073709551615 ->
  mainchain_tx_pool__TxPool_add__if_uint64_pool_all_Slots_plus_numSlots_tx_gt_pool_config_Global_f57d0a13 s n gs gq = (gs + gq <? s + n).
Proof.
  intros H1 H2 H3 H4. unfold mainchain_tx_pool__TxPool_add__if_uint64_pool_all_Slots_plus_numSlots_tx_gt_pool_config_Global_f57d0a13, go_conv, go_add.
  rewrite (wrap_id I64 (s + n)) by (unfold in_range; lia).
  rewrite (wrap_id U64 (s + n)) by (unfold in_range; lia).
  rewrite (wrap_id U64 (gs + gq)) by (unfold in_range; lia).
  apply Z.gtb_ltb.
Qed.
Lemma src_changes_guard ch gs : 0 <= gs <= 18446744073709551615 ->
  mainchain_tx_pool__TxPool_add__if_pool_changesSinceReorg_gt_int_pool_config_GlobalSlots_div_4 ch gs = (gs / 4 <? ch).
Proof.
  intros H. unfold mainchain_tx_pool__TxPool_add__if_pool_changesSinceReorg_gt_int_pool_config_GlobalSlots_div_4, go_conv, go_quot.
  rewrite quot4 by lia.
  assert (0 <= gs / 4 <= 4611686018427387903).
  { split; [apply Z.div_pos; lia|]. assert (gs / 4 < 4611686018427387904) by (apply Z.div_lt_upper_bound; lia). lia. }
  rewrite (wrap_id U64 (gs / 4)) by (unfold in_range; lia).
  rewrite (wrap_id I64 (gs / 4)) by (unfold in_range; lia).
  apply Z.gtb_ltb.
Qed.
Lemma src_changes_add ch n : i64 (ch + n) -> mainchain_tx_pool__TxPool_add__set_changesSinceReorg_op ch n = ch + n.
Proof. intros H. unfold mainchain_tx_pool__TxPool_add__set_changesSinceReorg_op, go_add. apply wrap_id. exact H. Qed.

Lemma priced_underpriced_cfg q o t : p_cfg (fst (priced_underpriced q o t)) = p_cfg q.
Proof. unfold priced_underpriced. destruct (drop_stale_heads _ _ _ _ _). reflexivity. Qed.
Lemma priced_underpriced_all q o t : p_all (fst (priced_underpriced q o t)) = p_all q.
Proof. unfold priced_underpriced. destruct (drop_stale_heads _ _ _ _ _). reflexivity. Qed.

(* the slot count handed to priced.Discard *)
Lemma src_discard_arg s gs gq n :
  0 <= s -> 0 <= n -> s + n <= 9223372036854775807 -> 0 <= gs -> 0 <= gq -> gs + gq <= 9223372036854775807 ->
  mainchain_tx_pool__TxPool_add__arg_pool_all_Slots_minus_int_pool_config_GlobalSlots_plus_pool_c_dd788a09 s gs gq n = s - (gs + gq) + n.
Proof.
  intros. unfold mainchain_tx_pool__TxPool_add__arg_pool_all_Slots_minus_int_pool_config_GlobalSlots_plus_pool_c_dd788a09, go_add, go_sub, go_conv.
  rewrite (wrap_id U64 (gs + gq)) by (unfold in_range; lia).
  rewrite (wrap_id I64 (gs + gq)) by (unfold in_range; lia).
  rewrite (wrap_id I64 (s - (gs + gq))) by (unfold in_range; lia).
  apply wrap_id. unfold in_range. lia.
Qed.

Lemma src_make_room o q t is_local : cfg_ok q t -> make_room o q t is_local = make_room_src o q t is_local.
Proof.
  intros [H0 [H0' [H1 [H2 [H3 H4]]]]]. unfold make_room, make_room_src.
  rewrite src_full_guard by lia.
  destruct (c_gslots (p_cfg q) + c_gqueue (p_cfg q) <? all_slots (p_all q) + num_slots t); [|reflexivity].
  assert (Hall : p_all (fst (if is_local then (q, false) else priced_underpriced q o t)) = p_all q).
  { destruct is_local; [reflexivity|apply priced_underpriced_all]. }
  destruct (if is_local then (q, false) else priced_underpriced q o t) as [q1 under]. cbn [fst] in Hall.
  rewrite (src_discard_arg (all_slots (p_all q1))) by (rewrite ?Hall; lia).
  unfold mainchain_tx_pool__TxPool_add__if_not_isLocal_and_pool_priced_Underpriced_tx.
  destruct (negb is_local && under); [reflexivity|].
  rewrite src_changes_guard by lia.
  destruct (c_gslots (p_cfg q) / 4 <? p_changes q1); [reflexivity|].
  destruct (priced_discard q1 o _ is_local) as [[q2 drop] success].
  unfold mainchain_tx_pool__TxPool_add__if_not_isLocal_and_not_success. reflexivity.
Qed.
Lemma src_add_flags local inl ok replaced :
  mainchain_tx_pool__TxPool_add__set_isLocal local inl = (local || inl)%bool
  /\ mainchain_tx_pool__TxPool_add__if_local_and_not_pool_locals_contains_from local inl = (local && negb inl)%bool
  /\ mainchain_tx_pool__TxPool_addTxsLocked__if_err_eq_nil_and_not_replaced ok replaced = (ok && negb replaced)%bool
  /\ mainchain_tx_pool__TxPool_add__if_list_ne_nil_and_list_Overlaps_tx ok replaced = (ok && replaced)%bool.
Proof. repeat split; reflexivity. Qed.
Lemma src_add_atoms :
  mainchain_tx_pool__TxPool_add__if_uint64_pool_all_Slots_plus_numSlots_tx_gt_pool_config_Global_f57d0a13_atoms = ["pool.all.Slots() : int"; "numSlots(tx) : int"; "pool.config.GlobalSlots : uint64"; "pool.config.GlobalQueue : uint64"]%string
  /\ mainchain_tx_pool__TxPool_add__if_pool_changesSinceReorg_gt_int_pool_config_GlobalSlots_div_4_atoms = ["pool.changesSinceReorg : int"; "pool.config.GlobalSlots : uint64"]%string
  /\ mainchain_tx_pool__TxPool_add__set_isLocal_atoms = ["local : bool"; "pool.locals.containsTx(tx) : bool"]%string
  /\ mainchain_tx_pool__TxPool_add__if_not_isLocal_and_pool_priced_Underpriced_tx_atoms = ["isLocal : bool"; "pool.priced.Underpriced(tx) : bool"]%string
  /\ mainchain_tx_pool__TxPool_add__if_not_isLocal_and_not_success_atoms = ["isLocal : bool"; "success : bool"]%string
  /\ mainchain_tx_pool__TxPool_add__if_local_and_not_pool_locals_contains_from_atoms = ["local : bool"; "pool.locals.contains(from) : bool"]%string
  /\ mainchain_tx_pool__TxPool_add__set_changesSinceReorg_op_atoms = ["pool.changesSinceReorg : int"; "len(drop) : int"]%string.
Proof. repeat split; reflexivity. Qed.

(** ** journalTx, NewTxPool, sanitize, txNoncer.setIfLower, txLookup slots *)
Definition is_none {A} (o : option A) : bool := match o with None => true | Some _ => false end.
Lemma src_journal_tx p from t :
  journal_tx p from t =
  if mainchain_tx_pool__TxPool_journalTx__if_pool_journal_eq_nil_or_not_pool_locals_contains_from (is_none (p_journal p)) (memN from (p_locals p))
  then p else set_journal p (option_map (fun j => j ++ [t]) (p_journal p)).
Proof.
  unfold journal_tx, mainchain_tx_pool__TxPool_journalTx__if_pool_journal_eq_nil_or_not_pool_locals_contains_from.
  destruct (p_journal p); cbn [is_none orb option_map]; [|reflexivity]. destruct (memN from (p_locals p)); reflexivity.
Qed.
Lemma src_new_pool_journal nolocals journal :
  mainchain_tx_pool__NewTxPool__if_not_config_NoLocals_and_config_Journal_ne nolocals journal = (negb nolocals && journal)%bool.
Proof. reflexivity. Qed.
Lemma src_sanitize c :
  sanitize c =
  mkCfg (if mainchain_tx_pool__TxPoolConfig_sanitize__if_conf_PriceLimit_lt_1 (c_price_limit c) then def_price_limit else c_price_limit c)
        (if mainchain_tx_pool__TxPoolConfig_sanitize__if_conf_PriceBump_lt_1 (c_price_bump c) then def_price_bump else c_price_bump c)
        (if mainchain_tx_pool__TxPoolConfig_sanitize__if_conf_AccountSlots_lt_1 (c_aslots c) then def_account_slots else c_aslots c)
        (if mainchain_tx_pool__TxPoolConfig_sanitize__if_conf_GlobalSlots_lt_1 (c_gslots c) then def_global_slots else c_gslots c)
        (if mainchain_tx_pool__TxPoolConfig_sanitize__if_conf_AccountQueue_lt_1 (c_aqueue c) then def_account_queue else c_aqueue c)
        (if mainchain_tx_pool__TxPoolConfig_sanitize__if_conf_GlobalQueue_lt_1 (c_gqueue c) then def_global_queue else c_gqueue c)
        (c_nolocals c) (c_journal c) (c_locals c).
Proof. reflexivity. Qed.
Lemma src_sanitize_atoms :
  mainchain_tx_pool__TxPoolConfig_sanitize__if_conf_PriceLimit_lt_1_atoms = ["conf.PriceLimit : uint64"]%string
  /\ mainchain_tx_pool__TxPoolConfig_sanitize__if_conf_PriceBump_lt_1_atoms = ["conf.PriceBump : uint64"]%string
  /\ mainchain_tx_pool__TxPoolConfig_sanitize__if_conf_AccountSlots_lt_1_atoms = ["conf.AccountSlots : uint64"]%string
  /\ mainchain_tx_pool__TxPoolConfig_sanitize__if_conf_GlobalSlots_lt_1_atoms = ["conf.GlobalSlots : uint64"]%string
  /\ mainchain_tx_pool__TxPoolConfig_sanitize__if_conf_AccountQueue_lt_1_atoms = ["conf.AccountQueue : uint64"]%string
  /\ mainchain_tx_pool__TxPoolConfig_sanitize__if_conf_GlobalQueue_lt_1_atoms = ["conf.GlobalQueue : uint64"]%string
  /\ mainchain_tx_pool__TxPoolConfig_sanitize__put_conf_PriceLimit_atoms = ["DefaultTxPoolConfig.PriceLimit : uint64"]%string
  /\ mainchain_tx_pool__TxPoolConfig_sanitize__put_conf_GlobalQueue_atoms = ["DefaultTxPoolConfig.GlobalQueue : uint64"]%string.
Proof. repeat split; reflexivity. Qed.
Lemma src_pn_set_if_lower p a v :
  pn_set_if_lower p a v = if mainchain_tx_pool__txNoncer_setIfLower__if_txn_nonces_at_addr_le_nonce (pn_get p a) v then p else pn_set p a v.
Proof. reflexivity. Qed.
Lemma src_noncer_atoms :
  mainchain_tx_pool__txNoncer_setIfLower__if_txn_nonces_at_addr_le_nonce_atoms = ["txn.nonces[addr] : uint64"; "nonce : uint64"]%string
  /\ mainchain_tx_pool__txNoncer_setIfLower__let_assign_atoms = ["txn.fallback.GetNonce(addr) : uint64"]%string.
Proof. split; reflexivity. Qed.
Lemma src_lookup_slots s n : i64 (s + n) -> i64 (s - n) ->
  mainchain_tx_pool__txLookup_Add__set_slots_op s n = s + n /\ mainchain_tx_pool__txLookup_Remove__set_slots_op s n = s - n.
Proof. intros H1 H2. unfold mainchain_tx_pool__txLookup_Add__set_slots_op, mainchain_tx_pool__txLookup_Remove__set_slots_op, go_add, go_sub. split; apply wrap_id; assumption. Qed.
(* all_slots is the running sum txLookup.Add maintains *)
Lemma src_all_slots_add al t b : i64 (all_slots al + num_slots t) ->
  all_slots ((t, b) :: al) = mainchain_tx_pool__txLookup_Add__set_slots_op (all_slots al) (num_slots t).
Proof.
  intros H. unfold mainchain_tx_pool__txLookup_Add__set_slots_op, go_add. rewrite wrap_id by exact H.
  unfold all_slots. cbn [fold_right fst]. lia.
Qed.

(** ** SetGasPrice, promote/demote, truncatePending, truncateQueue *)
Lemma src_set_gas_price c p price :
  set_gas_price c p price =
  let p1 := set_gasprice p price in
  if mainchain_tx_pool__TxPool_SetGasPrice__if_price_Cmp_old_gt_0 (cmp_int price (p_gasprice p)) then
    let '(p2, drop) := priced_cap p1 (o1 c) price in
    priced_removed (remove_txs p2 drop false) (Z.of_nat (List.length drop))
  else p1.
Proof. unfold set_gas_price, mainchain_tx_pool__TxPool_SetGasPrice__if_price_Cmp_old_gt_0. rewrite cmp_gt0. reflexivity. Qed.

Lemma src_promote_cap_guard inl : mainchain_tx_pool__TxPool_promoteExecutables__if_not_pool_locals_contains_addr inl = negb inl.
Proof. reflexivity. Qed.
(* demoteUnexecutables: "list.Len() > 0 && list.txs.Get(nonce) == nil" is the model's match on (of_acct, l_get) *)
Lemma src_demote_gap_guard (l : list tx) (g : option tx) :
  mainchain_tx_pool__TxPool_demoteUnexecutables__if_list_Len_gt_0_and_list_txs_Get_nonce_eq_nil (Z.of_nat (List.length l)) (is_none g)
  = match l, g with _ :: _, None => true | _, _ => false end.
Proof.
  unfold mainchain_tx_pool__TxPool_demoteUnexecutables__if_list_Len_gt_0_and_list_txs_Get_nonce_eq_nil.
  destruct l as [|x r]; [reflexivity|]. rewrite Z.gtb_ltb.
  replace (0 <? Z.of_nat (List.length (x :: r))) with true by (symmetry; apply Z.ltb_lt; cbn [List.length]; lia).
  destruct g; reflexivity.
Qed.

Lemma src_tp_early pending gs : mainchain_tx_pool__TxPool_truncatePending__if_pending_le_pool_config_GlobalSlots pending gs = (pending <=? gs).
Proof. reflexivity. Qed.
Lemma src_tp_spammer inl len aslots : 0 <= len <= 18446744073709551615 ->
  mainchain_tx_pool__TxPool_truncatePending__if_not_pool_locals_contains_addr_and_uint64_list_Len_gt_pool_co_7ec6767c inl len aslots = (negb inl && (aslots <? len))%bool.
Proof.
  intros H. unfold mainchain_tx_pool__TxPool_truncatePending__if_not_pool_locals_contains_addr_and_uint64_list_Len_gt_pool_co_7ec6767c, go_conv.
  rewrite wrap_id by (unfold in_range; lia). rewrite Z.gtb_ltb. reflexivity.
Qed.
Lemma src_tp_offenders pending gs : mainchain_tx_pool__TxPool_truncatePending__for_pending_gt_pool_config_GlobalSlots_and_not_spammers_Empty pending gs false = (gs <? pending).
Proof. unfold mainchain_tx_pool__TxPool_truncatePending__for_pending_gt_pool_config_GlobalSlots_and_not_spammers_Empty. rewrite Z.gtb_ltb. apply andb_true_r. Qed.
Lemma src_tp_equalize pending gs len th :
  mainchain_tx_pool__TxPool_truncatePending__for_pending_gt_pool_config_GlobalSlots_and_pool_pending_at_offen_8860f6c3 pending gs len th = ((gs <? pending) && (th <? len))%bool.
Proof. unfold mainchain_tx_pool__TxPool_truncatePending__for_pending_gt_pool_config_GlobalSlots_and_pool_pending_at_offen_8860f6c3. rewrite !Z.gtb_ltb. reflexivity. Qed.
Lemma src_tp_reduce pending gs len aslots : 0 <= len <= 18446744073709551615 ->
  mainchain_tx_pool__TxPool_truncatePending__for_pending_gt_pool_config_GlobalSlots_and_uint64_pool_pending_a_82da6082 pending gs len aslots = ((gs <? pending) && (aslots <? len))%bool.
Proof.
  intros H. unfold mainchain_tx_pool__TxPool_truncatePending__for_pending_gt_pool_config_GlobalSlots_and_uint64_pool_pending_a_82da6082, go_conv.
  rewrite wrap_id by (unfold in_range; lia). rewrite !Z.gtb_ltb. reflexivity.
Qed.
Lemma src_tp_dec pending : 1 <= pending <= 18446744073709551615 ->
  mainchain_tx_pool__TxPool_truncatePending__set_pending_op_2 pending = pending - 1 /\ mainchain_tx_pool__TxPool_truncatePending__set_pending_op_3 pending = pending - 1.
Proof.
  intros H. unfold mainchain_tx_pool__TxPool_truncatePending__set_pending_op_2, mainchain_tx_pool__TxPool_truncatePending__set_pending_op_3, go_sub.
  split; apply wrap_id; unfold in_range; lia.
Qed.
(* the model's loops use exactly these guards *)
Lemma src_equalize_step fuel p pending prev last_prev threshold :
  equalize (S fuel) p pending prev last_prev threshold =
  if mainchain_tx_pool__TxPool_truncatePending__for_pending_gt_pool_config_GlobalSlots_and_pool_pending_at_offen_8860f6c3
       pending (c_gslots (p_cfg p)) (l_len (p_pending p) last_prev) threshold
  then let '(p1, n1) := cap_each p pending prev in equalize fuel p1 n1 prev last_prev threshold else (p, pending).
Proof. cbn [equalize]. rewrite src_tp_equalize. reflexivity. Qed.
Lemma l_len_range l a : 0 <= l_len l a.
Proof. unfold l_len. lia. Qed.
Lemma src_reduce_all_step fuel p pending offenders last : l_len (p_pending p) last <= 18446744073709551615 ->
  reduce_all (S fuel) p pending offenders last =
  if mainchain_tx_pool__TxPool_truncatePending__for_pending_gt_pool_config_GlobalSlots_and_uint64_pool_pending_a_82da6082
       pending (c_gslots (p_cfg p)) (l_len (p_pending p) last) (c_aslots (p_cfg p))
  then let '(p1, n1) := cap_each p pending offenders in reduce_all fuel p1 n1 offenders last else (p, pending).
Proof. intros H. cbn [reduce_all]. rewrite src_tp_reduce by (pose proof (l_len_range (p_pending p) last); lia). reflexivity. Qed.

Lemma src_tq_early queued gq : mainchain_tx_pool__TxPool_truncateQueue__if_queued_le_pool_config_GlobalQueue queued gq = (queued <=? gq).
Proof. reflexivity. Qed.
Lemma src_tq_drop queued gq : 0 <= gq <= queued -> queued <= 18446744073709551615 -> mainchain_tx_pool__TxPool_truncateQueue__set_drop queued gq = queued - gq.
Proof. intros H1 H2. unfold mainchain_tx_pool__TxPool_truncateQueue__set_drop, go_sub. apply wrap_id. unfold in_range. lia. Qed.
Lemma src_tq_loop drop n : 0 < n -> mainchain_tx_pool__TxPool_truncateQueue__for_drop_gt_0_and_len_addresses_gt_0 drop n = (0 <? drop).
Proof.
  intros H. unfold mainchain_tx_pool__TxPool_truncateQueue__for_drop_gt_0_and_len_addresses_gt_0. rewrite !Z.gtb_ltb.
  replace (0 <? n) with true by (symmetry; apply Z.ltb_lt; lia). apply andb_true_r.
Qed.
Lemma src_tq_whole size drop : mainchain_tx_pool__TxPool_truncateQueue__if_size_le_drop size drop = (size <=? drop).
Proof. reflexivity. Qed.
Lemma src_tq_sub drop size : 0 <= size <= drop -> drop <= 18446744073709551615 -> mainchain_tx_pool__TxPool_truncateQueue__set_drop_op drop size = drop - size.
Proof. intros H1 H2. unfold mainchain_tx_pool__TxPool_truncateQueue__set_drop_op, go_sub. apply wrap_id. unfold in_range. lia. Qed.
Lemma src_tq_last i drop : 0 <= i -> mainchain_tx_pool__TxPool_truncateQueue__for_i_ge_0_and_drop_gt_0 i drop = (0 <? drop).
Proof.
  intros H. unfold mainchain_tx_pool__TxPool_truncateQueue__for_i_ge_0_and_drop_gt_0. rewrite Z.geb_leb, Z.gtb_ltb.
  replace (0 <=? i) with true by (symmetry; apply Z.leb_le; lia). reflexivity.
Qed.
Lemma src_tq_local inl : mainchain_tx_pool__TxPool_truncateQueue__if_not_pool_locals_contains_addr inl = negb inl.
Proof. reflexivity. Qed.
Lemma src_truncate_atoms :
  mainchain_tx_pool__TxPool_truncatePending__if_pending_le_pool_config_GlobalSlots_atoms = ["pending : uint64"; "pool.config.GlobalSlots : uint64"]%string
  /\ mainchain_tx_pool__TxPool_truncatePending__if_not_pool_locals_contains_addr_and_uint64_list_Len_gt_pool_co_7ec6767c_atoms = ["pool.locals.contains(addr) : bool"; "list.Len() : int"; "pool.config.AccountSlots : uint64"]%string
  /\ mainchain_tx_pool__TxPool_truncatePending__for_pending_gt_pool_config_GlobalSlots_and_pool_pending_at_offen_8860f6c3_atoms = ["pending : uint64"; "pool.config.GlobalSlots : uint64"; "pool.pending[offenders[len(offenders)-2]].Len() : int"; "threshold : int"]%string
  /\ mainchain_tx_pool__TxPool_truncatePending__for_pending_gt_pool_config_GlobalSlots_and_uint64_pool_pending_a_82da6082_atoms = ["pending : uint64"; "pool.config.GlobalSlots : uint64"; "pool.pending[offenders[len(offenders)-1]].Len() : int"; "pool.config.AccountSlots : uint64"]%string
  /\ mainchain_tx_pool__TxPool_truncatePending__let_threshold_atoms = ["pool.pending[offender].Len() : int"]%string
  /\ mainchain_tx_pool__TxPool_truncateQueue__if_queued_le_pool_config_GlobalQueue_atoms = ["queued : uint64"; "pool.config.GlobalQueue : uint64"]%string
  /\ mainchain_tx_pool__TxPool_truncateQueue__set_drop_atoms = ["queued : uint64"; "pool.config.GlobalQueue : uint64"]%string
  /\ mainchain_tx_pool__TxPool_truncateQueue__if_size_le_drop_atoms = ["size : uint64"; "drop : uint64"]%string
  /\ mainchain_tx_pool__TxPool_demoteUnexecutables__if_list_Len_gt_0_and_list_txs_Get_nonce_eq_nil_atoms = ["list.Len() : int"; "list.txs.Get(nonce) == nil : untyped bool"]%string
  /\ mainchain_tx_pool__TxPool_demoteUnexecutables__let_nonce_atoms = ["pool.currentState.GetNonce(addr) : uint64"]%string.
Proof. repeat split; reflexivity. Qed.

(** ** runReorg / reset / eviction loop / Status *)
Lemma src_reorg_nonce n : 0 <= n < 18446744073709551615 -> mainchain_tx_pool__TxPool_runReorg__assign n = n + 1.
Proof. intros H. unfold mainchain_tx_pool__TxPool_runReorg__assign, go_add. apply wrap_id. unfold in_range. lia. Qed.
Lemma src_reorg_dirty d r : mainchain_tx_pool__TxPool_runReorg__if_dirtyAccounts_ne_nil_and_reset_eq_nil d r = (d && r)%bool.
Proof. reflexivity. Qed.
Lemma src_reorg_changes : mainchain_tx_pool__TxPool_runReorg__put_pool_changesSinceReorg = 0.
Proof. reflexivity. Qed.
(* chain_galaxias reads the fork flag at newHead.Height + 1 *)
Lemma src_galaxias ch : 0 <= ch_height ch < 18446744073709551615 ->
  chain_galaxias ch = (galaxias_block <=? mainchain_tx_pool__TxPool_reset__set_next (ch_height ch)).
Proof.
  intros H. unfold chain_galaxias, mainchain_tx_pool__TxPool_reset__set_next, go_add.
  rewrite wrap_id by (unfold in_range; lia). reflexivity.
Qed.
Lemma src_reset_guards d a b h1 h2 :
  mainchain_tx_pool__TxPool_reset__if_depth_gt_64 d = (64 <? d)
  /\ mainchain_tx_pool__TxPool_reset__if_oldHead_ne_nil_and_oldHead_Hash_ne_newHead_LastBlockID_Hash a b = (a && b)%bool
  /\ mainchain_tx_pool__TxPool_reset__for_rem_Height_gt_add_Height h1 h2 = (h2 <? h1)
  /\ mainchain_tx_pool__TxPool_reset__for_add_Height_gt_rem_Height h1 h2 = (h2 <? h1)
  /\ mainchain_tx_pool__TxPool_reset__if_newNum_lt_oldNum h1 h2 = (h1 <? h2).
Proof.
  unfold mainchain_tx_pool__TxPool_reset__if_depth_gt_64, mainchain_tx_pool__TxPool_reset__for_rem_Height_gt_add_Height,
    mainchain_tx_pool__TxPool_reset__for_add_Height_gt_rem_Height.
  rewrite !Z.gtb_ltb. repeat split; reflexivity.
Qed.
Lemma src_reset_atoms :
  mainchain_tx_pool__TxPool_reset__if_depth_gt_64_atoms = ["depth : uint64"]%string
  /\ mainchain_tx_pool__TxPool_reset__if_oldHead_ne_nil_and_oldHead_Hash_ne_newHead_LastBlockID_Hash_atoms = ["oldHead != nil : untyped bool"; "oldHead.Hash() != newHead.LastBlockID.Hash : untyped bool"]%string
  /\ mainchain_tx_pool__TxPool_reset__for_rem_Height_gt_add_Height_atoms = ["rem.Height() : uint64"; "add.Height() : uint64"]%string
  /\ mainchain_tx_pool__TxPool_reset__for_add_Height_gt_rem_Height_atoms = ["add.Height() : uint64"; "rem.Height() : uint64"]%string
  /\ mainchain_tx_pool__TxPool_reset__set_next_atoms = ["newHead.Height : uint64"]%string
  /\ mainchain_tx_pool__TxPool_reset__put_pool_currentMaxGas_atoms = ["newHead.GasLimit : uint64"]%string
  /\ mainchain_tx_pool__TxPool_runReorg__assign_atoms = ["highestPending.Nonce() : uint64"]%string.
Proof. repeat split; reflexivity. Qed.
(* the lifetime test of the eviction loop (the model's [expire] takes the set of accounts it selects) *)
Lemma src_expiry since life : mainchain_tx_pool__TxPool_loop__if_time_Since_pool_beats_at_addr_gt_pool_config_Lifetime since life = (life <? since).
Proof. unfold mainchain_tx_pool__TxPool_loop__if_time_Since_pool_beats_at_addr_gt_pool_config_Lifetime. apply Z.gtb_ltb. Qed.
Lemma src_expiry_atoms :
  mainchain_tx_pool__TxPool_loop__if_time_Since_pool_beats_at_addr_gt_pool_config_Lifetime_atoms = ["time.Since(pool.beats[addr]) : time.Duration"; "pool.config.Lifetime : time.Duration"]%string
  /\ mainchain_tx_pool__TxPool_loop__if_pool_locals_contains_addr_atoms = ["pool.locals.contains(addr) : bool"]%string.
Proof. split; reflexivity. Qed.
Lemma src_status_codes : mainchain_tx_pool__TxPool_Status__let_assign = 2 /\ mainchain_tx_pool__TxPool_Status__let_assign_2 = 1.
Proof. split; reflexivity. Qed.

(** ** call arguments and switch cases (go2coq third revision) *)
Lemma src_promote_nonce n : 0 <= n < 18446744073709551615 -> mainchain_tx_pool__TxPool_promoteTx__arg_tx_Nonce_plus_1 n = n + 1.
Proof. intros H. unfold mainchain_tx_pool__TxPool_promoteTx__arg_tx_Nonce_plus_1, go_add. apply wrap_id. unfold in_range. lia. Qed.
(* promote_tx sets the pending nonce to the source argument *)
Lemma src_promote_tx_nonce p a t pd' : 0 <= t_nonce t < 18446744073709551615 ->
  l_add (p_pending p) t (c_price_bump (p_cfg p)) = (true, None, pd') ->
  fst (promote_tx p a t) = pn_set (set_pending p pd') a (mainchain_tx_pool__TxPool_promoteTx__arg_tx_Nonce_plus_1 (t_nonce t)).
Proof. intros H E. unfold promote_tx. rewrite E, src_promote_nonce by exact H. reflexivity. Qed.
Lemma src_bump_base bump : 0 <= bump <= 9223372036854775707 -> mainchain_tx_pool__txList_Add__arg_100_plus_int64_priceBump bump = 100 + bump.
Proof.
  intros H. unfold mainchain_tx_pool__txList_Add__arg_100_plus_int64_priceBump, go_add, go_conv.
  rewrite (wrap_id I64 bump) by (unfold in_range; lia). apply wrap_id. unfold in_range. lia.
Qed.
(* priceHeap.Less: the two price cases of the switch are the first key of [hkey_lt] *)
Lemma src_price_heap_cases o x y :
  (mainchain_tx_pool__priceHeap_Less__case_h_at_i__GasPriceCmp_h_at_j_eq_minus_1 (cmp_int (t_price x) (t_price y)) = true -> hkey_lt o x y = true)
  /\ (mainchain_tx_pool__priceHeap_Less__case_h_at_i__GasPriceCmp_h_at_j_eq_1 (cmp_int (t_price x) (t_price y)) = true -> hkey_lt o x y = false).
Proof.
  unfold mainchain_tx_pool__priceHeap_Less__case_h_at_i__GasPriceCmp_h_at_j_eq_minus_1,
    mainchain_tx_pool__priceHeap_Less__case_h_at_i__GasPriceCmp_h_at_j_eq_1, cmp_int, hkey_lt.
  destruct (Z.compare_spec (t_price x) (t_price y)) as [He|Hl|Hg]; split; intros H; try discriminate.
  - replace (t_price x <? t_price y) with true by (symmetry; apply Z.ltb_lt; lia). reflexivity.
  - replace (t_price x <? t_price y) with false by (symmetry; apply Z.ltb_ge; lia).
    replace (t_price y <? t_price x) with true by (symmetry; apply Z.ltb_lt; lia). reflexivity.
Qed.
(* list.Cap(list.Len() - 1) of truncatePending is the threshold of [cap_one] *)
Lemma src_cap_one_threshold len : -9223372036854775807 <= len <= 9223372036854775807 ->
  mainchain_tx_pool__TxPool_truncatePending__arg_list_Len_minus_1 len = len - 1
  /\ mainchain_tx_pool__TxPool_truncatePending__arg_list_Len_minus_1_2 len = len - 1.
Proof.
  intros H. unfold mainchain_tx_pool__TxPool_truncatePending__arg_list_Len_minus_1, mainchain_tx_pool__TxPool_truncatePending__arg_list_Len_minus_1_2, go_sub.
  split; apply wrap_id; unfold in_range; lia.
Qed.
(* the count handed to priced.Removed by promoteExecutables *)
Lemma src_promote_removed a b c : 0 <= a -> 0 <= b -> 0 <= c -> a + b + c <= 9223372036854775807 ->
  mainchain_tx_pool__TxPool_promoteExecutables__arg_len_forwards_plus_len_drops_plus_len_caps a b c = a + b + c.
Proof.
  intros. unfold mainchain_tx_pool__TxPool_promoteExecutables__arg_len_forwards_plus_len_drops_plus_len_caps, go_add.
  rewrite (wrap_id I64 (a + b)) by (unfold in_range; lia). apply wrap_id. unfold in_range. lia.
Qed.
Lemma src_legacy_flag g : mainchain_tx_pool__TxPool_validateTx__arg_not_pool_isGalaxias g = negb g.
Proof. reflexivity. Qed.
Lemma src_args_atoms :
  mainchain_tx_pool__TxPool_add__arg_pool_all_Slots_minus_int_pool_config_GlobalSlots_plus_pool_c_dd788a09_atoms = ["pool.all.Slots() : int"; "pool.config.GlobalSlots : uint64"; "pool.config.GlobalQueue : uint64"; "numSlots(tx) : int"]%string
  /\ mainchain_tx_pool__TxPool_promoteTx__arg_tx_Nonce_plus_1_atoms = ["tx.Nonce() : uint64"]%string
  /\ mainchain_tx_pool__txList_Add__arg_100_plus_int64_priceBump_atoms = ["priceBump : uint64"]%string
  /\ mainchain_tx_pool__priceHeap_Less__case_h_at_i__GasPriceCmp_h_at_j_eq_minus_1_atoms = ["h[i].GasPriceCmp(h[j]) : int"]%string
  /\ mainchain_tx_pool__TxPool_truncatePending__arg_list_Len_minus_1_atoms = ["list.Len() : int"]%string
  /\ mainchain_tx_pool__TxPool_validateTx__arg_not_pool_isGalaxias_atoms = ["pool.isGalaxias : bool"]%string.
Proof. repeat split; reflexivity. Qed.

(** ** the whole tie as one statement (quoted by Properties.v) *)
Definition C17_source_tie_statement : Prop :=
  (mainchain_tx_pool__txSlotSize = tx_slot_size /\ mainchain_tx_pool__txMaxSize = tx_max_size)
  /\ (forall p t l, validate_tx p t l = validate_tx_src p t l)
  /\ (forall t legacy, 0 <= t_nz t -> 0 <= t_zb t -> t_nz t + t_zb t <= 18446744073709551615 -> intrinsic_gas t legacy = intrinsic_src t legacy)
  /\ (forall l t bump, l_add l t bump = l_add_src l t bump)
  /\ (forall strict l a cl gl, fst (fst (l_filter strict l a cl gl)) =
        filter (fun t => is_acct a t && mainchain_tx_pool__txList_Filter__ret_tx_Gas_gt_gasLimit_or_tx_Cost__Cmp_costLimit_gt_0 (t_gas t) gl (cmp_int (cost t) cl)) l)
  /\ (forall l, min_nonce l = fold_right (fun t m => if mainchain_tx_pool__txList_Filter__if_lowest_gt_nonce m (t_nonce t) then t_nonce t else m) mainchain_tx_pool__txList_Filter__let_lowest l)
  /\ (forall n lowest, mainchain_tx_pool__txList_Filter__ret_tx_Nonce_gt_lowest n lowest = (lowest <? n))
  /\ (forall l a th, fst (l_forward l a th) = filter (fun t => is_acct a t && mainchain_tx_pool__txSortedMap_Forward__for_m_index_Len_gt_0_and_mul_m_index_at_0_lt_threshold 1 (t_nonce t) th) l)
  /\ (forall l a th, l_cap l a th = if mainchain_tx_pool__txSortedMap_Cap__if_len_m_items_le_threshold (l_len l a) th then ([], l)
        else (filter (fun t => is_acct a t && (th <=? rank_in l a t)) l, filter (fun t => negb (is_acct a t && (th <=? rank_in l a t))) l))
  /\ (forall l a start, l_ready l a start = match of_acct a l with [] => [] | la =>
        if mainchain_tx_pool__txSortedMap_Ready__if_m_index_Len_eq_0_or_mul_m_index_at_0_gt_start (Z.of_nat (List.length la)) (min_nonce la) start
        then [] else run_from (List.length l) l a (min_nonce la) end)
  /\ (forall l a n, l_remove true l a n = match l_get l a n with None => (false, [], l) | Some _ =>
        (true, filter (fun t => is_acct a t && mainchain_tx_pool__txList_Remove__ret_tx_Nonce_gt_nonce (t_nonce t) n) (l_del l a n),
               filter (fun t => negb (is_acct a t && mainchain_tx_pool__txList_Remove__ret_tx_Nonce_gt_nonce (t_nonce t) n)) (l_del l a n)) end)
  /\ (forall o x y, t_price x = t_price y -> mainchain_tx_pool__priceHeap_Less__ret_h_at_i__Nonce_gt_h_at_j__Nonce (t_nonce x) (t_nonce y) = true -> hkey_lt o x y = true)
  /\ (forall o x y, t_price x = t_price y -> mainchain_tx_pool__priceHeap_Less__ret_h_at_i__Nonce_gt_h_at_j__Nonce (t_nonce y) (t_nonce x) = true -> hkey_lt o x y = false)
  /\ (forall p c, i64 (p_stales p + c) -> Z.of_nat (List.length (p_heap p)) <= 9223372036854775807 -> priced_removed p c = priced_removed_src p c)
  /\ (forall thr m, mainchain_tx_pool__txPricedList_Cap__if_cheapest_GasPriceIntCmp_threshold_ge_0 (cmp_int (t_price m) thr) = (thr <=? t_price m))
  /\ (forall t m, mainchain_tx_pool__txPricedList_Underpriced__ret_cheapest_GasPriceCmp_tx_ge_0 (cmp_int (t_price m) (t_price t)) = (t_price t <=? t_price m))
  /\ (forall len slots, 0 < len -> mainchain_tx_pool__txPricedList_Discard__for_len_mul_l_remotes_gt_0_and_slots_gt_0 len slots = negb (slots <=? 0))
  /\ (forall slots n, i64 (slots - n) -> mainchain_tx_pool__txPricedList_Discard__set_slots_op slots n = slots - n)
  /\ (forall sl force, mainchain_tx_pool__txPricedList_Discard__if_slots_gt_0_and_not_force sl force = ((0 <? sl) && negb force)%bool)
  /\ (forall o q t l, cfg_ok q t -> make_room o q t l = make_room_src o q t l)
  /\ (forall ch n, i64 (ch + n) -> mainchain_tx_pool__TxPool_add__set_changesSinceReorg_op ch n = ch + n)
  /\ (forall p from t, journal_tx p from t =
        if mainchain_tx_pool__TxPool_journalTx__if_pool_journal_eq_nil_or_not_pool_locals_contains_from (is_none (p_journal p)) (memN from (p_locals p))
        then p else set_journal p (option_map (fun j => j ++ [t]) (p_journal p)))
  /\ (forall p a v, pn_set_if_lower p a v = if mainchain_tx_pool__txNoncer_setIfLower__if_txn_nonces_at_addr_le_nonce (pn_get p a) v then p else pn_set p a v)
  /\ (forall c p price, set_gas_price c p price = let p1 := set_gasprice p price in
        if mainchain_tx_pool__TxPool_SetGasPrice__if_price_Cmp_old_gt_0 (cmp_int price (p_gasprice p)) then
          let '(p2, drop) := priced_cap p1 (o1 c) price in priced_removed (remove_txs p2 drop false) (Z.of_nat (List.length drop))
        else p1)
  /\ (forall (l : list tx) (g : option tx),
        mainchain_tx_pool__TxPool_demoteUnexecutables__if_list_Len_gt_0_and_list_txs_Get_nonce_eq_nil (Z.of_nat (List.length l)) (is_none g)
        = match l, g with _ :: _, None => true | _, _ => false end)
  /\ (forall inl len aslots, 0 <= len <= 18446744073709551615 ->
        mainchain_tx_pool__TxPool_truncatePending__if_not_pool_locals_contains_addr_and_uint64_list_Len_gt_pool_co_7ec6767c inl len aslots = (negb inl && (aslots <? len))%bool)
  /\ (forall pending gs len th, mainchain_tx_pool__TxPool_truncatePending__for_pending_gt_pool_config_GlobalSlots_and_pool_pending_at_offen_8860f6c3 pending gs len th = ((gs <? pending) && (th <? len))%bool)
  /\ (forall pending gs len aslots, 0 <= len <= 18446744073709551615 ->
        mainchain_tx_pool__TxPool_truncatePending__for_pending_gt_pool_config_GlobalSlots_and_uint64_pool_pending_a_82da6082 pending gs len aslots = ((gs <? pending) && (aslots <? len))%bool)
  /\ (forall queued gq, 0 <= gq <= queued -> queued <= 18446744073709551615 -> mainchain_tx_pool__TxPool_truncateQueue__set_drop queued gq = queued - gq)
  /\ (forall drop size, 0 <= size <= drop -> drop <= 18446744073709551615 -> mainchain_tx_pool__TxPool_truncateQueue__set_drop_op drop size = drop - size)
  /\ (forall n, 0 <= n < 18446744073709551615 -> mainchain_tx_pool__TxPool_runReorg__assign n = n + 1)
  /\ (forall ch, 0 <= ch_height ch < 18446744073709551615 -> chain_galaxias ch = (galaxias_block <=? mainchain_tx_pool__TxPool_reset__set_next (ch_height ch)))
  /\ (forall d, mainchain_tx_pool__TxPool_reset__if_depth_gt_64 d = (64 <? d))
  /\ (forall since life, mainchain_tx_pool__TxPool_loop__if_time_Since_pool_beats_at_addr_gt_pool_config_Lifetime since life = (life <? since))
  /\ (forall p a t pd', 0 <= t_nonce t < 18446744073709551615 -> l_add (p_pending p) t (c_price_bump (p_cfg p)) = (true, None, pd') ->
        fst (promote_tx p a t) = pn_set (set_pending p pd') a (mainchain_tx_pool__TxPool_promoteTx__arg_tx_Nonce_plus_1 (t_nonce t)))
  /\ (forall bump, 0 <= bump <= 9223372036854775707 -> mainchain_tx_pool__txList_Add__arg_100_plus_int64_priceBump bump = 100 + bump)
  /\ (forall o x y,
        (mainchain_tx_pool__priceHeap_Less__case_h_at_i__GasPriceCmp_h_at_j_eq_minus_1 (cmp_int (t_price x) (t_price y)) = true -> hkey_lt o x y = true)
        /\ (mainchain_tx_pool__priceHeap_Less__case_h_at_i__GasPriceCmp_h_at_j_eq_1 (cmp_int (t_price x) (t_price y)) = true -> hkey_lt o x y = false))
  /\ (forall len, -9223372036854775807 <= len <= 9223372036854775807 ->
        mainchain_tx_pool__TxPool_truncatePending__arg_list_Len_minus_1 len = len - 1 /\ mainchain_tx_pool__TxPool_truncatePending__arg_list_Len_minus_1_2 len = len - 1)
  /\ (forall a b c, 0 <= a -> 0 <= b -> 0 <= c -> a + b + c <= 9223372036854775807 ->
        mainchain_tx_pool__TxPool_promoteExecutables__arg_len_forwards_plus_len_drops_plus_len_caps a b c = a + b + c)
  /\ (mainchain_tx_pool__TxPool_add__arg_pool_all_Slots_minus_int_pool_config_GlobalSlots_plus_pool_c_dd788a09_atoms = ["pool.all.Slots() : int"; "pool.config.GlobalSlots : uint64"; "pool.config.GlobalQueue : uint64"; "numSlots(tx) : int"]%string
      /\ mainchain_tx_pool__TxPool_promoteTx__arg_tx_Nonce_plus_1_atoms = ["tx.Nonce() : uint64"]%string
      /\ mainchain_tx_pool__txList_Add__arg_100_plus_int64_priceBump_atoms = ["priceBump : uint64"]%string
      /\ mainchain_tx_pool__priceHeap_Less__case_h_at_i__GasPriceCmp_h_at_j_eq_minus_1_atoms = ["h[i].GasPriceCmp(h[j]) : int"]%string
      /\ mainchain_tx_pool__TxPool_truncatePending__arg_list_Len_minus_1_atoms = ["list.Len() : int"]%string
      /\ mainchain_tx_pool__TxPool_validateTx__arg_not_pool_isGalaxias_atoms = ["pool.isGalaxias : bool"]%string)
  /\ (mainchain_tx_pool__TxPool_validateTx__if_pool_currentMaxGas_lt_tx_Gas_atoms = ["pool.currentMaxGas : uint64"; "tx.Gas() : uint64"]%string
      /\ mainchain_tx_pool__TxPool_validateTx__if_pool_currentState_GetNonce_from_gt_tx_Nonce_atoms = ["pool.currentState.GetNonce(from) : uint64"; "tx.Nonce() : uint64"]%string
      /\ mainchain_tx_pool__TxPool_validateTx__if_pool_currentState_GetBalance_from__Cmp_tx_Cost_lt_0_atoms = ["pool.currentState.GetBalance(from).Cmp(tx.Cost()) : int"]%string
      /\ mainchain_tx_pool__txList_Add__if_old_GasPriceCmp_tx_ge_0_or_tx_GasPriceIntCmp_threshold_lt_0_atoms = ["old.GasPriceCmp(tx) : int"; "tx.GasPriceIntCmp(threshold) : int"]%string
      /\ mainchain_tx_pool__txList_Filter__ret_tx_Gas_gt_gasLimit_or_tx_Cost__Cmp_costLimit_gt_0_atoms = ["tx.Gas() : uint64"; "gasLimit : uint64"; "tx.Cost().Cmp(costLimit) : int"]%string
      /\ mainchain_tx_pool__priceHeap_Less__ret_h_at_i__Nonce_gt_h_at_j__Nonce_atoms = ["h[i].Nonce() : uint64"; "h[j].Nonce() : uint64"]%string
      /\ mainchain_tx_pool__TxPool_add__if_uint64_pool_all_Slots_plus_numSlots_tx_gt_pool_config_Global_f57d0a13_atoms = ["pool.all.Slots() : int"; "numSlots(tx) : int"; "pool.config.GlobalSlots : uint64"; "pool.config.GlobalQueue : uint64"]%string
      /\ mainchain_tx_pool__TxPool_truncateQueue__if_queued_le_pool_config_GlobalQueue_atoms = ["queued : uint64"; "pool.config.GlobalQueue : uint64"]%string
      /\ mainchain_tx_pool__TxPool_reset__if_depth_gt_64_atoms = ["depth : uint64"]%string).

Lemma C17_source_tie_proof : C17_source_tie_statement.
Proof.
  unfold C17_source_tie_statement.
  split; [exact src_consts|]. split; [exact src_validate_tx|]. split; [exact src_intrinsic_gas|].
  split; [exact src_l_add|]. split; [exact src_filter_removed|]. split; [exact src_min_nonce|].
  split; [exact src_filter_invalid|]. split; [exact src_forward|]. split; [exact src_cap|].
  split; [exact src_ready|]. split; [exact src_remove|]. split; [exact src_price_heap_tie|].
  split; [exact src_price_heap_tie_rev|]. split; [exact src_priced_removed|]. split; [exact src_priced_cap_stop|].
  split; [exact src_underpriced_ret|]. split; [exact src_discard_loop_guard|]. split; [exact src_discard_slots|].
  split; [exact src_discard_fail|]. split; [exact src_make_room|]. split; [exact src_changes_add|].
  split; [exact src_journal_tx|]. split; [exact src_pn_set_if_lower|]. split; [exact src_set_gas_price|].
  split; [exact src_demote_gap_guard|]. split; [exact src_tp_spammer|]. split; [exact src_tp_equalize|].
  split; [exact src_tp_reduce|]. split; [exact src_tq_drop|]. split; [exact src_tq_sub|].
  split; [exact src_reorg_nonce|]. split; [exact src_galaxias|].
  split; [intros d; apply (src_reset_guards d true true 0 0)|]. split; [exact src_expiry|].
  split; [exact src_promote_tx_nonce|]. split; [exact src_bump_base|]. split; [exact src_price_heap_cases|].
  split; [exact src_cap_one_threshold|]. split; [exact src_promote_removed|]. split; [exact src_args_atoms|].
  repeat split; reflexivity.
Qed.
