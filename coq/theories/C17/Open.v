(** C17 — statements that are NOT proved (kept as plain definitions; nothing depends on them).
    Each is exercised by the harness's direct oracles on the implementation. *)
From Coq Require Import List ZArith NArith Bool.
From Kardia Require Import Generated.C17Facts C17.Model C17.ProofsBasic C17.ProofsInv C17.ProofsReset C17.ProofsFinal.
Import ListNotations.
Local Open Scope Z_scope.

Definition is_local_acct (p : pool) (a : N) : Prop := In a (p_locals p).

(** Post-condition of truncatePending (oracle class limit-pending) after a reorg run whose reset
    REINJECTS transactions: proved without reinjection (C17_pending_limit_after_reorg_partial); with
    it the proof's invariant is gone (C17_reset_with_reinjection_refuted), the statement itself is
    not refuted. *)
Definition open_pending_limit_with_reinjection : Prop :=
  forall c p ch reinject, Inv p -> chain_nonneg ch -> 0 <= c_aslots (p_cfg p) ->
    let p' := run_reorg c p (Some (ch, reinject)) [] in
    Z.of_nat (length (p_pending p')) <= c_gslots (p_cfg p') \/
    forall a, ~ is_local_acct p' a -> l_len (p_pending p') a <= c_aslots (p_cfg p').

(** (Proved since: locals are exempt from price eviction - C17_local_flag_every_history,
    C17_price_eviction_spares_locals, C17_setprice_spares_locals; AccountQueue cap -
    C17_account_queue_cap; GlobalSlots/AccountSlots after a reorg run without reinjection -
    C17_pending_limit_after_reorg_partial.) *)

(** reset with reinjected (reorged-out) transactions: the full invariant is NOT preserved
    (C17_reset_with_reinjection_refuted, known finding pending-gap-reinject).  What remains open is the
    part of the invariant that does hold on every generated history: everything but gap-freeness
    inside a pending run. *)
Definition inv_but_gaps (p : pool) : Prop :=
  NoDup (map key (p_pending p)) /\ NoDup (map key (p_queue p)) /\
  (forall t, In t (map fst (p_all p)) <-> In t (p_pending p) \/ In t (p_queue p)) /\
  NoDup (map t_id (map fst (p_all p))) /\
  (forall t t', In t (p_pending p) -> In t' (p_queue p) -> key t <> key t') /\
  (forall t, In t (p_pending p) -> st_nonce (p_chain p) (sender t) <= t_nonce t /\
                                   cost t <= st_balance (p_chain p) (sender t) /\ t_gas t <= ch_gaslimit (p_chain p)) /\
  (forall t, In t (p_queue p) -> st_nonce (p_chain p) (sender t) <= t_nonce t).
Definition open_reset_with_reinjection_weak : Prop :=
  forall c p ch reinject, Inv p -> chain_nonneg ch -> inv_but_gaps (run_reorg c p (Some (ch, reinject)) []).
