(** C17 — statements that are NOT proved (kept as plain definitions; nothing depends on them).
    Each is exercised by the harness's direct oracles on the implementation. *)
From Coq Require Import List ZArith NArith Bool.
From Kardia Require Import Generated.C17Facts C17.Model C17.ProofsBasic C17.ProofsInv C17.ProofsReset C17.ProofsFinal.
Import ListNotations.
Local Open Scope Z_scope.

Definition is_local_acct (p : pool) (a : N) : Prop := In a (p_locals p).

(** Post-condition of truncatePending (oracle class limit-pending): after every reorg run the pool is
    within GlobalSlots unless every non-local account is within AccountSlots.  (The GlobalQueue half
    is proved: C17_queue_limit_after_reorg_partial.)  Also open: a non-local account's queue is within
    AccountQueue right after its own promotion run (oracle class limit-account-queue). *)
Definition open_pending_limit_after_reorg : Prop :=
  forall c p reset dirty, Inv p ->
    let p' := run_reorg c p reset dirty in
    Z.of_nat (length (p_pending p')) <= c_gslots (p_cfg p') \/
    forall a, ~ is_local_acct p' a -> l_len (p_pending p') a <= c_aslots (p_cfg p').

Definition open_account_queue_cap : Prop :=
  forall p a, Inv p -> ~ is_local_acct p a ->
    l_len (p_queue (promote_account p a)) a <= c_aqueue (p_cfg p).

(** Locals are exempt from price eviction (oracle classes local-flag / local-evicted /
    setprice-dropped): every transaction of a local account is flagged local in the index, and the
    pool-full branch of add and SetGasPrice remove only transactions flagged remote. *)
Definition open_local_flag : Prop :=
  forall c0 cfg ch file cs ops, Forall op_ok ops ->
    let p := run cs (new_pool c0 cfg ch file) ops in
    forall t, In t (map fst (p_all p)) -> is_local_acct p (sender t) -> In (t, true) (p_all p).

Definition open_price_eviction_spares_locals : Prop :=
  forall o p t l p1 oe, Inv p -> make_room o p t l = (p1, oe) ->
    forall x, In (x, true) (p_all p) -> In x (map fst (p_all p1)).

(** reset with reinjected (reorged-out) transactions: add runs against the new state while the
    pending lists still reflect the old one. *)
Definition open_reset_with_reinjection : Prop :=
  forall c p ch reinject, Inv p -> chain_nonneg ch -> Inv (run_reorg c p (Some (ch, reinject)) []).
