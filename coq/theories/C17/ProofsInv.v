(** C17 — the pool invariant and its preservation by the primitive operations. *)
From Coq Require Import List ZArith NArith Bool Lia.
From Kardia Require Import Generated.C17Facts C17.Model C17.ProofsBasic.
Import ListNotations.
Local Open Scope Z_scope.

(** The invariant.  [inv_run] says: for every account the pending nonces are exactly the interval
    [state nonce, pending nonce) — gap-free, starting at the state nonce, ending at the virtual
    nonce the pool hands out.  [inv_q]: queued nonces lie at or beyond that end (so pending and
    queue are disjoint and nothing is below the state nonce).  [inv_idx]/[inv_ids]: the index is
    the disjoint union of the two lists.  [inv_aff]: every pending tx is individually affordable
    and fits the block gas limit. *)
Record InvO (out : list tx) (p : pool) : Prop := mkInv {
  inv_kp : NoDup (map key (p_pending p));
  inv_kq : NoDup (map key (p_queue p));
  inv_idx : forall t, In t (map fst (p_all p)) <-> In t (p_pending p) \/ In t (p_queue p) \/ In t out;
  inv_ids : NoDup (map t_id (map fst (p_all p)));
  inv_run : forall a n, (exists t, In t (p_pending p) /\ sender t = a /\ t_nonce t = n) <->
                        st_nonce (p_chain p) a <= n < pn_get p a;
  inv_pn : forall a, st_nonce (p_chain p) a <= pn_get p a;
  inv_q : forall t, In t (p_queue p) -> pn_get p (sender t) <= t_nonce t;
  inv_aff : forall t, In t (p_pending p) ->
                      cost t <= st_balance (p_chain p) (sender t) /\ t_gas t <= ch_gaslimit (p_chain p)
}.
(** [out]: transactions that an operation has taken out of a list and not yet put back or
    un-indexed (empty between operations). *)
Definition Inv (p : pool) : Prop := InvO [] p.

(** Inv reads only these fields. *)
Definition core (p : pool) := (p_chain p, p_pending p, p_queue p, map fst (p_all p), p_nonces p).

Lemma Inv_core out p p' : core p = core p' -> InvO out p -> InvO out p'.
Proof.
  unfold core. intros H I. inversion H as [[H1 H2 H3 H4 H5]].
  destruct I as [a b c d e f g h].
  assert (Hpn : forall x, pn_get p' x = pn_get p x) by (intros x; unfold pn_get; rewrite H1, H5; reflexivity).
  constructor; try rewrite <- H2; try rewrite <- H3; try rewrite <- H4; try rewrite <- H1; auto.
  - intros x n. rewrite Hpn. apply e.
  - intros x. rewrite Hpn. apply f.
  - intros t Ht. rewrite Hpn. apply g; auto.
Qed.

Lemma core_priced_removed p c : core (priced_removed p c) = core p.
Proof. unfold priced_removed, reheap. destruct (_ <=? _); reflexivity. Qed.
Lemma core_priced_put p t l : core (priced_put p t l) = core p.
Proof. unfold priced_put. destruct l; reflexivity. Qed.
Lemma core_journal_tx p a t : core (journal_tx p a t) = core p.
Proof. unfold journal_tx. destruct (p_journal p); [destruct (memN _ _)|]; reflexivity. Qed.

(* ---- consequences *)

Lemma inv_disjoint out p : InvO out p -> forall t t', In t (p_pending p) -> In t' (p_queue p) -> key t <> key t'.
Proof.
  intros I t t' Hp Hq Hk. unfold key in Hk. inversion Hk as [[Hs Hn]].
  pose proof (inv_q _ p I t' Hq) as Hge.
  assert (st_nonce (p_chain p) (sender t') <= t_nonce t' < pn_get p (sender t')) as Hr.
  { apply (inv_run _ p I). exists t. auto. }
  lia.
Qed.

Lemma inv_queue_not_pending out p : InvO out p -> forall t, In t (p_queue p) -> l_get (p_pending p) (sender t) (t_nonce t) = None.
Proof.
  intros I t Hq. destruct (l_get (p_pending p) (sender t) (t_nonce t)) eqn:E; auto.
  apply l_get_some in E. destruct E as [Hin Hk]. exfalso. eapply inv_disjoint; eauto.
Qed.

Lemma all_get_some al id t : all_get al id = Some t -> In t (map fst al) /\ t_id t = id.
Proof.
  unfold all_get. destruct (find (id_is id) al) as [e|] eqn:E; cbn [option_map]; [|discriminate].
  intros H. inversion H; subst. apply find_some in E. destruct E as [Hin Hid].
  unfold id_is in Hid. apply N.eqb_eq in Hid. split; auto. apply in_map. auto.
Qed.

Lemma all_get_none al id : all_get al id = None -> forall t, In t (map fst al) -> t_id t <> id.
Proof.
  unfold all_get. destruct (find (id_is id) al) as [e|] eqn:E; cbn [option_map]; [discriminate|].
  intros _ t Hin Hid. apply in_map_iff in Hin. destruct Hin as [e [He Hin]].
  pose proof (find_none _ _ E e Hin) as Hf. unfold id_is in Hf. rewrite He, Hid, N.eqb_refl in Hf. discriminate.
Qed.

Lemma all_remove_In al id t : In t (map fst (all_remove al id)) <-> In t (map fst al) /\ t_id t <> id.
Proof.
  unfold all_remove. rewrite !in_map_iff. split.
  - intros [e [He Hin]]. apply filter_In in Hin. destruct Hin as [Hin Hn]. split; [exists e; auto|].
    subst. unfold id_is in Hn. apply negb_true_iff in Hn. apply N.eqb_neq in Hn. auto.
  - intros [[e [He Hin]] Hn]. exists e. split; auto. apply filter_In. split; auto.
    unfold id_is. apply negb_true_iff. apply N.eqb_neq. subst. auto.
Qed.

Lemma all_remove_ids al id : NoDup (map t_id (map fst al)) -> NoDup (map t_id (map fst (all_remove al id))).
Proof.
  rewrite !map_map. unfold all_remove. apply NoDup_map_filter.
Qed.

Lemma all_add_In al t b x : In x (map fst (all_add al t b)) <-> In x (map fst al) \/ x = t.
Proof.
  unfold all_add. rewrite map_app, in_app_iff. cbn. intuition.
Qed.

Lemma all_add_ids al t b : NoDup (map t_id (map fst al)) -> (forall x, In x (map fst al) -> t_id x <> t_id t) ->
  NoDup (map t_id (map fst (all_add al t b))).
Proof.
  intros Hd Hf. unfold all_add. rewrite !map_app. cbn [map fst].
  induction (map fst al) as [|x l IH]; cbn [map app].
  - constructor; [intros []|constructor].
  - inversion Hd; subst. constructor.
    + rewrite in_app_iff. cbn. intros [H|[H|[]]]; auto. apply (Hf x); cbn; auto.
    + apply IH; auto. intros y Hy. apply Hf. cbn. auto.
Qed.

Lemma all_remove_list_In l al t :
  In t (map fst (all_remove_list al l)) <-> In t (map fst al) /\ ~ In (t_id t) (map t_id l).
Proof.
  unfold all_remove_list. revert al. induction l as [|x l IH]; intros al; cbn [fold_left map In].
  - tauto.
  - rewrite IH, all_remove_In. intuition.
Qed.

Lemma all_remove_list_ids l al : NoDup (map t_id (map fst al)) -> NoDup (map t_id (map fst (all_remove_list al l))).
Proof.
  unfold all_remove_list. revert al. induction l as [|x l IH]; intros al H; cbn [fold_left]; auto.
  apply IH. apply all_remove_ids. auto.
Qed.

(* two index entries with the same id are the same tx *)
Lemma inv_id_inj out p : InvO out p -> forall t t', In t (map fst (p_all p)) -> In t' (map fst (p_all p)) -> t_id t = t_id t' -> t = t'.
Proof. intros I t t' H1 H2 H3. eapply NoDup_map_inj; eauto. apply (inv_ids _ p I). Qed.

(* ---- pending-nonce helpers *)

Lemma lookupZ_filter_neq m a b : a <> b -> lookupZ (filter (fun kv => negb (N.eqb (fst kv) a)) m) b = lookupZ m b.
Proof.
  intros Hne. induction m as [|[k v] m IH]; cbn [filter lookupZ fst]; auto.
  destruct (N.eqb k a) eqn:E; cbn [negb].
  - apply N.eqb_eq in E. subst. destruct (N.eqb a b) eqn:E2; [apply N.eqb_eq in E2; contradiction|]. auto.
  - cbn [lookupZ]. rewrite IH. reflexivity.
Qed.

Lemma pn_get_set_eq p a v : pn_get (pn_set p a v) a = v.
Proof. unfold pn_get, pn_set. cbn. rewrite N.eqb_refl. reflexivity. Qed.

Lemma pn_get_set_neq p a v b : a <> b -> pn_get (pn_set p a v) b = pn_get p b.
Proof.
  intros Hne. unfold pn_get, pn_set. cbn.
  destruct (N.eqb a b) eqn:E; [apply N.eqb_eq in E; contradiction|].
  rewrite lookupZ_filter_neq; auto.
Qed.

(** ------------------------------------------------------------------------------------------
    The cut lemma: cutting account [a]'s pending run at nonce [m] (everything at or above [m]
    leaves pending; some of it is dropped for good, the rest goes back to the queue) and setting
    the pending nonce to [m] preserves the invariant. *)
Lemma inv_cut out out' p p' a m :
  InvO out p ->
  st_nonce (p_chain p) a <= m <= pn_get p a ->
  p_chain p' = p_chain p ->
  (forall b, pn_get p' b = if N.eqb a b then m else pn_get p b) ->
  (forall t, In t (p_pending p') <-> In t (p_pending p) /\ ~ (sender t = a /\ m <= t_nonce t)) ->
  NoDup (map key (p_pending p')) -> NoDup (map key (p_queue p')) ->
  (forall t, In t (p_queue p') -> In t (p_queue p) \/ (In t (p_pending p) /\ sender t = a /\ m <= t_nonce t)) ->
  (forall t, In t (map fst (p_all p')) <-> In t (p_pending p') \/ In t (p_queue p') \/ In t out') ->
  NoDup (map t_id (map fst (p_all p'))) ->
  InvO out' p'.
Proof.
  intros I Hm Hch Hpn Hpend Hkp Hkq Hq Hidx Hids.
  constructor; auto; rewrite ?Hch.
  - intros b n. rewrite Hpn. split.
    + intros [t [Hin [Hs Hn]]]. apply Hpend in Hin. destruct Hin as [Hin Hnot].
      assert (Hr : st_nonce (p_chain p) b <= n < pn_get p b) by (apply (inv_run _ p I); eauto).
      destruct (N.eqb a b) eqn:E; auto. apply N.eqb_eq in E. subst b.
      split; [lia|]. destruct (Z_lt_ge_dec n m); auto. exfalso. apply Hnot. split; auto. lia.
    + intros Hr.
      assert (Hr' : st_nonce (p_chain p) b <= n < pn_get p b).
      { destruct (N.eqb a b) eqn:E; auto. apply N.eqb_eq in E. subst b. lia. }
      apply (inv_run _ p I) in Hr'. destruct Hr' as [t [Hin [Hs Hn]]].
      exists t. split; auto. apply Hpend. split; auto. intros [Hs' Hge].
      subst. rewrite N.eqb_refl in Hr. lia.
  - intros b. rewrite Hpn. destruct (N.eqb a b) eqn:E.
    + apply N.eqb_eq in E. subst. lia.
    + apply (inv_pn _ p I).
  - intros t Hin. rewrite Hpn. apply Hq in Hin. destruct Hin as [Hin|[Hin [Hs Hge]]].
    + pose proof (inv_q _ p I t Hin). destruct (N.eqb a (sender t)) eqn:E; auto.
      apply N.eqb_eq in E. rewrite <- E in *. lia.
    + subst a. rewrite N.eqb_refl. auto.
  - intros t Hin. apply Hpend in Hin. apply (inv_aff _ p I). tauto.
Qed.
