(** C17 — AccountQueue: right after its own promotion run a non-local account holds at most
    AccountQueue queued transactions (the post-condition of list.Cap in promoteExecutables). *)
From Coq Require Import List ZArith NArith Bool Lia.
From Kardia Require Import Generated.C17Facts C17.Model C17.ProofsBasic C17.ProofsInv C17.ProofsReorg C17.ProofsPromote C17.ProofsReset.
Import ListNotations.
Local Open Scope Z_scope.

Lemma filter_length_strict {A} (f g : A -> bool) l x :
  (forall y, f y = true -> g y = true) -> In x l -> f x = false -> g x = true ->
  (length (filter f l) < length (filter g l))%nat.
Proof.
  intros H. induction l as [|y l IH]; intros Hin Hf Hg; [destruct Hin|].
  cbn [filter]. destruct Hin as [->|Hin].
  - rewrite Hf, Hg. cbn [length]. pose proof (filter_length_mono f g l H). lia.
  - specialize (IH Hin Hf Hg). destruct (f y) eqn:E.
    + rewrite (H y E). cbn [length]. lia.
    + destruct (g y); cbn [length]; lia.
Qed.

Lemma rank_strict l a x y : In x l -> sender x = a -> t_nonce x < t_nonce y -> rank_in l a x < rank_in l a y.
Proof.
  intros Hin Hs Hlt. unfold rank_in. apply Nat2Z.inj_lt.
  apply (filter_length_strict _ _ l x).
  - intros z Hz. apply andb_true_iff in Hz. destruct Hz as [H1 H2]. apply Z.ltb_lt in H2.
    rewrite H1. cbn [andb]. apply Z.ltb_lt. lia.
  - exact Hin.
  - apply andb_false_iff. right. apply Z.ltb_irrefl.
  - apply andb_true_iff. split; [apply is_acct_true; exact Hs|apply Z.ltb_lt; exact Hlt].
Qed.

Lemma NoDup_map_on {A B} (f : A -> B) l :
  NoDup l -> (forall x y, In x l -> In y l -> f x = f y -> x = y) -> NoDup (map f l).
Proof.
  induction l as [|a l IH]; intros Hd Hinj; cbn [map]; [constructor|].
  inversion Hd as [|? ? Hn Hd']; subst. constructor.
  - intros Hin. apply in_map_iff in Hin. destruct Hin as [y [Hfy Hy]].
    assert (y = a) by (apply Hinj; cbn; auto). subst. contradiction.
  - apply IH; auto. intros x y Hx Hy. apply Hinj; cbn; auto.
Qed.

Lemma NoDup_of_map {A B} (f : A -> B) l : NoDup (map f l) -> NoDup l.
Proof.
  induction l as [|a l IH]; intros H; [constructor|]. cbn [map] in H. inversion H; subst.
  constructor; auto. intros Hin. apply H2. apply in_map. exact Hin.
Qed.

(* the entries of account [a] that list.Cap(th) keeps are at most th *)
Lemma l_cap_len l a th : NoDup (map key l) -> 0 <= th -> l_len (snd (l_cap l a th)) a <= th.
Proof.
  intros Hd Hth. unfold l_cap. destruct (l_len l a <=? th) eqn:E; cbn [snd]; [apply Z.leb_le; exact E|].
  unfold l_len, of_acct. rewrite filter_filter.
  set (K := filter (fun t => negb (is_acct a t && (th <=? rank_in l a t)) && is_acct a t) l).
  assert (HK : forall t, In t K <-> In t l /\ sender t = a /\ rank_in l a t < th).
  { intros t. unfold K. rewrite filter_In, andb_true_iff, negb_true_iff, andb_false_iff, is_acct_true, is_acct_false_iff, Z.leb_gt.
    split; [intros [H1 [[H2|H2] H3]]; [contradiction|auto]|intros [H1 [H2 H3]]; auto]. }
  assert (Hlen : (length K <= length (seq 0 (Z.to_nat th)))%nat).
  { rewrite <- (map_length (fun t => Z.to_nat (rank_in l a t)) K).
    apply NoDup_incl_length.
    - apply NoDup_map_on.
      + unfold K. apply NoDup_filter. eapply NoDup_of_map; eauto.
      + intros x y Hx Hy Hr. apply HK in Hx. apply HK in Hy.
        destruct Hx as [Hx [Hsx _]]. destruct Hy as [Hy [Hsy _]].
        assert (Hrr : rank_in l a x = rank_in l a y).
        { unfold rank_in in *. apply Nat2Z.inj in Hr || (rewrite !Nat2Z.id in Hr; congruence). }
        assert (Hn : t_nonce x = t_nonce y).
        { destruct (Z.lt_trichotomy (t_nonce x) (t_nonce y)) as [H|[H|H]]; auto.
          - pose proof (rank_strict l a x y Hx Hsx H). lia.
          - pose proof (rank_strict l a y x Hy Hsy H). lia. }
        eapply (NoDup_map_inj key); eauto. unfold key. congruence.
    - intros n Hn. apply in_map_iff in Hn. destruct Hn as [t [Hr Ht]]. apply HK in Ht. destruct Ht as [_ [_ Hlt]].
      apply in_seq. assert (0 <= rank_in l a t) by (unfold rank_in; lia). lia. }
  rewrite seq_length in Hlen. lia.
Qed.

(* promoteTx and the promotion loop leave the queue, the locals and the configuration alone *)
Lemma promote_tx_frame p a t :
  p_queue (fst (promote_tx p a t)) = p_queue p /\ p_locals (fst (promote_tx p a t)) = p_locals p /\ p_cfg (fst (promote_tx p a t)) = p_cfg p.
Proof.
  unfold promote_tx. destruct (l_add (p_pending p) t (c_price_bump (p_cfg p))) as [[ok old] pd].
  destruct ok; [destruct old|]; cbn [fst]; unfold priced_removed, reheap, pn_set; try destruct (_ <=? _); cbn; auto.
Qed.

Lemma promote_list_frame l : forall p a,
  p_queue (promote_list p a l) = p_queue p /\ p_locals (promote_list p a l) = p_locals p /\ p_cfg (promote_list p a l) = p_cfg p.
Proof.
  unfold promote_list. induction l as [|t l IH]; intros p a; cbn [fold_left]; auto.
  destruct (IH (fst (promote_tx p a t)) a) as [H1 [H2 H3]].
  destruct (promote_tx_frame p a t) as [G1 [G2 G3]]. repeat split; congruence.
Qed.

Theorem account_queue_cap p a :
  Inv p -> ~ In a (p_locals p) -> 0 <= c_aqueue (p_cfg p) ->
  l_len (p_queue (promote_account p a)) a <= c_aqueue (p_cfg p).
Proof.
  intros I Hloc Hq. unfold promote_account.
  destruct (of_acct a (p_queue p)) as [|z zs] eqn:Eacct.
  { unfold l_len. rewrite Eacct. cbn [length]. lia. }
  clear z zs Eacct.
  unfold l_forward. rewrite l_filter_false. cbv beta iota zeta.
  match goal with |- context [promote_list ?q a ?R] => set (q0 := q); set (R0 := R) end.
  destruct (promote_list_frame R0 q0 a) as [F1 [F2 F3]].
  set (p3 := promote_list q0 a R0) in *.
  assert (Hl3 : memN a (p_locals p3) = false).
  { rewrite F2. cbn. destruct (memN a (p_locals p)) eqn:E; auto. apply memN_In in E. contradiction. }
  rewrite Hl3.
  assert (Hc3 : p_cfg p3 = p_cfg p) by (rewrite F3; reflexivity).
  assert (Hd3 : NoDup (map key (p_queue p3))).
  { rewrite F1. unfold q0. cbn [p_queue set_queue set_all]. unfold minus_ids.
    apply NoDup_map_filter. apply NoDup_map_filter. apply NoDup_map_filter. apply (inv_kq _ p I). }
  pose proof (l_cap_len (p_queue p3) a (c_aqueue (p_cfg p3)) Hd3 ltac:(rewrite Hc3; exact Hq)) as Hcap.
  destruct (l_cap (p_queue p3) a (c_aqueue (p_cfg p3))) as [caps q3]. cbn [snd] in Hcap.
  rewrite Hc3 in Hcap.
  unfold priced_removed, reheap. destruct (_ <=? _); cbn [p_queue set_heap set_all set_queue]; exact Hcap.
Qed.

(* the configuration of every pool the model builds is sanitized: AccountQueue >= 1 *)
Lemma sanitize_aqueue c : 1 <= c_aqueue (sanitize c).
Proof. unfold sanitize. cbn [c_aqueue]. destruct (Z.ltb_spec (c_aqueue c) 1); [unfold def_account_queue|]; lia. Qed.
